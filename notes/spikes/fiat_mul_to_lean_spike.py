import re, sys
src = open('/repo/sm2/internal/fiat/fiat_sm2_64.go').read()
def func_body(name):
    m = re.search(r'^func %s\((.*?)\) \{\n(.*?)^\}' % name, src, re.S|re.M)
    return m.group(1), m.group(2)
def conv_expr(e):
    e = e.strip()
    # strip casts
    while True:
        m = re.fullmatch(r'\(?(?:uint64|sm2Uint1)\((.*)\)\)?', e)
        if m and balanced(m.group(1)): e = m.group(1).strip(); continue
        m = re.fullmatch(r'\((.*)\)', e)
        if m and balanced(m.group(1)): e = m.group(1).strip(); continue
        break
    m = re.fullmatch(r'(arg\d)\[(\d)\]', e)
    if m: return f'{m.group(1)}_{m.group(2)}'
    if re.fullmatch(r'0x[0-9a-f]+', e): return e
    if re.fullmatch(r'x\d+', e): return e
    raise Exception("expr "+e)
def balanced(s):
    d=0
    for c in s:
        if c=='(': d+=1
        if c==')':
            d-=1
            if d<0: return False
    return d==0
def tr(name):
    args, body = func_body(name)
    out=[]
    for line in body.split('\n'):
        line=line.strip()
        if not line or line.startswith('var '): continue
        m = re.fullmatch(r'(\w+), (\w+) = bits\.Mul64\((.*), (.*)\)', line)
        if m:
            hi, lo, a, b = m.groups(); a=conv_expr(a); b=conv_expr(b)
            if lo!='_': out.append(f'let {lo} := ({a} * {b}) % W')
            if hi!='_': out.append(f'let {hi} := ({a} * {b}) / W')
            continue
        m = re.fullmatch(r'(\w+), (\w+) = bits\.Add64\((.*), (.*), (.*)\)', line)
        if m:
            s, c, a, b, ci = m.groups(); a=conv_expr(a); b=conv_expr(b); ci=conv_expr(ci)
            if s!='_': out.append(f'let {s} := ({a} + {b} + {ci}) % W')
            if c!='_': out.append(f'let {c} := ({a} + {b} + {ci}) / W')
            continue
        m = re.fullmatch(r'(\w+), (\w+) = bits\.Sub64\((.*), (.*), (.*)\)', line)
        if m:
            s, c, a, b, ci = m.groups(); a=conv_expr(a); b=conv_expr(b); ci=conv_expr(ci)
            if s!='_': out.append(f'let {s} := ({a} + W - {b} - {ci}) % W')
            if c!='_': out.append(f'let {c} := 1 - ({a} + W - {b} - {ci}) / W')
            continue
        m = re.fullmatch(r'(x\d+) := \((.*) \+ (.*)\)', line)
        if m:
            v,a,b = m.groups(); out.append(f'let {v} := ({conv_expr(a)} + {conv_expr(b)}) % W'); continue
        m = re.fullmatch(r'(x\d+) := (arg\d\[\d\])', line)
        if m:
            out.append(f'let {m.group(1)} := {conv_expr(m.group(2))}'); continue
        m = re.fullmatch(r'sm2CmovznzU64\(&(x\d+), (.*), (x\d+), (x\d+)\)', line)
        if m:
            v,c,a,b = m.groups(); out.append(f'let {v} := cmov {conv_expr(c)} {a} {b}'); continue
        m = re.fullmatch(r'out1\[(\d)\] = (x\d+)', line)
        if m: 
            out.append(('OUT', m.group(1), m.group(2))); continue
        raise Exception("line "+line)
    return out
lines = tr('sm2Mul')
outs = [l for l in lines if isinstance(l, tuple)]
lets = [l for l in lines if not isinstance(l, tuple)]
print("namespace Gen")
print("")
print("def cmov (c a b : Nat) : Nat := if c = 0 then a else b")
print("def sm2Mul (arg1_0 arg1_1 arg1_2 arg1_3 arg2_0 arg2_1 arg2_2 arg2_3 : Nat) : Nat × Nat × Nat × Nat :=")
for l in lets: print("  "+l)
print("  (" + ", ".join(o[2] for o in outs) + ")")
print("end Gen")
