namespace EC
def p : Nat := 0xFFFFFFFEFFFFFFFFFFFFFFFFFFFFFFFFFFFFFFFF00000000FFFFFFFFFFFFFFFF
def n : Nat := 0xFFFFFFFEFFFFFFFFFFFFFFFFFFFFFFFF7203DF6B21C6052B53BBF40939D54123
def b : Nat := 0x28E9FA9E9D9F5E344D5A9E4BCF6509A7F39789F515AB8F92DDBCBD414D940E93
def gx : Nat := 0x32C4AE2C1F1981195F9904466A39C9948FE30BBFF2660BE1715A4589334C74C7
def gy : Nat := 0xBC3736A2F4F6779C59BDCEE36B692153D0A9877CC62A474002DF32E52139F0A0

-- projective RCB complete add for a=-3 over Nat mod p
structure Pt where
  x : Nat
  y : Nat
  z : Nat
deriving DecidableEq, Repr

@[inline] def fadd (a c : Nat) : Nat := (a + c) % p
@[inline] def fsub (a c : Nat) : Nat := (a + p - c) % p
@[inline] def fmul (a c : Nat) : Nat := (a * c) % p

def add (P Q : Pt) : Pt :=
  let t0 := fmul P.x Q.x
  let t1 := fmul P.y Q.y
  let t2 := fmul P.z Q.z
  let t3 := fadd P.x P.y
  let t4 := fadd Q.x Q.y
  let t3 := fmul t3 t4
  let t4 := fadd t0 t1
  let t3 := fsub t3 t4
  let t4 := fadd P.y P.z
  let x3 := fadd Q.y Q.z
  let t4 := fmul t4 x3
  let x3 := fadd t1 t2
  let t4 := fsub t4 x3
  let x3 := fadd P.x P.z
  let y3 := fadd Q.x Q.z
  let x3 := fmul x3 y3
  let y3 := fadd t0 t2
  let y3 := fsub x3 y3
  let z3 := fmul b t2
  let x3 := fsub y3 z3
  let z3 := fadd x3 x3
  let x3 := fadd x3 z3
  let z3 := fsub t1 x3
  let x3 := fadd t1 x3
  let y3 := fmul b y3
  let t1 := fadd t2 t2
  let t2 := fadd t1 t2
  let y3 := fsub y3 t2
  let y3 := fsub y3 t0
  let t1 := fadd y3 y3
  let y3 := fadd t1 y3
  let t1 := fadd t0 t0
  let t0 := fadd t1 t0
  let t0 := fsub t0 t2
  let t1 := fmul t4 y3
  let t2 := fmul t0 y3
  let y3 := fmul x3 z3
  let y3 := fadd y3 t2
  let x3 := fmul t3 x3
  let x3 := fsub x3 t1
  let z3 := fmul t4 z3
  let t1 := fmul t3 t0
  let z3 := fadd z3 t1
  ⟨x3, y3, z3⟩

def G : Pt := ⟨gx, gy, 1⟩
def O : Pt := ⟨0, 1, 0⟩

-- double and add, MSB first over fixed bit count
def smul (k : Nat) (P : Pt) : (bits : Nat) → Pt
  | 0 => O
  | bits+1 =>
    let acc := smul (k / 2) P bits
    let d := add acc acc
    if k % 2 = 1 then add d P else d

def isInf (P : Pt) : Bool := P.z == 0

end EC
