import sympy, time, sys
sys.setrecursionlimit(10000)
from sympy.ntheory import factorint, isprime, primitive_root
cert = {}
def pratt(q, depth=0):
    if q in cert or q < 1000: return
    assert isprime(q)
    t=time.time()
    f = factorint(q-1)
    print(" "*depth, q.bit_length(), "bits", {k.bit_length():v for k,v in f.items()}, round(time.time()-t,1), flush=True)
    # witness
    a = 2
    while True:
        if pow(a, q-1, q) == 1 and all(pow(a, (q-1)//r, q) != 1 for r in f): break
        a += 1
    cert[q] = (a, f)
    for r in f: pratt(r, depth+1)
p = 0xFFFFFFFEFFFFFFFFFFFFFFFFFFFFFFFFFFFFFFFF00000000FFFFFFFFFFFFFFFF
n = 0xFFFFFFFEFFFFFFFFFFFFFFFFFFFFFFFF7203DF6B21C6052B53BBF40939D54123
pratt(p); pratt(n)
print(len(cert), "primes in certificate")
import json
json.dump({str(k):[v[0], {str(a):b for a,b in v[1].items()}] for k,v in cert.items()}, open("/tmp/pratt.json","w"))
