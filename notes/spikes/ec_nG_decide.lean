import Sp.EC
open EC
set_option maxRecDepth 100000 in
theorem nG : isInf (smul n G 256) = true := by decide
