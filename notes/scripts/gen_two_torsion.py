#!/usr/bin/env python3
"""Witness for `no_two_torsion` (SMGo/Proofs/CurveGroupTwoTorsion.lean).

f = X^3 - 3X + b over F_p (SM2).  R = X^p mod f; G = R - X.  If gcd(f, X^p - X) = 1 then G is
invertible in F_p[X]/(f); print the inverse V (three coefficients) as Lean literals.  Lean re-checks
mulT V G = (1,0,0) in the kernel, nothing here is trusted.
"""
p = 0xFFFFFFFEFFFFFFFFFFFFFFFFFFFFFFFFFFFFFFFF00000000FFFFFFFFFFFFFFFF
b = 0x28E9FA9E9D9F5E344D5A9E4BCF6509A7F39789F515AB8F92DDBCBD414D940E93

def mulT(s, t):
    s0, s1, s2 = s; t0, t1, t2 = t
    d0 = s0*t0; d1 = s0*t1 + s1*t0; d2 = s0*t2 + s1*t1 + s2*t0; d3 = s1*t2 + s2*t1; d4 = s2*t2
    return ((d0 + (p - b)*d3) % p, (d1 + 3*d3 + (p - b)*d4) % p, (d2 + 3*d4) % p)

def powT(t, e):
    acc = (1, 0, 0)
    while e:
        if e & 1: acc = mulT(acc, t)
        t = mulT(t, t); e >>= 1
    return acc

R = powT((0, 1, 0), p)
G = (R[0], (R[1] + p - 1) % p, R[2])
# multiplication-by-G matrix, columns G*1, G*X, G*X^2
cols = [mulT(G, (1, 0, 0)), mulT(G, (0, 1, 0)), mulT(G, (0, 0, 1))]
M = [[cols[j][i] for j in range(3)] + [1 if i == 0 else 0] for i in range(3)]
for c in range(3):
    piv = next(r for r in range(c, 3) if M[r][c] % p)
    M[c], M[piv] = M[piv], M[c]
    inv = pow(M[c][c], p - 2, p)
    M[c] = [v * inv % p for v in M[c]]
    for r in range(3):
        if r != c and M[r][c]:
            k = M[r][c]
            M[r] = [(vr - k * vc) % p for vr, vc in zip(M[r], M[c])]
V = tuple(M[i][3] for i in range(3))
assert mulT(V, G) == (1, 0, 0)
print("def V : Nat × Nat × Nat :=\n  (%d,\n   %d,\n   %d)" % V)
