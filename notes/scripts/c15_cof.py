from c15_rcb import *
import time
x1,y1,x2,y2,di,x,y,yi = symbols('x1 y1 x2 y2 di x y yi')
h1 = y1**2-(x1**3-3*x1+b); h2 = y2**2-(x2**3-3*x2+b)
hd = (x2-x1)*di-1
A,B,C = addf(x1,y1,1,x2,y2,1)
l = (y2-y1)*di; x3 = l**2-x1-x2; y3 = l*(x1-x3)-y1
gens = (y1,y2,di,x2,x1,b)
def red(f, G, gens):
    t=time.time()
    q,r = reduced(expand(f), G, *gens, order='lex')
    print('  rem', r, 'sizes', [len(expand(c).args) if expand(c)!=0 else 0 for c in q], 'time', round(time.time()-t,1))
    return q,r
print('X'); qx,_ = red(A-x3*C,[h1,h2,hd],gens)
print('Y'); qy,_ = red(B-y3*C,[h1,h2,hd],gens)
lp = (-y2-y1)*di; xp = lp**2-x1-x2; W = lp*(x1-xp)-y1
print('Z');
for c in (1,-1,2,-2,8,-8):
    qz,r = red(C-c*(x2-x1)**3*W,[h1,h2,hd],gens)
    if r==0: print('c=',c); break
