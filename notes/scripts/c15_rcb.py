#!/usr/bin/env python3-vt
"""C15: symbolic evaluation of the regenerated point SLPs and cofactors for linear_combination."""
import re, sys
from sympy import symbols, expand, factor, reduced, Poly, groebner, together, cancel, simplify

def load(name):
    src = open('/verif/lean/SMGo/Gen/PointSLP.lean').read()
    m = re.search(r'def %s : List Instr :=\s*\[(.*?)\]\n' % name, src, re.S)
    return re.findall(r'⟨\.(\w+), "([^"]+)", "([^"]+)", "([^"]+)"⟩', m.group(1))

def run(prog, env):
    env = dict(env)
    for op, d, a, b in prog:
        x, y = env[a], env[b]
        env[d] = {'mul': x*y, 'add': x+y, 'sub': x-y, 'square': x*x}[op]
    return env

b = symbols('b')
def addf(X1,Y1,Z1,X2,Y2,Z2):
    e = run(load('add'), {'p1.x':X1,'p1.y':Y1,'p1.z':Z1,'p2.x':X2,'p2.y':Y2,'p2.z':Z2,'sm2B':b})
    return expand(e['x3']), expand(e['y3']), expand(e['z3'])
def dblf(X,Y,Z):
    e = run(load('double'), {'p.x':X,'p.y':Y,'p.z':Z,'sm2B':b})
    return expand(e['x3']), expand(e['y3']), expand(e['z3'])
