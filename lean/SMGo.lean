-- This module serves as the root of the `SMGo` library.
-- Import modules here that should be built as part of the library.
import SMGo.Basic
