/-
  Requests `gcm.sealglue.a64`, `gcm.openglue.a64`: the Go glue of sm4_gcm_arm64.go
  (`SMGo.Model.GCMGlueA64`: Seal/Open/ensureCapacity/cryptoBlocks/gHashUpdate/… statement by
  statement) run on the slice heap, with the kernels instantiated by the specification
  (`specKernels`: SM4 block, byte-wise XOR, `(tag ⊕ block) • H`).
  Same arguments, same heap set-up and same answer format as `gcm.sealglue` / `gcm.openglue`
  (Driver/GCMGlue.lean):

    gcm.sealglue.a64 <key> <nonce> <aad> <pt> <tag> <dstlen> <dstcap> <kind> <prefix> <noncesize>
    gcm.openglue.a64 <key> <nonce> <aad> <ct> <tag> <dstlen> <dstcap> <kind> <prefix> <noncesize>

  `inputs=unchanged` is evaluated over the arrays of the heap BEFORE the call (the locals the call
  allocates are not the caller's).  Core Lean only.
-/
import SMGo.Model.GCMGlueArm64
import Driver.GCMGlue
open SMGo SMGo.Model SMGo.Model.Mem

namespace Driver.GCMGlueArm64
open Driver.GCMGlue (parseReq outside setup render)

def handle (toks : List String) : Option String :=
  match toks with
  | "gcm.sealglue.a64" :: args =>
    match parseReq args with
    | none => some "bad-op"
    | some r =>
      if outside r then some "outside-domain" else
      match setup r.nonce r.aad r.inp r.pre r.dstcap r.kind with
      | none => some "bad-op"
      | some s =>
        let g := GCMGlueA64.newGCM r.key r.nonceSize r.tag
        some (render s (match GCMGlueA64.sealA64 g s.heap s.dst s.nonce s.inp s.aad with
          | .ok (h', ret) => .ok (h', some ret)
          | .err => .err
          | .panic => .panic))
  | "gcm.openglue.a64" :: args =>
    match parseReq args with
    | none => some "bad-op"
    | some r =>
      if outside r then some "outside-domain" else
      match setup r.nonce r.aad r.inp r.pre r.dstcap r.kind with
      | none => some "bad-op"
      | some s =>
        let g := GCMGlueA64.newGCM r.key r.nonceSize r.tag
        some (render s (GCMGlueA64.openA64 g s.heap s.dst s.nonce s.inp s.aad))
  | _ => none

end Driver.GCMGlueArm64
