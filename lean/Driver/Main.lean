/-
  `smgo_model`: the executable side of the correspondence check.  One request per line on stdin,
  one answer per line on stdout.  Imports specifications, models and generated definitions only
  (core Lean; nothing here may import Mathlib, or the executable would not link).
-/
import SMGo.Spec.Bytes
import SMGo.Spec.SM3
import SMGo.Model.Outcome
import SMGo.Model.Utils
import SMGo.Spec.Utils
import SMGo.Model.SM3State
import SMGo.Gen.SM3Const
open SMGo

def parseBytes (s : String) : Option Bytes :=
  if s = "-" then some [] else Bytes.ofHex s

/-- `nil` or hex -/
def parseOptBytes (s : String) : Option (Option Bytes) :=
  if s = "nil" then some none else (parseBytes s).map some

def showBytes (b : Bytes) : String := if b.isEmpty then "-" else Bytes.toHex b

def showOutcome {α : Type} (f : α → String) : Outcome α → String
  | .ok a => "ok " ++ f a
  | .err => "err"
  | .panic => "panic"

def ttModel : List W32 := Gen.SM3Const.tt.map (BitVec.ofNat 32)

def parseSM3Op (tok : String) : Option Model.SM3.Op :=
  if tok = "R" then some .reset
  else if tok.startsWith "W:" then (Bytes.ofHex (tok.drop 2).toString).map .write
  else if tok.startsWith "S:" then (Bytes.ofHex (tok.drop 2).toString).map .sum
  else none

def showSM3Out : Model.SM3.Out → String
  | .wrote n => s!"n={n}"
  | .digest b => "sum=" ++ Bytes.toHex b
  | .none => "-"

def specSM3Run (ops : List Model.SM3.Op) : List String :=
  (ops.foldl (fun (acc : Bytes × List String) op =>
    match op with
    | .write d => (acc.1 ++ d, s!"n={d.length}" :: acc.2)
    | .sum inp => (acc.1, ("sum=" ++ Bytes.toHex (inp ++ Spec.SM3.hash acc.1)) :: acc.2)
    | .reset => ([], "-" :: acc.2)) ([], [])).2.reverse

def handle (line : String) : String :=
  let toks := (line.splitOn " ").filter (· ≠ "")
  match toks with
  | ["cmp", a, b, l] =>
    match parseOptBytes a, parseOptBytes b, l.toInt? with
    | some a, some b, some l => showOutcome toString (Model.Utils.constantTimeCmp a b l)
    | _, _, _ => "bad-op"
  | ["naf", outLen, s, n, w] =>
    let out : Option (Option (List Int)) :=
      if outLen = "nil" then some none else outLen.toNat?.map (fun k => some (List.replicate k 0))
    match out, parseOptBytes s, n.toInt?, w.toInt? with
    | some out, some s, some n, some w =>
      showOutcome (fun (l : List Int) => ",".intercalate (l.map toString))
        (Model.Utils.decomposeNAF out s n w)
    | _, _, _, _ => "bad-op"
  | ["cmp.spec", a, b, l] =>
    match parseOptBytes a, parseOptBytes b, l.toInt? with
    | some a, some b, some l => showOutcome toString (Spec.Utils.cmp a b l)
    | _, _, _ => "bad-op"
  | ["naf.spec", outLen, s, n, w] =>
    -- the property's domain only: 32-byte s, n = 257, out of 257 zeros, 1 ≤ w ≤ 7
    match outLen.toNat?, parseBytes s, n.toNat?, w.toNat? with
    | some 257, some s, some 257, some w =>
      if s.length = 32 ∧ 1 ≤ w ∧ w ≤ 7 then
        let ds := Spec.Utils.naf w 257 (Bytes.toNatBE s)
        if Spec.Utils.digitsOk w ds && Spec.Utils.spaced w ds && Spec.Utils.nafValue ds == (Bytes.toNatBE s : Int) then
          "ok " ++ ",".intercalate (ds.map toString)
        else "spec-self-check-failed"
      else "outside-domain"
    | _, _, _, _ => "outside-domain"
  | "sm3.hist" :: ops =>
    match ops.mapM parseSM3Op with
    | some ops => " | ".intercalate ((Model.SM3.run ttModel ops).map showSM3Out)
    | none => "bad-op"
  | "sm3.spechist" :: ops =>
    match ops.mapM parseSM3Op with
    | some ops => " | ".intercalate (specSM3Run ops)
    | none => "bad-op"
  | ["sm3.sum", m] =>
    match parseBytes m with
    | some m => Bytes.toHex (Model.SM3.sumSM3 ttModel m)
    | none => "bad-op"
  | ["sm3.spec", m] =>
    match parseBytes m with
    | some m => Bytes.toHex (Spec.SM3.hash m)
    | none => "bad-op"
  | _ => "bad-op"

partial def loop (hin hout : IO.FS.Stream) : IO Unit := do
  let line ← hin.getLine
  if line.isEmpty then return ()
  let l := String.ofList (line.toList.filter (fun c => c != (Char.ofNat 10) && c != (Char.ofNat 13)))
  hout.putStrLn (handle l)
  hout.flush
  loop hin hout

def main : IO Unit := do
  let hin ← IO.getStdin
  let hout ← IO.getStdout
  loop hin hout
  hout.flush
