/-
  `smgo_model`: the executable side of the correspondence check.  One request per line on stdin,
  one answer per line on stdout.  Imports specifications, models and generated definitions only
  (core Lean; nothing here may import Mathlib, or the executable would not link).
-/
import SMGo.Spec.Bytes
import SMGo.Spec.SM3
import SMGo.Model.Outcome
import SMGo.Model.Utils
import SMGo.Spec.Utils
import SMGo.Model.SM3State
import SMGo.Gen.SM3Const
import SMGo.Spec.SM4
import SMGo.Model.SM4Inst
import Driver.SM2
import Driver.SM2Fiat
import Driver.GCM
import Driver.CTIR
import Driver.CTIRSM4
import Driver.GenDump
import Driver.Listing
import Driver.Asm
import Driver.AsmArm64
import Driver.SM4Wrap
open SMGo

def parseBytes (s : String) : Option Bytes :=
  if s = "-" then some [] else Bytes.ofHex s

/-- `nil` or hex -/
def parseOptBytes (s : String) : Option (Option Bytes) :=
  if s = "nil" then some none else (parseBytes s).map some

def showBytes (b : Bytes) : String := if b.isEmpty then "-" else Bytes.toHex b

def showOutcome {α : Type} (f : α → String) : Outcome α → String
  | .ok a => "ok " ++ f a
  | .err => "err"
  | .panic => "panic"

def ttModel : List W32 := Gen.SM3Const.tt.map (BitVec.ofNat 32)

def parseSM3Op (tok : String) : Option Model.SM3.Op :=
  if tok = "R" then some .reset
  else if tok.startsWith "W:" then (Bytes.ofHex (tok.drop 2).toString).map .write
  else if tok.startsWith "S:" then (Bytes.ofHex (tok.drop 2).toString).map .sum
  else none

def showSM3Out : Model.SM3.Out → String
  | .wrote n => s!"n={n}"
  | .digest b => "sum=" ++ Bytes.toHex b
  | .none => "-"

/-- what the specification says each call of a history answers: `Spec.SM3.runHistory`, the very
    function theorem `C04_history` is stated against -/
def specSM3Run (ops : List Spec.SM3.Op) : List String :=
  (Spec.SM3.runHistory ops).map showSM3Out

def showWords (ws : List W32) : String := Bytes.toHex (ws.flatMap w32Bytes)

/-- SM4 requests (portable model, specification) -/
def handleSM4 (toks : List String) : Option String :=
  match toks with
  | ["sm4.block", key, blk, dir] =>
    match parseBytes key, parseBytes blk with
    | some key, some blk =>
      match Model.SM4.newCipher Model.SM4.genTables key with
      | .ok (enc, dec) =>
        if blk.length ≠ 16 then some "bad-op" else
        some ("ok " ++ Bytes.toHex (Model.SM4.cryptoBlock Model.SM4.genTables (if dir = "enc" then enc else dec) blk))
      | _ => some "err"
    | _, _ => some "bad-op"
  | ["sm4.x2", key, blk, dir] =>
    match parseBytes key, parseBytes blk with
    | some key, some blk =>
      match Model.SM4.newCipher Model.SM4.genTables key with
      | .ok (enc, dec) =>
        if blk.length ≠ 32 then some "bad-op" else
        some ("ok " ++ Bytes.toHex (Model.SM4.cryptoBlockX2 Model.SM4.genTables (if dir = "enc" then enc else dec) blk))
      | _ => some "err"
    | _, _ => some "bad-op"
  | ["sm4.spec", key, blks, dir] =>
    -- any number of whole blocks, each through the specification
    match parseBytes key, parseBytes blks with
    | some key, some blks =>
      if key.length ≠ 16 then some "err" else
      if blks.length % 16 ≠ 0 then some "bad-op" else
      let rk := if dir = "enc" then Spec.SM4.keySchedule key else (Spec.SM4.keySchedule key).reverse
      let rec go (fuel : Nat) (b : Bytes) (acc : Bytes) : Bytes :=
        match fuel with
        | 0 => acc
        | fuel + 1 => if b.isEmpty then acc else go fuel (b.drop 16) (acc ++ Spec.SM4.crypt rk (b.take 16))
      some ("ok " ++ Bytes.toHex (go (blks.length / 16 + 1) blks []))
    | _, _ => some "bad-op"
  | ["sm4.expand", key] =>
    match parseBytes key with
    | some key =>
      match Model.SM4.newCipher Model.SM4.genTables key with
      | .ok (enc, dec) => some ("ok " ++ showWords enc ++ " " ++ showWords dec)
      | _ => some "err"
    | none => some "bad-op"
  | ["sm4.expand.spec", key] =>
    match parseBytes key with
    | some key =>
      if key.length ≠ 16 then some "err" else
      let rk := Spec.SM4.keySchedule key
      some ("ok " ++ showWords rk ++ " " ++ showWords rk.reverse)
    | none => some "bad-op"
  | _ => none

def handle (line : String) : String :=
  let toks := (line.splitOn " ").filter (· ≠ "")
  if let some r := handleSM4 toks then r else
  if let some r := Driver.SM2.handle toks then r else
  if let some r := Driver.SM2Fiat.handle toks then r else
  if let some r := Driver.GCM.handle toks then r else
  if let some r := Driver.CTIR.handle toks then r else
  if let some r := Driver.CTIRSM4.handle toks then r else
  if let some r := Driver.GenDump.handle toks then r else
  if let some r := Driver.Listing.handle toks then r else
  if let some r := Driver.Asm.handle toks then r else
  if let some r := Driver.AsmArm64.handle toks then r else
  if let some r := Driver.SM4Wrap.handle toks then r else
  match toks with
  | ["cmp", a, b, l] =>
    match parseOptBytes a, parseOptBytes b, l.toInt? with
    | some a, some b, some l => showOutcome toString (Model.Utils.constantTimeCmp a b l)
    | _, _, _ => "bad-op"
  | ["naf", outLen, s, n, w] =>
    let out : Option (Option (List Int)) :=
      if outLen = "nil" then some none else outLen.toNat?.map (fun k => some (List.replicate k 0))
    match out, parseOptBytes s, n.toInt?, w.toInt? with
    | some out, some s, some n, some w =>
      showOutcome (fun (l : List Int) => ",".intercalate (l.map toString))
        (Model.Utils.decomposeNAF out s n w)
    | _, _, _, _ => "bad-op"
  | ["cmp.spec", a, b, l] =>
    match parseOptBytes a, parseOptBytes b, l.toInt? with
    | some a, some b, some l => showOutcome toString (Spec.Utils.cmp a b l)
    | _, _, _ => "bad-op"
  | ["naf.spec", outLen, s, n, w] =>
    -- the property's domain only: 32-byte s, n = 257, out of 257 zeros, 1 ≤ w ≤ 7
    match outLen.toNat?, parseBytes s, n.toNat?, w.toNat? with
    | some 257, some s, some 257, some w =>
      if s.length = 32 ∧ 1 ≤ w ∧ w ≤ 7 then
        let ds := Spec.Utils.naf w 257 (Bytes.toNatBE s)
        if Spec.Utils.digitsOk w ds && Spec.Utils.spaced w ds && Spec.Utils.nafValue ds == (Bytes.toNatBE s : Int) then
          "ok " ++ ",".intercalate (ds.map toString)
        else "spec-self-check-failed"
      else "outside-domain"
    | _, _, _, _ => "outside-domain"
  | "sm3.hist" :: ops =>
    match ops.mapM parseSM3Op with
    | some ops => " | ".intercalate ((Model.SM3.run ttModel ops).map showSM3Out)
    | none => "bad-op"
  | "sm3.spechist" :: ops =>
    match ops.mapM parseSM3Op with
    | some ops => " | ".intercalate (specSM3Run ops)
    | none => "bad-op"
  | ["sm3.sum", m] =>
    match parseBytes m with
    | some m => Bytes.toHex (Model.SM3.sumSM3 ttModel m)
    | none => "bad-op"
  | ["sm3.spec", m] =>
    match parseBytes m with
    | some m => Bytes.toHex (Spec.SM3.hash m)
    | none => "bad-op"
  | _ => "bad-op"

partial def loop (hin hout : IO.FS.Stream) : IO Unit := do
  let line ← hin.getLine
  if line.isEmpty then return ()
  let l := String.ofList (line.toList.filter (fun c => c != (Char.ofNat 10) && c != (Char.ofNat 13)))
  hout.putStrLn (handle l)
  hout.flush
  loop hin hout

def main : IO Unit := do
  let hin ← IO.getStdin
  let hout ← IO.getStdout
  loop hin hout
  hout.flush
