/-
  `asm64.*` requests of the model driver: the regenerated arm64 LISTINGS of sm4/asm_arm64.s
  (SMGo/Gen/ListArm64Asm.lean + ListArm64AsmArr.lean) run by the value interpreter of SMGo/Model/ISAValArm64.lean.
  That interpreter is an UNVALIDATED transcription of the Arm ARM (the sandbox has no arm64 CPU or emulator): these
  requests allow comparing listing + transcription with the specification (or the portable Go code) on many
  inputs, NOT with a CPU.  Core Lean only.

    asm64.kernel <n> <rk> <blocks> [inplace]   n ∈ {1,2,4,8,16}; rk = 32 round keys, 8 hex digits each
                                               (the format of `sm4.expand`); blocks = 16·n bytes
        → ok <dst hex>      listing cryptoBlockAsm / X2 / X4 / X8 / X16Internal; `inplace`: dst = src;
                            n = 16: `tmp` = `dst`, as the Go wrapper cryptoBlockAsmX16 passes it
    asm64.expandkey <key>   → ok <enc words> <dec words>        listing expandKeyAsm
    asm64.ghash <H> <tag> <data>   → ok <tag>     listing gHashBlocks of gcm_arm64.s, count = |data|/16 (same answer
                                                  format as `asm.ghash`)
    asm64.xor <n> <a> <b> [dst1|dst2]   n ∈ {16,32,64,128,256}, a and b = n bytes
        → ok <dst hex>      listing xor<n>(dst, a, b); `dst1`: dst is the buffer of a (xorN(x, x, b)), `dst2`: dst is
                            the buffer of b (xorN(x, a, x)); otherwise a separate buffer
  Every failure of the interpreter (unknown mnemonic, operand shape, arrangement, access outside a region) is
  answered `error <message>`.
-/
import Driver.Asm
import SMGo.Model.ISAValArm64Inst
import SMGo.Model.ISAValArm64Gcm
open SMGo
open SMGo.Model.ISAValArm64

namespace Driver.AsmArm64
open Driver.Asm (parseBytes toNats showN wordsToMem wordsOf answer)

def region (s : State) (name : String) : Except String (List Nat) :=
  match regionBytes s name with
  | some b => .ok b
  | none => .error ("no region " ++ name)

def kernel (n : Nat) (rk blocks : List Nat) (inplace : Bool) : Except String String := do
  let (l, a) ← match kernelListing n with
    | some la => pure la
    | none => .error "no such kernel"
  if rk.length ≠ 128 then .error "rk must be 32 words" else
  if blocks.length ≠ 16 * n then .error "blocks must be 16·n bytes" else
  let s :=
    if n = 16 then
      if inplace then
        mkState junkG junkV symbols [⟨"rk", wordsMem (wordsOf rk), false⟩, ⟨"dst", blocks, true⟩]
          [("rk", arg 0), ("dst", arg 1), ("src", arg 1), ("tmp", arg 1)]
      else kernelStateX16Go junkG junkV (wordsOf rk) (List.replicate 256 0xEE) blocks
    else if inplace then kernelStateInPlace junkG junkV (wordsOf rk) blocks
    else kernelState junkG junkV (wordsOf rk) (List.replicate (16 * n) 0xEE) blocks
  let s' ← run l a s
  let d ← region s' "dst"
  pure (showN d)

def expandKey (key : List Nat) : Except String String := do
  let s := expandKeyState junkG junkV key (List.replicate 128 0xEE) (List.replicate 128 0xEE)
  let s' ← run Gen.ListArm64Asm.expandKeyAsm Gen.ListArm64AsmArr.expandKeyAsm_arr s
  let e ← region s' "enc"
  let d ← region s' "dec"
  pure (showN (wordsToMem e) ++ " " ++ showN (wordsToMem d))

def ghash (h tag data : List Nat) : Except String String := do
  if h.length ≠ 16 ∨ tag.length ≠ 16 then .error "H and tag must be 16 bytes" else
  let n := data.length / 16
  let t ← runGhash (ghFuel n) (ghashState junkG junkV h tag data n)
  pure (showN t)

def xorN (n : Nat) (a b : List Nat) (mode : Nat) : Except String String := do
  let (l, ar) ← match xorListing n with
    | some la => pure la
    | none => .error "no such routine"
  if a.length ≠ n ∨ b.length ≠ n then .error "a and b must be n bytes" else
  let s := match mode with
    | 1 => xorStateDst1 junkG junkV a b
    | 2 => xorStateDst2 junkG junkV a b
    | _ => xorState junkG junkV (List.replicate n 0xEE) a b
  let d ← runDst l ar s
  pure (showN d)

def handle (toks : List String) : Option String :=
  match toks with
  | ["asm64.ghash", h, tag, data] =>
    match parseBytes h, parseBytes tag, parseBytes data with
    | some h, some tag, some data => some (answer (ghash (toNats h) (toNats tag) (toNats data)))
    | _, _, _ => some "bad-op"
  | "asm64.xor" :: n :: a :: b :: rest =>
    match n.toNat?, parseBytes a, parseBytes b with
    | some n, some a, some b =>
      match rest with
      | [] => some (answer (xorN n (toNats a) (toNats b) 0))
      | ["dst1"] => some (answer (xorN n (toNats a) (toNats b) 1))
      | ["dst2"] => some (answer (xorN n (toNats a) (toNats b) 2))
      | _ => some "bad-op"
    | _, _, _ => some "bad-op"
  | "asm64.kernel" :: n :: rk :: blocks :: rest =>
    match n.toNat?, parseBytes rk, parseBytes blocks with
    | some n, some rk, some blocks =>
      match rest with
      | [] => some (answer (kernel n (toNats rk) (toNats blocks) false))
      | ["inplace"] => some (answer (kernel n (toNats rk) (toNats blocks) true))
      | _ => some "bad-op"
    | _, _, _ => some "bad-op"
  | ["asm64.expandkey", key] =>
    match parseBytes key with
    | some key => if key.length ≠ 16 then some "bad-op" else some (answer (expandKey (toNats key)))
    | none => some "bad-op"
  | _ => none

end Driver.AsmArm64
