/- `gen.dump <name>`: the regenerated tables as the translators emitted them, for the live read-back of C18. -/
import SMGo.Spec.Bytes
import SMGo.Gen.SM3Const
import SMGo.Gen.SM4Const
import SMGo.Gen.SM2Params
import SMGo.Gen.SM2Tables
open SMGo

namespace Driver.GenDump

def hexW (w : Nat) (l : List Nat) : String := Bytes.toHex (l.flatMap (Bytes.ofNatBE w))

def t3 (t : List (List (List (List Nat)))) : String := hexW 8 (t.flatten.flatten.flatten)
def t2 (t : List (List (List Nat))) : String := hexW 8 (t.flatten.flatten)

def handle (toks : List String) : Option String :=
  match toks with
  | ["gen.dump", name] =>
    some (match name with
    | "sm3.tt" => hexW 4 Gen.SM3Const.tt
    | "sm3.iv" => hexW 4 [Gen.SM3Const.iv0, Gen.SM3Const.iv1, Gen.SM3Const.iv2, Gen.SM3Const.iv3, Gen.SM3Const.iv4, Gen.SM3Const.iv5, Gen.SM3Const.iv6, Gen.SM3Const.iv7]
    | "sm4.sbox" => hexW 1 Gen.SM4Const.sbox
    | "sm4.s0" => hexW 4 Gen.SM4Const.s0
    | "sm4.s1" => hexW 4 Gen.SM4Const.s1
    | "sm4.s2" => hexW 4 Gen.SM4Const.s2
    | "sm4.s3" => hexW 4 Gen.SM4Const.s3
    | "sm4.ck" => hexW 4 Gen.SM4Const.ck
    | "sm4.fk" => hexW 4 [Gen.SM4Const.fk0, Gen.SM4Const.fk1, Gen.SM4Const.fk2, Gen.SM4Const.fk3]
    | "sm2.N" => hexW 32 [Gen.SM2Params.param_N]
    | "sm2.zBytes" => Bytes.toHex (Bytes.ofNatBE Gen.SM2Params.zBytesLen Gen.SM2Params.zBytesVal)
    | "sm2Precomputed_4_2_32" => t3 Gen.SM2Tables.sm2Precomputed_4_2_32
    | "sm2Precomputed_6_3_14" => t3 Gen.SM2Tables.sm2Precomputed_6_3_14
    | "sm2Precomputed_5_3_17" => t3 Gen.SM2Tables.sm2Precomputed_5_3_17
    | "sm2Precomputed_7_3_12" => t3 Gen.SM2Tables.sm2Precomputed_7_3_12
    | "sm2Precomputed_6_3_14_Remainder" => t2 Gen.SM2Tables.sm2Precomputed_6_3_14_Remainder
    | "sm2Precomputed_5_3_17_Remainder" => t2 Gen.SM2Tables.sm2Precomputed_5_3_17_Remainder
    | "sm2Precomputed_7_3_12_Remainder" => t2 Gen.SM2Tables.sm2Precomputed_7_3_12_Remainder
    | _ => "unknown-table")
  | _ => none

end Driver.GenDump
