/- `gen.dump <name>`: the regenerated tables as the translators emitted them, for the live read-back of C18. -/
import SMGo.Spec.Bytes
import SMGo.Gen.SM3Const
import SMGo.Gen.SM4Const
import SMGo.Gen.SM2Params
import SMGo.Gen.SM2Tables
import SMGo.Spec.SM2
import SMGo.Spec.SM4
import SMGo.Spec.SM3
open SMGo

namespace Driver.GenDump

def hexW (w : Nat) (l : List Nat) : String := Bytes.toHex (l.flatMap (Bytes.ofNatBE w))

def t3 (t : List (List (List (List Nat)))) : String := hexW 8 (t.flatten.flatten.flatten)
def t2 (t : List (List (List Nat))) : String := hexW 8 (t.flatten.flatten)

/-- the multiplier of entry idx (bit pattern) of sub-table j in a window-subtables-iterations-remainder comb -/
def combMult (w s it r j idx : Nat) : Nat :=
  (List.range w).foldl (fun acc t => acc + (idx / 2 ^ t % 2) * 2 ^ (r + j * it + t * s * it)) 0

def montLimbs (v : Nat) : List Nat :=
  let m := v * 2 ^ 256 % Spec.SM2.p
  [m % 2 ^ 64, m / 2 ^ 64 % 2 ^ 64, m / 2 ^ 128 % 2 ^ 64, m / 2 ^ 192 % 2 ^ 64]

def pointLimbs (P : Spec.SM2.Point) : List Nat × List Nat :=
  match P with
  | some (x, y) => (montLimbs x, montLimbs y)
  | none => ([0, 0, 0, 0], [0, 0, 0, 0])

/-- the table the derivation gives, in the code's layout [j][x|y][idx-1][limb] -/
def specComb (w s it r : Nat) : String :=
  hexW 8 ((List.range s).flatMap (fun j =>
    let pts := (List.range (2 ^ w - 1)).map (fun i => pointLimbs (Spec.SM2.smul (combMult w s it r j (i + 1)) Spec.SM2.G))
    (pts.flatMap (·.1)) ++ (pts.flatMap (·.2))))

def specRem (r : Nat) : String :=
  let pts := (List.range (2 ^ r - 1)).map (fun i => pointLimbs (Spec.SM2.smul (i + 1) Spec.SM2.G))
  hexW 8 ((pts.flatMap (·.1)) ++ (pts.flatMap (·.2)))

def specTT (i : Nat) : String :=
  hexW 4 ((List.range 256).map (fun x => (Spec.SM4.L (BitVec.ofNat 32 (Spec.SM4.sboxAlg x) <<< (24 - 8 * i))).toNat))

def handleSpec (toks : List String) : Option String :=
  match toks with
  | ["spec.table", name] =>
    some (match name with
    | "sm3.tt" => hexW 4 ((List.range 64).map (fun j => ((Spec.SM3.T j).rotateLeft (j % 32)).toNat))
    | "sm3.iv" => hexW 4 (Spec.SM3.IV.map (·.toNat))
    | "sm4.sbox" => hexW 1 ((List.range 256).map Spec.SM4.sboxAlg)
    | "sm4.s0" => specTT 0
    | "sm4.s1" => specTT 1
    | "sm4.s2" => specTT 2
    | "sm4.s3" => specTT 3
    | "sm4.ck" => hexW 4 ((List.range 32).map (fun i => (Spec.SM4.CK i).toNat))
    | "sm4.fk" => hexW 4 (Spec.SM4.FK.map (·.toNat))
    | "sm2.N" => hexW 32 [Spec.SM2.n]
    | "sm2.zBytes" => Bytes.toHex (Bytes.ofNatBE 32 Spec.SM2.a ++ Bytes.ofNatBE 32 Spec.SM2.b ++ Bytes.ofNatBE 32 Spec.SM2.Gx ++ Bytes.ofNatBE 32 Spec.SM2.Gy)
    | "sm2Precomputed_4_2_32" => specComb 4 2 32 0
    | "sm2Precomputed_6_3_14" => specComb 6 3 14 4
    | "sm2Precomputed_5_3_17" => specComb 5 3 17 1
    | "sm2Precomputed_7_3_12" => specComb 7 3 12 4
    | "sm2Precomputed_6_3_14_Remainder" => specRem 4
    | "sm2Precomputed_5_3_17_Remainder" => specRem 1
    | "sm2Precomputed_7_3_12_Remainder" => specRem 4
    | _ => "unknown-table")
  | _ => none

def handle (toks : List String) : Option String :=
  if let some r := handleSpec toks then some r else
  match toks with
  | ["gen.dump", name] =>
    some (match name with
    | "sm3.tt" => hexW 4 Gen.SM3Const.tt
    | "sm3.iv" => hexW 4 [Gen.SM3Const.iv0, Gen.SM3Const.iv1, Gen.SM3Const.iv2, Gen.SM3Const.iv3, Gen.SM3Const.iv4, Gen.SM3Const.iv5, Gen.SM3Const.iv6, Gen.SM3Const.iv7]
    | "sm4.sbox" => hexW 1 Gen.SM4Const.sbox
    | "sm4.s0" => hexW 4 Gen.SM4Const.s0
    | "sm4.s1" => hexW 4 Gen.SM4Const.s1
    | "sm4.s2" => hexW 4 Gen.SM4Const.s2
    | "sm4.s3" => hexW 4 Gen.SM4Const.s3
    | "sm4.ck" => hexW 4 Gen.SM4Const.ck
    | "sm4.fk" => hexW 4 [Gen.SM4Const.fk0, Gen.SM4Const.fk1, Gen.SM4Const.fk2, Gen.SM4Const.fk3]
    | "sm2.N" => hexW 32 [Gen.SM2Params.param_N]
    | "sm2.zBytes" => Bytes.toHex (Bytes.ofNatBE Gen.SM2Params.zBytesLen Gen.SM2Params.zBytesVal)
    | "sm2Precomputed_4_2_32" => t3 Gen.SM2Tables.sm2Precomputed_4_2_32
    | "sm2Precomputed_6_3_14" => t3 Gen.SM2Tables.sm2Precomputed_6_3_14
    | "sm2Precomputed_5_3_17" => t3 Gen.SM2Tables.sm2Precomputed_5_3_17
    | "sm2Precomputed_7_3_12" => t3 Gen.SM2Tables.sm2Precomputed_7_3_12
    | "sm2Precomputed_6_3_14_Remainder" => t2 Gen.SM2Tables.sm2Precomputed_6_3_14_Remainder
    | "sm2Precomputed_5_3_17_Remainder" => t2 Gen.SM2Tables.sm2Precomputed_5_3_17_Remainder
    | "sm2Precomputed_7_3_12_Remainder" => t2 Gen.SM2Tables.sm2Precomputed_7_3_12_Remainder
    | _ => "unknown-table")
  | _ => none

end Driver.GenDump
