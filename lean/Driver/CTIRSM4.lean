/- CT-IR requests for the Go glue of the accelerated SM4 / GCM paths (SMGo/Gen/CTIRProgSM4.lean).
   Core Lean only.

   ctirsm4.run   <arm64|amd64> <function> <arg>…   → ok <result>… | panic | stuck
   ctirsm4.trace <arm64|amd64> <function> <arg>…   → ok n=<events> h=<digest> d=<declassified verdicts>
   ctirsm4.check <arm64|amd64> <function>          → true | false

   The assembly routines are the external calls of the program; here their model (`sem`) is the
   specification: n blocks of SM4 with the given round keys (Spec.SM4), XOR of n bytes, the GHASH update
   (Spec.GCM.mulGF), the key schedule, and for the fused amd64 routines the whole of Algorithms 4 / 5 of
   SP 800-38D (Spec.GCM.sealGCM / openGCM).  Values as in Driver/CTIR.lean. -/
import SMGo.Model.CTIR
import SMGo.Gen.CTIRProgSM4
import SMGo.Spec.Bytes
import SMGo.Spec.SM4Fast
import SMGo.Spec.GCM
import Driver.CTIR
open SMGo SMGo.Model.CTIR

namespace Driver.CTIRSM4

def toBytes (l : List Val) : Bytes := l.map (fun v => match v with | .int n => UInt8.ofNat n.toNat | .arr _ => 0)
def ofBytes (b : Bytes) : List Int := b.map (fun x => Int.ofNat x.toNat)
def toWords (l : List Val) : List W32 := l.map (fun v => match v with | .int n => BitVec.ofNat 32 n.toNat | .arr _ => 0)

def blocksN (rk : List W32) (src : Bytes) (n : Nat) : Bytes :=
  (List.range n).flatMap (fun i => Spec.SM4.cryptFast rk ((src.drop (16 * i)).take 16))

def ghashUpd (h tag : Nat) (data : Bytes) (count : Nat) : Nat :=
  (List.range count).foldl (fun y i => Spec.GCM.mulGF (y ^^^ Spec.GCM.blockToNat ((data.drop (16 * i)).take 16)) h) tag

/-- the model of the routines: new elements of destination `j` -/
def sem (names : List String) : Nat → List Val → Nat → List Int := fun name args j =>
  let nm := names.getD name ""
  let bytesAt (i : Nat) : Bytes := toBytes (argBytes args i)
  let blocks (n : Nat) : List Int := ofBytes (blocksN (toWords (argBytes args 0)) (bytesAt 2) n)
  let xorN (n : Nat) : List Int := ofBytes (Spec.GCM.xorBytes ((bytesAt 1).take n) ((bytesAt 2).take n))
  if nm = "sm4.cryptoBlockAsm" then blocks 1
  else if nm = "sm4.cryptoBlockAsmX2" then blocks 2
  else if nm = "sm4.cryptoBlockAsmX4" then blocks 4
  else if nm = "sm4.cryptoBlockAsmX8" then blocks 8
  else if nm = "sm4.cryptoBlockAsmX16" then blocks 16
  else if nm = "sm4.xor16" then xorN 16
  else if nm = "sm4.xor32" then xorN 32
  else if nm = "sm4.xor64" then xorN 64
  else if nm = "sm4.xor128" then xorN 128
  else if nm = "sm4.xor256" then xorN 256
  else if nm = "sm4.gHashBlocks" then
    ofBytes (Spec.GCM.natToBlock (ghashUpd (Spec.GCM.blockToNat (bytesAt 0)) (Spec.GCM.blockToNat ((bytesAt 1).take 16)) (bytesAt 2) (argInt args 3).toNat))
  else if nm = "sm4.expandKeyAsm" then
    let rk := Spec.SM4.keySchedule ((bytesAt 0).take 16)
    (if j = 0 then rk else rk.reverse).map (fun w => Int.ofNat w.toNat)
  else if nm = "sm4.copyAsm" then ofBytes ((bytesAt 1).take (argInt args 2).toNat)
  else if nm = "sm4.needExpand" then
    -- (len, cap, asked): 0 when the capacity suffices
    [if argInt args 1 - argInt args 0 ≥ argInt args 2 then 0 else 1]
  else if nm = "sm4.sealAsm" then
    -- (roundKeys, tagSize, dst, nonce, plaintext, additionalData, temp)
    if j = 0 then ofBytes (Spec.GCM.sealGCM (Spec.SM4.cryptFast (toWords (argBytes args 0))) (argInt args 1).toNat (bytesAt 3) (bytesAt 4) (bytesAt 5))
    else []
  else if nm = "sm4.openAsm" then
    -- (roundKeys, tagSize, dst, nonce, ciphertext ‖ tag, additionalData, temp) ↦ 1 on a matching tag
    match Spec.GCM.openGCM (Spec.SM4.cryptFast (toWords (argBytes args 0))) (argInt args 1).toNat (bytesAt 3) (bytesAt 4) (bytesAt 5) with
    | some pt => if j = 0 then ofBytes pt else if j = 2 then [1] else []
    | none => if j = 2 then [0] else []
  else []

structure Arch where
  prog : Prog
  sigs : Sigs
  globals : Nat → Val
  fnNames : List String
  extNames : List String
  specs : List AsmSpec

def archOf (s : String) : Option Arch :=
  if s = "arm64" then
    some ⟨Gen.CTIRProgSM4.Arm64.prog, Gen.CTIRProgSM4.Arm64.sigs, Gen.CTIRProgSM4.Arm64.globals,
      Gen.CTIRProgSM4.Arm64.fnNames, Gen.CTIRProgSM4.Arm64.extNames, Gen.CTIRProgSM4.Arm64.asmSpecs⟩
  else if s = "amd64" then
    some ⟨Gen.CTIRProgSM4.Amd64.prog, Gen.CTIRProgSM4.Amd64.sigs, Gen.CTIRProgSM4.Amd64.globals,
      Gen.CTIRProgSM4.Amd64.fnNames, Gen.CTIRProgSM4.Amd64.extNames, Gen.CTIRProgSM4.Amd64.asmSpecs⟩
  else none

def lookupFn (a : Arch) (name : String) : Option Nat :=
  (a.fnNames.zipIdx.find? (fun p => p.1 == name)).map (·.2)

def runFn (a : Arch) (name : String) (args : List String) : Option (Option (Ctl × Trace)) :=
  match lookupFn a name, args.mapM Driver.CTIR.parseArg with
  | some g, some vs => some (run (slice a.prog g) a.globals (asmOracle a.specs (sem a.extNames)) 30000 g vs)
  | _, _ => none

def handle (toks : List String) : Option String :=
  match toks with
  | "ctirsm4.run" :: arch :: name :: args =>
    match archOf arch with
    | none => some "bad-op"
    | some a =>
      match runFn a name args with
      | none => some "bad-op"
      | some none => some "stuck"
      | some (some (.ret vs, _)) => some ("ok" ++ String.join (vs.map (fun v => " " ++ Driver.CTIR.showVal v)))
      | some (some (.panic, _)) => some "panic"
      | some (some _) => some "stuck"
  | "ctirsm4.trace" :: arch :: name :: args =>
    match archOf arch with
    | none => some "bad-op"
    | some a =>
      match runFn a name args with
      | none => some "bad-op"
      | some none => some "stuck"
      | some (some (c, t)) =>
        let kind := match c with | .ret _ => "ok" | .panic => "panic" | _ => "stuck"
        some s!"{kind} n={t.length} h={traceDigest t} d={Driver.CTIR.showDeclass t}"
  | ["ctirsm4.check", arch, name] =>
    match archOf arch with
    | none => some "bad-op"
    | some a =>
      match lookupFn a name with
      | some g => some (toString (check (slice a.prog g) a.sigs g))
      | none => some "bad-op"
  | _ => none

end Driver.CTIRSM4
