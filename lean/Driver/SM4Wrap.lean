/-
  Requests `sm4.wrap` (the `cipher.Block` wrappers of SM4 run on the slice heap,
  `SMGo.Model.SM4Wrap`) and `sm4.wrap.spec` (the contract written directly over the specification,
  with no heap and no model of the code).  Core Lean only.

    sm4.wrap      <path> <op> <key> <buf> <dst> <src>
    sm4.wrap.spec <path> <op> <key> <buf> <dst> <src>

  path: go   the portable wrappers of sm4.go (arithmetic: Model/SM4Block.lean with the generated
             tables, round keys from the model of `expandKey`)
        asm  the wrappers of sm4_asm.go; the one-block kernel reads 16 bytes, then writes
             `Spec.SM4.cryptFast rk` of them (= `Spec.SM4.crypt rk`, Proofs/SM4Fast.lean), round keys
             `Spec.SM4.keyScheduleFast key` (= `Spec.SM4.keySchedule key`, Proofs/SM4KeyFast.lean)
  op:   enc | dec        Encrypt / Decrypt
        x2enc | x2dec    encryptX2 / decryptX2 (path go only)
  buf:  the one backing array (hex); dst, src: `nil` or `<off>:<len>:<cap>` inside it
  answer: `panic` or `ok <buf afterwards>`; `bad-op` for a malformed request (a slice that does not
  fit the array, a key that is not 16 bytes).

  The specification side: panic iff a length is below 16 (x2: a capacity below 32); otherwise the
  buffer with `buf[dst.off : dst.off+16]` replaced by the SM4 encryption/decryption of
  `buf[src.off : src.off+16]` as it was before the call (x2: two blocks), nothing else changed.
  (`cryptFast`/`keyScheduleFast`: the specification with the algebraic S-box tabulated once; equal
  to `crypt`/`keySchedule` by the two theorems above, restated in Props/C05Wrap.lean.)
  Key schedules are computed only on the paths that use them (a panicking call needs none).
-/
import SMGo.Spec.Bytes
import SMGo.Spec.SM4
import SMGo.Spec.SM4Fast
import SMGo.Spec.SM4KeyFast
import SMGo.Model.Outcome
import SMGo.Model.Slice
import SMGo.Model.SM4Inst
import SMGo.Model.SM4Wrap
open SMGo SMGo.Model SMGo.Model.Mem

namespace Driver.SM4Wrap

def parseBytes (s : String) : Option Bytes :=
  if s = "-" then some [] else Bytes.ofHex s

def showB (b : Bytes) : String := if b.isEmpty then "-" else Bytes.toHex b

/-- `nil` or `off:len:cap`, a slice of array 0 -/
def parseSlice (s : String) : Option Slice :=
  if s = "nil" then some Slice.nil else
  match s.splitOn ":" with
  | [o, l, c] => do
    let o ← o.toNat?
    let l ← l.toNat?
    let c ← c.toNat?
    some { arr := some 0, off := o, len := l, cap := c }
  | _ => none

def render : Outcome Heap → String
  | .ok h => "ok " ++ showB (arrayOf h 0)
  | .err => "err"
  | .panic => "panic"

/-- bytes `[off, off+n)` of `buf` replaced by `out` -/
def patch (buf : Bytes) (off : Nat) (out : Bytes) : Bytes :=
  buf.take off ++ out ++ buf.drop (off + out.length)

def model (path op : String) (key buf : Bytes) (dst src : Slice) : Option (Outcome Heap) :=
  let h : Heap := [buf]
  if path = "go" then
    let (enc, dec) := SM4.expandKey SM4.genTables key
    let c : SM4Wrap.Cipher := { enc := enc, dec := dec }
    if op = "enc" then some (SM4Wrap.encrypt SM4.genTables c h dst src)
    else if op = "dec" then some (SM4Wrap.decrypt SM4.genTables c h dst src)
    else if op = "x2enc" then some (SM4Wrap.encryptX2 SM4.genTables c h dst src)
    else if op = "x2dec" then some (SM4Wrap.decryptX2 SM4.genTables c h dst src)
    else none
  else if path = "asm" then
    let c : SM4Wrap.CipherAsm :=
      { encK := fun b => Spec.SM4.cryptFast (Spec.SM4.keyScheduleFast key) b
        decK := fun b => Spec.SM4.cryptFast (Spec.SM4.keyScheduleFast key).reverse b }
    if op = "enc" then some (SM4Wrap.encryptAsm c h dst src)
    else if op = "dec" then some (SM4Wrap.decryptAsm c h dst src)
    else none
  else none

def spec (op : String) (key buf : Bytes) (dst src : Slice) : Option String :=
  let blk (dec : Bool) (rk : List W32) (b : Bytes) : Bytes := Spec.SM4.cryptFast (if dec then rk.reverse else rk) b
  if op = "enc" ∨ op = "dec" then
    if src.len < 16 ∨ dst.len < 16 then some "panic" else
    let rk := Spec.SM4.keyScheduleFast key
    some ("ok " ++ showB (patch buf dst.off (blk (op = "dec") rk ((buf.drop src.off).take 16))))
  else if op = "x2enc" ∨ op = "x2dec" then
    if src.cap < 32 ∨ dst.cap < 32 then some "panic" else
    let rk := Spec.SM4.keyScheduleFast key
    let x := (buf.drop src.off).take 32
    some ("ok " ++ showB (patch buf dst.off (blk (op = "x2dec") rk (x.take 16) ++ blk (op = "x2dec") rk (x.drop 16))))
  else none

def handle (toks : List String) : Option String :=
  match toks with
  | [cmd, path, op, key, buf, dst, src] =>
    if cmd ≠ "sm4.wrap" ∧ cmd ≠ "sm4.wrap.spec" then none else
    match parseBytes key, parseBytes buf, parseSlice dst, parseSlice src with
    | some key, some buf, some dst, some src =>
      if key.length ≠ 16 then some "bad-op" else
      if ¬ (WF [buf] dst ∧ WF [buf] src) then some "bad-op" else
      if cmd = "sm4.wrap" then
        match model path op key buf dst src with
        | some r => some (render r)
        | none => some "bad-op"
      else
        if path ≠ "go" ∧ path ≠ "asm" then some "bad-op" else
        if path = "asm" ∧ op ≠ "enc" ∧ op ≠ "dec" then some "bad-op" else
        match spec op key buf dst src with
        | some r => some r
        | none => some "bad-op"
    | _, _, _, _ => some "bad-op"
  | _ => none

end Driver.SM4Wrap
