/-
  `asm.*` requests of the model driver: the regenerated amd64 LISTINGS themselves
  (SMGo/Gen/ListAmd64*.lean) run by the value interpreter of SMGo/Model/ISAVal.lean.  Core Lean only.

    asm.kernel <n> <rk> <blocks> [inplace]   n ∈ {1,2,4,8,16}; rk = 32 round keys, 8 hex digits each
                                             (the format of `sm4.expand`); blocks = 16·n bytes
        → ok <dst hex>            listing cryptoBlockAsm / X2 / X4 / X8 / X16; `inplace`: dst = src
    asm.expandkey <key>           → ok <enc words> <dec words>        listing expandKeyAsm
    asm.ghash <H> <tag> <data>    → ok <tag>                          listing gHashBlocks, count = |data|/16
    asm.seal <rk> <tagSize> <nonce> <pt> <aad> <dstLen> [inplace]
        → ok <dst hex>            listing sealAsm; dst and temp are zero-filled buffers of dstLen / 32 bytes (`var temp [2*BlockSize]byte` of the Go glue)
    asm.open <rk> <tagSize> <nonce> <ct> <aad> <dstLen> [inplace]
        → ok <ret> <dst hex> <ct hex>   listing openAsm (the ciphertext buffer is printed too: the routine writes to it)
  Every failure of the interpreter (unknown mnemonic, operand shape, access outside a region, undefined
  flag, fuel) is answered `error <message>`.
-/
import SMGo.Spec.Bytes
import SMGo.Model.ISAValInst
import SMGo.Model.ISAValGcm
import SMGo.Gen.ListAmd64Gcm
open SMGo
open SMGo.Model.ISAVal

namespace Driver.Asm

def parseBytes (s : String) : Option Bytes :=
  if s = "-" then some [] else Bytes.ofHex s

def toNats (b : Bytes) : List Nat := b.map (·.toNat)
def ofNats (l : List Nat) : Bytes := l.map UInt8.ofNat
def showN (l : List Nat) : String := if l.isEmpty then "-" else Bytes.toHex (ofNats l)

/-- a state with the given argument regions (in this order) and frame; the registers hold junk -/
def state (args : List Region) (frame : List (String × Nat)) : State :=
  mkState junkG junkV junkK symbols args frame

/-- big-endian printed words ↦ the bytes of a `[]uint32` in memory -/
def wordsToMem (b : List Nat) : List Nat :=
  (List.range (b.length / 4)).flatMap (fun i => ((b.drop (4 * i)).take 4).reverse)

def fuel : Nat := 4000000

-- the listings, decoded once
def rtX1 := Routine.ofListing Gen.ListAmd64Asm.cryptoBlockAsm
def rtX2 := Routine.ofListing Gen.ListAmd64Asm.cryptoBlockAsmX2
def rtX4 := Routine.ofListing Gen.ListAmd64Asm.cryptoBlockAsmX4
def rtX8 := Routine.ofListing Gen.ListAmd64Asm.cryptoBlockAsmX8
def rtX16 := Routine.ofListing Gen.ListAmd64Asm.cryptoBlockAsmX16
def rtExpand := Routine.ofListing Gen.ListAmd64Asm.expandKeyAsm
def rtGhash := Routine.ofListing Gen.ListAmd64Gcm.gHashBlocks
def rtSeal := Routine.ofListing Gen.ListAmd64Gcm.sealAsm
def rtOpen := Routine.ofListing Gen.ListAmd64Gcm.openAsm

def runRt (rt : Except String Routine) (s : State) : Except String State := do
  let r ← rt
  runRoutine r fuel s

def region (s : State) (name : String) : Except String (List Nat) :=
  match regionBytes s name with
  | some b => .ok b
  | none => .error ("no region " ++ name)

def answer (r : Except String String) : String :=
  match r with
  | .ok s => "ok " ++ s
  | .error e => "error " ++ e

/-- the dwords of printed big-endian words -/
def wordsOf (b : List Nat) : List Nat :=
  (List.range (b.length / 4)).map (fun i => unlanes 8 ((b.drop (4 * i)).take 4).reverse)

def kernel (n : Nat) (rk blocks : List Nat) (inplace : Bool) : Except String String := do
  let rt ← match n with
    | 1 => rtX1 | 2 => rtX2 | 4 => rtX4 | 8 => rtX8 | 16 => rtX16
    | _ => .error "no such kernel"
  if rk.length ≠ 128 then .error "rk must be 32 words" else
  if blocks.length ≠ 16 * n then .error "blocks must be 16·n bytes" else
  let s :=
    if inplace then kernelStateInPlace junkG junkV junkK (wordsOf rk) blocks
    else kernelState junkG junkV junkK (wordsOf rk) (List.replicate (16 * n) 0xEE) blocks
  let s' ← runRoutine rt fuel s
  let d ← region s' "dst"
  pure (showN d)

def expandKey (key : List Nat) : Except String String := do
  let s := expandKeyState junkG junkV junkK key (List.replicate 128 0xEE) (List.replicate 128 0xEE)
  let s' ← runRt rtExpand s
  let e ← region s' "enc"
  let d ← region s' "dec"
  pure (showN (wordsToMem e) ++ " " ++ showN (wordsToMem d))

def ghash (h tag data : List Nat) : Except String String := do
  let s := ghashState junkG junkV junkK h tag data (data.length / 16)
  let s' ← runRt rtGhash s
  let t ← region s' "tag"
  pure (showN t)

def sealOpen (isOpen : Bool) (rk : List Nat) (tagSize : Nat) (nonce input aad : List Nat) (dstLen : Nat)
    (inplace : Bool) : Except String String := do
  let inName := if isOpen then "cipher" else "plaintext"
  let inLen := if isOpen then "cipherLen" else "plainLen"
  -- `inplace`: the input lies at the start of the dst buffer (Seal(pt[:0], …, pt, …) / Open(ct[:0], …, ct, …))
  let dstR : Region :=
    if inplace then ⟨"dst", input ++ List.replicate (dstLen - input.length) 0, true⟩
    else ⟨"dst", List.replicate dstLen 0, true⟩
  let s := state
    [⟨"rk", wordsToMem rk, false⟩, dstR, ⟨"nonce", nonce, false⟩,
     ⟨inName, input, isOpen⟩, ⟨"aData", aad, false⟩, ⟨"tmp", List.replicate 32 0, true⟩]
    [("rk", arg 0), ("tagSize", tagSize), ("dst", arg 1), ("nonce", arg 2), ("nonceLen", nonce.length),
     ("nonceCap", nonce.length), (inName, if inplace then arg 1 else arg 3), (inLen, input.length),
     ("aData", arg 4), ("aLen", aad.length), ("tmp", arg 5), ("ret1", 0xEEEE)]
  let s' ← runRt (if isOpen then rtOpen else rtSeal) s
  let d ← region s' "dst"
  if isOpen then
    let c ← region s' inName
    match lookup s'.frame "ret1" with
    | some r => pure (toString r ++ " " ++ showN d ++ " " ++ showN c)
    | none => .error "no result slot"
  else pure (showN d)

def handle (toks : List String) : Option String :=
  match toks with
  | "asm.kernel" :: n :: rk :: blocks :: rest =>
    match n.toNat?, parseBytes rk, parseBytes blocks with
    | some n, some rk, some blocks =>
      match rest with
      | [] => some (answer (kernel n (toNats rk) (toNats blocks) false))
      | ["inplace"] => some (answer (kernel n (toNats rk) (toNats blocks) true))
      | _ => some "bad-op"
    | _, _, _ => some "bad-op"
  | ["asm.expandkey", key] =>
    match parseBytes key with
    | some key => if key.length ≠ 16 then some "bad-op" else some (answer (expandKey (toNats key)))
    | none => some "bad-op"
  | ["asm.ghash", h, tag, data] =>
    match parseBytes h, parseBytes tag, parseBytes data with
    | some h, some tag, some data => some (answer (ghash (toNats h) (toNats tag) (toNats data)))
    | _, _, _ => some "bad-op"
  | cmd :: rk :: tagSize :: nonce :: inp :: aad :: dstLen :: rest =>
    if cmd ≠ "asm.seal" ∧ cmd ≠ "asm.open" then none else
    if rest ≠ [] ∧ rest ≠ ["inplace"] then some "bad-op" else
    match parseBytes rk, tagSize.toNat?, parseBytes nonce, parseBytes inp, parseBytes aad, dstLen.toNat? with
    | some rk, some t, some nonce, some inp, some aad, some dl =>
      if rest = ["inplace"] ∧ dl < inp.length then some "bad-op" else
      some (answer (sealOpen (cmd = "asm.open") (toNats rk) t (toNats nonce) (toNats inp) (toNats aad) dl
        (rest = ["inplace"])))
    | _, _, _, _, _, _ => some "bad-op"
  | _ => none

end Driver.Asm
