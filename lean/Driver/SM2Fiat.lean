/-
  Requests running the LIMB-LEVEL context `Model.SM2.ctxFiat` (the generated Fiat-Crypto functions under
  the models of the point, curve and protocol layers; gap X1).  Same request/answer formats as the
  corresponding requests of `Driver/SM2.lean`, with the suffix `.fiat`.  Core Lean only.
-/
import Driver.SM2
import SMGo.Model.SM2InstFiat
open SMGo

namespace Driver.SM2Fiat
open Driver.SM2 (parseBytes parseScript showSig showBool parseLimbs showLimbs)

def XF := Model.SM2.ctxFiat

/-- a projective point given by its limbs (no conversion: the limbs are the elements) -/
def parsePtL (s : String) : Option (Model.Point.Pt (List Nat)) :=
  match s.splitOn "/" with
  | [x, y, z] => do
    let x ← parseLimbs x; let y ← parseLimbs y; let z ← parseLimbs z
    pure { x := x, y := y, z := z }
  | _ => none

def showPtL (p : Model.Point.Pt (List Nat)) : String :=
  showLimbs p.x ++ "/" ++ showLimbs p.y ++ "/" ++ showLimbs p.z

def handle (toks : List String) : Option String :=
  match toks with
  | ["sm2.sign.fiat", priv, e, sc] =>
    match parseBytes priv, parseBytes e, parseScript sc with
    | some priv, some e, some (some sc) => some (showSig (Model.SM2.signHashed XF sc priv e))
    | _, _, _ => some "bad-op"
  | ["sm2.verify.fiat", px, py, e, r, s] =>
    match parseBytes px, parseBytes py, parseBytes e, parseBytes r, parseBytes s with
    | some px, some py, some e, some r, some s => some (showBool (Model.SM2.verifyHashed XF px py e r s))
    | _, _, _, _, _ => some "bad-op"
  | ["sm2.derive.fiat", priv] =>
    match parseBytes priv with
    | some priv => some (match Model.SM2.derivePublic XF priv with
        | .ok (x, y) => s!"ok {Bytes.toHex x} {Bytes.toHex y}" | .err => "err" | .panic => "panic")
    | none => some "bad-op"
  | ["sm2.genkey.fiat", sc] =>
    match parseScript sc with
    | some sc =>
      some (match Model.SM2.generateKey XF sc with
        | .ok ((d, x, y), c) => s!"ok {Bytes.toHex d} {Bytes.toHex x} {Bytes.toHex y} {c}"
        | .err => "err" | .panic => "panic")
    | none => some "bad-op"
  | ["sm2.oncurve.fiat", x, y] =>
    match parseBytes x, parseBytes y with
    | some x, some y => some (if Model.SM2.checkOnCurve XF x y then "ok true" else "ok false")
    | _, _ => some "bad-op"
  | ["pt.add.fiat", a, b] =>
    match parsePtL a, parsePtL b with
    | some a, some b => some ("ok " ++ showPtL (Model.Point.add XF.C a b))
    | _, _ => some "bad-op"
  | ["pt.double.fiat", a] =>
    match parsePtL a with
    | some a => some ("ok " ++ showPtL (Model.Point.double XF.C a))
    | _ => some "bad-op"
  | ["pt.bytes.fiat", a, safe] =>
    match parsePtL a with
    | some a => some ("ok " ++ Bytes.toHex (Model.Point.bytes XF.C a (safe = "safe")))
    | _ => some "bad-op"
  | _ => none

end Driver.SM2Fiat
