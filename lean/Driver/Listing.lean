/- `gen.listing <module>`: per routine of a regenerated listing, the number of instructions and a
   mnemonic histogram, for the independent read-back of C09/C11 (the harness runs `go tool asm -S` itself). -/
import SMGo.Gen.ListAmd64Asm
import SMGo.Gen.ListAmd64Gcm
import SMGo.Gen.ListAmd64Helper
import SMGo.Gen.ListArm64Asm
import SMGo.Gen.ListArm64Gcm
open SMGo SMGo.Model.ISA

namespace Driver.Listing

def histo (prog : List Instr) : List (String × Nat) :=
  let ms := prog.map (·.mn)
  let uniq := ms.foldl (fun acc m => if acc.contains m then acc else acc ++ [m]) ([] : List String)
  let counted := uniq.map (fun m => (m, (ms.filter (· == m)).length))
  counted.mergeSort (fun a b => a.1 ≤ b.1)

def render (rs : List (String × List (List Instr))) : String :=
  " ".intercalate (rs.map (fun (name, chunks) =>
    let prog := chunks.flatten
    s!"{name}:{prog.length}:" ++ ",".intercalate ((histo prog).map (fun (m, n) => s!"{m}={n}"))))

def handle (toks : List String) : Option String :=
  match toks with
  | ["gen.listing", m] =>
    some (match m with
    | "amd64/asm_amd64.s" => render Gen.ListAmd64Asm.routines
    | "amd64/gcm_amd64.s" => render Gen.ListAmd64Gcm.routines
    | "amd64/helper_amd64.s" => render Gen.ListAmd64Helper.routines
    | "arm64/asm_arm64.s" => render Gen.ListArm64Asm.routines
    | "arm64/gcm_arm64.s" => render Gen.ListArm64Gcm.routines
    | _ => "unknown-listing")
  | _ => none

end Driver.Listing
