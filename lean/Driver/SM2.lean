/- SM2 requests of the model driver (protocol, curve, point and field level). Core Lean only. -/
import SMGo.Spec.Bytes
import SMGo.Spec.SM2
import SMGo.Spec.SM2Proto
import SMGo.Model.SM2Inst
import SMGo.Gen.FiatP
import SMGo.Gen.FiatN
open SMGo

namespace Driver.SM2

def parseBytes (s : String) : Option Bytes :=
  if s = "-" then some [] else Bytes.ofHex s

def showB (b : Bytes) : String := if b.isEmpty then "-" else Bytes.toHex b

/-- script: items separated by ',' : d<hex> | f | z ; "-" = empty script ; "nil" = nil reader -/
def parseScript (s : String) : Option (Option Model.SM2.Script) :=
  if s = "nil" then some none
  else if s = "-" then some (some [])
  else
    ((s.splitOn ",").mapM (fun tok =>
      if tok = "f" then some Spec.SM2.Item.fail
      else if tok = "z" then some Spec.SM2.Item.zero
      else if tok.startsWith "d" then (Bytes.ofHex (tok.drop 1).toString).map Spec.SM2.Item.data
      else none)).map some

def X := Model.SM2.ctx

def specSign (priv e : Bytes) (sc : Model.SM2.Script) : String :=
  match Spec.SM2.signBytes priv e sc with
  | some (r, s, c) => s!"ok {Bytes.toHex r} {Bytes.toHex s} {c}"
  | none => "err"

def showSig : Outcome ((Bytes × Bytes) × Nat) → String
  | .ok ((r, s), c) => s!"ok {Bytes.toHex r} {Bytes.toHex s} {c}"
  | .err => "err"
  | .panic => "panic"

def showBool : Outcome Bool → String
  | .ok b => if b then "ok true" else "ok false"
  | .err => "err"
  | .panic => "panic"

def pointBytesSpec := Spec.SM2.pointBytes

def parsePointSpec := Spec.SM2.parsePoint

def showPt : Outcome (Model.Point.Pt Nat) → String
  | .ok p => "ok " ++ Bytes.toHex (Model.Point.bytes X.C p true)
  | .err => "err"
  | .panic => "panic"

def parseLimbs (s : String) : Option (List Nat) :=
  (Bytes.ofHex s).bind (fun b => if b.length = 32 then
    some [Bytes.toNatBE (b.take 8), Bytes.toNatBE ((b.drop 8).take 8), Bytes.toNatBE ((b.drop 16).take 8), Bytes.toNatBE (b.drop 24)] else none)

def showLimbs (l : List Nat) : String :=
  Bytes.toHex (Bytes.ofNatBE 8 (l.getD 0 0) ++ Bytes.ofNatBE 8 (l.getD 1 0) ++ Bytes.ofNatBE 8 (l.getD 2 0) ++ Bytes.ofNatBE 8 (l.getD 3 0))

def parsePt (s : String) : Option (Model.Point.Pt Nat) :=
  match s.splitOn "/" with
  | [x, y, z] => do
    let x ← parseLimbs x; let y ← parseLimbs y; let z ← parseLimbs z
    pure { x := Model.Field.limbsToNat x, y := Model.Field.limbsToNat y, z := Model.Field.limbsToNat z }
  | _ => none

def showPtRaw (p : Model.Point.Pt Nat) : String :=
  showLimbs (Model.Field.natToLimbs p.x) ++ "/" ++ showLimbs (Model.Field.natToLimbs p.y) ++ "/" ++ showLimbs (Model.Field.natToLimbs p.z)

def schemeTables (s : String) : Option (List Model.Curve.Table × Model.Curve.Table × Nat × Nat × Nat × Nat) :=
  if s = "6_3_14" then some (Gen.SM2Tables.sm2Precomputed_6_3_14, Gen.SM2Tables.sm2Precomputed_6_3_14_Remainder, 6, 3, 14, 4)
  else if s = "5_3_17" then some (Gen.SM2Tables.sm2Precomputed_5_3_17, Gen.SM2Tables.sm2Precomputed_5_3_17_Remainder, 5, 3, 17, 1)
  else if s = "7_3_12" then some (Gen.SM2Tables.sm2Precomputed_7_3_12, Gen.SM2Tables.sm2Precomputed_7_3_12_Remainder, 7, 3, 12, 4)
  else if s = "4_2_32" then some (Gen.SM2Tables.sm2Precomputed_4_2_32, [], 4, 2, 32, 0)
  else none

/-- generated Fiat function by name on limb lists -/
def fiatGen (fld op : String) (a b : List Nat) : Option (List Nat) :=
  if fld = "p" then
    match op with
    | "mul" => some (Gen.FiatP.sm2Mul a b)
    | "square" => some (Gen.FiatP.sm2Square a)
    | "add" => some (Gen.FiatP.sm2Add a b)
    | "sub" => some (Gen.FiatP.sm2Sub a b)
    | "opp" => some (Gen.FiatP.sm2Opp a)
    | "frommont" => some (Gen.FiatP.sm2FromMontgomery a)
    | "tomont" => some (Gen.FiatP.sm2ToMontgomery a)
    | "one" => some Gen.FiatP.sm2SetOne
    | "selectznz0" => some (Gen.FiatP.sm2Selectznz 0 a b)
    | "selectznz1" => some (Gen.FiatP.sm2Selectznz 1 a b)
    | "invert" => some (Model.AddChain.run Gen.FiatP.sm2Square Gen.FiatP.sm2Mul [0,0,0,0] Gen.AddChain.fieldInverse_regs Gen.AddChain.fieldInverse a)
    | _ => none
  else if fld = "n" then
    match op with
    | "mul" => some (Gen.FiatN.sm2ScalarMul a b)
    | "square" => some (Gen.FiatN.sm2ScalarSquare a)
    | "add" => some (Gen.FiatN.sm2ScalarAdd a b)
    | "sub" => some (Gen.FiatN.sm2ScalarSub a b)
    | "opp" => some (Gen.FiatN.sm2ScalarOpp a)
    | "frommont" => some (Gen.FiatN.sm2ScalarFromMontgomery a)
    | "tomont" => some (Gen.FiatN.sm2ScalarToMontgomery a)
    | "one" => some Gen.FiatN.sm2ScalarSetOne
    | "selectznz0" => some (Gen.FiatN.sm2ScalarSelectznz 0 a b)
    | "selectznz1" => some (Gen.FiatN.sm2ScalarSelectznz 1 a b)
    | "invert" => some (Model.AddChain.run Gen.FiatN.sm2ScalarSquare Gen.FiatN.sm2ScalarMul [0,0,0,0] Gen.AddChain.scalarInverse_regs Gen.AddChain.scalarInverse a)
    | _ => none
  else none

/-- the same operation on Montgomery residues (valid for canonical inputs) -/
def fiatSpec (fld op : String) (a b : List Nat) : Option (List Nat) :=
  let F := if fld = "p" then Model.SM2.Fp else Model.SM2.Fn
  let x := Model.Field.limbsToNat a
  let y := Model.Field.limbsToNat b
  if x ≥ F.modulus ∨ y ≥ F.modulus then none else
  let r : Option Nat := match op with
    | "mul" => some (F.mul x y)
    | "square" => some (F.square x)
    | "add" => some (F.add x y)
    | "sub" => some (F.sub x y)
    | "opp" => some (F.opp x)
    | "frommont" => some (F.fromMontgomery x)
    | "tomont" => some (F.toMontgomery x)
    | "one" => some F.setOne
    | "selectznz0" => some x
    | "selectznz1" => some y
    | "invert" => some (Model.Field.invert F x)
    | _ => none
  r.map Model.Field.natToLimbs

def handle (toks : List String) : Option String :=
  match toks with
  | ["sm2.sign", priv, e, sc] =>
    match parseBytes priv, parseBytes e, parseScript sc with
    | some priv, some e, some (some sc) => some (showSig (Model.SM2.signHashed X sc priv e))
    | _, _, _ => some "bad-op"
  | ["sm2.sign.spec", priv, e, sc] =>
    match parseBytes priv, parseBytes e, parseScript sc with
    | some priv, some e, some (some sc) => some (specSign priv e sc)
    | _, _, _ => some "bad-op"
  | ["sm2.verify", px, py, e, r, s] =>
    match parseBytes px, parseBytes py, parseBytes e, parseBytes r, parseBytes s with
    | some px, some py, some e, some r, some s => some (showBool (Model.SM2.verifyHashed X px py e r s))
    | _, _, _, _, _ => some "bad-op"
  | ["sm2.verify.spec", px, py, e, r, s] =>
    match parseBytes px, parseBytes py, parseBytes e, parseBytes r, parseBytes s with
    | some px, some py, some e, some r, some s => some (if Spec.SM2.verify px py e r s then "ok true" else "ok false")
    | _, _, _, _, _ => some "bad-op"
  | ["sm2.genkey", sc] =>
    match parseScript sc with
    | some sc =>
      some (match Model.SM2.generateKey X sc with
        | .ok ((d, x, y), c) => s!"ok {Bytes.toHex d} {Bytes.toHex x} {Bytes.toHex y} {c}"
        | .err => "err" | .panic => "panic")
    | none => some "bad-op"
  | ["sm2.genkey.spec", sc] =>
    match parseScript sc with
    | some sc =>
      some (match Spec.SM2.genKey sc with
        | some (d, x, y, c) => s!"ok {Bytes.toHex d} {Bytes.toHex x} {Bytes.toHex y} {c}"
        | none => "err")
    | none => some "bad-op"
  | ["sm2.derive", priv] =>
    match parseBytes priv with
    | some priv => some (match Model.SM2.derivePublic X priv with
        | .ok (x, y) => s!"ok {Bytes.toHex x} {Bytes.toHex y}" | .err => "err" | .panic => "panic")
    | none => some "bad-op"
  | ["sm2.derive.spec", priv] =>
    match parseBytes priv with
    | some priv => some (match Spec.SM2.derive priv with
        | some (x, y) => s!"ok {Bytes.toHex x} {Bytes.toHex y}" | none => "err")
    | none => some "bad-op"
  | ["sm2.testkey", priv] =>
    match parseBytes priv with
    | some priv => some (match Model.SM2.testPrivateKey X priv with | .ok i => s!"ok {i}" | .err => "err" | .panic => "panic")
    | none => some "bad-op"
  | ["sm2.testkey.spec", priv] =>
    match parseBytes priv with
    | some priv =>
      if priv.length ≠ 32 then some "outside-domain" else
      some (if Spec.SM2.validKey (Bytes.toNatBE priv) then "ok 0" else "ok -1")
    | none => some "bad-op"
  | ["sm2.oncurve", x, y] =>
    match parseBytes x, parseBytes y with
    | some x, some y => some (if Model.SM2.checkOnCurve X x y then "ok true" else "ok false")
    | _, _ => some "bad-op"
  | ["sm2.oncurve.spec", x, y] =>
    match parseBytes x, parseBytes y with
    | some x, some y => some (if Spec.SM2.onCurveBytes x y then "ok true" else "ok false")
    | _, _ => some "bad-op"
  | ["sm2.za", id, px, py] =>
    match parseBytes id, parseBytes px, parseBytes py with
    | some id, some px, some py => some (match Model.SM2.za X id px py with | .ok z => "ok " ++ Bytes.toHex z | .err => "err" | .panic => "panic")
    | _, _, _ => some "bad-op"
  | ["sm2.za.spec", id, px, py] =>
    match parseBytes id, parseBytes px, parseBytes py with
    | some id, some px, some py => some (match Spec.SM2.za id px py with | some z => "ok " ++ Bytes.toHex z | none => "err")
    | _, _, _ => some "bad-op"
  | ["sm2.signid", id, px, py, priv, msg, sc] =>
    match parseBytes id, parseBytes px, parseBytes py, parseBytes priv, parseBytes msg, parseScript sc with
    | some id, some px, some py, some priv, some msg, some (some sc) => some (showSig (Model.SM2.sign X id px py sc priv msg))
    | _, _, _, _, _, _ => some "bad-op"
  | ["sm2.signid.spec", id, px, py, priv, msg, sc] =>
    match parseBytes id, parseBytes px, parseBytes py, parseBytes priv, parseBytes msg, parseScript sc with
    | some id, some px, some py, some priv, some msg, some (some sc) =>
      some (match Spec.SM2.signIdBytes id px py priv msg sc with
        | some (r, s, c) => s!"ok {Bytes.toHex r} {Bytes.toHex s} {c}"
        | none => "err")
    | _, _, _, _, _, _ => some "bad-op"
  | ["sm2.verifyid", id, px, py, msg, r, s] =>
    match parseBytes id, parseBytes px, parseBytes py, parseBytes msg, parseBytes r, parseBytes s with
    | some id, some px, some py, some msg, some r, some s => some (showBool (Model.SM2.verify X id px py msg r s))
    | _, _, _, _, _, _ => some "bad-op"
  | ["sm2.verifyid.spec", id, px, py, msg, r, s] =>
    match parseBytes id, parseBytes px, parseBytes py, parseBytes msg, parseBytes r, parseBytes s with
    | some id, some px, some py, some msg, some r, some s =>
      some (if Spec.SM2.verifyId id px py msg r s then "ok true" else "ok false")
    | _, _, _, _, _, _ => some "bad-op"
  | ["sm2.basemult", scheme, k] =>
    match schemeTables scheme, parseBytes k with
    | some (first, second, w, s, i, r), some k =>
      some (showPt (Model.Curve.scalarBaseMult (Model.Curve.pointOps X.C) k first second w s i r))
    | _, _ => some "bad-op"
  | ["sm2.basemult.spec", _, k] =>
    match parseBytes k with
    | some k => if k.length ≠ 32 then some "err" else
      some ("ok " ++ Bytes.toHex (pointBytesSpec (Spec.SM2.smul (Bytes.toNatBE k) Spec.SM2.G)))
    | none => some "bad-op"
  | ["sm2.mult", P, k] =>
    match parseBytes P, parseBytes k with
    | some P, some k =>
      some (match Model.Point.setBytes X.C P with
        | .ok P => showPt (Model.Curve.scalarMult (Model.Curve.pointOps X.C) P k)
        | _ => "bad-point")
    | _, _ => some "bad-op"
  | ["sm2.mult.spec", P, k] =>
    match parseBytes P, parseBytes k with
    | some P, some k =>
      some (match parsePointSpec P with
        | some P => "ok " ++ Bytes.toHex (pointBytesSpec (Spec.SM2.smul (Bytes.toNatBE k) P))
        | none => "bad-point")
    | _, _ => some "bad-op"
  | ["sm2.mixed", g, P, s] =>
    match parseBytes g, parseBytes P, parseBytes s with
    | some g, some P, some s =>
      some (match Model.Point.setBytes X.C P with
        | .ok P => showPt (Model.Curve.scalarMixedMult (Model.Curve.pointOps X.C) g P s X.first X.second)
        | _ => "bad-point")
    | _, _, _ => some "bad-op"
  | ["sm2.mixed.spec", g, P, s] =>
    match parseBytes g, parseBytes P, parseBytes s with
    | some g, some P, some s =>
      if g.length ≠ 32 ∨ s.length ≠ 32 then some "outside-domain" else
      some (match parsePointSpec P with
        | some P => "ok " ++ Bytes.toHex (pointBytesSpec (Spec.SM2.add (Spec.SM2.smul (Bytes.toNatBE g) Spec.SM2.G) (Spec.SM2.smul (Bytes.toNatBE s) P)))
        | none => "bad-point")
    | _, _, _ => some "bad-op"
  | ["pt.add", a, b] =>
    match parsePt a, parsePt b with
    | some a, some b => some ("ok " ++ showPtRaw (Model.Point.add X.C a b))
    | _, _ => some "bad-op"
  | ["pt.double", a] =>
    match parsePt a with
    | some a => some ("ok " ++ showPtRaw (Model.Point.double X.C a))
    | _ => some "bad-op"
  | ["pt.negate", a] =>
    match parsePt a with
    | some a => some ("ok " ++ showPtRaw (Model.Point.negate X.C a))
    | _ => some "bad-op"
  | ["pt.bytes", a, safe] =>
    match parsePt a with
    | some a => some ("ok " ++ Bytes.toHex (Model.Point.bytes X.C a (safe = "safe")))
    | _ => some "bad-op"
  | ["pt.affinex", a, safe] =>
    match parsePt a with
    | some a => some ("ok " ++ Bytes.toHex (Bytes.ofNatBE 32 (if safe = "safe" then Model.Point.getAffineX X.C a else Model.Point.getAffineXUnsafe X.C a)))
    | _ => some "bad-op"
  | ["pt.setbytes", b] =>
    match parseBytes b with
    | some b => some (match Model.Point.setBytes X.C b with | .ok p => "ok " ++ showPtRaw p | .err => "err" | .panic => "panic")
    | none => some "bad-op"
  | ["pt.setbytes.spec", b] =>
    match parseBytes b with
    | some b => some (match parsePointSpec b with
        | some none => "ok " ++ showPtRaw (Model.Point.infinity X.C)
        | some (some (x, y)) => "ok " ++ showPtRaw { x := Model.SM2.Fp.toMontgomery x, y := Model.SM2.Fp.toMontgomery y, z := Model.SM2.Fp.setOne }
        | none => "err")
    | none => some "bad-op"
  | ["pt.affine.spec", a] =>
    -- affine meaning of a projective representative, as an encoding
    match parsePt a with
    | some a =>
      let F := Model.SM2.Fp
      let z := F.fromMontgomery a.z
      if z = 0 then some "ok 00" else
      let zi := Spec.SM2.invMod z Spec.SM2.p
      some ("ok " ++ Bytes.toHex ([4] ++ Bytes.ofNatBE 32 (F.fromMontgomery a.x * zi % Spec.SM2.p) ++ Bytes.ofNatBE 32 (F.fromMontgomery a.y * zi % Spec.SM2.p)))
    | _ => some "bad-op"
  | ["pt.addaffine.spec", a, b] =>
    match parseBytes a, parseBytes b with
    | some a, some b =>
      some (match parsePointSpec a, parsePointSpec b with
        | some P, some Q => "ok " ++ Bytes.toHex (pointBytesSpec (Spec.SM2.add P Q))
        | _, _ => "bad-point")
    | _, _ => some "bad-op"
  | ["fe.setbytes", fld, v] =>
    match parseBytes v with
    | some v =>
      let F := if fld = "p" then Model.SM2.Fp else Model.SM2.Fn
      some (match (if fld = "p" then Model.Field.setBytes F v else Model.Field.scalarSetBytes F v) with
        | .ok e => "ok " ++ Bytes.toHex (Model.Field.bytes F e) | .err => "err" | .panic => "panic")
    | none => some "bad-op"
  | ["fe.setbytes.spec", fld, v] =>
    match parseBytes v with
    | some v =>
      let m := if fld = "p" then Spec.SM2.p else Spec.SM2.n
      some (if v.length = 32 ∧ Bytes.toNatBE v < m then "ok " ++ Bytes.toHex v else "err")
    | none => some "bad-op"
  | ["fiat", fld, op, a, b] =>
    match parseLimbs a, parseLimbs b with
    | some a, some b => some (match fiatGen fld op a b with | some r => "ok " ++ showLimbs r | none => "bad-op")
    | _, _ => some "bad-op"
  | ["fiat.spec", fld, op, a, b] =>
    match parseLimbs a, parseLimbs b with
    | some a, some b => some (match fiatSpec fld op a b with | some r => "ok " ++ showLimbs r | none => "outside-domain")
    | _, _ => some "bad-op"
  | _ => none

end Driver.SM2
