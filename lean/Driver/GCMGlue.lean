/-
  Requests `gcm.sealglue`, `gcm.openglue` (the Go glue of sm4_gcm_amd64.go run on the slice heap,
  `SMGo.Model.GCMGlue`) and `gcm.sealglue.spec`, `gcm.openglue.spec` (the crypto/cipher AEAD buffer
  contract written down directly over the specification `Spec.GCM`, with no heap at all).
  Core Lean only.

    gcm.sealglue <key> <nonce> <aad> <pt> <tag> <dstlen> <dstcap> <kind> <prefix> <noncesize>
    gcm.openglue <key> <nonce> <aad> <ct> <tag> <dstlen> <dstcap> <kind> <prefix> <noncesize>

  kind: plain          dst is its own array of <dstcap> bytes, the first <dstlen> = <prefix>
        nil            dst = nil (dstlen = dstcap = 0)
        inplace-tight  dst = in[:0], the input's array has exactly len(in) = <dstcap> bytes
        inplace-spare  dst = in[:0], the input's array has <dstcap> ≥ len(in) bytes
  answer: `ok <returned bytes> shares=<bool> inputs=unchanged|changed`, `err inputs=…`, `panic`;
  `shares` = the result has dst's pointer; `inputs=unchanged` = no byte of any array that existed
  before the call changed, except the bytes the call appended (`ret[dstlen : dstlen+n]`).
-/
import SMGo.Spec.Bytes
import SMGo.Spec.SM4Fast
import SMGo.Spec.GCM
import SMGo.Model.Slice
import SMGo.Model.GCMGlue
import SMGo.Model.SM3State
import SMGo.Gen.SM3Const
open SMGo SMGo.Model SMGo.Model.Mem

namespace Driver.GCMGlue

def parseBytes (s : String) : Option Bytes :=
  if s = "-" then some [] else Bytes.ofHex s

def showB (b : Bytes) : String := if b.isEmpty then "-" else Bytes.toHex b

/-- the heap of one request: array 0 = nonce, 1 = additional data, 2 = the input's array,
    3 = dst's array (kind plain) -/
structure Setup where
  heap : Heap
  dst : Slice
  nonce : Slice
  inp : Slice
  aad : Slice

def exact (a : Nat) (b : Bytes) : Slice := { arr := some a, off := 0, len := b.length, cap := b.length }

def setup (nonce aad inp pre : Bytes) (dstcap : Nat) (kind : String) : Option Setup :=
  if kind = "plain" then
    if pre.length ≤ dstcap then
      some { heap := [nonce, aad, inp, pre ++ List.replicate (dstcap - pre.length) 0],
             dst := { arr := some 3, off := 0, len := pre.length, cap := dstcap },
             nonce := exact 0 nonce, aad := exact 1 aad, inp := exact 2 inp }
    else none
  else if kind = "nil" then
    if pre.length = 0 ∧ dstcap = 0 then
      some { heap := [nonce, aad, inp], dst := Slice.nil,
             nonce := exact 0 nonce, aad := exact 1 aad, inp := exact 2 inp }
    else none
  else if kind = "inplace-tight" ∨ kind = "inplace-spare" then
    if pre.length = 0 ∧ inp.length ≤ dstcap ∧ (kind = "inplace-tight" → dstcap = inp.length) then
      some { heap := [nonce, aad, inp ++ List.replicate (dstcap - inp.length) 0],
             dst := { arr := some 2, off := 0, len := 0, cap := dstcap },
             nonce := exact 0 nonce, aad := exact 1 aad,
             inp := { arr := some 2, off := 0, len := inp.length, cap := dstcap } }
    else none
  else none

def showInputs (ok : Bool) : String := if ok then "inputs=unchanged" else "inputs=changed"

def render (s : Setup) : Outcome (Heap × Option Slice) → String
  | .panic => "panic"
  | .err => "err"
  | .ok (h', none) =>
    "err " ++ showInputs (GCMGlue.unchangedOutside s.heap h' (fun _ _ => false))
  | .ok (h', some ret) =>
    let n := ret.len - s.dst.len
    "ok " ++ showB (read h' ret) ++ " shares=" ++ toString (decide (Shares ret s.dst)) ++ " " ++
      showInputs (GCMGlue.unchangedOutside s.heap h' (GCMGlue.inRegion ret s.dst.len n))

structure Req where
  key : Bytes
  nonce : Bytes
  aad : Bytes
  inp : Bytes
  tag : Nat
  dstlen : Nat
  dstcap : Nat
  kind : String
  pre : Bytes
  nonceSize : Nat

def parseReq : List String → Option Req
  | [key, nonce, aad, inp, t, dl, dc, kind, pre, ns] => do
    let key ← parseBytes key
    let nonce ← parseBytes nonce
    let aad ← parseBytes aad
    let inp ← parseBytes inp
    let t ← t.toNat?
    let dl ← dl.toNat?
    let dc ← dc.toNat?
    let pre ← parseBytes pre
    let ns ← ns.toNat?
    if pre.length = dl then some { key, nonce, aad, inp, tag := t, dstlen := dl, dstcap := dc, kind, pre, nonceSize := ns }
    else none
  | _ => none

def outside (r : Req) : Bool := r.key.length ≠ 16 ∨ r.nonceSize = 0 ∨ r.tag < 12 ∨ r.tag > 16

/-- spare capacity suffices and there is a pointer to share -/
def wantShares (r : Req) (n : Nat) : Bool := r.kind ≠ "nil" ∧ n ≤ r.dstcap - r.dstlen

def handle (toks : List String) : Option String :=
  match toks with
  | "gcm.sealglue" :: args =>
    match parseReq args with
    | none => some "bad-op"
    | some r =>
      if outside r then some "outside-domain" else
      match setup r.nonce r.aad r.inp r.pre r.dstcap r.kind with
      | none => some "bad-op"
      | some s =>
        let g := GCMGlue.newGCM r.key r.nonceSize r.tag
        some (render s (match GCMGlue.seal g s.heap s.dst s.nonce s.inp s.aad with
          | .ok (h', ret) => .ok (h', some ret)
          | .err => .err
          | .panic => .panic))
  | "gcm.openglue" :: args =>
    match parseReq args with
    | none => some "bad-op"
    | some r =>
      if outside r then some "outside-domain" else
      match setup r.nonce r.aad r.inp r.pre r.dstcap r.kind with
      | none => some "bad-op"
      | some s =>
        let g := GCMGlue.newGCM r.key r.nonceSize r.tag
        some (render s (GCMGlue.open g s.heap s.dst s.nonce s.inp s.aad))
  -- the contract itself: dst ‖ output, sharing iff there is room, nothing else touched
  | "gcm.sealglue.spec" :: args =>
    match parseReq args with
    | none => some "bad-op"
    | some r =>
      if outside r then some "outside-domain" else
      if r.nonce.length ≠ r.nonceSize then some "panic" else
      let out := Spec.GCM.sealGCM (Spec.SM4.cryptFast (Spec.SM4.keySchedule r.key)) r.tag r.nonce r.inp r.aad
      some ("ok " ++ showB (r.pre ++ out) ++ " shares=" ++ toString (wantShares r out.length) ++ " inputs=unchanged")
  | "gcm.openglue.spec" :: args =>
    match parseReq args with
    | none => some "bad-op"
    | some r =>
      if outside r then some "outside-domain" else
      if r.nonce.length ≠ r.nonceSize then some "panic" else
      match Spec.GCM.openGCM (Spec.SM4.cryptFast (Spec.SM4.keySchedule r.key)) r.tag r.nonce r.inp r.aad with
      | none => some "err inputs=unchanged"
      | some pt =>
        some ("ok " ++ showB (r.pre ++ pt) ++ " shares=" ++ toString (wantShares r pt.length) ++ " inputs=unchanged")
  -- `h := sm3.New(); h.Write(msg); h.Sum(in)` with `in` = <prefix> in its own array of <cap> bytes;
  -- `again=same`: a second `h.Sum(in)` (receiver and heap as the first call left them) returns the same bytes
  | ["sm3.sumglue", msg, pre, cap] =>
    match parseBytes msg, parseBytes pre, cap.toNat? with
    | some msg, some pre, some cap =>
      if cap < pre.length then some "bad-op" else
      let tt : List W32 := Gen.SM3Const.tt.map (BitVec.ofNat 32)
      let st := (SM3.write tt (SM3.reset SM3.zero) msg).1
      let h : Heap := [pre ++ List.replicate (cap - pre.length) 0]
      let inp : Slice := { arr := some 0, off := 0, len := pre.length, cap := cap }
      let (st1, h1, out1) := GCMGlue.sm3Sum tt st h inp
      let (_, h2, out2) := GCMGlue.sm3Sum tt st1 h1 inp
      some ("ok " ++ showB (read h1 out1) ++ " shares=" ++ toString (decide (Shares out1 inp)) ++ " " ++
        showInputs (GCMGlue.unchangedOutside h h1 (GCMGlue.inRegion out1 inp.len 32)) ++
        " again=" ++ (if read h2 out2 = read h1 out1 then "same" else "different"))
    | _, _, _ => some "bad-op"
  | _ => none

end Driver.GCMGlue
