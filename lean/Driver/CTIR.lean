/- CT-IR requests of the model driver: run the generated IR program (SMGo/Gen/CTIRProg.lean) with the
   concrete interpreter of SMGo/Model/CTIR.lean.  Core Lean only.

   ctir.run   <function> <arg>…   → ok <result>… | panic | stuck
   ctir.trace <function> <arg>…   → ok n=<events> h=<digest> d=<declassified verdicts> | panic … | stuck
   ctir.check <function>          → true | false      (the label checker on the slice of that function)
   ctirfn.run <function> <arg>…   → the same as ctir.run on the program SMGo/Gen/CTIRProgFn.lean
   ctirproto.run <function> <arg>… → the same on the extended program SMGo/Gen/CTIRProgProto.lean (VerifyHashed, ZA, …)
                                     with the oracle SMGo/Model/CTIRProto.lean (stdOracle + sm3.Sum + big.Int.Cmp)

   an optional first argument `tape=x<hex>` is the randomness `io.ReadFull` delivers, 32 bytes per read
   values: decimal integers, `[v,v,…]` arrays, `x<hex>` byte arrays (`x` alone: empty) -/
import SMGo.Model.CTIR
import SMGo.Gen.CTIRProg
import SMGo.Gen.CTIRProgFn
import SMGo.Model.CTIRProto
open SMGo.Model.CTIR SMGo.Gen.CTIRProg

namespace Driver.CTIR

/-! value syntax -/

def hexVal (c : Char) : Option Nat :=
  if '0' ≤ c ∧ c ≤ '9' then some (c.toNat - '0'.toNat)
  else if 'a' ≤ c ∧ c ≤ 'f' then some (c.toNat - 'a'.toNat + 10)
  else if 'A' ≤ c ∧ c ≤ 'F' then some (c.toNat - 'A'.toNat + 10)
  else none

def parseHexBytes : List Char → Option (List Val)
  | [] => some []
  | a :: b :: r => do
    let x ← hexVal a
    let y ← hexVal b
    let rest ← parseHexBytes r
    pure (.int (Int.ofNat (x * 16 + y)) :: rest)
  | _ => none

def takeDigits : List Char → List Char × List Char
  | c :: r => if c.isDigit then let (d, r') := takeDigits r; (c :: d, r') else ([], c :: r)
  | [] => ([], [])

def digitsToNat (ds : List Char) : Nat := ds.foldl (fun n c => n * 10 + (c.toNat - '0'.toNat)) 0

/-- parse one value from the front of the input (fuel bounds the nesting) -/
def parseVal : Nat → List Char → Option (Val × List Char)
  | 0, _ => none
  | fuel + 1, cs =>
    match cs with
    | '[' :: ']' :: r => some (.arr [], r)
    | '[' :: r =>
      let rec items (n : Nat) (cs : List Char) (acc : List Val) : Option (Val × List Char) :=
        match n with
        | 0 => none
        | n + 1 =>
          match parseVal fuel cs with
          | some (v, ',' :: r) => items n r (v :: acc)
          | some (v, ']' :: r) => some (.arr (v :: acc).reverse, r)
          | _ => none
      items cs.length r []
    | '-' :: r =>
      let (d, r') := takeDigits r
      if d.isEmpty then none else some (.int (-(Int.ofNat (digitsToNat d))), r')
    | 'x' :: r =>
      let hex := r.takeWhile (fun c => (hexVal c).isSome)
      match parseHexBytes hex with
      | some bs => some (.arr bs, r.drop hex.length)
      | none => none
    | _ =>
      let (d, r') := takeDigits cs
      if d.isEmpty then none else some (.int (Int.ofNat (digitsToNat d)), r')

def parseArg (s : String) : Option Val :=
  match parseVal 16 s.toList with
  | some (v, []) => some v
  | _ => none

partial def showVal : Val → String
  | .int n => toString n
  | .arr l => "[" ++ ",".intercalate (l.map showVal) ++ "]"

/-! the external world of the driver: `stdOracle extKinds tape` (SMGo/Model/CTIR.lean), the oracle for
   which `OracleRel` is proved.  The tape is given by the request prefix `tape=x<hex>`: the k-th 32-byte
   read of `io.ReadFull` returns bytes 32k … 32k+31 of it (zeros beyond its end). -/

def tapeOf (bytes : List Val) : Nat → Nat → Nat := fun pos i =>
  match bytes[pos * 32 + i]? with
  | some (.int b) => b.toNat
  | _ => 0

def fuel : Nat := 30000

def lookupFn (name : String) : Option Nat :=
  (fnNames.zipIdx.find? (fun p => p.1 == name)).map (·.2)

def runFn (name : String) (args : List String) : Option (Option (Ctl × Trace)) :=
  let (tape, args) : List Val × List String :=
    match args with
    | a :: rest =>
      if a.startsWith "tape=" then
        (match parseArg (a.drop 5).toString with
         | some (.arr l) => l
         | _ => [], rest)
      else ([], args)
    | [] => ([], [])
  match lookupFn name, args.mapM parseArg with
  | some g, some vs => some (run (slice prog g) globals (stdOracle extKinds (tapeOf tape)) fuel g vs)
  | _, _ => none

def showDeclass (t : Trace) : String :=
  let d := declassOf t
  if d.isEmpty then "-" else ",".intercalate (d.map (fun p => s!"{p.1}:{p.2}"))

def handle (toks : List String) : Option String :=
  match toks with
  | "ctir.run" :: name :: args =>
    match runFn name args with
    | none => some "bad-op"
    | some none => some "stuck"
    | some (some (.ret vs, _)) => some ("ok" ++ String.join (vs.map (fun v => " " ++ showVal v)))
    | some (some (.panic, _)) => some "panic"
    | some (some _) => some "stuck"
  | "ctir.trace" :: name :: args =>
    match runFn name args with
    | none => some "bad-op"
    | some none => some "stuck"
    | some (some (c, t)) =>
      let kind := match c with | .ret _ => "ok" | .panic => "panic" | _ => "stuck"
      some s!"{kind} n={t.length} h={traceDigest t} d={showDeclass t}"
  | "ctirfn.run" :: name :: args =>
    -- the program of the refinement theorems (SMGo/Gen/CTIRProgFn.lean: DecomposeNAF, ScalarMixedMult_Unsafe, …)
    match (SMGo.Gen.CTIRProgFn.fnNames.zipIdx.find? (fun p => p.1 == name)).map (·.2), args.mapM parseArg with
    | some g, some vs =>
      match run SMGo.Gen.CTIRProgFn.prog SMGo.Gen.CTIRProgFn.globals (stdOracle SMGo.Gen.CTIRProgFn.extKinds (tapeOf [])) fuel g vs with
      | some (.ret rs, _) => some ("ok" ++ String.join (rs.map (fun v => " " ++ showVal v)))
      | some (.panic, _) => some "panic"
      | _ => some "stuck"
    | _, _ => some "bad-op"
  | "ctirproto.run" :: name :: args =>
    let (tape, args) : List Val × List String :=
      match args with
      | a :: rest =>
        if a.startsWith "tape=" then
          (match parseArg (a.drop 5).toString with
           | some (.arr l) => l
           | _ => [], rest)
        else ([], args)
      | [] => ([], [])
    match (SMGo.Gen.CTIRProgProto.fnNames.zipIdx.find? (fun p => p.1 == name)).map (·.2), args.mapM parseArg with
    | some g, some vs =>
      match run SMGo.Gen.CTIRProgProto.prog SMGo.Gen.CTIRProgProto.globals (SMGo.Model.CTIRProto.protoOracle (tapeOf tape)) fuel g vs with
      | some (.ret rs, _) => some ("ok" ++ String.join (rs.map (fun v => " " ++ showVal v)))
      | some (.panic, _) => some "panic"
      | _ => some "stuck"
    | _, _ => some "bad-op"
  | ["ctir.check", name] =>
    match lookupFn name with
    | some g => some (toString (check (slice prog g) sigs g))
    | none => some "bad-op"
  | _ => none

end Driver.CTIR
