/- CT-IR requests of the model driver: run the generated IR program (SMGo/Gen/CTIRProg.lean) with the
   concrete interpreter of SMGo/Model/CTIR.lean.  Core Lean only.

   ctir.run   <function> <arg>…   → ok <result>… | panic | stuck
   ctir.trace <function> <arg>…   → ok n=<events> h=<digest> d=<declassified verdicts> | panic … | stuck
   ctir.check <function>          → true | false      (the label checker on the slice of that function)

   an optional first argument `tape=<int>` is the randomness `io.ReadFull` delivers (the external world)
   values: decimal integers, `[v,v,…]` arrays, `x<hex>` byte arrays (`x` alone: empty) -/
import SMGo.Model.CTIR
import SMGo.Gen.CTIRProg
open SMGo.Model.CTIR SMGo.Gen.CTIRProg

namespace Driver.CTIR

/-! value syntax -/

def hexVal (c : Char) : Option Nat :=
  if '0' ≤ c ∧ c ≤ '9' then some (c.toNat - '0'.toNat)
  else if 'a' ≤ c ∧ c ≤ 'f' then some (c.toNat - 'a'.toNat + 10)
  else if 'A' ≤ c ∧ c ≤ 'F' then some (c.toNat - 'A'.toNat + 10)
  else none

def parseHexBytes : List Char → Option (List Val)
  | [] => some []
  | a :: b :: r => do
    let x ← hexVal a
    let y ← hexVal b
    let rest ← parseHexBytes r
    pure (.int (Int.ofNat (x * 16 + y)) :: rest)
  | _ => none

def takeDigits : List Char → List Char × List Char
  | c :: r => if c.isDigit then let (d, r') := takeDigits r; (c :: d, r') else ([], c :: r)
  | [] => ([], [])

def digitsToNat (ds : List Char) : Nat := ds.foldl (fun n c => n * 10 + (c.toNat - '0'.toNat)) 0

/-- parse one value from the front of the input (fuel bounds the nesting) -/
def parseVal : Nat → List Char → Option (Val × List Char)
  | 0, _ => none
  | fuel + 1, cs =>
    match cs with
    | '[' :: ']' :: r => some (.arr [], r)
    | '[' :: r =>
      let rec items (n : Nat) (cs : List Char) (acc : List Val) : Option (Val × List Char) :=
        match n with
        | 0 => none
        | n + 1 =>
          match parseVal fuel cs with
          | some (v, ',' :: r) => items n r (v :: acc)
          | some (v, ']' :: r) => some (.arr (v :: acc).reverse, r)
          | _ => none
      items cs.length r []
    | '-' :: r =>
      let (d, r') := takeDigits r
      if d.isEmpty then none else some (.int (-(Int.ofNat (digitsToNat d))), r')
    | 'x' :: r =>
      let hex := r.takeWhile (fun c => (hexVal c).isSome)
      match parseHexBytes hex with
      | some bs => some (.arr bs, r.drop hex.length)
      | none => none
    | _ =>
      let (d, r') := takeDigits cs
      if d.isEmpty then none else some (.int (Int.ofNat (digitsToNat d)), r')

def parseArg (s : String) : Option Val :=
  match parseVal 16 s.toList with
  | some (v, []) => some v
  | _ => none

partial def showVal : Val → String
  | .int n => toString n
  | .arr l => "[" ++ ",".intercalate (l.map showVal) ++ "]"

/-! the external world of the driver: the math/big operations the translated code calls -/

def bytesToNat (l : List Val) : Nat :=
  l.foldl (fun n v => match v with | .int b => n * 256 + b.toNat | _ => n) 0

partial def natToBytes (n : Nat) : List Val :=
  let rec go (n : Nat) (acc : List Val) : List Val :=
    if n = 0 then acc else go (n / 256) (.int (Int.ofNat (n % 256)) :: acc)
  go n []

def powMod (b e m : Nat) : Nat := Id.run do
  let mut r := 1 % m
  let mut b := b % m
  let mut e := e
  for _ in [0:600] do
    if e = 0 then break
    if e % 2 = 1 then r := r * b % m
    b := b * b % m
    e := e / 2
  return r

def oracle (tape : Option Int) : Oracle := fun name args =>
  let key := extNames.getD name ""
  match key, args with
  | "big.Int.SetBytes", [.arr b] => [.int (Int.ofNat (bytesToNat b))]
  | "big.Int.Bytes", [.int n] => [.arr (natToBytes n.toNat)]
  | "big.Int.FillBytes", [.int n, .arr buf] =>
    let bs := natToBytes n.toNat
    [.arr (List.replicate (buf.length - bs.length) (.int 0) ++ bs)]
  | "big.Int.Add", [.int a, .int b] => [.int (a + b)]
  | "big.Int.Sub", [.int a, .int b] => [.int (a - b)]
  | "big.Int.Mul", [.int a, .int b] => [.int (a * b)]
  | "big.Int.Mod", [.int a, .int m] => [.int (a % m)]
  | "big.Int.Sign", [.int a] => [.int (if a < 0 then -1 else if a = 0 then 0 else 1)]
  | "big.Int.ModInverse", [.int a, .int m] =>
    -- the modulus is the prime p of the curve in every translated call: Fermat
    [.int (Int.ofNat (powMod (a % m).toNat (m.toNat - 2) m.toNat))]
  | "fmt.Errorf", _ => [.int 1]
  | "io.ReadFull", [.int r, .int n] =>
    -- every read returns the n-byte big-endian encoding of the tape (request prefix `tape=<int>`: the
    -- secret randomness of this world, not an argument of the call) or, without a tape, of the
    -- integer that stands for the reader
    let bs := natToBytes (tape.getD r).toNat
    [.arr (List.replicate (n.toNat - bs.length) (.int 0) ++ bs), .int n, .int 0]
  | _, _ => []

def fuel : Nat := 100000000

def lookupFn (name : String) : Option Nat :=
  (fnNames.zipIdx.find? (fun p => p.1 == name)).map (·.2)

def runFn (name : String) (args : List String) : Option (Option (Ctl × Trace)) :=
  let (tape, args) : Option Int × List String :=
    match args with
    | a :: rest => if a.startsWith "tape=" then ((a.drop 5).toString.toInt?, rest) else (none, args)
    | [] => (none, [])
  match lookupFn name, args.mapM parseArg with
  | some g, some vs => some (run (slice prog g) globals (oracle tape) fuel g vs)
  | _, _ => none

def showDeclass (t : Trace) : String :=
  let d := declassOf t
  if d.isEmpty then "-" else ",".intercalate (d.map (fun p => s!"{p.1}:{p.2}"))

def handle (toks : List String) : Option String :=
  match toks with
  | "ctir.run" :: name :: args =>
    match runFn name args with
    | none => some "bad-op"
    | some none => some "stuck"
    | some (some (.ret vs, _)) => some ("ok" ++ String.join (vs.map (fun v => " " ++ showVal v)))
    | some (some (.panic, _)) => some "panic"
    | some (some _) => some "stuck"
  | "ctir.trace" :: name :: args =>
    match runFn name args with
    | none => some "bad-op"
    | some none => some "stuck"
    | some (some (c, t)) =>
      let kind := match c with | .ret _ => "ok" | .panic => "panic" | _ => "stuck"
      some s!"{kind} n={t.length} h={traceDigest t} d={showDeclass t}"
  | ["ctir.check", name] =>
    match lookupFn name with
    | some g => some (toString (check (slice prog g) sigs g))
    | none => some "bad-op"
  | _ => none

end Driver.CTIR
