/- GCM requests of the model driver. Core Lean only. -/
import SMGo.Spec.Bytes
import SMGo.Spec.SM4Fast
import SMGo.Spec.GCM
import SMGo.Model.GCMAlgo
import Driver.GCMGlue
import Driver.GCMGlueArm64
open SMGo

namespace Driver.GCM

def parseBytes (s : String) : Option Bytes :=
  if s = "-" then some [] else Bytes.ofHex s

def showB (b : Bytes) : String := if b.isEmpty then "-" else Bytes.toHex b

def handle (toks : List String) : Option String :=
  match toks with
  | ["gcm.seal.spec", key, nonce, aad, pt, t] =>
    match parseBytes key, parseBytes nonce, parseBytes aad, parseBytes pt, t.toNat? with
    | some key, some nonce, some aad, some pt, some t =>
      if key.length ≠ 16 ∨ nonce.length = 0 ∨ t < 12 ∨ t > 16 then some "outside-domain" else
      let rk := Spec.SM4.keySchedule key
      some ("ok " ++ showB (Spec.GCM.sealGCM (Spec.SM4.cryptFast rk) t nonce pt aad))
    | _, _, _, _, _ => some "bad-op"
  | ["gcm.open.spec", key, nonce, aad, ct, t] =>
    match parseBytes key, parseBytes nonce, parseBytes aad, parseBytes ct, t.toNat? with
    | some key, some nonce, some aad, some ct, some t =>
      if key.length ≠ 16 ∨ nonce.length = 0 ∨ t < 12 ∨ t > 16 then some "outside-domain" else
      let rk := Spec.SM4.keySchedule key
      some (match Spec.GCM.openGCM (Spec.SM4.cryptFast rk) t nonce ct aad with
        | some pt => "ok " ++ showB pt
        | none => "err")
    | _, _, _, _, _ => some "bad-op"
  | ["gcm.seal", key, nonce, aad, pt, t] =>
    match parseBytes key, parseBytes nonce, parseBytes aad, parseBytes pt, t.toNat? with
    | some key, some nonce, some aad, some pt, some t =>
      if key.length ≠ 16 ∨ nonce.length = 0 ∨ t < 12 ∨ t > 16 then some "outside-domain" else
      let rk := Spec.SM4.keySchedule key
      some ("ok " ++ showB (Model.GCM.seal (Spec.SM4.cryptFast rk) t nonce pt aad))
    | _, _, _, _, _ => some "bad-op"
  | ["gcm.open", key, nonce, aad, ct, t] =>
    match parseBytes key, parseBytes nonce, parseBytes aad, parseBytes ct, t.toNat? with
    | some key, some nonce, some aad, some ct, some t =>
      if key.length ≠ 16 ∨ nonce.length = 0 ∨ t < 12 ∨ t > 16 then some "outside-domain" else
      let rk := Spec.SM4.keySchedule key
      some (match Model.GCM.open (Spec.SM4.cryptFast rk) t nonce ct aad with
        | some pt => "ok " ++ showB pt
        | none => "err")
    | _, _, _, _, _ => some "bad-op"
  | ["gcm.mulgf.spec", x, y] =>
    match parseBytes x, parseBytes y with
    | some x, some y => some ("ok " ++ Bytes.toHex (Spec.GCM.natToBlock (Spec.GCM.mulGF (Spec.GCM.blockToNat x) (Spec.GCM.blockToNat y))))
    | _, _ => some "bad-op"
  | ["gcm.ghash.spec", h, data] =>
    match parseBytes h, parseBytes data with
    | some h, some data => some ("ok " ++ Bytes.toHex (Spec.GCM.natToBlock (Spec.GCM.ghash (Spec.GCM.blockToNat h) (Spec.GCM.pad16 data))))
    | _, _ => some "bad-op"
  -- C10: the Go glue on the slice heap, and the buffer contract itself (Driver/GCMGlue.lean)
  | "gcm.sealglue" :: _ => Driver.GCMGlue.handle toks
  | "gcm.openglue" :: _ => Driver.GCMGlue.handle toks
  | "gcm.sealglue.spec" :: _ => Driver.GCMGlue.handle toks
  | "gcm.openglue.spec" :: _ => Driver.GCMGlue.handle toks
  | "sm3.sumglue" :: _ => Driver.GCMGlue.handle toks
  | _ => Driver.GCMGlueArm64.handle toks  -- gcm.sealglue.a64 / gcm.openglue.a64 (arm64 Go glue)

end Driver.GCM
