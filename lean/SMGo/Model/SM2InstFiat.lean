/-
  The SM2 models instantiated with the REGENERATED FIAT-CRYPTO FUNCTIONS as field layers (gap X1 of
  the audit): `ctxFiat` is `Model.SM2.ctx` with the coordinate field and the scalar field replaced by
  records of the generated limb-level functions of `Gen.FiatP` / `Gen.FiatN` (elements are lists of four
  64-bit limbs, exactly what the Go code computes on).  Everything above the field layer (point
  formulas, multiplication schedules, protocol) is the same polymorphic model code as for `ctx`.
  Core Lean only; executable (driver requests `*.fiat`, harness C16).

  `SMGo/Props/SM2Fiat.lean` proves that `ctxFiat` and `ctx` return the same results at the protocol
  level, so that the SM2 theorems are theorems about the regenerated Fiat code composed with the models
  of the layers above it.
-/
import SMGo.Model.SM2Inst
import SMGo.Gen.FiatP
import SMGo.Gen.FiatN
namespace SMGo.Model.SM2
open SMGo SMGo.Model.Field

/-- the field-operations record built from the generated functions modulo p -/
def fiatP : FieldOps (List Nat) :=
  { modulus := Gen.SM2Params.param_P
    zero := [0, 0, 0, 0]
    setOne := Gen.FiatP.sm2SetOne
    add := Gen.FiatP.sm2Add
    sub := Gen.FiatP.sm2Sub
    opp := Gen.FiatP.sm2Opp
    mul := Gen.FiatP.sm2Mul
    square := Gen.FiatP.sm2Square
    fromMontgomery := Gen.FiatP.sm2FromMontgomery
    toMontgomery := Gen.FiatP.sm2ToMontgomery
    toBytesLE := fun a => (Gen.FiatP.sm2ToBytes a).map UInt8.ofNat
    fromBytesLE := fun b => Gen.FiatP.sm2FromBytes (b.map UInt8.toNat)
    raw := id
    ofRaw := id
    chain := Gen.AddChain.fieldInverse
    chainRegs := Gen.AddChain.fieldInverse_regs }

/-- the field-operations record built from the generated functions modulo n -/
def fiatN : FieldOps (List Nat) :=
  { modulus := Gen.SM2Params.param_N
    zero := [0, 0, 0, 0]
    setOne := Gen.FiatN.sm2ScalarSetOne
    add := Gen.FiatN.sm2ScalarAdd
    sub := Gen.FiatN.sm2ScalarSub
    opp := Gen.FiatN.sm2ScalarOpp
    mul := Gen.FiatN.sm2ScalarMul
    square := Gen.FiatN.sm2ScalarSquare
    fromMontgomery := Gen.FiatN.sm2ScalarFromMontgomery
    toMontgomery := Gen.FiatN.sm2ScalarToMontgomery
    toBytesLE := fun a => (Gen.FiatN.sm2ScalarToBytes a).map UInt8.ofNat
    fromBytesLE := fun b => Gen.FiatN.sm2ScalarFromBytes (b.map UInt8.toNat)
    raw := id
    ofRaw := id
    chain := Gen.AddChain.scalarInverse
    chainRegs := Gen.AddChain.scalarInverse_regs }

/-- the curve coefficient b in Montgomery form, on limbs: `sm2ToMontgomery` of the limbs of b -/
def bLimbs : List Nat := Gen.FiatP.sm2ToMontgomery (natToLimbs Gen.SM2Params.param_B)

/-- the point layer over the generated coordinate-field functions -/
def pointCtxFiat : Point.Ctx (List Nat) :=
  { F := fiatP, b := bLimbs,
    addProg := Gen.PointSLP.add, addOut := Gen.PointSLP.add_out,
    dblProg := Gen.PointSLP.double, dblOut := Gen.PointSLP.double_out }

/-- `Model.SM2.ctx` with both field layers replaced by the generated Fiat functions -/
def ctxFiat : Ctx (List Nat) (List Nat) :=
  { C := pointCtxFiat, S := fiatN,
    first := Gen.SM2Tables.sm2Precomputed_6_3_14, second := Gen.SM2Tables.sm2Precomputed_6_3_14_Remainder,
    n := Gen.SM2Params.param_N,
    zBytes := Bytes.ofNatBE Gen.SM2Params.zBytesLen Gen.SM2Params.zBytesVal,
    tt := Gen.SM3Const.tt.map (BitVec.ofNat 32) }

end SMGo.Model.SM2
