/-
  Abstract machine, per-mnemonic role table and taint checker for the macro-expanded assembler
  listings of sm4/*.s (amd64 and arm64).  Core Lean only.

  TRUSTED in this file (everything a reader has to believe for property C09):
    * `roles`    – for each mnemonic: which operands are read / written, flags read / written,
                   branch kind, opmask gating, post-index addressing;
    * `effOf`    – the footprint (`Eff`) of one instruction obtained from `roles` and its operands;
    * `step`     – the abstract machine: what an instruction with a given footprint does and
                   which observation (pc, touched addresses, gating masks) it emits.
  NOT trusted: the taint domain, `transfer`, `checkInv`, `computeInv` – these are only used
  through the soundness theorem `taint_sound` (SMGo/Proofs/ISASound.lean), which is stated in
  terms of `step` alone.
-/
import SMGo.Model.ISAInstr

namespace SMGo.Model.ISA

/-! ## 1. Roles -/

/-- What an instruction does with one operand. -/
inductive OpRole where
  | rd    -- read: register value / register list / load from memory, frame slot or read-only data; immediates are inert
  | wr    -- written, old value irrelevant: full register (VEX/EVEX and 32/64-bit GPR writes), store, result slot
  | rw    -- read and written: two-operand arithmetic, partial-register writes (MOVB/MOVW/ORB, legacy SSE),
          -- merge-masked destinations, lane inserts, read-modify-write memory operands
  | wl    -- destination of a legacy (non-VEX) move: like `wr` for a GPR, memory or frame slot; an XMM destination
          -- keeps bits 128.. of the ZMM register, i.e. is read as well
  | msk   -- AVX-512 opmask `{k}`: read; gates which elements of the destination / of memory are accessed
  | lea   -- address computation only (LEAQ): the value is the address, no memory access
  | im    -- an immediate is required here (selector / shift count)
  | tgt   -- branch target
  | ign   -- not interpreted: the link register printed by arm64 `RET (R30)`
deriving DecidableEq, Repr

inductive Kind where
  | seq   -- falls through
  | jcc   -- conditional branch: target or fall-through, decided by the flags
  | jmp   -- unconditional branch
  | ret   -- leaves the routine
deriving DecidableEq, Repr

structure Role where
  /-- admissible operand lists (Go order: sources first, destination last; opmask before destination) -/
  shapes : List (List OpRole)
  /-- reads the condition flags -/
  rf : Bool := false
  /-- writes the condition flags -/
  wf : Bool := false
  kind : Kind := .seq
  /-- arm64 post-index (`.P`): the access is at `[base]`, afterwards `base += disp` -/
  post : Bool := false
  /-- the first operand must be an immediate that is non-zero modulo 64 (x86 shifts by 0 leave the flags alone) -/
  nzImm : Bool := false
deriving Repr

namespace Shapes
open OpRole
/-- `OP src, dst` with `dst := f(src)` -/
def mov : List (List OpRole) := [[rd, wr]]
/-- legacy move (MOVL/MOVQ, also MOVD/MOVQ to XMM) -/
def movl : List (List OpRole) := [[rd, wl]]
/-- `OP src, dst` with `dst := f(src, dst)` -/
def acc : List (List OpRole) := [[rd, rw]]
/-- three-operand vector op `OP a, b, dst` -/
def v3 : List (List OpRole) := [[rd, rd, wr]]
/-- three-operand vector op, optionally merge-masked `OP a, b, K, dst` -/
def v3m : List (List OpRole) := [[rd, rd, wr], [rd, rd, msk, rw]]
/-- `OP $imm, a, dst` -/
def vi3 : List (List OpRole) := [[im, rd, wr]]
/-- `OP $imm, a, b, dst` -/
def vi4 : List (List OpRole) := [[im, rd, rd, wr]]
def br : List (List OpRole) := [[tgt]]
end Shapes

open Shapes in
/-- The role table.  Every mnemonic of the five listings; an unknown mnemonic has NO role and makes
    `effOf`, hence `step` and `checkInv`, fail.  (Most frequent mnemonics first: the kernel evaluates
    this match as a chain of string comparisons.) -/
def roles (mn : String) : Option Role :=
  match mn with
  /- ---- amd64, AVX-512 / GFNI / VPCLMULQDQ (Intel SDM vol. 2).  EVEX/VEX encoded: the destination register is
          written in full (upper bits zeroed), no flags, no memory access unless an operand is a memory operand. -/
  | "VPXORD"            => some { shapes := v3 }            -- dst := a xor b
  | "VPROLD"            => some { shapes := vi3 }           -- rotate dwords by imm
  | "VGF2P8AFFINEQB"    => some { shapes := vi4 }           -- GF(2) affine map of bytes
  | "VGF2P8AFFINEINVQB" => some { shapes := vi4 }           -- affine map of the GF(2^8) inverse
  | "VPBROADCASTD"      => some { shapes := mov }           -- broadcast low dword of a GPR / vector
  | "VPCLMULQDQ"        => some { shapes := vi4 }           -- carry-less multiply, imm selects the quadwords
  | "VMOVDQU32"         => some { shapes := [[.rd, .wr], [.rd, .msk, .rw]] }   -- load/store/move; masked: merge, fault-suppressed
  | "VPSHUFB"           => some { shapes := v3m }           -- byte shuffle within registers (indices are data, no memory)
  | "VPSRLDQ"           => some { shapes := vi3 }
  | "VPSLLDQ"           => some { shapes := vi3 }
  | "VPANDD"            => some { shapes := v3 }
  | "VPUNPCKLDQ"        => some { shapes := v3 }
  | "VPUNPCKHDQ"        => some { shapes := v3 }
  | "VPADDD"            => some { shapes := v3 }
  | "VPSRLW"            => some { shapes := vi3 }
  | "VPUNPCKLQDQ"       => some { shapes := v3 }
  | "VPUNPCKHQDQ"       => some { shapes := v3 }
  | "VPERMQ"            => some { shapes := [[.im, .rd, .wr], [.rd, .rd, .wr], [.rd, .rd, .msk, .rw]] }  -- qword permute within a register
  | "VMOVDQA64"         => some { shapes := mov }
  | "VBROADCASTI32X2"   => some { shapes := mov }           -- broadcast 64 bits from memory
  | "VALIGND"           => some { shapes := vi4 }
  | "VBROADCASTI32X4"   => some { shapes := mov }           -- broadcast 128 bits from memory
  | "VMOVAPD"           => some { shapes := mov }
  | "VPSLLQ"            => some { shapes := vi3 }
  | "PSLLO"             => some { shapes := [[.im, .rw]] }  -- legacy SSE PSLLDQ: xmm shifted in place, upper bits kept
  | "KMOVW"             => some { shapes := mov }           -- GPR -> opmask
  /- ---- amd64, integer.  Arithmetic and logic write all status flags (some "undefined" = unspecified function of
          the inputs); MOV/LEA leave them alone.  32- and 64-bit register writes replace the whole register,
          8- and 16-bit writes keep the upper bits (destination is read). -/
  | "MOVL"              => some { shapes := movl }           -- to XMM: MOVD xmm, r/m32 (bits 32..127 zeroed, 128.. kept)
  | "ADDQ"              => some { shapes := acc, wf := true }
  | "MOVQ"              => some { shapes := movl }           -- to XMM: MOVQ xmm, r/m64 (bits 64..127 zeroed, 128.. kept)
  | "SUBQ"              => some { shapes := acc, wf := true }
  | "CMPQ"              => some { shapes := [[.rd, .rd]], wf := true }
  | "JLT"               => some { shapes := br, rf := true, kind := .jcc }
  | "JMP"               => some { shapes := br, kind := .jmp }   -- amd64 JMP rel / arm64 B
  | "LEAQ"              => some { shapes := [[.lea, .wr]] }
  | "NOP"               => some { shapes := [[]] }
  | "MOVB"              => some { shapes := acc }            -- 8-bit move: register destination keeps bits 8..63
  | "JEQ"               => some { shapes := br, rf := true, kind := .jcc }
  | "MOVW"              => some { shapes := acc }            -- 16-bit move
  | "SHRQ"              => some { shapes := [[.im, .rw]], wf := true, nzImm := true }
  | "ORB"               => some { shapes := acc, wf := true }
  | "RET"               => some { shapes := [[], [.ign]], kind := .ret }   -- amd64 RET / arm64 RET (R30)
  | "JGT"               => some { shapes := br, rf := true, kind := .jcc }
  | "SHLQ"              => some { shapes := [[.im, .rw]], wf := true, nzImm := true }
  | "ANDQ"              => some { shapes := acc, wf := true }
  | "JLE"               => some { shapes := br, rf := true, kind := .jcc }
  | "ORQ"               => some { shapes := acc, wf := true }
  | "XORB"              => some { shapes := acc, wf := true }
  | "XORQ"              => some { shapes := acc, wf := true }
  | "JGE"               => some { shapes := br, rf := true, kind := .jcc }
  | "JNE"               => some { shapes := br, rf := true, kind := .jcc }
  /- ---- arm64, Advanced SIMD (Arm ARM C7).  No flags.  Go prints `V<n>.<arrangement>`; element forms
          (`V1.S[0]`) are not distinguished from whole-register forms by the listing translator, so a destination
          that could be a single lane is `rw`. -/
  | "VEOR"              => some { shapes := v3 }
  | "VSHL"              => some { shapes := vi3 }            -- SHL by immediate
  | "VSRI"              => some { shapes := [[.im, .rd, .rw]] }  -- shift right and insert: keeps the top bits of dst
  | "VSUB"              => some { shapes := v3 }
  | "VTBL"              => some { shapes := v3 }             -- TBL: table in registers (indices are data, no memory)
  | "VLD1.P"            => some { shapes := acc, post := true }  -- LD1 (multiple structures / single lane), post-index
  | "VLD1"              => some { shapes := acc }
  | "VST1"              => some { shapes := mov }
  | "VDUP"              => some { shapes := mov }
  | "VREV32"            => some { shapes := mov }
  | "VST1.P"            => some { shapes := mov, post := true }
  | "VEXT"              => some { shapes := vi4 }
  | "VMOV"              => some { shapes := acc }            -- MOV Vd, Vn or INS Vd.T[i], Vn.T[j]
  | "VPMULL"            => some { shapes := v3 }
  | "VPMULL2"           => some { shapes := v3 }
  | "VRBIT"             => some { shapes := mov }
  | "VMOVI"             => some { shapes := [[.im, .wr]] }
  | "VLD4.P"            => some { shapes := acc, post := true }
  | "VST4.P"            => some { shapes := mov, post := true }
  | "VLD4"              => some { shapes := acc }
  | "VST4"              => some { shapes := mov }
  /- ---- arm64, integer (Arm ARM C6).  ADD/SUB (no S suffix) leave the flags alone; CMP = SUBS to ZR. -/
  | "MOVD"              => some { shapes := mov }            -- 64-bit move / load from the frame / address of a symbol
  | "SUB"               => some { shapes := [[.rd, .rd, .wr], [.rd, .rw]] }
  | "ADD"               => some { shapes := [[.rd, .rd, .wr], [.rd, .rw]] }
  | "CMP"               => some { shapes := [[.rd, .rd]], wf := true }
  | "BLT"               => some { shapes := br, rf := true, kind := .jcc }
  | "BGT"               => some { shapes := br, rf := true, kind := .jcc }
  | "BEQ"               => some { shapes := br, rf := true, kind := .jcc }
  | _                   => none

/-! ## 2. Footprint of one instruction -/

structure MemRef where
  base : Reg
  index : Option Reg
  scale : Nat
  disp : Int
deriving DecidableEq, Repr

/-- Is operand `o` admissible in a position with role `r`? -/
def compat : OpRole → Opd → Bool
  | .rd, .reg _ | .rd, .regs _ | .rd, .imm _ | .rd, .mem .. | .rd, .sym .. | .rd, .symAddr .. | .rd, .frame .. => true
  | .wr, .reg _ | .wr, .regs _ | .wr, .mem .. | .wr, .frame .. => true
  | .wl, .reg _ | .wl, .mem .. | .wl, .frame .. => true
  | .rw, .reg _ | .rw, .regs _ | .rw, .mem .. => true
  | .msk, .reg (.k _) => true
  | .lea, .sym .. | .lea, .mem .. => true
  | .im, .imm _ => true
  | .tgt, .target _ => true
  | .ign, _ => true
  | _, _ => false

def zipRoles : List OpRole → List Opd → Option (List (OpRole × Opd))
  | [], [] => some []
  | r :: rs, o :: os => if compat r o then (zipRoles rs os).map ((r, o) :: ·) else none
  | _, _ => none

def pickShape : List (List OpRole) → List Opd → Option (List (OpRole × Opd))
  | [], _ => none
  | sh :: shs, ops => match zipRoles sh ops with
    | some z => some z
    | none => pickShape shs ops

def optReg : Option Reg → List Reg
  | some r => [r]
  | none => []

/-- registers whose VALUE enters the data computation -/
def readsOf : List (OpRole × Opd) → List Reg
  | [] => []
  | (.rd, .reg r) :: t | (.rw, .reg r) :: t | (.msk, .reg r) :: t => r :: readsOf t
  | (.wl, .reg (.vec n)) :: t => .vec n :: readsOf t
  | (.rd, .regs rs) :: t | (.rw, .regs rs) :: t => rs ++ readsOf t
  | (.lea, .mem b i _ _) :: t => b :: (optReg i ++ readsOf t)
  | _ :: t => readsOf t

def writesOf : List (OpRole × Opd) → List Reg
  | [] => []
  | (.wr, .reg r) :: t | (.rw, .reg r) :: t | (.wl, .reg r) :: t => r :: writesOf t
  | (.wr, .regs rs) :: t | (.rw, .regs rs) :: t => rs ++ writesOf t
  | _ :: t => writesOf t

def masksOf : List (OpRole × Opd) → List Reg
  | [] => []
  | (.msk, .reg r) :: t => r :: masksOf t
  | _ :: t => masksOf t

/-- memory operands accessed through a register pointer, with (is-load, is-store) -/
def memsOf : List (OpRole × Opd) → List (MemRef × Bool × Bool)
  | [] => []
  | (.rd, .mem b i s d) :: t => (⟨b, i, s, d⟩, true, false) :: memsOf t
  | (.wr, .mem b i s d) :: t | (.wl, .mem b i s d) :: t => (⟨b, i, s, d⟩, false, true) :: memsOf t
  | (.rw, .mem b i s d) :: t => (⟨b, i, s, d⟩, true, true) :: memsOf t
  | _ :: t => memsOf t

def frameLoadsOf : List (OpRole × Opd) → List Nat
  | [] => []
  | (.rd, .frame _ off) :: t => off :: frameLoadsOf t
  | _ :: t => frameLoadsOf t

def frameStoresOf : List (OpRole × Opd) → List Nat
  | [] => []
  | (.wr, .frame _ off) :: t | (.wl, .frame _ off) :: t => off :: frameStoresOf t
  | _ :: t => frameStoresOf t

/-- loads from read-only data `name<>+off(SB)` -/
def symsOf : List (OpRole × Opd) → List (String × Nat)
  | [] => []
  | (.rd, .sym n off) :: t => (n, off) :: symsOf t
  | _ :: t => symsOf t

/-- addresses of read-only data: `$name<>+off(SB)` as a source, `LEAQ name<>+off(SB)` -/
def symAddrsOf : List (OpRole × Opd) → List (String × Nat)
  | [] => []
  | (.rd, .symAddr n off) :: t | (.lea, .sym n off) :: t => (n, off) :: symAddrsOf t
  | _ :: t => symAddrsOf t

def targetOf : List (OpRole × Opd) → Option Nat
  | [] => none
  | (.tgt, .target p) :: _ => some p
  | _ :: t => targetOf t

/-- The footprint of one instruction. -/
structure Eff where
  reads : List Reg                 -- registers whose value enters the data function (incl. opmasks)
  writes : List Reg                -- registers that receive a result of the data function
  rf : Bool
  wf : Bool
  mem : Option MemRef              -- the memory operand accessed through a register pointer, if any
  load : Bool                      -- its cells are read
  store : Bool                     -- its cells are written
  post : Bool                      -- post-index: access at [base], then base += disp
  masks : List Reg                 -- opmasks gating the access
  frameLoads : List Nat            -- argument slots read (offsets from FP)
  frameStores : List Nat           -- result slots written
  syms : List (String × Nat)       -- read-only data loaded
  symAddrs : List (String × Nat)   -- addresses of read-only data taken
  kind : Kind
  target : Option Nat
deriving Repr

def isNzImm : List Opd → Bool
  | .imm v :: _ => v % 64 != 0
  | _ => false

/-- `WORD $w` on arm64: only `TBX Vd.16B, {Vn.16B-V(n+3).16B}, Vm.16B`
    (0 1 001110 00 0 Rm 0 11 1 00 Rn Rd; Arm ARM C7.2 TBX, Q=1, len=3) is accepted: extended table lookup in
    registers; reads Vd (kept where the index is out of range), the four table registers and Vm; writes Vd. -/
def wordEff (w : Nat) : Option Eff :=
  if w &&& 0xFFE0FC00 == 0x4E007000 then
    let m := (w >>> 16) &&& 31
    let n := (w >>> 5) &&& 31
    let d := w &&& 31
    some { reads := [.vec d, .vec m, .vec n, .vec ((n + 1) % 32), .vec ((n + 2) % 32), .vec ((n + 3) % 32)],
           writes := [.vec d], rf := false, wf := false, mem := none, load := false, store := false,
           post := false, masks := [], frameLoads := [], frameStores := [], syms := [], symAddrs := [],
           kind := .seq, target := none }
  else none

def effOf (i : Instr) : Option Eff :=
  match roles i.mn with
  | none =>
    -- the only other accepted entry: arm64 `WORD $w` encoding a TBX
    if i.mn = "WORD" then
      match i.ops with
      | [.imm w] => if 0 ≤ w then wordEff w.toNat else none
      | _ => none
    else none
  | some role =>
    match pickShape role.shapes i.ops with
    | none => none
    | some z =>
      if role.nzImm && !isNzImm i.ops then none else
      match memsOf z with
      | [] =>
        if role.post then none else
        some { reads := readsOf z, writes := writesOf z, rf := role.rf, wf := role.wf, mem := none,
               load := false, store := false, post := false, masks := masksOf z,
               frameLoads := frameLoadsOf z, frameStores := frameStoresOf z, syms := symsOf z,
               symAddrs := symAddrsOf z, kind := role.kind, target := targetOf z }
      | [(m, ld, st)] =>
        some { reads := readsOf z, writes := writesOf z, rf := role.rf, wf := role.wf, mem := some m,
               load := ld, store := st, post := role.post, masks := masksOf z,
               frameLoads := frameLoadsOf z, frameStores := frameStoresOf z, syms := symsOf z,
               symAddrs := symAddrsOf z, kind := role.kind, target := targetOf z }
      | _ => none   -- more than one memory operand: not in the listings

/-! ## 3. Abstract machine -/

/-- The data semantics is a PARAMETER: every theorem holds for all of them. -/
structure Sem where
  /-- results (one per written register, then the flags) from the values read
      (registers in `Eff.reads` order, flags, frame slots, read-only data, symbol addresses, loaded cells) -/
  data : Instr → List Nat → List Nat
  /-- new contents of the cells of a store: from the values read and the old cells -/
  stor : Instr → List Nat → List Nat → List Nat
  /-- branch decision of a conditional branch from the flags -/
  cond : Instr → Nat → Bool
  /-- number of memory cells covered by the memory operand -/
  width : Instr → Nat
  /-- read-only data: address and contents (public constants) -/
  symAddr : String → Nat
  rodata : String → Nat → Nat

structure State where
  pc : Nat
  regs : Reg → Nat        -- register file; values are natural numbers of any width
  flags : Nat
  mem : Nat → Nat         -- address ↦ cell
  frame : Nat → Nat       -- argument frame (pointers, lengths): offset from FP ↦ value
  res : Nat → Nat         -- result slots of the frame (written, never read back: see `frameOk`)

/-- What an attacker sees of one step. -/
structure Obs where
  pc : Nat
  addrs : List Nat        -- effective address of the memory operand (the cells touched are addr .. addr+width-1)
  masks : List Nat        -- value of the opmask selecting which of these cells are touched
deriving DecidableEq, Repr

/-- effective address: base + index·scale + disp; post-index forms access `[base]` -/
def ea (regs : Reg → Nat) (m : MemRef) (post : Bool) : Nat :=
  if post then regs m.base
  else Int.toNat ((regs m.base : Int)
        + (match m.index with | some x => (regs x : Int) * (m.scale : Int) | none => 0) + m.disp)

def memAddrs (e : Eff) (regs : Reg → Nat) : List Nat :=
  match e.mem with
  | some m => [ea regs m e.post]
  | none => []

def obsOf (e : Eff) (s : State) : Obs :=
  ⟨s.pc, memAddrs e s.regs, match e.mem with | some _ => e.masks.map s.regs | none => []⟩

def cellsOf (sem : Sem) (i : Instr) (e : Eff) (s : State) : List Nat :=
  match e.mem with
  | some m => (List.range (sem.width i)).map (fun k => s.mem (ea s.regs m e.post + k))
  | none => []

/-- values handed to the data function -/
def inputsOf (sem : Sem) (i : Instr) (e : Eff) (s : State) : List Nat :=
  e.reads.map s.regs
  ++ (if e.rf then [s.flags] else [])
  ++ e.frameLoads.map s.frame
  ++ e.syms.map (fun p => sem.rodata p.1 p.2)
  ++ e.symAddrs.map (fun p => sem.symAddr p.1 + p.2)
  ++ (if e.load then cellsOf sem i e s else [])

def writeRegs (regs : Reg → Nat) : List Reg → List Nat → Reg → Nat
  | [], _ => regs
  | r :: rs, vs => writeRegs (fun x => if x = r then vs.headD 0 else regs x) rs vs.tail

def writeCells (mem : Nat → Nat) (a : Nat) (vs : List Nat) : Nat → Nat :=
  fun x => if a ≤ x ∧ x < a + vs.length then vs.getD (x - a) 0 else mem x

def writeSlots (res : Nat → Nat) : List Nat → Nat → Nat → Nat
  | [], _ => res
  | o :: os, v => writeSlots (fun x => if x = o then v else res x) os v

def nextPcOf (sem : Sem) (i : Instr) (e : Eff) (nx : Option Nat) (s : State) : Option Nat :=
  match e.kind with
  | .seq => nx
  | .jmp => e.target
  | .jcc => if sem.cond i s.flags then e.target else nx
  | .ret => none

/-- Execute instruction `i` with footprint `e` and fall-through pc `nx` in state `s`. -/
def exec (sem : Sem) (i : Instr) (e : Eff) (nx : Option Nat) (s : State) : Obs × Option State :=
  let ins := inputsOf sem i e s
  let outs := sem.data i ins
  let regs1 := writeRegs s.regs e.writes outs
  let regs2 : Reg → Nat := match e.mem with
    | some m => if e.post then (fun x => if x = m.base then Int.toNat ((s.regs m.base : Int) + m.disp) else regs1 x)
                else regs1
    | none => regs1
  let flags' := if e.wf then outs.getD e.writes.length 0 else s.flags
  let mem' := match e.mem with
    | some m => if e.store then writeCells s.mem (ea s.regs m e.post) (sem.stor i ins (cellsOf sem i e s)) else s.mem
    | none => s.mem
  let res' := writeSlots s.res e.frameStores (outs.getD (e.writes.length + 1) 0)
  (obsOf e s,
   match nextPcOf sem i e nx s with
   | some p => some { pc := p, regs := regs2, flags := flags', mem := mem', frame := s.frame, res := res' }
   | none => none)

def nextOf (rest : List Instr) (nx : Option Nat) : Option Nat :=
  match rest with
  | [] => nx
  | j :: _ => some j.pc

/-- Instruction at `pc` and the pc of the instruction that follows it in the listing.  An entry of the listing whose
    successor has the SAME pc occupies no bytes (Go's pseudo-instruction `NOP`): it is not an instruction and is
    skipped. -/
def fetchFrom : List Instr → Option Nat → Nat → Option (Instr × Option Nat)
  | [], _, _ => none
  | i :: rest, nx, pc =>
    if i.pc = pc ∧ nextOf rest nx ≠ some pc then some (i, nextOf rest nx) else fetchFrom rest nx pc

def fetch (prog : List Instr) (pc : Nat) : Option (Instr × Option Nat) := fetchFrom prog none pc

/-- One step.  `none`: stuck (no instruction at pc, or an instruction without role);
    `some (o, none)`: the routine returned (or ran off its end); `some (o, some s')`: continue in `s'`. -/
def step (sem : Sem) (prog : List Instr) (s : State) : Option (Obs × Option State) :=
  match fetch prog s.pc with
  | none => none
  | some (i, nx) =>
    match effOf i with
    | none => none
    | some e => some (exec sem i e nx s)

/-- observations of the first `n` steps -/
def trace (sem : Sem) (prog : List Instr) : Nat → State → List Obs
  | 0, _ => []
  | n + 1, s =>
    match step sem prog s with
    | none => []
    | some (o, none) => [o]
    | some (o, some s') => o :: trace sem prog n s'

/-- the decision a conditional branch at the current pc would take -/
def decision (sem : Sem) (prog : List Instr) (s : State) : Option Bool :=
  match fetch prog s.pc with
  | none => none
  | some (i, _) => some (sem.cond i s.flags)

/-- The two executions take the same decision whenever the first is at a declassified pc (first `n` steps). -/
def SameDecisions (sem : Sem) (prog : List Instr) (declass : List Nat) : Nat → State → State → Prop
  | 0, _, _ => True
  | n + 1, s1, s2 =>
    (s1.pc ∈ declass → decision sem prog s1 = decision sem prog s2) ∧
    (match step sem prog s1, step sem prog s2 with
     | some (_, some s1'), some (_, some s2') => SameDecisions sem prog declass n s1' s2'
     | _, _ => True)

/-! ## 4. Taint domain

  A taint set is a natural number used as a bit set: bit 0 = "the flags are tainted", bit `r.idx` = register `r`
  is tainted.  Only registers with `idx < 128` are architectural (`checkInv` rejects any other).
  (Definitions below use `bif`, `Nat.beq`, `Nat.blt` rather than `if`/`==`/`decide`: they are evaluated by the
  kernel, where every avoided instance unfolding counts.) -/

abbrev TaintSet := Nat

def Reg.idx : Reg → Nat
  | .gpr n => 3 * n + 1
  | .vec n => 3 * n + 2
  | .k n => 3 * n + 3

def regBit (r : Reg) : Nat := 1 <<< r.idx

def maskOf : List Reg → Nat
  | [] => 0
  | r :: rs => regBit r ||| maskOf rs

/-- Bit 128 is no register: it marks "reachable from the entry".  No instruction can clear it (`checkInstr`
    only accepts masks below 2^128), so under an inductive invariant every reachable pc carries it. -/
def reachBit : Nat := 128

/-- 2^128: bound on the masks of architectural registers -/
def regLimit : Nat := 340282366920938463463374607431768211456

/-- entry state: all architectural registers and the flags tainted, reachable (= 2^129 - 1) -/
def allTaint : TaintSet := 680564733841876926926749214863536422911

def subset (A B : TaintSet) : Bool := Nat.beq (A &&& B) A

def readMask (e : Eff) : Nat := maskOf e.reads ||| (bif e.rf then 1 else 0)
def writeMask (e : Eff) : Nat := maskOf e.writes ||| (bif e.wf then 1 else 0)

/-- registers that determine which addresses are touched: base, index and the gating opmasks -/
def addrRegs (e : Eff) : List Reg :=
  match e.mem with
  | some m => m.base :: (optReg m.index ++ e.masks)
  | none => []

def addrMask (e : Eff) : Nat := maskOf (addrRegs e)

/-- `T` with the bits of `W` set (`tainted = true`) or cleared -/
def applyWrite (tainted : Bool) (T W : Nat) : Nat :=
  bif tainted then T ||| W else T ^^^ (T &&& W)

/-- Transfer function: results are tainted iff a tainted register/flag is read or memory is loaded through a
    pointer (ALL memory reachable through pointers is secret); otherwise the written registers/flags become public. -/
def transfer (e : Eff) (T : TaintSet) : TaintSet :=
  applyWrite (e.load || !Nat.beq (T &&& readMask e) 0) T (writeMask e)

/-! ## 5. The checker -/

/-- the fall-through successor exists and inherits the taint; an instruction that runs off the end of the listing
    is accepted only if it is unreachable (padding after the last RET) -/
def okNext (inv : Nat → TaintSet) (T' : TaintSet) : Option Nat → Bool
  | some n => subset T' (inv n)
  | none => !T'.testBit reachBit

/-- the branch target is an instruction boundary of the routine and inherits the taint -/
def okTarget (inv : Nat → TaintSet) (hasPc : Nat → Bool) (T' : TaintSet) : Option Nat → Bool
  | some t => hasPc t && subset T' (inv t)
  | none => false

def checkKind (inv : Nat → TaintSet) (declass : List Nat) (hasPc : Nat → Bool) (pc : Nat) (e : Eff)
    (T T' : TaintSet) (next : Option Nat) : Bool :=
  match e.kind with
  | .seq => okNext inv T' next
  | .jmp => okTarget inv hasPc T' e.target
  | .jcc => (!T.testBit 0 || declass.contains pc)      -- branch on untainted flags (or declassified)
            && okTarget inv hasPc T' e.target && okNext inv T' next
  | .ret => true

/-- Local check of one instruction against the invariant. -/
def checkInstr (inv : Nat → TaintSet) (declass : List Nat) (hasPc : Nat → Bool) (i : Instr) (next : Option Nat) : Bool :=
  match effOf i with
  | none => false                                            -- unknown mnemonic / operand shape
  | some e =>
    Nat.blt (readMask e ||| writeMask e ||| addrMask e) regLimit    -- only architectural registers
    && Nat.beq (inv i.pc &&& addrMask e) 0                          -- base, index, gating opmask untainted
    && checkKind inv declass hasPc i.pc e (inv i.pc) (transfer e (inv i.pc)) next

def checkFrom (chk : Instr → Option Nat → Bool) : List Instr → Option Nat → Bool
  | [], _ => true
  | i :: rest, nx => chk i (nextOf rest nx) && checkFrom chk rest nx

def hasPcIn (prog : List Instr) (t : Nat) : Bool := prog.any (fun i => Nat.beq i.pc t)

/-- `inv` is an inductive invariant of the taint analysis of `prog`, and under it all addresses and all branch
    conditions (except at the pcs in `declass`) are untainted. -/
def checkInv (prog : List Instr) (inv : Nat → TaintSet) (declass : List Nat) : Bool :=
  checkFrom (checkInstr inv declass (hasPcIn prog)) prog none

/-- bit set of the pcs of the listing (for the kernel: `hasPcIn` is linear in the listing) -/
def pcBits : List Instr → Nat
  | [] => 0
  | i :: rest => (1 <<< i.pc) ||| pcBits rest

/-- `checkInv` with the instruction-boundary test done on a bit set -/
def checkInvFast (prog : List Instr) (inv : Nat → TaintSet) (declass : List Nat) : Bool :=
  checkFrom (checkInstr inv declass (fun t => (pcBits prog).testBit t)) prog none

/-- Model-faithfulness side condition: no argument slot that is read overlaps a result slot that is written
    (so that modelling the results as write-only `res` loses nothing).  Slots are at most 8 bytes wide. -/
def frameOk (prog : List Instr) : Bool :=
  let effs := prog.filterMap effOf
  let loads := effs.flatMap (·.frameLoads)
  let stores := effs.flatMap (·.frameStores)
  stores.all (fun st => loads.all (fun ld => Nat.ble (ld + 8) st))

/-! ## 6. Computing the invariant (untrusted: its result is checked by `checkInv`)

  The invariant is kept as ONE natural number: the taint set of the k-th instruction (k = 1, 2, …) occupies bits
  `stride·k … stride·k+128`; a second number maps a pc to its k (16 bits per pc, 0 = no instruction there).
  (Natural-number primitives are evaluated eagerly by the kernel, list cells are not; and numbers below ~100 KB
  are cheap to allocate.) -/

def stride : Nat := 129

def slot (big : Nat) (k : Nat) : TaintSet := (big >>> (stride * k)) % 680564733841876926926749214863536422912  -- mod 2^129

def packAt (k : Nat) (T : TaintSet) : Nat := T <<< (stride * k)

/-- pc ↦ position (from 1) in the listing, packed 16 bits per pc; of several entries with the same pc (zero-length
    `NOP`s before an instruction) the last one wins -/
def idxMapFrom : List Instr → Nat → Nat → Nat
  | [], _, m => m
  | i :: rest, k, m => idxMapFrom rest (k + 1) (m ^^^ (((m >>> (16 * i.pc)) % 65536 ^^^ k) <<< (16 * i.pc)))

def idxMap (prog : List Instr) : Nat := idxMapFrom prog 1 0

def idxOf (m : Nat) (pc : Nat) : Nat := (m >>> (16 * pc)) % 65536

/-- instruction with pre-computed masks; `target` is the POSITION of the branch target -/
structure RI where
  rmask : Nat
  wmask : Nat
  load : Bool
  kind : Kind
  target : Nat

def resolve1 (m : Nat) (i : Instr) : RI :=
  match effOf i with
  | some e => ⟨readMask e, writeMask e, e.load, e.kind, match e.target with | some t => idxOf m t | none => 0⟩
  | none => ⟨0, 0, false, .ret, 0⟩

def RI.transfer (r : RI) (T : Nat) : Nat :=
  applyWrite (r.load || !Nat.beq (T &&& r.rmask) 0) T r.wmask

/-- One sweep in listing order.  `k`: position of the current instruction; `big`: the packed invariant so far;
    `flow`: taint flowing in from the previous instruction.  Contributions of branches are or-ed into `big` at the
    target: forward targets pick them up in the same sweep, backward targets in the next one. -/
def sweep : List RI → Nat → Nat → Nat → Nat
  | [], _, big, _ => big
  | r :: rs, k, big, flow =>
    let cur := slot big k ||| flow
    let out := r.transfer cur
    let big1 := big ||| packAt k cur
    match r.kind with
    | .seq => sweep rs (k + 1) big1 out
    | .jcc => sweep rs (k + 1) (big1 ||| packAt r.target out) out
    | .jmp => sweep rs (k + 1) (big1 ||| packAt r.target out) 0
    | .ret => sweep rs (k + 1) big1 0

def iterate (ris : List RI) : Nat → Nat → Nat
  | 0, big => big
  | fuel + 1, big =>
    let big' := sweep ris 1 big 0
    bif Nat.beq big' big then big else iterate ris fuel big'

/-- Least fixpoint of the transfer functions over the control-flow graph, packed by position; the entry (first
    instruction) starts with `entryTaint`. -/
def computeInv (prog : List Instr) (entryTaint : TaintSet) : Nat :=
  iterate (prog.map (resolve1 (idxMap prog))) 64 (packAt 1 entryTaint)

/-- the invariant as a function of the pc, from the position map and the packed table -/
def invFrom (m big : Nat) (pc : Nat) : TaintSet := slot big (idxOf m pc)

/-- the computed invariant of a routine entered with everything tainted -/
def invOf (prog : List Instr) : Nat → TaintSet := invFrom (idxMap prog) (computeInv prog allTaint)

def entryPc : List Instr → Nat
  | [] => 0
  | i :: _ => i.pc

/-- Everything that is decided per routine by kernel evaluation: the computed invariant passes `checkInv`
    (with the instruction-boundary test on a bit set), at the entry it allows every register and the flags to be
    tainted, and argument slots and result slots of the frame are disjoint. -/
def certify (prog : List Instr) (declass : List Nat) : Bool :=
  checkInvFast prog (invOf prog) declass && subset allTaint (invOf prog (entryPc prog)) && frameOk prog

/-- The declassified branch: a `JNE` that follows `ORB _, r; CMPQ r, $0` (the tag-match verdict of Open). -/
def declassOf : List Instr → List Nat
  | a :: b :: c :: rest =>
    (match a.mn, a.ops, b.mn, b.ops, c.mn with
     | "ORB", [_, .reg r], "CMPQ", [.reg r', .imm 0], "JNE" => if r = r' then [c.pc] else []
     | _, _, _, _, _ => []) ++ declassOf (b :: c :: rest)
  | _ => []

end SMGo.Model.ISA
