/-
  Hand-written executable model of the ALGORITHM of the fused SM4-GCM assembly
  /repo/sm4/gcm_amd64.s (`sealAsm`, `openAsm`, `gHashBlocks`) and of the arm64 Go glue
  /repo/sm4/sm4_gcm_arm64.go, generic in the block function `E : Bytes → Bytes` (the SM4 kernels are
  property C05).  Core Lean only: linked into `smgo_model` (requests `gcm.seal`, `gcm.open`).

  What is modelled, macro by macro:
    * `reverseBits` (two nibble look-ups LOWER_MASK / HIGHER_MASK) and the little-endian register
      load: a block enters GHASH as the 128-bit number whose bit k is the coefficient of x^k
      (`loadR`); `storeR` is the way back (`gHashBlocksBlocksEnd`, end of `calculateJ0Branch2`);
    * `mul`: Karatsuba, three 64×64 carry-less products (`VPCLMULQDQ`), `reduce`: the middle part is
      merged, then two folding steps with GCM_POLY = 0x87 (`gmulR`);
    * `gHashBlocksPre`/`gHashBlocksLoopBy4Pre`: H², H³, H⁴ by the same multiplier (`hPowers`);
    * `gHashBlocksLoopBy1` (`ghStep1`) and `gHashBlocksLoopBy4` (`ghStep4`:
      (Y⊕X₁)·H⁴ ⊕ X₂·H³ ⊕ X₃·H² ⊕ X₄·H);
    * `CalculateSPre` / `CalculateSMid` / the loop of `calculateJ0Branch2` / `gHashBlocks` (`ghUpdate`):
      fewer than 8 whole blocks: one at a time; otherwise four at a time while at least 4 remain, then one
      at a time; a 1..15-byte remainder is zero-padded;
    * `calculateJ0`: 12-byte nonce ↦ nonce ‖ 00000001 (`makeCounterNew`), otherwise GHASH of the padded
      nonce and the block 0^64 ‖ [8·len]_64;
    * `broadcastJ0`, `fillCounterX16/8/4/2/1`: 32-bit lane additions on the last word (`laneAdd`);
    * `cryptoBlocksAsm`: length classes 256/128/64/32/16 bytes, then a 1..15-byte tail through the
      scratch block; with `hashFlag` the ciphertext of a class is hashed right after it is produced
      (16, 8, 4 blocks: four at a time; 2, 1 blocks and the padded tail: one at a time);
    * `CalculateSPost`: the length block, `S ⊕ E(J0)`, truncation to `tagSize`;
    * `openAsm`: GHASH over the ciphertext (`CalculateSMid`), `constantTimeCompare` on exactly `tagSize`
      bytes (OR of the byte-wise XORs), decryption only on a match; the Go wrapper's
      `len(ciphertext) < tagSize → errOpen`;
    * `sealGlue`: Seal of the arm64 Go glue, which encrypts first and hashes afterwards with `gHashUpdate`
      (its Open has the order of `openAsm`, i.e. `open` below).

  Not modelled: buffer management (`ensureCapacity`, property C10/C11), the wrappers' panics on a wrong
  nonce length and their guard `len > (2^32-2)·16 (+tagSize)` (64 GiB; SP 800-38D's own bound, which
  `Spec.GCM` does not state either), and the SM4 kernels themselves (parameter `E`).
-/
import SMGo.Spec.Bytes
import SMGo.Spec.GCM
namespace SMGo.Model.GCM
open SMGo
open SMGo.Spec.GCM (blockToNat natToBlock xorBytes be64)

/-! ### the reflected representation -/

/-- LOWER_MASK: the nibble with its four bits reversed -/
def revNibble (n : Nat) : Nat := [0, 8, 4, 12, 2, 10, 6, 14, 1, 9, 5, 13, 3, 11, 7, 15].getD n 0

/-- `reverseBits` on one byte: HIGHER_MASK[low nibble] ⊕ LOWER_MASK[high nibble] -/
def rev8 (b : UInt8) : UInt8 :=
  UInt8.ofNat ((revNibble (b.toNat % 16) <<< 4) ^^^ revNibble (b.toNat / 16))

/-- value of a register loaded from memory (byte 0 is the least significant) -/
def toNatLE : Bytes → Nat
  | [] => 0
  | b :: bs => b.toNat + 256 * toNatLE bs

/-- `VMOVDQU32 (data), V; reverseBits(V)`: bit k of the result is the coefficient of x^k -/
def loadR (blk : Bytes) : Nat := toNatLE (blk.map rev8)

/-- `reverseBits(V); VMOVDQU32 V, (mem)` -/
def storeR (v : Nat) : Bytes :=
  (List.range 16).map (fun i => rev8 (UInt8.ofNat (v / 256 ^ i % 256)))

/-! ### carry-less multiplication and reduction -/

/-- xor of `f 0 .. f (n-1)` -/
def xsum : Nat → (Nat → Nat) → Nat
  | 0, _ => 0
  | n + 1, f => xsum n f ^^^ f n

/-- `VPCLMULQDQ` on two selected quadwords: the product of two polynomials of degree < 64 over GF(2) -/
def clmul64 (a b : Nat) : Nat := xsum 64 (fun i => if a.testBit i then b <<< i else 0)

def lo64 (v : Nat) : Nat := v % 2 ^ 64
def hi64 (v : Nat) : Nat := v / 2 ^ 64 % 2 ^ 64

/-- macro `mul` and the first half of `reduce`: the 256-bit product as (high, low) 128-bit halves -/
def karatsuba (h x : Nat) : Nat × Nat :=
  let lo := clmul64 (lo64 x) (lo64 h)
  let hi := clmul64 (hi64 x) (hi64 h)
  let mid := clmul64 (lo64 x ^^^ hi64 x) (lo64 h ^^^ hi64 h)
  let mid := mid ^^^ (hi ^^^ lo)
  (hi ^^^ mid / 2 ^ 64, lo ^^^ mid % 2 ^ 64 * 2 ^ 64)

/-- GCM_POLY: x^7 + x^2 + x + 1 -/
def poly : Nat := 0x87

/-- second half of `reduce`: fold the high half twice with GCM_POLY -/
def reduce (hi lo : Nat) : Nat :=
  let t0 := clmul64 (lo64 hi) poly
  let t1 := clmul64 (hi64 hi) poly
  let lo := lo ^^^ (t0 ^^^ lo64 t1 * 2 ^ 64)
  let t3 := clmul64 (hi64 t1) poly
  lo ^^^ t3

/-- `mul` then `reduce`: the product in GF(2)[x]/(x^128+x^7+x^2+x+1), operands bit k ↔ x^k -/
def gmulR (h x : Nat) : Nat :=
  let (hi, lo) := karatsuba h x
  reduce hi lo

/-- H⁴ : H³ : H² : H, in the reflected representation -/
structure HPow where
  h : Nat
  h2 : Nat
  h3 : Nat
  h4 : Nat

/-- `gHashPre`: H is bit-reflected, then H² = H·H, H³ = H·H², H⁴ = H·H³ -/
def hPowers (hBlock : Bytes) : HPow :=
  let h := loadR hBlock
  let h2 := gmulR h h
  let h3 := gmulR h h2
  let h4 := gmulR h h3
  { h := h, h2 := h2, h3 := h3, h4 := h4 }

/-- `gHashBlocksLoopBy1` on one loaded block -/
def ghStep1 (h y : Nat) (blk : Bytes) : Nat := gmulR h (y ^^^ loadR blk)

/-- `gHashBlocksLoopBy4` on 64 bytes: lanes multiplied by H⁴, H³, H², H and xored together -/
def ghStep4 (hp : HPow) (y : Nat) (d : Bytes) : Nat :=
  gmulR hp.h4 (y ^^^ loadR (d.take 16)) ^^^ gmulR hp.h3 (loadR ((d.drop 16).take 16))
    ^^^ gmulR hp.h2 (loadR ((d.drop 32).take 16)) ^^^ gmulR hp.h (loadR ((d.drop 48).take 16))

/-- `n` blocks, one at a time -/
def ghBy1 (h : Nat) : Nat → Nat → Bytes → Nat
  | 0, y, _ => y
  | n + 1, y, d => ghBy1 h n (ghStep1 h y (d.take 16)) (d.drop 16)

/-- `n` groups of four blocks -/
def ghBy4 (hp : HPow) : Nat → Nat → Bytes → Nat
  | 0, y, _ => y
  | n + 1, y, d => ghBy4 hp n (ghStep4 hp y (d.take 64)) (d.drop 64)

/-- the block loop of `CalculateSPre`, `CalculateSMid`, `calculateJ0Branch2`, `gHashBlocks` on `nb` whole
    blocks: `CMPQ blockCount, $8; JL loopBy1`, else four at a time while more than 3 remain -/
def ghBlocks (hp : HPow) (y : Nat) (d : Bytes) (nb : Nat) : Nat :=
  if nb < 8 then ghBy1 hp.h nb y d
  else ghBy1 hp.h (nb % 4) (ghBy4 hp (nb / 4) y d) (d.drop (64 * (nb / 4)))

/-- zero padding of a 1..15-byte remainder through the scratch block -/
def padBlock (d : Bytes) : Bytes := d ++ List.replicate (16 - d.length) 0

/-- GHASH update over a byte string: whole blocks, then the zero-padded remainder -/
def ghUpdate (hp : HPow) (y : Nat) (d : Bytes) : Nat :=
  let nb := d.length / 16
  let y := if d.length < 16 then y else ghBlocks hp y d nb
  if d.length % 16 = 0 then y else ghStep1 hp.h y (padBlock (d.drop (16 * nb)))

/-! ### J0 and the counter lanes -/

/-- `calculateJ0`; the result is the 128-bit register read as a big-endian number -/
def calculateJ0 (hp : HPow) (nonce : Bytes) : Nat :=
  if nonce.length = 12 then blockToNat (nonce ++ [0, 0, 0, 1])
  else
    let y := ghUpdate hp 0 nonce
    let y := ghStep1 hp.h y (List.replicate 8 0 ++ be64 (8 * nonce.length))
    blockToNat (storeR y)

/-- `VPADDD` on the last 32-bit lane of the (byte-swapped) counter register -/
def laneAdd (j k : Nat) : Nat := j / 2 ^ 32 * 2 ^ 32 + (j % 2 ^ 32 + k) % 2 ^ 32

/-- key stream of an `n`-block kernel: E on the lanes J+1 .. J+n -/
def keyStream (E : Bytes → Bytes) (j n : Nat) : Bytes :=
  (List.range n).flatMap (fun i => E (natToBlock (laneAdd j (i + 1))))

/-- hashing of the `n` ciphertext blocks a kernel has just produced -/
def hashClass (hp : HPow) (n : Nat) (y : Nat) (out : Bytes) : Nat :=
  if n % 4 = 0 then ghBy4 hp (n / 4) y out else ghBy1 hp.h n y out

/-- one length class of `cryptoBlocksAsm`: `fillCounterXn`, the kernel, the xor, the optional hash -/
def classStep (E : Bytes → Bytes) (hp : HPow) (hashFlag : Bool) (n j y : Nat) (src : Bytes) : Bytes × Nat :=
  let out := xorBytes (src.take (16 * n)) (keyStream E j n)
  (out, if hashFlag then hashClass hp n y out else y)

/-- `cryptoBlocksAsm`: returns the output bytes and the running GHASH value -/
def cryptoBlocksAux (E : Bytes → Bytes) (hp : HPow) (hashFlag : Bool) : Nat → Nat → Nat → Bytes → Bytes × Nat
  | 0, _, y, _ => ([], y)
  | fuel + 1, j, y, src =>
    let len := src.length
    let n := if len ≥ 256 then 16 else if len ≥ 128 then 8 else if len ≥ 64 then 4
             else if len ≥ 32 then 2 else if len ≥ 16 then 1 else 0
    if n ≠ 0 then
      let (out, y) := classStep E hp hashFlag n j y src
      let (rest, y) := cryptoBlocksAux E hp hashFlag fuel (laneAdd j n) y (src.drop (16 * n))
      (out ++ rest, y)
    else if len = 0 then ([], y)
    else
      -- loopX0: the tail goes through the zeroed scratch block; `clearRight` before hashing
      let out := (xorBytes (padBlock src) (E (natToBlock (laneAdd j 1)))).take len
      (out, if hashFlag then ghStep1 hp.h y (padBlock out) else y)

def cryptoBlocks (E : Bytes → Bytes) (hp : HPow) (hashFlag : Bool) (j y : Nat) (src : Bytes) : Bytes × Nat :=
  cryptoBlocksAux E hp hashFlag (src.length / 16 + 1) j y src

/-! ### Seal and Open -/

/-- `CalculateSPost`: the length block, the mask E(J0), truncation -/
def finishTag (hp : HPow) (y : Nat) (tmask : Bytes) (aLen cLen t : Nat) : Bytes :=
  let y := ghStep1 hp.h y (be64 (8 * aLen) ++ be64 (8 * cLen))
  (xorBytes (storeR y) tmask).take t

/-- `sealAsm`: ciphertext ‖ tag -/
def «seal» (E : Bytes → Bytes) (t : Nat) (nonce pt aad : Bytes) : Bytes :=
  let hp := hPowers (E (List.replicate 16 0))
  let j0 := calculateJ0 hp nonce
  let tmask := E (natToBlock j0)
  let y := ghUpdate hp 0 aad
  let (c, y) := cryptoBlocks E hp true j0 y pt
  c ++ finishTag hp y tmask aad.length pt.length t

/-- `Seal` of the kernel-plus-Go-glue path (sm4_gcm_arm64.go): the same pieces in another order.  The whole
    message is encrypted first (`cryptoBlocks`, same length classes, no hashing), then `gHashUpdate` runs over
    the additional data and over the ciphertext (`gHashBlocks` with its 8-block threshold + zero-padded
    remainder), then `gHashFinish`, the mask E(J0) and the truncation. -/
def sealGlue (E : Bytes → Bytes) (t : Nat) (nonce pt aad : Bytes) : Bytes :=
  let hp := hPowers (E (List.replicate 16 0))
  let j0 := calculateJ0 hp nonce
  let tmask := E (natToBlock j0)
  let c := (cryptoBlocks E hp false j0 0 pt).1
  let y := ghUpdate hp 0 aad
  let y := ghUpdate hp y c
  c ++ finishTag hp y tmask aad.length pt.length t

/-- `constantTimeCompare` (amd64: both operands are `tagSize` bytes by construction; arm64:
    `subtle.ConstantTimeCompare`, which also compares the lengths): the OR of the byte-wise XORs is zero -/
def ctEqual (x y : Bytes) : Bool :=
  x.length == y.length && (xorBytes x y).foldl (· ||| ·) 0 == 0

/-- `Open` of the Go wrapper around `openAsm`: `none` = errOpen and no plaintext -/
def «open» (E : Bytes → Bytes) (t : Nat) (nonce ct aad : Bytes) : Option Bytes :=
  if ct.length < t then none else
  let n := ct.length - t
  let c := ct.take n
  let tag := ct.drop n
  let hp := hPowers (E (List.replicate 16 0))
  let j0 := calculateJ0 hp nonce
  let tmask := E (natToBlock j0)
  let y := ghUpdate hp 0 aad
  let y := ghUpdate hp y c
  let etag := finishTag hp y tmask aad.length n t
  if ctEqual tag etag then some (cryptoBlocks E hp false j0 0 c).1 else none

end SMGo.Model.GCM
