/-
  The `math/bits` primitives the Fiat-Crypto code is written in, as functions on natural numbers
  (documented behaviour of math/bits: trusted base).  All arguments are < 2^64 in the generated code.
-/
namespace SMGo.Model.FiatPrim

/-- `bits.Mul64`: low and high halves of the 128-bit product -/
def mul64lo (a b : Nat) : Nat := (a * b) % 18446744073709551616
def mul64hi (a b : Nat) : Nat := (a * b) / 18446744073709551616

/-- `bits.Add64`: sum and carry-out -/
def add64s (a b c : Nat) : Nat := (a + b + c) % 18446744073709551616
def add64c (a b c : Nat) : Nat := (a + b + c) / 18446744073709551616

/-- `bits.Sub64`: difference and borrow-out -/
def sub64d (a b c : Nat) : Nat := (a + 18446744073709551616 + 18446744073709551616 - b - c) % 18446744073709551616
def sub64b (a b c : Nat) : Nat := if a < b + c then 1 else 0

end SMGo.Model.FiatPrim
