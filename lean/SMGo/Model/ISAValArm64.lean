/-
  Executable VALUE semantics of the arm64 (NEON) assembler listings of sm4/asm_arm64.s and sm4/gcm_arm64.s
  (`go tool asm -S`, GOARCH=arm64, regenerated on every check run into SMGo/Gen/ListArm64Asm.lean /
  ListArm64Gcm.lean, with the arrangement / element specifiers of the operands in SMGo/Gen/ListArm64AsmArr.lean /
  ListArm64GcmArr.lean).  Core Lean only: linked into `smgo_model`.

  TRUSTED AND **NOT VALIDATED** IN THIS FILE.  The instruction semantics below are a transcription, by hand, of the
  Arm Architecture Reference Manual (Armv8-A, A64 Advanced SIMD: LD1/ST1 multiple and single structure, LD4/ST4,
  EOR, SUB, SHL, SRI, TBL, TBX, REV32, MOVI, DUP (element), INS (element), ORR/MOV (vector); for gcm_arm64.s also
  PMULL / PMULL2 (1Q ← 1D × 1D), RBIT (vector), EXT, DUP (general); base: ADD/SUB immediate, MOVZ, ADRP+ADD, LDR,
  CMP (SUBS) immediate, B, B.LT, B.GT, B.EQ) and of the Go assembler's operand order.  The verification sandbox is an amd64 machine without an
  arm64 emulator: UNLIKE the amd64 interpreter (SMGo/Model/ISAVal.lean), which the differential harness compares with
  the real CPU on every run, NOTHING here has ever been compared with an arm64 CPU.  What guards against a wrong
  transcription that happens to make a proof pass is only that the theorems (SMGo/Props/C05Arm64.lean) relate the
  listings to the independent specification SMGo/Spec/SM4.lean: two errors would have to cancel.

  What is read from the two manuals:

    * the machine: R0..R30 (64-bit values; RSP and ZR do not occur and are errors), V0..V31 (128-bit values), memory
      as the named regions of SMGo/Model/ISAVal.lean (an access outside every region, or a store to a read-only
      region, is an error), the argument frame (slot name ↦ value).  Little-endian data: byte `j` of a register loaded
      by LD1 is byte `j` of memory, whatever the arrangement; element `i` of width `w` bits of a register is
      `(v >>> (w·i)) % 2^w` (`lane`).
    * Go operand order: sources first, destination last.  For the three-register forms `OP Vm, Vn, Vd` the Go
      assembler puts Rm FIRST: `VSUB Vm.T, Vn.T, Vd.T` is `SUB Vd.T, Vn.T, Vm.T`, i.e. Vd = Vn − Vm;
      `VTBL Vm.T, [Vn, …], Vd.T` is `TBL Vd.T, {Vn, …}, Vm.T` (Vm = the indices);
      `VSHL $s, Vn.T, Vd.T`, `VSRI $s, Vn.T, Vd.T` (Vd is also read by SRI);
      `VLD1.P imm(Rn), …` / `VST1.P …, imm(Rn)` are the post-index forms (Rn := Rn + imm after the access; the
      immediate must be the number of bytes transferred, as the encoding requires);
      `WORD $w` with `w & 0xFFE0FC00 = 0x4E007000` is `TBX Vd.16B, {Vn.16B – Vn+3.16B}, Vm.16B` with
      m = w[20:16], n = w[9:5], d = w[4:0] (asm_arm64.s codes TBX as a machine word: the Go assembler has no
      mnemonic for it).
      `VEXT $i, Vm.B16, Vn.B16, Vd.B16` is `EXT Vd.16B, Vn.16B, Vm.16B, #i`: bytes i … i+15 of the 32-byte string
      Vm:Vn (Vn = the low half); `VPMULL Vm.D1, Vn.D1, Vd.Q1` / `VPMULL2 Vm.D2, Vn.D2, Vd.Q1`: the carry-less
      product of the low / high 64-bit elements; `CMP $i, Rn` sets NZCV from Rn − i; `SUB $i, Rd` is Rd := Rd − i;
      the condition flags are not part of `State` (no routine of asm_arm64.s touches them): the runner of section 5b
      carries them, undefined at entry, and a branch on undefined flags is an error.
    * every mnemonic, operand shape and arrangement that does not occur in the listings is an ERROR, never a
      default.
-/
import SMGo.Model.ISAVal

namespace SMGo.Model.ISAValArm64
open SMGo.Model.ISA
open SMGo.Model.ISAVal (lane lanes unlanes map1 map2 Region readMem writeMem lookup regionBase)

/-! ## 1. Arrangements and mnemonics -/

/-- arrangement / element specifier of an operand (only those occurring in the listings) -/
inductive Arr where
  | none                -- not a vector register with a specifier
  | B16                 -- sixteen bytes
  | S4                  -- four words
  | S2                  -- two words (the low 64 bits)
  | S (i : Nat)         -- word element `i`, `V.S[i]`
  | D1                  -- one doubleword (the low 64 bits), source of PMULL
  | D2                  -- two doublewords; as a source of PMULL2: the high one
  | Q1                  -- one quadword, destination of PMULL / PMULL2
deriving DecidableEq, Repr

def Arr.ofString (s : String) : Option Arr :=
  match s with
  | "" => some .none
  | "B16" => some .B16
  | "S4" => some .S4
  | "S2" => some .S2
  | "S[0]" => some (.S 0)
  | "S[1]" => some (.S 1)
  | "S[2]" => some (.S 2)
  | "S[3]" => some (.S 3)
  | "D1" => some .D1
  | "D2" => some .D2
  | "Q1" => some .Q1
  | _ => Option.none

inductive Mn where
  | VEOR | VSUB | VSHL | VSRI | VTBL | TBX | VREV32 | VMOVI | VMOV | VDUP
  | VLD1 | VLD1P | VST1 | VST1P | VLD4 | VLD4P | VST4 | VST4P
  | MOVD | ADD | SUB | RET
  | VPMULL | VPMULL2 | VRBIT | VEXT | CMP | BLT | BGT | BEQ | JMP
deriving DecidableEq, Repr

/-- the mnemonics understood (`WORD` is decoded separately) -/
def Mn.ofString (s : String) : Option Mn :=
  match s with
  | "VEOR" => some .VEOR
  | "VSRI" => some .VSRI
  | "VSHL" => some .VSHL
  | "VSUB" => some .VSUB
  | "VTBL" => some .VTBL
  | "VLD1.P" => some .VLD1P
  | "VLD1" => some .VLD1
  | "VST1" => some .VST1
  | "VST1.P" => some .VST1P
  | "VDUP" => some .VDUP
  | "VREV32" => some .VREV32
  | "VMOV" => some .VMOV
  | "VMOVI" => some .VMOVI
  | "VLD4" => some .VLD4
  | "VLD4.P" => some .VLD4P
  | "VST4" => some .VST4
  | "VST4.P" => some .VST4P
  | "MOVD" => some .MOVD
  | "ADD" => some .ADD
  | "SUB" => some .SUB
  | "RET" => some .RET
  | "VPMULL" => some .VPMULL
  | "VPMULL2" => some .VPMULL2
  | "VRBIT" => some .VRBIT
  | "VEXT" => some .VEXT
  | "CMP" => some .CMP
  | "BLT" => some .BLT
  | "BGT" => some .BGT
  | "BEQ" => some .BEQ
  | "JMP" => some .JMP
  | _ => none

/-- decoded instruction: operands with their arrangement specifiers -/
structure DInstr where
  pc : Nat
  mn : Mn
  ops : List Opd
  arr : List Arr
deriving DecidableEq, Repr

/-- `WORD $w`: the only machine word accepted is TBX with a four-register table, Q = 1 (16 bytes).
    A64 encoding `0 Q 001110 000 Rm 0 len op 00 Rn Rd` with Q = 1, len = 11, op = 1 (TBX). -/
def decodeWord (pc : Nat) (w : Nat) : Except String DInstr :=
  if w &&& 0xFFE0FC00 = 0x4E007000 then
    let m := (w >>> 16) &&& 31
    let n := (w >>> 5) &&& 31
    let d := w &&& 31
    .ok ⟨pc, .TBX, [.reg (.vec m), .regs [.vec n, .vec ((n + 1) % 32), .vec ((n + 2) % 32), .vec ((n + 3) % 32)],
                    .reg (.vec d)], [.B16, .B16, .B16]⟩
  else .error "WORD that is not TBX Vd.16B, {Vn.16B-Vn+3.16B}, Vm.16B"

def decodeArrs (l : List String) : Except String (List Arr) :=
  l.mapM (fun s => match Arr.ofString s with
    | some a => .ok a
    | Option.none => .error ("arrangement not covered: " ++ s))

/-- an instruction of the listing with the specifiers of its operands -/
def decode (i : Instr) (arrs : List String) : Except String DInstr :=
  if i.mn = "WORD" then
    match i.ops with
    | [.imm w] => if 0 ≤ w then decodeWord i.pc w.toNat else .error "negative WORD"
    | _ => .error "WORD operand"
  else
    match Mn.ofString i.mn with
    | Option.none => .error ("unknown mnemonic " ++ i.mn)
    | some mn =>
      if arrs.length ≠ i.ops.length then .error "operands / specifiers mismatch" else
      match decodeArrs arrs with
      | .ok a => .ok ⟨i.pc, mn, i.ops, a⟩
      | .error e => .error e

/-! ## 2. Per-register operations (Arm ARM, A64 Advanced SIMD; all on the full 128 bits, Q = 1) -/

/-- EOR (vector): bitwise on the whole register -/
def veor (a b : Nat) : Nat := (a ^^^ b) % 2 ^ 128

/-- SUB (vector), bytes: element-wise `n − m` modulo 2^8 -/
def vsubB (m n : Nat) : Nat := map2 8 16 (fun x y => (y + 256 - x) % 256) m n

/-- SHL (vector, immediate), words: each element shifted left by `sh`, truncated (0 ≤ sh ≤ 31) -/
def vshlS (sh n : Nat) : Nat := map1 32 4 (fun x => (x <<< sh) % 2 ^ 32) n

/-- one element of SRI (shift right and insert), width 32, 1 ≤ sh ≤ 32:
    `(old AND NOT(mask)) OR LSR(src, sh)` with `mask = LSR(Ones(32), sh)`, i.e. the `sh` top bits of the old
    destination element are kept (`old − old mod 2^(32−sh)`) and the low `32 − sh` bits are `src >> sh` -/
def sriElem (sh src old : Nat) : Nat := old - old % 2 ^ (32 - sh) + (src >>> sh)

/-- SRI (vector), words -/
def vsriS (sh n d : Nat) : Nat := map2 32 4 (sriElem sh) n d

/-- one byte of TBL: an index beyond the table gives 0 -/
def tblByte (tbl : List Nat) (idx : Nat) : Nat :=
  if idx < tbl.length then tbl.getD idx 0 else 0

/-- one byte of TBX: an index beyond the table leaves the destination byte unchanged -/
def tbxByte (tbl : List Nat) (idx old : Nat) : Nat :=
  if idx < tbl.length then tbl.getD idx 0 else old

/-- the table of TBL/TBX: the bytes of the table registers, first register first -/
def tableBytes (regs : List Nat) : List Nat := regs.flatMap (lanes 8 16)

/-- TBL Vd.16B, {table}, Vm.16B -/
def vtbl (tbl : List Nat) (m : Nat) : Nat := map1 8 16 (tblByte tbl) m

/-- TBX Vd.16B, {table}, Vm.16B (`d` = old destination) -/
def vtbx (tbl : List Nat) (m d : Nat) : Nat := map2 8 16 (tbxByte tbl) m d

/-- REV32 Vd.16B, Vn.16B: the bytes of every 32-bit container reversed -/
def vrev32 (n : Nat) : Nat := map1 32 4 (fun x => unlanes 8 (lanes 8 4 x).reverse) n

/-- MOVI Vd.16B, #imm8 -/
def vmovi8 (imm : Nat) : Nat := unlanes 8 (List.replicate 16 imm)

/-- DUP Vd.<cnt>S, Vn.S[i]: the element replicated `cnt` times, the rest of the register zero -/
def vdupS (cnt i n : Nat) : Nat := unlanes 32 (List.replicate cnt (lane 32 i n))

/-- RBIT on one byte: bit `i` becomes bit `7 − i` -/
def rbit8 (b : Nat) : Nat :=
  (List.range 8).foldl (fun r i => r + ((b >>> i) % 2) * 2 ^ (7 - i)) 0

/-- RBIT Vd.16B, Vn.16B -/
def vrbit (n : Nat) : Nat := map1 8 16 rbit8 n

/-- EXT Vd.16B, Vn.16B, Vm.16B, #i (0 ≤ i ≤ 15): bytes i … i+15 of Vm:Vn -/
def vext (i m n : Nat) : Nat := (((m % 2 ^ 128) * 2 ^ 128 + n % 2 ^ 128) >>> (8 * i)) % 2 ^ 128

/-- PMULL Vd.1Q, Vn.1D, Vm.1D: the product over GF(2)[x] of the low doublewords (`ISAVal.clmul`: xor of the
    shifted copies of one factor selected by the bits of the other) -/
def vpmull (m n : Nat) : Nat := SMGo.Model.ISAVal.clmul (lane 64 0 n) (lane 64 0 m)

/-- PMULL2 Vd.1Q, Vn.2D, Vm.2D: the same of the high doublewords -/
def vpmull2 (m n : Nat) : Nat := SMGo.Model.ISAVal.clmul (lane 64 1 n) (lane 64 1 m)

/-- DUP Vd.2D, Xn -/
def vdupD (x : Nat) : Nat := unlanes 64 [x % 2 ^ 64, x % 2 ^ 64]

/-- write word element `i` of a register, the other elements unchanged -/
def setLaneS (i v x : Nat) : Nat := unlanes 32 ((lanes 32 4 v).set i x)

/-! ## 3. Machine state -/

structure State where
  gpr : List Nat                 -- 31 values < 2^64: R0..R30
  vec : List Nat                 -- 32 values: V0..V31 (only the low 128 bits are ever read)
  mem : List Region              -- region i: addresses (i+1)·2^32 + [0, bytes.length)
  syms : List (String × Nat)     -- read-only symbol ↦ address
  frame : List (String × Nat)    -- argument slot ↦ value
deriving Repr, DecidableEq

def getG (s : State) (n : Nat) : Except String Nat :=
  match s.gpr[n]? with
  | some v => .ok v
  | none => .error "no such general register (RSP, ZR and beyond are not covered)"

def setG (s : State) (n v : Nat) : Except String State :=
  if n < s.gpr.length then .ok { s with gpr := s.gpr.set n v }
  else .error "no such general register (RSP, ZR and beyond are not covered)"

/-- the value of a vector register (every operation of section 2 looks at its low 128 bits only) -/
def getV (s : State) (n : Nat) : Except String Nat :=
  match s.vec[n]? with
  | some v => .ok v
  | none => .error "no such vector register"

def setV (s : State) (n v : Nat) : Except String State :=
  if n < s.vec.length then .ok { s with vec := s.vec.set n v }
  else .error "no such vector register"

def badShape : Except String α := .error "operand shape / arrangement not covered"

/-- 64-bit two's complement of an immediate -/
def imm64 (v : Int) : Nat := (v % (2 ^ 64 : Int)).toNat

/-- the address in a base register; `(Rn)` or, post-index, `imm(Rn)`: the access is at Rn in both cases -/
def baseAddr (s : State) (o : Opd) : Except String (Nat × Nat × Int) :=
  match o with
  | .mem (.gpr b) none 0 disp => do
    let a ← getG s b
    pure (b, a, disp)
  | _ => badShape

/-- register numbers of a register list; they must be consecutive modulo 32 -/
def listRegs (rs : List Reg) : Except String (List Nat) :=
  match rs with
  | [.vec a] => .ok [a]
  | [.vec a, .vec b] =>
    if b = (a + 1) % 32 then .ok [a, b] else .error "register list not consecutive"
  | [.vec a, .vec b, .vec c] =>
    if b = (a + 1) % 32 ∧ c = (a + 2) % 32 then .ok [a, b, c] else .error "register list not consecutive"
  | [.vec a, .vec b, .vec c, .vec d] =>
    if b = (a + 1) % 32 ∧ c = (a + 2) % 32 ∧ d = (a + 3) % 32 then .ok [a, b, c, d]
    else .error "register list not consecutive"
  | _ => badShape

def loadBytes (s : State) (addr n : Nat) : Except String (List Nat) := readMem s.mem addr n

def storeBytes (s : State) (addr : Nat) (bs : List Nat) : Except String State :=
  (writeMem s.mem addr bs).map (fun m => { s with mem := m })

/-- post-index write-back: the immediate must be the number of bytes transferred -/
def writeBack (s : State) (post : Bool) (b a : Nat) (disp : Int) (nbytes : Nat) : Except String State :=
  if post then
    if disp = Int.ofNat nbytes then setG s b ((a + nbytes) % 2 ^ 64) else .error "post-index immediate"
  else
    if disp = 0 then .ok s else .error "offset on a non-post-index vector load/store"

/-! ## 4. One instruction -/

/-- `OP Vm.B16, Vn.B16, Vd.B16` -/
def exVec3 (s : State) (mn : Mn) (ops : List Opd) (arr : List Arr) : Except String State :=
  match ops, arr with
  | [.reg (.vec m), .reg (.vec n), .reg (.vec d)], [.B16, .B16, .B16] => do
    let mv ← getV s m
    let nv ← getV s n
    match mn with
    | .VEOR => setV s d (veor mv nv)
    | .VSUB => setV s d (vsubB mv nv)
    | _ => badShape
  | _, _ => badShape

/-- `VSHL $sh, Vn.S4, Vd.S4`, `VSRI $sh, Vn.S4, Vd.S4` -/
def exShift (s : State) (mn : Mn) (ops : List Opd) (arr : List Arr) : Except String State :=
  match ops, arr with
  | [.imm sh, .reg (.vec n), .reg (.vec d)], [.none, .S4, .S4] => do
    let nv ← getV s n
    match mn with
    | .VSHL => if 0 ≤ sh ∧ sh ≤ 31 then setV s d (vshlS sh.toNat nv) else .error "shift amount"
    | .VSRI =>
      if 1 ≤ sh ∧ sh ≤ 32 then do
        let dv ← getV s d
        setV s d (vsriS sh.toNat nv dv)
      else .error "shift amount"
    | _ => badShape
  | _, _ => badShape

/-- `VTBL Vm.B16, [Vn.B16 ×4], Vd.B16` and the TBX decoded from `WORD` -/
def exTable (s : State) (mn : Mn) (ops : List Opd) (arr : List Arr) : Except String State :=
  match ops, arr with
  | [.reg (.vec m), .regs rs, .reg (.vec d)], [.B16, .B16, .B16] => do
    let ns ← listRegs rs
    if ns.length ≠ 4 then badShape else
    let tv ← ns.mapM (getV s)
    let mv ← getV s m
    match mn with
    | .VTBL => setV s d (vtbl (tableBytes tv) mv)
    | .TBX => do
      let dv ← getV s d
      setV s d (vtbx (tableBytes tv) mv dv)
    | _ => badShape
  | _, _ => badShape

/-- VREV32, VMOVI, VMOV (whole register and element), VDUP (element) -/
def exMove (s : State) (mn : Mn) (ops : List Opd) (arr : List Arr) : Except String State :=
  match mn, ops, arr with
  | .VREV32, [.reg (.vec n), .reg (.vec d)], [.B16, .B16] => do
    let nv ← getV s n
    setV s d (vrev32 nv)
  | .VMOVI, [.imm v, .reg (.vec d)], [.none, .B16] =>
    if 0 ≤ v ∧ v ≤ 255 then setV s d (vmovi8 v.toNat) else .error "MOVI immediate"
  | .VMOV, [.reg (.vec n), .reg (.vec d)], [.B16, .B16] => do
    let nv ← getV s n
    setV s d (nv % 2 ^ 128)
  | .VMOV, [.reg (.vec n), .reg (.vec d)], [.S i, .S j] =>
    if i < 4 ∧ j < 4 then do
      let nv ← getV s n
      let dv ← getV s d
      setV s d (setLaneS j dv (lane 32 i nv))
    else .error "element index"
  | .VDUP, [.reg (.vec n), .reg (.vec d)], [.S i, .S4] =>
    if i < 4 then do
      let nv ← getV s n
      setV s d (vdupS 4 i nv)
    else .error "element index"
  | .VDUP, [.reg (.vec n), .reg (.vec d)], [.S i, .S2] =>
    if i < 4 then do
      let nv ← getV s n
      setV s d (vdupS 2 i nv)
    else .error "element index"
  | _, _, _ => badShape

/-- LD1 (multiple structures, 1 or 4 registers of 16 bytes) and LD1 (single structure, one word element) -/
def exLd1 (s : State) (post : Bool) (ops : List Opd) (arr : List Arr) : Except String State :=
  match ops, arr with
  | [mo, .regs rs], [.none, a] =>
    if a = .B16 ∨ a = .S4 then do
      let (b, addr, disp) ← baseAddr s mo
      let ns ← listRegs rs
      let bs ← loadBytes s addr (16 * ns.length)
      let s1 ← (List.range ns.length).foldlM
        (fun st k => setV st (ns.getD k 0) (unlanes 8 ((bs.drop (16 * k)).take 16))) s
      writeBack s1 post b addr disp (16 * ns.length)
    else badShape
  | [mo, .reg (.vec d)], [.none, .S i] =>
    if i < 4 then do
      let (b, addr, disp) ← baseAddr s mo
      let bs ← loadBytes s addr 4
      let dv ← getV s d
      let s1 ← setV s d (setLaneS i dv (unlanes 8 bs))
      writeBack s1 post b addr disp 4
    else .error "element index"
  | _, _ => badShape

/-- ST1 (multiple structures, 4 registers of 16 bytes) and ST1 (single structure, one word element) -/
def exSt1 (s : State) (post : Bool) (ops : List Opd) (arr : List Arr) : Except String State :=
  match ops, arr with
  | [.regs rs, mo], [.B16, .none] => do
    let (b, addr, disp) ← baseAddr s mo
    let ns ← listRegs rs
    let vs ← ns.mapM (getV s)
    let s1 ← storeBytes s addr (vs.flatMap (lanes 8 16))
    writeBack s1 post b addr disp (16 * ns.length)
  | [.reg (.vec n), mo], [.S i, .none] =>
    if i < 4 then do
      let (b, addr, disp) ← baseAddr s mo
      let nv ← getV s n
      let s1 ← storeBytes s addr (lanes 8 4 (lane 32 i nv))
      writeBack s1 post b addr disp 4
    else .error "element index"
  | _, _ => badShape

/-- LD4 (multiple structures) {Va.4S – Va+3.4S}: word `4·e + r` of memory goes to element `e` of register `r` -/
def exLd4 (s : State) (post : Bool) (ops : List Opd) (arr : List Arr) : Except String State :=
  match ops, arr with
  | [mo, .regs rs], [.none, .S4] => do
    let (b, addr, disp) ← baseAddr s mo
    let ns ← listRegs rs
    if ns.length ≠ 4 then badShape else
    let bs ← loadBytes s addr 64
    let word (j : Nat) : Nat := unlanes 8 ((bs.drop (4 * j)).take 4)
    let s1 ← (List.range 4).foldlM
      (fun st r => setV st (ns.getD r 0) (unlanes 32 ((List.range 4).map (fun e => word (4 * e + r))))) s
    writeBack s1 post b addr disp 64
  | _, _ => badShape

/-- ST4 (multiple structures) {Va.4S – Va+3.4S}: element `e` of register `r` goes to word `4·e + r` of memory -/
def exSt4 (s : State) (post : Bool) (ops : List Opd) (arr : List Arr) : Except String State :=
  match ops, arr with
  | [.regs rs, mo], [.S4, .none] => do
    let (b, addr, disp) ← baseAddr s mo
    let ns ← listRegs rs
    if ns.length ≠ 4 then badShape else
    let vs ← ns.mapM (getV s)
    let bs := (List.range 16).flatMap (fun j => lanes 8 4 (lane 32 (j / 4) (vs.getD (j % 4) 0)))
    let s1 ← storeBytes s addr bs
    writeBack s1 post b addr disp 64
  | _, _ => badShape

/-- MOVD (symbol address, frame slot), ADD / SUB immediate (no flags) -/
def exGeneral (s : State) (mn : Mn) (ops : List Opd) (arr : List Arr) : Except String State :=
  match mn, ops, arr with
  | .MOVD, [.symAddr name off, .reg (.gpr d)], [.none, .none] =>
    match lookup s.syms name with
    | some a => setG s d (a + off)
    | none => .error ("unknown symbol " ++ name)
  | .MOVD, [.frame name _, .reg (.gpr d)], [.none, .none] =>
    match lookup s.frame name with
    | some v => setG s d v
    | none => .error ("unknown frame slot " ++ name)
  | .MOVD, [.imm v, .reg (.gpr d)], [.none, .none] =>
    if 0 ≤ v ∧ v < 65536 then setG s d v.toNat else .error "MOVD immediate"
  | .SUB, [.imm v, .reg (.gpr d)], [.none, .none] =>
    if 0 ≤ v ∧ v < 4096 then do
      let x ← getG s d
      setG s d ((x + 2 ^ 64 - v.toNat) % 2 ^ 64)
    else .error "SUB immediate"
  | .ADD, [.imm v, .reg (.gpr n), .reg (.gpr d)], [.none, .none, .none] =>
    if 0 ≤ v ∧ v < 4096 then do
      let x ← getG s n
      setG s d ((x + v.toNat) % 2 ^ 64)
    else .error "ADD immediate"
  | .SUB, [.imm v, .reg (.gpr n), .reg (.gpr d)], [.none, .none, .none] =>
    if 0 ≤ v ∧ v < 4096 then do
      let x ← getG s n
      setG s d ((x + 2 ^ 64 - v.toNat) % 2 ^ 64)
    else .error "SUB immediate"
  | _, _, _ => badShape

/-- the vector instructions of gcm_arm64.s: PMULL, PMULL2, RBIT, EXT, DUP from a general register -/
def exGcm (s : State) (mn : Mn) (ops : List Opd) (arr : List Arr) : Except String State :=
  match mn, ops, arr with
  | .VPMULL, [.reg (.vec m), .reg (.vec n), .reg (.vec d)], [.D1, .D1, .Q1] => do
    let mv ← getV s m
    let nv ← getV s n
    setV s d (vpmull mv nv)
  | .VPMULL2, [.reg (.vec m), .reg (.vec n), .reg (.vec d)], [.D2, .D2, .Q1] => do
    let mv ← getV s m
    let nv ← getV s n
    setV s d (vpmull2 mv nv)
  | .VRBIT, [.reg (.vec n), .reg (.vec d)], [.B16, .B16] => do
    let nv ← getV s n
    setV s d (vrbit nv)
  | .VEXT, [.imm i, .reg (.vec m), .reg (.vec n), .reg (.vec d)], [.none, .B16, .B16, .B16] =>
    if 0 ≤ i ∧ i ≤ 15 then do
      let mv ← getV s m
      let nv ← getV s n
      setV s d (vext i.toNat mv nv)
    else .error "EXT index"
  | .VDUP, [.reg (.gpr a), .reg (.vec d)], [.none, .D2] => do
    let x ← getG s a
    setV s d (vdupD x)
  | _, _, _ => badShape

/-- a non-branching instruction that does not touch the flags -/
def execD (s : State) (i : DInstr) : Except String State :=
  match i.mn with
  | .VPMULL | .VPMULL2 | .VRBIT | .VEXT => exGcm s i.mn i.ops i.arr
  | .VEOR | .VSUB => exVec3 s i.mn i.ops i.arr
  | .VSHL | .VSRI => exShift s i.mn i.ops i.arr
  | .VTBL | .TBX => exTable s i.mn i.ops i.arr
  | .VREV32 | .VMOVI | .VMOV => exMove s i.mn i.ops i.arr
  | .VDUP =>
    match i.ops with
    | .reg (.gpr _) :: _ => exGcm s i.mn i.ops i.arr
    | _ => exMove s i.mn i.ops i.arr
  | .VLD1 => exLd1 s false i.ops i.arr
  | .VLD1P => exLd1 s true i.ops i.arr
  | .VST1 => exSt1 s false i.ops i.arr
  | .VST1P => exSt1 s true i.ops i.arr
  | .VLD4 => exLd4 s false i.ops i.arr
  | .VLD4P => exLd4 s true i.ops i.arr
  | .VST4 => exSt4 s false i.ops i.arr
  | .VST4P => exSt4 s true i.ops i.arr
  | .MOVD | .ADD | .SUB => exGeneral s i.mn i.ops i.arr
  | .CMP | .BLT | .BGT | .BEQ | .JMP | .RET => .error "control transfer / flags"

/-- `RET` as the listing prints it: `RET (R30)` -/
def isRet (i : DInstr) : Bool :=
  i.mn == .RET && i.ops == [.mem (.gpr 30) none 0 0] && i.arr == [.none]

/-! ## 5. Running a routine: the routines of asm_arm64.s are straight-line code ending in RET -/

abbrev Routine := List DInstr

def zipDecode : List Instr → List (List String) → Except String Routine
  | [], [] => .ok []
  | i :: is, a :: as => do
    let d ← decode i a
    let rest ← zipDecode is as
    pure (d :: rest)
  | _, _ => .error "listing and specifier list differ in length"

/-- run the instructions until `RET`; there is no branch in these listings: any other control transfer,
    or falling off the end, is an error -/
def runFrom : List DInstr → State → Except String State
  | [], _ => .error "fell off the end of the routine"
  | i :: rest, s =>
    if i.mn = .RET then
      if isRet i then .ok s else .error "RET shape"
    else
      match execD s i with
      | .error e => .error (e ++ " at pc " ++ toString i.pc)
      | .ok s' => runFrom rest s'

/-- run a listing (with its specifier list) from its entry to `RET` -/
def run (l : List Instr) (arrs : List (List String)) (s : State) : Except String State := do
  let r ← zipDecode l arrs
  runFrom r s

/-! ## 5b. Routines with branches (gcm_arm64.s): the condition flags live in the run, not in `State` -/

/-- N Z C V -/
structure Flags where
  n : Bool
  z : Bool
  c : Bool
  v : Bool
deriving DecidableEq, Repr

/-- the flags of `a − b` on 64 bits (SUBS / CMP): N = sign of the result, Z = result zero, C = no borrow,
    V = signed overflow -/
def cmpFlags (a b : Nat) : Flags :=
  let r := (a + 2 ^ 64 - b) % 2 ^ 64
  let sa := decide (a ≥ 2 ^ 63)
  let sb := decide (b ≥ 2 ^ 63)
  let sr := decide (r ≥ 2 ^ 63)
  ⟨sr, r == 0, decide (a ≥ b), (sa != sb) && (sr != sa)⟩

/-- B.LT: N ≠ V;  B.GT: Z = 0 and N = V;  B.EQ: Z = 1 -/
def condHolds (mn : Mn) (f : Flags) : Except String Bool :=
  match mn with
  | .BLT => .ok (f.n != f.v)
  | .BGT => .ok (!f.z && f.n == f.v)
  | .BEQ => .ok f.z
  | _ => .error "not a conditional branch"

inductive Next where
  | fall
  | jump (pc : Nat)
  | ret
deriving DecidableEq, Repr

/-- one instruction: new state, new flags, where to go -/
def stepC (s : State) (fl : Option Flags) (i : DInstr) : Except String (State × Option Flags × Next) :=
  match i.mn, i.ops, i.arr with
  | .CMP, [.imm v, .reg (.gpr n)], [.none, .none] =>
    if 0 ≤ v ∧ v < 4096 then do
      let x ← getG s n
      pure (s, some (cmpFlags x v.toNat), .fall)
    else .error "CMP immediate"
  | .CMP, _, _ => badShape
  | .JMP, [.target pc], [.none] => .ok (s, fl, .jump pc)
  | .JMP, _, _ => badShape
  | .RET, _, _ => if isRet i then .ok (s, fl, .ret) else .error "RET shape"
  | mn, ops, arr =>
    if mn = .BLT ∨ mn = .BGT ∨ mn = .BEQ then
      match ops, arr, fl with
      | [.target pc], [.none], some f => do
        let c ← condHolds mn f
        pure (s, fl, if c then .jump pc else .fall)
      | [.target _], [.none], none => .error "branch on undefined flags"
      | _, _, _ => badShape
    else
      (execD s i).map (fun s' => (s', fl, Next.fall))

/-- the instructions from byte offset `pc` on -/
def findPc (r : Routine) (pc : Nat) : Option (List DInstr) :=
  match r with
  | [] => none
  | i :: rest => if i.pc = pc then some (i :: rest) else findPc rest pc

/-- run the instructions `cur` (a suffix of the routine `r`) until `RET` -/
def runC (r : Routine) : Nat → List DInstr → State → Option Flags → Except String State
  | 0, _, _, _ => .error "out of fuel"
  | _ + 1, [], _, _ => .error "fell off the end of the routine"
  | fuel + 1, i :: rest, s, fl =>
    match stepC s fl i with
    | .error e => .error (e ++ " at pc " ++ toString i.pc)
    | .ok (s', fl', .fall) => runC r fuel rest s' fl'
    | .ok (s', fl', .jump pc) =>
      match findPc r pc with
      | some cur => runC r fuel cur s' fl'
      | none => .error "branch target is not an instruction"
    | .ok (s', _, .ret) => .ok s'

/-- run a listing with branches from its entry to `RET`, flags undefined at entry -/
def runCtl (l : List Instr) (arrs : List (List String)) (fuel : Nat) (s : State) : Except String State := do
  let r ← zipDecode l arrs
  runC r fuel r s none

/-! ## 6. Building states -/

/-- a state whose memory is the read-only symbols followed by the argument regions -/
def mkState (gpr vec : List Nat) (syms : List (String × List Nat)) (args : List Region)
    (frame : List (String × Nat)) : State :=
  { gpr := gpr, vec := vec,
    mem := syms.map (fun (n, b) => ⟨n, b, false⟩) ++ args,
    syms := (List.range syms.length).zipWith (fun i (n, _) => (n, regionBase i)) syms,
    frame := frame }

/-- bytes of the region called `name` -/
def regionBytes (s : State) (name : String) : Option (List Nat) :=
  (s.mem.find? (fun r => r.name == name)).map (·.bytes)

/-- junk register contents used by the tests and the driver -/
def junkG : List Nat := (List.range 31).map (fun i => 0xDEAD0000BEEF0000 + 0x0101010101 * i)
def junkV : List Nat := (List.range 32).map (fun i => unlanes 8 (List.replicate 16 (0xA0 + i)))

end SMGo.Model.ISAValArm64
