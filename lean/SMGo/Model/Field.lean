/-
  Model of the element wrappers of /repo/sm2/internal/fiat (sm2_element.go, sm2_scalar_element.go,
  sm2_element_multiselect_generic.go): a record of field operations (`FieldOps`), the wrappers written
  on top of it (SetBytes, Bytes, Equal, IsZero, Select, MultiSelect), and two instances:
    * `montOps m`  — Montgomery-domain residues as natural numbers (the *meaning* of the Fiat code);
    * the generated Fiat functions on limb lists are plugged in by `SMGo/Model/FiatInst.lean`.
-/
import SMGo.Spec.Bytes
import SMGo.Spec.SM2
import SMGo.Model.Outcome
import SMGo.Model.Utils
import SMGo.Model.AddChainOp
namespace SMGo.Model.Field
open SMGo

/-- four little-endian 64-bit limbs ↔ natural number -/
def limbsToNat (l : List Nat) : Nat :=
  l.getD 0 0 + l.getD 1 0 * 2^64 + l.getD 2 0 * 2^128 + l.getD 3 0 * 2^192

def natToLimbs (v : Nat) : List Nat :=
  [v % 2^64, v / 2^64 % 2^64, v / 2^128 % 2^64, v / 2^192 % 2^64]

/-- the primitive layer: what the Fiat-Crypto functions provide for one modulus -/
structure FieldOps (α : Type) where
  modulus : Nat
  zero : α                      -- the zero value of the Go struct
  setOne : α                    -- sm2SetOne
  add : α → α → α
  sub : α → α → α
  opp : α → α
  mul : α → α → α
  square : α → α
  fromMontgomery : α → α        -- result is a non-Montgomery element (same carrier)
  toMontgomery : α → α
  toBytesLE : α → Bytes         -- sm2ToBytes: 32 bytes little endian of a non-Montgomery element
  fromBytesLE : Bytes → α       -- sm2FromBytes
  raw : α → List Nat            -- the four limbs
  ofRaw : List Nat → α
  chain : List AddChain.Op      -- the Fermat-inversion program
  chainRegs : Nat

variable {α : Type}

/-- `(*SM2Element).Bytes`: fromMontgomery, toBytes (LE), invert endianness -/
def bytes (F : FieldOps α) (e : α) : Bytes := (F.toBytesLE (F.fromMontgomery e)).reverse

/-- `(*SM2Element).Equal` / `IsZero` via crypto/subtle.ConstantTimeCompare of the encodings -/
def equal (F : FieldOps α) (e t : α) : Nat := if bytes F e = bytes F t then 1 else 0
def isZero (F : FieldOps α) (e : α) : Nat := if bytes F e = bytes F F.zero then 1 else 0

/-- the encoding of -1 (`sm2MinusOneEncoding`) -/
def minusOneEncoding (F : FieldOps α) : Bytes := bytes F (F.sub F.zero F.setOne)

/-- `(*SM2Element).SetBytes`: length 32, not above the encoding of m-1 (ConstantTimeCmp) -/
def setBytes (F : FieldOps α) (v : Bytes) : Outcome α :=
  if v.length ≠ 32 then .err else
  match Utils.constantTimeCmp (some v) (some (minusOneEncoding F)) 32 with
  | .ok c => if c > 0 then .err else .ok (F.toMontgomery (F.fromBytesLE v.reverse))
  | _ => .panic

/-- `(*SM2ScalarElement).SetBytes`: since the repair of the early-exit loop the same code as
    `(*SM2Element).SetBytes`: length 32, not above the encoding of n-1 (ConstantTimeCmp) -/
def scalarSetBytes (F : FieldOps α) (v : Bytes) : Outcome α :=
  if v.length ≠ 32 then .err else
  match Utils.constantTimeCmp (some v) (some (minusOneEncoding F)) 32 with
  | .ok c => if c > 0 then .err else .ok (F.toMontgomery (F.fromBytesLE v.reverse))
  | _ => .panic

/-- `Invert`: the generated addition chain over Mul/Square -/
def invert (F : FieldOps α) (x : α) : α :=
  AddChain.run F.square F.mul F.zero F.chainRegs F.chain x

/-- `ToBigInt`: value of the big-endian encoding -/
def toNat (F : FieldOps α) (e : α) : Nat := Bytes.toNatBE (bytes F e)

/-- `subtle.ConstantTimeByteEq(x, y)` -/
def byteEq (x y : Nat) : Nat := if x % 256 = y % 256 then 1 else 0

/-- `(*SM2Element).MultiSelect` on limbs: masks as in the Go code. `bits` is a byte. -/
def multiSelectLimbs (pre : List (List Nat)) (width : Nat) (bits : Nat) (fallback : List Nat) (fallbackCond : Nat) : List Nat :=
  let W := 18446744073709551616
  let fbCond := (W - 1) - (fallbackCond * (W - 1)) % W
  let out0 := [fallback.getD 0 0 &&& fbCond, fallback.getD 1 0 &&& fbCond, fallback.getD 2 0 &&& fbCond, fallback.getD 3 0 &&& fbCond]
  (List.range width).foldl (fun out i =>
    let cond := (byteEq i (bits + 255)) * (W - 1) % W     -- byte(i) == bits - 1 (mod 256)
    let e := pre.getD i []
    [out.getD 0 0 ||| (e.getD 0 0 &&& cond), out.getD 1 0 ||| (e.getD 1 0 &&& cond),
     out.getD 2 0 ||| (e.getD 2 0 &&& cond), out.getD 3 0 ||| (e.getD 3 0 &&& cond)]) out0

/-- `(*SM2Element).Select(a, b, cond)`: a if cond = 1, b if cond = 0 (sm2Selectznz) -/
def select (a b : α) (cond : Nat) : α := if cond = 0 then b else a

/-! ### Instance: Montgomery residues as natural numbers -/

def R : Nat := 2 ^ 256

structure MontParams where
  m : Nat
  rinv : Nat        -- R⁻¹ mod m
  chain : List AddChain.Op
  chainRegs : Nat

def montOps (P : MontParams) : FieldOps Nat :=
  { modulus := P.m
    zero := 0
    setOne := R % P.m
    add := fun a b => (a + b) % P.m
    sub := fun a b => (a + P.m - b % P.m) % P.m
    opp := fun a => (P.m - a % P.m) % P.m
    mul := fun a b => a * b * P.rinv % P.m
    square := fun a => a * a * P.rinv % P.m
    fromMontgomery := fun a => a * P.rinv % P.m
    toMontgomery := fun a => a * R % P.m
    toBytesLE := fun a => (Bytes.ofNatBE 32 a).reverse
    fromBytesLE := fun b => Bytes.toNatBE b.reverse
    raw := natToLimbs
    ofRaw := limbsToNat
    chain := P.chain
    chainRegs := P.chainRegs }

end SMGo.Model.Field
