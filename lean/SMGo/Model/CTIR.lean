/-
  CT-IR: a small imperative intermediate representation for the information-flow (constant-time)
  analysis of property C08, its concrete interpreter with leakage trace, and the label checker.
  Core Lean only (this file is linked into the model driver).

  Programs are GENERATED from the Go sources by `/verif/go/cmd/translate ctir`
  (SMGo/Gen/CTIRProg.lean).  Conventions of the translation:

  * values are integers (`Val.int`, already reduced to their Go type) or arrays of values
    (`Val.arr`; Go arrays, slices, and structs with their fields in declaration order);
  * variables, functions, globals, external names and declassification sites are numbers
    (tables of names are generated next to the program);
  * a Go pointer parameter / receiver is a variable holding the pointee; a function returns the final
    values of the pointer parameters it writes through, followed by its Go results;
  * `math/bits` and `crypto/subtle` are operators (constant time by documentation: trusted base);
  * everything that leaves the analysed world (`math/big`, `io`, `fmt`) is an `ext` node.

  Leakage model (what an attacker observing control flow and addresses sees): every branch
  decision, every loop-condition outcome, every non-constant array index, every slice bound, every
  allocation size, every variable shift count, every callee entered, every argument of a leaking
  external call, and every declassified verdict.
-/
namespace SMGo.Model.CTIR

/-! ## Values -/

inductive Val where
  | int (n : Int)
  | arr (vs : List Val)
deriving Repr, Inhabited

/-- the shape of a value: every integer replaced by 0.  Two secrets "of the same length" are two
    values with the same shape. -/
def Val.erase : Val → Val
  | .int _ => .int 0
  | .arr l => .arr (l.map Val.erase)

def Val.toInt? : Val → Option Int
  | .int n => some n
  | .arr _ => none

def Val.toArr? : Val → Option (List Val)
  | .int _ => none
  | .arr l => some l

/-! ## Go integer types -/

inductive Ty where
  | u8 | u16 | u32 | u64 | i64 | bool
deriving Repr, DecidableEq, Inhabited

def Ty.bits : Ty → Nat
  | .u8 => 8 | .u16 => 16 | .u32 => 32 | .u64 => 64 | .i64 => 64 | .bool => 1

/-- reduce an integer to the value range of a Go type (two's complement wrap-around) -/
def norm (t : Ty) (a : Int) : Int :=
  match t with
  | .u8 => a % 256
  | .u16 => a % 65536
  | .u32 => a % 4294967296
  | .u64 => a % 18446744073709551616
  | .i64 => (a + 9223372036854775808) % 18446744073709551616 - 9223372036854775808
  | .bool => if a = 0 then 0 else 1

/-- the two's complement bit pattern of `a` at type `t`, as a natural number -/
def pat (t : Ty) (a : Int) : Nat := (a % (2 ^ t.bits : Nat)).toNat

def ofBool (b : Bool) : Int := if b then 1 else 0

/-! ## Expressions -/

inductive Op1 where
  | conv (t : Ty)            -- T(x)
  | not (t : Ty)             -- ^x
  | neg (t : Ty)             -- -x
  | lnot                     -- !x
  | shlc (t : Ty) (k : Nat)  -- x << k, k a literal
  | shrc (k : Nat)           -- x >> k, k a literal
deriving Repr, DecidableEq, Inhabited

inductive Op2 where
  | add (t : Ty) | sub (t : Ty) | mul (t : Ty)
  | and (t : Ty) | or (t : Ty) | xor (t : Ty)
  | shl (t : Ty) | shr            -- variable shift count: leaks the count
  | eq | ne | lt | le | gt | ge
  | land | lor                     -- operands without effects only (the translator guarantees it)
  | min
  | mul64hi | mul64lo              -- bits.Mul64
  | cteq8                          -- subtle.ConstantTimeByteEq
deriving Repr, DecidableEq, Inhabited

inductive Op3 where
  | add64s | add64c                -- bits.Add64
  | sub64d | sub64b                -- bits.Sub64
  | sub32d | sub32b                -- bits.Sub32
deriving Repr, DecidableEq, Inhabited

inductive Expr where
  | lit (n : Int)
  | glob (g : Nat)                       -- package-level variable (read-only, public)
  | var (x : Nat)
  | idx (a i : Expr)                     -- a[i]         leaks i
  | idxc (a : Expr) (k : Nat)            -- a[k] / a.f   constant index: no event
  | len (a : Expr)
  | slice (a lo hi : Expr)               -- a[lo:hi]     leaks lo, hi
  | mk (n init : Expr)                   -- n copies of init   leaks n
  | cat (a b : Expr)                     -- append(a, b...)
  | cteq (a b : Expr)                    -- subtle.ConstantTimeCompare on byte arrays
  | op1 (o : Op1) (a : Expr)
  | op2 (o : Op2) (a b : Expr)
  | op3 (o : Op3) (a b c : Expr)
deriving Repr, Inhabited

/-- one step of an assignment path `x[i].f[j] = …` -/
inductive PathE where
  | c (k : Nat)          -- constant index / field
  | e (i : Expr)         -- computed index: leaks it
deriving Repr, Inhabited

inductive Stmt where
  | skip
  | assign (x : Nat) (path : List PathE) (e : Expr)
  | seq (s t : Stmt)
  | ite (c : Expr) (s t : Stmt)
  | loop (c : Expr) (body post : Stmt)             -- for ; c ; post { body }
  | brk
  | cont
  | ret (es : List Expr)
  | call (lhs : List Nat) (f : Nat) (args : List Expr)
  | ext (lhs : List Nat) (name : Nat) (leaky : Bool) (args : List Expr)
  | declass (x : Nat) (site : Nat) (e : Expr)      -- x := e, made public: a verdict
  | panic
deriving Repr, Inhabited

structure Fn where
  nparams : Nat
  nvars : Nat
  body : Stmt
  stub : Bool := false
deriving Repr, Inhabited

abbrev Prog := List Fn

/-! ## Leakage -/

inductive Event where
  | branch (b : Bool)
  | loopc (b : Bool)
  | idx (i : Int)
  | slice (lo hi : Int)
  | alloc (n : Int)
  | shift (n : Int)
  | call (f : Nat)
  | ext (name : Nat) (args : List Val)
  | obs (name : Nat)
  | declass (site : Nat) (v : Int)
deriving Repr, Inhabited

abbrev Trace := List Event

/-- the declassified verdicts of a trace, in order -/
def declassOf : Trace → List (Nat × Int)
  | [] => []
  | .declass s v :: t => (s, v) :: declassOf t
  | _ :: t => declassOf t

/-! ## Concrete semantics -/

abbrev Env := Nat → Val

def Env.set (env : Env) (x : Nat) (v : Val) : Env := fun y => if y = x then v else env y

def Env.ofList (vs : List Val) : Env := fun x => vs.getD x (.int 0)

def Env.setMany (env : Env) : List Nat → List Val → Option Env
  | [], [] => some env
  | x :: xs, v :: vs => Env.setMany (env.set x v) xs vs
  | _, _ => none

def evalOp1 (o : Op1) (a : Int) : Int :=
  match o with
  | .conv t => norm t a
  | .not t => norm t (-a - 1)
  | .neg t => norm t (-a)
  | .lnot => if a = 0 then 1 else 0
  | .shlc t k => norm t (a * (2 ^ k : Nat))
  | .shrc k => a >>> k

def evalOp2 (o : Op2) (a b : Int) : Option Int :=
  match o with
  | .add t => some (norm t (a + b))
  | .sub t => some (norm t (a - b))
  | .mul t => some (norm t (a * b))
  | .and t => some (norm t ((pat t a &&& pat t b : Nat) : Int))
  | .or t => some (norm t ((pat t a ||| pat t b : Nat) : Int))
  | .xor t => some (norm t ((pat t a ^^^ pat t b : Nat) : Int))
  | .shl t => if b < 0 then none else some (norm t (a * (2 ^ b.toNat : Nat)))
  | .shr => if b < 0 then none else some (a >>> b.toNat)
  | .eq => some (ofBool (a == b))
  | .ne => some (ofBool (a != b))
  | .lt => some (ofBool (decide (a < b)))
  | .le => some (ofBool (decide (a ≤ b)))
  | .gt => some (ofBool (decide (b < a)))
  | .ge => some (ofBool (decide (b ≤ a)))
  | .land => some (ofBool (a != 0 && b != 0))
  | .lor => some (ofBool (a != 0 || b != 0))
  | .min => some (if a ≤ b then a else b)
  | .mul64hi => some (a * b / 18446744073709551616)
  | .mul64lo => some (a * b % 18446744073709551616)
  | .cteq8 => some (ofBool (a == b))

def evalOp3 (o : Op3) (a b c : Int) : Int :=
  match o with
  | .add64s => (a + b + c) % 18446744073709551616
  | .add64c => (a + b + c) / 18446744073709551616
  | .sub64d => (a - b - c) % 18446744073709551616
  | .sub64b => if a < b + c then 1 else 0
  | .sub32d => (a - b - c) % 4294967296
  | .sub32b => if a < b + c then 1 else 0

def Op2.isShift : Op2 → Bool
  | .shl _ => true
  | .shr => true
  | _ => false

/-- byte-array equality as `subtle.ConstantTimeCompare` computes it (1 = equal) -/
def ctEqList : List Val → List Val → Option Int
  | [], [] => some 1
  | .int a :: as, .int b :: bs =>
    match ctEqList as bs with
    | some r => some (if a = b then r else 0)
    | none => none
  | [], _ :: _ => some 0
  | _ :: _, [] => some 0
  | _, _ => none

def getIdx (l : List Val) (i : Int) : Option Val :=
  if i < 0 then none else l[i.toNat]?

def sliceList (l : List Val) (lo hi : Int) : Option (List Val) :=
  if lo < 0 ∨ hi < lo ∨ (l.length : Int) < hi then none
  else some ((l.drop lo.toNat).take (hi.toNat - lo.toNat))

def evalE (G : Nat → Val) (env : Env) : Expr → Option (Val × Trace)
  | .lit n => some (.int n, [])
  | .glob g => some (G g, [])
  | .var x => some (env x, [])
  | .idx a i =>
    match evalE G env a, evalE G env i with
    | some (.arr l, t1), some (.int n, t2) =>
      match getIdx l n with
      | some v => some (v, t1 ++ t2 ++ [.idx n])
      | none => none
    | _, _ => none
  | .idxc a k =>
    match evalE G env a with
    | some (.arr l, t1) =>
      match l[k]? with
      | some v => some (v, t1)
      | none => none
    | _ => none
  | .len a =>
    match evalE G env a with
    | some (.arr l, t1) => some (.int l.length, t1)
    | _ => none
  | .slice a lo hi =>
    match evalE G env a, evalE G env lo, evalE G env hi with
    | some (.arr l, t1), some (.int n, t2), some (.int m, t3) =>
      match sliceList l n m with
      | some r => some (.arr r, t1 ++ t2 ++ t3 ++ [.slice n m])
      | none => none
    | _, _, _ => none
  | .mk n init =>
    match evalE G env n, evalE G env init with
    | some (.int k, t1), some (v, t2) =>
      if k < 0 then none else some (.arr (List.replicate k.toNat v), t1 ++ t2 ++ [.alloc k])
    | _, _ => none
  | .cat a b =>
    match evalE G env a, evalE G env b with
    | some (.arr l1, t1), some (.arr l2, t2) => some (.arr (l1 ++ l2), t1 ++ t2)
    | _, _ => none
  | .cteq a b =>
    match evalE G env a, evalE G env b with
    | some (.arr l1, t1), some (.arr l2, t2) =>
      match ctEqList l1 l2 with
      | some r => some (.int r, t1 ++ t2)
      | none => none
    | _, _ => none
  | .op1 o a =>
    match evalE G env a with
    | some (.int n, t1) => some (.int (evalOp1 o n), t1)
    | _ => none
  | .op2 o a b =>
    match evalE G env a, evalE G env b with
    | some (.int n, t1), some (.int m, t2) =>
      match evalOp2 o n m with
      | some r => some (.int r, t1 ++ t2 ++ (if o.isShift then [.shift m] else []))
      | none => none
    | _, _ => none
  | .op3 o a b c =>
    match evalE G env a, evalE G env b, evalE G env c with
    | some (.int n, t1), some (.int m, t2), some (.int k, t3) => some (.int (evalOp3 o n m k), t1 ++ t2 ++ t3)
    | _, _, _ => none

def evalEs (G : Nat → Val) (env : Env) : List Expr → Option (List Val × Trace)
  | [] => some ([], [])
  | e :: es =>
    match evalE G env e, evalEs G env es with
    | some (v, t1), some (vs, t2) => some (v :: vs, t1 ++ t2)
    | _, _ => none

/-- evaluate the indices of an assignment path -/
def evalPath (G : Nat → Val) (env : Env) : List PathE → Option (List Nat × Trace)
  | [] => some ([], [])
  | .c k :: p =>
    match evalPath G env p with
    | some (ks, t) => some (k :: ks, t)
    | none => none
  | .e i :: p =>
    match evalE G env i, evalPath G env p with
    | some (.int n, t1), some (ks, t2) => if n < 0 then none else some (n.toNat :: ks, t1 ++ [.idx n] ++ t2)
    | _, _ => none

/-- replace the component of `old` at `path` by `v` -/
def updPath (old : Val) : List Nat → Val → Option Val
  | [], v => some v
  | k :: ks, v =>
    match old with
    | .arr l =>
      match l[k]? with
      | some o =>
        match updPath o ks v with
        | some n => some (.arr (l.set k n))
        | none => none
      | none => none
    | .int _ => none
termination_by p _ => p.length
decreasing_by all_goals simp_wf

/-- control signal of a statement; `stuck` = the run cannot continue (out of fuel, index out of range,
    a value of the wrong kind, arity mismatch): the trace returned with it is the trace so far -/
inductive Ctl where
  | norm | brk | cont | ret (vs : List Val) | panic | stuck
deriving Repr, Inhabited

abbrev Oracle := Nat → List Val → List Val

abbrev Res := Env × Ctl × Trace

def asBool : Val → Option Bool
  | .int n => some (n != 0)
  | .arr _ => none

/-- fuel-indexed big-step interpreter, total: final environment, control signal and leakage trace.
    A run that cannot continue ends with `Ctl.stuck` and the events of the statements completed so
    far (so that two runs can be compared even when one of them does not complete). -/
def exec (P : Prog) (G : Nat → Val) (X : Oracle) : Nat → Env → Stmt → Res
  | 0, env, _ => (env, .stuck, [])
  | fuel + 1, env, s =>
    match s with
    | .skip => (env, .norm, [])
    | .brk => (env, .brk, [])
    | .cont => (env, .cont, [])
    | .panic => (env, .panic, [])
    | .assign x p e =>
      match evalE G env e, evalPath G env p with
      | some (v, t1), some (ks, t2) =>
        match updPath (env x) ks v with
        | some n => (env.set x n, .norm, t1 ++ t2)
        | none => (env, .stuck, [])
      | _, _ => (env, .stuck, [])
    | .declass x site e =>
      match evalE G env e with
      | some (.int n, t1) => (env.set x (.int n), .norm, t1 ++ [.declass site n])
      | _ => (env, .stuck, [])
    | .seq a b =>
      match exec P G X fuel env a with
      | (env1, .norm, t1) =>
        match exec P G X fuel env1 b with
        | (env2, c2, t2) => (env2, c2, t1 ++ t2)
      | r => r
    | .ite c a b =>
      match evalE G env c with
      | some (v, t0) =>
        match asBool v with
        | some d =>
          match exec P G X fuel env (if d then a else b) with
          | (env1, c1, t1) => (env1, c1, t0 ++ .branch d :: t1)
        | none => (env, .stuck, [])
      | none => (env, .stuck, [])
    | .loop c body post =>
      match evalE G env c with
      | some (v, t0) =>
        match asBool v with
        | some false => (env, .norm, t0 ++ [.loopc false])
        | some true =>
          match exec P G X fuel env body with
          | (env1, .brk, t1) => (env1, .norm, t0 ++ .loopc true :: t1)
          | (env1, .ret vs, t1) => (env1, .ret vs, t0 ++ .loopc true :: t1)
          | (env1, .panic, t1) => (env1, .panic, t0 ++ .loopc true :: t1)
          | (env1, .stuck, t1) => (env1, .stuck, t0 ++ .loopc true :: t1)
          | (env1, _, t1) =>   -- norm, cont
            match exec P G X fuel env1 post with
            | (env2, .norm, t2) =>
              match exec P G X fuel env2 (.loop c body post) with
              | (env3, c3, t3) => (env3, c3, t0 ++ .loopc true :: (t1 ++ (t2 ++ t3)))
            | (env2, _, t2) => (env2, .stuck, t0 ++ .loopc true :: (t1 ++ t2))
        | none => (env, .stuck, [])
      | none => (env, .stuck, [])
    | .ret es =>
      match evalEs G env es with
      | some (vs, t) => (env, .ret vs, t)
      | none => (env, .stuck, [])
    | .call lhs g args =>
      match evalEs G env args, P[g]? with
      | some (vs, t0), some fn =>
        if fn.stub || vs.length != fn.nparams then (env, .stuck, []) else
        match exec P G X fuel (Env.ofList vs) fn.body with
        | (_, .ret rs, t1) =>
          match env.setMany lhs rs with
          | some env1 => (env1, .norm, t0 ++ .call g :: t1)
          | none => (env, .stuck, t0 ++ .call g :: t1)
        | (_, .panic, t1) => (env, .panic, t0 ++ .call g :: t1)
        | (_, _, t1) => (env, .stuck, t0 ++ .call g :: t1)
      | _, _ => (env, .stuck, [])
    | .ext lhs name leaky args =>
      match evalEs G env args with
      | some (vs, t0) =>
        match env.setMany lhs (X name vs) with
        | some env1 => (env1, .norm, t0 ++ [if leaky then .ext name vs else .obs name])
        | none => (env, .stuck, [])
      | none => (env, .stuck, [])

/-- run function `g` of `P` on arguments, total: control signal and trace (`stuck` with the trace so far
    when the run does not complete within the fuel) -/
def runT (P : Prog) (G : Nat → Val) (X : Oracle) (fuel : Nat) (g : Nat) (args : List Val) : Ctl × Trace :=
  match P[g]? with
  | some fn =>
    if fn.stub || args.length != fn.nparams then (.stuck, []) else
    match exec P G X fuel (Env.ofList args) fn.body with
    | (_, c, t) => (c, .call g :: t)
  | none => (.stuck, [])

/-- a completed run of `g`: its results (`ret`) or `panic`, and the trace; `none` when stuck -/
def run (P : Prog) (G : Nat → Val) (X : Oracle) (fuel : Nat) (g : Nat) (args : List Val) : Option (Ctl × Trace) :=
  match runT P G X fuel g args with
  | (.ret vs, t) => some (.ret vs, t)
  | (.panic, t) => some (.panic, t)
  | _ => none

/-! ## Security labels and the checker -/

inductive Label where
  | L | H
deriving Repr, DecidableEq, Inhabited

def Label.join : Label → Label → Label
  | .L, .L => .L
  | _, _ => .H

def Label.le : Label → Label → Bool
  | .H, .L => false
  | _, _ => true

structure FnSig where
  params : List Label
  results : List Label
  declass : List Nat        -- declassification sites this function may use
deriving Repr, Inhabited

structure Sigs where
  fn : List FnSig           -- by function number
  ext : List (List Label)   -- result labels of external calls, by name number
deriving Repr, Inhabited

abbrev LEnv := List Label

def LEnv.get (Γ : LEnv) (x : Nat) : Label := Γ.getD x .H

/-- label of an expression; `none` = a secret reaches an index, a slice bound, an allocation size
    or a shift count -/
def labelE (Γ : LEnv) : Expr → Option Label
  | .lit _ => some .L
  | .glob _ => some .L
  | .var x => some (Γ.get x)
  | .idx a i =>
    match labelE Γ a, labelE Γ i with
    | some la, some .L => some la
    | _, _ => none
  | .idxc a _ => labelE Γ a
  | .len a =>
    match labelE Γ a with
    | some _ => some .L
    | none => none
  | .slice a lo hi =>
    match labelE Γ a, labelE Γ lo, labelE Γ hi with
    | some la, some .L, some .L => some la
    | _, _, _ => none
  | .mk n init =>
    match labelE Γ n, labelE Γ init with
    | some .L, some li => some li
    | _, _ => none
  | .cat a b =>
    match labelE Γ a, labelE Γ b with
    | some la, some lb => some (la.join lb)
    | _, _ => none
  | .cteq a b =>
    match labelE Γ a, labelE Γ b with
    | some la, some lb => some (la.join lb)
    | _, _ => none
  | .op1 _ a => labelE Γ a
  | .op2 o a b =>
    match labelE Γ a, labelE Γ b with
    | some la, some lb => if o.isShift && lb != .L then none else some (la.join lb)
    | _, _ => none
  | .op3 _ a b c =>
    match labelE Γ a, labelE Γ b, labelE Γ c with
    | some la, some lb, some lc => some ((la.join lb).join lc)
    | _, _, _ => none

/-- labels of a list of expressions against expected labels (same length, pointwise ≤) -/
def checkEs (Γ : LEnv) : List Expr → List Label → Bool
  | [], [] => true
  | e :: es, l :: ls =>
    (match labelE Γ e with
     | some le => le.le l
     | none => false) && checkEs Γ es ls
  | _, _ => false

def checkPath (Γ : LEnv) : List PathE → Bool
  | [] => true
  | .c _ :: p => checkPath Γ p
  | .e i :: p => (labelE Γ i == some .L) && checkPath Γ p

/-- results with labels `ls` may be stored into variables `xs` -/
def checkLhs (Γ : LEnv) : List Nat → List Label → Bool
  | [], [] => true
  | x :: xs, l :: ls => l.le (Γ.get x) && checkLhs Γ xs ls
  | _, _ => false

def allH : List Label → Bool
  | [] => true
  | l :: ls => l == .H && allH ls

def checkS (P : Prog) (S : Sigs) (Γ : LEnv) (res : List Label) (allowed : List Nat) : Stmt → Bool
  | .skip => true
  | .brk => true
  | .cont => true
  | .panic => true
  | .assign x p e =>
    checkPath Γ p &&
    (match labelE Γ e with
     | some le => le.le (Γ.get x)
     | none => false)
  | .declass x site e =>
    allowed.contains site && (labelE Γ e).isSome && x < Γ.length
  | .seq a b => checkS P S Γ res allowed a && checkS P S Γ res allowed b
  | .ite c a b => (labelE Γ c == some .L) && checkS P S Γ res allowed a && checkS P S Γ res allowed b
  | .loop c body post =>
    (labelE Γ c == some .L) && checkS P S Γ res allowed body && checkS P S Γ res allowed post
  | .ret es => checkEs Γ es res
  | .call lhs g args =>
    match S.fn[g]?, P[g]? with
    | some fs, some fn => !fn.stub && checkEs Γ args fs.params && checkLhs Γ lhs fs.results
    | _, _ => false
  | .ext lhs name leaky args =>
    match S.ext[name]? with
    | some rl =>
      checkLhs Γ lhs rl &&
      (if leaky then checkEs Γ args (List.replicate args.length .L)
       else (checkEs Γ args (List.replicate args.length .H) && allH rl))
    | none => false

/-! ### Label inference for local variables (not trusted: `checkS` validates its result)

  The inferred environment is a bit mask (bit x set = variable x secret): natural-number
  operations are evaluated eagerly by the kernel, which keeps `decide` on `check` fast. -/

def maskGet (m : Nat) (x : Nat) : Label := if m.testBit x then .H else .L

def maskRaise (m : Nat) (x : Nat) (l : Label) : Nat :=
  match l with
  | .L => m
  | .H => m ||| (1 <<< x)

def maskRaiseMany (m : Nat) : List Nat → List Label → Nat
  | x :: xs, l :: ls => maskRaiseMany (maskRaise m x l) xs ls
  | _, _ => m

/-- label of an expression under a mask; an expression the checker would reject counts as secret -/
def labelM (m : Nat) : Expr → Label
  | .lit _ => .L
  | .glob _ => .L
  | .var x => maskGet m x
  | .idx a _ => labelM m a
  | .idxc a _ => labelM m a
  | .len _ => .L
  | .slice a _ _ => labelM m a
  | .mk _ init => labelM m init
  | .cat a b => (labelM m a).join (labelM m b)
  | .cteq a b => (labelM m a).join (labelM m b)
  | .op1 _ a => labelM m a
  | .op2 _ a b => (labelM m a).join (labelM m b)
  | .op3 _ a b c => ((labelM m a).join (labelM m b)).join (labelM m c)

def inferS (S : Sigs) (m : Nat) : Stmt → Nat
  | .assign x _ e => maskRaise m x (labelM m e)
  | .seq a b => inferS S (inferS S m a) b
  | .ite _ a b => inferS S (inferS S m a) b
  | .loop _ body post => inferS S (inferS S m body) post
  | .call lhs g _ =>
    match S.fn[g]? with
    | some fs => maskRaiseMany m lhs fs.results
    | none => m
  | .ext lhs name _ _ =>
    match S.ext[name]? with
    | some rl => maskRaiseMany m lhs rl
    | none => m
  | _ => m

def inferIter (S : Sigs) (body : Stmt) : Nat → Nat → Nat
  | 0, m => m
  | n + 1, m =>
    let m' := inferS S m body
    if m' == m then m else inferIter S body n m'

def maskOfLabels : List Label → Nat → Nat
  | [], _ => 0
  | .L :: ls, x => maskOfLabels ls (x + 1)
  | .H :: ls, x => (1 <<< x) ||| maskOfLabels ls (x + 1)

def maskToLabels (m : Nat) (n : Nat) : LEnv := (List.range n).map (maskGet m)

/-- label environment of a function: parameters from the signature, locals inferred -/
def gammaOf (S : Sigs) (fs : FnSig) (fn : Fn) : LEnv :=
  maskToLabels (inferIter S fn.body 12 (maskOfLabels fs.params 0)) fn.nvars

def checkFn (P : Prog) (S : Sigs) (g : Nat) (fn : Fn) : Bool :=
  fn.stub ||
  (match S.fn[g]? with
   | some fs =>
     let Γ := gammaOf S fs fn
     fs.params.length == fn.nparams && Γ.take fn.nparams == fs.params &&
     checkS P S Γ fs.results fs.declass fn.body
   | none => false)

def checkAll (P : Prog) (S : Sigs) : Nat → List Fn → Bool
  | _, [] => true
  | g, fn :: fns => checkFn P S g fn && checkAll P S (g + 1) fns

/-- the constant-time check: every function of `P` (a slice of the generated program: the callees of
    `g`, everything else stubbed) respects its signature, and `g` is a real function of `P` -/
def check (P : Prog) (S : Sigs) (g : Nat) : Bool :=
  (match P[g]? with
   | some fn => !fn.stub
   | none => false) && checkAll P S 0 P

/-! ### Slicing a program to the callees of one function -/

def calleesS : Stmt → List Nat
  | .seq a b => calleesS a ++ calleesS b
  | .ite _ a b => calleesS a ++ calleesS b
  | .loop _ a b => calleesS a ++ calleesS b
  | .call _ g _ => [g]
  | _ => []

/-- functions reachable from `g` by calls (fuel = number of rounds) -/
def reach (P : Prog) (g : Nat) : List Nat :=
  let rec go : Nat → List Nat → List Nat → List Nat
    | 0, acc, _ => acc
    | n + 1, acc, work =>
      match work with
      | [] => acc
      | w :: ws =>
        if acc.contains w then go n acc ws
        else
          let cs := match P[w]? with
            | some fn => calleesS fn.body
            | none => []
          go n (w :: acc) (cs ++ ws)
  go 100000 [] [g]

def stubFn (fn : Fn) : Fn := { nparams := fn.nparams, nvars := fn.nvars, body := .panic, stub := true }

def sliceGo (keep : List Nat) : Nat → List Fn → List Fn
  | _, [] => []
  | i, fn :: fns => (if keep.contains i then fn else stubFn fn) :: sliceGo keep (i + 1) fns

/-- `P` with every function not reachable from `g` replaced by a stub (calls to stubs are rejected
    by the checker and stuck in the interpreter) -/
def slice (P : Prog) (g : Nat) : Prog := sliceGo (reach P g) 0 P

/-! ### Reports -/

def sitesS : Stmt → List Nat
  | .seq a b => sitesS a ++ sitesS b
  | .ite _ a b => sitesS a ++ sitesS b
  | .loop _ a b => sitesS a ++ sitesS b
  | .declass _ s _ => [s]
  | _ => []

def obsS : Stmt → List Nat
  | .seq a b => obsS a ++ obsS b
  | .ite _ a b => obsS a ++ obsS b
  | .loop _ a b => obsS a ++ obsS b
  | .ext _ n false _ => [n]
  | _ => []

/-- declassification sites used by the functions reachable from `g` -/
def sitesOf (P : Prog) (g : Nat) : List Nat :=
  (reach P g).reverse.flatMap (fun f => match P[f]? with
    | some fn => sitesS fn.body
    | none => [])

/-- a function body without any event-producing construct except calls -/
def straightE : Expr → Bool
  | .lit _ => true
  | .glob _ => true
  | .var _ => true
  | .idx _ _ => false
  | .idxc a _ => straightE a
  | .len a => straightE a
  | .slice _ _ _ => false
  | .mk _ _ => false
  | .cat a b => straightE a && straightE b
  | .cteq a b => straightE a && straightE b
  | .op1 _ a => straightE a
  | .op2 o a b => !o.isShift && straightE a && straightE b
  | .op3 _ a b c => straightE a && straightE b && straightE c

def straightPath : List PathE → Bool
  | [] => true
  | .c _ :: p => straightPath p
  | .e _ :: _ => false

def straightEs : List Expr → Bool
  | [] => true
  | e :: es => straightE e && straightEs es

def straightS : Stmt → Bool
  | .skip => true
  | .assign _ p e => straightPath p && straightE e
  | .seq a b => straightS a && straightS b
  | .ret es => straightEs es
  | .call _ _ args => straightEs args
  | _ => false

/-- `g` and everything it calls is straight-line code with constant indices: its trace consists of
    `call` events only and is the same for all inputs -/
def straight (P : Prog) (g : Nat) : Bool :=
  (reach P g).all (fun f => match P[f]? with
    | some fn => straightS fn.body
    | none => false)


/-! ## A concrete external world

  The external calls of the translated program are the `math/big` operations of SignHashed and of the
  coordinate conversions, `io.ReadFull` and `fmt.Errorf`.  `stdOracle` is an executable model of them on
  integers and byte lists: the driver runs the program with it, and `OracleRel` is proved for it
  (SMGo/Proofs/CTIROracle.lean), so the soundness theorem can be instantiated without side conditions.
  The reader is a tape `pos ↦ i ↦ byte`: the `pos`-th read returns the bytes `tape pos 0 … tape pos (n-1)`
  (the position is an explicit public variable of the calling function, passed to and returned by the
  call), so successive reads deliver successive candidates. -/

inductive ExtKind where
  | setBytes     -- z.SetBytes(b): [b] ↦ [value]
  | byteLen      -- len(z.Bytes()): [z] ↦ [number of bytes]      (first half of z.Bytes())
  | fillBytes    -- z.FillBytes(buf): [z, buf] ↦ [big-endian encoding on len(buf) bytes]
  | add | sub | mul | mod
  | sign
  | modInverse   -- [a, m] ↦ [a^(m-2) mod m]  (m is the prime p in every translated call)
  | readFull     -- [reader, n, pos] ↦ [n bytes of the tape at pos, n, 0 (nil error), pos+1]
  | errorf       -- [operands…] ↦ [1] (a non-nil error)
  | other
deriving Repr, DecidableEq, Inhabited

def natOfBytes (l : List Val) : Nat :=
  l.foldl (fun n v => match v with | .int b => n * 256 + b.toNat | .arr _ => n) 0

def bytesBE (v : Nat) (len : Nat) : List Val :=
  (List.range len).map (fun i => Val.int (Int.ofNat ((v / 256 ^ (len - 1 - i)) % 256)))

def natByteLen (v : Nat) : Nat := if v = 0 then 0 else Nat.log2 v / 8 + 1

def powModNat (b e m : Nat) : Nat :=
  let rec go : Nat → Nat → Nat → Nat → Nat
    | 0, _, _, r => r
    | fuel + 1, b, e, r =>
      if e = 0 then r else go fuel (b * b % m) (e / 2) (if e % 2 = 1 then r * b % m else r)
  go (Nat.log2 e + 1) (b % m) e (1 % m)

def argInt (args : List Val) (i : Nat) : Int :=
  match args[i]? with
  | some (.int n) => n
  | _ => 0

def argLen (args : List Val) (i : Nat) : Nat :=
  match args[i]? with
  | some (.arr l) => l.length
  | _ => 0

def argBytes (args : List Val) (i : Nat) : List Val :=
  match args[i]? with
  | some (.arr l) => l
  | _ => []

def stdOracle (kinds : List ExtKind) (tape : Nat → Nat → Nat) : Oracle := fun name args =>
  match kinds.getD name .other with
  | .setBytes => [.int (Int.ofNat (natOfBytes (argBytes args 0)))]
  | .byteLen => [.int (Int.ofNat (natByteLen (argInt args 0).toNat))]
  | .fillBytes => [.arr (bytesBE (argInt args 0).toNat (argLen args 1))]
  | .add => [.int (argInt args 0 + argInt args 1)]
  | .sub => [.int (argInt args 0 - argInt args 1)]
  | .mul => [.int (argInt args 0 * argInt args 1)]
  | .mod => [.int (argInt args 0 % argInt args 1)]
  | .sign => [.int (if argInt args 0 < 0 then -1 else if argInt args 0 = 0 then 0 else 1)]
  | .modInverse =>
    [.int (Int.ofNat (powModNat ((argInt args 0) % (argInt args 1)).toNat ((argInt args 1).toNat - 2) (argInt args 1).toNat))]
  | .readFull =>
    [.arr ((List.range (argInt args 1).toNat).map (fun i => Val.int (Int.ofNat (tape (argInt args 2).toNat i % 256)))),
     .int (argInt args 1), .int 0, .int (argInt args 2 + 1)]
  | .errorf => [.int 1]
  | .other => []


/-! ## Assembly routines as external calls

  In the Go glue of the accelerated SM4 / GCM paths (SMGo/Gen/CTIRProgSM4.lean) the assembly routines are
  external calls.  Their own instruction sequences and addresses are the subject of the certificates of
  C09; here a routine is any function of the argument VALUES that returns, for each destination
  argument, an array of the same length (and possibly an integer).  `sem name args j` gives the new
  elements of the j-th destination (elements it does not give keep their old value; for
  `j = outs.length` its first element is the integer result). -/

structure AsmSpec where
  outs : List Nat        -- destination arguments, in the order of the results
  ret : Bool             -- an integer result follows
  ptrs : List Nat        -- pointer arguments (arrays in the model)
  slices : List Nat      -- slice arguments (arrays whose length is part of the frame)
  header : Bool          -- reads nothing but its frame (a leaking call on public header fields)
deriving Repr, Inhabited

def fillFrom (dst : List Val) (l : List Int) : List Val :=
  (List.range dst.length).map (fun i => Val.int (l.getD i (argInt dst i)))

def asmOuts (sem : Nat → List Int) (args : List Val) : Nat → List Nat → List Val
  | _, [] => []
  | j, a :: as => Val.arr (fillFrom (argBytes args a) (sem j)) :: asmOuts sem args (j + 1) as

def asmOracle (specs : List AsmSpec) (sem : Nat → List Val → Nat → List Int) : Oracle := fun name args =>
  match specs[name]? with
  | some sp =>
    asmOuts (sem name args) args 0 sp.outs ++
      (if sp.ret then [Val.int ((sem name args sp.outs.length).getD 0 0)] else [])
  | none => []

/-- the result arity of every external agrees with the declared labels -/
def specsOk : List AsmSpec → List (List Label) → Bool
  | [], [] => true
  | sp :: sps, ls :: lss => (sp.outs.length + (if sp.ret then 1 else 0) == ls.length) && specsOk sps lss
  | _, _ => false

/-! ### The frame discipline (composition premise of the certificates of the routines)

  Every call of a routine `.ext lhs name false args` is immediately preceded by the leaking record
  `.ext [] frame true (.lit name :: fs)`, and every argument that is not a pointer is in `fs` (for a
  slice argument: its length).  Since the record is a leaking call, the checker forces all of `fs` to be
  public. -/

def exprBeq : Expr → Expr → Bool
  | .lit a, .lit b => a == b
  | .glob a, .glob b => a == b
  | .var a, .var b => a == b
  | .idx a i, .idx b j => exprBeq a b && exprBeq i j
  | .idxc a k, .idxc b l => exprBeq a b && k == l
  | .len a, .len b => exprBeq a b
  | .slice a l h, .slice b m k => exprBeq a b && exprBeq l m && exprBeq h k
  | .mk n a, .mk m b => exprBeq n m && exprBeq a b
  | .cat a c, .cat b d => exprBeq a b && exprBeq c d
  | .cteq a c, .cteq b d => exprBeq a b && exprBeq c d
  | .op1 o a, .op1 q b => decide (o = q) && exprBeq a b
  | .op2 o a c, .op2 q b d => decide (o = q) && exprBeq a b && exprBeq c d
  | .op3 o a c e, .op3 q b d f => decide (o = q) && exprBeq a b && exprBeq c d && exprBeq e f
  | _, _ => false

def frameArgsOk (sp : AsmSpec) (fs : List Expr) : Nat → List Expr → Bool
  | _, [] => true
  | i, a :: as =>
    (if sp.ptrs.contains i then true
     else if sp.slices.contains i then fs.any (exprBeq (.len a))
     else fs.any (exprBeq a)) && frameArgsOk sp fs (i + 1) as

def flatS : Stmt → List Stmt
  | .seq a b => flatS a ++ flatS b
  | s => [s]

/-- in a statement list: every non-leaking routine call directly follows its frame record -/
def framedList (specs : List AsmSpec) (frame : Nat) : Option Stmt → List Stmt → Bool
  | _, [] => true
  | prev, s :: ss =>
    (match s with
     | .ext _ name false args =>
       (match prev, specs[name]? with
        | some (.ext [] f true (.lit n :: fs)), some sp =>
          f == frame && n == Int.ofNat name && frameArgsOk sp fs 0 args
        | _, _ => false)
     | _ => true) && framedList specs frame (some s) ss

def framedS (specs : List AsmSpec) (frame : Nat) (fuel : Nat) (s : Stmt) : Bool :=
  match fuel with
  | 0 => false
  | fuel + 1 =>
    let l := flatS s
    framedList specs frame none l &&
    l.all (fun t => match t with
      | .ite _ a b => framedS specs frame fuel a && framedS specs frame fuel b
      | .loop _ a b => framedS specs frame fuel a && framedS specs frame fuel b
      | _ => true)

def framed (P : Prog) (specs : List AsmSpec) (frame : Nat) : Bool :=
  P.all (fun fn => framedS specs frame 64 fn.body)

/-! ### Trace digest (driver, negative witnesses) -/

mutual
def Val.digest : Val → Nat
  | .int n => (if n < 0 then 2 * (-n).toNat + 1 else 2 * n.toNat) * 4 + 1
  | .arr l => Val.digestL l 7 * 4 + 2
def Val.digestL : List Val → Nat → Nat
  | [], h => h
  | v :: vs, h => Val.digestL vs ((h * 1000003 + v.digest) % 2305843009213693951)
end

def Event.digest : Event → Nat
  | .branch b => 11 + (if b then 1 else 0)
  | .loopc b => 13 + (if b then 1 else 0)
  | .idx i => (Val.int i).digest * 16 + 1
  | .slice lo hi => ((Val.int lo).digest * 1000003 + (Val.int hi).digest) * 16 + 2
  | .alloc n => (Val.int n).digest * 16 + 3
  | .shift n => (Val.int n).digest * 16 + 4
  | .call f => f * 16 + 5
  | .ext name args => ((Val.arr args).digest * 1000003 + name) * 16 + 6
  | .obs name => name * 16 + 7
  | .declass s v => ((Val.int v).digest * 1000003 + s) * 16 + 8

/-- a digest of a trace (equal traces have equal digests; used to compare traces in the driver and
    to separate two traces in the negative witnesses) -/
def traceDigest (t : Trace) : Nat :=
  t.foldl (fun h e => (h * 1000003 + e.digest) % 2305843009213693951) 17

end SMGo.Model.CTIR
