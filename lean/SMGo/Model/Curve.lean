/-
  Model of the scalar-multiplication schedules of /repo/sm2/internal/sm2_curve.go, generic in the
  point operations (`GOps`): the "skip-bit-extraction" comb for the base point (any
  window-subtables-iterations-remainder scheme), the fixed 4-bit window for a variable point, and the
  interleaved comb + signed 4-NAF double-scalar multiplication used by verification.
-/
import SMGo.Model.Outcome
import SMGo.Model.Utils
import SMGo.Model.Point
namespace SMGo.Model.Curve
open SMGo

abbrev Table := Model.Point.Table

structure GOps (Γ : Type) where
  infinity : Γ
  add : Γ → Γ → Γ
  double : Γ → Γ
  negate : Γ → Γ
  /-- `NewSM2Point()` followed by `MultiSelectXY(table, width, bits)` -/
  selectXY : Table → Nat → Nat → Outcome Γ
  /-- `NewSM2Point()` followed by `MultiSelectXYZ(table, width, bits)` -/
  selectXYZ : Table → Nat → Nat → Outcome Γ
  fromXY : List Nat → List Nat → Γ
  transform : List Γ → Table

variable {Γ : Type}

/-- `extractBit(k, idx)`: bit `idx` of the big-endian 32-byte string (bounds-checked) -/
def extractBit (k : Bytes) (idx : Nat) : Outcome Nat :=
  if 31 < idx / 8 then .panic else do    -- byteIdx = 31 - idx>>3 would be negative
    let b ← Outcome.idx k (31 - idx / 8)
    pure ((b.toNat >>> (idx % 8)) % 2)

/-- `extractHigherBits(k, idx, window, stepSize)` (a byte: bits above 8 are shifted out) -/
def extractHigherBits (k : Bytes) (idx window stepSize : Nat) : Outcome Nat :=
  (List.range window).foldlM (fun bits i => do
    let bit ← extractBit k (i * stepSize + idx)
    pure ((bits ||| (bit <<< i)) % 256)) 0

/-- `extractLowerBits(k, count)` -/
def extractLowerBits (k : Bytes) (count : Nat) : Outcome Nat := do
  let b ← Outcome.idx k 31
  pure (b.toNat &&& (2 ^ count - 1))

/-- the inner `for j` loop of the comb at iteration i -/
def combInner (G : GOps Γ) (k : Bytes) (first : List Table) (window subTableCount iterations remainder : Nat)
    (i : Nat) (st : Γ × Bool) : Outcome (Γ × Bool) :=
  (List.range subTableCount).foldlM (fun (st : Γ × Bool) j => do
    let (ret, skip) := st
    let bits ← extractHigherBits k (i + j * iterations + remainder) window (subTableCount * iterations)
    let tmp ← G.selectXY (first.getD j []) (2 ^ window - 1) bits
    if !skip then pure (G.add ret tmp, false) else pure (tmp, false)) st

/-- `scalarBaseMult_SkipBitExtration(k, first, second, window, subTableCount, iterations, remainder)` -/
def scalarBaseMult (G : GOps Γ) (k : Bytes) (first : List Table) (second : Table)
    (window subTableCount iterations remainder : Nat) : Outcome Γ :=
  if window > 8 ∨ remainder > 4 then .panic else
  if window * subTableCount * iterations + remainder ≠ 256 then .panic else
  if ((first.getD 0 []).getD 0 []).length ≠ 2 ^ window - 1 then .panic else
  if k.length ≠ 32 then .err else do
    let (ret, _) ← (List.range iterations).foldlM (fun (st : Γ × Bool) ii => do
        let i := iterations - 1 - ii
        let st := if !st.2 then (G.double st.1, st.2) else st
        combInner G k first window subTableCount iterations remainder i st) (G.infinity, true)
    if remainder ≥ 1 then do
      let bits ← extractLowerBits k remainder
      let tmp ← G.selectXY second ((second.getD 0 []).length) bits
      pure (G.add ret tmp)
    else pure ret

def double4 (G : GOps Γ) (p : Γ) : Γ := G.double (G.double (G.double (G.double p)))

/-- `ScalarMult(P, scalar)`: fixed 4-bit windows over all bytes of the scalar -/
def scalarMult (G : GOps Γ) (P : Γ) (scalar : Bytes) : Outcome Γ := do
  -- P, 2P, ..., 15P
  let p2 := G.double P
  let pre := (List.range 13).foldl (fun (l : List Γ) _ => l ++ [G.add (l.getLastD P) P]) [P, p2]
  let tbl := G.transform pre
  let (ret, _) ← scalar.foldlM (fun (st : Γ × Bool) b => do
      let (ret, skip) := st
      let ret := if !skip then double4 G ret else ret
      let tmp ← G.selectXYZ tbl 15 (b.toNat >>> 4)
      let ret := G.add ret tmp
      let ret := double4 G ret
      let tmp ← G.selectXYZ tbl 15 (b.toNat &&& 0x0f)
      pure (G.add ret tmp, false)) (G.infinity, true)
  pure ret

/-- one iteration `i` of the main loop of `ScalarMixedMult_Unsafe` -/
def mixedStep (G : GOps Γ) (gScalar : Bytes) (first : List Table) (pre : List Γ) (naf : List Int)
    (st : Γ × Bool) (i : Nat) : Outcome (Γ × Bool) := do
  let (ret, skip) := st
  let ret := if !skip then G.double ret else ret
  let (ret, skip) ←
    if i < 14 then
      (List.range 3).foldlM (fun (st : Γ × Bool) j => do
        let bits ← extractHigherBits gScalar (i + j * 14 + 4) 6 42
        if bits > 0 then
          let tb := first.getD j []
          let x ← Outcome.idx (tb.getD 0 []) (bits - 1)
          let y ← Outcome.idx (tb.getD 1 []) (bits - 1)
          pure (G.add st.1 (G.fromXY x y), false)
        else pure st) (ret, skip)
    else pure (ret, skip)
  let d ← Outcome.idx naf i
  if d = 0 then pure (ret, skip) else do
    let tmp ←
      if d > 0 then Outcome.idx pre ((d.toNat - 1) / 2)
      else (Outcome.idx pre (((-d).toNat - 1) / 2)).bind (fun q => .ok (G.negate q))
    if skip then pure (tmp, false) else pure (G.add ret tmp, false)

/-- `ScalarMixedMult_Unsafe(gScalar, P, scalar)` with the 6-3-14 tables -/
def scalarMixedMult (G : GOps Γ) (gScalar : Bytes) (P : Γ) (scalar : Bytes)
    (first : List Table) (second : Table) : Outcome Γ := do
  -- P, 3P, ..., 15P
  let p2 := G.double P
  let pre := (List.range 7).foldl (fun (l : List Γ) _ => l ++ [G.add (l.getLastD P) p2]) [P]
  let naf ← Utils.decomposeNAF (some (List.replicate 257 0)) (some scalar) 257 4
  let (ret, _) ← (List.range 257).foldlM (fun st ii => mixedStep G gScalar first pre naf st (256 - ii)) (G.infinity, true)
  let bits ← extractLowerBits gScalar 4
  if bits > 0 then do
    let x ← Outcome.idx (second.getD 0 []) (bits - 1)
    let y ← Outcome.idx (second.getD 1 []) (bits - 1)
    pure (G.add ret (G.fromXY x y))
  else pure ret

/-- the point operations of `Model.Point` as a `GOps` -/
def pointOps {α : Type} (C : Point.Ctx α) : GOps (Point.Pt α) :=
  { infinity := Point.infinity C
    add := Point.add C
    double := Point.double C
    negate := Point.negate C
    selectXY := fun t w bits => Point.multiSelect C (Point.infinity C) t false w bits
    selectXYZ := fun t w bits => Point.multiSelect C (Point.infinity C) t true w bits
    fromXY := Point.fromXY C
    transform := Point.transformPrecomputed C }

end SMGo.Model.Curve
