/-
  Syntax of macro-expanded assembler listings (amd64 and arm64), as emitted by the "listing"
  translator from `go tool asm -S`.  Semantics live in SMGo/Model/ISA.lean.
-/
namespace SMGo.Model.ISA

inductive Reg where
  | gpr (n : Nat)      -- amd64: AX,CX,DX,BX,SP,BP,SI,DI,R8..R15 = 0..15; arm64: R0..R30, RSP = 31, ZR = 32
  | vec (n : Nat)      -- X/Y/Z n (amd64), V n (arm64): the same physical register whatever the width
  | k (n : Nat)        -- AVX-512 opmask registers
deriving DecidableEq, Repr

inductive Opd where
  | reg (r : Reg)
  | regs (rs : List Reg)                                            -- arm64 register list [V0.B16, V1.B16]
  | imm (v : Int)
  | mem (base : Reg) (index : Option Reg) (scale : Nat) (disp : Int)  -- disp(base)(index*scale)
  | sym (name : String) (off : Nat)                                  -- name<>+off(SB): a load from read-only data
  | symAddr (name : String) (off : Nat)                              -- $name<>+off(SB): the address of read-only data
  | frame (name : String) (off : Nat)                                -- name+off(FP): an argument slot
  | target (pc : Nat)                                               -- branch target (byte offset in the routine)
deriving DecidableEq, Repr

structure Instr where
  pc : Nat
  mn : String
  ops : List Opd
  line : Nat      -- source line in the .s file (diagnostics only)
  vw : Nat        -- widest vector register named by the operands, in bytes (0 = none): the access width of vector loads/stores
deriving DecidableEq, Repr

end SMGo.Model.ISA
