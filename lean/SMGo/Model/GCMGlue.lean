/-
  Hand-written executable model of /repo/sm4/sm4_gcm_amd64.go (`Seal`, `Open`, `ensureCapacity`)
  and of `(*SM3).Sum`'s `append`, statement by statement, over the slice heap of
  `SMGo.Model.Slice`.

  What the assembly does is a parameter (`Asm`): two functions of the *values* of the nonce, the
  text and the additional data,
    `sealOut nonce pt aad`  = the `len(pt) + tagSize` bytes sealAsm stores from `dst` on,
    `openOut nonce ct aad`  = `some pt` (the `len(ct) - tagSize` bytes openAsm stores from `dst` on,
                              answer 1) or `none` (tag mismatch: nothing stored, answer 0).
  The driver and property C10 instantiate it with the specification,
  `Spec.GCM.sealGCM/openGCM (Spec.SM4.cryptFast rk) tagSize` (`specAsm`); that the assembly computes
  these functions is the subject of C06/C07 (values) and C11 (it touches nothing else).

  Memory behaviour of the two routines, from /repo/sm4/gcm_amd64.s:
  * They READ the round keys, the nonce, the text, the additional data; they WRITE only at `dst`
    (sealAsm: `len(pt)+tagSize` bytes; openAsm: `len(ct)-tagSize` bytes, and only after the tags
    compared equal) and in the 32-byte scratch `temp`, a local variable of `Seal`/`Open` which is
    not reachable from any caller's slice and therefore not an array of this heap.  Since the
    repair of finding G the tag comparison XORs into the scratch copy of the expected tag, not into
    the caller's ciphertext.
  * The model READS ALL inputs from the heap at call time and then WRITES ALL output
    (`sealAsm`/`openAsm` below).  Why this is faithful:
      - inputs disjoint from the output region: nothing read is ever written, order is irrelevant;
      - output region starting exactly where the text starts (same array, same address: the
        in-place idiom `Seal(pt[:0], nonce, pt, aad)` and, generally, `dst` ending where the text
        begins): `cryptoBlocksAsm` walks `src` and `dst` with the same stride (256/128/64/32/16
        bytes, then the 1..15-byte tail through `temp`), loads each chunk of `src` completely
        before it stores the same chunk of `dst`, and never returns to an earlier address; the
        GHASH of sealAsm runs over the registers that hold the ciphertext chunk just produced,
        never over memory re-read from `dst`/`src`; openAsm makes one complete GHASH pass over the
        ciphertext and compares the tags BEFORE the first store, then decrypts in the same
        chunk-by-chunk manner; the tag of sealAsm is stored after the last text byte was read.
        So every byte of the text is read before the byte at the same address is written, which
        is what read-all-then-write-all gives.
      - PARTIAL overlaps (output region overlapping the text, the nonce or the additional data
        without starting exactly at the text's first byte) are outside the crypto/cipher AEAD
        contract ("plaintext and dst must overlap exactly or not at all") and OUTSIDE THIS MODEL:
        the model still answers, but the answer is not claimed to be the code's.  The theorems of
        C10 carry the hypothesis `Admissible`, which excludes them.

  Core Lean only: linked into `smgo_model`.
-/
import SMGo.Spec.Bytes
import SMGo.Spec.SM4Fast
import SMGo.Spec.GCM
import SMGo.Model.Outcome
import SMGo.Model.Slice
import SMGo.Model.SM3State
namespace SMGo.Model.GCMGlue
open SMGo SMGo.Model.Mem

def blockSize : Nat := 16
def gcmMinimumTagSize : Nat := 12

/-- the effect of the two assembly routines for one key and one tag size -/
structure Asm where
  sealOut : Bytes → Bytes → Bytes → Bytes          -- nonce, plaintext, additional data
  openOut : Bytes → Bytes → Bytes → Option Bytes   -- nonce, ciphertext ‖ tag, additional data

/-- `sm4GcmAsm`: the receiver of Seal/Open (`roundKeys` and `cipher` are inside `asm`) -/
structure GcmAsm where
  nonceSize : Nat
  tagSize : Nat
  asm : Asm

/-- the routines as the specification defines them -/
def specAsm (rk : List W32) (tagSize : Nat) : Asm :=
  { sealOut := fun nonce pt aad => Spec.GCM.sealGCM (Spec.SM4.cryptFast rk) tagSize nonce pt aad
    openOut := fun nonce ct aad => Spec.GCM.openGCM (Spec.SM4.cryptFast rk) tagSize nonce ct aad }

/-- what `NewCipher(key)` followed by `NewGCM(nonceSize, tagSize)` builds -/
def newGCM (key : Bytes) (nonceSize tagSize : Nat) : GcmAsm :=
  { nonceSize := nonceSize, tagSize := tagSize,
    asm := specAsm (Spec.SM4.keySchedule key) tagSize }

/-- helper_amd64.s `needExpand`: `MOVQ cap,t; SUBQ len,t; CMPQ t,asked; JGE → 0 else 1`.
    (signed compare; all three quantities are non-negative ints, `len ≤ cap`) -/
def needExpand (array : Slice) (asked : Nat) : Nat :=
  if array.cap - array.len < asked then 1 else 0

/-- helper_amd64.s `copyAsm(dst, src *byte, len int)`: 8/4/2/1-byte moves, ascending -/
def copyAsm (h : Heap) (dst src : Ptr) (n : Nat) : Outcome Heap := do
  let bs ← readPtr h src n
  writePtr h dst bs

/--
```go
func ensureCapacity(array []byte, asked int) (head []byte) {
	res := needExpand(array, asked)
	arrayLen := len(array)
	if res == 0{
		head = array[:arrayLen+asked]
	}else{
		head = make([]byte,arrayLen+asked)
		if arrayLen!=0 {
			copyAsm(&head[0], &array[0], arrayLen)
		}
	}
	return
}
```
-/
def ensureCapacity (h : Heap) (array : Slice) (asked : Nat) : Outcome (Heap × Slice) :=
  let res := needExpand array asked
  let arrayLen := array.len
  if res = 0 then do
    let head ← reslice array 0 (arrayLen + asked)
    .ok (h, head)
  else
    let (h1, head) := make h (arrayLen + asked)
    if arrayLen ≠ 0 then do
      let d ← addrOf head 0
      let s ← addrOf array 0
      let h2 ← copyAsm h1 d s arrayLen
      .ok (h2, head)
    else .ok (h1, head)

/-- sealAsm: read nonce, plaintext, additional data; store `sealOut` from `dst` on -/
def sealAsm (g : GcmAsm) (h : Heap) (dst : Ptr) (nonce plaintext additionalData : Slice) :
    Outcome Heap :=
  writePtr h dst (g.asm.sealOut (read h nonce) (read h plaintext) (read h additionalData))

/-- openAsm: read everything; on a tag match store the plaintext from `dst` on and answer 1,
    otherwise store nothing and answer 0 -/
def openAsm (g : GcmAsm) (h : Heap) (dst : Ptr) (nonce ciphertext additionalData : Slice) :
    Outcome (Heap × Nat) :=
  match g.asm.openOut (read h nonce) (read h ciphertext) (read h additionalData) with
  | some pt => do
    let h' ← writePtr h dst pt
    .ok (h', 1)
  | none => .ok (h, 0)

/-- `((1<<32)-2)*BlockSize` -/
def maxPlain : Nat := (2 ^ 32 - 2) * blockSize

/--
```go
func (g *sm4GcmAsm) Seal(dst, nonce, plaintext, additionalData []byte) []byte {
	if len(nonce) != g.nonceSize { panic(...) }
	if uint64(len(plaintext)) > ((1<<32)-2)*BlockSize { panic(...) }
	var temp [2*BlockSize] byte
	ret := ensureCapacity(dst, len(plaintext)+g.tagSize)
	sealAsm(&g.roundKeys[0], g.tagSize, &ret[len(dst)], nonce, plaintext, additionalData, &temp[0])
	return ret
}
```
-/
def «seal» (g : GcmAsm) (h : Heap) (dst nonce plaintext additionalData : Slice) :
    Outcome (Heap × Slice) :=
  if nonce.len ≠ g.nonceSize then .panic else
  if plaintext.len > maxPlain then .panic else do
  let (h1, ret) ← ensureCapacity h dst (plaintext.len + g.tagSize)
  let p ← addrOf ret dst.len
  let h2 ← sealAsm g h1 p nonce plaintext additionalData
  .ok (h2, ret)

/--
`Open`; `.ok (h, some ret)` is `(ret, nil)`, `.ok (h, none)` is `(nil, errOpen)`.
```go
	if len(nonce) != g.nonceSize { panic(...) }
	if g.tagSize < gcmMinimumTagSize { panic(...) }
	if len(ciphertext) < g.tagSize { return nil, errOpen }
	if uint64(len(ciphertext)) > ((1<<32)-2)*BlockSize+uint64(g.tagSize) { return nil, errOpen }
	var temp [2*BlockSize] byte
	ret := ensureCapacity(dst, len(ciphertext)-g.tagSize)
	var tagMatch int
	if len(ret) > len(dst) {
		tagMatch = openAsm(&g.roundKeys[0], g.tagSize,&ret[len(dst)], nonce, ciphertext, additionalData, &temp[0])
	}else{
		tagMatch = openAsm(&g.roundKeys[0], g.tagSize,nil, nonce, ciphertext, additionalData, &temp[0])
	}
	if tagMatch!=0x1 { return nil, errOpen }
	return ret, nil
```
-/
def «open» (g : GcmAsm) (h : Heap) (dst nonce ciphertext additionalData : Slice) :
    Outcome (Heap × Option Slice) :=
  if nonce.len ≠ g.nonceSize then .panic else
  if g.tagSize < gcmMinimumTagSize then .panic else
  if ciphertext.len < g.tagSize then .ok (h, none) else
  if ciphertext.len > maxPlain + g.tagSize then .ok (h, none) else do
  let (h1, ret) ← ensureCapacity h dst (ciphertext.len - g.tagSize)
  let (h2, tagMatch) ←
    if ret.len > dst.len then do
      let p ← addrOf ret dst.len
      openAsm g h1 p nonce ciphertext additionalData
    else
      openAsm g h1 none nonce ciphertext additionalData
  if tagMatch ≠ 1 then .ok (h2, none) else .ok (h2, some ret)

/--
```go
func (sm3 *SM3) Sum(in []byte) []byte {
	ret := *sm3
	var hash [Size]byte
	ret.checkSum(hash[:])
	return append(in, hash[:]...)
}
```
The receiver is copied by value; the result triple is (receiver afterwards, heap, returned slice).
-/
def sm3Sum (tt : List W32) (s : SM3.St) (h : Heap) (inp : Slice) : SM3.St × Heap × Slice :=
  let ret := s
  let hash := (SM3.checkSum tt ret).1
  let (h', out) := append h inp hash
  (s, h', out)

/-! ### the view the driver and the harness print -/

/-- is byte `i` of array `a` inside the `n` bytes the call appended to `ret[:dstLen]`? -/
def inRegion (ret : Slice) (dstLen n a i : Nat) : Bool :=
  ret.arr == some a && decide (ret.off + dstLen ≤ i) && decide (i < ret.off + dstLen + n)

/-- every byte of every array of the old heap that lies outside the region is unchanged, and no
    array changed its length -/
def unchangedOutside (h h' : Heap) (region : Nat → Nat → Bool) : Bool :=
  (List.range h.length).all fun a =>
    (arrayOf h' a).length == (arrayOf h a).length &&
    (List.range (arrayOf h a).length).all fun i => region a i || byteAt h' a i == byteAt h a i

end SMGo.Model.GCMGlue
