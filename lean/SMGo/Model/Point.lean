/-
  Model of /repo/sm2/internal/sm2_point.go over a `FieldOps`: projective points, the complete
  addition/doubling formulas (evaluated from the straight-line programs regenerated from the source),
  negation, SEC1 encoding/decoding, affine conversion (safe: Fermat inverse; unsafe: big.Int.ModInverse,
  modelled by its documented result), Select / MultiSelectXY / MultiSelectXYZ, TransformPrecomputed.
-/
import SMGo.Model.Field
import SMGo.Model.SLP
namespace SMGo.Model.Point
open SMGo SMGo.Model.Field

variable {α : Type}

structure Pt (α : Type) where
  x : α
  y : α
  z : α
deriving DecidableEq, Repr

/-- everything the point layer needs besides the field: the curve coefficient b (Montgomery form)
    and the two regenerated programs -/
structure Ctx (α : Type) where
  F : FieldOps α
  b : α
  addProg : List SLP.Instr
  addOut : String × String × String
  dblProg : List SLP.Instr
  dblOut : String × String × String

def slpOps (F : FieldOps α) : SLP.Ops α :=
  { mul := F.mul, add := F.add, sub := F.sub, square := F.square, zero := F.zero }

/-- `NewSM2Point()`: (0 : 1 : 0) -/
def infinity (C : Ctx α) : Pt α := { x := C.F.zero, y := C.F.setOne, z := C.F.zero }

/-- `NewFromXY`: SetRaw on both coordinates, z = 1 -/
def fromXY (C : Ctx α) (x y : List Nat) : Pt α := { x := C.F.ofRaw x, y := C.F.ofRaw y, z := C.F.setOne }

/-- `(*SM2Point).Add(p1, p2)` (the receiver is assigned last, so aliasing is harmless) -/
def add (C : Ctx α) (p1 p2 : Pt α) : Pt α :=
  let env : SLP.Env α := [("p1.x", p1.x), ("p1.y", p1.y), ("p1.z", p1.z),
                          ("p2.x", p2.x), ("p2.y", p2.y), ("p2.z", p2.z), ("sm2B", C.b)]
  let env := SLP.eval (slpOps C.F) C.addProg env
  { x := env.get C.F.zero C.addOut.1, y := env.get C.F.zero C.addOut.2.1, z := env.get C.F.zero C.addOut.2.2 }

/-- `(*SM2Point).Double(p)` -/
def double (C : Ctx α) (p : Pt α) : Pt α :=
  let env : SLP.Env α := [("p.x", p.x), ("p.y", p.y), ("p.z", p.z), ("sm2B", C.b)]
  let env := SLP.eval (slpOps C.F) C.dblProg env
  { x := env.get C.F.zero C.dblOut.1, y := env.get C.F.zero C.dblOut.2.1, z := env.get C.F.zero C.dblOut.2.2 }

def negate (C : Ctx α) (p : Pt α) : Pt α := { x := p.x, y := C.F.opp p.y, z := p.z }

/-- `Sm2CheckOnCurve(x, y)`: y² = x³ - 3x + b, compared through the encodings -/
def checkOnCurve (C : Ctx α) (x y : α) : Bool :=
  let F := C.F
  let x3 := F.mul (F.square x) x
  let threeX := F.add (F.add x x) x
  let x3 := F.add (F.sub x3 threeX) C.b
  let y2 := F.square y
  equal F x3 y2 = 1

/-- `(*SM2Point).SetBytes(b)`: returns the new point, or an error -/
def setBytes (C : Ctx α) (b : Bytes) : Outcome (Pt α) :=
  if b.length = 1 ∧ b.head? = some 0 then .ok (infinity C)
  else if b.length = 65 ∧ b.head? = some 4 then do
    let x ← Field.setBytes C.F ((b.drop 1).take 32)
    let y ← Field.setBytes C.F (b.drop 33)
    if checkOnCurve C x y then .ok { x := x, y := y, z := C.F.setOne } else .err
  else .err

/-- left-pad to 32 bytes (the unsafe path works on big.Int.Bytes()) -/
def pad32 (b : Bytes) : Bytes := List.replicate (32 - b.length) 0 ++ b

/-- `(*SM2Point).bytes(out, safe)`; `ModInverse(z, p)` is modelled by Spec.SM2.invMod -/
def bytes (C : Ctx α) (p : Pt α) (safe : Bool) : Bytes :=
  let F := C.F
  if isZero F p.z = 1 then [0]
  else if safe then
    let zinv := invert F p.z
    [4] ++ Field.bytes F (F.mul p.x zinv) ++ Field.bytes F (F.mul p.y zinv)
  else
    let xx := toNat F p.x
    let yy := toNat F p.y
    let zz := toNat F p.z
    let zzInv := Spec.SM2.invMod zz F.modulus
    [4] ++ pad32 (Bytes.ofNatMin (xx * zzInv % F.modulus)) ++ pad32 (Bytes.ofNatMin (yy * zzInv % F.modulus))

/-- `GetAffineX` (safe) and `GetAffineX_Unsafe` as big integers -/
def getAffineX (C : Ctx α) (p : Pt α) : Nat :=
  let F := C.F
  if isZero F p.z = 1 then 0 else toNat F (F.mul p.x (invert F p.z))

def getAffineXUnsafe (C : Ctx α) (p : Pt α) : Nat :=
  let F := C.F
  if isZero F p.z = 1 then 0
  else toNat F p.x * Spec.SM2.invMod (toNat F p.z) F.modulus % F.modulus

/-- a precomputed table as the code holds it: [0] = x limbs, [1] = y limbs, ([2] = z limbs) per entry -/
abbrev Table := List (List (List Nat))

/-- `multiSelectConditioned(precomputed, hasZ, width, bits)` on receiver q -/
def multiSelect (C : Ctx α) (q : Pt α) (pre : Table) (hasZ : Bool) (width : Nat) (bits : Nat) : Outcome (Pt α) :=
  let F := C.F
  if (pre.getD 0 []).length ≠ width then .panic else
  let fallbackMask := 1 - byteEq bits 0
  let x := F.ofRaw (multiSelectLimbs (pre.getD 0 []) width bits (F.raw q.x) fallbackMask)
  let y := F.ofRaw (multiSelectLimbs (pre.getD 1 []) width bits (F.raw q.y) fallbackMask)
  let z := if hasZ then F.ofRaw (multiSelectLimbs (pre.getD 2 []) width bits (F.raw q.z) fallbackMask)
           else Field.select F.setOne q.z fallbackMask
  .ok { x := x, y := y, z := z }

/-- `TransformPrecomputed(points, width)` -/
def transformPrecomputed (C : Ctx α) (pts : List (Pt α)) : Table :=
  [pts.map (fun p => C.F.raw p.x), pts.map (fun p => C.F.raw p.y), pts.map (fun p => C.F.raw p.z)]

end SMGo.Model.Point
