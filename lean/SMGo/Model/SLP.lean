/-
  Straight-line programs over a field: the form in which the point formulas of sm2_point.go are
  regenerated.  Registers are named; evaluation is polymorphic in the field operations.
-/
namespace SMGo.Model.SLP

inductive OpK where
  | mul | add | sub | square
deriving DecidableEq, Repr

structure Instr where
  op : OpK
  dst : String
  a : String
  b : String
deriving DecidableEq, Repr

/-- environment: association list, most recent binding first -/
abbrev Env (α : Type) := List (String × α)

def Env.get {α : Type} (zero : α) (env : Env α) (r : String) : α :=
  match env.find? (fun kv => kv.1 == r) with
  | some kv => kv.2
  | none => zero

structure Ops (α : Type) where
  mul : α → α → α
  add : α → α → α
  sub : α → α → α
  /-- `Square`: a separate operation, as in the Go code (the generated `sm2Square` is not `sm2Mul x x`) -/
  square : α → α
  zero : α

def step {α : Type} (ops : Ops α) (env : Env α) (i : Instr) : Env α :=
  let x := env.get ops.zero i.a
  let y := env.get ops.zero i.b
  let v := match i.op with
    | .mul => ops.mul x y
    | .add => ops.add x y
    | .sub => ops.sub x y
    | .square => ops.square x
  (i.dst, v) :: env

def eval {α : Type} (ops : Ops α) (prog : List Instr) (env : Env α) : Env α :=
  prog.foldl (step ops) env

end SMGo.Model.SLP
