/-
  The external world of the extended IR program SMGo/Gen/CTIRProgProto.lean (sm2.VerifyHashed, sm2.ZA, …):
  `stdOracle` of SMGo/Model/CTIR.lean for the externals of the base program, plus
    * `sm3.Sum`      [bytes written to the hash so far] ↦ [Spec.SM3.hash of them]
    * `big.Int.Cmp`  [a, b] ↦ [-1 | 0 | 1]
  Executable (driver request `ctirproto.run`); core Lean only.  The refinement theorems (Props/C13IR) do not
  depend on this oracle: they hold for every oracle that answers these externals as stated there; this one is
  the witness that such an oracle exists, and the one the harness compares with the Go code.
-/
import SMGo.Model.CTIR
import SMGo.Gen.CTIRProgProto
import SMGo.Spec.SM3
namespace SMGo.Model.CTIRProto
open SMGo SMGo.Model.CTIR

def byteOf : Val → UInt8
  | .int b => UInt8.ofNat b.toNat
  | .arr _ => 0

def bytesOfArg (args : List Val) (i : Nat) : List UInt8 := (argBytes args i).map byteOf

def bytesVal (l : List UInt8) : Val := .arr (l.map (fun b => Val.int (Int.ofNat b.toNat)))

def cmpInt (a b : Int) : Int := if a < b then -1 else if a = b then 0 else 1

def protoOracle (tape : Nat → Nat → Nat) : Oracle := fun name args =>
  if name = Gen.CTIRProgProto.x_sm3_Sum then [bytesVal (Spec.SM3.hash (bytesOfArg args 0))]
  else if name = Gen.CTIRProgProto.x_big_Int_Cmp then [.int (cmpInt (argInt args 0) (argInt args 1))]
  else stdOracle Gen.CTIRProgProto.extKinds tape name args

end SMGo.Model.CTIRProto
