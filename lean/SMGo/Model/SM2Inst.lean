/-
  The SM2 models instantiated with everything regenerated from the source: curve parameters,
  addition chains, point formulas, base-point tables, zBytes, SM3 constants.
  Field arithmetic is `montOps` (Montgomery residues as naturals) — the meaning of the Fiat code;
  `SMGo/Model/SM2InstFiat.lean` provides the instance running the generated Fiat functions themselves.
-/
import SMGo.Model.SM2Proto
import SMGo.Gen.SM2Params
import SMGo.Gen.SM2Tables
import SMGo.Gen.SM3Const
import SMGo.Gen.AddChain
import SMGo.Gen.PointSLP
namespace SMGo.Model.SM2
open SMGo SMGo.Model.Field

def pParams : MontParams :=
  { m := Gen.SM2Params.param_P, rinv := Spec.SM2.invMod (2 ^ 256) Gen.SM2Params.param_P,
    chain := Gen.AddChain.fieldInverse, chainRegs := Gen.AddChain.fieldInverse_regs }

def nParams : MontParams :=
  { m := Gen.SM2Params.param_N, rinv := Spec.SM2.invMod (2 ^ 256) Gen.SM2Params.param_N,
    chain := Gen.AddChain.scalarInverse, chainRegs := Gen.AddChain.scalarInverse_regs }

def Fp : FieldOps Nat := montOps pParams
def Fn : FieldOps Nat := montOps nParams

def pointCtx : Point.Ctx Nat :=
  { F := Fp, b := Fp.toMontgomery Gen.SM2Params.param_B,
    addProg := Gen.PointSLP.add, addOut := Gen.PointSLP.add_out,
    dblProg := Gen.PointSLP.double, dblOut := Gen.PointSLP.double_out }

def ctx : Ctx Nat Nat :=
  { C := pointCtx, S := Fn,
    first := Gen.SM2Tables.sm2Precomputed_6_3_14, second := Gen.SM2Tables.sm2Precomputed_6_3_14_Remainder,
    n := Gen.SM2Params.param_N,
    zBytes := Bytes.ofNatBE Gen.SM2Params.zBytesLen Gen.SM2Params.zBytesVal,
    tt := Gen.SM3Const.tt.map (BitVec.ofNat 32) }

/-- the generator as the code builds it in `initPoints` -/
def generator : Point.Pt Nat :=
  { x := Fp.toMontgomery Gen.SM2Params.param_Gx, y := Fp.toMontgomery Gen.SM2Params.param_Gy, z := Fp.setOne }

end SMGo.Model.SM2
