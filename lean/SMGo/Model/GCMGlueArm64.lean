/-
  Hand-written executable model of /repo/sm4/sm4_gcm_arm64.go, statement by statement, over the
  slice heap of `SMGo.Model.Slice`: `Seal`, `Open`, `calculateFirstCounter`, `ensureCapacity`
  (the arm64 variant, which returns head AND tail), `gHashUpdate`, `gHashFinish`, `cryptoBlocks`,
  `fillCounter256/128/64/32/16`, `fillSingleBlock`, and `(*sm4CipherAsm).Encrypt` of sm4_asm.go.

  Unlike the amd64 path (one fused assembly routine behind `Seal`/`Open`, `Model/GCMGlue.lean`), the
  arm64 path is ordinary Go around small kernels.  The kernels are parameters (`Kernels`):
    `E`    one 16-byte block through SM4 with the receiver's round keys (`cryptoBlockAsm`; the
           n-block kernels `cryptoBlockAsmX2/4/8/16` apply it to n consecutive blocks),
    `xor`  the bytes `xor16/32/64/128/256` store, from the bytes of their two sources,
    `gh`   one step of `gHashBlocks`: (H, tag, one 16-byte block) ↦ new tag.
  `specKernels rk` instantiates them with SM4 (`Spec.SM4.cryptFast rk`), `Spec.GCM.xorBytes` and the
  specification's `(tag ⊕ block) • H` (`specGh`).

  Memory:
  * Every Go local array (`var H, TMask, J0, tag [16]byte`, `var counter, tmp [n]byte`, the `tmp`
    of `gHashUpdate`/`gHashFinish`) is a FRESH array of the heap (`localArray`), sliced `x[:]`.
    So the heap grows by the locals of a call; they are unreachable from the caller's slices.
  * A kernel call `f(&dst[0], &src[0], …)` forms its pointers with Go's bounds check (`addrOf s 0`:
    panic on an empty slice), LOADS all its sources (`readPtr`), then STORES its result
    (`writePtr`).  Loads and stores that leave the backing array answer `panic` (a memory fault or
    silent corruption in the real program), so `… = .ok …` says that every access stayed inside.
    "Loads before the store" is what the kernels do for operands that are equal or disjoint
    (`xorN(&out[0], &tmp[0], &in[0])` with `out` = `in`: each piece of `in` is loaded before the
    same piece of `out` is stored); partially overlapping operands are outside the AEAD contract
    and outside this model (hypothesis `Admissible` of the theorems).
  * `out = out[k:]`, `in = in[k:]`, `tag[:g.tagSize]`, `in[l-r:]`, `src[12:]`, … are `reslice` with
    Go's run-time check; `out[i] = …`, `counter[15] = 1`, `tmp[i]`, `in[i]` are checked index
    operations; `copy` is Go's `copy` (memmove, `min` of the lengths).
  * Integer types: `len` is a non-negative `int`; `blockCount`, `count`, `c` are `uint32` (wrap
    modulo 2^32); `aadLen<<3`, `plainLen<<3` are `uint64` (wrap modulo 2^64).  `l & 0x0f`, `l >> 4`,
    `blocks & 8` are written with Lean's `&&&`, `>>>` on `Nat`.

  `sealWith`/`openWith` take the `ensureCapacity` routine as an argument so that the pre-repair
  variant (`ensureCapacityA64Old`: `head = array`, finding F2) can be run through the same code.

  Core Lean only: linked into `smgo_model` (requests `gcm.sealglue.a64`, `gcm.openglue.a64`).
-/
import SMGo.Spec.Bytes
import SMGo.Spec.SM4Fast
import SMGo.Spec.GCM
import SMGo.Model.Outcome
import SMGo.Model.Slice
import SMGo.Model.GCMAlgo
import SMGo.Model.GCMGlue
namespace SMGo.Model.GCMGlueA64
open SMGo SMGo.Model.Mem
open SMGo.Spec.GCM (blockToNat natToBlock xorBytes mulGF)

/-! ### the kernels -/

/-- the assembly kernels, as functions of the bytes they load -/
structure Kernels where
  /-- `cryptoBlockAsm`: one block through SM4 with the receiver's round keys -/
  E : Bytes → Bytes
  /-- `xorN(dst, src1, src2)`: the `N` bytes stored at `dst` -/
  xor : Bytes → Bytes → Bytes
  /-- `gHashBlocks(H, tag, data, 1)`: the new tag -/
  gh : Bytes → Bytes → Bytes → Bytes

/-- SP 800-38D, Algorithm 2, one step: `(tag ⊕ block) • H` on big-endian blocks -/
def specGh (H tag blk : Bytes) : Bytes :=
  natToBlock (mulGF (blockToNat tag ^^^ blockToNat blk) (blockToNat H))

/-- the kernels as the specification defines them, for the round keys `rk` -/
def specKernels (rk : List W32) : Kernels :=
  { E := Spec.SM4.cryptFast rk, xor := xorBytes, gh := specGh }

/-- `sm4GcmAsm`: the receiver of Seal/Open (`cipher` and `roundKeys` are inside `k.E`) -/
structure GcmA64 where
  nonceSize : Nat
  tagSize : Nat
  k : Kernels

/-- what `NewCipher(key)` followed by `NewGCM(nonceSize, tagSize)` builds -/
def newGCM (key : Bytes) (nonceSize tagSize : Nat) : GcmA64 :=
  { nonceSize := nonceSize, tagSize := tagSize, k := specKernels (Spec.SM4.keySchedule key) }

/-! ### Go statements on the heap -/

/-- `var x [n]byte` … `x[:]`: a fresh zeroed array and the slice of all of it -/
def localArray (h : Heap) (n : Nat) : Heap × Slice := make h n

/-- a kernel loads `n` bytes through `&s[0]` -/
def load (h : Heap) (s : Slice) (n : Nat) : Outcome Bytes := do
  let p ← addrOf s 0
  readPtr h p n

/-- a kernel stores `bs` through `&s[0]` -/
def store (h : Heap) (s : Slice) (bs : Bytes) : Outcome Heap := do
  let p ← addrOf s 0
  writePtr h p bs

/-- `s[a:]` -/
def sliceFrom (s : Slice) (a : Nat) : Outcome Slice := reslice s a s.len

/-- `s[:b]` -/
def sliceTo (s : Slice) (b : Nat) : Outcome Slice := reslice s 0 b

/-- `s[i] = v` -/
def setIndex (h : Heap) (s : Slice) (i : Nat) (v : UInt8) : Outcome Heap :=
  if i < s.len then
    match s.arr with
    | some a => writeAt h a (s.off + i) [v]
    | none => .panic
  else .panic

/-- `binary.BigEndian.Uint32(b)`: `_ = b[3]`, then four loads -/
def uint32BE (h : Heap) (b : Slice) : Outcome Nat :=
  if 3 < b.len then .ok (Bytes.toNatBE ((read h b).take 4)) else .panic

/-- `binary.BigEndian.PutUint32(b, v)`: `_ = b[3]`, then four stores -/
def putUint32BE (h : Heap) (b : Slice) (v : Nat) : Outcome Heap :=
  if 3 < b.len then store h b (Bytes.ofNatBE 4 v) else .panic

/-- `binary.BigEndian.PutUint64(b, v)`: `_ = b[7]`, then eight stores -/
def putUint64BE (h : Heap) (b : Slice) (v : Nat) : Outcome Heap :=
  if 7 < b.len then store h b (Bytes.ofNatBE 8 v) else .panic

/-! ### kernel calls -/

/-- `n` consecutive blocks through `E` -/
def blocksE (E : Bytes → Bytes) : Nat → Bytes → Bytes
  | 0, _ => []
  | n + 1, bs => E (bs.take 16) ++ blocksE E n (bs.drop 16)

/-- `cryptoBlockAsm` (n = 1), `cryptoBlockAsmX2/X4/X8/X16(&roundKeys[0], &dst[0], &src[0])`
    (`&roundKeys[0]`: the round-key slice has 32 words, no panic) -/
def cryptoBlockN (k : Kernels) (n : Nat) (h : Heap) (dst src : Slice) : Outcome Heap := do
  let s ← load h src (16 * n)
  store h dst (blocksE k.E n s)

/-- `xor16/32/64/128/256(&dst[0], &src1[0], &src2[0])` -/
def xorN (k : Kernels) (N : Nat) (h : Heap) (dst src1 src2 : Slice) : Outcome Heap := do
  let a ← load h src1 N
  let b ← load h src2 N
  store h dst (k.xor a b)

/-- the tag after `count` blocks of `data` -/
def ghBlocks (gh : Bytes → Bytes → Bytes → Bytes) (H : Bytes) : Nat → Bytes → Bytes → Bytes
  | 0, t, _ => t
  | n + 1, t, d => ghBlocks gh H n (gh H t (d.take 16)) (d.drop 16)

/-- `gHashBlocks(&H[0], &tag[0], &data[0], count)` -/
def gHashBlocks (k : Kernels) (h : Heap) (H tag data : Slice) (count : Nat) : Outcome Heap := do
  let hb ← load h H 16
  let t ← load h tag 16
  let d ← load h data (16 * count)
  store h tag (ghBlocks k.gh hb count t d)

/--
`(*sm4CipherAsm).Encrypt` (sm4_asm.go):
```go
	if len(src) < BlockSize { panic("crypto/sm4: input not full block") }
	if len(dst) < BlockSize { panic("crypto/sm4: output not full block") }
	cryptoBlockAsm(&sm4.enc[0], &dst[0], &src[0])
```
-/
def cipherEncrypt (k : Kernels) (h : Heap) (dst src : Slice) : Outcome Heap :=
  if src.len < 16 then .panic else
  if dst.len < 16 then .panic else
  cryptoBlockN k 1 h dst src

/-! ### ensureCapacity -/

/--
```go
func ensureCapacity(array []byte, asked int) (head, tail []byte) {
	remaining := cap(array) - len(array)
	if remaining >= asked {
		head = array[:len(array)+asked]
	} else {
		head = make([]byte, len(array)+asked)
		copy(head, array)
	}
	tail = head[len(array):]
	return
}
```
-/
def ensureCapacityA64 (h : Heap) (array : Slice) (asked : Nat) : Outcome (Heap × Slice × Slice) := do
  let remaining := array.cap - array.len
  let (h, head) ←
    if remaining ≥ asked then do
      let head ← sliceTo array (array.len + asked)
      pure (h, head)
    else
      let (h, head) := make h (array.len + asked)
      let (h, _) := copy h head array
      pure (h, head)
  let tail ← sliceFrom head array.len
  .ok (h, head, tail)

/-- the routine before the repair of finding F2: `head = array` when there is room -/
def ensureCapacityA64Old (h : Heap) (array : Slice) (asked : Nat) : Outcome (Heap × Slice × Slice) := do
  let remaining := array.cap - array.len
  let (h, head) ←
    if remaining ≥ asked then
      pure (h, array)
    else
      let (h, head) := make h (array.len + asked)
      let (h, _) := copy h head array
      pure (h, head)
  let tail ← sliceFrom head array.len
  .ok (h, head, tail)

/-! ### GHASH -/

/--
```go
func (g *sm4GcmAsm) gHashUpdate(H, tag, in []byte) {
	l := len(in)
	if l >= BlockSize {
		gHashBlocks(&H[0], &tag[0], &in[0], l>>4)
	}
	r := l & 15
	if r != 0 {
		var tmp [BlockSize]byte
		copy(tmp[:], in[l-r:]) // zero padding from right
		gHashBlocks(&H[0], &tag[0], &tmp[0], 1)
	}
}
```
-/
def gHashUpdate (k : Kernels) (h : Heap) (H tag inp : Slice) : Outcome Heap := do
  let l := inp.len
  let h ← if l ≥ 16 then gHashBlocks k h H tag inp (l >>> 4) else .ok h
  let r := l &&& 15
  if r ≠ 0 then do
    let (h, tmp) := localArray h 16
    let src ← sliceFrom inp (l - r)
    let (h, _) := copy h tmp src
    gHashBlocks k h H tag tmp 1
  else .ok h

/--
```go
func (g *sm4GcmAsm) gHashFinish(H, tag []byte, aadLen, plainLen uint64) { // length in bytes
	var tmp [BlockSize]byte
	binary.BigEndian.PutUint64(tmp[:8], aadLen<<3)
	binary.BigEndian.PutUint64(tmp[8:], plainLen<<3)
	gHashBlocks(&H[0], &tag[0], &tmp[0], 1) // length in bits
}
```
-/
def gHashFinish (k : Kernels) (h : Heap) (H tag : Slice) (aadLen plainLen : Nat) : Outcome Heap := do
  let (h, tmp) := localArray h 16
  let lo ← sliceTo tmp 8
  let h ← putUint64BE h lo ((aadLen <<< 3) % 2 ^ 64)
  let hi ← sliceFrom tmp 8
  let h ← putUint64BE h hi ((plainLen <<< 3) % 2 ^ 64)
  gHashBlocks k h H tag tmp 1

/--
```go
func (g *sm4GcmAsm) calculateFirstCounter(nonce []byte, counter []byte, H []byte) {
	if len(nonce) == gcmStandardNonceSize {
		copy(counter[:], nonce)
		counter[BlockSize-1] = 1
	} else {
		g.gHashUpdate(H[:], counter[:], nonce)
		g.gHashFinish(H[:], counter[:], uint64(0), uint64(len(nonce)))
	}
}
```
(`x[:]` of a slice is the slice itself.)
-/
def calculateFirstCounter (k : Kernels) (h : Heap) (nonce counter H : Slice) : Outcome Heap :=
  if nonce.len = 12 then do
    let (h, _) := copy h counter nonce
    setIndex h counter 15 1
  else do
    let h ← gHashUpdate k h H counter nonce
    gHashFinish k h H counter 0 nonce.len

/-! ### counters -/

/--
```go
func fillSingleBlock(dst, src []byte, count uint32) {
	copy(dst, src[:12])
	binary.BigEndian.PutUint32(dst[12:], count)
}
```
-/
def fillSingleBlock (h : Heap) (dst src : Slice) (count : Nat) : Outcome Heap := do
  let s12 ← sliceTo src 12
  let (h, _) := copy h dst s12
  let d12 ← sliceFrom dst 12
  putUint32BE h d12 count

/-- `fillSingleBlock(dst[16*i:], src, c+i)` for `i = first, …, first + n - 1` (`c+i` in uint32) -/
def fillLanes (src : Slice) (c : Nat) : Nat → Nat → Heap → Slice → Outcome Heap
  | 0, _, h, _ => .ok h
  | n + 1, i, h, dst => do
    let d ← sliceFrom dst (16 * i)
    let h ← fillSingleBlock h d src ((c + i) % 2 ^ 32)
    fillLanes src c n (i + 1) h dst

/--
`fillCounter256/128/64/32/16` (n = 16, 8, 4, 2, 1 lanes):
```go
	c := binary.BigEndian.Uint32(src[12:]) + count + 1
	fillSingleBlock(dst, src, c)
	fillSingleBlock(dst[16:], src, c+1)
	…
	fillSingleBlock(dst[16*(n-1):], src, c+n-1)
```
(`dst` is `dst[0:]`.)
-/
def fillCounter (n : Nat) (h : Heap) (dst src : Slice) (count : Nat) : Outcome Heap := do
  let s12 ← sliceFrom src 12
  let w ← uint32BE h s12
  let c := (w + count + 1) % 2 ^ 32
  fillLanes src c n 0 h dst

/-! ### cryptoBlocks -/

/--
One length class of `cryptoBlocks` (n = 16, 8, 4, 2, 1 blocks):
```go
		var counter, tmp [16*n]byte
		fillCounterN(counter[:], preCounter, blockCount)
		//out may overlap or reuse plaintext so use tmp here
		cryptoBlockAsmXn(&roundKeys[0], &tmp[0], &counter[0])
		xorN(&out[0], &tmp[0], &in[0])
		out = out[16*n:]
		in = in[16*n:]
```
-/
def classStep (k : Kernels) (n : Nat) (h : Heap) (out inp preCounter : Slice) (blockCount : Nat) :
    Outcome (Heap × Slice × Slice) := do
  let (h, counter) := localArray h (16 * n)
  let (h, tmp) := localArray h (16 * n)
  let h ← fillCounter n h counter preCounter blockCount
  let h ← cryptoBlockN k n h tmp counter
  let h ← xorN k (16 * n) h out tmp inp
  let out ← sliceFrom out (16 * n)
  let inp ← sliceFrom inp (16 * n)
  .ok (h, out, inp)

/-- the variables of `cryptoBlocks` that change: the heap, `out`, `in`, `blockCount`, `blocks` -/
structure CB where
  h : Heap
  out : Slice
  inp : Slice
  blockCount : Nat
  blocks : Nat

/--
```go
	for i := 0; i < blocks256; i++ {
		… class 16 …
		blockCount += 16
	}
```
-/
def loop256 (k : Kernels) (preCounter : Slice) : Nat → CB → Outcome CB
  | 0, s => .ok s
  | i + 1, s => do
    let (h, out, inp) ← classStep k 16 s.h s.out s.inp preCounter s.blockCount
    loop256 k preCounter i
      { s with h := h, out := out, inp := inp, blockCount := (s.blockCount + 16) % 2 ^ 32 }

/--
```go
	if blocks&n != 0 {
		… class n …
		blockCount += n
		blocks -= n
	}
```
-/
def stage (k : Kernels) (n : Nat) (preCounter : Slice) (s : CB) : Outcome CB :=
  if s.blocks &&& n ≠ 0 then do
    let (h, out, inp) ← classStep k n s.h s.out s.inp preCounter s.blockCount
    .ok { h := h, out := out, inp := inp, blockCount := (s.blockCount + n) % 2 ^ 32,
          blocks := s.blocks - n }
  else .ok s

/--
```go
		for i := 0; i < remainder; i++ {
			out[i] = tmp[i] ^ in[i]
		}
```
-/
def byteLoop (tmp out inp : Slice) : Nat → Nat → Heap → Outcome Heap
  | 0, _, h => .ok h
  | r + 1, i, h => do
    let t ← index h tmp i
    let x ← index h inp i
    let h ← setIndex h out i (t ^^^ x)
    byteLoop tmp out inp r (i + 1) h

/--
```go
func (g *sm4GcmAsm) cryptoBlocks(roundKeys []uint32, out, in, preCounter []byte) {
	l := len(in)
	remainder := l & 0x0f // if plaintext length is not of multiples of 16 bytes
	blocks := l >> 4

	blocks256 := blocks >> 4
	var blockCount uint32 = 0
	for i := 0; i < blocks256; i++ { … class 16 … ; blockCount += 16 }
	blocks -= int(blockCount)

	if blocks&8 != 0 { … class 8 … ; blockCount += 8; blocks -= 8 }
	if blocks&4 != 0 { … class 4 … ; blockCount += 4; blocks -= 4 }
	if blocks&2 != 0 { … class 2 … ; blockCount += 2; blocks -= 2 }
	if blocks&1 != 0 { … class 1 … ; blockCount += 1; blocks -= 1 }

	if remainder > 0 {
		var counter, tmp [16]byte
		fillCounter16(counter[:], preCounter, blockCount)
		cryptoBlockAsm(&roundKeys[0], &tmp[0], &counter[0])
		for i := 0; i < remainder; i++ {
			out[i] = tmp[i] ^ in[i]
		}
	}
}
```
-/
def cryptoBlocks (k : Kernels) (h : Heap) (out inp preCounter : Slice) : Outcome Heap := do
  let l := inp.len
  let remainder := l &&& 0x0f
  let blocks := l >>> 4
  let blocks256 := blocks >>> 4
  let s ← loop256 k preCounter blocks256
    { h := h, out := out, inp := inp, blockCount := 0, blocks := blocks }
  let s := { s with blocks := s.blocks - s.blockCount }
  let s ← stage k 8 preCounter s
  let s ← stage k 4 preCounter s
  let s ← stage k 2 preCounter s
  let s ← stage k 1 preCounter s
  if remainder > 0 then do
    let (h, counter) := localArray s.h 16
    let (h, tmp) := localArray h 16
    let h ← fillCounter 1 h counter preCounter s.blockCount
    let h ← cryptoBlockN k 1 h tmp counter
    byteLoop tmp s.out s.inp remainder 0 h
  else .ok s.h

/-! ### Seal and Open -/

/-- `((1<<32)-2)*BlockSize` -/
abbrev maxPlain : Nat := GCMGlue.maxPlain

abbrev gcmMinimumTagSize : Nat := GCMGlue.gcmMinimumTagSize

/-- the type of `ensureCapacity` -/
abbrev EnsureCap := Heap → Slice → Nat → Outcome (Heap × Slice × Slice)

/--
```go
func (g *sm4GcmAsm) Seal(dst, nonce, plaintext, additionalData []byte) []byte {
	if len(nonce) != g.nonceSize { panic("crypto/cipher: incorrect nonce length given to GCM") }
	if uint64(len(plaintext)) > ((1<<32)-2)*BlockSize { panic("crypto/cipher: message too large for GCM") }

	var H, TMask, J0, tag [BlockSize]byte
	g.cipher.Encrypt(H[:], H[:])
	g.calculateFirstCounter(nonce, J0[:], H[:])
	g.cipher.Encrypt(TMask[:], J0[:])

	ret, out := ensureCapacity(dst, len(plaintext)+g.tagSize)
	g.cryptoBlocks(g.roundKeys, out, plaintext, J0[:])
	g.gHashUpdate(H[:], tag[:], additionalData)
	g.gHashUpdate(H[:], tag[:], out[:len(plaintext)])
	g.gHashFinish(H[:], tag[:], uint64(len(additionalData)), uint64(len(plaintext)))
	xor16(&tag[0], &tag[0], &TMask[0])
	copy(out[len(plaintext):], tag[:g.tagSize])

	return ret
}
```
-/
def sealWith (ec : EnsureCap) (g : GcmA64) (h : Heap) (dst nonce plaintext additionalData : Slice) :
    Outcome (Heap × Slice) :=
  if nonce.len ≠ g.nonceSize then .panic else
  if plaintext.len > maxPlain then .panic else do
  let (h, H) := localArray h 16
  let (h, TMask) := localArray h 16
  let (h, J0) := localArray h 16
  let (h, tag) := localArray h 16
  let h ← cipherEncrypt g.k h H H
  let h ← calculateFirstCounter g.k h nonce J0 H
  let h ← cipherEncrypt g.k h TMask J0
  let (h, ret, out) ← ec h dst (plaintext.len + g.tagSize)
  let h ← cryptoBlocks g.k h out plaintext J0
  let h ← gHashUpdate g.k h H tag additionalData
  let outp ← sliceTo out plaintext.len
  let h ← gHashUpdate g.k h H tag outp
  let h ← gHashFinish g.k h H tag additionalData.len plaintext.len
  let h ← xorN g.k 16 h tag tag TMask
  let outt ← sliceFrom out plaintext.len
  let tagt ← sliceTo tag g.tagSize
  let (h, _) := copy h outt tagt
  .ok (h, ret)

def sealA64 : GcmA64 → Heap → Slice → Slice → Slice → Slice → Outcome (Heap × Slice) :=
  sealWith ensureCapacityA64

/-- `subtle.ConstantTimeCompare(x, y)`: 0 when the lengths differ, else 1 iff the OR of the
    byte-wise XORs is zero -/
def constantTimeCompare (x y : Bytes) : Nat := if GCM.ctEqual x y then 1 else 0

/--
`Open`; `.ok (h, some ret)` is `(ret, nil)`, `.ok (h, none)` is `(nil, errOpen)`.
```go
func (g *sm4GcmAsm) Open(dst, nonce, ciphertext, additionalData []byte) ([]byte, error) {
	if len(nonce) != g.nonceSize { panic("crypto/cipher: incorrect nonce length given to GCM") }
	if g.tagSize < gcmMinimumTagSize { panic("crypto/cipher: incorrect GCM tag size") }
	if len(ciphertext) < g.tagSize { return nil, errOpen }
	if uint64(len(ciphertext)) > ((1<<32)-2)*BlockSize+uint64(g.tagSize) { return nil, errOpen }

	tag := ciphertext[len(ciphertext)-g.tagSize:]
	ciphertext = ciphertext[:len(ciphertext)-g.tagSize]

	var H, J0, TMask [BlockSize]byte
	g.cipher.Encrypt(H[:], H[:])
	g.calculateFirstCounter(nonce, J0[:], H[:])
	g.cipher.Encrypt(TMask[:], J0[:])

	var expectedTag [BlockSize]byte
	g.gHashUpdate(H[:], expectedTag[:], additionalData)
	g.gHashUpdate(H[:], expectedTag[:], ciphertext)
	g.gHashFinish(H[:], expectedTag[:], uint64(len(additionalData)), uint64(len(ciphertext)))
	xor16(&expectedTag[0], &expectedTag[0], &TMask[0])

	if subtle.ConstantTimeCompare(expectedTag[:g.tagSize], tag) != 1 { return nil, errOpen }

	ret, out := ensureCapacity(dst, len(ciphertext))
	g.cryptoBlocks(g.roundKeys, out, ciphertext, J0[:])

	return ret, nil
}
```
-/
def openWith (ec : EnsureCap) (g : GcmA64) (h : Heap) (dst nonce ciphertext additionalData : Slice) :
    Outcome (Heap × Option Slice) :=
  if nonce.len ≠ g.nonceSize then .panic else
  if g.tagSize < gcmMinimumTagSize then .panic else
  if ciphertext.len < g.tagSize then .ok (h, none) else
  if ciphertext.len > maxPlain + g.tagSize then .ok (h, none) else do
  let tag ← sliceFrom ciphertext (ciphertext.len - g.tagSize)
  let ciphertext ← sliceTo ciphertext (ciphertext.len - g.tagSize)
  let (h, H) := localArray h 16
  let (h, J0) := localArray h 16
  let (h, TMask) := localArray h 16
  let h ← cipherEncrypt g.k h H H
  let h ← calculateFirstCounter g.k h nonce J0 H
  let h ← cipherEncrypt g.k h TMask J0
  let (h, expectedTag) := localArray h 16
  let h ← gHashUpdate g.k h H expectedTag additionalData
  let h ← gHashUpdate g.k h H expectedTag ciphertext
  let h ← gHashFinish g.k h H expectedTag additionalData.len ciphertext.len
  let h ← xorN g.k 16 h expectedTag expectedTag TMask
  let et ← sliceTo expectedTag g.tagSize
  if constantTimeCompare (read h et) (read h tag) ≠ 1 then .ok (h, none) else do
  let (h, ret, out) ← ec h dst ciphertext.len
  let h ← cryptoBlocks g.k h out ciphertext J0
  .ok (h, some ret)

def openA64 : GcmA64 → Heap → Slice → Slice → Slice → Slice → Outcome (Heap × Option Slice) :=
  openWith ensureCapacityA64

end SMGo.Model.GCMGlueA64
