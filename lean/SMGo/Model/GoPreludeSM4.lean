/-
  Go primitives used by the code regenerated from /repo/sm4/sm4.go (SMGo/Gen/SM4Code.lean, translator
  `gosm4`).  TRUSTED as the reading of the Go language / standard library:
    * `arrGet`: indexing a package-level array `[n]T` (given as the regenerated list plus the fact that it has `n`
      entries) at an index that is PROVED to be in range — there is no default value, no panic branch;
    * `maskL_lt32 …`: the proofs the translator supplies for indices of the form `0xff & e`;
    * `slice`: `b[lo:hi]` (the caller's `_pre` says `hi ≤ len b`); `spliceLo`: the effect on `x` of a callee writing `x[:k]`;
    * `Res`: normal return or `panic(msg)`;
    * `beUint32` / `putUint32`: `binary.BigEndian.Uint32` / `PutUint32` as written in encoding/binary:
        Uint32(b)    = uint32(b[3]) | uint32(b[2])<<8 | uint32(b[1])<<16 | uint32(b[0])<<24
        PutUint32(b, v): b[0] = byte(v>>24); b[1] = byte(v>>16); b[2] = byte(v>>8); b[3] = byte(v)
      `putUint32 y off v` is `PutUint32(y[off:off+4], v)` seen from `y`.
  Words are `BitVec 32/64` (W32/W64): `+ - * ^ | & << >>` on Go's unsigned types are BitVec's operations.
-/
import SMGo.Spec.Bytes
import SMGo.Model.Outcome
namespace SMGo.Model.GoSM4
open SMGo

/-- `a[i]` for a Go array of `n` entries, index proved in range -/
def arrGet (l : List Nat) {n : Nat} (hl : l.length = n) (i : Nat) (hi : i < n) : Nat :=
  l[i]'(hl ▸ hi)

theorem arrGet_eq_getD (l : List Nat) {n : Nat} (hl : l.length = n) (i : Nat) (hi : i < n) :
    arrGet l hl i hi = l.getD i 0 := by
  unfold arrGet
  rw [List.getD_eq_getElem?_getD, List.getElem?_eq_getElem (hl ▸ hi)]
  rfl

theorem toNat_maskL32 (e : W32) : (0xff#32 &&& e).toNat = e.toNat % 256 := by
  rw [BitVec.toNat_and, Nat.and_comm]
  exact Nat.and_two_pow_sub_one_eq_mod e.toNat 8

theorem toNat_maskR32 (e : W32) : (e &&& 0xff#32).toNat = e.toNat % 256 := by
  rw [BitVec.toNat_and]
  exact Nat.and_two_pow_sub_one_eq_mod e.toNat 8

theorem toNat_maskL64 (e : W64) : (0xff#64 &&& e).toNat = e.toNat % 256 := by
  rw [BitVec.toNat_and, Nat.and_comm]
  exact Nat.and_two_pow_sub_one_eq_mod e.toNat 8

theorem toNat_maskR64 (e : W64) : (e &&& 0xff#64).toNat = e.toNat % 256 := by
  rw [BitVec.toNat_and]
  exact Nat.and_two_pow_sub_one_eq_mod e.toNat 8

/-- `0xff & e` is a byte: in range for a 256-entry table -/
theorem maskL_lt32 (e : W32) : (0xff#32 &&& e).toNat < 256 := by
  rw [toNat_maskL32]; exact Nat.mod_lt _ (by decide)
theorem maskR_lt32 (e : W32) : (e &&& 0xff#32).toNat < 256 := by
  rw [toNat_maskR32]; exact Nat.mod_lt _ (by decide)
theorem maskL_lt64 (e : W64) : (0xff#64 &&& e).toNat < 256 := by
  rw [toNat_maskL64]; exact Nat.mod_lt _ (by decide)
theorem maskR_lt64 (e : W64) : (e &&& 0xff#64).toNat < 256 := by
  rw [toNat_maskR64]; exact Nat.mod_lt _ (by decide)

/-- `b[lo:hi]` -/
def slice {α : Type} (b : List α) (lo hi : Nat) : List α := (b.take hi).drop lo

/-- `uint32(c)` for a byte -/
def u32 (c : UInt8) : W32 := BitVec.ofNat 32 c.toNat

/-- `byte(v)` for a 32-bit word -/
def byteOf (v : W32) : UInt8 := UInt8.ofNat v.toNat

/-- `binary.BigEndian.Uint32(b)` -/
def beUint32 (b : Bytes) : W32 :=
  u32 (b.getD 3 0) ||| (u32 (b.getD 2 0) <<< 8) ||| (u32 (b.getD 1 0) <<< 16) ||| (u32 (b.getD 0 0) <<< 24)

/-- `binary.BigEndian.PutUint32(y[off:off+4], v)`, the new contents of `y` -/
def putUint32 (y : Bytes) (off : Nat) (v : W32) : Bytes :=
  (((y.set off (byteOf (v >>> 24))).set (off + 1) (byteOf (v >>> 16))).set (off + 2) (byteOf (v >>> 8))).set (off + 3) (byteOf v)

/-- result of a Go function that returns normally with a value or panics with a message
    (`panic("…")` in a guard at the top of the function) -/
inductive Res (α : Type) where
  | ok : α → Res α
  | panic : String → Res α

/-- `f(x[:k])` where `f` writes its argument: the callee's result `w` (the new contents of the `k`-element window)
    replaces the first `k` elements of `x` (requires `k ≤ len x`, see the caller's `_pre` / guards) -/
def spliceLo {α : Type} (x : List α) (k : Nat) (w : List α) : List α := w ++ x.drop k

end SMGo.Model.GoSM4
