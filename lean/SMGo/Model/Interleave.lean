/-
  Property C17 (concurrent use, PARTIAL) — definitions.

  1. THE ABSTRACT SHARED-MEMORY MACHINE.  Memory is a function `Mem Loc Val = Loc → Val`; a thread
     (`Thread`) is a type of local states and a deterministic step function
     `St → Mem → St × Mem`; a machine is a family `T : ι → Thread` of threads; a configuration
     (`Config`) is the local state of every thread plus the one shared memory; `stepThread c j`
     lets thread `j` make one step; a schedule is a list of thread ids and `run c sched` executes
     it from left to right; `runAlone t k` runs one thread for `k` steps on its own.
     `Footprint t R W` says what "thread `t` reads only `R` and writes only `W`" means:
       * `reads`: two memories that agree on `R ∪ W` give the same new local state and the same
         new values on `W` (the step's effect is a function of the values at `R ∪ W`; `W` is
         included because a step leaves most of `W` as it is, and "as it is" depends on what is
         there);
       * `writes`: the step leaves every location outside `W` unchanged.
     `Separated R W`: for `i ≠ j`, `W i` meets neither `R j` nor `W j`.
     A `Call` is a thread with an initial local state and a partial result function (`some r` once
     the call has returned); `Halts` says a returned call makes no further steps.
     There is no scheduler, no Go memory model and no hardware in this: steps are atomic and
     sequentially consistent.  See Props/C17.lean for what that leaves open.

  2. STRAIGHT-LINE LOAD/STORE PROGRAMS (`Instr`, `progThread`, `progCall`): the threads whose
     footprint can be read off syntactically — `load l` appends the value at `l` to the values
     loaded so far, `store l f` stores a function of the values loaded so far.  An access list
     `(base, offset, width, read|write)` (the shape of C11's access models) becomes such a program
     byte by byte (`accessInstrs`).

  3. THE SLICE HEAP.  A `HeapCall` is a whole call (Seal, Open, Block.Encrypt/Decrypt) as ONE atomic
     step on the heap of `SMGo.Model.Slice`, with its write window and the slices it reads;
     `runAll` executes a list of calls one after the other (the order of the list is the order in
     which the calls happen) and returns what every call returned, in the final heap.
     `blockCrypt` is the hand-written model of `(*sm4CipherAsm).Encrypt/Decrypt` of
     /repo/sm4/sm4_asm.go; `openXor` is `Open` as it was BEFORE repair 25081bb (the tag comparison
     XORs the expected tag into the caller's ciphertext), for the regression example.

  4. PACKAGE-LEVEL STATE.  `readOnlyMethods`: the explicit list of methods that may be called on
     a package-level variable outside initialisation (checked against the generated
     `SMGo.Gen.GoFacts.packageLevelMethodCalls` in Props/C17.lean).

  Core Lean only.
-/
import SMGo.Spec.Bytes
import SMGo.Model.Outcome
import SMGo.Model.Slice
import SMGo.Model.GCMGlue
namespace SMGo.Model.Interleave
open SMGo

/-! ## 1. the abstract machine -/

/-- the shared memory -/
abbrev Mem (Loc Val : Type) := Loc → Val

/-- a thread: local states and one deterministic step on (local state, shared memory) -/
structure Thread (Loc Val : Type) where
  St : Type
  step : St → Mem Loc Val → St × Mem Loc Val

/-- the local state of every thread, and the memory -/
structure Config {Loc Val ι : Type} (T : ι → Thread Loc Val) where
  loc : (i : ι) → (T i).St
  mem : Mem Loc Val

/-- `f` with the component `j` replaced by `v` -/
def setLoc {ι : Type} [DecidableEq ι] {St : ι → Type} (f : (i : ι) → St i) (j : ι) (v : St j) :
    (i : ι) → St i :=
  fun i => if h : j = i then h ▸ v else f i

section machine
variable {Loc Val ι : Type} [DecidableEq ι]

/-- thread `j` makes one step -/
def stepThread (T : ι → Thread Loc Val) (c : Config T) (j : ι) : Config T :=
  { loc := setLoc c.loc j ((T j).step (c.loc j) c.mem).1
    mem := ((T j).step (c.loc j) c.mem).2 }

/-- execute a schedule (a list of thread ids), left to right -/
def run (T : ι → Thread Loc Val) (c : Config T) (sched : List ι) : Config T :=
  sched.foldl (stepThread T) c

end machine

/-- `k` steps of one thread on its own -/
def runAlone {Loc Val : Type} (t : Thread Loc Val) : Nat → t.St × Mem Loc Val → t.St × Mem Loc Val
  | 0, c => c
  | k + 1, c => t.step (runAlone t k c).1 (runAlone t k c).2

/-- "`t` reads only `R`, writes only `W`" -/
structure Footprint {Loc Val : Type} (t : Thread Loc Val) (R W : Loc → Prop) : Prop where
  /-- the effect of a step depends only on the values at `R ∪ W` -/
  reads : ∀ (s : t.St) (m m' : Mem Loc Val), (∀ l, R l ∨ W l → m l = m' l) →
    (t.step s m).1 = (t.step s m').1 ∧ ∀ l, W l → (t.step s m).2 l = (t.step s m').2 l
  /-- memory outside `W` is unchanged by a step -/
  writes : ∀ (s : t.St) (m : Mem Loc Val) (l : Loc), ¬ W l → (t.step s m).2 l = m l

/-- no thread writes what another thread reads or writes -/
def Separated {Loc ι : Type} (R W : ι → Loc → Prop) : Prop :=
  ∀ i j, i ≠ j → ∀ l, W i l → ¬ (R j l ∨ W j l)

/-- a call: a thread, where it starts, and what it returns (`none`: still running) -/
structure Call (Loc Val : Type) extends Thread Loc Val where
  Res : Type
  init : St
  result : St → Option Res

/-- a call that has returned makes no further steps -/
def Call.Halts {Loc Val : Type} (c : Call Loc Val) : Prop :=
  ∀ s m r, c.result s = some r → c.step s m = (s, m)

/-- run alone from memory `m0`, the call returns `r` (after some number of steps) -/
def Call.ReturnsAlone {Loc Val : Type} (c : Call Loc Val) (m0 : Mem Loc Val) (r : c.Res) : Prop :=
  ∃ k, c.result (runAlone c.toThread k (c.init, m0)).1 = some r

/-- the initial configuration of a family of calls -/
def initConfig {Loc Val ι : Type} (C : ι → Call Loc Val) (m0 : Mem Loc Val) :
    Config (fun i => (C i).toThread) :=
  { loc := fun i => (C i).init, mem := m0 }

/-! ## 2. straight-line load/store programs -/

inductive Instr (Loc Val : Type) where
  /-- append the value at `l` to the values loaded so far -/
  | load (l : Loc)
  /-- store at `l` a function of the values loaded so far -/
  | store (l : Loc) (f : List Val → Val)

/-- the thread of a program: local state = (program counter, values loaded so far); past the end
    of the program it stands still -/
def progThread {Loc Val : Type} [DecidableEq Loc] (p : List (Instr Loc Val)) : Thread Loc Val :=
  { St := Nat × List Val
    step := fun s m =>
      match p[s.1]? with
      | none => (s, m)
      | some (.load l) => ((s.1 + 1, s.2 ++ [m l]), m)
      | some (.store l f) => ((s.1 + 1, s.2), fun x => if x = l then f s.2 else m x) }

/-- the locations a program loads from / stores to -/
def progReads {Loc Val : Type} (p : List (Instr Loc Val)) (l : Loc) : Prop := Instr.load l ∈ p
def progWrites {Loc Val : Type} (p : List (Instr Loc Val)) (l : Loc) : Prop :=
  ∃ f, Instr.store l f ∈ p

/-- a program as a call: it returns `out` of the values it loaded, after its last instruction -/
def progCall {Loc Val : Type} [DecidableEq Loc] (p : List (Instr Loc Val)) (Res : Type)
    (out : List Val → Res) : Call Loc Val :=
  { progThread p with
    Res := Res
    init := (0, [])
    result := fun s => if p.length ≤ s.1 then some (out s.2) else none }

/-- one access of an access list (the shape of `SMGo.Model.AsmAccess.Access` with the region
    already placed at an absolute base address) -/
structure PlacedAccess where
  base : Nat
  off : Nat
  width : Nat
  write : Bool
deriving DecidableEq, Repr

/-- the bytes of an access, one instruction per byte, ascending; what is stored is an arbitrary
    function `f addr` of the values loaded so far -/
def accessInstrs {Val : Type} (f : Nat → List Val → Val) (a : PlacedAccess) : List (Instr Nat Val) :=
  (List.range a.width).map fun k =>
    if a.write then Instr.store (a.base + a.off + k) (f (a.base + a.off + k))
    else Instr.load (a.base + a.off + k)

/-- the program of an access list -/
def accessProg {Val : Type} (f : Nat → List Val → Val) (accs : List PlacedAccess) :
    List (Instr Nat Val) :=
  accs.flatMap (accessInstrs f)

/-! ## 3. whole calls on the slice heap -/

open SMGo.Model.Mem SMGo.Model.GCMGlue

/-- a whole call as one atomic step on the heap.  `win`: the call writes (in the heap it starts
    from) only into the spare capacity `win[len(win):cap(win)]` — for Seal/Open `win` is `dst`, for a
    Block method it is `dst[:0:16]`.  `ins`: the slices whose bytes it reads.  The result
    `some r` is a slice the caller looks at afterwards (Seal/Open: the returned slice; a Block
    method: `dst[:16]`), `none` is "(nil, error)". -/
structure HeapCall where
  run : Heap → Outcome (Heap × Option Slice)
  win : Slice
  ins : List Slice

/-- what the caller sees of a result: the bytes the returned slice shows -/
def view (o : Outcome (Heap × Option Slice)) : Outcome (Option Bytes) :=
  match o with
  | .ok (h, r) => .ok (r.map (Mem.read h))
  | .err => .err
  | .panic => .panic

/-- the calls of the list, one after the other; the results are returned as slices -/
def runAll : Heap → List HeapCall → Outcome (Heap × List (Option Slice))
  | h, [] => .ok (h, [])
  | h, c :: cs =>
    match c.run h with
    | .ok (h1, r) =>
      match runAll h1 cs with
      | .ok (hf, rs) => .ok (hf, r :: rs)
      | .err => .err
      | .panic => .panic
    | .err => .err
    | .panic => .panic

/-- what every call returned, read in the final heap (after all calls have finished) -/
def viewAll (o : Outcome (Heap × List (Option Slice))) : Outcome (List (Option Bytes)) :=
  match o with
  | .ok (h, rs) => .ok (rs.map fun r => r.map (Mem.read h))
  | .err => .err
  | .panic => .panic

/-- `s[:cap(s)]` -/
def full (s : Slice) : Slice := { s with len := s.cap }

/-- `Seal` as a heap call -/
def sealCall (g : GcmAsm) (dst nonce pt aad : Slice) : HeapCall :=
  { run := fun h =>
      match GCMGlue.seal g h dst nonce pt aad with
      | .ok (h', ret) => .ok (h', some ret)
      | .err => .err
      | .panic => .panic
    win := dst
    ins := [dst, nonce, pt, aad] }

/-- `Open` as a heap call -/
def openCall (g : GcmAsm) (dst nonce ct aad : Slice) : HeapCall :=
  { run := fun h => GCMGlue.open g h dst nonce ct aad
    win := dst
    ins := [dst, nonce, ct, aad] }

/--
```go
func (sm4 *sm4CipherAsm) Encrypt(dst, src []byte) {
	if len(src) < BlockSize { panic("crypto/sm4: input not full block") }
	if len(dst) < BlockSize { panic("crypto/sm4: output not full block") }
	cryptoBlockAsm(&sm4.enc[0], &dst[0], &src[0])
}
```
(`Decrypt`: the same with `sm4.dec`.)  `f` is what cryptoBlockAsm computes with the receiver's round
keys — a function of the 16 source bytes (the round keys are a value: they are written once, by
`expandKeyAsm` inside `newCipher`, before the cipher object exists for anybody else).  The routine
loads the whole source block before it stores the destination block (C11's `blockModel`), so
read-then-write is faithful for every overlap of `dst` and `src`. -/
def blockCrypt (f : Bytes → Bytes) (h : Heap) (dst src : Slice) : Outcome Heap :=
  if src.len < blockSize then .panic else
  if dst.len < blockSize then .panic else do
  let d ← addrOf dst 0
  let s ← addrOf src 0
  let bs ← readPtr h s blockSize
  writePtr h d (f bs)

/-- `dst[:0:16]`: its spare capacity is the block the method writes -/
def blockWin (dst : Slice) : Slice := { dst with len := 0, cap := blockSize }

/-- a Block method as a heap call; the caller then looks at `dst[:16]` -/
def blockCall (f : Bytes → Bytes) (dst src : Slice) : HeapCall :=
  { run := fun h =>
      match blockCrypt f h dst src with
      | .ok h' => .ok (h', some { dst with len := blockSize })
      | .err => .err
      | .panic => .panic
    win := blockWin dst
    ins := [{ src with len := blockSize }] }

/-! ### `Open` before repair 25081bb (regression model)

  gcm_amd64.s had `constantTimeCompare(ETag, Cipher, TagSize, …)`: the macro XORs its first
  operand into the memory of its SECOND, so the expected tag was XORed into the tag bytes of the
  caller's ciphertext (and the OR of the result decided).  `expTag` is the expected tag as a
  function of nonce, ciphertext body and additional data. -/

def xorBytes (a b : Bytes) : Bytes := List.zipWith (· ^^^ ·) a b

/-- openAsm with the old tag comparison: the tag bytes of `ciphertext` become `tag XOR expected`
    — in the caller's buffer — and the plaintext `body` (as computed by `dec`) is stored iff they
    are all zero -/
def openAsmXor (tagSize : Nat) (expTag : Bytes → Bytes → Bytes → Bytes) (dec : Bytes → Bytes → Bytes)
    (h : Heap) (dst : Ptr) (nonce ciphertext additionalData : Slice) : Outcome (Heap × Nat) := do
  let ct := Mem.read h ciphertext
  let body := ct.take (ct.length - tagSize)
  let tag := ct.drop (ct.length - tagSize)
  let x := xorBytes tag (expTag (Mem.read h nonce) body (Mem.read h additionalData))
  let tagPtr ← if tagSize = 0 then .ok none else addrOf ciphertext (ciphertext.len - tagSize)
  let h1 ← writePtr h tagPtr x
  if x.all (· == 0) then do
    let h2 ← writePtr h1 dst (dec (Mem.read h nonce) body)
    .ok (h2, 1)
  else .ok (h1, 0)

/-- `Open` of sm4_gcm_amd64.go around `openAsmXor` (same glue as `GCMGlue.open`) -/
def openXor (nonceSize tagSize : Nat) (expTag : Bytes → Bytes → Bytes → Bytes)
    (dec : Bytes → Bytes → Bytes) (h : Heap) (dst nonce ciphertext additionalData : Slice) :
    Outcome (Heap × Option Slice) :=
  if nonce.len ≠ nonceSize then .panic else
  if tagSize < gcmMinimumTagSize then .panic else
  if ciphertext.len < tagSize then .ok (h, none) else
  if ciphertext.len > maxPlain + tagSize then .ok (h, none) else do
  let (h1, ret) ← ensureCapacity h dst (ciphertext.len - tagSize)
  let (h2, tagMatch) ←
    if ret.len > dst.len then do
      let p ← addrOf ret dst.len
      openAsmXor tagSize expTag dec h1 p nonce ciphertext additionalData
    else
      openAsmXor tagSize expTag dec h1 none nonce ciphertext additionalData
  if tagMatch ≠ 1 then .ok (h2, none) else .ok (h2, some ret)

/-- the pre-repair `Open` as a heap call (it also writes the tag bytes of `ciphertext`, which is
    NOT inside its window: it has no `Contract`) -/
def openXorCall (nonceSize tagSize : Nat) (expTag : Bytes → Bytes → Bytes → Bytes)
    (dec : Bytes → Bytes → Bytes) (dst nonce ct aad : Slice) : HeapCall :=
  { run := fun h => openXor nonceSize tagSize expTag dec h dst nonce ct aad
    win := dst
    ins := [dst, nonce, ct, aad] }

/-! ## 4. package-level state -/

/-- methods (of math/big's `Int`, of `elliptic.Curve`) that do not modify their receiver: the only
    methods the library may call on a package-level variable outside initialisation -/
def readOnlyMethods : List String :=
  ["Bytes", "Cmp", "Sign", "BitLen", "Bit", "Params", "String", "Text", "Uint64", "Int64",
   "IsInt64", "IsUint64", "FillBytes", "IsOnCurve", "ProbablyPrime"]

end SMGo.Model.Interleave
