/-
  Hand-written executable model of /repo/utils/utils.go: ConstantTimeCmp (borrow chain over
  `bits.Sub32`) and DecomposeNAF with its helpers getBit / getBits, including Go's bounds checks.
  A nil slice is `none`.
-/
import SMGo.Spec.Bytes
import SMGo.Model.Outcome
namespace SMGo.Model.Utils
open SMGo

/-- `bits.Sub32(x, y, borrow)`: difference and borrow-out (documented behaviour of math/bits) -/
def sub32 (x y borrow : W32) : W32 × W32 :=
  (x - y - borrow, if x.toNat < y.toNat + borrow.toNat then 1 else 0)

/-- the loop `for i := l-1; i >= 0; i--` of ConstantTimeCmp; `i` counts the iterations left -/
def cmpLoop (a b : Bytes) : Nat → W32 → W32 → Outcome (W32 × W32)
  | 0, borrow, diff => .ok (borrow, diff)
  | i + 1, borrow, diff => do
    let A ← Outcome.idx a i
    let B ← Outcome.idx b i
    let (d, bo) := sub32 (BitVec.ofNat 32 A.toNat) (BitVec.ofNat 32 B.toNat) borrow
    cmpLoop a b i bo (diff ||| d)

/-- `ConstantTimeCmp(a, b, l)`; `l` is a Go `int` -/
def constantTimeCmp (a b : Option Bytes) (l : Int) : Outcome Int :=
  match a, b with
  | some a, some b => do
    let (borrow, diff) ← cmpLoop a b l.toNat 0 0
    -- branch-free result: nz = 1 iff some byte differed; borrow = 1 iff a < b
    let nz : W32 := (diff ||| (0 - diff)) >>> 31
    pure (((nz &&& (1 - borrow)).toNat : Int) - (borrow.toNat : Int))
  | _, _ => .panic

/-- `getBit(s, idx, carry)` for idx ≥ 0 -/
def getBit (s : Bytes) (idx : Nat) (carry : Bool) : Outcome (Nat × Bool) := do
  let byte ← Outcome.idx s (idx / 8)
  let bitIdx := 7 - idx % 8
  let bit := (byte.toNat >>> bitIdx) % 2
  if !carry then pure (bit, false)
  else if bit = 0 then pure (1, false)
  else pure (0, true)

/-- `getBits(s, idx, w)`: extracts w+1 bits -/
def getBits (s : Bytes) (idx w : Nat) : Outcome Nat := do
  let byteIdx := idx / 8
  let bitIdx := 7 - idx % 8
  let mask := 2 ^ (w + 1) - 1
  let b ← Outcome.idx s byteIdx
  let byteLo := (b.toNat >>> bitIdx) &&& mask
  if bitIdx + w + 1 > 7 ∧ byteIdx > 0 then
    let bitsHi := bitIdx + w + 1 - 8
    let bh ← Outcome.idx s (byteIdx - 1)
    let byteHi := bh.toNat &&& (2 ^ bitsHi - 1)
    pure (byteLo ||| (byteHi <<< (w + 1 - bitsHi)))
  else pure byteLo

/-- Go `out[i] = v` with bounds check -/
def setIdx (out : List Int) (i : Nat) (v : Int) : Outcome (List Int) :=
  if i < out.length then .ok (out.set i v) else .panic

/-- the main loop of DecomposeNAF; `fuel` bounds the iterations (n is enough) -/
def nafLoop (s : Bytes) (n w : Nat) : Nat → Nat → Bool → List Int → Outcome (List Int × Bool)
  | 0, _, carry, out => .ok (out, carry)
  | fuel + 1, outIdx, carry, out =>
    if outIdx + 1 < n then do
      let bitIdx := n - outIdx - 1
      let oldCarry := carry
      let (bit, carry) ← getBit s (bitIdx - 1) carry
      if bit = 1 then do
        let d0 ← getBits s (bitIdx - 1) w
        let d1 : Int := if d0 % 2 = 0 ∧ oldCarry then (d0 : Int) + 1 else (d0 : Int)
        let (d2, carry) := if d1 ≥ (2 ^ w : Nat) then (d1 - (2 ^ (w + 1) : Nat), true) else (d1, carry)
        let out ← setIdx out outIdx d2
        nafLoop s n w fuel (outIdx + w + 1) carry out
      else nafLoop s n w fuel (outIdx + 1) carry out
    else .ok (out, carry)

/-- `DecomposeNAF(out, s, n, w)`; returns the new contents of `out`.  `n ≥ 1` as an `int`. -/
def decomposeNAF (out : Option (List Int)) (s : Option Bytes) (n w : Int) : Outcome (List Int) :=
  match out, s with
  | some out, some s =>
    if w ≤ 0 ∨ w > 7 then .panic else do
      let (out, carry) ← nafLoop s n.toNat w.toNat n.toNat 0 false out
      if carry then
        -- out[n-1] = 1 ; a negative index panics
        if n - 1 < 0 then .panic else setIdx out (n - 1).toNat 1
      else pure out
  | _, _ => .panic

end SMGo.Model.Utils
