/- The portable SM4 model instantiated with the tables regenerated from /repo/sm4/sm4_const.go. -/
import SMGo.Model.SM4Block
import SMGo.Gen.SM4Const
namespace SMGo.Model.SM4
open SMGo

def genTables : Tables :=
  { sbox := Gen.SM4Const.sbox, s0 := Gen.SM4Const.s0, s1 := Gen.SM4Const.s1, s2 := Gen.SM4Const.s2,
    s3 := Gen.SM4Const.s3, ck := Gen.SM4Const.ck,
    fk := [Gen.SM4Const.fk0, Gen.SM4Const.fk1, Gen.SM4Const.fk2, Gen.SM4Const.fk3] }

end SMGo.Model.SM4
