/-
  The arm64 value interpreter (SMGo/Model/ISAValArm64.lean — an UNVALIDATED transcription of the Arm ARM, see its
  header) instantiated with the read-only data of sm4/asm_arm64.s (SMGo/Gen/AsmData.lean, regenerated) and the
  calling conventions of the SM4 kernels: which frame slots exist and which memory regions they point to.  These
  are the states the theorems of SMGo/Props/C05Arm64.lean are about.  Core Lean only.
-/
import SMGo.Model.ISAValArm64
import SMGo.Gen.AsmData
import SMGo.Gen.ListArm64Asm
import SMGo.Gen.ListArm64AsmArr

namespace SMGo.Model.ISAValArm64
open SMGo.Model.ISAVal (lanes unlanes Region regionBase)

/-- the read-only symbols the arm64 listings refer to, under the name used in the listing -/
def symbols : List (String × List Nat) :=
  [("SBox", Gen.AsmData.arm64_SBox),
   ("FK", Gen.AsmData.arm64_FK),
   ("CK", Gen.AsmData.arm64_CK)]

/-- number of symbol regions (they come first in memory) -/
def nsyms : Nat := 3

/-- address of the argument region number `j` -/
def arg (j : Nat) : Nat := regionBase (nsyms + j)

/-- the bytes of a `[]uint32` in memory (little-endian words) -/
def wordsMem (ws : List Nat) : List Nat := ws.flatMap (lanes 8 4)

/-- entry state of `cryptoBlockAsm*(rk *uint32, dst, src *byte)`, dst and src disjoint:
    `rk` = the 32 round keys as numbers, `dst0` = the old contents of the destination, `src` = the input bytes;
    `g`, `v` = whatever the registers hold at entry -/
def kernelState (g v : List Nat) (rk dst0 src : List Nat) : State :=
  mkState g v symbols
    [⟨"rk", wordsMem rk, false⟩, ⟨"dst", dst0, true⟩, ⟨"src", src, false⟩]
    [("rk", arg 0), ("dst", arg 1), ("src", arg 2)]

/-- entry state of a kernel called in place (`dst == src`) -/
def kernelStateInPlace (g v : List Nat) (rk buf : List Nat) : State :=
  mkState g v symbols
    [⟨"rk", wordsMem rk, false⟩, ⟨"dst", buf, true⟩]
    [("rk", arg 0), ("dst", arg 1), ("src", arg 1)]

/-- entry state of `cryptoBlockAsmX16Internal(rk *uint32, dst, src, tmp *byte)`: `tmp` = 256 bytes of scratch -/
def kernelStateX16 (g v : List Nat) (rk dst0 src tmp0 : List Nat) : State :=
  mkState g v symbols
    [⟨"rk", wordsMem rk, false⟩, ⟨"dst", dst0, true⟩, ⟨"src", src, false⟩, ⟨"tmp", tmp0, true⟩]
    [("rk", arg 0), ("dst", arg 1), ("src", arg 2), ("tmp", arg 3)]

/-- entry state of `cryptoBlockAsmX16Internal` as the Go wrapper `cryptoBlockAsmX16(rk, dst, src)` of
    sm4_asm_arm64.go calls it: `tmp` IS `dst` (256 bytes) -/
def kernelStateX16Go (g v : List Nat) (rk dst0 src : List Nat) : State :=
  mkState g v symbols
    [⟨"rk", wordsMem rk, false⟩, ⟨"dst", dst0, true⟩, ⟨"src", src, false⟩]
    [("rk", arg 0), ("dst", arg 1), ("src", arg 2), ("tmp", arg 1)]

/-- entry state of `expandKeyAsm(mk *byte, enc, dec *uint32)` -/
def expandKeyState (g v : List Nat) (key enc0 dec0 : List Nat) : State :=
  mkState g v symbols
    [⟨"mk", key, false⟩, ⟨"enc", enc0, true⟩, ⟨"dec", dec0, true⟩]
    [("mk", arg 0), ("enc", arg 1), ("dec", arg 2)]

/-- the listing of the kernel for `n` blocks, with the specifiers of its operands -/
def kernelListing (n : Nat) : Option (List ISA.Instr × List (List String)) :=
  match n with
  | 1 => some (Gen.ListArm64Asm.cryptoBlockAsm, Gen.ListArm64AsmArr.cryptoBlockAsm_arr)
  | 2 => some (Gen.ListArm64Asm.cryptoBlockAsmX2, Gen.ListArm64AsmArr.cryptoBlockAsmX2_arr)
  | 4 => some (Gen.ListArm64Asm.cryptoBlockAsmX4, Gen.ListArm64AsmArr.cryptoBlockAsmX4_arr)
  | 8 => some (Gen.ListArm64Asm.cryptoBlockAsmX8, Gen.ListArm64AsmArr.cryptoBlockAsmX8_arr)
  | 16 => some (Gen.ListArm64Asm.cryptoBlockAsmX16Internal, Gen.ListArm64AsmArr.cryptoBlockAsmX16Internal_arr)
  | _ => none

/-- the destination buffer after running a listing on a state -/
def runDst (l : List ISA.Instr) (arrs : List (List String)) (s : State) : Except String (List Nat) := do
  let s' ← run l arrs s
  match regionBytes s' "dst" with
  | some b => pure b
  | none => .error "no region dst"

/-- little-endian dwords of a byte string -/
def memWords (bs : List Nat) : List Nat :=
  (List.range (bs.length / 4)).map (fun i => unlanes 8 ((bs.drop (4 * i)).take 4))

/-- `enc` and `dec` (as numbers) after running the listing of `expandKeyAsm` -/
def runExpandKey (s : State) : Except String (List Nat × List Nat) := do
  let s' ← run Gen.ListArm64Asm.expandKeyAsm Gen.ListArm64AsmArr.expandKeyAsm_arr s
  match regionBytes s' "enc", regionBytes s' "dec" with
  | some e, some d => pure (memWords e, memWords d)
  | _, _ => .error "no region enc/dec"

end SMGo.Model.ISAValArm64
