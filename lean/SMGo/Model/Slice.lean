/-
  Executable model of Go's slice semantics, as far as the buffer contracts of property C10 need it.

  * The heap is a list of backing arrays; the identity of an array is its index.  Arrays are never
    freed or resized: allocation appends a new array, a store replaces bytes of an existing one.
  * A slice is Go's triple (pointer, len, cap): the pointer is `arr` (`none` = nil) plus the offset
    `off` inside the array.  `cap` counts from `off`.
  * `reslice` is `s[a:b]` with Go's run-time check `a ≤ b ≤ cap(s)`; `index`/`addrOf` are `s[i]` /
    `&s[i]` with the check `i < len(s)`; a failed check is `Outcome.panic`.
  * `make`, `append` (re-uses the array iff `len + n ≤ cap`, else allocates and copies) and `copy`
    (memmove: the source is read before the destination is written) are the built-ins.
  * Assembly routines get raw pointers (`Ptr`); every store goes through `(heap, array, offset,
    bytes)` (`poke`).  The checked forms `writeAt`/`writePtr`/`readPtr` answer `panic` when the
    access leaves the array (a memory fault or silent corruption in the real program) or goes
    through a nil pointer with a non-zero length, so a theorem `… = .ok …` about a routine built
    from them says in particular that every access stayed inside its array.

  Core Lean only: linked into `smgo_model`.
-/
import SMGo.Spec.Bytes
import SMGo.Model.Outcome
namespace SMGo.Model.Mem
open SMGo

/-- backing arrays; array id = index -/
abbrev Heap := List Bytes

/-- a Go slice header -/
structure Slice where
  arr : Option Nat   -- `none` = nil pointer
  off : Nat
  len : Nat
  cap : Nat
deriving DecidableEq, Repr

/-- a raw `*byte`: nil or (array, offset) -/
abbrev Ptr := Option (Nat × Nat)

/-- the nil slice -/
def Slice.nil : Slice := { arr := none, off := 0, len := 0, cap := 0 }

/-- the array with id `a` (empty for an id that was never allocated) -/
def arrayOf (h : Heap) (a : Nat) : Bytes := (h[a]?).getD []

/-- byte `i` of array `a`, if it exists -/
def byteAt (h : Heap) (a i : Nat) : Option UInt8 := (arrayOf h a)[i]?

/-- the invariant Go maintains: `len ≤ cap`, the capacity lies inside the array; nil has cap 0 -/
def WF (h : Heap) (s : Slice) : Prop :=
  s.len ≤ s.cap ∧
  match s.arr with
  | none => s.off = 0 ∧ s.cap = 0
  | some a => a < h.length ∧ s.off + s.cap ≤ (arrayOf h a).length

instance (h : Heap) (s : Slice) : Decidable (WF h s) := by
  obtain ⟨arr, off, len, cap⟩ := s
  cases arr <;> (unfold WF; exact inferInstance)

/-- the bytes a slice shows: `s[0:len(s)]` -/
def read (h : Heap) (s : Slice) : Bytes :=
  match s.arr with
  | none => []
  | some a => ((arrayOf h a).drop s.off).take s.len

/-- `s[a:b]` -/
def reslice (s : Slice) (a b : Nat) : Outcome Slice :=
  if a ≤ b ∧ b ≤ s.cap then
    .ok { arr := s.arr, off := s.off + a, len := b - a, cap := s.cap - a }
  else .panic

/-- `s[i]` -/
def index (h : Heap) (s : Slice) (i : Nat) : Outcome UInt8 :=
  if i < s.len then Outcome.idx (read h s) i else .panic

/-- `&s[i]` -/
def addrOf (s : Slice) (i : Nat) : Outcome Ptr :=
  if i < s.len then
    match s.arr with
    | some a => .ok (some (a, s.off + i))
    | none => .panic
  else .panic

/-- `make([]byte, len, cap)`: a new zeroed array -/
def makeCap (h : Heap) (len cap : Nat) : Heap × Slice :=
  (h ++ [List.replicate cap 0], { arr := some h.length, off := 0, len := len, cap := cap })

/-- `make([]byte, n)` -/
def make (h : Heap) (n : Nat) : Heap × Slice := makeCap h n n

/-- `l` with `bs` stored from position `off` on -/
def splice (l : Bytes) (off : Nat) (bs : Bytes) : Bytes :=
  l.take off ++ bs ++ l.drop (off + bs.length)

/-- the one primitive store: bytes `bs` into array `a` from offset `off` on (unchecked) -/
def poke (h : Heap) (a off : Nat) (bs : Bytes) : Heap :=
  h.set a (splice (arrayOf h a) off bs)

/-- a store that must stay inside the array -/
def writeAt (h : Heap) (a off : Nat) (bs : Bytes) : Outcome Heap :=
  if a < h.length ∧ off + bs.length ≤ (arrayOf h a).length then .ok (poke h a off bs) else .panic

/-- a store through a raw pointer; storing nothing touches no memory, whatever the pointer -/
def writePtr (h : Heap) (p : Ptr) (bs : Bytes) : Outcome Heap :=
  if bs.isEmpty then .ok h else
  match p with
  | none => .panic
  | some (a, off) => writeAt h a off bs

/-- a load of `n` bytes through a raw pointer -/
def readPtr (h : Heap) (p : Ptr) (n : Nat) : Outcome Bytes :=
  if n = 0 then .ok [] else
  match p with
  | none => .panic
  | some (a, off) =>
    if a < h.length ∧ off + n ≤ (arrayOf h a).length then .ok (((arrayOf h a).drop off).take n)
    else .panic

/-- `append(s, bs...)`.  When the capacity does not suffice Go allocates an array of *at least*
    `len(s) + len(bs)` bytes (the growth policy is unspecified); the model takes exactly that. -/
def append (h : Heap) (s : Slice) (bs : Bytes) : Heap × Slice :=
  if s.len + bs.length ≤ s.cap then
    match s.arr with
    | some a => (poke h a (s.off + s.len) bs, { s with len := s.len + bs.length })
    | none => (h, s)   -- cap = 0: nothing to append
  else
    (h ++ [read h s ++ bs],
     { arr := some h.length, off := 0, len := s.len + bs.length, cap := s.len + bs.length })

/-- `copy(dst, src)`: returns the heap and the number of bytes copied -/
def copy (h : Heap) (dst src : Slice) : Heap × Nat :=
  let n := min dst.len src.len
  let bs := (read h src).take n
  match dst.arr with
  | some a => (if n = 0 then h else poke h a dst.off bs, n)
  | none => (h, n)

/-- two slices have the same pointer (and it is not nil): what `&a[:1][0] == &b[:1][0]` tests -/
def Shares (r d : Slice) : Prop := r.arr = d.arr ∧ r.off = d.off ∧ d.arr ≠ none

instance (r d : Slice) : Decidable (Shares r d) := by unfold Shares; exact inferInstance

end SMGo.Model.Mem
