/-
  Entry states of the routines of sm4/gcm_arm64.s (`gHashBlocks`, `xor256/128/64/32/16`) for the arm64 value
  interpreter SMGo/Model/ISAValArm64.lean — which is an UNVALIDATED hand transcription of the Arm ARM (no arm64 CPU
  or emulator in the verification sandbox; see its header).  These are the states the driver requests
  `asm64.ghash`, `asm64.xor` run the listings on and the theorems of SMGo/Props/C06Arm64.lean are about.
  Core Lean only.
-/
import SMGo.Model.ISAValArm64Inst
import SMGo.Gen.ListArm64Gcm
import SMGo.Gen.ListArm64GcmArr

namespace SMGo.Model.ISAValArm64
open SMGo.Model.ISAVal (Region)

/-- entry state of `gHashBlocks(H *byte, tag *byte, data *byte, count int)`:
    `h` = the 16 bytes of the hash key, `tag` = the 16 bytes of the running GHASH value (updated in place),
    `data` = the blocks; `g`, `v` = whatever the registers hold at entry -/
def ghashState (g v : List Nat) (h tag data : List Nat) (count : Nat) : State :=
  mkState g v symbols
    [⟨"h", h, false⟩, ⟨"tag", tag, true⟩, ⟨"data", data, false⟩]
    [("h", arg 0), ("tag", arg 1), ("data", arg 2), ("count", count)]

/-- steps granted to `gHashBlocks` on `count` blocks (it needs fewer: at most 22 + 3 per block one at a time, 52 per
    four blocks, 80 before the loops) -/
def ghFuel (count : Nat) : Nat := 30 * count + 200

/-- the tag buffer after running the listing of `gHashBlocks` -/
def runGhash (fuel : Nat) (s : State) : Except String (List Nat) := do
  let s' ← runCtl Gen.ListArm64Gcm.gHashBlocks Gen.ListArm64GcmArr.gHashBlocks_arr fuel s
  match regionBytes s' "tag" with
  | some b => pure b
  | none => .error "no region tag"

/-- entry state of `xorN(dst, src1, src2 *byte)`, the three buffers disjoint -/
def xorState (g v : List Nat) (dst0 a b : List Nat) : State :=
  mkState g v symbols
    [⟨"dst", dst0, true⟩, ⟨"src1", a, false⟩, ⟨"src2", b, false⟩]
    [("dst", arg 0), ("src1", arg 1), ("src2", arg 2)]

/-- `xorN(x, x, b)`: dst is src1 (`xor16(&tag[0], &tag[0], &TMask[0])` in Seal / Open) -/
def xorStateDst1 (g v : List Nat) (a b : List Nat) : State :=
  mkState g v symbols
    [⟨"dst", a, true⟩, ⟨"src2", b, false⟩]
    [("dst", arg 0), ("src1", arg 0), ("src2", arg 1)]

/-- `xorN(x, a, x)`: dst is src2 (`xorN(&out[0], &tmp[0], &in[0])` in cryptoBlocks when Seal / Open work in place) -/
def xorStateDst2 (g v : List Nat) (a b : List Nat) : State :=
  mkState g v symbols
    [⟨"dst", b, true⟩, ⟨"src1", a, false⟩]
    [("dst", arg 0), ("src1", arg 1), ("src2", arg 0)]

/-- the listing of `xorN` for `n` bytes, with the specifiers of its operands -/
def xorListing (n : Nat) : Option (List ISA.Instr × List (List String)) :=
  match n with
  | 256 => some (Gen.ListArm64Gcm.xor256, Gen.ListArm64GcmArr.xor256_arr)
  | 128 => some (Gen.ListArm64Gcm.xor128, Gen.ListArm64GcmArr.xor128_arr)
  | 64 => some (Gen.ListArm64Gcm.xor64, Gen.ListArm64GcmArr.xor64_arr)
  | 32 => some (Gen.ListArm64Gcm.xor32, Gen.ListArm64GcmArr.xor32_arr)
  | 16 => some (Gen.ListArm64Gcm.xor16, Gen.ListArm64GcmArr.xor16_arr)
  | _ => none

end SMGo.Model.ISAValArm64
