/-
  Entry states of the routines of sm4/helper_amd64.s (`SMGo.Gen.ListAmd64Helper`) for the value interpreter
  (SMGo/Model/ISAVal.lean): the frame slots are those of the Go declarations
    func needExpand(array []byte, asked int) int                    (sm4_gcm_amd64.go; slots array, arrayLen, arrayCap, asked, ret1)
    func copyAsm(dst *byte, src *byte, len int)                     (sm4_asm_amd64.go)
    func transpose4x4(dst *uint32, src *uint32), transpose1x4       (sm4_asm_amd64.go; transpose2x4 has no Go declaration)
    func concatenateX(X1, X2, X3, X4 *byte), concatenateY(Y1, Y2 *byte)
    constantTimeCompareAsm(x, y *byte, l int) int32                  (no Go declaration: unreachable from Go)
  The theorems about these states are in Props/C10Asm.lean.  Core Lean only.
-/
import SMGo.Model.ISAValInst
import SMGo.Gen.ListAmd64Helper

namespace SMGo.Model.ISAVal

/-- the result slot after running a listing -/
def runRet (l : List ISA.Instr) (fuel : Nat) (s : State) : Except String Nat := do
  let s' ← run l fuel s
  match lookup s'.frame "ret1" with
  | some r => pure r
  | none => .error "no result slot"

/-- the bytes of the region `name` after running a listing -/
def runRegion (l : List ISA.Instr) (name : String) (fuel : Nat) (s : State) : Except String (List Nat) := do
  let s' ← run l fuel s
  match regionBytes s' name with
  | some b => pure b
  | none => .error ("no region " ++ name)

/-- entry state of `needExpand(array []byte, asked int) int`: the slice header (pointer, length, capacity) of `array`, `asked`, and
    the old contents `ret0` of the result slot; the routine does not touch memory -/
def needExpandState (g v k : List Nat) (ptr len cap asked ret0 : Nat) : State :=
  mkState g v k symbols []
    [("array", ptr), ("arrayLen", len), ("arrayCap", cap), ("asked", asked), ("ret1", ret0)]

/-- entry state of `copyAsm(&dbuf[doff], &sbuf[soff], n)`: two separate arrays -/
def copyState (g v k : List Nat) (dbuf sbuf : List Nat) (doff soff n : Nat) : State :=
  mkState g v k symbols
    [⟨"dst", dbuf, true⟩, ⟨"src", sbuf, false⟩]
    [("dst", arg 0 + doff), ("src", arg 1 + soff), ("len", n)]

/-- entry state of `constantTimeCompareAsm(x, y, l)`: `y` is written (it receives x XOR y) -/
def cmpState (g v k : List Nat) (x y : List Nat) (l ret0 : Nat) : State :=
  mkState g v k symbols
    [⟨"x", x, false⟩, ⟨"y", y, true⟩]
    [("x", arg 0), ("y", arg 1), ("l", l), ("ret1", ret0)]

/-- entry state of `transpose4x4 / transpose2x4 / transpose1x4 (dst, src *uint32)`: 64 bytes each -/
def transposeState (g v k : List Nat) (dst0 src : List Nat) : State :=
  mkState g v k symbols
    [⟨"dst", dst0, true⟩, ⟨"src", src, false⟩]
    [("dst", arg 0), ("src", arg 1)]

/-- entry state of `concatenateX(X1, X2, X3, X4 *byte)`: the result (64 bytes) goes to `X1` -/
def concatXState (g v k : List Nat) (x1 x2 x3 x4 : List Nat) : State :=
  mkState g v k symbols
    [⟨"x1", x1, true⟩, ⟨"x2", x2, false⟩, ⟨"x3", x3, false⟩, ⟨"x4", x4, false⟩]
    [("x1", arg 0), ("x2", arg 1), ("x3", arg 2), ("x4", arg 3)]

/-- entry state of `concatenateY(Y1, Y2 *byte)`: the result (64 bytes) goes to `Y1` -/
def concatYState (g v k : List Nat) (y1 y2 : List Nat) : State :=
  mkState g v k symbols
    [⟨"y1", y1, true⟩, ⟨"y2", y2, false⟩]
    [("y1", arg 0), ("y2", arg 1)]

end SMGo.Model.ISAVal
