/-
  The value interpreter (SMGo/Model/ISAVal.lean) instantiated with the read-only data of sm4/*.s
  (SMGo/Gen/AsmData.lean, regenerated) and the calling conventions of the SM4 kernels: which frame slots
  exist and which memory regions they point to.  These are the states the driver requests `asm.kernel`,
  `asm.expandkey` run the listings on, and the states the theorems of Props/C05.lean (section
  "assembly listings") are about.  Core Lean only.
-/
import SMGo.Model.ISAVal
import SMGo.Gen.AsmData
import SMGo.Gen.ListAmd64Asm

namespace SMGo.Model.ISAVal

/-- the read-only symbols the amd64 listings refer to, under the name used in the listing -/
def symbols : List (String × List Nat) :=
  [("Shuffle", Gen.AsmData.amd64_Shuffle),
   ("PreAffineMatrix", Gen.AsmData.amd64_PreAffineMatrix),
   ("PostAffineMatrix", Gen.AsmData.amd64_PostAffineMatrix),
   ("CK", Gen.AsmData.amd64_CK),
   ("FK", Gen.AsmData.amd64_FK),
   ("AND_MASK", Gen.AsmData.amd64_AND_MASK),
   ("Counter_Add1", Gen.AsmData.amd64_Counter_Add1),
   ("Counter_Add2", Gen.AsmData.amd64_Counter_Add2),
   ("Counter_Add3", Gen.AsmData.amd64_Counter_Add3),
   ("GCM_POLY", Gen.AsmData.amd64_GCM_POLY),
   ("LOWER_MASK", Gen.AsmData.amd64_LOWER_MASK),
   ("MERGE_H01", Gen.AsmData.amd64_MERGE_H01),
   ("MERGE_H23", Gen.AsmData.amd64_MERGE_H23),
   ("SHUFFLE_X_LANES", Gen.AsmData.amd64_SHUFFLE_X_LANES),
   ("Shuffle1", Gen.AsmData.amd64_Shuffle1),
   ("Shuffle2", Gen.AsmData.amd64_Shuffle2)]

/-- number of symbol regions (they come first in memory) -/
def nsyms : Nat := 16

/-- address of the argument region number `j` -/
def arg (j : Nat) : Nat := argBase nsyms j

/-- the bytes of a `[]uint32` in memory (little-endian words) -/
def wordsMem (ws : List Nat) : List Nat := ws.flatMap (lanes 8 4)

/-- entry state of `cryptoBlockAsm*(rk *uint32, dst, src *byte)`, dst and src disjoint:
    `rk` = the 32 round keys as numbers, `dst0` = the old contents of the destination, `src` = the input bytes;
    `g`, `v`, `k` = whatever the registers hold at entry -/
def kernelState (g v k : List Nat) (rk dst0 src : List Nat) : State :=
  mkState g v k symbols
    [⟨"rk", wordsMem rk, false⟩, ⟨"dst", dst0, true⟩, ⟨"src", src, false⟩]
    [("rk", arg 0), ("dst", arg 1), ("src", arg 2)]

/-- entry state of a kernel called in place (`dst == src`) -/
def kernelStateInPlace (g v k : List Nat) (rk buf : List Nat) : State :=
  mkState g v k symbols
    [⟨"rk", wordsMem rk, false⟩, ⟨"dst", buf, true⟩]
    [("rk", arg 0), ("dst", arg 1), ("src", arg 1)]

/-- entry state of `expandKeyAsm(mk *byte, enc, dec *uint32)` -/
def expandKeyState (g v k : List Nat) (key enc0 dec0 : List Nat) : State :=
  mkState g v k symbols
    [⟨"mk", key, false⟩, ⟨"enc", enc0, true⟩, ⟨"dec", dec0, true⟩]
    [("mk", arg 0), ("enc", arg 1), ("dec", arg 2)]

/-- the listing of the kernel for `n` blocks -/
def kernelListing (n : Nat) : Option (List ISA.Instr) :=
  match n with
  | 1 => some Gen.ListAmd64Asm.cryptoBlockAsm
  | 2 => some Gen.ListAmd64Asm.cryptoBlockAsmX2
  | 4 => some Gen.ListAmd64Asm.cryptoBlockAsmX4
  | 8 => some Gen.ListAmd64Asm.cryptoBlockAsmX8
  | 16 => some Gen.ListAmd64Asm.cryptoBlockAsmX16
  | _ => none

/-- the destination buffer after running a listing on a state -/
def runDst (l : List ISA.Instr) (fuel : Nat) (s : State) : Except String (List Nat) := do
  let s' ← run l fuel s
  match regionBytes s' "dst" with
  | some b => pure b
  | none => .error "no region dst"

/-- little-endian dwords of a byte string -/
def memWords (bs : List Nat) : List Nat :=
  (List.range (bs.length / 4)).map (fun i => unlanes 8 ((bs.drop (4 * i)).take 4))

/-- `enc` and `dec` (as numbers) after running the listing of `expandKeyAsm` -/
def runExpandKey (fuel : Nat) (s : State) : Except String (List Nat × List Nat) := do
  let s' ← run Gen.ListAmd64Asm.expandKeyAsm fuel s
  match regionBytes s' "enc", regionBytes s' "dec" with
  | some e, some d => pure (memWords e, memWords d)
  | _, _ => .error "no region enc/dec"

end SMGo.Model.ISAVal
