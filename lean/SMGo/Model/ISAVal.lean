/-
  Executable VALUE semantics of the amd64 assembler listings (`go tool asm -S` of sm4/*.s, regenerated on
  every check run into SMGo/Gen/ListAmd64*.lean).  Core Lean only: linked into `smgo_model`.

  TRUSTED in this file (the reading of the Intel SDM, vol. 2, under which the theorems about the
  listings hold; compared with the real CPU on every check run by the differential harness, streams
  `asm.kernel`, `asm.expandkey`, `asm.ghash`, `asm.seal`, `asm.open`):

    * the machine: 16 general registers (64-bit values), 32 vector registers (512-bit values), 8 opmask
      registers, the flags ZF SF CF OF (each possibly *undefined*), memory as a list of named regions
      (region `i` occupies the addresses `(i+1)·2^32 + [0, size)`, so that pointers are ordinary 64-bit
      numbers and an access outside every region is an error), the argument frame (slot name ↦ value);
    * `Mn.ofString`: the mnemonics understood; any other mnemonic is an ERROR, never a default;
    * `step`: one instruction.  Go operand order: sources first, destination last (the reverse of the
      Intel manuals); a `K` operand before the destination is a merge-mask.  Every VEX/EVEX instruction
      (all `V…` mnemonics) zeroes the destination above the vector length `vw` (16, 32 or 64 bytes, the
      widest register named); the legacy-SSE forms (`MOVL m32, X`, `MOVQ r64, X`, `PSLLO`) leave bits
      128… of the register alone.  An operand shape that does not occur in the listings is an ERROR.
    * `run`: fetch / step from the first instruction until `RET`, bounded by fuel; a branch goes to the
      instruction whose byte offset is the target.

  Register values are natural numbers; lane `i` of width `w` bits is `(v >>> (w·i)) % 2^w` (`lane`);
  byte `j` of a register loaded from memory is byte `j` of memory (little-endian).
-/
import SMGo.Model.ISAInstr

namespace SMGo.Model.ISAVal
open SMGo.Model.ISA

/-! ## 1. Lanes -/

/-- lane `i` (width `w` bits) of `v` -/
def lane (w i v : Nat) : Nat := (v >>> (w * i)) % 2 ^ w

/-- the `n` low lanes of width `w` -/
def lanes (w n v : Nat) : List Nat := (List.range n).map (fun i => lane w i v)

/-- the number whose lanes of width `w` are `l` (lowest first) -/
def unlanes (w : Nat) (l : List Nat) : Nat := l.foldr (fun x acc => x + 2 ^ w * acc) 0

/-- apply `f` to each of the `n` low lanes -/
def map1 (w n : Nat) (f : Nat → Nat) (a : Nat) : Nat := unlanes w ((lanes w n a).map f)

/-- apply `f` lane by lane -/
def map2 (w n : Nat) (f : Nat → Nat → Nat) (a b : Nat) : Nat :=
  unlanes w (List.zipWith f (lanes w n a) (lanes w n b))

/-- merge-masking: element `j` (width `w` bits, `n` elements) is taken from `new` when bit `j` of `k` is
    set and from `old` otherwise -/
def mergeMask (w n k new old : Nat) : Nat :=
  unlanes w ((List.range n).map (fun j => if (k >>> j) % 2 = 1 then lane w j new else lane w j old))

/-! ## 2. Per-element operations (Intel SDM vol. 2) -/

/-- bit `i` of `x` -/
def bit (x i : Nat) : Nat := (x >>> i) % 2

/-- XOR of the 8 low bits -/
def parity8 (x : Nat) : Nat :=
  (bit x 0 + bit x 1 + bit x 2 + bit x 3 + bit x 4 + bit x 5 + bit x 6 + bit x 7) % 2

/-- SDM `affine_byte(tsrc2qw, src1byte, imm8)`: result bit `i` = parity(qword.byte[7−i] AND x) XOR imm8.bit[i];
    `matrix` = the 8 bytes of the qword, least significant first -/
def affineByte (matrix : List Nat) (imm8 x : Nat) : Nat :=
  (List.range 8).foldl
    (fun r i => r + (parity8 (matrix.getD (7 - i) 0 &&& x) ^^^ bit imm8 i) * 2 ^ i) 0

/-- SDM table "Inverse Byte Listings": the inverse in GF(2)[x]/(x^8+x^4+x^3+x+1), `0 ↦ 0`
    (proved equal to `x^254` in that field: `aesInv_eq`, SMGo/Proofs/ISAValGF.lean) -/
def aesInvTable : List Nat :=
  [0x00, 0x01, 0x8d, 0xf6, 0xcb, 0x52, 0x7b, 0xd1, 0xe8, 0x4f, 0x29, 0xc0, 0xb0, 0xe1, 0xe5, 0xc7,
   0x74, 0xb4, 0xaa, 0x4b, 0x99, 0x2b, 0x60, 0x5f, 0x58, 0x3f, 0xfd, 0xcc, 0xff, 0x40, 0xee, 0xb2,
   0x3a, 0x6e, 0x5a, 0xf1, 0x55, 0x4d, 0xa8, 0xc9, 0xc1, 0x0a, 0x98, 0x15, 0x30, 0x44, 0xa2, 0xc2,
   0x2c, 0x45, 0x92, 0x6c, 0xf3, 0x39, 0x66, 0x42, 0xf2, 0x35, 0x20, 0x6f, 0x77, 0xbb, 0x59, 0x19,
   0x1d, 0xfe, 0x37, 0x67, 0x2d, 0x31, 0xf5, 0x69, 0xa7, 0x64, 0xab, 0x13, 0x54, 0x25, 0xe9, 0x09,
   0xed, 0x5c, 0x05, 0xca, 0x4c, 0x24, 0x87, 0xbf, 0x18, 0x3e, 0x22, 0xf0, 0x51, 0xec, 0x61, 0x17,
   0x16, 0x5e, 0xaf, 0xd3, 0x49, 0xa6, 0x36, 0x43, 0xf4, 0x47, 0x91, 0xdf, 0x33, 0x93, 0x21, 0x3b,
   0x79, 0xb7, 0x97, 0x85, 0x10, 0xb5, 0xba, 0x3c, 0xb6, 0x70, 0xd0, 0x06, 0xa1, 0xfa, 0x81, 0x82,
   0x83, 0x7e, 0x7f, 0x80, 0x96, 0x73, 0xbe, 0x56, 0x9b, 0x9e, 0x95, 0xd9, 0xf7, 0x02, 0xb9, 0xa4,
   0xde, 0x6a, 0x32, 0x6d, 0xd8, 0x8a, 0x84, 0x72, 0x2a, 0x14, 0x9f, 0x88, 0xf9, 0xdc, 0x89, 0x9a,
   0xfb, 0x7c, 0x2e, 0xc3, 0x8f, 0xb8, 0x65, 0x48, 0x26, 0xc8, 0x12, 0x4a, 0xce, 0xe7, 0xd2, 0x62,
   0x0c, 0xe0, 0x1f, 0xef, 0x11, 0x75, 0x78, 0x71, 0xa5, 0x8e, 0x76, 0x3d, 0xbd, 0xbc, 0x86, 0x57,
   0x0b, 0x28, 0x2f, 0xa3, 0xda, 0xd4, 0xe4, 0x0f, 0xa9, 0x27, 0x53, 0x04, 0x1b, 0xfc, 0xac, 0xe6,
   0x7a, 0x07, 0xae, 0x63, 0xc5, 0xdb, 0xe2, 0xea, 0x94, 0x8b, 0xc4, 0xd5, 0x9d, 0xf8, 0x90, 0x6b,
   0xb1, 0x0d, 0xd6, 0xeb, 0xc6, 0x0e, 0xcf, 0xad, 0x08, 0x4e, 0xd7, 0xe3, 0x5d, 0x50, 0x1e, 0xb3,
   0x5b, 0x23, 0x38, 0x34, 0x68, 0x46, 0x03, 0x8c, 0xdd, 0x9c, 0x7d, 0xa0, 0xcd, 0x1a, 0x41, 0x1c]

/-- table look-up (bytes only; anything else gives 0) -/
def aesInv (x : Nat) : Nat := aesInvTable.getD x 0

/-- (V)GF2P8AFFINEQB / (V)GF2P8AFFINEINVQB on `vl` bytes: byte `j` of `x` is transformed with the qword of
    `m` at the same 64-bit position -/
def gfAffine (inv : Bool) (vl imm8 m x : Nat) : Nat :=
  map2 64 (vl / 8)
    (fun mq xq =>
      let mb := lanes 8 8 mq
      map1 8 8 (fun xb => affineByte mb imm8 (if inv then aesInv xb else xb)) xq)
    m x

/-- one byte of (V)PSHUFB: index bit 7 set gives 0, otherwise the table byte of the low four index bits -/
def pshufbByte (tbl : List Nat) (idx : Nat) : Nat :=
  if idx ≥ 128 then 0 else tbl.getD (idx % 16) 0

/-- VPSHUFB idx, tbl, dst: within each 128-bit lane -/
def vpshufb (vl idx tbl : Nat) : Nat :=
  map2 128 (vl / 16) (fun il tl => map1 8 16 (pshufbByte (lanes 8 16 tl)) il) idx tbl

/-- rotate a 32-bit value left -/
def rotl32 (r x : Nat) : Nat := ((x <<< (r % 32)) ||| (x >>> (32 - r % 32))) % 2 ^ 32

/-- carry-less multiplication of two 64-bit values -/
def clmul (a b : Nat) : Nat :=
  (List.range 64).foldl (fun r i => if bit b i = 1 then r ^^^ (a <<< i) else r) 0

/-- VPUNPCKLDQ a, b, dst (Intel: dst, src1 = b, src2 = a): per 128-bit lane (b0, a0, b1, a1) -/
def unpckldq (a b : Nat) : Nat := unlanes 32 [lane 32 0 b, lane 32 0 a, lane 32 1 b, lane 32 1 a]
/-- VPUNPCKHDQ: (b2, a2, b3, a3) -/
def unpckhdq (a b : Nat) : Nat := unlanes 32 [lane 32 2 b, lane 32 2 a, lane 32 3 b, lane 32 3 a]
/-- VPUNPCKLQDQ: (b.q0, a.q0) -/
def unpcklqdq (a b : Nat) : Nat := unlanes 64 [lane 64 0 b, lane 64 0 a]
/-- VPUNPCKHQDQ: (b.q1, a.q1) -/
def unpckhqdq (a b : Nat) : Nat := unlanes 64 [lane 64 1 b, lane 64 1 a]

/-! ## 3. Mnemonics -/

inductive Mn where
  -- vector, three registers (optionally merge-masked)
  | VPXORD | VPANDD | VPADDD | VPSHUFB | VPUNPCKLDQ | VPUNPCKHDQ | VPUNPCKLQDQ | VPUNPCKHQDQ
  -- vector, immediate + one source
  | VPROLD | VPSLLDQ | VPSRLDQ | VPSRLW | VPSLLQ
  -- VPERMQ: immediate form and index-register form
  | VPERMQ
  -- vector, immediate + two sources
  | VGF2P8AFFINEQB | VGF2P8AFFINEINVQB | VPCLMULQDQ | VALIGND
  -- vector moves / broadcasts
  | VMOVDQU32 | VMOVDQA64 | VMOVAPD | VPBROADCASTD | VBROADCASTI32X2 | VBROADCASTI32X4 | PSLLO | KMOVW
  -- general
  | MOVQ | MOVL | MOVW | MOVB | LEAQ | ADDQ | SUBQ | ANDQ | ORQ | XORQ | ORB | XORB | SHLQ | SHRQ | CMPQ
  | JMP | JEQ | JNE | JLT | JGE | JGT | JLE | NOP | RET
deriving DecidableEq, Repr

/-- the mnemonics understood (most frequent first) -/
def Mn.ofString (s : String) : Option Mn :=
  match s with
  | "VPXORD" => some .VPXORD
  | "VPROLD" => some .VPROLD
  | "VGF2P8AFFINEQB" => some .VGF2P8AFFINEQB
  | "VGF2P8AFFINEINVQB" => some .VGF2P8AFFINEINVQB
  | "VPBROADCASTD" => some .VPBROADCASTD
  | "MOVL" => some .MOVL
  | "ADDQ" => some .ADDQ
  | "VPCLMULQDQ" => some .VPCLMULQDQ
  | "VPSHUFB" => some .VPSHUFB
  | "VPANDD" => some .VPANDD
  | "VPADDD" => some .VPADDD
  | "VPUNPCKLDQ" => some .VPUNPCKLDQ
  | "VPUNPCKHDQ" => some .VPUNPCKHDQ
  | "VPUNPCKLQDQ" => some .VPUNPCKLQDQ
  | "VPUNPCKHQDQ" => some .VPUNPCKHQDQ
  | "VPSLLDQ" => some .VPSLLDQ
  | "VPSRLDQ" => some .VPSRLDQ
  | "VPSRLW" => some .VPSRLW
  | "VPSLLQ" => some .VPSLLQ
  | "VPERMQ" => some .VPERMQ
  | "VALIGND" => some .VALIGND
  | "VMOVDQU32" => some .VMOVDQU32
  | "VMOVDQA64" => some .VMOVDQA64
  | "VMOVAPD" => some .VMOVAPD
  | "VBROADCASTI32X2" => some .VBROADCASTI32X2
  | "VBROADCASTI32X4" => some .VBROADCASTI32X4
  | "PSLLO" => some .PSLLO
  | "KMOVW" => some .KMOVW
  | "MOVQ" => some .MOVQ
  | "MOVW" => some .MOVW
  | "MOVB" => some .MOVB
  | "LEAQ" => some .LEAQ
  | "SUBQ" => some .SUBQ
  | "ANDQ" => some .ANDQ
  | "ORQ" => some .ORQ
  | "XORQ" => some .XORQ
  | "ORB" => some .ORB
  | "XORB" => some .XORB
  | "SHLQ" => some .SHLQ
  | "SHRQ" => some .SHRQ
  | "CMPQ" => some .CMPQ
  | "JMP" => some .JMP
  | "JEQ" => some .JEQ
  | "JNE" => some .JNE
  | "JLT" => some .JLT
  | "JGE" => some .JGE
  | "JGT" => some .JGT
  | "JLE" => some .JLE
  | "NOP" => some .NOP
  | "RET" => some .RET
  | _ => none

/-- `OP a, b, [k,] dst` on `vl` bytes: the new value of the destination, and the element width (bits) that a
    merge-mask refers to -/
def vec3 (mn : Mn) (vl a b : Nat) : Option (Nat × Nat) :=
  match mn with
  | .VPXORD => some (map2 32 (vl / 4) (fun x y => y ^^^ x) a b, 32)
  | .VPANDD => some (map2 32 (vl / 4) (fun x y => y &&& x) a b, 32)
  | .VPADDD => some (map2 32 (vl / 4) (fun x y => (y + x) % 2 ^ 32) a b, 32)
  | .VPSHUFB => some (vpshufb vl a b, 8)
  | .VPUNPCKLDQ => some (map2 128 (vl / 16) unpckldq a b, 32)
  | .VPUNPCKHDQ => some (map2 128 (vl / 16) unpckhdq a b, 32)
  | .VPUNPCKLQDQ => some (map2 128 (vl / 16) unpcklqdq a b, 64)
  | .VPUNPCKHQDQ => some (map2 128 (vl / 16) unpckhqdq a b, 64)
  | .VPERMQ =>
    -- VPERMQ tbl, idx, [k,] dst (Intel: dst {k}, src1 = idx, src2 = tbl): over the whole register
    if vl = 32 ∨ vl = 64 then
      some (map1 64 (vl / 8) (fun i => lane 64 (i % (vl / 8)) a) b, 64)
    else none
  | _ => none

/-- `OP $imm8, a, dst` on `vl` bytes -/
def vecImm (mn : Mn) (vl imm8 a : Nat) : Option Nat :=
  match mn with
  | .VPROLD => some (map1 32 (vl / 4) (rotl32 imm8) a)
  | .VPSLLDQ => some (map1 128 (vl / 16) (fun x => (x <<< (8 * imm8)) % 2 ^ 128) a)
  | .VPSRLDQ => some (map1 128 (vl / 16) (fun x => x >>> (8 * imm8)) a)
  | .VPSRLW => some (map1 16 (vl / 2) (fun x => x >>> imm8) a)
  | .VPSLLQ => some (map1 64 (vl / 8) (fun x => (x <<< imm8) % 2 ^ 64) a)
  | .VPERMQ =>
    -- VPERMQ $imm8, src, dst: within each 256-bit lane, qword i := src.qword[imm8[2i+1:2i]]
    if vl = 32 ∨ vl = 64 then
      some (map1 256 (vl / 32) (fun l => unlanes 64 ((List.range 4).map (fun i => lane 64 ((imm8 >>> (2 * i)) % 4) l))) a)
    else none
  | _ => none

/-- `OP $imm8, a, b, dst` on `vl` bytes -/
def vecImm2 (mn : Mn) (vl imm8 a b : Nat) : Option Nat :=
  match mn with
  | .VGF2P8AFFINEQB => some (gfAffine false vl imm8 a b)        -- a = matrix, b = source bytes
  | .VGF2P8AFFINEINVQB => some (gfAffine true vl imm8 a b)
  | .VPCLMULQDQ =>
    -- Intel: dst, src1 = b, src2 = a, imm8: per 128-bit lane clmul(src1.qword[imm8[0]], src2.qword[imm8[4]])
    some (map2 128 (vl / 16) (fun x y => clmul (lane 64 (bit imm8 0) y) (lane 64 (bit imm8 4) x)) a b)
  | .VALIGND =>
    -- Intel: dst, src1 = b, src2 = a, imm8: ((src1 : src2) >> 32·(imm8 mod (vl/4))) truncated to vl bytes
    some (((b * 2 ^ (8 * vl) + a % 2 ^ (8 * vl)) >>> (32 * (imm8 % (vl / 4)))) % 2 ^ (8 * vl))
  | _ => none

/-! ## 4. Machine state -/

structure Region where
  name : String
  bytes : List Nat
  writable : Bool
deriving Repr, DecidableEq

/-- condition flags; `none` = undefined (reading it is an error) -/
structure Flags where
  zf : Option Bool
  sf : Option Bool
  cf : Option Bool
  of : Option Bool
deriving Repr, DecidableEq

structure State where
  gpr : List Nat                 -- 16 values < 2^64
  vec : List Nat                 -- 32 values < 2^512
  kreg : List Nat                -- 8 values < 2^64
  flags : Flags
  mem : List Region              -- region i: addresses (i+1)·2^32 + [0, bytes.length)
  syms : List (String × Nat)     -- read-only symbol ↦ address
  frame : List (String × Nat)    -- argument / result slot ↦ value
deriving Repr, DecidableEq

inductive Next where
  | fall
  | jump (pc : Nat)
  | ret
deriving Repr, DecidableEq

def regionBase (i : Nat) : Nat := (i + 1) * 2 ^ 32

def getG (s : State) (n : Nat) : Except String Nat :=
  match s.gpr[n]? with
  | some v => .ok v
  | none => .error "no such general register"

def setG (s : State) (n v : Nat) : Except String State :=
  if n < s.gpr.length then .ok { s with gpr := s.gpr.set n v }
  else .error "no such general register"

def getV (s : State) (n : Nat) : Except String Nat :=
  match s.vec[n]? with
  | some v => .ok v
  | none => .error "no such vector register"

def setV (s : State) (n v : Nat) : Except String State :=
  if n < s.vec.length then .ok { s with vec := s.vec.set n v }
  else .error "no such vector register"

def getK (s : State) (n : Nat) : Except String Nat :=
  match s.kreg[n]? with
  | some v => .ok v
  | none => .error "no such opmask register"

def setK (s : State) (n v : Nat) : Except String State :=
  if n < s.kreg.length then .ok { s with kreg := s.kreg.set n v }
  else .error "no such opmask register"

def lookup (l : List (String × Nat)) (name : String) : Option Nat :=
  match l with
  | [] => none
  | (k, v) :: rest => if k = name then some v else lookup rest name

def setSlot (l : List (String × Nat)) (name : String) (f : Nat → Nat) : Option (List (String × Nat)) :=
  match l with
  | [] => none
  | (k, v) :: rest =>
    if k = name then some ((k, f v) :: rest) else (setSlot rest name f).map ((k, v) :: ·)

/-- read `n` bytes at `addr` -/
def readMem (mem : List Region) (addr n : Nat) : Except String (List Nat) :=
  let r := addr / 2 ^ 32
  let off := addr % 2 ^ 32
  if r = 0 then .error "access below the first region (nil pointer?)" else
  match mem[r - 1]? with
  | none => .error "access outside every region"
  | some reg =>
    if off + n ≤ reg.bytes.length then .ok ((reg.bytes.drop off).take n)
    else .error ("read past the end of region " ++ reg.name)

/-- write the bytes `bs` at `addr` -/
def writeMem (mem : List Region) (addr : Nat) (bs : List Nat) : Except String (List Region) :=
  let r := addr / 2 ^ 32
  let off := addr % 2 ^ 32
  if r = 0 then .error "access below the first region (nil pointer?)" else
  match mem[r - 1]? with
  | none => .error "access outside every region"
  | some reg =>
    if !reg.writable then .error ("write to read-only region " ++ reg.name) else
    if off + bs.length ≤ reg.bytes.length then
      .ok (mem.set (r - 1) ⟨reg.name, reg.bytes.take off ++ bs ++ reg.bytes.drop (off + bs.length), true⟩)
    else .error ("write past the end of region " ++ reg.name)

/-- little-endian value of `n` bytes at `addr` -/
def loadLE (s : State) (addr n : Nat) : Except String Nat :=
  (readMem s.mem addr n).map (unlanes 8)

def storeLE (s : State) (addr n v : Nat) : Except String State :=
  (writeMem s.mem addr (lanes 8 n v)).map (fun m => { s with mem := m })

/-- 64-bit two's complement of an immediate -/
def imm64 (v : Int) : Nat := (v % (2 ^ 64 : Int)).toNat

/-- `disp(base)(index*scale)` -/
def effAddr (s : State) (base : Reg) (index : Option Reg) (scale : Nat) (disp : Int) : Except String Nat :=
  match base with
  | .gpr b => do
    let bv ← getG s b
    let iv ← match index with
      | none => pure 0
      | some (.gpr i) => do let x ← getG s i; pure (x * scale)
      | some _ => .error "index register is not a general register"
    pure ((bv + iv + imm64 disp) % 2 ^ 64)
  | _ => .error "base register is not a general register"

/-! ## 5. Integer ALU with flags -/

def msb (w v : Nat) : Bool := (v >>> (8 * w - 1)) % 2 = 1

def logicFlags (w r : Nat) : Flags := ⟨some (r == 0), some (msb w r), some false, some false⟩

/-- `a + b` on `w` bytes -/
def addF (w a b : Nat) : Nat × Flags :=
  let m := 2 ^ (8 * w)
  let r := (a + b) % m
  (r, ⟨some (r == 0), some (msb w r), some (decide (a + b ≥ m)),
       some ((msb w a == msb w b) && (msb w r != msb w a))⟩)

/-- `a - b` on `w` bytes (also CMP) -/
def subF (w a b : Nat) : Nat × Flags :=
  let m := 2 ^ (8 * w)
  let r := (a + m - b) % m
  (r, ⟨some (r == 0), some (msb w r), some (decide (a < b)),
       some ((msb w a != msb w b) && (msb w r != msb w a))⟩)

/-- signed / equality conditions of Jcc -/
def cond (mn : Mn) (f : Flags) : Except String Bool :=
  let need (o : Option Bool) : Except String Bool :=
    match o with | some b => .ok b | none => .error "branch on an undefined flag"
  match mn with
  | .JEQ => need f.zf
  | .JNE => do let z ← need f.zf; pure (!z)
  | .JLT => do let s ← need f.sf; let o ← need f.of; pure (s != o)
  | .JGE => do let s ← need f.sf; let o ← need f.of; pure (s == o)
  | .JGT => do let z ← need f.zf; let s ← need f.sf; let o ← need f.of; pure (!z && s == o)
  | .JLE => do let z ← need f.zf; let s ← need f.sf; let o ← need f.of; pure (z || s != o)
  | _ => .error "not a conditional branch"

/-- two-operand integer arithmetic `OP src, dst` on `w` bytes: new destination value and flags
    (`none` for the flags = unchanged) -/
def alu (mn : Mn) (w src dst : Nat) (old : Flags) : Except String (Nat × Flags) :=
  match mn with
  | .ADDQ => .ok (addF w dst src)
  | .SUBQ => .ok (subF w dst src)
  | .ANDQ => let r := dst &&& src; .ok (r, logicFlags w r)
  | .ORQ | .ORB => let r := dst ||| src; .ok (r, logicFlags w r)
  | .XORQ | .XORB => let r := dst ^^^ src; .ok (r, logicFlags w r)
  | .SHLQ =>
    let c := src % 64
    if c = 0 then .ok (dst, old) else
    let r := (dst <<< c) % 2 ^ 64
    let cf := bit dst (64 - c) = 1
    .ok (r, ⟨some (r == 0), some (msb 8 r), some cf, if c = 1 then some (msb 8 r != cf) else none⟩)
  | .SHRQ =>
    let c := src % 64
    if c = 0 then .ok (dst, old) else
    let r := dst >>> c
    .ok (r, ⟨some (r == 0), some (msb 8 r), some (bit dst (c - 1) = 1), if c = 1 then some (msb 8 dst) else none⟩)
  | _ => .error "not an ALU mnemonic"

/-- operand width in bytes of the integer mnemonics -/
def aluWidth (mn : Mn) : Nat :=
  match mn with
  | .ORB | .XORB | .MOVB => 1
  | .MOVW => 2
  | .MOVL => 4
  | _ => 8

/-- write the low `w` bytes of a general register: 8 = whole register, 4 = zero-extended (x86-64 rule for
    32-bit destinations), 1 and 2 = the other bits are kept -/
def mergeG (w old v : Nat) : Nat :=
  if w = 8 then v % 2 ^ 64
  else if w = 4 then v % 2 ^ 32
  else old - old % 2 ^ (8 * w) + v % 2 ^ (8 * w)

/-! ## 6. One instruction -/

/-- decoded instruction -/
structure DInstr where
  pc : Nat
  mn : Mn
  ops : List Opd
  vw : Nat
deriving Repr, DecidableEq

def decode (i : Instr) : Except String DInstr :=
  match Mn.ofString i.mn with
  | some mn => .ok ⟨i.pc, mn, i.ops, i.vw⟩
  | none => .error ("unknown mnemonic " ++ i.mn)

def badShape : Except String α := .error "operand shape not covered"

def validVl (vl : Nat) : Bool := vl == 16 || vl == 32 || vl == 64

/-- masked dword load: only the selected dwords are read -/
def loadMasked (s : State) (addr k old : Nat) (n : Nat) : Except String (List Nat) :=
  (List.range n).mapM (fun j =>
    if (k >>> j) % 2 = 1 then loadLE s (addr + 4 * j) 4 else pure (lane 32 j old))

/-- masked dword store: only the selected dwords are written -/
def storeMasked (s : State) (addr k v : Nat) (n : Nat) : Except String State :=
  (List.range n).foldlM (fun s j =>
    if (k >>> j) % 2 = 1 then storeLE s (addr + 4 * j) 4 (lane 32 j v) else pure s) s

/-! ### vector instructions with register operands -/

/-- `OP a, b, dst` and `OP a, b, k, dst` -/
def exVec3 (s : State) (mn : Mn) (vl : Nat) (ops : List Opd) : Except String State :=
  if !validVl vl then .error "vector length" else
  match ops with
  | [.reg (.vec a), .reg (.vec b), .reg (.vec d)] => do
    let av ← getV s a
    let bv ← getV s b
    match vec3 mn vl av bv with
    | some (r, _) => setV s d r
    | none => badShape
  | [.reg (.vec a), .reg (.vec b), .reg (.k k), .reg (.vec d)] =>
    -- merge-masked forms occurring in the listings
    if mn = .VPSHUFB ∨ mn = .VPERMQ then do
      let av ← getV s a
      let bv ← getV s b
      let kv ← getK s k
      let old ← getV s d
      match vec3 mn vl av bv with
      | some (r, w) => setV s d (mergeMask w (8 * vl / w) kv r old)
      | none => badShape
    else badShape
  | _ => badShape

/-- `OP $imm8, a, dst` -/
def exVecImm (s : State) (mn : Mn) (vl : Nat) (ops : List Opd) : Except String State :=
  if !validVl vl then .error "vector length" else
  match ops with
  | [.imm v, .reg (.vec a), .reg (.vec d)] => do
    let av ← getV s a
    match vecImm mn vl (imm64 v % 256) av with
    | some r => setV s d r
    | none => badShape
  | _ => badShape

/-- `OP $imm8, a, b, dst` -/
def exVecImm2 (s : State) (mn : Mn) (vl : Nat) (ops : List Opd) : Except String State :=
  if !validVl vl then .error "vector length" else
  match ops with
  | [.imm v, .reg (.vec a), .reg (.vec b), .reg (.vec d)] => do
    let av ← getV s a
    let bv ← getV s b
    match vecImm2 mn vl (imm64 v % 256) av bv with
    | some r => setV s d r
    | none => badShape
  | _ => badShape

/-! ### vector moves -/

/-- VMOVDQU32: load, masked load, store, masked store (dword granularity) -/
def exVmovdqu32 (s : State) (vl : Nat) (ops : List Opd) : Except String State :=
  if !validVl vl then .error "vector length" else
  match ops with
  | [.mem base idx sc disp, .reg (.vec d)] => do
    let addr ← effAddr s base idx sc disp
    let v ← loadLE s addr vl
    setV s d v
  | [.mem base idx sc disp, .reg (.k k), .reg (.vec d)] => do
    let addr ← effAddr s base idx sc disp
    let kv ← getK s k
    let old ← getV s d
    let ds ← loadMasked s addr kv old (vl / 4)
    setV s d (unlanes 32 ds)
  | [.reg (.vec a), .mem base idx sc disp] => do
    let addr ← effAddr s base idx sc disp
    let av ← getV s a
    storeLE s addr vl av
  | [.reg (.vec a), .reg (.k k), .mem base idx sc disp] => do
    let addr ← effAddr s base idx sc disp
    let av ← getV s a
    let kv ← getK s k
    storeMasked s addr kv av (vl / 4)
  | _ => badShape

/-- VMOVDQA64 / VMOVAPD register to register -/
def exVmovReg (s : State) (vl : Nat) (ops : List Opd) : Except String State :=
  if !validVl vl then .error "vector length" else
  match ops with
  | [.reg (.vec a), .reg (.vec d)] => do
    let av ← getV s a
    setV s d (av % 2 ^ (8 * vl))
  | _ => badShape

/-- VPBROADCASTD from the low dword of a vector or general register -/
def exBroadcastD (s : State) (vl : Nat) (ops : List Opd) : Except String State :=
  if !validVl vl then .error "vector length" else
  match ops with
  | [.reg (.vec a), .reg (.vec d)] => do
    let av ← getV s a
    setV s d (unlanes 32 (List.replicate (vl / 4) (av % 2 ^ 32)))
  | [.reg (.gpr a), .reg (.vec d)] => do
    let av ← getG s a
    setV s d (unlanes 32 (List.replicate (vl / 4) (av % 2 ^ 32)))
  | _ => badShape

/-- VBROADCASTI32X2 m64 (`w` = 8) / VBROADCASTI32X4 m128 (`w` = 16) -/
def exBroadcastMem (s : State) (w vl : Nat) (ops : List Opd) : Except String State :=
  if !validVl vl || vl < 2 * w && w == 16 then .error "vector length" else
  match ops with
  | [.mem base idx sc disp, .reg (.vec d)] => do
    let addr ← effAddr s base idx sc disp
    let v ← loadLE s addr w
    setV s d (unlanes (8 * w) (List.replicate (vl / w) v))
  | _ => badShape

/-- PSLLO (= PSLLDQ xmm, imm8; legacy SSE: bits 128… kept) -/
def exPsllo (s : State) (ops : List Opd) : Except String State :=
  match ops with
  | [.imm v, .reg (.vec d)] => do
    let old ← getV s d
    setV s d (old - old % 2 ^ 128 + ((old % 2 ^ 128) <<< (8 * (imm64 v % 256))) % 2 ^ 128)
  | _ => badShape

def exKmovw (s : State) (ops : List Opd) : Except String State :=
  match ops with
  | [.reg (.gpr a), .reg (.k d)] => do
    let v ← getG s a
    setK s d (v % 2 ^ 16)
  | _ => badShape

/-! ### general moves -/

def exLeaq (s : State) (ops : List Opd) : Except String State :=
  match ops with
  | [.sym name off, .reg (.gpr d)] =>
    match lookup s.syms name with
    | some a => setG s d (a + off)
    | none => .error ("unknown symbol " ++ name)
  | _ => badShape

def writeSlot (s : State) (name : String) (f : Nat → Nat) : Except String State :=
  match setSlot s.frame name f with
  | some fr => .ok { s with frame := fr }
  | none => .error ("unknown frame slot " ++ name)

/-- MOVQ / MOVL / MOVW / MOVB (`w` = 8, 4, 2, 1 bytes) -/
def exMov (s : State) (mn : Mn) (ops : List Opd) : Except String State :=
  let w := aluWidth mn
  match ops with
  /- legacy SSE forms: bits 128… of the register are kept -/
  | [.mem base idx sc disp, .reg (.vec d)] =>            -- MOVD xmm, m32
    if mn = .MOVL then do
      let addr ← effAddr s base idx sc disp
      let v ← loadLE s addr 4
      let old ← getV s d
      setV s d (old - old % 2 ^ 128 + v)
    else badShape
  | [.reg (.gpr a), .reg (.vec d)] =>                     -- MOVQ xmm, r64
    if mn = .MOVQ then do
      let v ← getG s a
      let old ← getV s d
      setV s d (old - old % 2 ^ 128 + v % 2 ^ 64)
    else badShape
  /- frame slots -/
  | [.frame name _, .reg (.gpr d)] =>
    if mn = .MOVQ then
      match lookup s.frame name with
      | some v => setG s d v
      | none => .error ("unknown frame slot " ++ name)
    else badShape
  | [.imm v, .frame name _] =>
    if mn = .MOVQ then writeSlot s name (fun _ => imm64 v) else badShape
  | [.reg (.gpr a), .frame name _] =>
    if mn = .MOVQ then do
      let v ← getG s a
      writeSlot s name (fun _ => v)
    else if mn = .MOVL then do
      let v ← getG s a
      writeSlot s name (fun old => old - old % 2 ^ 32 + v % 2 ^ 32)
    else badShape
  /- registers and memory -/
  | [.imm v, .reg (.gpr d)] =>
    if mn = .MOVQ then setG s d (imm64 v)
    else if mn = .MOVL then setG s d (imm64 v % 2 ^ 32)
    else badShape
  | [.reg (.gpr a), .reg (.gpr d)] =>
    if mn = .MOVQ then do
      let v ← getG s a
      setG s d v
    else badShape
  | [.mem base idx sc disp, .reg (.gpr d)] => do
    let addr ← effAddr s base idx sc disp
    let v ← loadLE s addr w
    let old ← getG s d
    setG s d (mergeG w old v)
  | [.reg (.gpr a), .mem base idx sc disp] => do
    let addr ← effAddr s base idx sc disp
    let v ← getG s a
    storeLE s addr w v
  | [.imm v, .mem base idx sc disp] =>
    if mn = .MOVQ ∨ mn = .MOVB then do
      let addr ← effAddr s base idx sc disp
      storeLE s addr w (imm64 v)
    else badShape
  | _ => badShape

/-! ### integer arithmetic -/

def withFlags (r : Except String State) (f : Flags) : Except String State :=
  r.map (fun s => { s with flags := f })

/-- ADDQ SUBQ ANDQ ORQ XORQ ORB XORB SHLQ SHRQ -/
def exAlu (s : State) (mn : Mn) (ops : List Opd) : Except String State :=
  let w := aluWidth mn
  match ops with
  | [.imm v, .reg (.gpr d)] =>
    if mn = .ADDQ ∨ mn = .SUBQ ∨ mn = .ANDQ ∨ mn = .SHLQ ∨ mn = .SHRQ then do
      let old ← getG s d
      let (r, f) ← alu mn 8 (imm64 v) old s.flags
      withFlags (setG s d r) f
    else badShape
  | [.reg (.gpr a), .reg (.gpr d)] =>
    if mn = .ADDQ ∨ mn = .SUBQ ∨ mn = .ORB then do
      let src ← getG s a
      let old ← getG s d
      let (r, f) ← alu mn w (src % 2 ^ (8 * w)) (old % 2 ^ (8 * w)) s.flags
      withFlags (setG s d (mergeG w old r)) f
    else badShape
  | [.mem base idx sc disp, .reg (.gpr d)] =>
    if mn = .ORB ∨ mn = .ORQ then do
      let addr ← effAddr s base idx sc disp
      let src ← loadLE s addr w
      let old ← getG s d
      let (r, f) ← alu mn w src (old % 2 ^ (8 * w)) s.flags
      withFlags (setG s d (mergeG w old r)) f
    else badShape
  | [.reg (.gpr a), .mem base idx sc disp] =>
    if mn = .XORB ∨ mn = .XORQ then do
      let addr ← effAddr s base idx sc disp
      let src ← getG s a
      let old ← loadLE s addr w
      let (r, f) ← alu mn w (src % 2 ^ (8 * w)) old s.flags
      withFlags (storeLE s addr w r) f
    else badShape
  | _ => badShape

/-- CMPQ a, b: the flags of `a - b` -/
def exCmpq (s : State) (ops : List Opd) : Except String State :=
  match ops with
  | [.reg (.gpr a), .imm v] => do
    let x ← getG s a
    pure { s with flags := (subF 8 x (imm64 v)).2 }
  | [.reg (.gpr a), .reg (.gpr b)] => do
    let x ← getG s a
    let y ← getG s b
    pure { s with flags := (subF 8 x y).2 }
  | _ => badShape

/-- a non-branching instruction -/
def execD (s : State) (i : DInstr) : Except String State :=
  match i.mn with
  | .VPXORD | .VPANDD | .VPADDD | .VPSHUFB | .VPUNPCKLDQ | .VPUNPCKHDQ | .VPUNPCKLQDQ | .VPUNPCKHQDQ =>
    exVec3 s i.mn i.vw i.ops
  | .VPROLD | .VPSLLDQ | .VPSRLDQ | .VPSRLW | .VPSLLQ => exVecImm s i.mn i.vw i.ops
  | .VPERMQ =>
    match i.ops with
    | .imm _ :: _ => exVecImm s i.mn i.vw i.ops
    | _ => exVec3 s i.mn i.vw i.ops
  | .VGF2P8AFFINEQB | .VGF2P8AFFINEINVQB | .VPCLMULQDQ | .VALIGND => exVecImm2 s i.mn i.vw i.ops
  | .VMOVDQU32 => exVmovdqu32 s i.vw i.ops
  | .VMOVDQA64 | .VMOVAPD => exVmovReg s i.vw i.ops
  | .VPBROADCASTD => exBroadcastD s i.vw i.ops
  | .VBROADCASTI32X2 => exBroadcastMem s 8 i.vw i.ops
  | .VBROADCASTI32X4 => exBroadcastMem s 16 i.vw i.ops
  | .PSLLO => exPsllo s i.ops
  | .KMOVW => exKmovw s i.ops
  | .LEAQ => exLeaq s i.ops
  | .MOVQ | .MOVL | .MOVW | .MOVB => exMov s i.mn i.ops
  | .ADDQ | .SUBQ | .ANDQ | .ORQ | .XORQ | .ORB | .XORB | .SHLQ | .SHRQ => exAlu s i.mn i.ops
  | .CMPQ => exCmpq s i.ops
  | .NOP => match i.ops with | [] => .ok s | _ => badShape
  | .JMP | .JEQ | .JNE | .JLT | .JGE | .JGT | .JLE | .RET => .error "control transfer"


/-- the branching mnemonics -/
def Mn.isControl (mn : Mn) : Bool :=
  match mn with
  | .JMP | .JEQ | .JNE | .JLT | .JGE | .JGT | .JLE | .RET => true
  | _ => false

/-- one decoded instruction: the new state and where to go -/
def stepD (s : State) (i : DInstr) : Except String (State × Next) :=
  if i.mn.isControl then
    match i.mn, i.ops with
    | .JMP, [.target pc] => .ok (s, .jump pc)
    | .RET, [] => .ok (s, .ret)
    | mn, [.target pc] => do
      let c ← cond mn s.flags
      pure (s, if c then .jump pc else .fall)
    | _, _ => badShape
  else
    (execD s i).map (fun s' => (s', Next.fall))

/-- one instruction of a listing -/
def step (s : State) (i : Instr) : Except String (State × Next) := do
  let d ← decode i
  stepD s d

/-- `exec`: the state after a non-branching instruction of a listing (a branch or RET is an error here) -/
def exec (s : State) (i : Instr) : Except String State := do
  let d ← decode i
  if d.mn.isControl then .error "control transfer" else execD s d

/-! ## 7. Running a routine -/

abbrev Routine := List DInstr

def Routine.ofListing (l : List Instr) : Except String Routine := l.mapM decode

/-- the instructions from byte offset `pc` on -/
def findPc (r : Routine) (pc : Nat) : Option (List DInstr) :=
  match r with
  | [] => none
  | i :: rest => if i.pc = pc then some (i :: rest) else findPc rest pc

/-- run the instructions `cur` (a suffix of the routine `r`) until `RET` -/
def runFrom (r : Routine) : Nat → List DInstr → State → Except String State
  | 0, _, _ => .error "out of fuel"
  | _ + 1, [], _ => .error "fell off the end of the routine"
  | fuel + 1, i :: rest, s =>
    match stepD s i with
    | .error e => .error (e ++ " at pc " ++ toString i.pc)
    | .ok (s', .fall) => runFrom r fuel rest s'
    | .ok (s', .jump pc) =>
      match findPc r pc with
      | some cur => runFrom r fuel cur s'
      | none => .error "branch target is not an instruction"
    | .ok (s', .ret) => .ok s'

def runRoutine (r : Routine) (fuel : Nat) (s : State) : Except String State := runFrom r fuel r s

/-- run a listing from its entry to `RET` -/
def run (l : List Instr) (fuel : Nat) (s : State) : Except String State := do
  let r ← Routine.ofListing l
  runRoutine r fuel s

/-! ## 8. Building states -/

/-- a state whose memory is the read-only symbols followed by the argument regions; registers hold the
    given initial values (the routines must not depend on them), flags undefined -/
def mkState (gpr vec kreg : List Nat) (syms : List (String × List Nat)) (args : List Region)
    (frame : List (String × Nat)) : State :=
  { gpr := gpr, vec := vec, kreg := kreg, flags := ⟨none, none, none, none⟩,
    mem := syms.map (fun (n, b) => ⟨n, b, false⟩) ++ args,
    syms := (List.range syms.length).zipWith (fun i (n, _) => (n, regionBase i)) syms,
    frame := frame }

/-- address of the argument region number `j` (0-based, after `nsyms` symbols) -/
def argBase (nsyms j : Nat) : Nat := regionBase (nsyms + j)

/-- bytes of the region called `name` -/
def regionBytes (s : State) (name : String) : Option (List Nat) :=
  (s.mem.find? (fun r => r.name == name)).map (·.bytes)

/-- junk register contents used by the driver -/
def junkG : List Nat := (List.range 16).map (fun i => 0xDEAD0000BEEF0000 + 0x0101010101 * i)
def junkV : List Nat := (List.range 32).map (fun i => unlanes 8 (List.replicate 64 (0xA0 + i)))
def junkK : List Nat := (List.range 8).map (fun i => 0xFFFF - i)

end SMGo.Model.ISAVal
