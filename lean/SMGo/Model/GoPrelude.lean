/-
  Hand-written prelude of the Go-to-Lean translator `gosm3` (go/cmd/translate/gosm3.go): the meaning of the
  Go constructs that the generated file `SMGo/Gen/SM3Code.lean` refers to by name.  Core Lean only.

  Representation (stated once, used by the generated code and by the theorems of Props/C04Gen.lean):

    Go type                     Lean type
    uint32                      BitVec 32          (+, -, *, <<, >> wrap/truncate exactly as in Go)
    uint64                      BitVec 64
    byte / uint8                UInt8
    int                         Int                (mathematical integers: faithful as long as no `int`
                                                    operation overflows 64 bits; every int in sm3.go is a
                                                    literal, a loop counter with literal bounds, a length, a
                                                    copy count, or the field nx plus/minus those)
    [N]T, []T, *[N]T            Array T            (value semantics; a slice is the array of its elements;
                                                    capacity is not modelled, `s[:n]` needs n ≤ len(s))
    error                       Option String      (nil = none)
    a call that may panic       Res α              (ok a | panic why); every index, slice, copy and
                                                    encoding/binary access carries Go's bounds check

  Nothing here defaults an out-of-range access: `get`, `set`, `slice`, `copyAt`, `beUint32`,
  `bePutUint32At`, `bePutUint64At` return `panic` where Go panics.
-/
import SMGo.Spec.Bytes
namespace SMGo.Go

/-- result of a Go call: a value or a run-time panic -/
inductive Res (α : Type) where
  | ok : α → Res α
  | panic : String → Res α
deriving DecidableEq, Repr

namespace Res

@[inline] protected def bind {α β : Type} (x : Res α) (f : α → Res β) : Res β :=
  match x with
  | .ok a => f a
  | .panic s => .panic s

instance : Monad Res where
  pure := .ok
  bind := Res.bind

@[simp] theorem bind_ok {α β} (a : α) (f : α → Res β) : (Res.ok a >>= f) = f a := rfl
@[simp] theorem bind_panic {α β} (s : String) (f : α → Res β) : ((Res.panic s : Res α) >>= f) = .panic s := rfl
@[simp] theorem pure_eq {α} (a : α) : (pure a : Res α) = .ok a := rfl
@[simp] theorem map_ok {α β} (g : α → β) (a : α) : g <$> (Res.ok a) = .ok (g a) := rfl

instance : LawfulMonad Res := LawfulMonad.mk'
  (id_map := fun x => by cases x <;> rfl)
  (pure_bind := fun _ _ => rfl)
  (bind_assoc := fun x _ _ => by cases x <;> rfl)

end Res

/-- Go's `error`; only `nil` occurs -/
abbrev Error := Option String

/-- `len(a)` -/
def len {α : Type} (a : Array α) : Int := a.size

/-- `a[i]` -/
def get {α : Type} (a : Array α) (i : Int) : Res α :=
  if h : 0 ≤ i ∧ i.toNat < a.size then .ok a[i.toNat] else .panic "index out of range"

/-- `a[i] = v` -/
def set {α : Type} (a : Array α) (i : Int) (v : α) : Res (Array α) :=
  if h : 0 ≤ i ∧ i.toNat < a.size then .ok (a.set i.toNat v h.2) else .panic "index out of range"

/-- `a[lo:hi]` as a value (the bounds are checked against the length, not the capacity) -/
def slice {α : Type} (a : Array α) (lo hi : Int) : Res (Array α) :=
  if 0 ≤ lo ∧ lo ≤ hi ∧ hi ≤ a.size then .ok (a.extract lo.toNat hi.toNat) else .panic "slice bounds out of range"

/-- `copy(dst[lo:hi], src)` where `src` does not overlap `dst`: the new `dst` and the count -/
def copyAt {α : Type} (dst : Array α) (lo hi : Int) (src : Array α) : Res (Array α × Int) :=
  if 0 ≤ lo ∧ lo ≤ hi ∧ hi ≤ dst.size then
    let n := min (hi.toNat - lo.toNat) src.size
    .ok (dst.extract 0 lo.toNat ++ src.extract 0 n ++ dst.extract (lo.toNat + n) dst.size, (n : Int))
  else .panic "slice bounds out of range"

/-- `binary.BigEndian.Uint32(b)` -/
def beUint32 (b : Array UInt8) : Res (BitVec 32) :=
  if h : 3 < b.size then .ok (be32 b[0] b[1] b[2] b[3]) else .panic "index out of range"

/-- `binary.BigEndian.PutUint32(dst[lo:hi], v)` -/
def bePutUint32At (dst : Array UInt8) (lo hi : Int) (v : BitVec 32) : Res (Array UInt8) :=
  if 0 ≤ lo ∧ lo ≤ hi ∧ hi ≤ dst.size ∧ 4 ≤ hi - lo then
    .ok (dst.extract 0 lo.toNat ++ (w32Bytes v).toArray ++ dst.extract (lo.toNat + 4) dst.size)
  else .panic "index out of range"

/-- `binary.BigEndian.PutUint64(dst[lo:hi], v)` -/
def bePutUint64At (dst : Array UInt8) (lo hi : Int) (v : BitVec 64) : Res (Array UInt8) :=
  if 0 ≤ lo ∧ lo ≤ hi ∧ hi ≤ dst.size ∧ 8 ≤ hi - lo then
    .ok (dst.extract 0 lo.toNat ++ (Bytes.ofNatBE 8 v.toNat).toArray ++ dst.extract (lo.toNat + 8) dst.size)
  else .panic "index out of range"

/-- `uint64(i)` for an `int` -/
def u64OfInt (i : Int) : BitVec 64 := BitVec.ofInt 64 i

/-! ### the obvious specifications, on lists -/

private theorem take_drop_all {α : Type} (l : List α) (k : Nat) :
    List.take (l.length - k) (List.drop k l) = List.drop k l :=
  List.take_of_length_le (by simp)

theorem len_eq {α : Type} (a : Array α) : len a = (a.toList.length : Int) := by simp [len]

theorem get_ok {α : Type} (a : Array α) (i : Int) (d : α) (h0 : 0 ≤ i) (h1 : i.toNat < a.size) :
    get a i = .ok (a.toList.getD i.toNat d) := by
  have : a.toList.getD i.toNat d = a[i.toNat] := by
    simp [List.getD_eq_getElem?_getD, h1]
  simp [get, h0, h1]

theorem set_ok {α : Type} (a : Array α) (i : Int) (v : α) (h0 : 0 ≤ i) (h1 : i.toNat < a.size) :
    set a i v = .ok (a.toList.set i.toNat v).toArray := by
  simp [set, h0, h1]
  apply Array.ext' ; simp

theorem slice_ok {α : Type} (a : Array α) (lo hi : Int) (h0 : 0 ≤ lo) (h1 : lo ≤ hi) (h2 : hi.toNat ≤ a.size) :
    slice a lo hi = .ok ((a.toList.drop lo.toNat).take (hi.toNat - lo.toNat)).toArray := by
  have : hi ≤ (a.size : Int) := by omega
  simp only [slice, h0, h1, this, and_self, if_true]
  congr 1
  apply Array.ext'
  simp

theorem slice_full {α : Type} (a : Array α) : slice a 0 (len a) = .ok a := by
  simp [slice, len]

theorem copyAt_ok {α : Type} (dst : Array α) (lo hi : Int) (src : Array α)
    (h0 : 0 ≤ lo) (h1 : lo ≤ hi) (h2 : hi.toNat ≤ dst.size) :
    copyAt dst lo hi src =
      .ok ((dst.toList.take lo.toNat ++ src.toList.take (min (hi.toNat - lo.toNat) src.size)
              ++ dst.toList.drop (lo.toNat + min (hi.toNat - lo.toNat) src.size)).toArray,
           ((min (hi.toNat - lo.toNat) src.size : Nat) : Int)) := by
  have : hi ≤ (dst.size : Int) := by omega
  simp only [copyAt, h0, h1, this, and_self, if_true]
  congr 2
  apply Array.ext'
  simpa using take_drop_all dst.toList _

theorem beUint32_ok (b : Array UInt8) (h : b.size = 4) :
    beUint32 b = .ok (be32 (b.toList.getD 0 0) (b.toList.getD 1 0) (b.toList.getD 2 0) (b.toList.getD 3 0)) := by
  have h3 : 3 < b.size := by omega
  have h0 : 0 < b.size := by omega
  have h1 : 1 < b.size := by omega
  have h2 : 2 < b.size := by omega
  simp [beUint32, h0, h1, h2, h3, List.getD_eq_getElem?_getD]

theorem bePutUint32At_ok (dst : Array UInt8) (lo hi : Int) (v : BitVec 32)
    (h0 : 0 ≤ lo) (h1 : lo + 4 ≤ hi) (h2 : hi.toNat ≤ dst.size) :
    bePutUint32At dst lo hi v =
      .ok (dst.toList.take lo.toNat ++ w32Bytes v ++ dst.toList.drop (lo.toNat + 4)).toArray := by
  have a1 : hi ≤ (dst.size : Int) := by omega
  have a2 : lo ≤ hi := by omega
  have a3 : 4 ≤ hi - lo := by omega
  simp only [bePutUint32At, h0, a1, a2, a3, and_self, if_true]
  congr 1
  apply Array.ext'
  simpa using take_drop_all dst.toList _

theorem bePutUint64At_ok (dst : Array UInt8) (lo hi : Int) (v : BitVec 64)
    (h0 : 0 ≤ lo) (h1 : lo + 8 ≤ hi) (h2 : hi.toNat ≤ dst.size) :
    bePutUint64At dst lo hi v =
      .ok (dst.toList.take lo.toNat ++ Bytes.ofNatBE 8 v.toNat ++ dst.toList.drop (lo.toNat + 8)).toArray := by
  have a1 : hi ≤ (dst.size : Int) := by omega
  have a2 : lo ≤ hi := by omega
  have a3 : 8 ≤ hi - lo := by omega
  simp only [bePutUint64At, h0, a1, a2, a3, and_self, if_true]
  congr 1
  apply Array.ext'
  simpa using take_drop_all dst.toList _

theorem u64OfInt_natCast (n : Nat) : (u64OfInt (n : Int)).toNat = n % 2 ^ 64 := by
  simp [u64OfInt]

end SMGo.Go
