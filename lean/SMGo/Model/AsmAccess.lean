/-
  C11 (memory safety, PARTIAL): an ADDRESS interpreter for macro-expanded amd64 listings
  (`SMGo.Gen.ListAmd64*`, syntax in `SMGo.Model.ISAInstr`).

  What it is.  A fuel-bounded abstract interpreter of the general-purpose (integer) part of a routine.
  Register values are `int n` (a 64-bit word), `ptr region off` (a pointer into a named region: one region
  per pointer ARGUMENT, named after its frame slot, and one per read-only SYMBOL) or `unk`.  The frame
  valuation (which argument slot holds which pointer / which integer) is an input.  The interpreter executes
  MOVQ/MOVL/MOVW/MOVB, LEAQ, ADDQ, SUBQ, ANDQ, ORQ/ORB, XORQ/XORB, SHLQ, SHRQ, CMPQ, KMOVW, JMP, Jcc, NOP, RET
  with 64-bit wrap-around arithmetic and the flag semantics of CMP/SUB (signed conditions LT/LE/GT/GE, EQ, NE),
  treats every vector instruction as "no effect on the general-purpose state", and RECORDS every memory operand
  of every instruction as an access `(region, offset, width, read|write)`.

  Widths: 1/2/4/8 for MOVB/MOVW/MOVL/MOVQ and the B/Q ALU forms (a memory DESTINATION of an ALU instruction is
  a read followed by a write); the widest vector register named (`Instr.vw`) for full-width vector moves;
  the broadcast SOURCE width for VBROADCASTI32X2 (8), VBROADCASTI32X4 (16), VPBROADCASTD (4); for opmask-gated
  vector moves the hull of the enabled elements (the opmask registers are loaded from immediates through
  KMOVW, so their values are known; AVX-512 masked-out elements are not accessed and do not fault).

  Values loaded from memory are `unk`.  An `unk` reaching an address or a conditional jump stops the
  interpreter with an error, EXCEPT that the caller may hand in an explicit list of decisions (`oracle`) for
  branches on unknown flags: openAsm has exactly one such branch (tag matches / does not match: a public
  outcome) and the two runs are both checked.  With an empty oracle any data-dependent branch is an error.

  What it is NOT.  No paging, no alignment, no Go runtime, no stack; vector register contents are not
  modelled; vector instructions with a memory operand that are not in the small table below, and every
  mnemonic that is neither in the integer table nor a `V…` instruction, are REJECTED (`Err.unsupported`),
  never skipped silently.

  Core Lean only; everything is computable and evaluates in the kernel (`decide +kernel`).
-/
import SMGo.Model.ISAInstr

namespace SMGo.Model.AsmAccess
open SMGo.Model.ISA

/-! ## Values, regions, accesses -/

/-- 2^64 -/
def W : Nat := 18446744073709551616

/-- A memory region: the object a pointer argument points to (named after the argument's frame slot: the
    slot's offset as it appears in the listing, `name+off(FP)` ↦ `off+8`), or a read-only symbol
    (index into the symbol table given to `compile`). -/
inductive Region where
  | arg (slot : Nat)
  | sym (id : Nat)
deriving DecidableEq, Repr

def Region.beq : Region → Region → Bool
  | .arg a, .arg b => a == b
  | .sym a, .sym b => a == b
  | _, _ => false

instance : BEq Region := ⟨Region.beq⟩

inductive Val where
  | int (n : Nat)                       -- a 64-bit word, 0 ≤ n < 2^64
  | ptr (r : Region) (off : Nat)        -- address of byte `off` of region `r` (off is a 64-bit word: "negative" = huge)
  | unk
deriving DecidableEq, Repr

structure Access where
  region : Region
  off : Nat
  width : Nat
  write : Bool
deriving DecidableEq, Repr

def Access.beq (a b : Access) : Bool :=
  a.region == b.region && a.off == b.off && a.width == b.width && a.write == b.write

instance : BEq Access := ⟨Access.beq⟩

/-- the access lies inside its region, whose size is given by `size` -/
def Access.inBounds (size : Region → Nat) (a : Access) : Prop :=
  a.off + a.width ≤ size a.region

def Access.inBoundsB (size : Region → Nat) (a : Access) : Bool :=
  Nat.ble (a.off + a.width) (size a.region)

/-! ## Resolved instructions -/

inductive Alu where
  | add | sub | and | or | xor | shl | shr
deriving DecidableEq, Repr

inductive Cond where
  | lt | le | gt | ge | eq | ne
deriving DecidableEq, Repr

inductive COpd where
  | gpr (n : Nat)
  | kreg (n : Nat)
  | vec
  | imm (v : Nat)                                                   -- already reduced mod 2^64
  | mem (base : Nat) (idx : Option Nat) (scale : Nat) (disp : Nat)  -- gpr numbers; disp reduced mod 2^64
  | symMem (id : Nat) (off : Nat)                                   -- a load from read-only data
  | symAddr (id : Nat) (off : Nat)                                  -- the address of read-only data
  | frame (off : Nat)
  | bad
deriving DecidableEq, Repr

inductive CI where
  | skip                                                  -- vector instruction without memory operand / NOP
  | mov (w : Nat) (src dst : COpd)
  | lea (src dst : COpd)
  | alu (op : Alu) (w : Nat) (src dst : COpd)
  | cmp (a b : COpd)
  | kmov (src : COpd) (k : Nat)
  | jcc (c : Cond) (idx : Nat)                            -- idx: index of the target instruction
  | jmp (idx : Nat)
  | ret
  | vmem (w elt : Nat) (mask : Option Nat) (ops : List COpd)  -- vector instruction with a memory operand (last = destination)
  | clobber (r : Nat)                                     -- vector instruction writing a general-purpose register
  | unsupported
deriving Repr

structure CInstr where
  ci : CI
  pc : Nat
  line : Nat
deriving Repr

def wordOfInt : Int → Nat
  | .ofNat n => n % W
  | .negSucc n => W - 1 - n % W

/-- index of a symbol in the symbol table; `syms.length` if absent -/
def symIndex (syms : List String) (name : String) : Nat :=
  syms.findIdx (· == name)

def cOpd (syms : List String) : Opd → COpd
  | .reg (.gpr n) => .gpr n
  | .reg (.vec _) => .vec
  | .reg (.k n) => .kreg n
  | .regs _ => .bad
  | .imm v => .imm (wordOfInt v)
  | .mem (.gpr b) none s d => .mem b none s (wordOfInt d)
  | .mem (.gpr b) (some (.gpr i)) s d => .mem b (some i) s (wordOfInt d)
  | .mem _ _ _ _ => .bad
  | .sym name off =>
      let i := symIndex syms name
      if i < syms.length then .symMem i off else .bad
  | .symAddr name off =>
      let i := symIndex syms name
      if i < syms.length then .symAddr i off else .bad
  | .frame _ off => .frame off
  | .target _ => .bad

def COpd.isMem : COpd → Bool
  | .mem .. => true
  | .symMem .. => true
  | _ => false

def COpd.isBad : COpd → Bool
  | .bad => true
  | _ => false

/-- LEAQ sym<>(SB), R is how the assembler prints MOVQ $sym<>(SB), R: the operand is an address. -/
def COpd.asAddr : COpd → COpd
  | .symMem i o => .symAddr i o
  | o => o

/-- full-width vector moves: (element size in bytes) -/
def vecMoveElt (mn : String) : Option Nat :=
  if mn == "VMOVDQU32" then some 4
  else if mn == "VMOVDQA32" then some 4
  else if mn == "VMOVDQU64" then some 8
  else if mn == "VMOVDQA64" then some 8
  else if mn == "VMOVDQU8" then some 1
  else if mn == "VMOVDQU16" then some 2
  else if mn == "VMOVDQU" then some 1
  else if mn == "VMOVDQA" then some 1
  else if mn == "VMOVUPS" then some 4
  else if mn == "VMOVAPS" then some 4
  else if mn == "VMOVUPD" then some 8
  else if mn == "VMOVAPD" then some 8
  else none

/-- broadcasts from memory: source width in bytes -/
def vecBroadcastWidth (mn : String) : Option Nat :=
  if mn == "VBROADCASTI32X2" then some 8
  else if mn == "VBROADCASTI32X4" then some 16
  else if mn == "VPBROADCASTD" then some 4
  else if mn == "VPBROADCASTQ" then some 8
  else if mn == "VBROADCASTI64X2" then some 16
  else none

def firstKreg : List COpd → Option Nat
  | [] => none
  | .kreg k :: _ => some k
  | _ :: t => firstKreg t

def lastOpd : List COpd → COpd
  | [] => .bad
  | [x] => x
  | _ :: t => lastOpd t

def startsWithV (mn : String) : Bool :=
  match mn.toList with
  | 'V' :: _ => true
  | _ => false

def condOf (mn : String) : Option Cond :=
  if mn == "JLT" then some .lt
  else if mn == "JLE" then some .le
  else if mn == "JGT" then some .gt
  else if mn == "JGE" then some .ge
  else if mn == "JEQ" then some .eq
  else if mn == "JNE" then some .ne
  else none

def aluOf (mn : String) : Option (Alu × Nat) :=
  if mn == "ADDQ" then some (.add, 8)
  else if mn == "SUBQ" then some (.sub, 8)
  else if mn == "ANDQ" then some (.and, 8)
  else if mn == "ORQ" then some (.or, 8)
  else if mn == "XORQ" then some (.xor, 8)
  else if mn == "SHLQ" then some (.shl, 8)
  else if mn == "SHRQ" then some (.shr, 8)
  else if mn == "ORB" then some (.or, 1)
  else if mn == "XORB" then some (.xor, 1)
  else none

def movOf (mn : String) : Option Nat :=
  if mn == "MOVQ" then some 8
  else if mn == "MOVL" then some 4
  else if mn == "MOVW" then some 2
  else if mn == "MOVB" then some 1
  else none

/-- index of the instruction at byte offset `pc`; `pcs.length` if there is none -/
def pcIndex (pcs : List Nat) (pc : Nat) : Nat :=
  pcs.findIdx (· == pc)

/-- Resolve one instruction.  `pcs` = the byte offsets of all instructions of the routine, in order. -/
def compile1 (syms : List String) (pcs : List Nat) (i : Instr) : CInstr :=
  let ops := i.ops.map (cOpd syms)
  let mk (c : CI) : CInstr := ⟨c, i.pc, i.line⟩
  let tgt (k : Nat → CI) : CI :=
    match i.ops with
    | [.target t] =>
        let j := pcIndex pcs t
        if j < pcs.length then k j else .unsupported
    | _ => .unsupported
  match movOf i.mn with
  | some w =>
      (match ops with
       | [s, d] => if s.isBad || d.isBad then mk .unsupported else mk (.mov w s d)
       | _ => mk .unsupported)
  | none =>
  match aluOf i.mn with
  | some (op, w) =>
      (match ops with
       | [s, d] => if s.isBad || d.isBad then mk .unsupported else mk (.alu op w s d)
       | _ => mk .unsupported)
  | none =>
  match condOf i.mn with
  | some c => mk (tgt (.jcc c))
  | none =>
  if i.mn == "JMP" then mk (tgt .jmp)
  else if i.mn == "RET" then mk .ret
  else if i.mn == "NOP" then mk .skip
  else if i.mn == "CMPQ" then
    (match ops with
     | [a, b] => if a.isBad || b.isBad then mk .unsupported else mk (.cmp a b)
     | _ => mk .unsupported)
  else if i.mn == "LEAQ" then
    (match ops with
     | [s, .gpr d] => if s.isBad then mk .unsupported else mk (.lea s.asAddr (.gpr d))
     | _ => mk .unsupported)
  else if i.mn == "KMOVW" then
    (match ops with
     | [.gpr s, .kreg k] => mk (.kmov (.gpr s) k)
     | [.imm v, .kreg k] => mk (.kmov (.imm v) k)
     | _ => mk .unsupported)
  else if startsWithV i.mn || i.mn == "PSLLO" || i.mn == "PSRLO" then
    if ops.any COpd.isBad then mk .unsupported
    else if ops.any COpd.isMem then
      (match vecMoveElt i.mn with
       | some elt => mk (.vmem i.vw elt (firstKreg ops) ops)
       | none =>
         match vecBroadcastWidth i.mn with
         | some w =>
             (match firstKreg ops with
              | none => mk (.vmem w w none ops)
              | some _ => mk .unsupported)
         | none => mk .unsupported)
    else
      (match lastOpd ops with
       | .gpr r => mk (.clobber r)
       | .frame _ => mk .unsupported
       | _ => mk .skip)
  else mk .unsupported

/-- chunk size of the resolved program (jumps seek by chunk, then inside the chunk) -/
def chunkSize : Nat := 64

def chunkAux {α : Type} : Nat → List α → List α → List (List α) → List (List α)
  | _, [], cur, acc => (cur.reverse :: acc).reverse
  | 0, x :: xs, cur, acc => chunkAux (chunkSize - 1) xs [x] (cur.reverse :: acc)
  | n + 1, x :: xs, cur, acc => chunkAux n xs (x :: cur) acc

/-- split into chunks of exactly `chunkSize` elements (the last one may be shorter) -/
def chunk {α : Type} (l : List α) : List (List α) := chunkAux chunkSize l [] []

abbrev Prog := List (List CInstr)

def compile (syms : List String) (l : List Instr) : Prog :=
  let pcs := l.map (·.pc)
  chunk (l.map (compile1 syms pcs))

/-! ## State and execution -/

inductive Err where
  | fuel
  | fellOff                              -- ran past the last instruction
  | badJump (pc line : Nat)
  | unsupported (pc line : Nat)          -- instruction outside the interpreted fragment
  | unknownAddr (pc line : Nat)          -- address is not `ptr`
  | unknownBranch (pc line : Nat)        -- flags unknown and no oracle decision left
  | badFrame (pc line : Nat)             -- frame slot not in the valuation / outside the argument frame
  | badOperand (pc line : Nat)
deriving DecidableEq, Repr

/-- a recorded access together with the instruction that made it -/
structure Rec where
  pc : Nat
  line : Nat
  acc : Access
deriving Repr

structure St where
  regs : List Val               -- 16 general-purpose registers
  kregs : List Val              -- 8 opmask registers
  flags : Option (Nat × Nat)    -- operands (a, b) of the last CMPQ a, b / SUBQ b, a (both words); none = unknown
  frame : List (Nat × Val)      -- frame slot offset ↦ value
  frameEnd : Nat                -- 8 + argBytes: first byte after the argument frame
  oracle : List Bool            -- decisions ("taken") for branches on unknown flags
  acc : List Rec                -- recorded accesses, most recent first

def getReg (rs : List Val) (n : Nat) : Val := rs.getD n .unk

def lookupFrame : List (Nat × Val) → Nat → Option Val
  | [], _ => none
  | (k, v) :: t, off => if k == off then some v else lookupFrame t off

def Val.add : Val → Val → Val
  | .int a, .int b => .int ((a + b) % W)
  | .ptr r o, .int b => .ptr r ((o + b) % W)
  | .int a, .ptr r o => .ptr r ((a + o) % W)
  | _, _ => .unk

/-- `a - b` -/
def Val.sub : Val → Val → Val
  | .int a, .int b => .int ((a + W - b) % W)
  | .ptr r o, .int b => .ptr r ((o + W - b) % W)
  | .ptr r o, .ptr r' o' => if r == r' then .int ((o + W - o') % W) else .unk
  | _, _ => .unk

def aluEval (op : Alu) (dst src : Val) : Val :=
  match op with
  | .add => dst.add src
  | .sub => dst.sub src
  | .and => match dst, src with | .int a, .int b => .int (a &&& b) | _, _ => .unk
  | .or => match dst, src with | .int a, .int b => .int (a ||| b) | _, _ => .unk
  | .xor => match dst, src with | .int a, .int b => .int (a ^^^ b) | _, _ => .unk
  | .shl => match dst, src with | .int a, .int b => .int ((a <<< (b % 64)) % W) | _, _ => .unk
  | .shr => match dst, src with | .int a, .int b => .int (a >>> (b % 64)) | _, _ => .unk

/-- value written to a general-purpose register by a `w`-byte move -/
def truncTo (w : Nat) (v : Val) : Val :=
  if w == 8 then v
  else if w == 4 then (match v with | .int n => .int (n % 4294967296) | _ => .unk)
  else .unk

/-- signed comparison of two 64-bit words -/
def sLt (a b : Nat) : Bool := Nat.blt ((a + 9223372036854775808) % W) ((b + 9223372036854775808) % W)

/-- condition after `CMPQ a, b` (Go operand order: "a cond b") -/
def Cond.eval (c : Cond) (a b : Nat) : Bool :=
  match c with
  | .lt => sLt a b
  | .le => !(sLt b a)
  | .gt => sLt b a
  | .ge => !(sLt a b)
  | .eq => a == b
  | .ne => !(a == b)

/-- address denoted by a memory operand -/
def addrOf (st : St) : COpd → Option (Region × Nat)
  | .mem b none _ d =>
      (match getReg st.regs b with
       | .ptr r o => some (r, (o + d) % W)
       | _ => none)
  | .mem b (some i) s d =>
      (match getReg st.regs b, getReg st.regs i with
       | .ptr r o, .int x => some (r, (o + d + x * s) % W)
       | _, _ => none)
  | .symMem id off => some (.sym id, off)
  | _ => none

def St.record (st : St) (ci : CInstr) (a : Access) : St :=
  { st with acc := ⟨ci.pc, ci.line, a⟩ :: st.acc }

/-- read a `w`-byte source operand: its value and the state with the access recorded -/
def readOpd (ci : CInstr) (w : Nat) (st : St) : COpd → Except Err (Val × St)
  | .gpr n => .ok (getReg st.regs n, st)
  | .imm v => .ok (.int v, st)
  | .vec => .ok (.unk, st)
  | .kreg _ => .error (.badOperand ci.pc ci.line)
  | .symAddr id off => .ok (.ptr (.sym id) off, st)
  | .frame off =>
      if off + w ≤ st.frameEnd then
        match lookupFrame st.frame off with
        | some v => .ok (truncTo w v, st)
        | none => .error (.badFrame ci.pc ci.line)
      else .error (.badFrame ci.pc ci.line)
  | .bad => .error (.badOperand ci.pc ci.line)
  | o =>
      match addrOf st o with
      | some (r, off) => .ok (.unk, st.record ci ⟨r, off, w, false⟩)
      | none => .error (.unknownAddr ci.pc ci.line)

/-- write a `w`-byte destination operand -/
def writeOpd (ci : CInstr) (w : Nat) (st : St) (v : Val) : COpd → Except Err St
  | .gpr n => .ok { st with regs := st.regs.set n (truncTo w v) }
  | .vec => .ok st
  | .frame off =>
      if off + w ≤ st.frameEnd then .ok { st with frame := (off, truncTo w v) :: st.frame }
      else .error (.badFrame ci.pc ci.line)
  | .mem b i s d =>
      (match addrOf st (.mem b i s d) with
       | some (r, off) => .ok (st.record ci ⟨r, off, w, true⟩)
       | none => .error (.unknownAddr ci.pc ci.line))
  | _ => .error (.badOperand ci.pc ci.line)

def lowBitAux : Nat → Nat → Nat → Nat
  | 0, _, i => i
  | f + 1, m, i => if m % 2 == 1 then i else lowBitAux f (m / 2) (i + 1)

/-- index of the lowest set bit of a nonzero mask (< 2^64) -/
def lowBit (m : Nat) : Nat := lowBitAux 64 m 0

/-- the byte range touched by a vector move of `w` bytes in `elt`-byte elements under opmask value `m`:
    `none` if no element is enabled, else (offset of the first enabled element, length up to the last one) -/
def maskedRange (w elt m : Nat) : Option (Nat × Nat) :=
  let lanes := w / elt
  let bits := m % (2 ^ lanes)
  if bits == 0 then none
  else
    let lo := lowBit bits
    let hi := Nat.log2 bits
    some (elt * lo, elt * (hi + 1 - lo))

/-- record the memory operands of a vector instruction: the last operand is the destination -/
def vecAccesses (ci : CInstr) (w elt : Nat) (mask : Option Nat) : List COpd → St → Except Err St
  | [], st => .ok st
  | o :: rest, st =>
      if o.isMem then
        match addrOf st o with
        | none => .error (.unknownAddr ci.pc ci.line)
        | some (r, off) =>
          let isW := rest.isEmpty
          match mask with
          | none => vecAccesses ci w elt mask rest (st.record ci ⟨r, off, w, isW⟩)
          | some k =>
            match getReg st.kregs k with
            | .int m =>
              (match maskedRange w elt m with
               | none => vecAccesses ci w elt mask rest st
               | some (d, len) => vecAccesses ci w elt mask rest (st.record ci ⟨r, (off + d) % W, len, isW⟩))
            | _ => .error (.unknownAddr ci.pc ci.line)
      else vecAccesses ci w elt mask rest st

inductive StepR where
  | next (st : St)
  | goto (idx : Nat) (st : St)
  | done (st : St)
  | err (e : Err)

def branch (ci : CInstr) (c : Cond) (idx : Nat) (st : St) : StepR :=
  match st.flags with
  | some (a, b) => if c.eval a b then .goto idx st else .next st
  | none =>
    match st.oracle with
    | taken :: rest =>
        let st' := { st with oracle := rest }
        if taken then .goto idx st' else .next st'
    | [] => .err (.unknownBranch ci.pc ci.line)

def step (ci : CInstr) (st : St) : StepR :=
  match ci.ci with
  | .skip => .next st
  | .ret => .done st
  | .jmp idx => .goto idx st
  | .jcc c idx => branch ci c idx st
  | .unsupported => .err (.unsupported ci.pc ci.line)
  | .clobber r => .next { st with regs := st.regs.set r .unk }
  | .mov w s d =>
      (match readOpd ci w st s with
       | .error e => .err e
       | .ok (v, st1) =>
         match writeOpd ci w st1 v d with
         | .error e => .err e
         | .ok st2 => .next st2)
  | .lea s d =>
      (match s, d with
       | .symAddr id off, .gpr n => .next { st with regs := st.regs.set n (.ptr (.sym id) off) }
       | .mem b i sc disp, .gpr n =>
           (match addrOf st (.mem b i sc disp) with
            | some (r, off) => .next { st with regs := st.regs.set n (.ptr r off) }
            | none =>
              -- integer arithmetic through LEA
              match getReg st.regs b, i with
              | .int x, none => .next { st with regs := st.regs.set n (.int ((x + disp) % W)) }
              | .int x, some j =>
                  (match getReg st.regs j with
                   | .int y => .next { st with regs := st.regs.set n (.int ((x + disp + y * sc) % W)) }
                   | _ => .next { st with regs := st.regs.set n .unk })
              | _, _ => .next { st with regs := st.regs.set n .unk })
       | _, _ => .err (.badOperand ci.pc ci.line))
  | .alu op w s d =>
      (match readOpd ci w st s with
       | .error e => .err e
       | .ok (sv, st1) =>
         match d with
         | .gpr n =>
             let dv := getReg st1.regs n
             let nv := if w == 8 then aluEval op dv sv else .unk
             let fl : Option (Nat × Nat) :=
               match op, dv, sv with
               | .sub, .int a, .int b => if w == 8 then some (a, b) else none
               | _, _, _ => none
             .next { st1 with regs := st1.regs.set n nv, flags := fl }
         | .mem b i sc disp =>
             (match addrOf st1 (.mem b i sc disp) with
              | some (r, off) =>
                  let st2 := st1.record ci ⟨r, off, w, false⟩
                  let st3 := st2.record ci ⟨r, off, w, true⟩
                  .next { st3 with flags := none }
              | none => .err (.unknownAddr ci.pc ci.line))
         | _ => .err (.badOperand ci.pc ci.line))
  | .cmp a b =>
      (match readOpd ci 8 st a with
       | .error e => .err e
       | .ok (av, st1) =>
         match readOpd ci 8 st1 b with
         | .error e => .err e
         | .ok (bv, st2) =>
           let fl : Option (Nat × Nat) :=
             match av, bv with
             | .int x, .int y => some (x, y)
             | _, _ => none
           .next { st2 with flags := fl })
  | .kmov s k =>
      (match readOpd ci 8 st s with
       | .error e => .err e
       | .ok (v, st1) =>
         let kv : Val := match v with | .int n => .int (n % 65536) | _ => .unk
         .next { st1 with kregs := st1.kregs.set k kv })
  | .vmem w elt mask ops =>
      (match vecAccesses ci w elt mask ops st with
       | .error e => .err e
       | .ok st1 =>
         match lastOpd ops with
         | .gpr r => .next { st1 with regs := st1.regs.set r .unk }
         | _ => .next st1)

/-- the instructions from index `idx` on: (rest of the chunk, following chunks) -/
def seek (p : Prog) (idx : Nat) : List CInstr × List (List CInstr) :=
  match p.drop (idx / chunkSize) with
  | [] => ([], [])
  | c :: rest => (c.drop (idx % chunkSize), rest)

def runLoop (p : Prog) : Nat → List CInstr → List (List CInstr) → St → Except Err (List Rec)
  | 0, _, _, _ => .error .fuel
  | _ + 1, [], [], _ => .error .fellOff
  | f + 1, [], c :: rest, st => runLoop p f c rest st
  | f + 1, ci :: cur, rest, st =>
      match step ci st with
      | .next st' => runLoop p f cur rest st'
      | .goto idx st' =>
          (match seek p idx with
           | ([], []) => .error (.badJump ci.pc ci.line)
           | (c, r) => runLoop p f c r st')
      | .done st' => .ok st'.acc.reverse
      | .err e => .error e

def initRegs : List Val := List.replicate 16 .unk
def initKregs : List Val := List.replicate 8 .unk

/-- Run a resolved routine from its entry to RET.
    `frame`: argument slot ↦ value; `argBytes`: size of the argument frame (`<routine>_argBytes`);
    `oracle`: decisions for branches on unknown flags (empty = any such branch is an error). -/
def run (p : Prog) (frame : List (Nat × Val)) (argBytes : Nat) (oracle : List Bool) (fuel : Nat) :
    Except Err (List Rec) :=
  match p with
  | [] => .error .fellOff
  | c :: rest =>
    runLoop p fuel c rest
      { regs := initRegs, kregs := initKregs, flags := none, frame := frame,
        frameEnd := 8 + argBytes, oracle := oracle, acc := [] }

/-- the access list of a run -/
def accesses (p : Prog) (frame : List (Nat × Val)) (argBytes : Nat) (oracle : List Bool) (fuel : Nat) :
    Except Err (List Access) :=
  match run p frame argBytes oracle fuel with
  | .ok rs => .ok (rs.map (·.acc))
  | .error e => .error e

/-- first recorded access outside its region, with pc and source line (diagnostics / findings) -/
def firstOOB (size : Region → Nat) : List Rec → Option Rec
  | [] => none
  | r :: t => if r.acc.inBoundsB size then firstOOB size t else some r

def beqList : List Access → List Access → Bool
  | [], [] => true
  | a :: as, b :: bs => a.beq b && beqList as bs
  | _, _ => false

/-- the run terminates normally and its access list is exactly `model` (same order, same multiplicities) -/
def matchesModel (p : Prog) (frame : List (Nat × Val)) (argBytes : Nat) (oracle : List Bool) (fuel : Nat)
    (model : List Access) : Bool :=
  match accesses p frame argBytes oracle fuel with
  | .ok l => beqList l model
  | .error _ => false

/-! ## Soundness of the Boolean comparisons -/

theorem Region.beq_eq {a b : Region} (h : a.beq b = true) : a = b := by
  cases a <;> cases b <;> simp [Region.beq] at h <;> simp [h]

theorem Access.beq_eq {a b : Access} (h : a.beq b = true) : a = b := by
  cases a with | mk r o w k => cases b with | mk r' o' w' k' =>
  simp only [Access.beq, Bool.and_eq_true, beq_iff_eq] at h
  obtain ⟨⟨⟨h1, h2⟩, h3⟩, h4⟩ := h
  have h1' : r = r' := Region.beq_eq h1
  subst h1'; subst h2; subst h3; subst h4; rfl

theorem beqList_eq : ∀ {l m : List Access}, beqList l m = true → l = m
  | [], [], _ => rfl
  | [], _ :: _, h => by simp [beqList] at h
  | _ :: _, [], h => by simp [beqList] at h
  | a :: as, b :: bs, h => by
      simp only [beqList, Bool.and_eq_true] at h
      rw [Access.beq_eq h.1, beqList_eq h.2]

theorem matchesModel_eq {p : Prog} {frame : List (Nat × Val)} {argBytes : Nat} {oracle : List Bool}
    {fuel : Nat} {model : List Access} (h : matchesModel p frame argBytes oracle fuel model = true) :
    accesses p frame argBytes oracle fuel = .ok model := by
  unfold matchesModel at h
  split at h
  · next l hl => rw [hl, beqList_eq h]
  · simp at h

theorem Access.inBoundsB_iff {size : Region → Nat} {a : Access} :
    a.inBoundsB size = true ↔ a.inBounds size := by
  simp [Access.inBoundsB, Access.inBounds, Nat.ble_eq]

end SMGo.Model.AsmAccess
