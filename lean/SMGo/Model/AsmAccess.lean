/-
  C11 (memory safety, PARTIAL): an ADDRESS interpreter for macro-expanded amd64 listings
  (`SMGo.Gen.ListAmd64*`, syntax in `SMGo.Model.ISAInstr`).

  What it is.  A fuel-bounded abstract interpreter of the general-purpose (integer) part of a routine.
  Register values are `int n` (a 64-bit word), `ptr region off` (a pointer into a named region: one region
  per pointer ARGUMENT, named after its frame slot, and one per read-only SYMBOL) or `unk`.  The frame
  valuation (which argument slot holds which pointer / which integer < 2^64) is an input.  The interpreter
  executes MOVQ/MOVL/MOVW/MOVB, LEAQ, ADDQ, SUBQ, ANDQ, ORQ/ORB, XORQ/XORB, SHLQ, SHRQ, CMPQ, KMOVW, JMP,
  JLT/JLE/JGT/JGE/JEQ/JNE, NOP, RET with 64-bit wrap-around arithmetic and the flag semantics of CMP/SUB (signed
  conditions; every other flag-writing instruction leaves the flags UNKNOWN), treats vector instructions as
  "no effect on the general-purpose state", and RECORDS every memory operand of every instruction as an access
  `(region, offset, width, read|write)`, in program order.

  Widths: 1/2/4/8 for MOVB/MOVW/MOVL/MOVQ (also with a vector register on the other side) and for the B/Q ALU
  forms (a memory DESTINATION of an ALU instruction is a read followed by a write); the widest vector
  register named (`Instr.vw`) for full-width vector moves; the broadcast SOURCE width for VBROADCASTI32X2 (8),
  VBROADCASTI32X4 (16), VPBROADCASTD (4); for opmask-gated vector moves the HULL of the enabled elements, from
  the first to the last enabled one (the opmask registers are loaded from immediates through KMOVW, so their
  values are known; AVX-512 masked-out elements are not accessed and do not fault; the masks that occur, 1 and
  7, are contiguous, so the hull is exact).

  Values loaded from memory are `unk`.  An `unk` reaching an address or a conditional jump stops the
  interpreter with an error, EXCEPT that the caller may hand in an explicit list of decisions (`oracle`) for
  branches on unknown flags: openAsm has exactly one such branch (tag matches / does not match: a public
  outcome) and both runs are checked.  With an empty oracle any data-dependent branch is an error.

  What it is NOT.  No paging, no alignment, no Go runtime, no stack (frame slots are only checked to lie inside
  the argument frame); vector register contents are not modelled.  Nothing is skipped silently: a vector
  instruction is dropped only if its mnemonic is in the table `isPureVec` (register-to-register, no implicit
  operand, no flags) and all its operands are registers / immediates; vector instructions with a memory operand
  must be in `vecMoveElt` / `vecBroadcastWidth`; everything else is `CI.unsupported`, which stops a run
  (`SMGo.Props.C11.listings_fully_interpreted`: it does not occur in the current listings).

  Kernel evaluation.  Everything is computable and is evaluated by the kernel (`decide +kernel`, no native
  code).  The kernel performs a few hundred thousand reduction steps per second, so the interpreter is written
  for few reductions per instruction: mnemonics are resolved once (`compile`), pure vector instructions are
  removed from the resolved program (85 % of sealAsm), the register file is a 4 × 4 tree, the state is passed
  as separate arguments, comparisons use `Nat.beq`/`Nat.ble` directly.  Core Lean only.
-/
import SMGo.Model.ISAInstr

namespace SMGo.Model.AsmAccess
open SMGo.Model.ISA

/-! ## Values, regions, accesses -/

/-- 2^64 -/
def W : Nat := 18446744073709551616

/-- A memory region: the object a pointer argument points to (named after the argument's frame slot: the
    slot's offset as it appears in the listing, `name+off(FP)` ↦ `off+8`), or a read-only symbol
    (index into the symbol table given to `compile`). -/
inductive Region where
  | arg (slot : Nat)
  | sym (id : Nat)
deriving DecidableEq, Repr

def Region.beq : Region → Region → Bool
  | .arg a, .arg b => Nat.beq a b
  | .sym a, .sym b => Nat.beq a b
  | _, _ => false

instance : BEq Region := ⟨Region.beq⟩

inductive Val where
  | int (n : Nat)                       -- a 64-bit word, 0 ≤ n < 2^64
  | ptr (r : Region) (off : Nat)        -- address of byte `off` of region `r` (off is a 64-bit word: "negative" = huge)
  | unk
deriving DecidableEq, Repr

structure Access where
  region : Region
  off : Nat
  width : Nat
  write : Bool
deriving DecidableEq, Repr

def Access.beq : Access → Access → Bool
  | ⟨r, o, w, k⟩, ⟨r', o', w', k'⟩ => r.beq r' && Nat.beq o o' && Nat.beq w w' && (k == k')

instance : BEq Access := ⟨Access.beq⟩

/-- the access lies inside its region, whose size is given by `size` -/
def Access.inBounds (size : Region → Nat) (a : Access) : Prop :=
  a.off + a.width ≤ size a.region

def Access.inBoundsB (size : Region → Nat) (a : Access) : Bool :=
  Nat.ble (a.off + a.width) (size a.region)

/-! ## Resolved instructions

  Each `Instr` is resolved ONCE (`compile`) into a small instruction form: the mnemonic string becomes a
  constructor, operands become `COpd`, and jump targets become positions in the resolved program.
  Vector instructions without a memory operand and without a general-purpose destination cannot change
  anything the interpreter looks at; they are REMOVED from the resolved program (after their mnemonic has
  been checked against the table `isPureVec`), so that a run only steps through the instructions that
  matter.  A jump to a removed instruction lands on the next kept one. -/

inductive Alu where
  | add | sub | and | or | xor | shl | shr
deriving DecidableEq, Repr

inductive Cond where
  | lt | le | gt | ge | eq | ne
deriving DecidableEq, Repr

/-- two bits -/
inductive Q where
  | a | b | c | d
deriving DecidableEq, Repr

/-- a general-purpose register number 0..15 as (n / 4, n % 4): the register file is a 4 × 4 tree -/
structure G where
  hi : Q
  lo : Q
deriving DecidableEq, Repr

def Q.ofNat' (n : Nat) : Q :=
  if n == 0 then .a else if n == 1 then .b else if n == 2 then .c else .d

def Q.toNat : Q → Nat
  | .a => 0 | .b => 1 | .c => 2 | .d => 3

def G.ofNat (n : Nat) : G := ⟨Q.ofNat' (n / 4), Q.ofNat' (n % 4)⟩
def G.toNat (g : G) : Nat := 4 * g.hi.toNat + g.lo.toNat

/-- operand width of the integer instructions -/
inductive Wd where
  | b1 | b2 | b4 | b8
deriving DecidableEq, Repr

def Wd.bytes : Wd → Nat
  | .b1 => 1 | .b2 => 2 | .b4 => 4 | .b8 => 8

inductive COpd where
  | gpr (g : G)
  | kreg (n : Nat)
  | vec
  | imm (v : Nat)                                                    -- already reduced mod 2^64
  | mem (base : G) (disp : Nat)                                      -- disp(base); disp reduced mod 2^64
  | memIdx (base idx : G) (scale : Nat) (disp : Nat)                 -- disp(base)(idx*scale)
  | symMem (id : Nat) (off : Nat)                                    -- a load from read-only data
  | symAddr (id : Nat) (off : Nat)                                   -- the address of read-only data
  | frame (off : Nat)
  | bad
deriving DecidableEq, Repr

inductive CI where
  | skip                                                  -- pure vector instruction / NOP (removed by `compile`)
  | mov (w : Wd) (src dst : COpd)
  | lea (src : COpd) (dst : G)
  | alu (op : Alu) (w : Wd) (src dst : COpd)
  | cmp (a b : COpd)
  | kmov (src : COpd) (k : Nat)
  | jcc (c : Cond) (chunk off : Nat)                      -- before target resolution: chunk = target pc, off = 0
  | jmp (chunk off : Nat)
  | ret
  | vmem (w elt : Nat) (mask : Option Nat) (ops : List COpd)  -- vector instruction with a memory operand (last = destination)
  | clobber (r : G)                                       -- vector instruction writing a general-purpose register
  | unsupported
deriving DecidableEq, Repr

structure CInstr where
  ci : CI
  pc : Nat
  line : Nat
deriving DecidableEq, Repr

def wordOfInt : Int → Nat
  | .ofNat n => n % W
  | .negSucc n => W - 1 - n % W

/-- index of a symbol in the symbol table; `syms.length` if absent -/
def symIndex (syms : List String) (name : String) : Nat :=
  syms.findIdx (· == name)

def cOpd (syms : List String) : Opd → COpd
  | .reg (.gpr n) => if n < 16 then .gpr (G.ofNat n) else .bad
  | .reg (.vec _) => .vec
  | .reg (.k n) => .kreg n
  | .regs _ => .bad
  | .imm v => .imm (wordOfInt v)
  | .mem (.gpr b) none _ d => if b < 16 then .mem (G.ofNat b) (wordOfInt d) else .bad
  | .mem (.gpr b) (some (.gpr i)) s d =>
      if b < 16 && i < 16 then .memIdx (G.ofNat b) (G.ofNat i) s (wordOfInt d) else .bad
  | .mem _ _ _ _ => .bad
  | .sym name off =>
      let i := symIndex syms name
      if i < syms.length then .symMem i off else .bad
  | .symAddr name off =>
      let i := symIndex syms name
      if i < syms.length then .symAddr i off else .bad
  | .frame _ off => .frame off
  | .target _ => .bad

def COpd.isMem : COpd → Bool
  | .mem .. => true
  | .memIdx .. => true
  | .symMem .. => true
  | _ => false

def COpd.isBad : COpd → Bool
  | .bad => true
  | _ => false

def COpd.isGpr : COpd → Bool
  | .gpr _ => true
  | _ => false

def COpd.isVec : COpd → Bool
  | .vec => true
  | _ => false

/-- vector register, immediate or opmask register -/
def COpd.isVecish : COpd → Bool
  | .vec => true
  | .imm _ => true
  | .kreg _ => true
  | _ => false

/-- LEAQ sym<>(SB), R is how the assembler prints MOVQ $sym<>(SB), R: the operand is an address. -/
def COpd.asAddr : COpd → COpd
  | .symMem i o => .symAddr i o
  | o => o

/-- Vector instructions that read vector / opmask / immediate / general-purpose SOURCES and write a vector
    register, with no implicit operand and no effect on the flags (most frequent first). -/
def isPureVec (mn : String) : Bool :=
  mn == "VPXORD" || mn == "VPROLD" || mn == "VPBROADCASTD" || mn == "VGF2P8AFFINEQB" ||
  mn == "VGF2P8AFFINEINVQB" || mn == "VPCLMULQDQ" || mn == "VPSHUFB" || mn == "VPSRLDQ" ||
  mn == "VPSLLDQ" || mn == "VPANDD" || mn == "VPUNPCKLDQ" || mn == "VPUNPCKHDQ" || mn == "VPADDD" ||
  mn == "VPSRLW" || mn == "VPUNPCKLQDQ" || mn == "VPUNPCKHQDQ" || mn == "VPERMQ" || mn == "VMOVDQA64" ||
  mn == "VALIGND" || mn == "VMOVAPD" || mn == "VPSLLQ" || mn == "PSLLO" || mn == "VMOVDQU32" ||
  mn == "VPSRLQ" || mn == "VPSLLD" || mn == "VPSRLD" || mn == "VPORD" || mn == "VPXORQ" || mn == "VPANDQ"

/-- full-width vector moves: element size in bytes -/
def vecMoveElt (mn : String) : Option Nat :=
  if mn == "VMOVDQU32" then some 4
  else if mn == "VMOVDQA32" then some 4
  else if mn == "VMOVDQU64" then some 8
  else if mn == "VMOVDQA64" then some 8
  else if mn == "VMOVDQU8" then some 1
  else if mn == "VMOVDQU16" then some 2
  else if mn == "VMOVUPS" then some 4
  else if mn == "VMOVAPS" then some 4
  else if mn == "VMOVUPD" then some 8
  else if mn == "VMOVAPD" then some 8
  else none

/-- broadcasts from memory: source width in bytes -/
def vecBroadcastWidth (mn : String) : Option Nat :=
  if mn == "VBROADCASTI32X2" then some 8
  else if mn == "VBROADCASTI32X4" then some 16
  else if mn == "VPBROADCASTD" then some 4
  else if mn == "VPBROADCASTQ" then some 8
  else if mn == "VBROADCASTI64X2" then some 16
  else none

def firstKreg : List COpd → Option Nat
  | [] => none
  | .kreg k :: _ => some k
  | _ :: t => firstKreg t

def lastOpd : List COpd → COpd
  | [] => .bad
  | [x] => x
  | _ :: t => lastOpd t

def condOf (mn : String) : Option Cond :=
  if mn == "JLT" then some .lt
  else if mn == "JEQ" then some .eq
  else if mn == "JGT" then some .gt
  else if mn == "JLE" then some .le
  else if mn == "JNE" then some .ne
  else if mn == "JGE" then some .ge
  else none

def aluOf (mn : String) : Option (Alu × Wd) :=
  if mn == "ADDQ" then some (.add, .b8)
  else if mn == "SUBQ" then some (.sub, .b8)
  else if mn == "SHRQ" then some (.shr, .b8)
  else if mn == "ORB" then some (.or, .b1)
  else if mn == "SHLQ" then some (.shl, .b8)
  else if mn == "ANDQ" then some (.and, .b8)
  else if mn == "ORQ" then some (.or, .b8)
  else if mn == "XORQ" then some (.xor, .b8)
  else if mn == "XORB" then some (.xor, .b1)
  else none

def movOf (mn : String) : Option Wd :=
  if mn == "MOVL" then some .b4
  else if mn == "MOVQ" then some .b8
  else if mn == "MOVB" then some .b1
  else if mn == "MOVW" then some .b2
  else none

/-- Resolve one instruction (jump targets still as byte offsets).  The tests are ordered so that the
    frequent cases need few string comparisons (they are the expensive part in the kernel). -/
def compile1 (syms : List String) (i : Instr) : CInstr :=
  let mk (c : CI) : CInstr := ⟨c, i.pc, i.line⟩
  match i.ops with
  | [] =>
      if i.mn == "NOP" then mk .skip
      else if i.mn == "RET" then mk .ret
      else mk .unsupported
  | [.target t] =>
      if i.mn == "JMP" then mk (.jmp t 0)
      else match condOf i.mn with
        | some c => mk (.jcc c t 0)
        | none => mk .unsupported
  | rawOps =>
    let ops := rawOps.map (cOpd syms)
    if ops.any COpd.isBad then mk .unsupported
    else if ops.all COpd.isVecish then
      (if isPureVec i.mn then mk .skip else mk .unsupported)
    else if ops.any COpd.isMem && ops.any COpd.isVec && !(i.mn == "MOVL") && !(i.mn == "MOVQ") then
      -- vector instruction with a memory operand
      (match vecMoveElt i.mn with
       | some elt => mk (.vmem i.vw elt (firstKreg ops) ops)
       | none =>
         match vecBroadcastWidth i.mn with
         | some w =>
             (match firstKreg ops with
              | none => mk (.vmem w w none ops)
              | some _ => mk .unsupported)
         | none => mk .unsupported)
    else
    match movOf i.mn with
    | some w =>
        (match ops with
         | [s, d] => mk (.mov w s d)
         | _ => mk .unsupported)
    | none =>
    if i.mn == "VPBROADCASTD" then
      (match ops with
       | [.gpr _, .vec] => mk .skip
       | _ => mk .unsupported)
    else
    match aluOf i.mn with
    | some (op, w) =>
        (match ops with
         | [s, d] => mk (.alu op w s d)
         | _ => mk .unsupported)
    | none =>
    if i.mn == "CMPQ" then
      (match ops with
       | [a, b] => mk (.cmp a b)
       | _ => mk .unsupported)
    else if i.mn == "LEAQ" then
      (match ops with
       | [s, .gpr d] => mk (.lea s.asAddr d)
       | _ => mk .unsupported)
    else if i.mn == "KMOVW" then
      (match ops with
       | [.gpr s, .kreg k] => mk (.kmov (.gpr s) k)
       | [.imm v, .kreg k] => mk (.kmov (.imm v) k)
       | _ => mk .unsupported)
    else if isPureVec i.mn then
      -- vector instruction with a general-purpose operand (and nothing but registers / immediates)
      (if !(ops.all (fun o => o.isVecish || o.isGpr)) then mk .unsupported
       else match lastOpd ops with
         | .gpr r => mk (.clobber r)
         | .vec => mk .skip
         | _ => mk .unsupported)
    else mk .unsupported

/-- chunk size of the (unresolved) program; jumps seek by chunk, then inside the chunk -/
def chunkSize : Nat := 128

def chunkAux {α : Type} : Nat → List α → List α → List (List α) → List (List α)
  | _, [], cur, acc => (cur.reverse :: acc).reverse
  | 0, x :: xs, cur, acc => chunkAux (chunkSize - 1) xs [x] (cur.reverse :: acc)
  | n + 1, x :: xs, cur, acc => chunkAux n xs (x :: cur) acc

/-- split into chunks of exactly `chunkSize` elements (the last one may be shorter) -/
def chunk {α : Type} (l : List α) : List (List α) := chunkAux chunkSize l [] []

def CInstr.isSkip (c : CInstr) : Bool :=
  match c.ci with
  | .skip => true
  | _ => false

/-- position of the instruction at byte offset `t` inside a chunk, counting only kept instructions -/
def locateIn (t : Nat) : List CInstr → Nat → Option Nat
  | [], _ => none
  | c :: cs, k =>
      if c.pc == t then some k
      else locateIn t cs (if c.isSkip then k else k + 1)

def firstPc : List CInstr → Nat
  | [] => 0
  | c :: _ => c.pc

/-- (chunk index, position among the kept instructions of that chunk) of the instruction at byte offset `t` -/
def locate (t : Nat) : List (List CInstr) → Nat → Option (Nat × Nat)
  | [], _ => none
  | [ch], c => (locateIn t ch 0).map (fun k => (c, k))
  | ch :: ch2 :: tl, c =>
      if firstPc ch2 ≤ t then locate t (ch2 :: tl) (c + 1)
      else (locateIn t ch 0).map (fun k => (c, k))

def resolveTarget (chunks : List (List CInstr)) (c : CInstr) : CInstr :=
  match c.ci with
  | .jmp t _ =>
      (match locate t chunks 0 with
       | some (ch, k) => { c with ci := .jmp ch k }
       | none => { c with ci := .unsupported })
  | .jcc cc t _ =>
      (match locate t chunks 0 with
       | some (ch, k) => { c with ci := .jcc cc ch k }
       | none => { c with ci := .unsupported })
  | _ => c

abbrev Prog := List (List CInstr)

/-- Resolve a routine: chunks of `chunkSize` instructions, pure vector instructions removed from each chunk,
    jump targets = (chunk index, position in the chunk after removal). -/
def compile (syms : List String) (l : List Instr) : Prog :=
  let chunks := chunk (l.map (compile1 syms))
  chunks.map (fun ch => (ch.filter (fun c => !c.isSkip)).map (resolveTarget chunks))

/-! ## Execution -/

inductive ErrKind where
  | fuel
  | fellOff                -- ran past the last instruction
  | badJump
  | unsupported            -- instruction outside the interpreted fragment
  | unknownAddr            -- address is not `ptr`
  | unknownBranch          -- flags unknown and no oracle decision left
  | badFrame               -- frame slot not in the valuation / outside the argument frame
  | badOperand
deriving DecidableEq, Repr

structure Err where
  kind : ErrKind
  pc : Nat
  line : Nat
deriving DecidableEq, Repr

/-- a recorded access together with the instruction that made it -/
structure Rec where
  pc : Nat
  line : Nat
  acc : Access
deriving Repr

/-- four registers -/
structure R4 where
  x0 : Val
  x1 : Val
  x2 : Val
  x3 : Val

/-- the 16 general-purpose registers -/
structure Regs where
  q0 : R4
  q1 : R4
  q2 : R4
  q3 : R4

def R4.get : R4 → Q → Val
  | ⟨x0, x1, x2, x3⟩, q => match q with | .a => x0 | .b => x1 | .c => x2 | .d => x3

def R4.set : R4 → Q → Val → R4
  | ⟨x0, x1, x2, x3⟩, q, v =>
    match q with
    | .a => ⟨v, x1, x2, x3⟩ | .b => ⟨x0, v, x2, x3⟩ | .c => ⟨x0, x1, v, x3⟩ | .d => ⟨x0, x1, x2, v⟩

def Regs.get : Regs → G → Val
  | ⟨q0, q1, q2, q3⟩, ⟨h, l⟩ =>
    match h with | .a => q0.get l | .b => q1.get l | .c => q2.get l | .d => q3.get l

def Regs.set : Regs → G → Val → Regs
  | ⟨q0, q1, q2, q3⟩, ⟨h, l⟩, v =>
    match h with
    | .a => ⟨q0.set l v, q1, q2, q3⟩ | .b => ⟨q0, q1.set l v, q2, q3⟩
    | .c => ⟨q0, q1, q2.set l v, q3⟩ | .d => ⟨q0, q1, q2, q3.set l v⟩

def lookupFrame : List (Nat × Val) → Nat → Option Val
  | [], _ => none
  | (k, v) :: t, off => if Nat.beq k off then some v else lookupFrame t off

def Val.add : Val → Val → Val
  | .int a, .int b => .int ((a + b) % W)
  | .ptr r o, .int b => .ptr r ((o + b) % W)
  | .int a, .ptr r o => .ptr r ((a + o) % W)
  | _, _ => .unk

/-- `a - b` -/
def Val.sub : Val → Val → Val
  | .int a, .int b => .int ((a + W - b) % W)
  | .ptr r o, .int b => .ptr r ((o + W - b) % W)
  | .ptr r o, .ptr r' o' => if r == r' then .int ((o + W - o') % W) else .unk
  | _, _ => .unk

def aluEval (op : Alu) (dst src : Val) : Val :=
  match op with
  | .add => dst.add src
  | .sub => dst.sub src
  | .and => match dst, src with | .int a, .int b => .int (a &&& b) | _, _ => .unk
  | .or => match dst, src with | .int a, .int b => .int (a ||| b) | _, _ => .unk
  | .xor => match dst, src with | .int a, .int b => .int (a ^^^ b) | _, _ => .unk
  | .shl => match dst, src with | .int a, .int b => .int ((a <<< (b % 64)) % W) | _, _ => .unk
  | .shr => match dst, src with | .int a, .int b => .int (a >>> (b % 64)) | _, _ => .unk

/-- value written to a general-purpose register by a move of width `w` -/
def truncTo (w : Wd) (v : Val) : Val :=
  match w with
  | .b8 => v
  | .b4 => (match v with | .int n => .int (n % 4294967296) | _ => .unk)
  | _ => .unk

/-- signed comparison of two 64-bit words -/
def sLt (a b : Nat) : Bool := Nat.blt ((a + 9223372036854775808) % W) ((b + 9223372036854775808) % W)

/-- condition after `CMPQ a, b` (Go operand order: "a cond b") -/
def Cond.eval (c : Cond) (a b : Nat) : Bool :=
  match c with
  | .lt => sLt a b
  | .le => !(sLt b a)
  | .gt => sLt b a
  | .ge => !(sLt a b)
  | .eq => Nat.beq a b
  | .ne => !(Nat.beq a b)

/-- flags: unknown, or the operands of the last `CMPQ a, b` / `SUBQ b, a` -/
inductive Flags where
  | unknown
  | cmp (a b : Nat)

def flagsOf : Val → Val → Flags
  | .int x, .int y => .cmp x y
  | _, _ => .unknown

/-- address denoted by a memory operand -/
def addrOf (regs : Regs) : COpd → Option (Region × Nat)
  | .mem b d =>
      (match regs.get b with
       | .ptr r o => some (r, (o + d) % W)
       | _ => none)
  | .memIdx b i s d =>
      (match regs.get b, regs.get i with
       | .ptr r o, .int x => some (r, (o + d + x * s) % W)
       | _, _ => none)
  | .symMem id off => some (.sym id, off)
  | _ => none

/-- a source operand: a value, a load, or an error -/
inductive Src where
  | val (v : Val)
  | load (r : Region) (off : Nat)
  | err (k : ErrKind)

def evalSrc (regs : Regs) (frame : List (Nat × Val)) (frameEnd : Nat) (w : Wd) : COpd → Src
  | .gpr g => .val (regs.get g)
  | .imm v => .val (.int v)
  | .mem b d =>
      (match regs.get b with
       | .ptr r o => .load r ((o + d) % W)
       | _ => .err .unknownAddr)
  | .vec => .val .unk
  | .kreg _ => .err .badOperand
  | .symAddr id off => .val (.ptr (.sym id) off)
  | .frame off =>
      if Nat.ble (off + w.bytes) frameEnd then
        match lookupFrame frame off with
        | some v => .val (truncTo w v)
        | none => .err .badFrame
      else .err .badFrame
  | .bad => .err .badOperand
  | o =>
      match addrOf regs o with
      | some (r, off) => .load r off
      | none => .err .unknownAddr

/-- a destination operand -/
inductive Dst where
  | reg (g : G)
  | store (r : Region) (off : Nat)
  | frame (off : Nat)
  | vec
  | err (k : ErrKind)

def evalDst (regs : Regs) (frameEnd : Nat) (w : Wd) : COpd → Dst
  | .gpr g => .reg g
  | .vec => .vec
  | .mem b d =>
      (match regs.get b with
       | .ptr r o => .store r ((o + d) % W)
       | _ => .err .unknownAddr)
  | .frame off => if Nat.ble (off + w.bytes) frameEnd then .frame off else .err .badFrame
  | .memIdx b i s d =>
      (match addrOf regs (.memIdx b i s d) with
       | some (r, off) => .store r off
       | none => .err .unknownAddr)
  | _ => .err .badOperand

def lowBitAux : Nat → Nat → Nat → Nat
  | 0, _, i => i
  | f + 1, m, i => if Nat.beq (m % 2) 1 then i else lowBitAux f (m / 2) (i + 1)

/-- index of the lowest set bit of a nonzero mask (< 2^64) -/
def lowBit (m : Nat) : Nat := lowBitAux 64 m 0

/-- the byte range touched by a vector move of `w` bytes in `elt`-byte elements under opmask value `m`:
    `none` if no element is enabled, else (offset of the first enabled element, length up to the last one) -/
def maskedRange (w elt m : Nat) : Option (Nat × Nat) :=
  let lanes := w / elt
  let bits := m % (2 ^ lanes)
  if Nat.beq bits 0 then none
  else
    let lo := lowBit bits
    let hi := Nat.log2 bits
    some (elt * lo, elt * (hi + 1 - lo))

/-- record the memory operands of a vector instruction (the last operand is the destination);
    `none` = an address or an opmask value is unknown -/
def vecAccesses (regs : Regs) (kregs : List Val) (pc line w elt : Nat) (mask : Option Nat) :
    List COpd → List Rec → Option (List Rec)
  | [], acc => some acc
  | o :: rest, acc =>
      if o.isMem then
        match addrOf regs o with
        | none => none
        | some (r, off) =>
          let isW := rest.isEmpty
          match mask with
          | none => vecAccesses regs kregs pc line w elt mask rest (⟨pc, line, ⟨r, off, w, isW⟩⟩ :: acc)
          | some k =>
            match kregs.getD k .unk with
            | .int m =>
              (match maskedRange w elt m with
               | none => vecAccesses regs kregs pc line w elt mask rest acc
               | some (d, len) =>
                   vecAccesses regs kregs pc line w elt mask rest (⟨pc, line, ⟨r, (off + d) % W, len, isW⟩⟩ :: acc))
            | _ => none
      else vecAccesses regs kregs pc line w elt mask rest acc

/-- the instructions from position (chunk, off) on: (rest of the chunk, following chunks) -/
def seek (p : Prog) (chunk off : Nat) : Option (List CInstr × List (List CInstr)) :=
  match p.drop chunk with
  | [] => none
  | c :: rest => some (c.drop off, rest)

/-- outcome of a conditional jump: `some true` = taken; `none` = flags unknown and no decision left -/
def decideBranch (c : Cond) (flags : Flags) (oracle : List Bool) : Option (Bool × List Bool) :=
  match flags with
  | .cmp a b => some (c.eval a b, oracle)
  | .unknown =>
    match oracle with
    | taken :: rest => some (taken, rest)
    | [] => none

/-! The state of a run is the tuple (general-purpose registers, opmask registers, flags, frame valuation,
    remaining oracle decisions, recorded accesses most recent first).  It is passed around as separate
    arguments and the instruction semantics are split into many small definitions with few reduction steps
    each: that is what makes `decide +kernel` affordable. -/

inductive StepR where
  | next (regs : Regs) (kregs : List Val) (flags : Flags) (frame : List (Nat × Val))
      (oracle : List Bool) (acc : List Rec)
  | goto (chunk off : Nat) (oracle : List Bool)      -- a taken jump: nothing else changes
  | done
  | err (k : ErrKind)

section Step
variable (frameEnd pc line : Nat) (regs : Regs) (kregs : List Val) (flags : Flags)
  (frame : List (Nat × Val)) (oracle : List Bool) (acc : List Rec)

def stepJcc (c : Cond) (ch off : Nat) : StepR :=
  match decideBranch c flags oracle with
  | none => .err .unknownBranch
  | some (false, oracle') => .next regs kregs flags frame oracle' acc
  | some (true, oracle') => .goto ch off oracle'

def movVal (w : Wd) (v : Val) (d : COpd) : StepR :=
  match evalDst regs frameEnd w d with
  | .reg g => .next (regs.set g (truncTo w v)) kregs flags frame oracle acc
  | .store r off => .next regs kregs flags frame oracle (⟨pc, line, ⟨r, off, w.bytes, true⟩⟩ :: acc)
  | .frame off => .next regs kregs flags ((off, truncTo w v) :: frame) oracle acc
  | .vec => .next regs kregs flags frame oracle acc
  | .err k => .err k

def movLoad (w : Wd) (r : Region) (off : Nat) (d : COpd) : StepR :=
  match d with
  | .gpr g => .next (regs.set g .unk) kregs flags frame oracle (⟨pc, line, ⟨r, off, w.bytes, false⟩⟩ :: acc)
  | .vec => .next regs kregs flags frame oracle (⟨pc, line, ⟨r, off, w.bytes, false⟩⟩ :: acc)
  | _ => .err .badOperand

def stepMov (w : Wd) (s d : COpd) : StepR :=
  match evalSrc regs frame frameEnd w s with
  | .load r off => movLoad pc line regs kregs flags frame oracle acc w r off d
  | .val v => movVal frameEnd pc line regs kregs flags frame oracle acc w v d
  | .err k => .err k

def leaIdx (n b i : G) (sc disp : Nat) : StepR :=
  match regs.get b, regs.get i with
  | .ptr r o, .int x => .next (regs.set n (.ptr r ((o + disp + x * sc) % W))) kregs flags frame oracle acc
  | .int x, .int y => .next (regs.set n (.int ((x + disp + y * sc) % W))) kregs flags frame oracle acc
  | _, _ => .next (regs.set n .unk) kregs flags frame oracle acc

def leaBase (n b : G) (disp : Nat) : StepR :=
  match regs.get b with
  | .ptr r o => .next (regs.set n (.ptr r ((o + disp) % W))) kregs flags frame oracle acc
  | .int x => .next (regs.set n (.int ((x + disp) % W))) kregs flags frame oracle acc
  | .unk => .next (regs.set n .unk) kregs flags frame oracle acc

def stepLea (s : COpd) (n : G) : StepR :=
  match s with
  | .symAddr id off => .next (regs.set n (.ptr (.sym id) off)) kregs flags frame oracle acc
  | .mem b disp => leaBase regs kregs flags frame oracle acc n b disp
  | .memIdx b i sc disp => leaIdx regs kregs flags frame oracle acc n b i sc disp
  | _ => .err .badOperand

def aluReg (op : Alu) (w : Wd) (sv : Val) (g : G) : StepR :=
  match w with
  | .b8 =>
      (match op with
       | .sub => .next (regs.set g ((regs.get g).sub sv)) kregs (flagsOf (regs.get g) sv) frame oracle acc
       | _ => .next (regs.set g (aluEval op (regs.get g) sv)) kregs .unknown frame oracle acc)
  | _ => .next (regs.set g .unk) kregs .unknown frame oracle acc

def aluVal (op : Alu) (w : Wd) (sv : Val) (d : COpd) : StepR :=
  match evalDst regs frameEnd w d with
  | .reg g => aluReg regs kregs frame oracle acc op w sv g
  | .store r off =>
      .next regs kregs .unknown frame oracle
        (⟨pc, line, ⟨r, off, w.bytes, true⟩⟩ :: ⟨pc, line, ⟨r, off, w.bytes, false⟩⟩ :: acc)
  | .err k => .err k
  | _ => .err .badOperand

def aluLoad (w : Wd) (r : Region) (off : Nat) (d : COpd) : StepR :=
  match d with
  | .gpr g => .next (regs.set g .unk) kregs .unknown frame oracle (⟨pc, line, ⟨r, off, w.bytes, false⟩⟩ :: acc)
  | _ => .err .badOperand

def stepAlu (op : Alu) (w : Wd) (s d : COpd) : StepR :=
  match evalSrc regs frame frameEnd w s with
  | .val sv => aluVal frameEnd pc line regs kregs frame oracle acc op w sv d
  | .load r off => aluLoad pc line regs kregs frame oracle acc w r off d
  | .err k => .err k

def stepCmp (a b : COpd) : StepR :=
  match evalSrc regs frame frameEnd .b8 a, evalSrc regs frame frameEnd .b8 b with
  | .val av, .val bv => .next regs kregs (flagsOf av bv) frame oracle acc
  | .load r off, .val _ => .next regs kregs .unknown frame oracle (⟨pc, line, ⟨r, off, 8, false⟩⟩ :: acc)
  | .val _, .load r off => .next regs kregs .unknown frame oracle (⟨pc, line, ⟨r, off, 8, false⟩⟩ :: acc)
  | .err k, _ => .err k
  | _, .err k => .err k
  | _, _ => .err .badOperand

def stepKmov (s : COpd) (k : Nat) : StepR :=
  match evalSrc regs frame frameEnd .b8 s with
  | .val (.int n) => .next regs (kregs.set k (.int (n % 65536))) flags frame oracle acc
  | .val _ => .next regs (kregs.set k .unk) flags frame oracle acc
  | .err e => .err e
  | .load _ _ => .err .badOperand

def stepVmem (w elt : Nat) (mask : Option Nat) (ops : List COpd) : StepR :=
  match vecAccesses regs kregs pc line w elt mask ops acc with
  | none => .err .unknownAddr
  | some acc' =>
    match lastOpd ops with
    | .gpr r => .next (regs.set r .unk) kregs flags frame oracle acc'
    | _ => .next regs kregs flags frame oracle acc'

/-- one instruction -/
def step (ci : CI) : StepR :=
  match ci with
  | .mov w s d => stepMov frameEnd pc line regs kregs flags frame oracle acc w s d
  | .alu op w s d => stepAlu frameEnd pc line regs kregs frame oracle acc op w s d
  | .cmp a b => stepCmp frameEnd pc line regs kregs frame oracle acc a b
  | .jcc c ch off => stepJcc regs kregs flags frame oracle acc c ch off
  | .jmp ch off => .goto ch off oracle
  | .vmem w elt mask ops => stepVmem pc line regs kregs flags frame oracle acc w elt mask ops
  | .lea s n => stepLea regs kregs flags frame oracle acc s n
  | .kmov s k => stepKmov frameEnd regs kregs flags frame oracle acc s k
  | .clobber r => .next (regs.set r .unk) kregs flags frame oracle acc
  | .skip => .next regs kregs flags frame oracle acc
  | .ret => .done
  | .unsupported => .err .unsupported

end Step

/-- The interpreter loop; control = (rest of the current chunk, following chunks). -/
def runLoop (p : Prog) (frameEnd : Nat) : Nat → List CInstr → List (List CInstr) →
    Regs → List Val → Flags → List (Nat × Val) → List Bool → List Rec → Except Err (List Rec)
  | 0, _, _, _, _, _, _, _, _ => .error ⟨.fuel, 0, 0⟩
  | f + 1, cur, rest, regs, kregs, flags, frame, oracle, acc =>
    match cur with
    | [] =>
        (match rest with
         | [] => .error ⟨.fellOff, 0, 0⟩
         | c :: rest' => runLoop p frameEnd f c rest' regs kregs flags frame oracle acc)
    | ⟨ci, pc, line⟩ :: cur' =>
      match step frameEnd pc line regs kregs flags frame oracle acc ci with
      | .next regs' kregs' flags' frame' oracle' acc' =>
          runLoop p frameEnd f cur' rest regs' kregs' flags' frame' oracle' acc'
      | .goto ch off oracle' =>
          (match seek p ch off with
           | some (c, r) => runLoop p frameEnd f c r regs kregs flags frame oracle' acc
           | none => .error ⟨.badJump, pc, line⟩)
      | .done => .ok acc.reverse
      | .err k => .error ⟨k, pc, line⟩

def unk4 : R4 := ⟨.unk, .unk, .unk, .unk⟩
def initRegs : Regs := ⟨unk4, unk4, unk4, unk4⟩
def initKregs : List Val := List.replicate 8 .unk

/-- Run a resolved routine from its entry to RET.
    `frame`: argument slot ↦ value; `argBytes`: size of the argument frame (`<routine>_argBytes`);
    `oracle`: decisions for branches on unknown flags (empty = any such branch is an error). -/
def run (p : Prog) (frame : List (Nat × Val)) (argBytes : Nat) (oracle : List Bool) (fuel : Nat) :
    Except Err (List Rec) :=
  match p with
  | [] => .error ⟨.fellOff, 0, 0⟩
  | c :: rest => runLoop p (8 + argBytes) fuel c rest initRegs initKregs .unknown frame oracle []

/-- the access list of a run -/
def accesses (p : Prog) (frame : List (Nat × Val)) (argBytes : Nat) (oracle : List Bool) (fuel : Nat) :
    Except Err (List Access) :=
  match run p frame argBytes oracle fuel with
  | .ok rs => .ok (rs.map (·.acc))
  | .error e => .error e

/-- first recorded access outside its region, with pc and source line (diagnostics / findings) -/
def firstOOB (size : Region → Nat) : List Rec → Option Rec
  | [] => none
  | r :: t => if r.acc.inBoundsB size then firstOOB size t else some r

def beqList : List Access → List Access → Bool
  | [], [] => true
  | a :: as, b :: bs => a.beq b && beqList as bs
  | _, _ => false

/-- the run terminates normally and its access list is exactly `model` (same order, same multiplicities) -/
def matchesModel (p : Prog) (frame : List (Nat × Val)) (argBytes : Nat) (oracle : List Bool) (fuel : Nat)
    (model : List Access) : Bool :=
  match accesses p frame argBytes oracle fuel with
  | .ok l => beqList l model
  | .error _ => false

/-! ## Soundness of the Boolean comparisons -/

theorem Region.beq_eq {a b : Region} (h : a.beq b = true) : a = b := by
  cases a <;> cases b <;> simp only [Region.beq] at h <;>
    first | (rw [Nat.eq_of_beq_eq_true h]) | (exact absurd h (by decide))

theorem Access.beq_eq {a b : Access} (h : a.beq b = true) : a = b := by
  cases a with | mk r o w k => cases b with | mk r' o' w' k' =>
  simp only [Access.beq, Bool.and_eq_true, beq_iff_eq] at h
  obtain ⟨⟨⟨h1, h2⟩, h3⟩, h4⟩ := h
  have h1' : r = r' := Region.beq_eq h1
  have h2' : o = o' := Nat.eq_of_beq_eq_true h2
  have h3' : w = w' := Nat.eq_of_beq_eq_true h3
  subst h1'; subst h2'; subst h3'; subst h4; rfl

theorem Region.beq_refl (a : Region) : a.beq a = true := by
  cases a <;> simp [Region.beq]

theorem Access.beq_refl (a : Access) : a.beq a = true := by
  cases a; simp [Access.beq, Region.beq_refl]

instance : LawfulBEq Region where
  eq_of_beq h := Region.beq_eq h
  rfl := Region.beq_refl _

instance : LawfulBEq Access where
  eq_of_beq h := Access.beq_eq h
  rfl := Access.beq_refl _

theorem beqList_eq : ∀ {l m : List Access}, beqList l m = true → l = m
  | [], [], _ => rfl
  | [], _ :: _, h => by simp [beqList] at h
  | _ :: _, [], h => by simp [beqList] at h
  | a :: as, b :: bs, h => by
      simp only [beqList, Bool.and_eq_true] at h
      rw [Access.beq_eq h.1, beqList_eq h.2]

theorem matchesModel_eq {p : Prog} {frame : List (Nat × Val)} {argBytes : Nat} {oracle : List Bool}
    {fuel : Nat} {model : List Access} (h : matchesModel p frame argBytes oracle fuel model = true) :
    accesses p frame argBytes oracle fuel = .ok model := by
  unfold matchesModel at h
  split at h
  · next l hl => rw [hl, beqList_eq h]
  · simp at h

theorem Access.inBoundsB_iff {size : Region → Nat} {a : Access} :
    a.inBoundsB size = true ↔ a.inBounds size := by
  simp [Access.inBoundsB, Access.inBounds, Nat.ble_eq]

end SMGo.Model.AsmAccess
