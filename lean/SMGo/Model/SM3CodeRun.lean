/-
  Hand-written driver over the GENERATED SM3 functions (`SMGo.Gen.SM3Code`, translated from sm3.go by
  `translate gosm3`): a history of Write/Sum/Reset calls on `New()`, call by call, exactly as
  `Model.SM3.step/run` drive the hand-written model.  The calls and answers are the types of the
  specification (`Spec.SM3.Op`, `Spec.SM3.Out`); byte strings cross as `List.toArray` / `Array.toList`.
-/
import SMGo.Gen.SM3Code
import SMGo.Spec.SM3
namespace SMGo.Model.SM3Code
open SMGo SMGo.Go

abbrev Op := Spec.SM3.Op
abbrev Out := Spec.SM3.Out

/-- one call on the generated code: `Write(d)` answers `n` (the error is `nil` — checked: a non-nil error
    is reported as a panic), `Sum(in)` its result, `Reset()` nothing -/
def step (s : Gen.SM3Code.SM3) : Op → Res (Gen.SM3Code.SM3 × Out)
  | .write d => do
    let r ← Gen.SM3Code.SM3.Write s d.toArray
    match r.2.2 with
    | none => pure (r.1, .wrote r.2.1.toNat)
    | some e => .panic ("Write returned error " ++ e)
  | .sum inp => do
    let r ← Gen.SM3Code.SM3.Sum s inp.toArray
    pure (r.1, .digest r.2.toList)
  | .reset => do
    let s' ← Gen.SM3Code.SM3.Reset s
    pure (s', .none)

/-- run a history from `New()` -/
def run (ops : List Op) : Res (List Out) := do
  let s0 ← Gen.SM3Code.New
  let r ← ops.foldlM (fun (acc : Gen.SM3Code.SM3 × List Out) op => do
      let r ← step acc.1 op
      pure (r.1, r.2 :: acc.2)) (s0, [])
  pure r.2.reverse

end SMGo.Model.SM3Code
