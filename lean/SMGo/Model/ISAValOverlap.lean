/-
  One more entry state of the one-block kernel `cryptoBlockAsm(rk, dst, src)`: `dst` and `src` point INTO ONE array
  (`dst = &buf[doff]`, `src = &buf[soff]`), so the 16 bytes read and the 16 bytes written may overlap in any way
  (|doff − soff| < 16: partial overlap in either direction; doff = soff: in place; otherwise disjoint slices of one array).
  The theorem about it is `Props/C05.asm_cryptoBlockAsm_overlap_eq_spec`.  Core Lean only.
-/
import SMGo.Model.ISAValInst

namespace SMGo.Model.ISAVal

/-- entry state of `cryptoBlockAsm(rk, &buf[doff], &buf[soff])` -/
def kernelStateOverlap (g v k : List Nat) (rk buf : List Nat) (doff soff : Nat) : State :=
  mkState g v k symbols
    [⟨"rk", wordsMem rk, false⟩, ⟨"dst", buf, true⟩]
    [("rk", arg 0), ("dst", arg 1 + doff), ("src", arg 1 + soff)]

end SMGo.Model.ISAVal
