/-
  Hand-written executable model, statement by statement over the slice heap of `SMGo.Model.Slice`,
  of the `cipher.Block` wrappers of SM4:

    * portable path, /repo/sm4/sm4.go:      `(*sm4Cipher).Encrypt`, `(*sm4Cipher).Decrypt`,
      `cryptoBlock(x, y []byte, rk)` at the level of slices (four 4-byte loads `x[0:4]..x[12:16]`
      through `binary.BigEndian.Uint32`, the arithmetic, four 4-byte stores `y[0:4]..y[12:16]`
      through `binary.BigEndian.PutUint32`, in the order of the source), and the helpers
      `encryptX2`/`decryptX2` with `cryptoBlockX2` (eight loads, arithmetic, eight stores);
    * assembly path, /repo/sm4/sm4_asm.go:  `(*sm4CipherAsm).Encrypt`, `(*sm4CipherAsm).Decrypt`
      (the same two length tests, then `&dst[0]`, `&src[0]` and the one-block kernel
      `cryptoBlockAsm(rk, dst, src *byte)`).

  Which path a `cipher.Block` takes: `sm4.NewCipher` → `newCipher` (sm4_asm.go on amd64/arm64)
  builds an `sm4CipherAsm` when `candoAsm` (CPU features), else `newCipherGeneric` builds an
  `sm4Cipher`; on other architectures (sm4_generic.go) always the latter.

  The arithmetic between the loads and the stores is a parameter `k : Bytes → Bytes` of the
  slice-level routines (`cryptoBlockK`, `cryptoBlockX2K`, `cryptoBlockAsm`).
    * Portable path: `k` is the value-level model `Model.SM4.cryptoBlock tb rk` (resp.
      `cryptoBlockX2`) of Model/SM4Block.lean — the subject of `Props.C05.cryptoBlock_eq_spec`.
    * Assembly path — MODELLING ASSUMPTION: the one-block kernel loads the 16 bytes at `src` into a
      register, computes, and then stores 16 bytes at `dst`; it touches no other memory.  This is
      what the listings show (asm_amd64.s `cryptoBlockAsm`: `loadInputX1` … `storeOutputX1`;
      asm_arm64.s: four `VLD1.P 4(R12)` before the rounds, four `VST1.P …, 4(R11)` after them) and
      what `Props.C05.asm_cryptoBlockAsm_eq_spec` / `asm_cryptoBlockAsm_inplace_eq_spec` prove on
      the interpreted amd64 listing for disjoint and for exactly overlapping buffers.  With
      read-all-then-write-all ANY overlap of `dst` and `src`, partial ones included, gives the
      same result as no overlap; the differential harness (stream sm4.wrap) runs every offset pair.

  Bounds: every load and store goes through the checked accessors below (`load`, `store` test
  against the slice's length, `readPtr`/`writePtr`/`writeAt` of Model/Slice.lean test against the
  backing array) and `reslice`/`addrOf` apply Go's run-time checks; an access that leaves its slice
  or its array answers `Outcome.panic`.  So `… = .ok h'` says that every access stayed inside
  `[off, off+len)` of the slice it went through.

  Core Lean only: linked into `smgo_model`.
-/
import SMGo.Spec.Bytes
import SMGo.Model.Outcome
import SMGo.Model.Slice
import SMGo.Model.SM4Block
namespace SMGo.Model.SM4Wrap
open SMGo SMGo.Model.Mem

/-- `BlockSize` -/
def blockSize : Nat := 16

/-- the pointer word of a slice header -/
def ptrOf (s : Slice) : Ptr := s.arr.map fun a => (a, s.off)

/-- read `s[0]..s[n-1]` (Go's check for the highest index: `n-1 < len(s)`) -/
def load (h : Heap) (s : Slice) (n : Nat) : Outcome Bytes :=
  if n ≤ s.len then readPtr h (ptrOf s) n else .panic

/-- `s[0], …, s[|bs|-1] = bs` (Go's check for the highest index: `|bs|-1 < len(s)`) -/
def store (h : Heap) (s : Slice) (bs : Bytes) : Outcome Heap :=
  if bs.length ≤ s.len then writePtr h (ptrOf s) bs else .panic

/-- `binary.BigEndian.Uint32(x[i:i+4])`, as the four bytes read:
    the slice expression (bounded by `cap(x)`), `_ = b[3]`, `b[0] … b[3]` -/
def loadWord (h : Heap) (x : Slice) (i : Nat) : Outcome Bytes := do
  let b ← reslice x i (i + 4)
  load h b 4

/-- `binary.BigEndian.PutUint32(y[i:i+4], w)` with `w` given as its four big-endian bytes:
    the slice expression, `_ = b[3]`, `b[0] = …; …; b[3] = …` -/
def storeWord (h : Heap) (y : Slice) (i : Nat) (w : Bytes) : Outcome Heap := do
  let b ← reslice y i (i + 4)
  store h b w

/-- bytes `[i, i+4)` of a computed block -/
def word (out : Bytes) (i : Nat) : Bytes := (out.drop i).take 4

/--
`cryptoBlock(x, y []byte, rk *[32]uint32)` on slices; `k` is the arithmetic (z0..z3 → z3 z2 z1 z0).
```go
	z0 := binary.BigEndian.Uint32(x[0:4])
	z1 := binary.BigEndian.Uint32(x[4:8])
	z2 := binary.BigEndian.Uint32(x[8:12])
	z3 := binary.BigEndian.Uint32(x[12:16])
	… 32 statements `t = …; zi ^= ss(t)` …
	binary.BigEndian.PutUint32(y[0:4], z3)
	binary.BigEndian.PutUint32(y[4:8], z2)
	binary.BigEndian.PutUint32(y[8:12], z1)
	binary.BigEndian.PutUint32(y[12:16], z0)
```
-/
def cryptoBlockK (k : Bytes → Bytes) (h : Heap) (x y : Slice) : Outcome Heap := do
  let b0 ← loadWord h x 0
  let b1 ← loadWord h x 4
  let b2 ← loadWord h x 8
  let b3 ← loadWord h x 12
  let out := k (b0 ++ b1 ++ b2 ++ b3)
  let h ← storeWord h y 0 (word out 0)
  let h ← storeWord h y 4 (word out 4)
  let h ← storeWord h y 8 (word out 8)
  storeWord h y 12 (word out 12)

/-- the portable `cryptoBlock`: arithmetic of Model/SM4Block.lean -/
def cryptoBlock (tb : SM4.Tables) (rk : List W32) (h : Heap) (x y : Slice) : Outcome Heap :=
  cryptoBlockK (SM4.cryptoBlock tb rk) h x y

/--
`cryptoBlockX2(x, y []byte, rk *[32]uint32)` on slices: loads `x[0:4] … x[28:32]` (ascending),
arithmetic, stores `y[0:4] … y[28:32]` (ascending).
-/
def cryptoBlockX2K (k : Bytes → Bytes) (h : Heap) (x y : Slice) : Outcome Heap := do
  let b0 ← loadWord h x 0
  let b1 ← loadWord h x 4
  let b2 ← loadWord h x 8
  let b3 ← loadWord h x 12
  let b4 ← loadWord h x 16
  let b5 ← loadWord h x 20
  let b6 ← loadWord h x 24
  let b7 ← loadWord h x 28
  let out := k (b0 ++ b1 ++ b2 ++ b3 ++ b4 ++ b5 ++ b6 ++ b7)
  let h ← storeWord h y 0 (word out 0)
  let h ← storeWord h y 4 (word out 4)
  let h ← storeWord h y 8 (word out 8)
  let h ← storeWord h y 12 (word out 12)
  let h ← storeWord h y 16 (word out 16)
  let h ← storeWord h y 20 (word out 20)
  let h ← storeWord h y 24 (word out 24)
  storeWord h y 28 (word out 28)

def cryptoBlockX2 (tb : SM4.Tables) (rk : List W32) (h : Heap) (x y : Slice) : Outcome Heap :=
  cryptoBlockX2K (SM4.cryptoBlockX2 tb rk) h x y

/-- `sm4Cipher`: the two expanded keys -/
structure Cipher where
  enc : List W32
  dec : List W32

/-- the wrapper body shared by Encrypt and Decrypt (they differ in the key field only) -/
def cryptK (k : Bytes → Bytes) (h : Heap) (dst src : Slice) : Outcome Heap :=
  if src.len < blockSize then .panic else
  if dst.len < blockSize then .panic else do
  let x ← reslice src 0 blockSize
  let y ← reslice dst 0 blockSize
  cryptoBlockK k h x y

/--
```go
func (sm4 *sm4Cipher) Encrypt(dst, src []byte) {
	if len(src) < BlockSize { panic("crypto/sm4: input not full block") }
	if len(dst) < BlockSize { panic("crypto/sm4: output not full block") }
	cryptoBlock(src[:BlockSize], dst[:BlockSize], &sm4.enc)
}
```
-/
def encrypt (tb : SM4.Tables) (c : Cipher) (h : Heap) (dst src : Slice) : Outcome Heap :=
  if src.len < blockSize then .panic else
  if dst.len < blockSize then .panic else do
  let x ← reslice src 0 blockSize
  let y ← reslice dst 0 blockSize
  cryptoBlock tb c.enc h x y

/-- `(*sm4Cipher).Decrypt`: the same statements with `&sm4.dec` -/
def decrypt (tb : SM4.Tables) (c : Cipher) (h : Heap) (dst src : Slice) : Outcome Heap :=
  if src.len < blockSize then .panic else
  if dst.len < blockSize then .panic else do
  let x ← reslice src 0 blockSize
  let y ← reslice dst 0 blockSize
  cryptoBlock tb c.dec h x y

/-- the body shared by encryptX2 and decryptX2 -/
def cryptX2K (k : Bytes → Bytes) (h : Heap) (dst src : Slice) : Outcome Heap := do
  let x ← reslice src 0 (2 * blockSize)
  let y ← reslice dst 0 (2 * blockSize)
  cryptoBlockX2K k h x y

/--
```go
func encryptX2(sm4 *sm4Cipher, dst, src []byte) {
	cryptoBlockX2(src[:BlockSize<<1], dst[:BlockSize<<1], &sm4.enc)
}
```
No length test: the slice expressions are bounded by the CAPACITIES.
-/
def encryptX2 (tb : SM4.Tables) (c : Cipher) (h : Heap) (dst src : Slice) : Outcome Heap := do
  let x ← reslice src 0 (2 * blockSize)
  let y ← reslice dst 0 (2 * blockSize)
  cryptoBlockX2 tb c.enc h x y

/-- `decryptX2`: the same with `&sm4.dec` -/
def decryptX2 (tb : SM4.Tables) (c : Cipher) (h : Heap) (dst src : Slice) : Outcome Heap := do
  let x ← reslice src 0 (2 * blockSize)
  let y ← reslice dst 0 (2 * blockSize)
  cryptoBlockX2 tb c.dec h x y

/-! ### assembly path -/

/-- `cryptoBlockAsm(rk *uint32, dst, src *byte)`: load 16 bytes at `src`, then store the 16 bytes
    `k` makes of them at `dst` (the modelling assumption of the header) -/
def cryptoBlockAsm (k : Bytes → Bytes) (h : Heap) (dst src : Ptr) : Outcome Heap := do
  let b ← readPtr h src blockSize
  writePtr h dst (k b)

/-- `sm4CipherAsm`: what the kernel computes with `&sm4.enc[0]` resp. `&sm4.dec[0]` -/
structure CipherAsm where
  encK : Bytes → Bytes
  decK : Bytes → Bytes

/-- the wrapper body shared by the two methods of `sm4CipherAsm` -/
def cryptAsmK (k : Bytes → Bytes) (h : Heap) (dst src : Slice) : Outcome Heap :=
  if src.len < blockSize then .panic else
  if dst.len < blockSize then .panic else do
  let d ← addrOf dst 0
  let s ← addrOf src 0
  cryptoBlockAsm k h d s

/--
```go
func (sm4 *sm4CipherAsm) Encrypt(dst, src []byte) {
	if len(src) < BlockSize { panic("crypto/sm4: input not full block") }
	if len(dst) < BlockSize { panic("crypto/sm4: output not full block") }
	cryptoBlockAsm(&sm4.enc[0], &dst[0], &src[0])
}
```
No `[:16]` here: the kernel gets the two data pointers and moves 16 bytes through each.
-/
def encryptAsm (c : CipherAsm) (h : Heap) (dst src : Slice) : Outcome Heap :=
  if src.len < blockSize then .panic else
  if dst.len < blockSize then .panic else do
  let d ← addrOf dst 0
  let s ← addrOf src 0
  cryptoBlockAsm c.encK h d s

/-- `(*sm4CipherAsm).Decrypt`: the same with `&sm4.dec[0]` -/
def decryptAsm (c : CipherAsm) (h : Heap) (dst src : Slice) : Outcome Heap :=
  if src.len < blockSize then .panic else
  if dst.len < blockSize then .panic else do
  let d ← addrOf dst 0
  let s ← addrOf src 0
  cryptoBlockAsm c.decK h d s

end SMGo.Model.SM4Wrap
