/-
  Hand-written executable model of the portable SM4 code in /repo/sm4/sm4.go: `ss`, `ssX2`, `tau`,
  `transTPrime`, `cryptoBlock` (one block, 32 unrolled statements = 8 groups of 4), `cryptoBlockX2`
  (two blocks packed in 64-bit words), `expandKey`, `NewCipher`'s key-length test and the
  Encrypt/Decrypt wrappers of `sm4Cipher`.  The tables (sbox, s0..s3, ck, fk0..fk3) are parameters,
  instantiated with the definitions regenerated from sm4_const.go.
-/
import SMGo.Spec.Bytes
import SMGo.Model.Outcome
namespace SMGo.Model.SM4
open SMGo

structure Tables where
  sbox : List Nat
  s0 : List Nat
  s1 : List Nat
  s2 : List Nat
  s3 : List Nat
  ck : List Nat
  fk : List Nat   -- fk0..fk3

def rotl (x : W32) (k : Nat) : W32 := (x <<< k) ||| (x >>> (32 - k))

def tbl (t : List Nat) (i : Nat) : W32 := BitVec.ofNat 32 (t.getD i 0)

/-- `ss(t)`: four T-table look-ups -/
def ss (tb : Tables) (t : W32) : W32 :=
  tbl tb.s0 ((t >>> 24).toNat % 256) ^^^ tbl tb.s1 ((t >>> 16).toNat % 256)
    ^^^ tbl tb.s2 ((t >>> 8).toNat % 256) ^^^ tbl tb.s3 (t.toNat % 256)

/-- `ssX2(t)` on a 64-bit word holding two 32-bit lanes -/
def ssX2 (tb : Tables) (t : W64) : W64 :=
  let lo := tbl tb.s0 ((t >>> 24).toNat % 256) ^^^ tbl tb.s1 ((t >>> 16).toNat % 256)
    ^^^ tbl tb.s2 ((t >>> 8).toNat % 256) ^^^ tbl tb.s3 (t.toNat % 256)
  let hi := tbl tb.s0 ((t >>> 56).toNat % 256) ^^^ tbl tb.s1 ((t >>> 48).toNat % 256)
    ^^^ tbl tb.s2 ((t >>> 40).toNat % 256) ^^^ tbl tb.s3 ((t >>> 32).toNat % 256)
  (hi.zeroExtend 64 <<< 32) ||| lo.zeroExtend 64

def tau (tb : Tables) (a : W32) : W32 :=
  let a0 := (a >>> 24).toNat % 256
  let a1 := (a >>> 16).toNat % 256
  let a2 := (a >>> 8).toNat % 256
  let a3 := a.toNat % 256
  (BitVec.ofNat 32 (tb.sbox.getD a0 0) <<< 24) ||| (BitVec.ofNat 32 (tb.sbox.getD a1 0) <<< 16)
    ||| (BitVec.ofNat 32 (tb.sbox.getD a2 0) <<< 8) ||| BitVec.ofNat 32 (tb.sbox.getD a3 0)

def transTPrime (tb : Tables) (a : W32) : W32 :=
  let b := tau tb a
  b ^^^ rotl b 13 ^^^ rotl b 23

/-- one group of four statements of `cryptoBlock` -/
def group4 (tb : Tables) (rk : List W32) (z : W32 × W32 × W32 × W32) (i : Nat) : W32 × W32 × W32 × W32 :=
  let (z0, z1, z2, z3) := z
  let t := z1 ^^^ z2 ^^^ z3 ^^^ rk.getD (4*i) 0
  let z0 := z0 ^^^ ss tb t
  let t := z2 ^^^ z3 ^^^ rk.getD (4*i+1) 0 ^^^ z0
  let z1 := z1 ^^^ ss tb t
  let t := z3 ^^^ rk.getD (4*i+2) 0 ^^^ z0 ^^^ z1
  let z2 := z2 ^^^ ss tb t
  let t := rk.getD (4*i+3) 0 ^^^ z0 ^^^ z1 ^^^ z2
  let z3 := z3 ^^^ ss tb t
  (z0, z1, z2, z3)

/-- `cryptoBlock(x, y, rk)` on a 16-byte `x`, returning the 16 bytes written to `y` -/
def cryptoBlock (tb : Tables) (rk : List W32) (x : Bytes) : Bytes :=
  let w := wordsBE x
  let (z0, z1, z2, z3) := (List.range 8).foldl (group4 tb rk) (w.getD 0 0, w.getD 1 0, w.getD 2 0, w.getD 3 0)
  w32Bytes z3 ++ w32Bytes z2 ++ w32Bytes z1 ++ w32Bytes z0

def dup (k : W32) : W64 := let k := k.zeroExtend 64; k ||| (k <<< 32)

def group4X2 (tb : Tables) (rk : List W32) (z : W64 × W64 × W64 × W64) (i : Nat) : W64 × W64 × W64 × W64 :=
  let (z0, z1, z2, z3) := z
  let t := z1 ^^^ z2 ^^^ z3 ^^^ dup (rk.getD (4*i) 0)
  let z0 := z0 ^^^ ssX2 tb t
  let t := z2 ^^^ z3 ^^^ dup (rk.getD (4*i+1) 0) ^^^ z0
  let z1 := z1 ^^^ ssX2 tb t
  let t := z3 ^^^ dup (rk.getD (4*i+2) 0) ^^^ z0 ^^^ z1
  let z2 := z2 ^^^ ssX2 tb t
  let t := dup (rk.getD (4*i+3) 0) ^^^ z0 ^^^ z1 ^^^ z2
  let z3 := z3 ^^^ ssX2 tb t
  (z0, z1, z2, z3)

def lo32 (z : W64) : W32 := z.truncate 32
def hi32 (z : W64) : W32 := (z >>> 32).truncate 32

/-- `cryptoBlockX2(x, y, rk)` on a 32-byte `x` -/
def cryptoBlockX2 (tb : Tables) (rk : List W32) (x : Bytes) : Bytes :=
  let w := wordsBE x
  let pack (i : Nat) : W64 := (w.getD i 0).zeroExtend 64 ||| ((w.getD (i+4) 0).zeroExtend 64 <<< 32)
  let (z0, z1, z2, z3) := (List.range 8).foldl (group4X2 tb rk) (pack 0, pack 1, pack 2, pack 3)
  w32Bytes (lo32 z3) ++ w32Bytes (lo32 z2) ++ w32Bytes (lo32 z1) ++ w32Bytes (lo32 z0)
    ++ w32Bytes (hi32 z3) ++ w32Bytes (hi32 z2) ++ w32Bytes (hi32 z1) ++ w32Bytes (hi32 z0)

/-- one pass of the loop body of `expandKey` (four round keys) -/
def expandStep (tb : Tables) (s : (W32 × W32 × W32 × W32) × List W32) (g : Nat) : (W32 × W32 × W32 × W32) × List W32 :=
  let ((k0, k1, k2, k3), enc) := s
  let i := 4 * g
  let k0 := k0 ^^^ transTPrime tb (k1 ^^^ k2 ^^^ k3 ^^^ tbl tb.ck i)
  let k1 := k1 ^^^ transTPrime tb (k2 ^^^ k3 ^^^ k0 ^^^ tbl tb.ck (i+1))
  let k2 := k2 ^^^ transTPrime tb (k3 ^^^ k0 ^^^ k1 ^^^ tbl tb.ck (i+2))
  let k3 := k3 ^^^ transTPrime tb (k0 ^^^ k1 ^^^ k2 ^^^ tbl tb.ck (i+3))
  ((k0, k1, k2, k3), enc ++ [k0, k1, k2, k3])

/-- `expandKey(mk, enc, dec)`: returns (enc, dec); `dec[31-i] = enc[i]` -/
def expandKey (tb : Tables) (mk : Bytes) : List W32 × List W32 :=
  let m := wordsBE mk
  let k0 := m.getD 0 0 ^^^ tbl tb.fk 0
  let k1 := m.getD 1 0 ^^^ tbl tb.fk 1
  let k2 := m.getD 2 0 ^^^ tbl tb.fk 2
  let k3 := m.getD 3 0 ^^^ tbl tb.fk 3
  let enc := ((List.range 8).foldl (expandStep tb) ((k0, k1, k2, k3), [])).2
  (enc, enc.reverse)

/-- `NewCipher(key)` on the portable path: error unless 16 bytes -/
def newCipher (tb : Tables) (key : Bytes) : Outcome (List W32 × List W32) :=
  if key.length ≠ 16 then .err else .ok (expandKey tb key)

end SMGo.Model.SM4
