/-
  Model of /repo/sm2/sm2.go, statement by statement, over the point layer (`Point.Ctx`), the scalar
  field (`FieldOps` for n) and the base-point tables: TestPrivateKey, DerivePublic, GenerateKey,
  CheckOnCurve, ZA, Sign/SignZa/SignHashed, Verify/VerifyZa/VerifyHashed, `ensure32Bytes`, and a
  scripted randomness source consumed through a model of `io.ReadFull`.
  `math/big` values are natural numbers; `big.Int.Bytes()` is the minimal-length encoding.
-/
import SMGo.Model.Curve
import SMGo.Model.SM3State
import SMGo.Spec.SM2Proto
namespace SMGo.Model.SM2
open SMGo SMGo.Model.Field

/-! ### Randomness source -/

/-- one `Read` event of a scripted `io.Reader`: `.data b` = bytes available (a Read takes a prefix, the
    rest stays for the next Read), `.fail` = this Read returns (0, err), `.zero` = returns (0, nil) -/
abbrev Item := Spec.SM2.Item
abbrev Script := Spec.SM2.Script

/-- `io.ReadFull(rand, buf)` with `len(buf) = want > 0`: bytes read so far in `acc`.
    End of script = EOF.  Returns the filled buffer or `none` (error), and the remaining script. -/
def readFull : Script → Nat → Bytes → Option Bytes × Script
  | [], _, _ => (none, [])
  | .fail :: rest, _, _ => (none, rest)
  | .zero :: rest, want, acc => readFull rest want acc
  | .data b :: rest, want, acc =>
    if b.length ≥ want then
      (some (acc ++ b.take want), if b.length = want then rest else .data (b.drop want) :: rest)
    else readFull rest (want - b.length) (acc ++ b)

/-- bytes delivered by the script in total (for the "consumed" count) -/
def avail : Script → Nat
  | [] => 0
  | .data b :: r => b.length + avail r
  | _ :: r => avail r

/-! ### Context -/

structure Ctx (α β : Type) where
  C : Point.Ctx α                 -- coordinate field, curve coefficient, formulas
  S : FieldOps β                  -- scalar field (mod n)
  first : List Curve.Table        -- sm2Precomputed_6_3_14
  second : Curve.Table            -- sm2Precomputed_6_3_14_Remainder
  n : Nat
  zBytes : Bytes                  -- a ‖ b ‖ Gx ‖ Gy
  tt : List W32                   -- SM3 round constants

variable {α β : Type}

def nBytes (X : Ctx α β) : Bytes := Bytes.ofNatMin X.n
def nMinus1Bytes (X : Ctx α β) : Bytes := Bytes.ofNatMin (X.n - 1)
/-- `nBytes33 = append([]byte{0}, nBytes...)` -/
def nBytes33 (X : Ctx α β) : Bytes := 0 :: nBytes X

/-- `x.FillBytes(buf)` with `len(buf) = len`: the value big-endian, zero-extended to the length of the
    buffer; panics ("buffer too small to fit value") when it does not fit -/
def fillBytes (len v : Nat) : Outcome Bytes :=
  if v < 256 ^ len then .ok (Bytes.ofNatBE len v) else .panic

def scalarBaseMult (X : Ctx α β) (k : Bytes) : Outcome (Point.Pt α) :=
  Curve.scalarBaseMult (Curve.pointOps X.C) k X.first X.second 6 3 14 4

/-- `TestPrivateKey(priv)`: 0 = valid -/
def testPrivateKey (X : Ctx α β) (priv : Bytes) : Outcome Int :=
  let l : Int := (priv.length : Int) - 32
  if l > 0 then .ok l else
  if priv.all (· == 0) then .ok (-1) else      -- zero (of any length ≤ 32) is not in [1, n-2]
  if l < 0 then .ok 0 else do
    let cmp ← Utils.constantTimeCmp (some priv) (some (nMinus1Bytes X)) 32
    if cmp = -1 then pure 0 else pure (-1)

/-- `DerivePublic(priv)` -/
def derivePublic (X : Ctx α β) (priv : Bytes) : Outcome (Bytes × Bytes) := do
  let pub ← scalarBaseMult X priv
  let pubBytes := Point.bytes X.C pub true      -- pub.Bytes(): constant-time inversion of Z
  if pubBytes.length ≠ 65 then .err else
  pure ((pubBytes.drop 1).take 32, pubBytes.drop 33)

/-- the rejection loop of `GenerateKey`; `fuel` bounds the number of candidates (script length + 1 suffices) -/
def genKeyLoop (X : Ctx α β) : Nat → Script → Outcome (Bytes × Script)
  | 0, _ => .err
  | fuel + 1, sc =>
    match readFull sc 32 [] with
    | (none, _) => .err
    | (some priv, sc') =>
      match testPrivateKey X priv with
      | .ok 0 => .ok (priv, sc')
      | .ok _ => genKeyLoop X fuel sc'
      | _ => .panic

/-- `GenerateKey(rand)`: `none` is a nil reader.  Returns (priv, x, y) and the bytes consumed. -/
def generateKey (X : Ctx α β) (rand : Option Script) : Outcome ((Bytes × Bytes × Bytes) × Nat) :=
  match rand with
  | none => .err
  | some sc => do
    -- fuel: every successful ReadFull lowers `avail` by exactly 32 (the Go loop is unbounded)
    let (priv, sc') ← genKeyLoop X (avail sc / 32 + 1) sc
    let pub ← scalarBaseMult X priv
    let pubBytes := Point.bytes X.C pub true      -- pub.Bytes(): constant-time inversion of Z
    if pubBytes.length ≠ 65 then .err else
    pure ((priv, (pubBytes.drop 1).take 32, pubBytes.drop 33), avail sc - avail sc')

/-- `CheckOnCurve(x, y)` -/
def checkOnCurve (X : Ctx α β) (x y : Bytes) : Bool :=
  match Field.setBytes X.C.F x, Field.setBytes X.C.F y with
  | .ok xe, .ok ye => Point.checkOnCurve X.C xe ye
  | _, _ => false

/-- `ZA(id, pubx, puby)`: five Writes and a Sum on a fresh SM3 -/
def za (X : Ctx α β) (id pubx puby : Bytes) : Outcome Bytes :=
  let entl := id.length * 8
  if entl ≥ 65536 then .err else
  let h := SM3.reset SM3.zero
  let h := (SM3.write X.tt h (Bytes.ofNatBE 2 entl)).1
  let h := (SM3.write X.tt h id).1
  let h := (SM3.write X.tt h X.zBytes).1
  let h := (SM3.write X.tt h pubx).1
  let h := (SM3.write X.tt h puby).1
  .ok (SM3.sum X.tt h [])

/-- `ensure32Bytes` -/
def ensure32 (v : Nat) : Bytes := Point.pad32 (Bytes.ofNatMin v)

/-- the signing loop of `SignHashed`; returns (r, s) and the remaining script -/
def signLoop (X : Ctx α β) (priv e : Bytes) : Nat → Script → Outcome ((Bytes × Bytes) × Script)
  | 0, _ => .err
  | fuel + 1, sc =>
    match readFull sc 32 [] with
    | (none, _) => .err
    | (some K, sc') =>
      match Utils.constantTimeCmp (some K) (some (nBytes X)) 32 with
      | .ok c =>
        if c ≥ 0 ∨ K.all (· == 0) then signLoop X priv e fuel sc' else
        match scalarBaseMult X K with
        | .ok kG =>
          let x := Point.getAffineX X.C kG      -- kG.GetAffineX(): constant-time inversion of Z
          let eInt := Bytes.toNatBE e
          let rInt := (x + eInt) % X.n
          if rInt = 0 then signLoop X priv e fuel sc' else
          let k := Bytes.toNatBE K
          let rkInt := rInt + k
          -- var rkBuf [33]byte; rkInt.FillBytes(rkBuf[:])   (r + k < 2n < 2^257 always fits)
          match fillBytes 33 rkInt with
          | .ok rkBuf =>
            match Utils.constantTimeCmp (some rkBuf) (some (nBytes33 X)) 33 with
            | .ok c33 =>
              if c33 = 0 then signLoop X priv e fuel sc' else
              let dInt := Bytes.toNatBE priv
              let d1Int := dInt + 1
              -- var buf [32]byte; d1Int.FillBytes(buf[:])   (1 + d ≤ n - 1 always fits)
              match fillBytes 32 d1Int with
              | .ok buf =>
                match Field.scalarSetBytes X.S buf with
                | .ok d1 =>
                  let d1Inv := Field.invert X.S d1
                  let sInt := (rkInt * Field.toNat X.S d1Inv + (X.n - rInt % X.n)) % X.n
                  if sInt = 0 then signLoop X priv e fuel sc' else
                  .ok ((ensure32 rInt, ensure32 sInt), sc')
                | _ => .panic    -- d1.SetBytes error ignored by the code: d1 stays zero (excluded: priv ≤ n-2)
              | _ => .panic
            | _ => .panic
          | _ => .panic
        | .err => .err
        | .panic => .panic
      | _ => .panic

/-- `SignHashed(rand, priv, e)`: ((r, s), bytes consumed) -/
def signHashed (X : Ctx α β) (sc : Script) (priv e : Bytes) : Outcome ((Bytes × Bytes) × Nat) := do
  let test ← testPrivateKey X priv
  if test ≠ 0 then .err else
  -- fuel: every successful ReadFull lowers `avail` by exactly 32, so `avail sc / 32 + 1` iterations
  -- always suffice (the Go loop is unbounded)
  let ((r, s), sc') ← signLoop X priv e (avail sc / 32 + 1) sc
  pure ((r, s), avail sc - avail sc')

/-- e = SM3(za ‖ msg) through Write, Write, Sum -/
def hashZaMsg (X : Ctx α β) (za msg : Bytes) : Bytes :=
  let h := SM3.reset SM3.zero
  let h := (SM3.write X.tt h za).1
  let h := (SM3.write X.tt h msg).1
  SM3.sum X.tt h []

def signZa (X : Ctx α β) (sc : Script) (priv za msg : Bytes) : Outcome ((Bytes × Bytes) × Nat) :=
  signHashed X sc priv (hashZaMsg X za msg)

def sign (X : Ctx α β) (id pubx puby : Bytes) (sc : Script) (priv msg : Bytes) : Outcome ((Bytes × Bytes) × Nat) := do
  let z ← za X id pubx puby
  signZa X sc priv z msg

/-- `VerifyHashed(pubx, puby, e, r, s)`: `.ok b` is (b, nil error) or (false, error) -/
def verifyHashed (X : Ctx α β) (pubx puby e r s : Bytes) : Outcome Bool :=
  if pubx.length ≠ 32 ∨ puby.length ≠ 32 ∨ e.length ≠ 32 ∨ r.length ≠ 32 ∨ s.length ≠ 32 then .ok false else
  let rInt := Bytes.toNatBE r
  let sInt := Bytes.toNatBE s
  if rInt < 1 ∨ sInt < 1 ∨ rInt ≥ X.n ∨ sInt ≥ X.n then .ok false else
  let t := (rInt + sInt) % X.n
  if t = 0 then .ok false else
  match Point.setBytes X.C ([4] ++ pubx ++ puby) with
  | .ok pub =>
    let tBytes := ensure32 t
    match Curve.scalarMixedMult (Curve.pointOps X.C) s pub tBytes X.first X.second with
    | .ok result =>
      if (Point.bytes X.C result false).length = 1 then .ok false else
      let R := (Point.getAffineXUnsafe X.C result + Bytes.toNatBE e) % X.n
      .ok (R = rInt)
    | .err => .ok false
    | .panic => .panic
  | .err => .ok false
  | .panic => .panic

def verifyZa (X : Ctx α β) (pubx puby za msg r s : Bytes) : Outcome Bool :=
  verifyHashed X pubx puby (hashZaMsg X za msg) r s

def verify (X : Ctx α β) (id pubx puby msg r s : Bytes) : Outcome Bool :=
  match za X id pubx puby with
  | .ok z => verifyZa X pubx puby z msg r s
  | .err => .ok false
  | .panic => .panic

end SMGo.Model.SM2
