/-
  Hand-written executable model of /repo/sm3/sm3.go, statement by statement:
  the struct (h, x, nx, len), Reset, Write, checkSum, Sum, SumSM3, and the compression function `cf`
  with its 68-word ring of partially expanded message words.  The round-constant table `tt` is a
  parameter; the driver and the theorems instantiate it with the table regenerated from the source
  (`SMGo.Gen.SM3Const.tt`).
-/
import SMGo.Spec.Bytes
import SMGo.Spec.SM3
namespace SMGo.Model.SM3
open SMGo

def rotl (x : W32) (k : Nat) : W32 := (x <<< k) ||| (x >>> (32 - k))

def ff1 (x y z : W32) : W32 := (x &&& y) ||| (x &&& z) ||| (y &&& z)
def gg1 (x y z : W32) : W32 := (x &&& y) ||| (~~~x &&& z)
def p0 (x : W32) : W32 := x ^^^ rotl x 9 ^^^ rotl x 17
def p1 (x : W32) : W32 := x ^^^ rotl x 15 ^^^ rotl x 23

structure Regs where
  a : W32
  b : W32
  c : W32
  d : W32
  e : W32
  f : W32
  g : W32
  h : W32
deriving DecidableEq, Repr

/-- `partiallyExpand`: w[0..15] from the message, w[16..20] expanded; the rest of the 68 words zero -/
def partiallyExpand (msg : Bytes) : List W32 :=
  let w0 := wordsBE (msg.take 64) ++ List.replicate 52 0
  (List.range 5).foldl (fun w i =>
    let j := 16 + i
    w.set j (p1 (w.getD (j-16) 0 ^^^ w.getD (j-9) 0 ^^^ rotl (w.getD (j-3) 0) 15)
              ^^^ rotl (w.getD (j-13) 0) 7 ^^^ w.getD (j-6) 0)) w0

/-- one iteration of the first loop of `cf` (j = 0..15) -/
def roundLo (tt : List W32) (s : List W32 × Regs) (j : Nat) : List W32 × Regs :=
  let (w, r) := s
  let alr12 := rotl r.a 12
  let ss1 := rotl (alr12 + r.e + tt.getD j 0) 7
  let tt2 := (r.e ^^^ r.f ^^^ r.g) + r.h + ss1 + w.getD j 0
  let ss2 := ss1 ^^^ alr12
  let tt1 := (r.a ^^^ r.b ^^^ r.c) + r.d + ss2 + (w.getD j 0 ^^^ w.getD (j+4) 0)
  (w, { a := tt1, b := r.a, c := rotl r.b 9, d := r.c, e := p0 tt2, f := r.e, g := rotl r.f 19, h := r.g })

/-- one iteration of the second loop of `cf` (j = 16..63): expands w[j+4] on the fly -/
def roundHi (tt : List W32) (s : List W32 × Regs) (j : Nat) : List W32 × Regs :=
  let (w, r) := s
  let alr12 := rotl r.a 12
  let ss1 := rotl (alr12 + r.e + tt.getD j 0) 7
  let tt2 := gg1 r.e r.f r.g + r.h + ss1 + w.getD j 0
  let ss2 := ss1 ^^^ alr12
  let w := w.set (j+4) (p1 (w.getD (j-12) 0 ^^^ w.getD (j-5) 0 ^^^ rotl (w.getD (j+1) 0) 15)
                          ^^^ rotl (w.getD (j-9) 0) 7 ^^^ w.getD (j-2) 0)
  let tt1 := ff1 r.a r.b r.c + r.d + ss2 + (w.getD j 0 ^^^ w.getD (j+4) 0)
  (w, { a := tt1, b := r.a, c := rotl r.b 9, d := r.c, e := p0 tt2, f := r.e, g := rotl r.f 19, h := r.g })

def regsOf (v : List W32) : Regs :=
  { a := v.getD 0 0, b := v.getD 1 0, c := v.getD 2 0, d := v.getD 3 0,
    e := v.getD 4 0, f := v.getD 5 0, g := v.getD 6 0, h := v.getD 7 0 }

def Regs.toList (r : Regs) : List W32 := [r.a, r.b, r.c, r.d, r.e, r.f, r.g, r.h]

/-- `(*SM3).cf` on the first 64 bytes of `msg` (the Go code slices `msg[0:64]`) -/
def cf (tt : List W32) (h : List W32) (msg : Bytes) : List W32 :=
  let s0 := (partiallyExpand msg, regsOf h)
  let s1 := (List.range 16).foldl (roundLo tt) s0
  let s2 := (List.range 48).foldl (fun s i => roundHi tt s (16 + i)) s1
  List.zipWith (· ^^^ ·) h s2.2.toList

structure St where
  h : List W32      -- [8]uint32
  x : Bytes         -- [64]byte, stale bytes included
  nx : Nat
  len : Nat         -- uint64
deriving DecidableEq, Repr

def iv : List W32 :=
  [0x7380166f#32, 0x4914b2b9#32, 0x172442d7#32, 0xda8a0600#32,
   0xa96f30bc#32, 0x163138aa#32, 0xe38dee4d#32, 0xb0fb0e4e#32]

/-- a zero value of the struct (what `new(SM3)` / `var sm3 SM3` give) -/
def zero : St := { h := List.replicate 8 0, x := List.replicate 64 0, nx := 0, len := 0 }

def reset (s : St) : St := { s with h := iv, nx := 0, len := 0 }

/-- `copy(dst[off:], src)` on a 64-byte buffer: returns the buffer and the count -/
def copyInto (x : Bytes) (off : Nat) (src : Bytes) : Bytes × Nat :=
  let cnt := min (x.length - off) src.length
  (x.take off ++ src.take cnt ++ x.drop (off + cnt), cnt)

/-- the loop `for len(data) >= BlockSize { cf(data[:64]); data = data[64:] }` -/
def absorb (tt : List W32) (h : List W32) (data : Bytes) : List W32 × Bytes :=
  if _hlt : data.length < 64 then (h, data) else absorb tt (cf tt h data) (data.drop 64)
termination_by data.length
decreasing_by simp [List.length_drop]; omega

/-- `(*SM3).Write`; the Go result is `(n, err)`, `err` is always nil -/
def write (tt : List W32) (s : St) (data : Bytes) : St × Nat :=
  let n := data.length
  let s := { s with len := (s.len + data.length) % 2 ^ 64 }
  let (s, data) :=
    if s.nx > 0 then
      let (x, cnt) := copyInto s.x s.nx data
      let s := { s with x := x, nx := s.nx + cnt }
      let data := data.drop cnt
      if s.nx = 64 then ({ s with h := cf tt s.h s.x, nx := 0 }, data) else (s, data)
    else (s, data)
  let s :=
    if s.nx = 0 then
      let (h, rest) := absorb tt s.h data
      let s := { s with h := h }
      if rest.length > 0 then
        let (x, cnt) := copyInto s.x 0 rest
        { s with x := x, nx := cnt }
      else s
    else s
  (s, n)

def maxTail : Nat := 56

/-- `(*SM3).checkSum`, returning the 32 output bytes and the (scratch) final state -/
def checkSum (tt : List W32) (s : St) : Bytes × St :=
  let lenAtSum := s.len
  let s := { s with x := s.x.set s.nx 0x80, nx := s.nx + 1 }
  let empty : Bytes := List.replicate 64 0
  let s :=
    if s.nx > maxTail then (write tt s (empty.take (64 + maxTail - s.nx))).1
    else (write tt s ((empty.drop s.nx).take (maxTail - s.nx))).1
  let s := { s with x := s.x.take maxTail ++ Bytes.ofNatBE 8 ((lenAtSum * 8) % 2 ^ 64) }
  let s := { s with h := cf tt s.h s.x }
  (s.h.flatMap w32Bytes, s)

/-- `(*SM3).Sum(in)`: works on a copy, the receiver is unchanged -/
def sum (tt : List W32) (s : St) (inp : Bytes) : Bytes := inp ++ (checkSum tt s).1

/-- `SumSM3(data)` -/
def sumSM3 (tt : List W32) (data : Bytes) : Bytes :=
  (checkSum tt (write tt (reset zero) data).1).1

/-- the calls of a history and their answers: the types the specification's `runHistory` uses
    (only these two types are taken from `SMGo.Spec.SM3`; nothing of the model computes with the
    specification) -/
abbrev Op := Spec.SM3.Op
abbrev Out := Spec.SM3.Out

def step (tt : List W32) (s : St) : Op → St × Out
  | .write d => let (s', n) := write tt s d; (s', .wrote n)
  | .sum inp => (s, .digest (sum tt s inp))
  | .reset => (reset s, .none)

/-- run a history from `sm3.New()` -/
def run (tt : List W32) (ops : List Op) : List Out :=
  (ops.foldl (fun (acc : St × List Out) op =>
      let (s', o) := step tt acc.1 op; (s', o :: acc.2)) (reset zero, [])).2.reverse

end SMGo.Model.SM3
