/-
  Result of a modelled Go call: a value, a returned error, or a run-time panic
  (index out of range, explicit `panic(...)`, nil dereference).
-/
namespace SMGo

inductive Outcome (α : Type) where
  | ok : α → Outcome α
  | err : Outcome α
  | panic : Outcome α
deriving DecidableEq, Repr

namespace Outcome

@[inline] def bind {α β : Type} (x : Outcome α) (f : α → Outcome β) : Outcome β :=
  match x with
  | .ok a => f a
  | .err => .err
  | .panic => .panic

instance : Monad Outcome where
  pure := .ok
  bind := bind

@[simp] theorem bind_ok {α β} (a : α) (f : α → Outcome β) : (Outcome.ok a >>= f) = f a := rfl
@[simp] theorem bind_err {α β} (f : α → Outcome β) : ((Outcome.err : Outcome α) >>= f) = .err := rfl
@[simp] theorem bind_panic {α β} (f : α → Outcome β) : ((Outcome.panic : Outcome α) >>= f) = .panic := rfl
@[simp] theorem pure_eq {α} (a : α) : (pure a : Outcome α) = .ok a := rfl

/-- Go slice/array indexing with its bounds check -/
def idx {α : Type} (l : List α) (i : Nat) : Outcome α :=
  match l[i]? with
  | some a => .ok a
  | none => .panic

end Outcome
end SMGo
