/-
  Entry states of the GCM routines of sm4/gcm_amd64.s for the value interpreter (SMGo/Model/ISAVal.lean):
  the states the driver request `asm.ghash` runs the listing on and the theorems of Props/C06Asm.lean are
  about.  Core Lean only.
-/
import SMGo.Model.ISAValInst
import SMGo.Gen.ListAmd64Gcm

namespace SMGo.Model.ISAVal

/-- entry state of `gHashBlocks(H *byte, tag *byte, data *byte, count int)`:
    `h` = the 16 bytes of the hash key, `tag` = the 16 bytes of the running GHASH value (updated in place),
    `data` = the blocks; `g`, `v`, `k` = whatever the registers hold at entry -/
def ghashState (g v k : List Nat) (h tag data : List Nat) (count : Nat) : State :=
  mkState g v k symbols
    [⟨"h", h, false⟩, ⟨"tag", tag, true⟩, ⟨"data", data, false⟩]
    [("h", arg 0), ("tag", arg 1), ("data", arg 2), ("count", count)]

/-- the tag buffer after running the listing of `gHashBlocks` -/
def runGhash (fuel : Nat) (s : State) : Except String (List Nat) := do
  let s' ← run Gen.ListAmd64Gcm.gHashBlocks fuel s
  match regionBytes s' "tag" with
  | some b => pure b
  | none => .error "no region tag"

end SMGo.Model.ISAVal
