/-
  Entry states of the GCM routines of sm4/gcm_amd64.s for the value interpreter (SMGo/Model/ISAVal.lean):
  the states the driver request `asm.ghash` runs the listing on and the theorems of Props/C06Asm.lean are
  about.  Core Lean only.
-/
import SMGo.Model.ISAValInst
import SMGo.Gen.ListAmd64Gcm

namespace SMGo.Model.ISAVal

/-- entry state of `gHashBlocks(H *byte, tag *byte, data *byte, count int)`:
    `h` = the 16 bytes of the hash key, `tag` = the 16 bytes of the running GHASH value (updated in place),
    `data` = the blocks; `g`, `v`, `k` = whatever the registers hold at entry -/
def ghashState (g v k : List Nat) (h tag data : List Nat) (count : Nat) : State :=
  mkState g v k symbols
    [⟨"h", h, false⟩, ⟨"tag", tag, true⟩, ⟨"data", data, false⟩]
    [("h", arg 0), ("tag", arg 1), ("data", arg 2), ("count", count)]

/-- the tag buffer after running the listing of `gHashBlocks` -/
def runGhash (fuel : Nat) (s : State) : Except String (List Nat) := do
  let s' ← run Gen.ListAmd64Gcm.gHashBlocks fuel s
  match regionBytes s' "tag" with
  | some b => pure b
  | none => .error "no region tag"

/-! ### the fused routines -/

/-- the argument regions of `sealAsm` / `openAsm`, in this order after the read-only symbols: round keys, destination,
    nonce, input (plaintext / ciphertext ‖ tag), additional data, the 32-byte scratch buffer `temp` -/
def gcmRegions (inName : String) (inW : Bool) (rk dst nonce inp aad tmp : List Nat) : List Region :=
  [⟨"rk", wordsMem rk, false⟩, ⟨"dst", dst, true⟩, ⟨"nonce", nonce, false⟩, ⟨inName, inp, inW⟩,
   ⟨"aData", aad, false⟩, ⟨"tmp", tmp, true⟩]

/-- entry state of `sealAsm(roundKeys *uint32, tagSize int, dst *byte, nonce []byte, plaintext []byte,
    additionalData []byte, temp *byte)`: `rk` = the 32 round keys as numbers; `dst`, `tmp` = the old contents of the
    destination and of the scratch buffer; `g`, `v`, `k` = whatever the registers hold at entry -/
def sealState (g v k rk : List Nat) (tagSize : Nat) (dst nonce pt aad tmp : List Nat) : State :=
  mkState g v k symbols (gcmRegions "plaintext" false rk dst nonce pt aad tmp)
    [("rk", arg 0), ("tagSize", tagSize), ("dst", arg 1), ("nonce", arg 2), ("nonceLen", nonce.length),
     ("nonceCap", nonce.length), ("plaintext", arg 3), ("plainLen", pt.length), ("aData", arg 4), ("aLen", aad.length),
     ("tmp", arg 5)]

/-- entry state of `openAsm(roundKeys, tagSize, dst, nonce, ciphertext []byte, additionalData, temp) int`:
    `ct` = ciphertext ‖ tag; `ret0` = the old contents of the result slot -/
def openState (g v k rk : List Nat) (tagSize : Nat) (dst nonce ct aad tmp : List Nat) (ret0 : Nat) : State :=
  mkState g v k symbols (gcmRegions "cipher" false rk dst nonce ct aad tmp)
    [("rk", arg 0), ("tagSize", tagSize), ("dst", arg 1), ("nonce", arg 2), ("nonceLen", nonce.length),
     ("nonceCap", nonce.length), ("cipher", arg 3), ("cipherLen", ct.length), ("aData", arg 4), ("aLen", aad.length),
     ("tmp", arg 5), ("ret1", ret0)]

/-- the destination buffer after running the listing of `sealAsm` -/
def runSeal (fuel : Nat) (s : State) : Except String (List Nat) := do
  let s' ← run Gen.ListAmd64Gcm.sealAsm fuel s
  match regionBytes s' "dst" with
  | some b => pure b
  | none => .error "no region dst"

/-- the result slot and the destination buffer after running the listing of `openAsm` -/
def runOpen (fuel : Nat) (s : State) : Except String (Nat × List Nat) := do
  let s' ← run Gen.ListAmd64Gcm.openAsm fuel s
  match lookup s'.frame "ret1", regionBytes s' "dst" with
  | some r, some b => pure (r, b)
  | _, _ => .error "no result slot / no region dst"

end SMGo.Model.ISAVal
