/-
  Entry states of `sealAsm` / `openAsm` for the IN-PLACE call, as `Seal(buf[:0], nonce, buf, aad)` / `Open(ct[:0], nonce, ct, aad)`
  make it: the Go glue passes a `dst` pointer that points at the input's own array.  In these states the destination region IS the
  input: the slots `dst` and `plaintext` (resp. `cipher`) hold the same address, the destination region holds the input (followed,
  for `sealAsm`, by the `tagSize` bytes of spare capacity the tag goes to), and the separate input region of `sealState` /
  `openState` is kept with ARBITRARY contents `ur` (no slot points to it; it keeps the addresses of the other regions the same;
  the driver request `asm.seal … inplace` / `asm.open … inplace`, which the harness compares with the CPU, is the case ur = input).  The theorems about
  these states are `Props/C06AsmSeal.sealAsm_inplace_eq_spec` and `Props/C07Asm.openAsm_inplace_eq_spec`.  Core Lean only.
-/
import SMGo.Model.ISAValGcm

namespace SMGo.Model.ISAVal

/-- entry state of `sealAsm(rk, tagSize, &buf[0], nonce, buf[:len(pt)], aad, temp)`: the array `buf` holds the plaintext `pt`
    followed by `tl` (old contents of the capacity the tag is written to) -/
def sealStateInPlace (g v k rk : List Nat) (tagSize : Nat) (pt tl nonce ur aad tmp : List Nat) : State :=
  mkState g v k symbols (gcmRegions "plaintext" false rk (pt ++ tl) nonce ur aad tmp)
    [("rk", arg 0), ("tagSize", tagSize), ("dst", arg 1), ("nonce", arg 2), ("nonceLen", nonce.length),
     ("nonceCap", nonce.length), ("plaintext", arg 1), ("plainLen", pt.length), ("aData", arg 4), ("aLen", aad.length),
     ("tmp", arg 5)]

/-- entry state of `openAsm(rk, tagSize, &ct[0], nonce, ct, aad, temp)`: the destination is the input array `ct`
    (ciphertext ‖ tag) itself -/
def openStateInPlace (g v k rk : List Nat) (tagSize : Nat) (ct nonce ur aad tmp : List Nat) (ret0 : Nat) : State :=
  mkState g v k symbols (gcmRegions "cipher" false rk ct nonce ur aad tmp)
    [("rk", arg 0), ("tagSize", tagSize), ("dst", arg 1), ("nonce", arg 2), ("nonceLen", nonce.length),
     ("nonceCap", nonce.length), ("cipher", arg 1), ("cipherLen", ct.length), ("aData", arg 4), ("aLen", aad.length),
     ("tmp", arg 5), ("ret1", ret0)]

end SMGo.Model.ISAVal
