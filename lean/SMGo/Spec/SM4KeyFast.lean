/-
  The key schedule of `Spec.SM4` with the tabulated S-box of `Spec/SM4Fast.lean` (`tauF`), so that
  the driver can answer tens of thousands of `sm4.wrap.spec` requests quickly.
  `Proofs/SM4KeyFast.lean` proves `keyScheduleFast = Spec.SM4.keySchedule`, so the oracle the
  harness runs is the specification.  Core Lean only.
-/
import SMGo.Spec.SM4
import SMGo.Spec.SM4Fast
namespace SMGo.Spec.SM4
open SMGo

def keyStepF (s : (W32 × W32 × W32 × W32) × List W32) (i : Nat) : (W32 × W32 × W32 × W32) × List W32 :=
  let ((k0, k1, k2, k3), rks) := s
  let k4 := k0 ^^^ L' (tauF (k1 ^^^ k2 ^^^ k3 ^^^ CK i))
  ((k1, k2, k3, k4), rks ++ [k4])

def keyScheduleFast (key : Bytes) : List W32 :=
  let mk := wordsBE key
  let k0 := mk.getD 0 0 ^^^ FK.getD 0 0
  let k1 := mk.getD 1 0 ^^^ FK.getD 1 0
  let k2 := mk.getD 2 0 ^^^ FK.getD 2 0
  let k3 := mk.getD 3 0 ^^^ FK.getD 3 0
  ((List.range 32).foldl keyStepF ((k0, k1, k2, k3), [])).2

end SMGo.Spec.SM4
