/-
  Galois/Counter Mode as NIST SP 800-38D writes it, generic in the block cipher
  `E : Bytes → Bytes` (16 bytes to 16 bytes): multiplication in GF(2^128) (Algorithm 1, bit-serial),
  GHASH (Algorithm 2), inc32, GCTR (Algorithm 3), the pre-counter block J0 for any IV length,
  authenticated encryption (Algorithm 4) and decryption (Algorithm 5) with tag length t bytes.
  Blocks are natural numbers < 2^128 read big-endian: bit 0 of the standard is the most significant.
  Executable; oracle of properties C06, C07, C10.
-/
import SMGo.Spec.Bytes
namespace SMGo.Spec.GCM
open SMGo

def blockToNat (b : Bytes) : Nat := Bytes.toNatBE b
def natToBlock (n : Nat) : Bytes := Bytes.ofNatBE 16 n

/-- R = 11100001 ‖ 0^120 -/
def R : Nat := 0xE1 <<< 120

/-- Algorithm 1: X • Y -/
def mulGF (x y : Nat) : Nat :=
  ((List.range 128).foldl (fun (s : Nat × Nat) i =>
      let (z, v) := s
      let z := if (x >>> (127 - i)) % 2 = 1 then z ^^^ v else z
      let v := if v % 2 = 0 then v >>> 1 else (v >>> 1) ^^^ R
      (z, v)) (0, y)).1

/-- right-pad with zeros to a multiple of 16 bytes -/
def pad16 (b : Bytes) : Bytes := b ++ List.replicate ((16 - b.length % 16) % 16) 0

/-- 16-byte blocks of a string whose length is a multiple of 16 -/
def blocks16 : Nat → Bytes → List Bytes
  | 0, _ => []
  | fuel + 1, b => if b.isEmpty then [] else b.take 16 :: blocks16 fuel (b.drop 16)

def blocksOf (b : Bytes) : List Bytes := blocks16 (b.length / 16 + 1) b

/-- Algorithm 2: GHASH_H over a string whose length is a multiple of 128 bits -/
def ghash (h : Nat) (x : Bytes) : Nat :=
  (blocksOf x).foldl (fun y blk => mulGF (y ^^^ blockToNat blk) h) 0

def inc32 (blk : Nat) : Nat := (blk / 2 ^ 32) * 2 ^ 32 + (blk % 2 ^ 32 + 1) % 2 ^ 32

def xorBytes (a b : Bytes) : Bytes := List.zipWith (· ^^^ ·) a b

/-- Algorithm 3: GCTR_K(ICB, X); the last block may be partial -/
def gctrAux (E : Bytes → Bytes) : Nat → Nat → Bytes → Bytes
  | 0, _, _ => []
  | fuel + 1, cb, x =>
    if x.isEmpty then []
    else xorBytes (x.take 16) (E (natToBlock cb)) ++ gctrAux E fuel (inc32 cb) (x.drop 16)

def gctr (E : Bytes → Bytes) (icb : Nat) (x : Bytes) : Bytes := gctrAux E (x.length / 16 + 1) icb x

def be64 (n : Nat) : Bytes := Bytes.ofNatBE 8 n

/-- the pre-counter block J0 (step 2 of Algorithm 4) -/
def j0 (h : Nat) (iv : Bytes) : Nat :=
  if iv.length = 12 then blockToNat (iv ++ [0, 0, 0, 1])
  else ghash h (pad16 iv ++ List.replicate 8 0 ++ be64 (8 * iv.length))

def tagOf (E : Bytes → Bytes) (h j : Nat) (aad c : Bytes) (t : Nat) : Bytes :=
  let s := ghash h (pad16 aad ++ pad16 c ++ be64 (8 * aad.length) ++ be64 (8 * c.length))
  (gctr E j (natToBlock s)).take t

/-- Algorithm 4: ciphertext ‖ tag (tag truncated to t bytes) -/
def sealGCM (E : Bytes → Bytes) (t : Nat) (iv pt aad : Bytes) : Bytes :=
  let h := blockToNat (E (List.replicate 16 0))
  let j := j0 h iv
  let c := gctr E (inc32 j) pt
  c ++ tagOf E h j aad c t

/-- Algorithm 5: `none` = FAIL -/
def openGCM (E : Bytes → Bytes) (t : Nat) (iv ct aad : Bytes) : Option Bytes :=
  if ct.length < t then none else
  let c := ct.take (ct.length - t)
  let tag := ct.drop (ct.length - t)
  let h := blockToNat (E (List.replicate 16 0))
  let j := j0 h iv
  if tagOf E h j aad c t = tag then some (gctr E (inc32 j) c) else none

end SMGo.Spec.GCM
