/-
  SM3 as GB/T 32905-2016 writes it: padding (5.2), message expansion (5.3.2), compression
  function (5.3.3), iteration (5.3.1).  Executable; this is the oracle of properties C04/C13.
-/
import SMGo.Spec.Bytes
namespace SMGo.Spec.SM3
open SMGo

def IV : List W32 :=
  [0x7380166f#32, 0x4914b2b9#32, 0x172442d7#32, 0xda8a0600#32,
   0xa96f30bc#32, 0x163138aa#32, 0xe38dee4d#32, 0xb0fb0e4e#32]

def T (j : Nat) : W32 := if j < 16 then 0x79cc4519#32 else 0x7a879d8a#32

def FF (j : Nat) (x y z : W32) : W32 :=
  if j < 16 then x ^^^ y ^^^ z else (x &&& y) ||| (x &&& z) ||| (y &&& z)

def GG (j : Nat) (x y z : W32) : W32 :=
  if j < 16 then x ^^^ y ^^^ z else (x &&& y) ||| (~~~x &&& z)

def P0 (x : W32) : W32 := x ^^^ x.rotateLeft 9 ^^^ x.rotateLeft 17
def P1 (x : W32) : W32 := x ^^^ x.rotateLeft 15 ^^^ x.rotateLeft 23

/-- 5.2: m ‖ 1 ‖ 0^k ‖ len64 with k minimal such that the total is a multiple of 512 bits -/
def pad (m : Bytes) : Bytes :=
  let l := m.length
  let k := (64 - (l + 9) % 64) % 64
  m ++ [0x80] ++ List.replicate k 0 ++ Bytes.ofNatBE 8 (8 * l % 2 ^ 64)

/-- 5.3.2 a),b): the list W_0 .. W_67, built front to back; `extend` appends one word -/
def extendW (w : List W32) : List W32 :=
  let j := w.length
  w ++ [P1 (w.getD (j - 16) 0 ^^^ w.getD (j - 9) 0 ^^^ (w.getD (j - 3) 0).rotateLeft 15)
          ^^^ (w.getD (j - 13) 0).rotateLeft 7 ^^^ w.getD (j - 6) 0]

def expand (block : Bytes) : List W32 :=
  (List.range 52).foldl (fun w _ => extendW w) (wordsBE block)

structure Regs where
  a : W32
  b : W32
  c : W32
  d : W32
  e : W32
  f : W32
  g : W32
  h : W32
deriving DecidableEq, Repr

/-- one round of 5.3.3 with W_j and W'_j = W_j xor W_{j+4} -/
def round (w : List W32) (r : Regs) (j : Nat) : Regs :=
  let ss1 := (r.a.rotateLeft 12 + r.e + (T j).rotateLeft (j % 32)).rotateLeft 7
  let ss2 := ss1 ^^^ r.a.rotateLeft 12
  let tt1 := FF j r.a r.b r.c + r.d + ss2 + (w.getD j 0 ^^^ w.getD (j + 4) 0)
  let tt2 := GG j r.e r.f r.g + r.h + ss1 + w.getD j 0
  { a := tt1, b := r.a, c := r.b.rotateLeft 9, d := r.c,
    e := P0 tt2, f := r.e, g := r.f.rotateLeft 19, h := r.g }

def regsOf (v : List W32) : Regs :=
  { a := v.getD 0 0, b := v.getD 1 0, c := v.getD 2 0, d := v.getD 3 0,
    e := v.getD 4 0, f := v.getD 5 0, g := v.getD 6 0, h := v.getD 7 0 }

def Regs.toList (r : Regs) : List W32 := [r.a, r.b, r.c, r.d, r.e, r.f, r.g, r.h]

/-- CF(V, B) -/
def CF (v : List W32) (block : Bytes) : List W32 :=
  let w := expand block
  let r := (List.range 64).foldl (round w) (regsOf v)
  List.zipWith (· ^^^ ·) r.toList v

/-- split into 64-byte blocks (a short tail is dropped) -/
def blocks (m : Bytes) : List Bytes :=
  if _h : m.length < 64 then [] else m.take 64 :: blocks (m.drop 64)
termination_by m.length
decreasing_by simp [List.length_drop]; omega

def hashWords (m : Bytes) : List W32 := (blocks (pad m)).foldl CF IV

def hash (m : Bytes) : Bytes := (hashWords m).flatMap w32Bytes

/-- one call on a `hash.Hash` value -/
inductive Op where
  | write (d : Bytes)
  | sum (inp : Bytes)
  | reset
deriving DecidableEq, Repr

/-- what the call answers: `Write` its count (the error is nil), `Sum` a byte string, `Reset` nothing -/
inductive Out where
  | wrote (n : Nat)
  | digest (b : Bytes)
  | none
deriving DecidableEq, Repr

/-- what every call of a history starting at `New()` has to answer (property C04): `Write d` consumes
    all of `d`, `Sum inp` gives `inp` followed by the digest of everything written since the last
    `Reset`, and neither `Sum` nor anything else disturbs the bytes accumulated so far -/
def runHistory (ops : List Op) : List Out :=
  (ops.foldl (fun (acc : Bytes × List Out) op =>
    match op with
    | .write d => (acc.1 ++ d, .wrote d.length :: acc.2)
    | .sum inp => (acc.1, .digest (inp ++ hash acc.1) :: acc.2)
    | .reset => ([], .none :: acc.2)) ([], [])).2.reverse

end SMGo.Spec.SM3
