/-
  SM2 digital signature (GM/T 0003.2-2012 / GB/T 32918.2) as an executable oracle over natural
  numbers: the recommended curve parameters, affine group law, scalar multiplication by
  double-and-add, signature generation for a given nonce, verification, and the user hash ZA.
  Independent of the implementation's representation (no Montgomery form, no projective coordinates,
  no tables).  Oracle of properties C01–C03, C12–C15.
-/
import SMGo.Spec.Bytes
import SMGo.Spec.SM3
namespace SMGo.Spec.SM2
open SMGo

def p  : Nat := 0xFFFFFFFEFFFFFFFFFFFFFFFFFFFFFFFFFFFFFFFF00000000FFFFFFFFFFFFFFFF
def a  : Nat := 0xFFFFFFFEFFFFFFFFFFFFFFFFFFFFFFFFFFFFFFFF00000000FFFFFFFFFFFFFFFC
def b  : Nat := 0x28E9FA9E9D9F5E344D5A9E4BCF6509A7F39789F515AB8F92DDBCBD414D940E93
def n  : Nat := 0xFFFFFFFEFFFFFFFFFFFFFFFFFFFFFFFF7203DF6B21C6052B53BBF40939D54123
def Gx : Nat := 0x32C4AE2C1F1981195F9904466A39C9948FE30BBFF2660BE1715A4589334C74C7
def Gy : Nat := 0xBC3736A2F4F6779C59BDCEE36B692153D0A9877CC62A474002DF32E52139F0A0

/-- x^e mod m by square-and-multiply on the binary digits of e (structural on a fuel bound) -/
def powModAux (m : Nat) : Nat → Nat → Nat → Nat → Nat
  | 0, _, _, acc => acc
  | fuel + 1, x, e, acc =>
    if e = 0 then acc
    else powModAux m fuel (x * x % m) (e / 2) (if e % 2 = 1 then acc * x % m else acc)

def powMod (x e m : Nat) : Nat := powModAux m (e.log2 + 1) (x % m) e (1 % m)

/-- inverse modulo a prime m (0 for 0) -/
def invMod (x m : Nat) : Nat := powMod x (m - 2) m

/-- affine point: `none` is the point at infinity -/
abbrev Point := Option (Nat × Nat)

def onCurve (x y : Nat) : Bool := (y * y) % p == (x * x % p * x + a * x + b) % p

def G : Point := some (Gx, Gy)

def neg : Point → Point
  | none => none
  | some (x, y) => some (x, (p - y) % p)

/-- the group law of E(F_p) in affine coordinates -/
def add : Point → Point → Point
  | none, q => q
  | q, none => q
  | some (x1, y1), some (x2, y2) =>
    if x1 = x2 then
      if (y1 + y2) % p = 0 then none
      else
        let l := (3 * x1 * x1 + a) % p * invMod (2 * y1) p % p
        let x3 := (l * l + 2 * (p - x1)) % p
        some (x3, (l * ((x1 + (p - x3)) % p) + (p - y1)) % p)
    else
      let l := ((y2 + (p - y1)) % p) * invMod ((x2 + (p - x1)) % p) p % p
      let x3 := (l * l + (p - x1) + (p - x2)) % p
      some (x3, (l * ((x1 + (p - x3)) % p) + (p - y1)) % p)

/-- [k]P by left-to-right double-and-add over `bits` binary digits of k -/
def smul (k : Nat) (P : Point) : Point :=
  (List.range (k.log2 + 1)).foldl (fun acc i =>
    let acc := add acc acc
    if (k >>> (k.log2 - i)) % 2 = 1 then add acc P else acc) none

/-- GM/T 0003.2 §6.1 with a given nonce k: `none` when the standard says "go back and draw again" -/
def signWith (d e k : Nat) : Option (Nat × Nat) :=
  if k = 0 ∨ k ≥ n then none else
  match smul k G with
  | none => none
  | some (x1, _) =>
    let r := (e + x1) % n
    if r = 0 ∨ r + k = n then none else
    let s := invMod (1 + d) n * ((k + (n - r * d % n)) % n) % n
    if s = 0 then none else some (r, s)

/-- first acceptable nonce of a stream of 32-byte candidates: (index, r, s) -/
def signStream (d e : Nat) : List Nat → Nat → Option (Nat × Nat × Nat)
  | [], _ => none
  | k :: ks, j =>
    match signWith d e k with
    | some (r, s) => some (j, r, s)
    | none => signStream d e ks (j + 1)

/-- GM/T 0003.2 §7.1 on integers (r, s, e) and a public point -/
def verifyNat (P : Point) (e r s : Nat) : Bool :=
  if r = 0 ∨ r ≥ n ∨ s = 0 ∨ s ≥ n then false else
  let t := (r + s) % n
  if t = 0 then false else
  match add (smul s G) (smul t P) with
  | none => false
  | some (x1, _) => (e + x1) % n == r

/-- verification on byte strings: all five 32 bytes, the key a canonically encoded curve point -/
def verify (px py e r s : Bytes) : Bool :=
  if px.length ≠ 32 ∨ py.length ≠ 32 ∨ e.length ≠ 32 ∨ r.length ≠ 32 ∨ s.length ≠ 32 then false else
  let x := Bytes.toNatBE px
  let y := Bytes.toNatBE py
  if x ≥ p ∨ y ≥ p then false else
  if !onCurve x y then false else
  verifyNat (some (x, y)) (Bytes.toNatBE e) (Bytes.toNatBE r) (Bytes.toNatBE s)

/-- valid private keys -/
def validKey (d : Nat) : Bool := 1 ≤ d && d ≤ n - 2

/-- ZA = SM3(ENTL ‖ id ‖ a ‖ b ‖ Gx ‖ Gy ‖ xA ‖ yA); refused when the bit length does not fit 16 bits -/
def za (id px py : Bytes) : Option Bytes :=
  if id.length * 8 ≥ 65536 then none else
  some (Spec.SM3.hash (Bytes.ofNatBE 2 (id.length * 8) ++ id ++ Bytes.ofNatBE 32 a ++ Bytes.ofNatBE 32 b
      ++ Bytes.ofNatBE 32 Gx ++ Bytes.ofNatBE 32 Gy ++ px ++ py))

/-- e = SM3(ZA ‖ M) -/
def digest (za msg : Bytes) : Bytes := Spec.SM3.hash (za ++ msg)

end SMGo.Spec.SM2
