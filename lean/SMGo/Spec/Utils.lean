/-
  Specification of the two helpers of utils.go (property C20): lexicographic comparison of byte
  strings, and the textbook right-to-left signed-window recoding (Algorithm 1 of Benger, van de Pol,
  Smart, Yarom, CHES 2014 — the reference the source cites), which yields the unique
  representation with digits zero or odd, |d| < 2^w, and at least w zeros after a non-zero digit.
-/
import SMGo.Spec.Bytes
import SMGo.Model.Outcome
namespace SMGo.Spec.Utils
open SMGo

/-- -1 / 0 / 1 by lexicographic order -/
def lexCmp : Bytes → Bytes → Int
  | [], [] => 0
  | [], _ :: _ => -1
  | _ :: _, [] => 1
  | x :: xs, y :: ys => if x < y then -1 else if y < x then 1 else lexCmp xs ys

def cmp (a b : Option Bytes) (l : Int) : Outcome Int :=
  match a, b with
  | some a, some b =>
    if l.toNat > a.length ∨ l.toNat > b.length then .panic
    else .ok (lexCmp (a.take l.toNat) (b.take l.toNat))
  | _, _ => .panic

/-- signed residue of k modulo 2^(w+1) in (-2^w, 2^w] for odd k -/
def mods (w k : Nat) : Int :=
  let m := k % 2 ^ (w + 1)
  if m ≥ 2 ^ w then (m : Int) - (2 ^ (w + 1) : Nat) else m

/-- `len` digits of the w-NAF of `k`, least significant first -/
def naf (w : Nat) : Nat → Nat → List Int
  | 0, _ => []
  | len + 1, k =>
    if k % 2 = 1 then
      let d := mods w k
      d :: naf w len (((k : Int) - d) / 2).toNat
    else 0 :: naf w len (k / 2)

/-- weighted sum Σ dᵢ 2ⁱ -/
def nafValue : List Int → Int
  | [] => 0
  | d :: ds => d + 2 * nafValue ds

/-- digits are zero or odd and small -/
def digitsOk (w : Nat) (ds : List Int) : Bool :=
  ds.all (fun d => d == 0 || (d % 2 != 0 && d.natAbs < 2 ^ w))

/-- every non-zero digit is followed by at least `w` zeros (or the end) -/
def spaced (w : Nat) : List Int → Bool
  | [] => true
  | d :: ds => (d == 0 || (ds.take w).all (· == 0)) && spaced w ds

end SMGo.Spec.Utils
