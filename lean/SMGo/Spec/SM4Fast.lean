/-
  The same SM4 as `Spec.SM4`, with the algebraic S-box tabulated once (an `Array` built from
  `Spec.SM4.sboxAlg`) so that the driver can run GCM over kilobytes quickly.  `Proofs/SM4Fast.lean`
  proves `cryptFast = Spec.SM4.crypt`, so the oracle the harness runs is the specification.
-/
import SMGo.Spec.SM4
namespace SMGo.Spec.SM4
open SMGo

def sboxArray : Array UInt8 := Array.ofFn (n := 256) (fun i => UInt8.ofNat (sboxAlg i.val))

def sboxF (b : UInt8) : UInt8 := sboxArray.getD b.toNat 0

def tauF (a : W32) : W32 :=
  be32 (sboxF (byteOf a 0)) (sboxF (byteOf a 1)) (sboxF (byteOf a 2)) (sboxF (byteOf a 3))

def roundStepF (s : W32 × W32 × W32 × W32) (rk : W32) : W32 × W32 × W32 × W32 :=
  let (x0, x1, x2, x3) := s
  (x1, x2, x3, x0 ^^^ L (tauF (x1 ^^^ x2 ^^^ x3 ^^^ rk)))

def cryptFast (rk : List W32) (blk : Bytes) : Bytes :=
  let x := wordsBE blk
  let (x32, x33, x34, x35) := rk.foldl roundStepF (x.getD 0 0, x.getD 1 0, x.getD 2 0, x.getD 3 0)
  w32Bytes x35 ++ w32Bytes x34 ++ w32Bytes x33 ++ w32Bytes x32

end SMGo.Spec.SM4
