/-
  Byte-string utilities shared by specifications, models and the line-protocol driver.
  Core Lean only (no Mathlib): this file is linked into the `smgo_model` executable.
-/
namespace SMGo

abbrev Bytes := List UInt8
abbrev W32 := BitVec 32
abbrev W64 := BitVec 64

namespace Bytes

/-- value of a big-endian byte string -/
def toNatBE : Bytes → Nat
  | bs => bs.foldl (fun acc b => acc * 256 + b.toNat) 0

/-- `n` as exactly `len` big-endian bytes (high part dropped when it does not fit) -/
def ofNatBE (len : Nat) (n : Nat) : Bytes :=
  (List.range len).map (fun i => UInt8.ofNat ((n / 256 ^ (len - 1 - i)) % 256))

/-- minimal-length big-endian encoding (Go's `big.Int.Bytes`): empty for 0 -/
def ofNatMin (n : Nat) : Bytes :=
  let rec go (fuel : Nat) (n : Nat) (acc : Bytes) : Bytes :=
    match fuel with
    | 0 => acc
    | fuel + 1 => if n = 0 then acc else go fuel (n / 256) (UInt8.ofNat (n % 256) :: acc)
  go (n + 1) n []

def hexDigit (n : Nat) : Char :=
  if n < 10 then Char.ofNat (48 + n) else Char.ofNat (87 + n)

def toHex (bs : Bytes) : String :=
  String.ofList (bs.foldr (fun b acc => hexDigit (b.toNat / 16) :: hexDigit (b.toNat % 16) :: acc) [])

def hexVal (c : Char) : Option Nat :=
  if '0' ≤ c ∧ c ≤ '9' then some (c.toNat - 48)
  else if 'a' ≤ c ∧ c ≤ 'f' then some (c.toNat - 87)
  else if 'A' ≤ c ∧ c ≤ 'F' then some (c.toNat - 55)
  else none

def ofHexChars : List Char → Option Bytes
  | [] => some []
  | [_] => none
  | a :: b :: rest => do
    let x ← hexVal a
    let y ← hexVal b
    let r ← ofHexChars rest
    pure (UInt8.ofNat (x * 16 + y) :: r)

def ofHex (s : String) : Option Bytes := ofHexChars s.toList

end Bytes

/-- big-endian 32-bit word from four bytes -/
def be32 (a b c d : UInt8) : W32 :=
  BitVec.ofNat 32 (a.toNat * 16777216 + b.toNat * 65536 + c.toNat * 256 + d.toNat)

def w32Bytes (w : W32) : Bytes :=
  [UInt8.ofNat (w.toNat / 16777216), UInt8.ofNat (w.toNat / 65536 % 256),
   UInt8.ofNat (w.toNat / 256 % 256), UInt8.ofNat (w.toNat % 256)]

/-- the words of a byte string read big-endian, four bytes at a time (a short tail is dropped) -/
def wordsBE : Bytes → List W32
  | a :: b :: c :: d :: rest => be32 a b c d :: wordsBE rest
  | _ => []

end SMGo
