/-
  Byte-level statement of what the SM2 entry points must return, in terms of the integer-level
  standard (`Spec.SM2`): randomness streams cut into 32-byte candidates, key generation, signing,
  public-key derivation, point encodings.  These are the functions the driver executes for the
  `*.spec` requests and the ones the property theorems are stated against.
-/
import SMGo.Spec.SM2
namespace SMGo.Spec.SM2
open SMGo

/-- one event of a scripted reader (shared with the model) -/
inductive Item where
  | data (b : Bytes)
  | fail
  | zero
deriving DecidableEq, Repr

abbrev Script := List Item

/-- cut `x` into 32-byte chunks; returns the chunks and the incomplete rest -/
def chunk32 : Nat → Bytes → List Bytes → List Bytes × Bytes
  | 0, x, out => (out, x)
  | fuel + 1, x, out => if x.length ≥ 32 then chunk32 fuel (x.drop 32) (out ++ [x.take 32]) else (out, x)

/-- the complete 32-byte candidates a script delivers before its first failure or its end -/
def candidates : Script → Bytes → List Bytes
  | [], _ => []
  | .fail :: _, _ => []
  | .zero :: r, acc => candidates r acc
  | .data b :: r, acc =>
    let all := acc ++ b
    let (cs, rest) := chunk32 (all.length / 32 + 1) all []
    cs ++ candidates r rest

/-- what `SignHashed` must return: `none` = error; otherwise r, s (32 bytes each) and bytes consumed -/
def signBytes (priv e : Bytes) (sc : Script) : Option (Bytes × Bytes × Nat) :=
  let d := Bytes.toNatBE priv
  if priv.length > 32 ∨ !(validKey d) then none else
  match signStream d (Bytes.toNatBE e) ((candidates sc []).map Bytes.toNatBE) 0 with
  | some (j, r, s) => some (Bytes.ofNatBE 32 r, Bytes.ofNatBE 32 s, 32 * (j + 1))
  | none => none

def firstValid : List Bytes → Nat → Option (Bytes × Nat)
  | [], _ => none
  | c :: r, j => if validKey (Bytes.toNatBE c) then some (c, j) else firstValid r (j + 1)

/-- what `GenerateKey` must return: priv, x, y, bytes consumed -/
def genKey (sc : Option Script) : Option (Bytes × Bytes × Bytes × Nat) :=
  match sc with
  | none => none
  | some sc =>
    match firstValid (candidates sc []) 0 with
    | some (d, j) =>
      match smul (Bytes.toNatBE d) G with
      | some (x, y) => some (d, Bytes.ofNatBE 32 x, Bytes.ofNatBE 32 y, 32 * (j + 1))
      | none => none
    | none => none

/-- what `DerivePublic` must return -/
def derive (priv : Bytes) : Option (Bytes × Bytes) :=
  if priv.length ≠ 32 then none else
  match smul (Bytes.toNatBE priv) G with
  | some (x, y) => some (Bytes.ofNatBE 32 x, Bytes.ofNatBE 32 y)
  | none => none

/-- `CheckOnCurve` -/
def onCurveBytes (x y : Bytes) : Bool :=
  x.length = 32 ∧ y.length = 32 ∧ Bytes.toNatBE x < p ∧ Bytes.toNatBE y < p ∧ onCurve (Bytes.toNatBE x) (Bytes.toNatBE y)

/-- SEC1 encoding of an affine point -/
def pointBytes : Point → Bytes
  | none => [0]
  | some (x, y) => [4] ++ Bytes.ofNatBE 32 x ++ Bytes.ofNatBE 32 y

/-- strict decoding: the one-byte infinity or 65-byte uncompressed canonical on-curve coordinates -/
def parsePoint (b : Bytes) : Option Point :=
  if b = [0] then some none
  else if b.length = 65 ∧ b.head? = some 4 then
    let x := Bytes.toNatBE ((b.drop 1).take 32)
    let y := Bytes.toNatBE (b.drop 33)
    if x < p ∧ y < p ∧ onCurve x y then some (some (x, y)) else none
  else none

/-- id/message-level signing -/
def signIdBytes (id px py priv msg : Bytes) (sc : Script) : Option (Bytes × Bytes × Nat) :=
  match za id px py with
  | some z => signBytes priv (digest z msg) sc
  | none => none

def verifyId (id px py msg r s : Bytes) : Bool :=
  match za id px py with
  | some z => verify px py (digest z msg) r s
  | none => false

end SMGo.Spec.SM2
