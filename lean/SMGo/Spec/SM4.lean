/-
  SM4 as GB/T 32907-2016 writes it.  The S-box is *defined* algebraically (affine ∘ inversion in
  GF(2^8) ∘ affine, Liu et al., "Analysis of the SM4 S-box"), so that property C18 ("the table is the
  standard's algebraic S-box") is a statement about the generated table, not a copy of it.
  Executable; oracle of properties C05, C06, C07.
-/
import SMGo.Spec.Bytes
namespace SMGo.Spec.SM4
open SMGo

/-- multiplication in GF(2)[x]/(x^8+x^7+x^6+x^5+x^4+x^2+1), bit-serial -/
def gfMul (a b : Nat) : Nat :=
  ((List.range 8).foldl (fun (s : Nat × Nat × Nat) _ =>
      let (a, b, r) := s
      let r := if b % 2 = 1 then r ^^^ a else r
      let a := a * 2
      let a := if a ≥ 256 then a ^^^ 0x1f5 else a
      (a, b / 2, r)) (a % 256, b % 256, 0)).2.2

def gfSq (a : Nat) : Nat := gfMul a a

/-- a^254 = a⁻¹ (and 0 ↦ 0) -/
def gfInv (a : Nat) : Nat :=
  let a2 := gfSq a
  let a3 := gfMul a2 a
  let a6 := gfSq a3
  let a7 := gfMul a6 a
  let a14 := gfSq a7
  let a15 := gfMul a14 a
  let a30 := gfSq a15
  let a31 := gfMul a30 a
  let a62 := gfSq a31
  let a63 := gfMul a62 a
  let a126 := gfSq a63
  let a127 := gfMul a126 a
  gfSq a127

def parity (x : Nat) : Nat := ((List.range 8).foldl (fun p i => p + (x >>> i) % 2) 0) % 2

def rotl8 (x k : Nat) : Nat := ((x <<< k) ||| (x >>> (8 - k))) % 256

/-- y = A·x + c with A the circulant matrix of first row 0xA7 and c = 0xD3 -/
def affine (x : Nat) : Nat :=
  ((List.range 8).foldl (fun y i => y ||| (parity (rotl8 0xA7 i &&& x) <<< i)) 0) ^^^ 0xD3

def sboxAlg (x : Nat) : Nat := affine (gfInv (affine x))

def sbox (b : UInt8) : UInt8 := UInt8.ofNat (sboxAlg b.toNat)

def byteOf (w : W32) (i : Nat) : UInt8 := UInt8.ofNat ((w.toNat >>> (24 - 8 * i)) % 256)

/-- τ: the S-box on each of the four bytes -/
def tau (a : W32) : W32 :=
  be32 (sbox (byteOf a 0)) (sbox (byteOf a 1)) (sbox (byteOf a 2)) (sbox (byteOf a 3))

def L (b : W32) : W32 := b ^^^ b.rotateLeft 2 ^^^ b.rotateLeft 10 ^^^ b.rotateLeft 18 ^^^ b.rotateLeft 24
def L' (b : W32) : W32 := b ^^^ b.rotateLeft 13 ^^^ b.rotateLeft 23
def T (a : W32) : W32 := L (tau a)
def T' (a : W32) : W32 := L' (tau a)

def FK : List W32 := [0xA3B1BAC6#32, 0x56AA3350#32, 0x677D9197#32, 0xB27022DC#32]

/-- CK_i: byte j is (4i+j)·7 mod 256 -/
def CK (i : Nat) : W32 :=
  be32 (UInt8.ofNat ((4*i) * 7 % 256)) (UInt8.ofNat ((4*i+1) * 7 % 256))
       (UInt8.ofNat ((4*i+2) * 7 % 256)) (UInt8.ofNat ((4*i+3) * 7 % 256))

/-- the sliding window (K_i, K_{i+1}, K_{i+2}, K_{i+3}) ↦ next, emitting rk_i = K_{i+4} -/
def keyStep (s : (W32 × W32 × W32 × W32) × List W32) (i : Nat) : (W32 × W32 × W32 × W32) × List W32 :=
  let ((k0, k1, k2, k3), rks) := s
  let k4 := k0 ^^^ T' (k1 ^^^ k2 ^^^ k3 ^^^ CK i)
  ((k1, k2, k3, k4), rks ++ [k4])

/-- rk_0 .. rk_31 from a 16-byte key -/
def keySchedule (key : Bytes) : List W32 :=
  let mk := wordsBE key
  let k0 := mk.getD 0 0 ^^^ FK.getD 0 0
  let k1 := mk.getD 1 0 ^^^ FK.getD 1 0
  let k2 := mk.getD 2 0 ^^^ FK.getD 2 0
  let k3 := mk.getD 3 0 ^^^ FK.getD 3 0
  ((List.range 32).foldl keyStep ((k0, k1, k2, k3), [])).2

def roundStep (s : W32 × W32 × W32 × W32) (rk : W32) : W32 × W32 × W32 × W32 :=
  let (x0, x1, x2, x3) := s
  (x1, x2, x3, x0 ^^^ T (x1 ^^^ x2 ^^^ x3 ^^^ rk))

/-- 32 rounds and the reverse transform R, on one 16-byte block -/
def crypt (rk : List W32) (blk : Bytes) : Bytes :=
  let x := wordsBE blk
  let (x32, x33, x34, x35) := rk.foldl roundStep (x.getD 0 0, x.getD 1 0, x.getD 2 0, x.getD 3 0)
  w32Bytes x35 ++ w32Bytes x34 ++ w32Bytes x33 ++ w32Bytes x32

def encrypt (key blk : Bytes) : Bytes := crypt (keySchedule key) blk
def decrypt (key blk : Bytes) : Bytes := crypt (keySchedule key).reverse blk

end SMGo.Spec.SM4
