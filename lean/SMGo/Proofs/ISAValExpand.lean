import SMGo.Proofs.ISAValRound
import SMGo.Proofs.ISAValX1
import SMGo.Proofs.ISAValRounds
namespace SMGo.Proofs.ISAVal
open SMGo.Model.ISAVal SMGo.Model.ISA

/-- one round of the key schedule on the state registers A B C D (`expandSubRound` of asm_amd64.s) -/
def eroundCode (A B C D : Nat) : List DInstr :=
  [ins .MOVL [M 2 0, R 1] 16,
   ins .ADDQ [.imm 4, G 2] 0,
   ins .VPBROADCASTD [R 1, R 13] 16,
   ins .VPXORD [R B, R C, R 0] 16,
   ins .VPXORD [R D, R 0, R 1] 16,
   ins .VPXORD [R 13, R 1, R 4] 16,
   ins .VGF2P8AFFINEQB [.imm 62, R 10, R 4, R 0] 16,
   ins .VGF2P8AFFINEINVQB [.imm 211, R 11, R 0, R 5] 16,
   ins .VPROLD [.imm 13, R 5, R 0] 16,
   ins .VPROLD [.imm 23, R 5, R 1] 16,
   ins .VPXORD [R 0, R 1, R 0] 16,
   ins .VPXORD [R 0, R 5, R 5] 16,
   ins .VPXORD [R 5, R A, R A] 16,
   ins .VMOVDQU32 [R A, K 1, M 3 0] 16,
   ins .VMOVDQU32 [R A, K 1, M 1 0] 16,
   ins .ADDQ [.imm 4, G 3] 0,
   ins .SUBQ [.imm 4, G 1] 0]

/-- L' as `transformLPrime` computes it -/
def L'N (y : Nat) : Nat := y ^^^ (rotl32 23 y ^^^ rotl32 13 y)
def T'N (x : Nat) : Nat := L'N (tauN x)
def eroundF (xa xb xc xd k : Nat) : Nat := xa ^^^ T'N (xc ^^^ xb ^^^ xd ^^^ k)

theorem imm_13 : imm64 13 % 256 = 13 := by decide +kernel
theorem imm_23 : imm64 23 % 256 = 23 := by decide +kernel

/-- one instruction of a straight-line block on an explicit state (with the moves of `expandKeyAsm`) -/
macro "estep" : tactic => `(tactic|
  (apply exec_step
   · first
     | exact execD_vec3 (hmn := by rfl) (hvl := by rfl) (ha := by rfl) (hb := by rfl) (hd := by simp) (hr := by rfl) ..
     | exact execD_vecImm (hmn := by rfl) (hvl := by rfl) (ha := by rfl) (hd := by simp) (hr := by rfl) ..
     | exact execD_vecImm2 (hmn := by rfl) (hvl := by rfl) (ha := by rfl) (hb := by rfl) (hd := by simp) (hr := by rfl) ..
     | exact execD_broadcastd (hvl := by rfl) (ha := by rfl) (hd := by simp) ..
     | exact execD_addq_imm (hold := by rfl) (hd := by simp) ..))

/-- what one `expandSubRound` block guarantees -/
structure ERoundPost (A B C D : Nat) (s s' : State) (k : Nat) (W : List Nat → List Region) : Prop where
  lenG : s'.gpr.length = 16
  lenV : s'.vec.length = 32
  kreg : s'.kreg = s.kreg
  syms : s'.syms = s.syms
  frame : s'.frame = s.frame
  g2 : greg s' 2 = (greg s 2 + 4) % 2 ^ 64
  g3 : greg s' 3 = (greg s 3 + 4) % 2 ^ 64
  g1 : greg s' 1 = (greg s 1 + 2 ^ 64 - 4) % 2 ^ 64
  vB : vreg s' B = vreg s B
  vC : vreg s' C = vreg s C
  vD : vreg s' D = vreg s D
  v10 : vreg s' 10 = vreg s 10
  v11 : vreg s' 11 = vreg s 11
  vA : lane 32 0 (vreg s' A) = eroundF (lane 32 0 (vreg s A)) (lane 32 0 (vreg s B)) (lane 32 0 (vreg s C)) (lane 32 0 (vreg s D)) k
  mem : s'.mem = W (lanes 8 4 (lane 32 0 (vreg s' A)))

set_option maxRecDepth 100000 in
set_option maxHeartbeats 1000000 in
theorem eround_spec (A B C D : Nat)
    (hperm : (A = 6 ∧ B = 7 ∧ C = 8 ∧ D = 9) ∨ (A = 7 ∧ B = 8 ∧ C = 9 ∧ D = 6) ∨
             (A = 8 ∧ B = 9 ∧ C = 6 ∧ D = 7) ∨ (A = 9 ∧ B = 6 ∧ C = 7 ∧ D = 8))
    (s : State) (hG : s.gpr.length = 16) (hV : s.vec.length = 32) (bs : List Nat)
    (hg2 : greg s 2 < 2 ^ 64) (hw : readMem s.mem (greg s 2) 4 = .ok bs) (hbs : unlanes 8 bs < 2 ^ 32)
    (hg3 : greg s 3 < 2 ^ 64) (hg1 : greg s 1 < 2 ^ 64) (hk1 : s.kreg[1]? = some 1)
    (W1 W2 : List Nat → List Region)
    (hw1 : ∀ b, b.length = 4 → writeMem s.mem (greg s 3) b = .ok (W1 b))
    (hw2 : ∀ b, b.length = 4 → writeMem (W1 b) (greg s 1) b = .ok (W2 b))
    (h10 : vreg s 10 = PREv) (h11 : vreg s 11 = POSTv) :
    ∃ s', execList (eroundCode A B C D) s = .ok s' ∧ ERoundPost A B C D s s' (unlanes 8 bs) W2 := by
  obtain ⟨gpr, vec, k, fl, mem, syms, frame⟩ := s
  simp only at hG hV hk1 hw1 hw2
  obtain ⟨a0, a1, a2, a3, a4, a5, a6, a7, a8, a9, a10, a11, a12, a13, a14, a15, rfl⟩ := list16 gpr hG
  obtain ⟨b0, b1, b2, b3, b4, b5, b6, b7, b8, b9, b10, b11, b12, b13, b14, b15, b16, b17, b18, b19, b20, b21, b22, b23, b24, b25, b26, b27, b28, b29, b30, b31, rfl⟩ := list32 vec hV
  simp only [greg, vreg, List.getD_cons_succ, List.getD_cons_zero] at hg2 hw h10 h11 hg3 hg1 hw1 hw2
  subst h10 h11
  have e3 : (a3 + 0 + imm64 0) % 2 ^ 64 = a3 := by simp [imm64, Nat.mod_eq_of_lt hg3]
  have e1 : (a1 + 0 + imm64 0) % 2 ^ 64 = a1 := by simp [imm64, Nat.mod_eq_of_lt hg1]
  have e2 : (a2 + 0 + imm64 0) % 2 ^ 64 = a2 := by simp [imm64, Nat.mod_eq_of_lt hg2]
  rw [← e3] at hw1
  rw [← e1] at hw2
  rw [← e2] at hw
  rcases hperm with ⟨rfl, rfl, rfl, rfl⟩ | ⟨rfl, rfl, rfl, rfl⟩ | ⟨rfl, rfl, rfl, rfl⟩ | ⟨rfl, rfl, rfl, rfl⟩
  all_goals
    apply Exists.intro
    apply And.intro
    · unfold eroundCode
      apply exec_step
      · exact execD_movl_load (bs := bs) (hb := by rfl) (hold := by rfl) (hd := by simp)
          (hload := hw) ..
      estep; estep; estep; estep; estep; estep; estep; estep; estep; estep; estep; estep
      apply exec_step
      · exact execD_vmov_store_k1 (hb := by rfl) (ha := by rfl) (hk := hk1)
          (hstore := hw1 _ (lanes_length _ _ _)) ..
      apply exec_step
      · exact execD_vmov_store_k1 (hb := by rfl) (ha := by rfl) (hk := hk1)
          (hstore := hw2 _ (lanes_length _ _ _)) ..
      estep
      apply exec_step
      · exact execD_subq_imm (hold := by rfl) (hd := by simp) ..
      exact execList_nil _
    · simp only [List.set_cons_succ, List.set_cons_zero]
      refine ⟨rfl, rfl, rfl, rfl, rfl, ?_, ?_, ?_, ?_, ?_, ?_, ?_, ?_, ?_, rfl⟩
      · simp only [greg, List.getD_cons_succ, List.getD_cons_zero, addF_fst_4]
      · simp only [greg, List.getD_cons_succ, List.getD_cons_zero, addF_fst_4]
      · simp only [greg, List.getD_cons_succ, List.getD_cons_zero, subF_fst_4]
      · simp only [vreg, List.getD_cons_succ, List.getD_cons_zero]
      · simp only [vreg, List.getD_cons_succ, List.getD_cons_zero]
      · simp only [vreg, List.getD_cons_succ, List.getD_cons_zero]
      · simp only [vreg, List.getD_cons_succ, List.getD_cons_zero]
      · simp only [vreg, List.getD_cons_succ, List.getD_cons_zero]
      · simp only [vreg, List.getD_cons_succ, List.getD_cons_zero]
        simp only [Nat.reduceDiv, imm_13, imm_23, imm_62, imm_211, lane_vpxord _ 0 _ _ (by decide : 0 < 4),
          lane_vprold _ 0 _ _ (by decide : 0 < 4), lane0_sbox, lane_bcast 32 4 0 _ (by decide) hbs, movl_low _ _ hbs]
        rfl

/-- the memory of `expandKeyState`: the symbols, then the key, `enc`, `dec` -/
def emem (key encB decB : List Nat) : List Region := (expandKeyState [] [] [] key encB decB).mem

theorem eks_mem (g v k key encB decB : List Nat) : (expandKeyState g v k key encB decB).mem = emem key encB decB := rfl
theorem eks_syms (g v k key encB decB : List Nat) : (expandKeyState g v k key encB decB).syms = symTab := rfl
theorem eks_frame (g v k key encB decB : List Nat) :
    (expandKeyState g v k key encB decB).frame = [("mk", arg 0), ("enc", arg 1), ("dec", arg 2)] := rfl

theorem symTab_ck : lookup symTab "CK" = some 17179869184 := by decide +kernel
theorem symTab_fk : lookup symTab "FK" = some 21474836480 := by decide +kernel

def frameTabE : List (String × Nat) := [("mk", arg 0), ("enc", arg 1), ("dec", arg 2)]
theorem frameE_mk : lookup frameTabE "mk" = some 73014444032 := by decide +kernel
theorem frameE_enc : lookup frameTabE "enc" = some 77309411328 := by decide +kernel
theorem frameE_dec : lookup frameTabE "dec" = some 81604378624 := by decide +kernel

section
variable (key encB decB : List Nat)

theorem emem_read_shuffle : readMem (emem key encB decB) 4294967296 16 = .ok Gen.AsmData.amd64_Shuffle := rfl
theorem emem_read_pre : readMem (emem key encB decB) 8589934592 8 = .ok Gen.AsmData.amd64_PreAffineMatrix := rfl
theorem emem_read_post : readMem (emem key encB decB) 12884901888 8 = .ok Gen.AsmData.amd64_PostAffineMatrix := rfl
theorem emem_read_fk : readMem (emem key encB decB) 21474836480 16 = .ok Gen.AsmData.amd64_FK := rfl

theorem emem_read_key (s0 s1 s2 s3 s4 s5 s6 s7 s8 s9 s10 s11 s12 s13 s14 s15 : Nat) :
    readMem (emem [s0, s1, s2, s3, s4, s5, s6, s7, s8, s9, s10, s11, s12, s13, s14, s15] encB decB) 73014444032 16
      = .ok [s0, s1, s2, s3, s4, s5, s6, s7, s8, s9, s10, s11, s12, s13, s14, s15] := rfl

set_option maxRecDepth 100000 in
theorem emem_ck : (emem key encB decB)[3]? = some ⟨"CK", Gen.AsmData.amd64_CK, false⟩ := rfl
theorem emem_enc : (emem key encB decB)[17]? = some ⟨"enc", encB, true⟩ := rfl
theorem emem_dec : (emem key encB decB)[18]? = some ⟨"dec", decB, true⟩ := rfl

set_option maxRecDepth 100000 in
theorem emem_read_ck (i : Nat) (hi : i < 32) :
    readMem (emem key encB decB) (17179869184 + 4 * i) 4 = .ok ((Gen.AsmData.amd64_CK.drop (4 * i)).take 4) := by
  unfold readMem
  have h1 : (17179869184 + 4 * i) / 2 ^ 32 = 4 := by omega
  have h2 : (17179869184 + 4 * i) % 2 ^ 32 = 4 * i := by omega
  simp only [h1, h2, Nat.reduceSub, emem_ck]
  rw [if_neg (by decide), if_pos (by rw [show Gen.AsmData.amd64_CK.length = 128 from by decide]; omega)]

theorem emem_set_enc (bs : List Nat) : (emem key encB decB).set 17 ⟨"enc", bs, true⟩ = emem key bs decB := rfl
theorem emem_set_dec (bs : List Nat) : (emem key encB decB).set 18 ⟨"dec", bs, true⟩ = emem key encB bs := rfl

theorem emem_write_enc (off : Nat) (bs : List Nat) (hoff : off + bs.length ≤ encB.length) (hlt : off < 2 ^ 32) :
    writeMem (emem key encB decB) (77309411328 + off) bs
      = .ok (emem key (encB.take off ++ bs ++ encB.drop (off + bs.length)) decB) := by
  unfold writeMem
  have h1 : (77309411328 + off) / 2 ^ 32 = 18 := by omega
  have h2 : (77309411328 + off) % 2 ^ 32 = off := by omega
  simp only [h1, h2, Nat.reduceSub, emem_enc]
  simp [hoff, emem_set_enc]

theorem emem_write_dec (off : Nat) (bs : List Nat) (hoff : off + bs.length ≤ decB.length) (hlt : off < 2 ^ 32) :
    writeMem (emem key encB decB) (81604378624 + off) bs
      = .ok (emem key encB (decB.take off ++ bs ++ decB.drop (off + bs.length))) := by
  unfold writeMem
  have h1 : (81604378624 + off) / 2 ^ 32 = 19 := by omega
  have h2 : (81604378624 + off) % 2 ^ 32 = off := by omega
  simp only [h1, h2, Nat.reduceSub, emem_dec]
  simp [hoff, emem_set_dec]

end

/-! ### the invariant between two rounds of `expandKeyAsm` -/

theorem wordsMem_len (l : List Nat) : (wordsMem l).length = 4 * l.length := by
  unfold wordsMem
  induction l with
  | nil => rfl
  | cons x xs ih => rw [List.flatMap_cons, List.length_append, ih, lanes_length, List.length_cons]; omega

theorem wordsMem_append (a b : List Nat) : wordsMem (a ++ b) = wordsMem a ++ wordsMem b := by
  simp [wordsMem, List.flatMap_append]

theorem wordsMem_single (x : Nat) : wordsMem [x] = lanes 8 4 x := by simp [wordsMem]

/-- `enc` after the round keys `ks` have been stored: they come first, the rest is untouched -/
def encAt (enc0 ks : List Nat) : List Nat := wordsMem ks ++ enc0.drop (4 * ks.length)
/-- `dec` after the round keys `ks` have been stored: they come last, in reverse order -/
def decAt (dec0 ks : List Nat) : List Nat := dec0.take (128 - 4 * ks.length) ++ wordsMem ks.reverse

theorem encAt_length (enc0 ks : List Nat) (h0 : enc0.length = 128) (hk : ks.length ≤ 32) : (encAt enc0 ks).length = 128 := by
  simp [encAt, wordsMem_len, h0]; omega

theorem decAt_length (dec0 ks : List Nat) (h0 : dec0.length = 128) (hk : ks.length ≤ 32) : (decAt dec0 ks).length = 128 := by
  simp [decAt, wordsMem_len, h0]; omega

theorem encAt_snoc (enc0 ks : List Nat) (x : Nat) :
    (encAt enc0 ks).take (4 * ks.length) ++ lanes 8 4 x ++ (encAt enc0 ks).drop (4 * ks.length + (lanes 8 4 x).length)
      = encAt enc0 (ks ++ [x]) := by
  have hl : (wordsMem ks).length = 4 * ks.length := wordsMem_len ks
  unfold encAt
  rw [List.take_left' hl, lanes_length, ← List.drop_drop, List.drop_left' hl, List.drop_drop, wordsMem_append,
    wordsMem_single, List.length_append, List.length_singleton, Nat.mul_add, Nat.mul_one, List.append_assoc]

theorem decAt_snoc (dec0 ks : List Nat) (x : Nat) (h0 : dec0.length = 128) (hk : ks.length < 32) :
    (decAt dec0 ks).take (124 - 4 * ks.length) ++ lanes 8 4 x
        ++ (decAt dec0 ks).drop (124 - 4 * ks.length + (lanes 8 4 x).length)
      = decAt dec0 (ks ++ [x]) := by
  have hl : (dec0.take (128 - 4 * ks.length)).length = 128 - 4 * ks.length := by
    rw [List.length_take, h0]; omega
  unfold decAt
  have e1 : 124 - 4 * ks.length + (lanes 8 4 x).length = 128 - 4 * ks.length := by rw [lanes_length]; omega
  rw [e1, List.drop_left' hl, List.take_append_of_le_length (by rw [hl]; omega), List.take_take,
    Nat.min_eq_left (by omega), List.reverse_append, List.reverse_singleton, List.singleton_append,
    show wordsMem (x :: ks.reverse) = lanes 8 4 x ++ wordsMem ks.reverse from by simp [wordsMem],
    List.length_append, List.length_singleton, List.append_assoc]
  congr 2
  omega


theorem ck_bytes_lt : ∀ x ∈ Gen.AsmData.amd64_CK, x < 2 ^ 8 := by decide +kernel

theorem ck_word_lt (i : Nat) : unlanes 8 ((Gen.AsmData.amd64_CK.drop (4 * i)).take 4) < 2 ^ 32 := by
  have h := unlanes_lt 8 ((Gen.AsmData.amd64_CK.drop (4 * i)).take 4)
    (fun x hx => ck_bytes_lt x (List.mem_of_mem_drop (List.mem_of_mem_take hx)))
  refine Nat.lt_of_lt_of_le h (Nat.pow_le_pow_right (by decide) ?_)
  rw [List.length_take]; omega

/-- the constant CK_i as the listing reads it -/
def ckN (i : Nat) : Nat := unlanes 8 ((Gen.AsmData.amd64_CK.drop (4 * i)).take 4)

/-- the key-schedule window (K_i, …, K_{i+3}) ↦ next -/
def estepN (X : Nat × Nat × Nat × Nat) (c : Nat) : Nat × Nat × Nat × Nat :=
  (X.2.1, X.2.2.1, X.2.2.2, eroundF X.1 X.2.1 X.2.2.1 X.2.2.2 c)

def eroundI (i : Nat) : List DInstr := eroundCode (sreg i 0) (sreg i 1) (sreg i 2) (sreg i 3)

/-- the state between two rounds of `expandKeyAsm` -/
structure ReadyE (key enc0 dec0 : List Nat) (i : Nat) (X : Nat × Nat × Nat × Nat) (ks : List Nat) (s : State) : Prop where
  lenG : s.gpr.length = 16
  lenV : s.vec.length = 32
  k1 : s.kreg[1]? = some 1
  lks : ks.length = i
  g2 : greg s 2 = 17179869184 + 4 * i
  g3 : greg s 3 = 77309411328 + 4 * i
  g1 : greg s 1 + 4 * i = 81604378624 + 124
  v10 : vreg s 10 = PREv
  v11 : vreg s 11 = POSTv
  x0 : lane 32 0 (vreg s (sreg i 0)) = X.1
  x1 : lane 32 0 (vreg s (sreg i 1)) = X.2.1
  x2 : lane 32 0 (vreg s (sreg i 2)) = X.2.2.1
  x3 : lane 32 0 (vreg s (sreg i 3)) = X.2.2.2
  mem : s.mem = emem key (encAt enc0 ks) (decAt dec0 ks)

theorem readyE_step (key enc0 dec0 : List Nat) (henc : enc0.length = 128) (hdec : dec0.length = 128)
    (i : Nat) (hi : i < 32) (X : Nat × Nat × Nat × Nat) (ks : List Nat) (s : State)
    (h : ReadyE key enc0 dec0 i X ks s) :
    ∃ s', execList (eroundI i) s = .ok s' ∧
      ReadyE key enc0 dec0 (i + 1) (estepN X (ckN i)) (ks ++ [(estepN X (ckN i)).2.2.2]) s' := by
  have hks := h.lks
  have hg1 : greg s 1 = 81604378624 + (124 - 4 * i) := by have := h.g1; omega
  obtain ⟨s', hrun, hp⟩ := eround_spec (sreg i 0) (sreg i 1) (sreg i 2) (sreg i 3) (sreg_perm i) s h.lenG h.lenV
    ((Gen.AsmData.amd64_CK.drop (4 * i)).take 4)
    (by rw [h.g2]; omega) (by rw [h.mem, h.g2]; exact emem_read_ck _ _ _ i hi) (ck_word_lt i)
    (by rw [h.g3]; omega) (by rw [hg1]; omega) h.k1
    (fun b => emem key ((encAt enc0 ks).take (4 * i) ++ b ++ (encAt enc0 ks).drop (4 * i + b.length)) (decAt dec0 ks))
    (fun b => emem key ((encAt enc0 ks).take (4 * i) ++ b ++ (encAt enc0 ks).drop (4 * i + b.length))
      ((decAt dec0 ks).take (124 - 4 * i) ++ b ++ (decAt dec0 ks).drop (124 - 4 * i + b.length)))
    (by
      intro b hb
      rw [h.mem, h.g3]
      exact emem_write_enc _ _ _ (4 * i) b (by rw [encAt_length enc0 ks henc (by omega), hb]; omega) (by omega))
    (by
      intro b hb
      rw [hg1]
      exact emem_write_dec _ _ _ (124 - 4 * i) b (by rw [decAt_length dec0 ks hdec (by omega), hb]; omega) (by omega))
    h.v10 h.v11
  refine ⟨s', hrun, ?_⟩
  have hA : lane 32 0 (vreg s' (sreg i 0)) = (estepN X (ckN i)).2.2.2 := by
    rw [hp.vA, h.x0, h.x1, h.x2, h.x3]; rfl
  constructor
  · exact hp.lenG
  · exact hp.lenV
  · rw [hp.kreg]; exact h.k1
  · simp [hks]
  · rw [hp.g2, h.g2, Nat.mod_eq_of_lt (by omega)]; omega
  · rw [hp.g3, h.g3, Nat.mod_eq_of_lt (by omega)]; omega
  · rw [hp.g1, hg1]; omega
  · rw [hp.v10, h.v10]
  · rw [hp.v11, h.v11]
  · rw [sreg_succ, hp.vB]; exact h.x1
  · rw [sreg_succ, hp.vC]; exact h.x2
  · rw [sreg_succ, hp.vD]; exact h.x3
  · rw [sreg_succ3, hA]
  · rw [hp.mem, hA, ← hks, encAt_snoc, decAt_snoc dec0 ks _ hdec (by omega)]

/-- rounds 0 .. n-1 of the key schedule -/
def eroundsCode : Nat → List DInstr
  | 0 => []
  | n + 1 => eroundsCode n ++ eroundI n

/-- window and emitted round keys after `n` rounds -/
def eiterN (X : Nat × Nat × Nat × Nat) : Nat → (Nat × Nat × Nat × Nat) × List Nat
  | 0 => (X, [])
  | n + 1 => (estepN (eiterN X n).1 (ckN n), (eiterN X n).2 ++ [(estepN (eiterN X n).1 (ckN n)).2.2.2])

theorem readyE_rounds (key enc0 dec0 : List Nat) (henc : enc0.length = 128) (hdec : dec0.length = 128)
    (X : Nat × Nat × Nat × Nat) (s : State) (h : ReadyE key enc0 dec0 0 X [] s) (n : Nat) (hn : n ≤ 32) :
    ∃ s', execList (eroundsCode n) s = .ok s' ∧ ReadyE key enc0 dec0 n (eiterN X n).1 (eiterN X n).2 s' := by
  induction n with
  | zero => exact ⟨s, rfl, h⟩
  | succ n ih =>
    obtain ⟨s1, hrun1, hr1⟩ := ih (by omega)
    obtain ⟨s2, hrun2, hr2⟩ := readyE_step key enc0 dec0 henc hdec n (by omega) _ _ s1 hr1
    exact ⟨s2, execList_append_ok hrun1 hrun2, hr2⟩

/-- the prologue of `expandKeyAsm` -/
def eproCode : List DInstr :=
  [ins .MOVQ [.imm 1, G 8] 0,
   ins .KMOVW [G 8, K 1] 0,
   ins .LEAQ [.sym "Shuffle" 0, G 8] 0,
   ins .VMOVDQU32 [M 8 0, R 12] 16,
   ins .LEAQ [.sym "PreAffineMatrix" 0, G 0] 0,
   ins .LEAQ [.sym "PostAffineMatrix" 0, G 3] 0,
   ins .VBROADCASTI32X2 [M 0 0, R 10] 16,
   ins .VBROADCASTI32X2 [M 3 0, R 11] 16,
   ins .MOVQ [.frame "mk" 8, G 0] 0,
   ins .MOVQ [.frame "enc" 16, G 3] 0,
   ins .MOVQ [.frame "dec" 24, G 1] 0,
   ins .LEAQ [.sym "CK" 0, G 2] 0,
   ins .ADDQ [.imm 124, G 1] 0,
   ins .VMOVDQU32 [M 0 0, R 6] 16,
   ins .LEAQ [.sym "FK" 0, G 8] 0,
   ins .VMOVDQU32 [M 8 0, R 0] 16,
   ins .VPSHUFB [R 12, R 6, R 6] 16,
   ins .VPXORD [R 0, R 6, R 6] 16,
   ins .VPUNPCKLDQ [R 6, R 6, R 0] 16,
   ins .VPUNPCKHDQ [R 6, R 6, R 8] 16,
   ins .VPUNPCKHDQ [R 0, R 0, R 7] 16,
   ins .VPUNPCKHDQ [R 8, R 8, R 9] 16]

/-- FK_j as the listing reads it -/
def fkN (j : Nat) : Nat := lane 32 j (unlanes 8 Gen.AsmData.amd64_FK)

theorem imm64_one_mod16 : imm64 1 % 2 ^ 16 = 1 := by decide +kernel
theorem imm64_124 : imm64 124 = 124 := by decide +kernel
theorem addF_fst_124 (a : Nat) : (addF 8 a (imm64 124)).1 = (a + 124) % 2 ^ 64 := by rw [imm64_124]; rfl

set_option maxRecDepth 100000 in
theorem eprologue_spec (g v k enc0 dec0 : List Nat) (hG : g.length = 16) (hV : v.length = 32) (hK : 1 < k.length)
    (hdec : dec0.length = 128)
    (s0 s1 s2 s3 s4 s5 s6 s7 s8 s9 s10 s11 s12 s13 s14 s15 : Nat)
    (hb : ∀ x ∈ [s0, s1, s2, s3, s4, s5, s6, s7, s8, s9, s10, s11, s12, s13, s14, s15], x < 2 ^ 8) :
    ∃ s', execList eproCode
        (expandKeyState g v k [s0, s1, s2, s3, s4, s5, s6, s7, s8, s9, s10, s11, s12, s13, s14, s15] enc0 dec0) = .ok s' ∧
      ReadyE [s0, s1, s2, s3, s4, s5, s6, s7, s8, s9, s10, s11, s12, s13, s14, s15] enc0 dec0 0
        (beWord s0 s1 s2 s3 ^^^ fkN 0, beWord s4 s5 s6 s7 ^^^ fkN 1, beWord s8 s9 s10 s11 ^^^ fkN 2,
          beWord s12 s13 s14 s15 ^^^ fkN 3) [] s' := by
  obtain ⟨a0, a1, a2, a3, a4, a5, a6, a7, a8, a9, a10, a11, a12, a13, a14, a15, rfl⟩ := list16 g hG
  obtain ⟨b0, b1, b2, b3, b4, b5, b6, b7, b8, b9, b10, b11, b12, b13, b14, b15, b16, b17, b18, b19, b20, b21, b22, b23, b24, b25, b26, b27, b28, b29, b30, b31, rfl⟩ := list32 v hV
  let key := [s0, s1, s2, s3, s4, s5, s6, s7, s8, s9, s10, s11, s12, s13, s14, s15]
  show ∃ s', execList eproCode
      ⟨[a0, a1, a2, a3, a4, a5, a6, a7, a8, a9, a10, a11, a12, a13, a14, a15],
       [b0, b1, b2, b3, b4, b5, b6, b7, b8, b9, b10, b11, b12, b13, b14, b15, b16, b17, b18, b19, b20, b21, b22, b23, b24, b25, b26, b27, b28, b29, b30, b31],
       k, ⟨none, none, none, none⟩, emem key enc0 dec0, symTab, frameTabE⟩ = .ok s' ∧ _
  have rS : readMem (emem key enc0 dec0) ((4294967296 + 0 + imm64 0) % 2 ^ 64) 16 = .ok Gen.AsmData.amd64_Shuffle := emem_read_shuffle ..
  have rPre : readMem (emem key enc0 dec0) ((8589934592 + 0 + imm64 0) % 2 ^ 64) 8 = .ok Gen.AsmData.amd64_PreAffineMatrix := emem_read_pre ..
  have rPost : readMem (emem key enc0 dec0) ((12884901888 + 0 + imm64 0) % 2 ^ 64) 8 = .ok Gen.AsmData.amd64_PostAffineMatrix := emem_read_post ..
  have rFK : readMem (emem key enc0 dec0) ((21474836480 + 0 + imm64 0) % 2 ^ 64) 16 = .ok Gen.AsmData.amd64_FK := emem_read_fk ..
  have rKey : readMem (emem key enc0 dec0) ((73014444032 + 0 + imm64 0) % 2 ^ 64) 16 = .ok key := emem_read_key ..
  apply Exists.intro
  apply And.intro
  · unfold eproCode
    apply exec_step
    · exact execD_movq_imm (hd := by simp) ..
    apply exec_step
    · exact execD_kmovw (ha := by rfl) (hd := hK) ..
    apply exec_step
    · exact execD_leaq (hs := symTab_shuffle) (hd := by simp) ..
    apply exec_step
    · exact execD_vmov_load (hvl := by rfl) (hb := by rfl) (hd := by simp) (hload := rS) ..
    apply exec_step
    · exact execD_leaq (hs := symTab_pre) (hd := by simp) ..
    apply exec_step
    · exact execD_leaq (hs := symTab_post) (hd := by simp) ..
    apply exec_step
    · exact execD_broadcast_x2 (hvl := by rfl) (hb := by rfl) (hd := by simp) (hload := rPre) ..
    apply exec_step
    · exact execD_broadcast_x2 (hvl := by rfl) (hb := by rfl) (hd := by simp) (hload := rPost) ..
    apply exec_step
    · exact execD_movq_frame (hs := frameE_mk) (hd := by simp) ..
    apply exec_step
    · exact execD_movq_frame (hs := frameE_enc) (hd := by simp) ..
    apply exec_step
    · exact execD_movq_frame (hs := frameE_dec) (hd := by simp) ..
    apply exec_step
    · exact execD_leaq (hs := symTab_ck) (hd := by simp) ..
    apply exec_step
    · exact execD_addq_imm (hold := by rfl) (hd := by simp) ..
    apply exec_step
    · exact execD_vmov_load (hvl := by rfl) (hb := by rfl) (hd := by simp) (hload := rKey) ..
    apply exec_step
    · exact execD_leaq (hs := symTab_fk) (hd := by simp) ..
    apply exec_step
    · exact execD_vmov_load (hvl := by rfl) (hb := by rfl) (hd := by simp) (hload := rFK) ..
    xstep; xstep; xstep; xstep; xstep; xstep
    exact execList_nil _
  · simp only [List.set_cons_succ, List.set_cons_zero]
    have hrev := x_rev32 s0 s1 s2 s3 s4 s5 s6 s7 s8 s9 s10 s11 s12 s13 s14 s15 hb
    rw [show unlanes 8 Gen.AsmData.amd64_Shuffle = SHUFv from rfl, hrev]
    have hb' : ∀ x ∈ [s3, s2, s1, s0, s7, s6, s5, s4, s11, s10, s9, s8, s15, s14, s13, s12], x < 2 ^ 8 := by
      intro x hx
      apply hb
      simp only [List.mem_cons, List.not_mem_nil, or_false] at hx
      rcases hx with rfl | rfl | rfl | rfl | rfl | rfl | rfl | rfl | rfl | rfl | rfl | rfl | rfl | rfl | rfl | rfl <;> simp
    have hd0 := laneJ_unlanes 32 8 4 0 (by decide) _ hb' (by simp)
    have hd1 := laneJ_unlanes 32 8 4 1 (by decide) _ hb' (by simp)
    have hd2 := laneJ_unlanes 32 8 4 2 (by decide) _ hb' (by simp)
    have hd3 := laneJ_unlanes 32 8 4 3 (by decide) _ hb' (by simp)
    simp only [Nat.reduceMul, List.drop_succ_cons, List.drop_zero, List.take_succ_cons, List.take_zero] at hd0 hd1 hd2 hd3
    have l4 := fun p q r s => lane32_list4 p q r s
    refine ⟨rfl, rfl, ?_, rfl, ?_, ?_, ?_, rfl, rfl, ?_, ?_, ?_, ?_, ?_⟩
    · simp only [imm64_one_mod16]; simp [hK]
    · simp only [greg, List.getD_cons_succ, List.getD_cons_zero]
    · simp only [greg, List.getD_cons_succ, List.getD_cons_zero]
    · simp only [greg, List.getD_cons_succ, List.getD_cons_zero, addF_fst_124]
    · show lane 32 0 (vreg _ 6) = _
      simp only [vreg, List.getD_cons_succ, List.getD_cons_zero, Nat.reduceDiv, lane_vpxord _ 0 _ _ (by decide : 0 < 4)]
      rw [hd0]; rfl
    · show lane 32 0 (vreg _ 7) = _
      simp only [vreg, List.getD_cons_succ, List.getD_cons_zero, x_unpckhdq, x_unpckldq]
      rw [(l4 _ _ _ _ (lane_lt _ _ _) (lane_lt _ _ _) (lane_lt _ _ _) (lane_lt _ _ _)).1,
        (l4 _ _ _ _ (lane_lt _ _ _) (lane_lt _ _ _) (lane_lt _ _ _) (lane_lt _ _ _)).2.2.1]
      simp only [Nat.reduceDiv, lane_vpxord _ 1 _ _ (by decide : 1 < 4)]
      rw [hd1]; rfl
    · show lane 32 0 (vreg _ 8) = _
      simp only [vreg, List.getD_cons_succ, List.getD_cons_zero, x_unpckhdq, x_unpckldq]
      rw [(l4 _ _ _ _ (lane_lt _ _ _) (lane_lt _ _ _) (lane_lt _ _ _) (lane_lt _ _ _)).1]
      simp only [Nat.reduceDiv, lane_vpxord _ 2 _ _ (by decide : 2 < 4)]
      rw [hd2]; rfl
    · show lane 32 0 (vreg _ 9) = _
      simp only [vreg, List.getD_cons_succ, List.getD_cons_zero, x_unpckhdq, x_unpckldq]
      rw [(l4 _ _ _ _ (lane_lt _ _ _) (lane_lt _ _ _) (lane_lt _ _ _) (lane_lt _ _ _)).1,
        (l4 _ _ _ _ (lane_lt _ _ _) (lane_lt _ _ _) (lane_lt _ _ _) (lane_lt _ _ _)).2.2.1]
      simp only [Nat.reduceDiv, lane_vpxord _ 3 _ _ (by decide : 3 < 4)]
      rw [hd3]; rfl
    · show emem key enc0 dec0 = emem key (encAt enc0 []) (decAt dec0 [])
      simp [encAt, decAt, wordsMem, List.take_of_length_le (Nat.le_of_eq hdec)]

end SMGo.Proofs.ISAVal
