/-
  C09: kernel-evaluated taint certificates (`certify`, see SMGo/Model/ISA.lean) for the amd64 routines below.
  Each `cert_*` is decided by `decide +kernel`: the kernel computes the invariant (`computeInv`) of the
  macro-expanded listing and checks it instruction by instruction (`checkInv`); nothing is trusted but the kernel.
-/
import SMGo.Proofs.ISASound
import SMGo.Gen.ListAmd64Gcm

namespace SMGo.Proofs.ISACheck
open SMGo.Model.ISA SMGo.Proofs.ISASound SMGo.Gen
set_option maxRecDepth 100000

theorem cert_sealAsm_amd64 : certify ListAmd64Gcm.sealAsm [] = true := by decide +kernel

theorem ct_sealAsm_amd64 : checkInv ListAmd64Gcm.sealAsm (invOf ListAmd64Gcm.sealAsm) [] = true := (certify_spec cert_sealAsm_amd64).1

end SMGo.Proofs.ISACheck
