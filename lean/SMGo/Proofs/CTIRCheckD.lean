/-
  C08: the CT-IR label checker (SMGo/Model/CTIR.lean) evaluated by the kernel on the generated program
  (SMGo/Gen/CTIRProg.lean), part D (scalar multiplications, safe coordinate extraction).  `check (slice prog f) sigs f = true` says: every function reachable
  from `f` respects its label signature (no secret reaches a branch or loop condition, an index, a slice
  bound, an allocation size, a shift count or a leaking external call; declassification only at the
  sites listed in its signature).  By `check_sound` (SMGo/Proofs/CTIRSound.lean) two runs of `f` on inputs
  that agree on the public parameters then leak the same trace, up to the declassified verdicts.
-/
import SMGo.Gen.CTIRProg
open SMGo.Model.CTIR SMGo.Gen.CTIRProg
set_option maxRecDepth 1000000
namespace SMGo.Proofs.CTIRCheck

theorem ct_scalarBaseMult_SkipBitExtration : check (slice prog f_internal_scalarBaseMult_SkipBitExtration) sigs f_internal_scalarBaseMult_SkipBitExtration = true := by decide +kernel
theorem ct_scalarBaseMult_6_3_14 : check (slice prog f_internal_scalarBaseMult_SkipBitExtraction_6_3_14) sigs f_internal_scalarBaseMult_SkipBitExtraction_6_3_14 = true := by decide +kernel
theorem ct_scalarBaseMult_5_3_17 : check (slice prog f_internal_scalarBaseMult_SkipBitExtraction_5_3_17) sigs f_internal_scalarBaseMult_SkipBitExtraction_5_3_17 = true := by decide +kernel
theorem ct_scalarBaseMult_4_2_32 : check (slice prog f_internal_scalarBaseMult_SkipBitExtraction_4_2_32) sigs f_internal_scalarBaseMult_SkipBitExtraction_4_2_32 = true := by decide +kernel
theorem ct_scalarBaseMult_7_3_12 : check (slice prog f_internal_scalarBaseMult_SkipBitExtraction_7_3_12) sigs f_internal_scalarBaseMult_SkipBitExtraction_7_3_12 = true := by decide +kernel
theorem ct_ScalarBaseMult : check (slice prog f_internal_ScalarBaseMult) sigs f_internal_ScalarBaseMult = true := by decide +kernel
theorem ct_ScalarMult : check (slice prog f_internal_ScalarMult) sigs f_internal_ScalarMult = true := by decide +kernel
theorem ct_GetAffineX : check (slice prog f_internal_SM2Point_GetAffineX) sigs f_internal_SM2Point_GetAffineX = true := by decide +kernel
theorem ct_PointBytes : check (slice prog f_internal_SM2Point_Bytes) sigs f_internal_SM2Point_Bytes = true := by decide +kernel
theorem ct_bytes_safe : check (slice prog f_internal_SM2Point_bytes_safe_true) sigs f_internal_SM2Point_bytes_safe_true = true := by decide +kernel

end SMGo.Proofs.CTIRCheck
