/-
  C16, part 2: `Invert` of the Montgomery instances `Fp`, `Fn` returns the multiplicative inverse
  (and 0 for 0). Built on `SMGo/Proofs/AddChainExp.lean` (the chain raises to the exponent p-2 / n-2
  and the symbolic execution is sound) and Fermat's little theorem from Mathlib.
  Primality of p and n is an explicit hypothesis here.
-/
import SMGo.Proofs.AddChainExp
import SMGo.Model.SM2Inst
import Mathlib.Data.ZMod.Basic
import Mathlib.FieldTheory.Finite.Basic
import Mathlib.Tactic.LinearCombination

namespace SMGo.Proofs.AddChainExp
open SMGo SMGo.Model.AddChain SMGo.Model.Field

/-! ### the plain value of the result, no primality needed -/

/-- leaving the Montgomery domain, `Invert` is exponentiation by the symbolic exponent:
    `fromMontgomery (invert x) = (fromMontgomery x)^e mod m` -/
theorem fromMontgomery_invert (P : MontParams) (hwf : wf P.chainRegs P.chain = true) (x : Nat) :
    (montOps P).fromMontgomery (invert (montOps P) x) =
      ((montOps P).fromMontgomery x) ^ exponent P.chainRegs P.chain % P.m := by
  rw [invert_montOps P hwf x]
  obtain ⟨k, hk⟩ := Nat.exists_eq_add_of_le (exponent_pos _ _ hwf)
  rw [hk]
  show x ^ (1 + k) * P.rinv ^ (1 + k - 1) % P.m * P.rinv % P.m = (x * P.rinv % P.m) ^ (1 + k) % P.m
  rw [← Nat.pow_mod, Nat.mod_mul_mod]
  congr 1
  rw [Nat.add_sub_cancel_left, Nat.mul_pow, Nat.pow_add P.rinv, Nat.pow_one]
  ring

/-! ### Fermat -/

/-- what `Invert` has to satisfy (Montgomery form, zero, plain form) -/
def MontInvSpec (P : MontParams) (x : Nat) : Prop :=
  invert (montOps P) x < P.m ∧
  (¬ P.m ∣ x → (montOps P).mul (invert (montOps P) x) x = (montOps P).setOne) ∧
  (P.m ∣ x → invert (montOps P) x = 0) ∧
  (¬ P.m ∣ x →
    (montOps P).fromMontgomery (invert (montOps P) x) * (montOps P).fromMontgomery x % P.m = 1)

/-- Generic statement for a prime modulus `m`, `R·rinv ≡ 1`, and a well-formed chain with exponent `m - 2`. -/
theorem invert_mont_spec (P : MontParams) (hp : Nat.Prime P.m)
    (hwf : wf P.chainRegs P.chain = true) (hexp : exponent P.chainRegs P.chain = P.m - 2)
    (hr : (R * P.rinv) % P.m = 1) (x : Nat) : MontInvSpec P x := by
  unfold MontInvSpec
  have : Fact P.m.Prime := ⟨hp⟩
  have hpos := exponent_pos _ _ hwf
  obtain ⟨k, hk⟩ : ∃ k, P.m = k + 3 := ⟨P.m - 3, by omega⟩
  have he : exponent P.chainRegs P.chain = k + 1 := by omega
  have he1 : exponent P.chainRegs P.chain - 1 = k := by omega
  have hinv := invert_montOps P hwf x
  rw [he, Nat.add_sub_cancel] at hinv
  -- R · rinv = 1 in ZMod m
  have hRI : (R : ZMod P.m) * (P.rinv : ZMod P.m) = 1 := by
    have : ((R * P.rinv : Nat) : ZMod P.m) = ((1 : Nat) : ZMod P.m) := by
      rw [ZMod.natCast_eq_natCast_iff', hr, Nat.mod_eq_of_lt hp.one_lt]
    simpa using this
  have hI0 : (P.rinv : ZMod P.m) ≠ 0 := right_ne_zero_of_mul_eq_one hRI
  have hI : (P.rinv : ZMod P.m) ^ (k + 2) = 1 := by
    have := ZMod.pow_card_sub_one_eq_one hI0
    rwa [show P.m - 1 = k + 2 by omega] at this
  refine ⟨?_, ?_, ?_, ?_⟩
  · rw [hinv]; exact Nat.mod_lt _ hp.pos
  · intro hx
    have hX0 : (x : ZMod P.m) ≠ 0 := by rwa [Ne, ZMod.natCast_eq_zero_iff]
    have hX : (x : ZMod P.m) ^ (k + 2) = 1 := by
      have := ZMod.pow_card_sub_one_eq_one hX0
      rwa [show P.m - 1 = k + 2 by omega] at this
    show invert (montOps P) x * x * P.rinv % P.m = R % P.m
    rw [hinv, ← ZMod.natCast_eq_natCast_iff']
    simp only [Nat.cast_mul, Nat.cast_pow, ZMod.natCast_mod]
    linear_combination ((P.rinv : ZMod P.m) ^ (k + 1)) * hX
      - ((P.rinv : ZMod P.m) ^ (k + 1)) * hRI + (R : ZMod P.m) * hI
  · intro hx
    rw [hinv]
    apply Nat.mod_eq_zero_of_dvd
    exact dvd_mul_of_dvd_left (dvd_trans hx (dvd_pow_self x (by omega))) _
  · intro hx
    have hX0 : (x : ZMod P.m) ≠ 0 := by rwa [Ne, ZMod.natCast_eq_zero_iff]
    have hX : (x : ZMod P.m) ^ (k + 2) = 1 := by
      have := ZMod.pow_card_sub_one_eq_one hX0
      rwa [show P.m - 1 = k + 2 by omega] at this
    show invert (montOps P) x * P.rinv % P.m * (x * P.rinv % P.m) % P.m = 1
    have h1 : 1 = 1 % P.m := (Nat.mod_eq_of_lt hp.one_lt).symm
    rw [hinv]
    conv_rhs => rw [h1]
    rw [← ZMod.natCast_eq_natCast_iff']
    simp only [Nat.cast_mul, Nat.cast_pow, ZMod.natCast_mod, Nat.cast_one]
    linear_combination ((P.rinv : ZMod P.m) ^ (k + 2)) * hX + hI

/-! ### the two SM2 instances -/

theorem pParams_m : Model.SM2.pParams.m = Spec.SM2.p := param_P_eq
theorem nParams_m : Model.SM2.nParams.m = Spec.SM2.n := param_N_eq

set_option maxRecDepth 100000 in
/-- `R · R⁻¹ ≡ 1 (mod p)` for the `rinv` of the model (closed term, kernel evaluation) -/
theorem rinv_p : (Model.Field.R * Model.SM2.pParams.rinv) % Spec.SM2.p = 1 := by decide +kernel

set_option maxRecDepth 100000 in
theorem rinv_n : (Model.Field.R * Model.SM2.nParams.rinv) % Spec.SM2.n = 1 := by decide +kernel

theorem pParams_spec (hp : Nat.Prime Spec.SM2.p) (x : Nat) : MontInvSpec Model.SM2.pParams x :=
  invert_mont_spec Model.SM2.pParams (by rw [pParams_m]; exact hp) fieldInverse_wf
    (by rw [pParams_m]; exact fieldInverse_exponent) (by rw [pParams_m]; exact rinv_p) x

theorem nParams_spec (hn : Nat.Prime Spec.SM2.n) (x : Nat) : MontInvSpec Model.SM2.nParams x :=
  invert_mont_spec Model.SM2.nParams (by rw [nParams_m]; exact hn) scalarInverse_wf
    (by rw [nParams_m]; exact scalarInverse_exponent) (by rw [nParams_m]; exact rinv_n) x

/-- **C16 for the base field**: in the Montgomery domain `Invert x ⊗ x = 1̃` for `x ≠ 0`,
    `Invert 0 = 0`, and the result is reduced. -/
theorem invert_Fp_spec (hp : Nat.Prime Spec.SM2.p) (x : Nat) (hx : x < Spec.SM2.p) :
    Model.Field.invert Model.SM2.Fp x < Spec.SM2.p ∧
    (x ≠ 0 → Model.SM2.Fp.mul (Model.Field.invert Model.SM2.Fp x) x = Model.SM2.Fp.setOne) ∧
    (x = 0 → Model.Field.invert Model.SM2.Fp x = 0) := by
  obtain ⟨h1, h2, h3, _⟩ := pParams_spec hp x
  rw [pParams_m] at h1 h2 h3
  refine ⟨h1, fun h0 => h2 (Nat.not_dvd_of_pos_of_lt (Nat.pos_of_ne_zero h0) hx), fun h0 => h3 ?_⟩
  subst h0; exact dvd_zero _

/-- C16 for the base field in plain terms: with `v = fromMontgomery x ≠ 0`,
    `fromMontgomery (Invert x) · v ≡ 1 (mod p)`. (`x` need not be reduced.) -/
theorem invert_Fp_plain (hp : Nat.Prime Spec.SM2.p) (x : Nat)
    (hv : Model.SM2.Fp.fromMontgomery x ≠ 0) :
    Model.SM2.Fp.fromMontgomery (Model.Field.invert Model.SM2.Fp x) *
      Model.SM2.Fp.fromMontgomery x % Spec.SM2.p = 1 := by
  obtain ⟨_, _, _, h4⟩ := pParams_spec hp x
  rw [pParams_m] at h4
  apply h4
  intro hd
  apply hv
  show x * Model.SM2.pParams.rinv % Model.SM2.pParams.m = 0
  rw [pParams_m]
  exact Nat.mod_eq_zero_of_dvd (dvd_mul_of_dvd_left hd _)

/-- `fromMontgomery (Invert x) = (fromMontgomery x)^(p-2) mod p` (no primality needed) -/
theorem fromMontgomery_invert_Fp (x : Nat) :
    Model.SM2.Fp.fromMontgomery (Model.Field.invert Model.SM2.Fp x) =
      (Model.SM2.Fp.fromMontgomery x) ^ (Spec.SM2.p - 2) % Spec.SM2.p := by
  have := fromMontgomery_invert Model.SM2.pParams fieldInverse_wf x
  rw [pParams_m] at this
  rw [← fieldInverse_exponent]
  exact this

/-- **C16 for the scalar field** -/
theorem invert_Fn_spec (hn : Nat.Prime Spec.SM2.n) (x : Nat) (hx : x < Spec.SM2.n) :
    Model.Field.invert Model.SM2.Fn x < Spec.SM2.n ∧
    (x ≠ 0 → Model.SM2.Fn.mul (Model.Field.invert Model.SM2.Fn x) x = Model.SM2.Fn.setOne) ∧
    (x = 0 → Model.Field.invert Model.SM2.Fn x = 0) := by
  obtain ⟨h1, h2, h3, _⟩ := nParams_spec hn x
  rw [nParams_m] at h1 h2 h3
  refine ⟨h1, fun h0 => h2 (Nat.not_dvd_of_pos_of_lt (Nat.pos_of_ne_zero h0) hx), fun h0 => h3 ?_⟩
  subst h0; exact dvd_zero _

theorem invert_Fn_plain (hn : Nat.Prime Spec.SM2.n) (x : Nat)
    (hv : Model.SM2.Fn.fromMontgomery x ≠ 0) :
    Model.SM2.Fn.fromMontgomery (Model.Field.invert Model.SM2.Fn x) *
      Model.SM2.Fn.fromMontgomery x % Spec.SM2.n = 1 := by
  obtain ⟨_, _, _, h4⟩ := nParams_spec hn x
  rw [nParams_m] at h4
  apply h4
  intro hd
  apply hv
  show x * Model.SM2.nParams.rinv % Model.SM2.nParams.m = 0
  rw [nParams_m]
  exact Nat.mod_eq_zero_of_dvd (dvd_mul_of_dvd_left hd _)

theorem fromMontgomery_invert_Fn (x : Nat) :
    Model.SM2.Fn.fromMontgomery (Model.Field.invert Model.SM2.Fn x) =
      (Model.SM2.Fn.fromMontgomery x) ^ (Spec.SM2.n - 2) % Spec.SM2.n := by
  have := fromMontgomery_invert Model.SM2.nParams scalarInverse_wf x
  rw [nParams_m] at this
  rw [← scalarInverse_exponent]
  exact this

end SMGo.Proofs.AddChainExp
