import SMGo.Proofs.ISAValOpenMem
set_option linter.unusedSimpArgs false
namespace SMGo.Proofs.ISAVal
open SMGo.Model.ISAVal SMGo.Model.GCM SMGo.Proofs.GCM SMGo.Proofs.ISATouch
open SMGo.Model.ISA (Reg Opd Instr)

/-- the expected tag of `openAsm` (16 bytes before truncation): GHASH over the additional data and the ciphertext proper -/
def openTagJ (rk jb ct aad : List Nat) (t : Nat) : List Nat :=
  lanes 8 16 (tagN (hKey rk) (ghUpdN (hKey rk) (ghUpdN (hKey rk) 0 aad) (ct.take (ct.length - t))) (unlanes 8 (encB rk jb))
    aad.length (ct.length - t))

/-- the argument frame of `openAsm`; `cp` = where the input (ciphertext ‖ tag) lies, `r` = the result slot -/
def openFrame (cp t : Nat) (nonce ct aad : List Nat) (r : Nat) : List (String × Nat) :=
  [("rk", arg 0), ("tagSize", t), ("dst", arg 1), ("nonce", arg 2), ("nonceLen", nonce.length),
   ("nonceCap", nonce.length), ("cipher", cp), ("cipherLen", ct.length), ("aData", arg 4), ("aLen", aad.length),
   ("tmp", arg 5), ("ret1", r)]

theorem openState_frame (g v k rk : List Nat) (t : Nat) (dst nonce ct aad tmp : List Nat) (r0 : Nat) :
    (openState g v k rk t dst nonce ct aad tmp r0).frame = openFrame 85899345920 t nonce ct aad r0 := rfl

theorem setRet (cp t : Nat) (nonce ct aad : List Nat) (r0 : Nat) (v : Nat) :
    setSlot (openFrame cp t nonce ct aad r0) "ret1" (fun _ => v) = some (openFrame cp t nonce ct aad v) := by
  simp [openFrame, setSlot]

/-- what holds when `openAsm` arrives at its verdict (instruction 1775); `inp` = the contents of the input region, `ct` = the input
    (it lies in the input region, or in the destination buffer: the in-place call) -/
structure AtVerdictG (fr : List (String × Nat)) (rk : List Nat) (t : Nat) (dst nonce inp ct aad jb : List Nat) (s : State) : Prop where
  pc : PCtx s
  gh : GhCtx (hKey rk) s
  rkp : greg s 15 = 73014444032
  j0 : vreg s 14 = unlanes 8 jb
  acc : vreg s 21 < 2 ^ 128
  g2 : greg s 2 = orBytes (xorN ((openTagJ rk jb ct aad t).take t) (ct.drop (ct.length - t)))
  mem : ∃ b, b.length = 32 ∧ s.mem = fmem "cipher" false rk dst nonce inp aad b
  frame : s.frame = fr

/-- the same for the entry state `openState` (input in its own region) -/
abbrev AtVerdict (g v k rk : List Nat) (t : Nat) (dst nonce ct aad tmp : List Nat) (r0 : Nat) (jb : List Nat) (s : State) : Prop :=
  AtVerdictG (openState g v k rk t dst nonce ct aad tmp r0).frame rk t dst nonce ct ct aad jb s

set_option maxHeartbeats 4000000 in
set_option maxRecDepth 100000 in
/-- **`openAsm` from the end of the common prefix to the verdict**: the OR of the differences between the expected and the received
    tag is in `G2`; `jb` = the pre-counter block the prefix has left in VzJ0 -/
theorem open_verdict_gen (rk : List Nat) (t : Nat) (dst nonce inp ct aad : List Nat) (cp r0 : Nat)
    (hrk : rk.length = 32) (hnl : nonce.length < 2 ^ 32) (hall : aad.length < 2 ^ 32)
    (hcb : ∀ x ∈ ct, x < 2 ^ 8) (hcl : ct.length < 2 ^ 32) (ht : t ≤ 16) (htc : t ≤ ct.length)
    (hct : ∀ b, b.length = 32 → DataAt (fmem "cipher" false rk dst nonce inp aad b) cp ct) (hcp : cp + ct.length < 2 ^ 63)
    (jb : List Nat) (s5 : State)
    (ap : AfterPre (fun b => fmem "cipher" false rk dst nonce inp aad b) rk nonce aad jb 81604378624 94489280512 90194313216 s5)
    (hf5 : s5.frame = openFrame cp t nonce ct aad r0) :
    ∃ s N, N ≤ 34 * ((ct.length - t) / 16) + 700 ∧
      Reach openR 1499 s5 1775 s N ∧ AtVerdictG (openFrame cp t nonce ct aad r0) rk t dst nonce inp ct aad jb s := by
  obtain ⟨b5, hb5, hm5⟩ := ap.mem
  have os := open_slices'
  obtain ⟨nC, hnC⟩ : ∃ nC, nC = ct.length - t := ⟨_, rfl⟩
  have fC : lookup s5.frame "cipher" = some cp := by rw [hf5]; simp [openFrame, lookup]
  have fCl : lookup s5.frame "cipherLen" = some ct.length := by rw [hf5]; simp [openFrame, lookup]
  have fTs : lookup s5.frame "tagSize" = some t := by rw [hf5]; simp [openFrame, lookup]
  have fTmp : lookup s5.frame "tmp" = some 94489280512 := by rw [hf5]; simp [openFrame, lookup]; rfl
  have fAl : lookup s5.frame "aLen" = some aad.length := by rw [hf5]; simp [openFrame, lookup]
  -- CalculateSMid
  obtain ⟨s6, N6, b6, hN6, r6, m6, hb6, p6, g6, v621, lt621, k6⟩ := open_sMid s5 ap.pc (hKey rk) ap.gh rk dst nonce inp ct aad cp t b5 hb5 hm5 fC fCl fTs fTmp
    hrk hnl hall htc hcl hcb hct hcp _ ap.tag (by rw [← ap.tag]; exact ap.taglt)
  rw [← hnC] at v621 hN6
  have hf6 : s6.frame = s5.frame := k6.frame
  -- the arguments of CalculateSPost
  have hG6 := p6.lenG
  let p1 := setGreg s6 7 aad.length
  let p2 := setGreg p1 9 ct.length
  let p3 := setGreg p2 14 t
  have hG3 : p3.gpr.length = 16 := by simp [p3, p2, p1, hG6]
  have g39 : greg p3 9 = ct.length := by
    show greg (setGreg p2 14 _) 9 = _
    rw [greg_setGreg_ne p2 14 _ 9 (by decide)]; exact greg_setGreg_eq p1 9 _ (by simp [p1, hG6])
  have g314 : greg p3 14 = t := greg_setGreg_eq p2 14 _ (by simp [p2, p1, hG6])
  have x4 := a_subq_rr p3 14 9 (by omega) (by omega) (by rw [g314]; omega) (by rw [g39]; omega)
  rw [g314, g39, show (ct.length + 2 ^ 64 - t) % 2 ^ 64 = nC from by omega] at x4
  let p4 := setFlags (setGreg p3 9 nC) (subF 8 ct.length t).2
  have hG4 : p4.gpr.length = 16 := (lenG_sf p3 9 _ _).trans hG3
  let p5 := setGreg p4 6 94489280512
  let p6' := setGreg p5 0 94489280512
  have hG6' : p6'.gpr.length = 16 := by simp [p6', p5]; exact hG4
  have x7 := a_addq_imm p6' 16 0 (by omega)
  let p7 := setFlags (setGreg p6' 0 (addF 8 (greg p6' 0) (imm64 16)).1) (addF 8 (greg p6' 0) (imm64 16)).2
  have hxp : execList openPostArgsCode s6 = .ok p7 := by
    apply exec_step (a_movq_frame s6 "aLen" 88 7 _ (by rw [hf6]; exact fAl) (by rw [hG6]; decide))
    apply exec_step (a_movq_frame p1 "cipherLen" 64 9 _ (by show lookup s6.frame _ = _; rw [hf6]; exact fCl) (by simp [p1, hG6]))
    apply exec_step (a_movq_frame p2 "tagSize" 16 14 _ (by show lookup s6.frame _ = _; rw [hf6]; exact fTs) (by simp [p2, p1, hG6]))
    apply exec_step x4
    apply exec_step (a_movq_frame p4 "tmp" 104 6 _ (by show lookup s6.frame _ = _; rw [hf6]; exact fTmp) (by rw [hG4]; decide))
    apply exec_step (s1 := p6') (by
      have := a_movq_rr p5 6 0 (by simp [p5]; rw [hG4]; decide) (by simp [p5]; rw [hG4]; decide)
      rw [show greg p5 6 = 94489280512 from greg_setGreg_eq p4 6 _ (by rw [hG4]; decide)] at this
      exact this)
    apply exec_step x7
    rfl
  have rp : Reach openR 1646 s6 1653 p7 7 := reach_seg os.post (by rfl) hxp
  have kp : KeepsM [15] (List.range 32) (List.range 8) s6 p7 :=
    (((((keepsM_setGreg s6 7 _ _ (by decide)).trans (keepsM_setGreg p1 9 _ _ (by decide))).trans (keepsM_setGreg p2 14 _ _ (by decide))).trans
      (⟨lenG_sf p3 9 _ _, rfl, rfl, fun m hm => (by
        simp only [List.mem_cons, List.not_mem_nil, or_false] at hm; subst hm
        show greg (setFlags (setGreg p3 9 _) _) 15 = _
        rw [greg_setFlags, greg_setGreg_ne p3 9 _ 15 (by decide)]), fun _ _ => rfl, fun _ _ => rfl, rfl, rfl⟩ : KeepsM [15] (List.range 32) (List.range 8) p3 p4)).trans
      ((keepsM_setGreg p4 6 _ _ (by decide)).trans (keepsM_setGreg p5 0 _ _ (by decide)))).trans
      (⟨lenG_sf p6' 0 _ _, rfl, rfl, fun m hm => (by
        simp only [List.mem_cons, List.not_mem_nil, or_false] at hm; subst hm
        show greg (setFlags (setGreg p6' 0 _) _) 15 = _
        rw [greg_setFlags, greg_setGreg_ne p6' 0 _ 15 (by decide)]), fun _ _ => rfl, fun _ _ => rfl, rfl, rfl⟩ : KeepsM [15] (List.range 32) (List.range 8) p6' p7)
  have e60 : greg p6' 0 = 94489280512 := greg_setGreg_eq p5 0 _ (by simp [p5]; rw [hG4]; decide)
  have g70 : greg p7 0 = 94489280512 + 16 + 0 := by
    show greg (setFlags (setGreg p6' 0 _) _) 0 = _
    rw [greg_setFlags, greg_setGreg_eq p6' 0 _ (by omega), addF_fst, e60, imm64_16]
  have rest7 : ∀ m, m ≠ 0 → greg p7 m = greg p5 m := by
    intro m hm
    show greg (setFlags (setGreg p6' 0 _) _) m = _
    rw [greg_setFlags, greg_setGreg_ne p6' 0 _ m hm]; exact greg_setGreg_ne p5 0 _ m hm
  have g76 : greg p7 6 = 94489280512 := by rw [rest7 6 (by decide)]; exact greg_setGreg_eq p4 6 _ (by rw [hG4]; decide)
  have rest5 : ∀ m, m ≠ 6 → greg p5 m = greg p4 m := fun m hm => greg_setGreg_ne p4 6 _ m hm
  have g714 : greg p7 14 = t := by
    rw [rest7 14 (by decide), rest5 14 (by decide)]
    show greg (setFlags (setGreg p3 9 _) _) 14 = _
    rw [greg_setFlags, greg_setGreg_ne p3 9 _ 14 (by decide)]; exact g314
  have g79 : greg p7 9 = nC := by
    rw [rest7 9 (by decide), rest5 9 (by decide)]
    show greg (setFlags (setGreg p3 9 _) _) 9 = _
    rw [greg_setFlags, greg_setGreg_eq p3 9 _ (by omega)]
  have g77 : greg p7 7 = aad.length := by
    rw [rest7 7 (by decide), rest5 7 (by decide)]
    show greg (setFlags (setGreg p3 9 _) _) 7 = _
    rw [greg_setFlags, greg_setGreg_ne p3 9 _ 7 (by decide)]
    show greg (setGreg p2 14 _) 7 = _
    rw [greg_setGreg_ne p2 14 _ 7 (by decide)]
    show greg (setGreg p1 9 _) 7 = _
    rw [greg_setGreg_ne p1 9 _ 7 (by decide)]; exact greg_setGreg_eq s6 7 _ (by rw [hG6]; decide)
  -- CalculateSPost, the expected tag goes to tmp+16
  have hsplit6 : b6 = b6.take 16 ++ b6.drop 16 := (List.take_append_drop 16 b6).symm
  have hm7 : p7.mem = M2o rk dst nonce inp aad (b6.drop 16) (b6.take 16) := by
    show s6.mem = _
    unfold M2o; rw [← hsplit6]; exact m6
  have htm : unlanes 8 (encB rk (jb)) < 2 ^ 128 := encB_lt _ _
  obtain ⟨s8, N8, tc8, hN8, r8, m8, htc8, k8, lt821⟩ := sPost_reach openR 1653 0 9942 9968 9994 10022 10048 (Or.inr rfl) os.sPost
    (label_findPc open_labels (name := "tag.copy8") (by decide)) (label_findPc open_labels (name := "tag.copy4") (by decide))
    (label_findPc open_labels (name := "tag.copy2") (by decide)) (label_findPc open_labels (name := "tag.copy1") (by decide))
    (label_findPc open_labels (name := "tag.copyEnd") (by decide))
    (M2o rk dst nonce inp aad) (94489280512 + 16) 16 94489280512 16 (by decide) (mem2o rk dst nonce inp aad) (by decide) (by decide)
    p7 (hKey rk) (g6.of_keepsM kp (by decide)) (kp.syms.trans p6.syms) (b6.drop 16) (b6.take 16) (by rw [List.length_drop, hb6])
    (by rw [List.length_take, hb6]; rfl) hm7 aad.length nC t 0 (ghUpdN (hKey rk) (ghUpdN (hKey rk) 0 aad) (ct.take nC))
    (unlanes 8 (encB rk (jb))) g77 g79 (by omega) (by omega)
    g70 g714 ht (by omega) g76 (by rw [kp.v 21 (by decide)]; exact v621) (by rw [← v621]; exact lt621)
    (by rw [kp.v 15 (by decide), k6.v 15 (by decide)]; exact ap.tmask) htm
  -- the expected tag and what follows it in the block
  let T := lanes 8 16 (tagN (hKey rk) (ghUpdN (hKey rk) (ghUpdN (hKey rk) 0 aad) (ct.take nC)) (unlanes 8 (encB rk (jb)))
    aad.length nC)
  have hT : openTagJ rk jb ct aad t = T := by unfold openTagJ; rw [← hnC]
  let e8 := spliceAt (b6.drop 16) 0 (T.take t)
  have he8 : e8.length = 16 := by
    show (spliceAt _ 0 _).length = 16
    rw [spliceAt_length _ _ _ (by rw [List.length_take, lanes_length, List.length_drop, hb6]; omega), List.length_drop, hb6]
  have hTl : (T.take t).length = t := by rw [List.length_take, lanes_length]; omega
  have he8t : e8.take t = T.take t := by
    have := spliceAt_read (b6.drop 16) 0 (T.take t) (by rw [hTl, List.length_drop, hb6]; omega)
    rw [List.drop_zero, hTl] at this; exact this
  -- the arguments of constantTimeCompare
  have hf8 : s8.frame = s5.frame := by rw [k8.frame]; show s6.frame = _; exact hf6
  have hG8 : s8.gpr.length = 16 := k8.lenG.trans ((kp.lenG).trans hG6)
  let q1 := setGreg s8 0 94489280512
  have hGq1 : q1.gpr.length = 16 := by simp [q1]; exact hG8
  have y2 := a_addq_imm q1 16 0 (by omega)
  let q2 := setFlags (setGreg q1 0 (addF 8 (greg q1 0) (imm64 16)).1) (addF 8 (greg q1 0) (imm64 16)).2
  have hGq2 : q2.gpr.length = 16 := (lenG_sf q1 0 _ _).trans hGq1
  let q3 := setGreg q2 10 cp
  let q4 := setGreg q3 9 ct.length
  let q5 := setGreg q4 14 t
  have hGq5 : q5.gpr.length = 16 := by simp [q5, q4, q3]; exact hGq2
  have e59 : greg q5 9 = ct.length := by
    show greg (setGreg q4 14 _) 9 = _
    rw [greg_setGreg_ne q4 14 _ 9 (by decide)]; exact greg_setGreg_eq q3 9 _ (by simp [q3]; exact (by rw [hGq2]; decide))
  have e514 : greg q5 14 = t := greg_setGreg_eq q4 14 _ (by simp [q4, q3]; rw [hGq2]; decide)
  have y6 := a_subq_rr q5 14 9 (by omega) (by omega) (by rw [e514]; omega) (by rw [e59]; omega)
  rw [e514, e59, show (ct.length + 2 ^ 64 - t) % 2 ^ 64 = nC from by omega] at y6
  let q6 := setFlags (setGreg q5 9 nC) (subF 8 ct.length t).2
  have hGq6 : q6.gpr.length = 16 := (lenG_sf q5 9 _ _).trans hGq5
  have e69 : greg q6 9 = nC := by
    show greg (setFlags (setGreg q5 9 _) _) 9 = _
    rw [greg_setFlags, greg_setGreg_eq q5 9 _ (by omega)]
  have e610 : greg q6 10 = cp := by
    show greg (setFlags (setGreg q5 9 _) _) 10 = _
    rw [greg_setFlags, greg_setGreg_ne q5 9 _ 10 (by decide)]
    show greg (setGreg q4 14 _) 10 = _
    rw [greg_setGreg_ne q4 14 _ 10 (by decide)]
    show greg (setGreg q3 9 _) 10 = _
    rw [greg_setGreg_ne q3 9 _ 10 (by decide)]; exact greg_setGreg_eq q2 10 _ (by rw [hGq2]; decide)
  have y7 := a_addq_rr q6 9 10 (by omega) (by omega) (by rw [e69]; omega) (by rw [e610]; omega)
  rw [e69, e610, Nat.mod_eq_of_lt (by omega)] at y7
  let q7 := setFlags (setGreg q6 10 (cp + nC)) (addF 8 cp nC).2
  have hxq : execList openCmpArgsCode s8 = .ok q7 := by
    apply exec_step (a_movq_frame s8 "tmp" 104 0 _ (by rw [hf8]; exact fTmp) (by rw [hG8]; decide))
    apply exec_step y2
    apply exec_step (a_movq_frame q2 "cipher" 56 10 _ (by show lookup s8.frame _ = _; rw [hf8]; exact fC) (by rw [hGq2]; decide))
    apply exec_step (a_movq_frame q3 "cipherLen" 64 9 _ (by show lookup s8.frame _ = _; rw [hf8]; exact fCl) (by simp [q3]; rw [hGq2]; decide))
    apply exec_step (a_movq_frame q4 "tagSize" 16 14 _ (by show lookup s8.frame _ = _; rw [hf8]; exact fTs) (by simp [q4, q3]; rw [hGq2]; decide))
    apply exec_step y6
    apply exec_step y7
    rfl
  have rq : Reach openR 1733 s8 1740 q7 7 := reach_seg os.cmpArgs (by rfl) hxq
  have restq : ∀ m, m ≠ 0 → m ≠ 10 → m ≠ 9 → m ≠ 14 → greg q7 m = greg s8 m := by
    intro m h0 h10 h9 h14
    show greg (setFlags (setGreg q6 10 _) _) m = _
    rw [greg_setFlags, greg_setGreg_ne q6 10 _ m h10]
    show greg (setFlags (setGreg q5 9 _) _) m = _
    rw [greg_setFlags, greg_setGreg_ne q5 9 _ m h9]
    show greg (setGreg q4 14 _) m = _
    rw [greg_setGreg_ne q4 14 _ m h14]
    show greg (setGreg q3 9 _) m = _
    rw [greg_setGreg_ne q3 9 _ m h9]
    show greg (setGreg q2 10 _) m = _
    rw [greg_setGreg_ne q2 10 _ m h10]
    show greg (setFlags (setGreg q1 0 _) _) m = _
    rw [greg_setFlags, greg_setGreg_ne q1 0 _ m h0]; exact greg_setGreg_ne s8 0 _ m h0
  have e710 : greg q7 10 = cp + nC := by
    show greg (setFlags (setGreg q6 10 _) _) 10 = _
    rw [greg_setFlags, greg_setGreg_eq q6 10 _ (by omega)]
  have e714 : greg q7 14 = t := by
    show greg (setFlags (setGreg q6 10 _) _) 14 = _
    rw [greg_setFlags, greg_setGreg_ne q6 10 _ 14 (by decide)]
    show greg (setFlags (setGreg q5 9 _) _) 14 = _
    rw [greg_setFlags, greg_setGreg_ne q5 9 _ 14 (by decide)]; exact e514
  have e70 : greg q7 0 = 94489280512 + 16 := by
    show greg (setFlags (setGreg q6 10 _) _) 0 = _
    rw [greg_setFlags, greg_setGreg_ne q6 10 _ 0 (by decide)]
    show greg (setFlags (setGreg q5 9 _) _) 0 = _
    rw [greg_setFlags, greg_setGreg_ne q5 9 _ 0 (by decide)]
    show greg (setGreg q4 14 _) 0 = _
    rw [greg_setGreg_ne q4 14 _ 0 (by decide)]
    show greg (setGreg q3 9 _) 0 = _
    rw [greg_setGreg_ne q3 9 _ 0 (by decide)]
    show greg (setGreg q2 10 _) 0 = _
    rw [greg_setGreg_ne q2 10 _ 0 (by decide)]
    show greg (setFlags (setGreg q1 0 _) _) 0 = _
    rw [greg_setFlags, greg_setGreg_eq q1 0 _ (by omega), addF_fst, greg_setGreg_eq s8 0 _ (by omega), imm64_16]
  -- constantTimeCompare
  have hx : ∀ e, e.length = 16 → DataAt (M2o rk dst nonce inp aad e tc8) (cp + nC) (ct.drop nC) := by
    intro e _
    exact DataAt.drop (hct _ (by rw [List.length_append, htc8]; omega)) nC (by omega)
  obtain ⟨s9, N9, e9, hN9, r9, m9, he9, g92, k9⟩ := ctCmp_reach openR 1740 os.cmp (label_findPc open_labels (name := "cmp.fastCmp") (by decide))
    (label_findPc open_labels (name := "cmp.slowCmp") (by decide)) (label_findPc open_labels (name := "cmp.cmpDone") (by decide))
    (fun e => M2o rk dst nonce inp aad e tc8) (94489280512 + 16) ((mem2o rk dst nonce inp aad).bufD tc8 htc8) (ct.drop nC) (cp + nC) hx
    (fun b hb => hcb b (List.mem_of_mem_drop hb)) (by rw [List.length_drop]; omega) (by decide) q7
    ((lenG_sf q6 10 _ _).trans hGq6) e8 he8 m8 t e714 ht (by rw [List.length_drop]; omega) e710 e70
    (by rw [he8t]; exact fun b hb => mem_lanes_lt 8 16 _ b (List.mem_of_mem_take hb))
  -- summary
  have kAll : KeepsM [15] sPostKeepV [] s6 s9 :=
    ((kp.mono (fun _ h => h) (by decide) (fun _ h => by cases h)).trans (k8.mono (by decide) (fun _ h => h) (fun _ h => h))).trans
      ((⟨(lenG_sf q6 10 _ _).trans (hGq6.trans hG8.symm), rfl, rfl, fun m hm => (by
          simp only [List.mem_cons, List.not_mem_nil, or_false] at hm; subst hm
          exact restq 15 (by decide) (by decide) (by decide) (by decide)), fun _ _ => rfl, fun _ h => (by cases h), rfl, rfl⟩ :
          KeepsM [15] sPostKeepV [] s8 q7).trans ((k9.toM sPostKeepV []).mono (by decide) (fun _ h => h) (fun _ h => h)))
  refine ⟨s9, N6 + 7 + N8 + 7 + N9, by omega, ((((r6.trans rp).trans r8).trans rq).trans r9).cast rfl rfl, ?_⟩
  refine ⟨p6.of_keepsM kAll (by decide), g6.of_keepsM kAll (by decide), ?_, ?_, ?_, ?_, ⟨tc8 ++ e9, by rw [List.length_append, htc8, he9], m9⟩, ?_⟩
  · rw [kAll.g 15 (by decide), k6.g 15 (by decide)]; exact ap.rkp
  · rw [kAll.v 14 (by decide), k6.v 14 (by decide)]; exact ap.j0
  · rw [vreg_of_vec k9.vec 21]; show vreg s8 21 < _; exact lt821
  · rw [g92, he8t, hT, ← hnC]
  · rw [k9.frame]; show s8.frame = _; rw [hf8]; exact hf5

/-- **`openAsm` from the end of the common prefix to the verdict**, input in its own region -/
theorem open_verdict_after (g v k rk : List Nat) (t : Nat) (dst nonce ct aad tmp : List Nat) (r0 : Nat)
    (hrk : rk.length = 32) (hnl : nonce.length < 2 ^ 32) (hall : aad.length < 2 ^ 32)
    (hcb : ∀ x ∈ ct, x < 2 ^ 8) (hcl : ct.length < 2 ^ 32) (ht : t ≤ 16) (htc : t ≤ ct.length)
    (jb : List Nat) (s5 : State)
    (ap : AfterPre (fun b => fmem "cipher" false rk dst nonce ct aad b) rk nonce aad jb 81604378624 94489280512 90194313216 s5)
    (hf5 : s5.frame = (openState g v k rk t dst nonce ct aad tmp r0).frame) :
    ∃ s N, N ≤ 34 * ((ct.length - t) / 16) + 700 ∧
      Reach openR 1499 s5 1775 s N ∧ AtVerdict g v k rk t dst nonce ct aad tmp r0 jb s :=
  open_verdict_gen rk t dst nonce ct ct aad 85899345920 r0 hrk hnl hall hcb hcl ht htc
    (fun b _ off n hn => fmem_read_inp "cipher" false rk dst nonce ct aad b off n hn (by omega)) (by omega) jb s5 ap hf5

end SMGo.Proofs.ISAVal
