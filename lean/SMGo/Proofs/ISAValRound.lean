import SMGo.Proofs.ISAValStep
import SMGo.Proofs.ISAValGF
namespace SMGo.Proofs.ISAVal
open SMGo.Model.ISAVal SMGo.Model.ISA

theorem exists_cons_of_length_succ {l : List Nat} {n : Nat} (h : l.length = n + 1) :
    ∃ a t, l = a :: t ∧ t.length = n := by
  cases l with
  | nil => simp at h
  | cons a t => exact ⟨a, t, rfl, by simpa using h⟩

theorem list16 (l0 : List Nat) (h0 : l0.length = 16) :
    ∃ a0 a1 a2 a3 a4 a5 a6 a7 a8 a9 a10 a11 a12 a13 a14 a15, l0 = [a0, a1, a2, a3, a4, a5, a6, a7, a8, a9, a10, a11, a12, a13, a14, a15] := by
  obtain ⟨a0, l1, rfl, h1⟩ := exists_cons_of_length_succ h0
  obtain ⟨a1, l2, rfl, h2⟩ := exists_cons_of_length_succ h1
  obtain ⟨a2, l3, rfl, h3⟩ := exists_cons_of_length_succ h2
  obtain ⟨a3, l4, rfl, h4⟩ := exists_cons_of_length_succ h3
  obtain ⟨a4, l5, rfl, h5⟩ := exists_cons_of_length_succ h4
  obtain ⟨a5, l6, rfl, h6⟩ := exists_cons_of_length_succ h5
  obtain ⟨a6, l7, rfl, h7⟩ := exists_cons_of_length_succ h6
  obtain ⟨a7, l8, rfl, h8⟩ := exists_cons_of_length_succ h7
  obtain ⟨a8, l9, rfl, h9⟩ := exists_cons_of_length_succ h8
  obtain ⟨a9, l10, rfl, h10⟩ := exists_cons_of_length_succ h9
  obtain ⟨a10, l11, rfl, h11⟩ := exists_cons_of_length_succ h10
  obtain ⟨a11, l12, rfl, h12⟩ := exists_cons_of_length_succ h11
  obtain ⟨a12, l13, rfl, h13⟩ := exists_cons_of_length_succ h12
  obtain ⟨a13, l14, rfl, h14⟩ := exists_cons_of_length_succ h13
  obtain ⟨a14, l15, rfl, h15⟩ := exists_cons_of_length_succ h14
  obtain ⟨a15, l16, rfl, h16⟩ := exists_cons_of_length_succ h15
  obtain rfl := List.eq_nil_of_length_eq_zero h16
  exact ⟨a0, a1, a2, a3, a4, a5, a6, a7, a8, a9, a10, a11, a12, a13, a14, a15, rfl⟩

theorem list32 (l0 : List Nat) (h0 : l0.length = 32) :
    ∃ b0 b1 b2 b3 b4 b5 b6 b7 b8 b9 b10 b11 b12 b13 b14 b15 b16 b17 b18 b19 b20 b21 b22 b23 b24 b25 b26 b27 b28 b29 b30 b31, l0 = [b0, b1, b2, b3, b4, b5, b6, b7, b8, b9, b10, b11, b12, b13, b14, b15, b16, b17, b18, b19, b20, b21, b22, b23, b24, b25, b26, b27, b28, b29, b30, b31] := by
  obtain ⟨b0, l1, rfl, h1⟩ := exists_cons_of_length_succ h0
  obtain ⟨b1, l2, rfl, h2⟩ := exists_cons_of_length_succ h1
  obtain ⟨b2, l3, rfl, h3⟩ := exists_cons_of_length_succ h2
  obtain ⟨b3, l4, rfl, h4⟩ := exists_cons_of_length_succ h3
  obtain ⟨b4, l5, rfl, h5⟩ := exists_cons_of_length_succ h4
  obtain ⟨b5, l6, rfl, h6⟩ := exists_cons_of_length_succ h5
  obtain ⟨b6, l7, rfl, h7⟩ := exists_cons_of_length_succ h6
  obtain ⟨b7, l8, rfl, h8⟩ := exists_cons_of_length_succ h7
  obtain ⟨b8, l9, rfl, h9⟩ := exists_cons_of_length_succ h8
  obtain ⟨b9, l10, rfl, h10⟩ := exists_cons_of_length_succ h9
  obtain ⟨b10, l11, rfl, h11⟩ := exists_cons_of_length_succ h10
  obtain ⟨b11, l12, rfl, h12⟩ := exists_cons_of_length_succ h11
  obtain ⟨b12, l13, rfl, h13⟩ := exists_cons_of_length_succ h12
  obtain ⟨b13, l14, rfl, h14⟩ := exists_cons_of_length_succ h13
  obtain ⟨b14, l15, rfl, h15⟩ := exists_cons_of_length_succ h14
  obtain ⟨b15, l16, rfl, h16⟩ := exists_cons_of_length_succ h15
  obtain ⟨b16, l17, rfl, h17⟩ := exists_cons_of_length_succ h16
  obtain ⟨b17, l18, rfl, h18⟩ := exists_cons_of_length_succ h17
  obtain ⟨b18, l19, rfl, h19⟩ := exists_cons_of_length_succ h18
  obtain ⟨b19, l20, rfl, h20⟩ := exists_cons_of_length_succ h19
  obtain ⟨b20, l21, rfl, h21⟩ := exists_cons_of_length_succ h20
  obtain ⟨b21, l22, rfl, h22⟩ := exists_cons_of_length_succ h21
  obtain ⟨b22, l23, rfl, h23⟩ := exists_cons_of_length_succ h22
  obtain ⟨b23, l24, rfl, h24⟩ := exists_cons_of_length_succ h23
  obtain ⟨b24, l25, rfl, h25⟩ := exists_cons_of_length_succ h24
  obtain ⟨b25, l26, rfl, h26⟩ := exists_cons_of_length_succ h25
  obtain ⟨b26, l27, rfl, h27⟩ := exists_cons_of_length_succ h26
  obtain ⟨b27, l28, rfl, h28⟩ := exists_cons_of_length_succ h27
  obtain ⟨b28, l29, rfl, h29⟩ := exists_cons_of_length_succ h28
  obtain ⟨b29, l30, rfl, h30⟩ := exists_cons_of_length_succ h29
  obtain ⟨b30, l31, rfl, h31⟩ := exists_cons_of_length_succ h30
  obtain ⟨b31, l32, rfl, h32⟩ := exists_cons_of_length_succ h31
  obtain rfl := List.eq_nil_of_length_eq_zero h32
  exact ⟨b0, b1, b2, b3, b4, b5, b6, b7, b8, b9, b10, b11, b12, b13, b14, b15, b16, b17, b18, b19, b20, b21, b22, b23, b24, b25, b26, b27, b28, b29, b30, b31, rfl⟩


/-- one SM4 round on the state registers A B C D (`subRound` of asm_amd64.s) at vector length `vl` -/
def roundCode (vl A B C D : Nat) : List DInstr :=
  [ins .MOVL [M 0 0, R 1] 16,
   ins .ADDQ [.imm 4, G 0] 0,
   ins .VPBROADCASTD [R 1, R 13] vl,
   ins .VPXORD [R B, R C, R 0] vl,
   ins .VPXORD [R D, R 0, R 1] vl,
   ins .VPXORD [R 13, R 1, R 4] vl,
   ins .VGF2P8AFFINEQB [.imm 62, R 10, R 4, R 0] vl,
   ins .VGF2P8AFFINEINVQB [.imm 211, R 11, R 0, R 5] vl,
   ins .VPROLD [.imm 2, R 5, R 0] vl,
   ins .VPROLD [.imm 10, R 5, R 1] vl,
   ins .VPROLD [.imm 18, R 5, R 2] vl,
   ins .VPROLD [.imm 24, R 5, R 3] vl,
   ins .VPXORD [R 0, R 1, R 0] vl,
   ins .VPXORD [R 2, R 3, R 2] vl,
   ins .VPXORD [R 0, R 2, R 0] vl,
   ins .VPXORD [R 0, R 5, R 5] vl,
   ins .VPXORD [R 5, R A, R A] vl]

/-- one instruction of a straight-line block on an explicit state -/
macro "xstep" : tactic => `(tactic|
  (apply exec_step
   · first
     | exact execD_vec3 (hmn := by rfl) (hvl := by rfl) (ha := by rfl) (hb := by rfl) (hd := by simp) (hr := by rfl) ..
     | exact execD_vecImm (hmn := by rfl) (hvl := by rfl) (ha := by rfl) (hd := by simp) (hr := by rfl) ..
     | exact execD_vecImm2 (hmn := by rfl) (hvl := by rfl) (ha := by rfl) (hb := by rfl) (hd := by simp) (hr := by rfl) ..
     | exact execD_broadcastd (hvl := by rfl) (ha := by rfl) (hd := by simp) ..
     | exact execD_addq_imm (hold := by rfl) (hd := by simp) ..))

def vreg (s : State) (n : Nat) : Nat := s.vec.getD n 0
def greg (s : State) (n : Nat) : Nat := s.gpr.getD n 0

/-- the pre- and post-affine matrices as VBROADCASTI32X2 leaves them in an X register -/
def PREv : Nat := unlanes 64 (List.replicate (16 / 8) (unlanes 8 Gen.AsmData.amd64_PreAffineMatrix))
def POSTv : Nat := unlanes 64 (List.replicate (16 / 8) (unlanes 8 Gen.AsmData.amd64_PostAffineMatrix))

theorem pre_bytes : lanes 8 8 (lane 64 0 PREv) = Gen.AsmData.amd64_PreAffineMatrix := by decide +kernel
theorem post_bytes : lanes 8 8 (lane 64 0 POSTv) = Gen.AsmData.amd64_PostAffineMatrix := by decide +kernel

/-- τ on a dword held little-endian in a lane: the S-box on each byte -/
def tauN (x : Nat) : Nat := unlanes 8 ((lanes 8 4 x).map sboxByte)
/-- L as the `transformL` macro computes it -/
def LN (y : Nat) : Nat := y ^^^ ((rotl32 24 y ^^^ rotl32 18 y) ^^^ (rotl32 10 y ^^^ rotl32 2 y))
def TN (x : Nat) : Nat := LN (tauN x)

theorem imm64_4 : imm64 4 = 4 := by decide +kernel
theorem addF_fst_4 (a : Nat) : (addF 8 a (imm64 4)).1 = (a + 4) % 2 ^ 64 := by
  rw [imm64_4]; rfl
theorem subF_fst_4 (a : Nat) : (subF 8 a (imm64 4)).1 = (a + 2 ^ 64 - 4) % 2 ^ 64 := by
  rw [imm64_4]; rfl

theorem imm_2 : imm64 2 % 256 = 2 := by decide +kernel
theorem imm_10 : imm64 10 % 256 = 10 := by decide +kernel
theorem imm_18 : imm64 18 % 256 = 18 := by decide +kernel
theorem imm_24 : imm64 24 % 256 = 24 := by decide +kernel
theorem imm_62 : imm64 62 % 256 = 62 := by decide +kernel
theorem imm_211 : imm64 211 % 256 = 211 := by decide +kernel

/-- MOVD xmm, m32 then the low dword -/
theorem movl_low (old w : Nat) (hw : w < 2 ^ 32) : (old - old % 2 ^ 128 + w) % 2 ^ 32 = w := by
  have h1 : old - old % 2 ^ 128 = 2 ^ 32 * (2 ^ 96 * (old / 2 ^ 128)) := by
    have := Nat.div_add_mod old (2 ^ 128)
    rw [← Nat.mul_assoc, ← Nat.pow_add]
    exact Nat.sub_eq_of_eq_add this.symm
  rw [h1, Nat.mul_add_mod, Nat.mod_eq_of_lt hw]

theorem lane_bcast_mod (n i x : Nat) (hi : i < n) :
    lane 32 i (unlanes 32 (List.replicate n (x % 2 ^ 32))) = x % 2 ^ 32 :=
  lane_bcast 32 n i _ hi (Nat.mod_lt _ (by decide))

/-- the `affine` macro on dword 0: τ -/
theorem lane0_sbox (x : Nat) :
    lane 32 0 (gfAffine true 16 211 POSTv (gfAffine false 16 62 PREv x)) = tauN (lane 32 0 x) := by
  rw [lane0_gfAffine, post_bytes, lane0_gfAffine, pre_bytes, lanes_unlanes 8 4]
  · simp [tauN, List.map_map, Function.comp_def]
    rfl
  · intro y hy
    simp only [List.mem_map] at hy
    obtain ⟨p, _, rfl⟩ := hy
    exact affineByte_lt _ _ _
  · simp [lanes_length]

/-- the round function of the listing on dword 0: what one `subRound` block does to the register `A` -/
def roundF (xa xb xc xd k : Nat) : Nat := xa ^^^ TN (xc ^^^ xb ^^^ xd ^^^ k)

/-- what one `subRound` block guarantees -/
structure RoundPost (A B C D : Nat) (s s' : State) (k : Nat) : Prop where
  lenG : s'.gpr.length = 16
  lenV : s'.vec.length = 32
  mem : s'.mem = s.mem
  syms : s'.syms = s.syms
  frame : s'.frame = s.frame
  g0 : greg s' 0 = (greg s 0 + 4) % 2 ^ 64
  g3 : greg s' 3 = greg s 3
  vB : vreg s' B = vreg s B
  vC : vreg s' C = vreg s C
  vD : vreg s' D = vreg s D
  v10 : vreg s' 10 = vreg s 10
  v11 : vreg s' 11 = vreg s 11
  v12 : vreg s' 12 = vreg s 12
  vA : lane 32 0 (vreg s' A) = roundF (lane 32 0 (vreg s A)) (lane 32 0 (vreg s B)) (lane 32 0 (vreg s C)) (lane 32 0 (vreg s D)) k

set_option maxRecDepth 10000 in
set_option maxHeartbeats 1000000 in
theorem round_spec (A B C D : Nat)
    (hperm : (A = 6 ∧ B = 7 ∧ C = 8 ∧ D = 9) ∨ (A = 7 ∧ B = 8 ∧ C = 9 ∧ D = 6) ∨
             (A = 8 ∧ B = 9 ∧ C = 6 ∧ D = 7) ∨ (A = 9 ∧ B = 6 ∧ C = 7 ∧ D = 8))
    (s : State) (hG : s.gpr.length = 16) (hV : s.vec.length = 32) (bs : List Nat)
    (hg0 : greg s 0 < 2 ^ 64) (hw : readMem s.mem (greg s 0) 4 = .ok bs) (hbs : unlanes 8 bs < 2 ^ 32)
    (h10 : vreg s 10 = PREv) (h11 : vreg s 11 = POSTv) :
    ∃ s', execList (roundCode 16 A B C D) s = .ok s' ∧ RoundPost A B C D s s' (unlanes 8 bs) := by
  obtain ⟨gpr, vec, k, fl, mem, syms, frame⟩ := s
  simp only at hG hV
  obtain ⟨a0, a1, a2, a3, a4, a5, a6, a7, a8, a9, a10, a11, a12, a13, a14, a15, rfl⟩ := list16 gpr hG
  obtain ⟨b0, b1, b2, b3, b4, b5, b6, b7, b8, b9, b10, b11, b12, b13, b14, b15, b16, b17, b18, b19, b20, b21, b22, b23, b24, b25, b26, b27, b28, b29, b30, b31, rfl⟩ := list32 vec hV
  simp only [greg, vreg, List.getD_cons_succ, List.getD_cons_zero] at hg0 hw h10 h11
  subst h10 h11
  have e0 : (a0 + 0 + imm64 0) % 2 ^ 64 = a0 := by simp [imm64, Nat.mod_eq_of_lt hg0]
  rw [← e0] at hw
  rcases hperm with ⟨rfl, rfl, rfl, rfl⟩ | ⟨rfl, rfl, rfl, rfl⟩ | ⟨rfl, rfl, rfl, rfl⟩ | ⟨rfl, rfl, rfl, rfl⟩
  all_goals
    apply Exists.intro
    apply And.intro
    · unfold roundCode
      apply exec_step
      · exact execD_movl_load (bs := bs) (hb := by rfl) (hold := by rfl) (hd := by simp)
          (hload := hw) ..
      xstep; xstep; xstep; xstep; xstep; xstep; xstep; xstep; xstep; xstep; xstep; xstep; xstep; xstep; xstep; xstep
      exact execList_nil _
    · simp only [List.set_cons_succ, List.set_cons_zero]
      refine ⟨rfl, rfl, rfl, rfl, rfl, ?_, rfl, rfl, rfl, rfl, rfl, rfl, rfl, ?_⟩
      · simp only [greg, List.getD_cons_succ, List.getD_cons_zero, addF_fst_4]
      · simp only [vreg, List.getD_cons_succ, List.getD_cons_zero]
        simp only [Nat.reduceDiv, imm_2, imm_10, imm_18, imm_24, imm_62, imm_211, lane_vpxord _ 0 _ _ (by decide : 0 < 4),
          lane_vprold _ 0 _ _ (by decide : 0 < 4), lane0_sbox, lane_bcast 32 4 0 _ (by decide) hbs, movl_low _ _ hbs]
        rfl

end SMGo.Proofs.ISAVal
