import SMGo.Proofs.ISAValLadXs16
set_option linter.unusedSimpArgs false
namespace SMGo.Proofs.ISAVal
open SMGo.Model.ISAVal SMGo.Model.GCM SMGo.Proofs.GCM SMGo.Proofs.ISATouch
open SMGo.Model.ISA (Reg Opd Instr)

theorem cond_jle (a b : Nat) (ha : a < 2 ^ 63) (hb : b < 2 ^ 63) : Model.ISAVal.cond .JLE (subF 8 a b).2 = .ok (decide (a ≤ b)) := by
  rw [subF_flags a b ha hb]
  by_cases h1 : a = b
  · subst h1; simp [Model.ISAVal.cond]
  · by_cases h2 : a < b
    · have : a ≤ b := by omega
      simp [Model.ISAVal.cond, h1, h2, this]
    · have : ¬ a ≤ b := by omega
      simp [Model.ISAVal.cond, h1, h2, this]

theorem cond_jne (a b : Nat) (ha : a < 2 ^ 63) (hb : b < 2 ^ 63) : Model.ISAVal.cond .JNE (subF 8 a b).2 = .ok (decide (a ≠ b)) := by
  rw [subF_flags a b ha hb]
  by_cases h1 : a = b
  · subst h1; simp [Model.ISAVal.cond]
  · simp [Model.ISAVal.cond, h1]

/-- `CMPQ reg, $n; Jcc pc` with a known outcome -/
theorem guard_reach {r : Routine} {k idx pc reg : Nat} {ci : Int} {mn : Mn}
    (hs : Slice r k [ins .CMPQ [G reg, .imm ci] 0, ins mn [.target pc] 0]) (hmn : isJcc mn = true)
    (hl : findPc r pc = some (r.drop idx)) (s : State) (hreg : reg < s.gpr.length) (v n : Nat) (hv : greg s reg = v) (hn : imm64 ci = n) (c : Bool)
    (hc : Model.ISAVal.cond mn (subF 8 v n).2 = .ok c) :
    Reach r k s (if c then idx else k + 2) (setFlags s (subF 8 v n).2) 2 := by
  have sC : Slice r k [ins .CMPQ [G reg, .imm ci] 0] := Slice.left (a := [_]) (b := [_]) hs
  have sJ : Slice r (k + 1) [ins mn [.target pc] 0] := Slice.right (a := [_]) (b := [_]) hs
  have hx0 : execList [ins .CMPQ [G reg, .imm ci] 0] s = .ok (setFlags s (subF 8 v n).2) := by
    apply exec_step (s1 := setFlags s (subF 8 v n).2)
    · have := a_cmpq_imm s ci reg hreg
      rw [hv, hn] at this; exact this
    rfl
  have r0 : Reach r k s (k + 1) _ 1 := reach_seg sC (by rfl) hx0
  have rJ := reach_jcc (r := r) (k := k + 1) (idx := idx) sJ hmn hl (s := setFlags s (subF 8 v n).2) hc
  have := r0.trans rJ
  cases c
  · exact this
  · exact this

theorem imm64_256 : imm64 256 = 256 := by decide +kernel
theorem imm64_128 : imm64 128 = 128 := by decide +kernel
theorem imm64_32 : imm64 32 = 32 := by decide +kernel

/-- the memory of the ladder: destination and scratch buffers, round keys; the input stays readable beyond what has been written
    (`adv`; the input may lie in the destination buffer itself: the in-place call) -/
structure LadMem (M2 : List Nat → List Nat → List Region) (dbase dlen tp : Nat) (rk src : List Nat) (sp : Nat) : Prop where
  m2 : Mem2 M2 dbase dlen tp
  rk : ∀ dc tc i, dc.length = dlen → tc.length = 32 → i < 32 → readMem (M2 dc tc) (73014444032 + 4 * i) 4 = .ok (lanes 8 4 (rk.getD i 0))
  adv : ∀ dc tc o n bs, dc.length = dlen → tc.length = 32 → bs.length = n → o + n ≤ src.length → SrcFrom (M2 dc tc) sp src o →
    SrcFrom (M2 (spliceAt dc o bs) tc) sp src (o + n)

def ladKeepG : List Nat := [0, 6, 15]
def ladKeepV : List Nat := [10, 11, 12, 15, 16, 17, 18, 19, 22, 23, 24, 25, 26, 29, 30, 31]

/-- the state of `cryptoBlocksAsm` at a class label after `c` blocks: `nl` lanes of Z14 hold the counter, Z21 the GHASH value,
    the destination holds `dc`, the scratch block `tc` -/
structure LadSt (M2 : List Nat → List Nat → List Region) (dbase dlen tp sp toff : Nat) (W : Nat × Nat × Nat × Nat) (h hf : Nat) (src : List Nat)
    (nl c y : Nat) (dc tc : List Nat) (s : State) : Prop where
  pc : PCtx s
  gh : GhCtx h s
  rkp : greg s 15 = 73014444032
  g0 : greg s 0 = hf
  g9 : greg s 9 = src.length - 16 * c
  g10 : greg s 10 = sp + 16 * c
  g13 : greg s 13 = dbase + 16 * c
  g6 : greg s 6 = tp + toff
  ctr : ∀ l, l < nl → quadAt (vreg s 14) l = ctrW W c
  acc : vreg s 21 = y
  acclt : y < 2 ^ 128
  mem : s.mem = M2 dc tc
  hdc : dc.length = dlen
  htc : tc.length = 32
  srcOK : ∀ t, t.length = 32 → SrcFrom (M2 dc t) sp src (16 * c)

/-- the strong form: the input is readable whatever destination and scratch hold (input and destination disjoint) -/
theorem LadMem.ofData {M2 : List Nat → List Nat → List Region} {dbase dlen tp : Nat} {rk src : List Nat} {sp : Nat} (m2 : Mem2 M2 dbase dlen tp)
    (hrk : ∀ dc tc i, dc.length = dlen → tc.length = 32 → i < 32 → readMem (M2 dc tc) (73014444032 + 4 * i) 4 = .ok (lanes 8 4 (rk.getD i 0)))
    (hsrc : ∀ dc tc, dc.length = dlen → tc.length = 32 → DataAt (M2 dc tc) sp src) (hsl : src.length ≤ dlen) :
    LadMem M2 dbase dlen tp rk src sp :=
  ⟨m2, hrk, fun dc tc o n bs hdc htc hbs hle _ =>
    SrcFrom.ofData (hsrc _ tc (by rw [spliceAt_length _ _ _ (by omega)]; exact hdc) htc) _⟩

theorem pRegs_lad : ∀ n, n ∈ pRegs → n ∈ ladKeepV := by decide
theorem ghRegs_lad : ∀ n, n ∈ ghRegs → n ∈ ladKeepV := by decide

end SMGo.Proofs.ISAVal
