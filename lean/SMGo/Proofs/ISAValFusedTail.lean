import SMGo.Proofs.ISAValFusedCopy
set_option linter.unusedSimpArgs false
namespace SMGo.Proofs.ISAVal
open SMGo.Model.ISAVal SMGo.Proofs.ISATouch
open SMGo.Model.ISA (Reg Opd Instr)

theorem a_movq_imm_store (s : State) (v : Int) (b : Nat) (disp : Int) (mem' : List Region) (hb : b < s.gpr.length)
    (hstore : writeMem s.mem ((greg s b + 0 + imm64 disp) % 2 ^ 64) (lanes 8 8 (imm64 v)) = .ok mem') :
    execD s (ins .MOVQ [.imm v, M b disp] 0) = .ok (setMem s mem') := by
  obtain ⟨g, vv, k, fl, mem, syms, frame⟩ := s
  have hgb := getElem?_getD g b hb
  simp only [greg, Nat.add_zero] at hstore
  simp only [execD, ins, M, exMov, aluWidth, effAddr, getG, hgb, ok_bind, pure_eq_ok, Nat.add_zero, storeLE, hstore,
    Except.map, setMem, true_or, if_true]

theorem a_subq_rr (s : State) (a d : Nat) (ha : a < s.gpr.length) (hd : d < s.gpr.length) (hav : greg s a < 2 ^ 64) (hdv : greg s d < 2 ^ 64) :
    execD s (ins .SUBQ [G a, G d] 0)
      = .ok (setFlags (setGreg s d ((greg s d + 2 ^ 64 - greg s a) % 2 ^ 64)) (subF 8 (greg s d) (greg s a)).2) := by
  obtain ⟨g, vv, k, fl, mem, syms, frame⟩ := s
  have hga := getElem?_getD g a ha
  have hgd := getElem?_getD g d hd
  have hd' : d < g.length := hd
  simp only [greg] at hav hdv
  simp only [execD, ins, G, exAlu, aluWidth, getG, hga, hgd, ok_bind, pure_eq_ok, alu, withFlags, setG, if_pos hd', Except.map,
    setGreg, setFlags, greg, true_or, or_true, if_true, Nat.mod_eq_of_lt hav, Nat.mod_eq_of_lt hdv, mergeG, subF]
  simp [Nat.mod_mod]

theorem lanes_zero8 : lanes 8 8 (imm64 0) = [0, 0, 0, 0, 0, 0, 0, 0] := by decide +kernel


/-- zero padding to 16 bytes -/
def padTo16 (x : List Nat) : List Nat := x ++ List.replicate (16 - x.length) 0

theorem padTo16_length (x : List Nat) (h : x.length ≤ 16) : (padTo16 x).length = 16 := by simp [padTo16]; omega

/-- writing `x` over a longer `z` written at the same place -/
theorem spliceAt_over (b : List Nat) (off : Nat) (z x : List Nat) (hx : x.length ≤ z.length) (hb : off + z.length ≤ b.length) :
    spliceAt (spliceAt b off z) off x = spliceAt b off (x ++ z.drop x.length) := by
  unfold spliceAt
  have h1 : (b.take off ++ z ++ b.drop (off + z.length)).take off = b.take off := by
    rw [List.append_assoc, List.take_left' (by simp; omega)]
  have h2 : (b.take off ++ z ++ b.drop (off + z.length)).drop (off + x.length) = z.drop x.length ++ b.drop (off + z.length) := by
    rw [List.append_assoc, List.drop_append, List.drop_eq_nil_of_le (by simp; omega), List.nil_append]
    have : off + x.length - (List.take off b).length = x.length := by simp; omega
    rw [this, List.drop_append_of_le_length hx]
  rw [h1, h2]
  simp only [List.append_assoc, List.length_append, List.length_drop]
  congr 4
  omega

theorem zeros8 : List.replicate 8 0 ++ List.replicate 8 0 = List.replicate 16 0 := by decide

/-- (data pointer, remainder) of the three tail copies: nonce, additional data, ciphertext -/
def tailInst (p rem : Nat) : Prop := (p = 12 ∧ rem = 9) ∨ (p = 8 ∧ rem = 11) ∨ (p = 10 ∧ rem = 11)

theorem tailInst_regs {p rem : Nat} (h : tailInst p rem) : CopyRegs 6 p rem 1 ∧ rem < 16 ∧ rem ≠ 2 ∧ p ≠ 2 ∧ 2 ∈ copyKeepG 6 p rem 1 := by
  rcases h with ⟨rfl, rfl⟩ | ⟨rfl, rfl⟩ | ⟨rfl, rfl⟩ <;>
    exact ⟨⟨by decide, by decide, by decide, by decide, by decide, by decide, by decide, by decide, by decide, by decide⟩,
      by decide, by decide, by decide, by decide⟩

def tailKeepG (p rem : Nat) : List Nat := (List.range 16).filter (fun n => !([6, p, rem, 1, 2].contains n))

theorem tail_eq (p rem p8 p4 p2 p1 pe : Nat) : tailCopyCode p rem p8 p4 p2 p1 pe =
    [ins .MOVQ [G rem, G 2] 0, ins .MOVQ [.imm 0, M 6 0] 0, ins .MOVQ [.imm 0, M 6 8] 0] ++
      (copyCode 6 p rem 1 p8 p4 p2 p1 pe ++ [ins .SUBQ [G 2, G 6] 0]) := by
  simp [tailCopyCode, List.append_assoc]

theorem copy_len (dst src len tmp p8 p4 p2 p1 pe : Nat) : (copyCode dst src len tmp p8 p4 p2 p1 pe).length = 33 := rfl

set_option maxHeartbeats 1000000 in
/-- **the 1..15 remaining bytes go through the zeroed scratch block**: afterwards the 16 bytes at the scratch pointer are the
    remainder followed by zeros; the scratch pointer is restored, the data pointer has advanced -/
theorem tail_reach (r : Routine) (k p rem p8 p4 p2 p1 pe : Nat) (hi : tailInst p rem)
    (hs : Slice r k (tailCopyCode p rem p8 p4 p2 p1 pe)) (l8 : findPc r p8 = some (r.drop (k + 3)))
    (l4 : findPc r p4 = some (r.drop (k + 11))) (l2 : findPc r p2 = some (r.drop (k + 19))) (l1 : findPc r p1 = some (r.drop (k + 27)))
    (le : findPc r pe = some (r.drop (k + 35))) (Mf : List Nat → List Region) (tbase : Nat) (bf : Buf Mf tbase 32)
    (d : List Nat) (sp : Nat) (hsrc : ∀ b, b.length = 32 → DataAt (Mf b) sp d) (hdb : ∀ x ∈ d, x < 2 ^ 8)
    (hbase : tbase + 32 < 2 ^ 63) (hsp : sp + d.length < 2 ^ 63)
    (n : Nat) (s : State) (b : List Nat) (so toff : Nat) (hto : toff = 0 ∨ toff = 16) (hG : s.gpr.length = 16) (hb : b.length = 32)
    (hm : s.mem = Mf b) (hrem : greg s rem = n) (hn1 : 1 ≤ n) (hn15 : n ≤ 15) (hp : greg s p = sp + so) (h6 : greg s 6 = tbase + toff)
    (hso : so + n ≤ d.length) :
    ∃ s' N, N ≤ 64 ∧ Reach r k s (k + 37) s' N ∧ s'.mem = Mf (spliceAt b toff (padTo16 ((d.drop so).take n))) ∧
      greg s' 6 = tbase + toff ∧ greg s' p = sp + so + n ∧ RegsKeep (tailKeepG p rem) s s' := by
  obtain ⟨cr, lrem, rem2, p2', m2⟩ := tailInst_regs hi
  rw [tail_eq] at hs
  have sA := hs.left
  have sC : Slice r (k + 3) (copyCode 6 p rem 1 p8 p4 p2 p1 pe) := hs.right.left
  have sS : Slice r (k + 36) [ins .SUBQ [G 2, G 6] 0] := by
    have := hs.right.right; rw [copy_len] at this; exact this
  -- save the remainder, zero the scratch block
  let s1 := setGreg s 2 n
  have x1 : execD s (ins .MOVQ [G rem, G 2] 0) = .ok s1 := by
    have := a_movq_rr s rem 2 (by omega) (by omega); rw [hrem] at this; exact this
  have g16 : greg s1 6 = tbase + toff := by rw [greg_setGreg_ne s 2 n 6 (by decide)]; exact h6
  let b1 := spliceAt b toff (List.replicate 8 0)
  let s2 := setMem s1 (Mf b1)
  have x2 : execD s1 (ins .MOVQ [.imm 0, M 6 0] 0) = .ok s2 := by
    apply a_movq_imm_store s1 0 6 0 _ (by simp [s1]; omega)
    rw [g16, ea00 _ (by omega), lanes_zero8]
    show writeMem s.mem _ _ = _
    rw [hm, bf.wr b toff _ hb (by rcases hto with rfl | rfl <;> simp)]
    rfl
  let b2 := spliceAt b1 (toff + 8) (List.replicate 8 0)
  let s3 := setMem s2 (Mf b2)
  have hb1 : b1.length = 32 := by
    show (spliceAt b toff _).length = _
    rw [spliceAt_length _ _ _ (by rcases hto with rfl | rfl <;> simp [hb])]; exact hb
  have x3 : execD s2 (ins .MOVQ [.imm 0, M 6 8] 0) = .ok s3 := by
    apply a_movq_imm_store s2 0 6 8 _ (by simp [s2, s1]; omega)
    rw [show greg s2 6 = tbase + toff from g16, show imm64 8 = 8 from by decide +kernel, Nat.add_zero,
      Nat.mod_eq_of_lt (by omega), lanes_zero8, Nat.add_assoc]
    show writeMem (Mf b1) _ _ = _
    rw [bf.wr b1 (toff + 8) _ hb1 (by rcases hto with rfl | rfl <;> simp)]
    rfl
  have hb2 : b2 = spliceAt b toff (List.replicate 16 0) := by
    show spliceAt (spliceAt b toff (List.replicate 8 0)) (toff + 8) (List.replicate 8 0) = _
    have := spliceAt_spliceAt b toff (List.replicate 8 0) (List.replicate 8 0) (by rcases hto with rfl | rfl <;> simp [hb])
    simp only [List.length_replicate] at this
    rw [this, zeros8]
  have hxA : execList [ins .MOVQ [G rem, G 2] 0, ins .MOVQ [.imm 0, M 6 0] 0, ins .MOVQ [.imm 0, M 6 8] 0] s = .ok s3 := by
    apply exec_step x1
    apply exec_step x2
    apply exec_step x3
    exact execList_nil _
  have rA : Reach r k s (k + 3) s3 3 := reach_seg sA (by rfl) hxA
  have hb2l : b2.length = 32 := by
    rw [hb2, spliceAt_length _ _ _ (by rcases hto with rfl | rfl <;> simp [hb])]; exact hb
  -- the copy
  obtain ⟨s4, N, hN, rC, m4, _, g4p, g46, k4⟩ := copy_reach r (k + 3) 6 p rem 1 p8 p4 p2 p1 pe cr sC l8 (by rw [Nat.add_assoc]; exact l4)
    (by rw [Nat.add_assoc]; exact l2) (by rw [Nat.add_assoc]; exact l1) (by rw [Nat.add_assoc]; exact le) Mf tbase 32 bf d sp hsrc hdb
    hbase hsp n s3 b2 so toff (by simp [s3, s2, s1]; exact hG) hb2l rfl
    (by show greg (setGreg s 2 n) rem = _; rw [greg_setGreg_ne s 2 n rem rem2]; exact hrem) (by omega)
    (by show greg (setGreg s 2 n) p = _; rw [greg_setGreg_ne s 2 n p p2']; exact hp) g16 hso (by rcases hto with rfl | rfl <;> omega)
  -- restore the scratch pointer
  have g42 : greg s4 2 = n := by
    rw [k4.g 2 m2]; exact greg_setGreg_eq s 2 n (by omega)
  have hG4 : s4.gpr.length = 16 := by rw [k4.lenG]; simp [s3, s2, s1]; exact hG
  have x5 := a_subq_rr s4 2 6 (by omega) (by omega) (by rw [g42]; omega) (by rw [g46]; omega)
  rw [g42, g46, show (tbase + toff + n + 2 ^ 64 - n) % 2 ^ 64 = tbase + toff from by omega] at x5
  have r5 : Reach r (k + 36) s4 (k + 37) _ 1 := reach_seg sS (by rfl) (by apply exec_step x5; exact execList_nil _)
  refine ⟨_, 3 + N + 1, by omega, ((rA.trans (rC.cast (by omega) rfl)).trans r5).cast rfl rfl, ?_, ?_, ?_, ?_⟩
  · show s4.mem = _
    rw [m4, hb2, spliceAt_over b toff _ _ (by rw [List.length_take, List.length_drop, List.length_replicate]; omega)
      (by rcases hto with rfl | rfl <;> simp [hb])]
    congr 2
    unfold padTo16
    rw [List.drop_replicate]
  · rw [greg_setFlags, greg_setGreg_eq s4 6 _ (by omega)]
  · rw [greg_setFlags, greg_setGreg_ne s4 6 _ p (Ne.symm cr.ds)]; exact g4p
  · refine ⟨by simp; rw [hG4, hG], ?_, ?_, ?_, ?_, ?_⟩
    · intro m hm'
      have hm2 : m ≠ 6 ∧ m ≠ p ∧ m ≠ rem ∧ m ≠ 1 ∧ m ≠ 2 ∧ m < 16 := by
        simp [tailKeepG] at hm'
        exact ⟨hm'.2.1, hm'.2.2.1, hm'.2.2.2.1, hm'.2.2.2.2.1, hm'.2.2.2.2.2, hm'.1⟩
      rw [greg_setFlags, greg_setGreg_ne s4 6 _ m hm2.1, k4.g m (by simp [copyKeepG]; exact ⟨hm2.2.2.2.2.2, hm2.1, hm2.2.1, hm2.2.2.1, hm2.2.2.2.1⟩)]
      exact greg_setGreg_ne s 2 n m hm2.2.2.2.2.1
    · show s4.vec = _; rw [k4.vec]; rfl
    · show s4.kreg = _; rw [k4.kreg]; rfl
    · show s4.syms = _; rw [k4.syms]; rfl
    · show s4.frame = _; rw [k4.frame]; rfl

end SMGo.Proofs.ISAVal
