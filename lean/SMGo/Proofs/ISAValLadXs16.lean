import SMGo.Proofs.ISAValLadXor
set_option linter.unusedSimpArgs false
namespace SMGo.Proofs.ISAVal
open SMGo.Model.ISAVal SMGo.Model.GCM SMGo.Proofs.GCM SMGo.Proofs.ISATouch
open SMGo.Model.ISA (Reg Opd Instr)

/-- `loopX16`: xor with 256 input bytes and store -/
def xs16Code : List DInstr :=
  [ins .VMOVDQU32 [M 10 0, R 0] 64, ins .VMOVDQU32 [M 10 64, R 1] 64, ins .VMOVDQU32 [M 10 128, R 2] 64, ins .VMOVDQU32 [M 10 192, R 3] 64,
   ins .VPXORD [R 9, R 0, R 9] 64, ins .VPXORD [R 8, R 1, R 8] 64, ins .VPXORD [R 7, R 2, R 7] 64, ins .VPXORD [R 6, R 3, R 6] 64,
   ins .VMOVDQU32 [R 9, M 13 0] 64, ins .VMOVDQU32 [R 8, M 13 64] 64, ins .VMOVDQU32 [R 7, M 13 128] 64, ins .VMOVDQU32 [R 6, M 13 192] 64]

theorem src_chunk (src : List Nat) (so a n : Nat) : ((src.drop so).drop a).take n = (src.drop (so + a)).take n := by
  rw [List.drop_drop]

set_option maxRecDepth 100000 in
/-- 256 bytes as four chunks of 64 -/
theorem chunks4 (src : List Nat) (so : Nat) (hso : so + 256 ≤ src.length) :
    (src.drop so).take 256 = (src.drop (so + 0)).take 64 ++ ((src.drop (so + 64)).take 64 ++ ((src.drop (so + 128)).take 64 ++
      (src.drop (so + 192)).take 64)) := by
  apply List.ext_getElem
  · simp only [List.length_append, List.length_take, List.length_drop]; omega
  · intro i h1 h2
    simp only [List.length_take, List.length_drop] at h1
    simp only [List.getElem_take, List.getElem_drop, List.getElem_append, List.length_take, List.length_drop]
    split
    · rfl
    · split
      · congr 1; omega
      · split
        · congr 1; omega
        · congr 1; omega

set_option maxRecDepth 100000 in
set_option maxHeartbeats 1000000 in
theorem xs16_spec (s : State) (hG : s.gpr.length = 16) (hV : s.vec.length = 32) (Mf : List Nat → List Region) (dbase dlen : Nat)
    (bf : Buf Mf dbase dlen) (src : List Nat) (sp : Nat) (hsb : ∀ x ∈ src, x < 2 ^ 8)
    (b0 : List Nat) (hb0 : b0.length = dlen) (hm : s.mem = Mf b0) (so doff : Nat) (hsrc : SrcFrom (Mf b0) sp src so) (h10 : greg s 10 = sp + so) (h13 : greg s 13 = dbase + doff)
    (hso : so + 256 ≤ src.length) (hdo : doff + 256 ≤ dlen) (hsp : sp + src.length < 2 ^ 63) (hdb : dbase + dlen < 2 ^ 63)
    (ks : Nat → List Nat) (hks : ∀ r, r < 4 → vreg s (9 - r) < 2 ^ (8 * 64) ∧ lanes 8 64 (vreg s (9 - r)) = ks r ∧ (ks r).length = 64 ∧
      ∀ x ∈ ks r, x < 2 ^ 8) :
    ∃ s', execList xs16Code s = .ok s' ∧
      s'.mem = Mf (spliceAt b0 doff (xorN ((src.drop (so + 0)).take 64) (ks 0) ++ (xorN ((src.drop (so + 64)).take 64) (ks 1) ++
        (xorN ((src.drop (so + 128)).take 64) (ks 2) ++ xorN ((src.drop (so + 192)).take 64) (ks 3))))) ∧
      ∀ r, r < 4 → vreg s' (9 - r) = unlanes 8 (xorN ((src.drop (so + 64 * r)).take 64) (ks r)) := by
  have h64 : validVl 64 = true := by decide
  obtain ⟨gpr, vec, k, fl, mem, syms, frame⟩ := s
  simp only at hG hV hm
  obtain ⟨a0, a1, a2, a3, a4, a5, a6, a7, a8, a9, a10, a11, a12, a13, a14, a15, rfl⟩ := list16 gpr hG
  obtain ⟨b0', b1, b2, b3, b4, b5, b6, b7, b8, b9, b10, b11, b12, b13, b14, b15, b16, b17, b18, b19, b20, b21, b22, b23, b24, b25, b26, b27, b28, b29, b30, b31, rfl⟩ := list32 vec hV
  simp only [greg, List.getD_cons_succ, List.getD_cons_zero] at h10 h13
  subst h10 h13 hm
  have k0 := hks 0 (by decide); have k1 := hks 1 (by decide); have k2 := hks 2 (by decide); have k3 := hks 3 (by decide)
  simp only [vreg, List.getD_cons_succ, List.getD_cons_zero, Nat.sub_zero, Nat.reduceSub] at k0 k1 k2 k3
  -- the four input chunks
  let c0 := (src.drop (so + 0)).take 64
  let c1 := (src.drop (so + 64)).take 64
  let c2 := (src.drop (so + 128)).take 64
  let c3 := (src.drop (so + 192)).take 64
  have hc : ∀ a, a + 64 ≤ 256 → ((src.drop (so + a)).take 64).length = 64 ∧ ∀ x ∈ (src.drop (so + a)).take 64, x < 2 ^ 8 := by
    intro a ha
    exact ⟨by rw [List.length_take, List.length_drop]; omega, fun x hx => hsb x (List.mem_of_mem_drop (List.mem_of_mem_take hx))⟩
  have hrd : ∀ a, a + 64 ≤ 256 → readMem (Mf b0) (sp + so + a) 64 = .ok ((src.drop (so + a)).take 64) := by
    intro a ha
    rw [Nat.add_assoc]; exact hsrc (so + a) 64 (by omega) (by omega)
  have x0 := vpxord_bytes 64 c0 (ks 0) b9 (by decide) (hc 0 (by omega)).1 (hc 0 (by omega)).2 k0.1 k0.2.1
  have x1 := vpxord_bytes 64 c1 (ks 1) b8 (by decide) (hc 64 (by omega)).1 (hc 64 (by omega)).2 k1.1 k1.2.1
  have x2 := vpxord_bytes 64 c2 (ks 2) b7 (by decide) (hc 128 (by omega)).1 (hc 128 (by omega)).2 k2.1 k2.2.1
  have x3 := vpxord_bytes 64 c3 (ks 3) b6 (by decide) (hc 192 (by omega)).1 (hc 192 (by omega)).2 k3.1 k3.2.1
  let o0 := xorN c0 (ks 0); let o1 := xorN c1 (ks 1); let o2 := xorN c2 (ks 2); let o3 := xorN c3 (ks 3)
  have ol : ∀ (c kk : List Nat), c.length = 64 → kk.length = 64 → (xorN c kk).length = 64 := by
    intro c kk h1 h2; rw [xorN_length, h1, h2]; rfl
  have l0 : o0.length = 64 := ol _ _ (hc 0 (by omega)).1 k0.2.2.1
  have l1 : o1.length = 64 := ol _ _ (hc 64 (by omega)).1 k1.2.2.1
  have l2 : o2.length = 64 := ol _ _ (hc 128 (by omega)).1 k2.2.2.1
  have l3 : o3.length = 64 := ol _ _ (hc 192 (by omega)).1 k3.2.2.1
  have ln0 : lanes 8 64 (unlanes 8 o0) = o0 := lanes_xorN 64 _ _ (hc 0 (by omega)).1 k0.2.2.1 (hc 0 (by omega)).2 k0.2.2.2
  have ln1 : lanes 8 64 (unlanes 8 o1) = o1 := lanes_xorN 64 _ _ (hc 64 (by omega)).1 k1.2.2.1 (hc 64 (by omega)).2 k1.2.2.2
  have ln2 : lanes 8 64 (unlanes 8 o2) = o2 := lanes_xorN 64 _ _ (hc 128 (by omega)).1 k2.2.2.1 (hc 128 (by omega)).2 k2.2.2.2
  have ln3 : lanes 8 64 (unlanes 8 o3) = o3 := lanes_xorN 64 _ _ (hc 192 (by omega)).1 k3.2.2.1 (hc 192 (by omega)).2 k3.2.2.2
  let m1 := spliceAt b0 doff o0
  let m2 := spliceAt m1 (doff + 64) o1
  let m3 := spliceAt m2 (doff + 128) o2
  let m4 := spliceAt m3 (doff + 192) o3
  have lm1 : m1.length = dlen := by rw [spliceAt_length _ _ _ (by omega)]; exact hb0
  have lm2 : m2.length = dlen := by rw [spliceAt_length _ _ _ (by omega)]; exact lm1
  have lm3 : m3.length = dlen := by rw [spliceAt_length _ _ _ (by omega)]; exact lm2
  apply Exists.intro
  apply And.intro
  · unfold xs16Code
    apply exec_step
    · exact execD_vmov_load (hvl := h64) (hb := by rfl) (hd := by simp) (hload := by rw [show (sp + so + 0 + imm64 0) % 2 ^ 64 = sp + so + 0 from ea_nat _ 0 (by omega)]; exact hrd 0 (by omega)) ..
    apply exec_step
    · exact execD_vmov_load (hvl := h64) (hb := by rfl) (hd := by simp) (hload := by rw [show (sp + so + 0 + imm64 64) % 2 ^ 64 = sp + so + 64 from ea_nat _ 64 (by omega)]; exact hrd 64 (by omega)) ..
    apply exec_step
    · exact execD_vmov_load (hvl := h64) (hb := by rfl) (hd := by simp) (hload := by rw [show (sp + so + 0 + imm64 128) % 2 ^ 64 = sp + so + 128 from ea_nat _ 128 (by omega)]; exact hrd 128 (by omega)) ..
    apply exec_step
    · exact execD_vmov_load (hvl := h64) (hb := by rfl) (hd := by simp) (hload := by rw [show (sp + so + 0 + imm64 192) % 2 ^ 64 = sp + so + 192 from ea_nat _ 192 (by omega)]; exact hrd 192 (by omega)) ..
    vstep; vstep; vstep; vstep
    simp only [List.set_cons_succ, List.set_cons_zero]
    rw [x0.1, x1.1, x2.1, x3.1]
    apply exec_step
    · exact execD_vmov_store (hvl := h64) (hb := by rfl) (ha := by rfl) (mem' := Mf m1)
        (hstore := by rw [show (dbase + doff + 0 + imm64 0) % 2 ^ 64 = dbase + doff + 0 from ea_nat _ 0 (by omega), ln0, Nat.add_zero]; exact bf.wr b0 doff o0 hb0 (by omega)) ..
    apply exec_step
    · exact execD_vmov_store (hvl := h64) (hb := by rfl) (ha := by rfl) (mem' := Mf m2)
        (hstore := by rw [show (dbase + doff + 0 + imm64 64) % 2 ^ 64 = dbase + doff + 64 from ea_nat _ 64 (by omega), ln1, Nat.add_assoc]; exact bf.wr m1 (doff + 64) o1 lm1 (by omega)) ..
    apply exec_step
    · exact execD_vmov_store (hvl := h64) (hb := by rfl) (ha := by rfl) (mem' := Mf m3)
        (hstore := by rw [show (dbase + doff + 0 + imm64 128) % 2 ^ 64 = dbase + doff + 128 from ea_nat _ 128 (by omega), ln2, Nat.add_assoc]; exact bf.wr m2 (doff + 128) o2 lm2 (by omega)) ..
    apply exec_step
    · exact execD_vmov_store (hvl := h64) (hb := by rfl) (ha := by rfl) (mem' := Mf m4)
        (hstore := by rw [show (dbase + doff + 0 + imm64 192) % 2 ^ 64 = dbase + doff + 192 from ea_nat _ 192 (by omega), ln3, Nat.add_assoc]; exact bf.wr m3 (doff + 192) o3 lm3 (by omega)) ..
    exact execList_nil _
  refine ⟨?_, ?_⟩
  · show Mf m4 = _
    congr 1
    have e1 : m2 = spliceAt b0 doff (o0 ++ o1) := by
      have := spliceAt_spliceAt b0 doff o0 o1 (by omega); rw [l0] at this; exact this
    have e2 : m3 = spliceAt b0 doff ((o0 ++ o1) ++ o2) := by
      have := spliceAt_spliceAt b0 doff (o0 ++ o1) o2 (by rw [List.length_append]; omega)
      rw [List.length_append, l0, l1] at this
      show spliceAt m2 _ _ = _
      rw [e1]; exact this
    have e3 : m4 = spliceAt b0 doff (((o0 ++ o1) ++ o2) ++ o3) := by
      have := spliceAt_spliceAt b0 doff ((o0 ++ o1) ++ o2) o3 (by simp only [List.length_append]; omega)
      simp only [List.length_append, l0, l1, l2] at this
      show spliceAt m3 _ _ = _
      rw [e2]; exact this
    rw [e3]
    simp only [List.append_assoc]
    rfl
  · intro r hr
    have hr' : r = 0 ∨ r = 1 ∨ r = 2 ∨ r = 3 := by omega
    rcases hr' with rfl | rfl | rfl | rfl <;> rfl

end SMGo.Proofs.ISAVal
