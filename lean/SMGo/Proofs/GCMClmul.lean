/-
  The carry-less multiplication pipeline of the GHASH model (`Model.GCM.gmulR`: Karatsuba on three
  64x64 carry-less products, merge of the middle term, two folding steps with GCM_POLY = 0x87) is the
  multiplication of SP 800-38D (`Spec.GCM.mulGF`, Algorithm 1) on bit-reflected operands:
      gmulR h x = rev128 (mulGF (rev128 x) (rev128 h))      (h, x < 2^128).
  Route: (a) rev128 conjugates the one-step map M of the standard into Mr = "multiply by x" in the
  natural bit order; (b) hence rev128 (mulGF x y) = pmulR (rev128 x) (rev128 y), a polynomial in Mr;
  (c) Karatsuba = the full 256-bit carry-less product `clmulN 128`; (d) `reduce` as a linear map `red`
  on 256-bit values agrees with Mr^k on the monomials x^k (kernel computation over k < 256);
  (e) linearity gives red (b <<< i) = Mr^i b and so gmulR h x = pmulR x h.
-/
import SMGo.Proofs.GCMBits
namespace SMGo.Proofs.GCM
open SMGo
open SMGo.Model.GCM
open SMGo.Spec.GCM (mulGF R)

/-! ### multiplication by x in the natural representation -/

def Mr (v : Nat) : Nat := (v * 2) % 2 ^ 128 ^^^ (if v.testBit 127 then 0x87 else 0)

def Mrpow : Nat → Nat → Nat
  | 0, y => y
  | i + 1, y => Mr (Mrpow i y)

theorem isLin_Mr : IsLin Mr := by
  intro a b
  unfold Mr
  rw [ite_testBit_xor]
  have h1 : (a ^^^ b) * 2 = a * 2 ^^^ b * 2 := isLin_mul_two_pow 1 a b
  rw [h1, Nat.xor_mod_two_pow]
  ac_rfl

theorem isLin_Mrpow (i : Nat) : IsLin (Mrpow i) := by
  induction i with
  | zero => exact isLin_id
  | succ i ih => exact isLin_Mr.comp ih

theorem Mrpow_add (i j y : Nat) : Mrpow (i + j) y = Mrpow i (Mrpow j y) := by
  induction i with
  | zero => simp [Mrpow]
  | succ i ih => rw [Nat.add_right_comm, Mrpow, ih, Mrpow]

theorem rev128_R : rev128 R = 0x87 := by decide +kernel

theorem testBit_eq_false_of_lt {v k : Nat} (h : v < 2 ^ 128) (hk : 128 ≤ k) : v.testBit k = false :=
  Nat.testBit_lt_two_pow (Nat.lt_of_lt_of_le h (Nat.pow_le_pow_right (by decide) hk))

theorem rev128_shiftRight_one {v : Nat} (h : v < 2 ^ 128) : rev128 (v >>> 1) = (rev128 v * 2) % 2 ^ 128 := by
  apply Nat.eq_of_testBit_eq; intro k
  have h2 : rev128 v * 2 = rev128 v * 2 ^ 1 := rfl
  rw [h2]
  simp only [rev128, testBit_revBits, Nat.testBit_mod_two_pow, Nat.testBit_mul_two_pow,
    Nat.testBit_shiftRight]
  by_cases hk : k < 128
  · by_cases hk0 : k = 0
    · subst hk0
      simp [testBit_eq_false_of_lt h (Nat.le_refl 128)]
    · have e1 : 1 + (128 - 1 - k) = 128 - 1 - (k - 1) := by omega
      have e2 : k - 1 < 128 := by omega
      have e3 : 1 ≤ k := by omega
      simp [hk, e1, e2, e3]
  · simp [hk]

theorem rev128_M {v : Nat} (h : v < 2 ^ 128) : rev128 (M v) = Mr (rev128 v) := by
  have hb : (rev128 v).testBit 127 = v.testBit 0 := by
    simp [rev128, testBit_revBits]
  unfold M Mr
  rw [hb, Nat.testBit_zero]
  by_cases h0 : v % 2 = 0
  · have : ¬ (v % 2 = 1) := by omega
    simp [h0, rev128_shiftRight_one h]
  · have h1 : v % 2 = 1 := by omega
    rw [if_neg h0]
    have e1 := rev128_shiftRight_one h
    have e2 := rev128_R
    simp only [rev128] at *
    rw [revBits_xor, e1, e2]
    simp [h1]

theorem rev128_Mpow {y : Nat} (h : y < 2 ^ 128) (i : Nat) : rev128 (Mpow i y) = Mrpow i (rev128 y) := by
  induction i with
  | zero => rfl
  | succ i ih => rw [Mpow, Mrpow, rev128_M (Mpow_lt h i), ih]

/-- the product in the natural representation as a polynomial in the one-step map -/
def pmulR (a b : Nat) : Nat := xsum 128 (fun i => if a.testBit i then Mrpow i b else 0)

theorem rev128_mulGF (x : Nat) {y : Nat} (hy : y < 2 ^ 128) :
    rev128 (mulGF x y) = pmulR (rev128 x) (rev128 y) := by
  rw [mulGF_eq_xsum]
  show revBits 128 _ = _
  rw [(isLin_revBits 128).map_xsum]
  unfold pmulR
  apply xsum_congr; intro i hi
  rw [(isLin_revBits 128).ite]
  show (if x.testBit (127 - i) = true then rev128 (Mpow i y) else 0) = _
  rw [rev128_Mpow hy]
  have : (rev128 x).testBit i = x.testBit (127 - i) := by
    simp [rev128, testBit_revBits, hi]
  rw [this]

/-! ### carry-less products -/

/-- the product of the polynomial given by the low `n` bits of `a` with `b` -/
def clmulN (n a b : Nat) : Nat := xsum n (fun i => if a.testBit i then b <<< i else 0)

theorem clmul64_eq (a b : Nat) : clmul64 a b = clmulN 64 a b := rfl

theorem clmulN_xor_left (n a a' b : Nat) : clmulN n (a ^^^ a') b = clmulN n a b ^^^ clmulN n a' b := by
  unfold clmulN
  rw [← xsum_xor]
  apply xsum_congr; intro i _
  exact ite_testBit_xor a a' i _

theorem clmulN_xor_right (n a b b' : Nat) : clmulN n a (b ^^^ b') = clmulN n a b ^^^ clmulN n a b' := by
  unfold clmulN
  rw [← xsum_xor]
  apply xsum_congr; intro i _
  rw [Nat.shiftLeft_xor_distrib]
  cases a.testBit i <;> simp

theorem clmulN_shiftLeft_right (n a b k : Nat) : clmulN n a (b <<< k) = clmulN n a b <<< k := by
  unfold clmulN
  rw [(isLin_shiftLeft k).map_xsum]
  apply xsum_congr; intro i _
  rw [(isLin_shiftLeft k).ite, ← Nat.shiftLeft_add, ← Nat.shiftLeft_add, Nat.add_comm]

theorem clmulN_zero_right (n a : Nat) : clmulN n a 0 = 0 := by
  unfold clmulN
  refine Eq.trans (xsum_congr ?_) (xsum_const_zero n)
  intro i _
  simp

theorem isLin_clmulN_left (n b : Nat) : IsLin (fun a => clmulN n a b) := fun a a' => clmulN_xor_left n a a' b
theorem isLin_clmulN_right (n a : Nat) : IsLin (fun b => clmulN n a b) := fun b b' => clmulN_xor_right n a b b'

theorem clmulN_lt {n a b k : Nat} (hb : b < 2 ^ k) (hn : 0 < n) : clmulN n a b < 2 ^ (k + (n - 1)) := by
  unfold clmulN
  apply xsum_lt_two_pow
  intro i hi
  split
  · rw [Nat.shiftLeft_eq]
    calc b * 2 ^ i < 2 ^ k * 2 ^ i := Nat.mul_lt_mul_of_pos_right hb (Nat.two_pow_pos i)
      _ = 2 ^ (k + i) := (Nat.pow_add 2 k i).symm
      _ ≤ 2 ^ (k + (n - 1)) := Nat.pow_le_pow_right (by decide) (by omega)
  · exact Nat.two_pow_pos _

theorem lo64_lt (v : Nat) : lo64 v < 2 ^ 64 := Nat.mod_lt _ (Nat.two_pow_pos 64)
theorem hi64_lt (v : Nat) : hi64 v < 2 ^ 64 := Nat.mod_lt _ (Nat.two_pow_pos 64)

theorem clmul64_lt (a : Nat) {b : Nat} (hb : b < 2 ^ 64) : clmul64 a b < 2 ^ 127 :=
  clmulN_lt (n := 64) hb (by decide)

theorem xor_congr {a a' b b' : Nat} (h1 : a = a') (h2 : b = b') : a ^^^ b = a' ^^^ b' := by
  rw [h1, h2]

/-- a 128-bit first operand splits into its quadwords -/
theorem clmulN_split_left (a b : Nat) :
    clmulN 128 a b = clmulN 64 (lo64 a) b ^^^ clmulN 64 (hi64 a) b <<< 64 := by
  unfold clmulN
  have e : (128 : Nat) = 64 + 64 := rfl
  rw [e, xsum_add 64 64, (isLin_shiftLeft 64).map_xsum]
  refine xor_congr ?_ ?_
  · apply xsum_congr; intro i hi
    have : (lo64 a).testBit i = a.testBit i := by
      simp only [lo64]
      rw [Nat.testBit_mod_two_pow]
      simp [hi]
    rw [this]
  · apply xsum_congr; intro i hi
    rw [(isLin_shiftLeft 64).ite]
    have : (hi64 a).testBit i = a.testBit (64 + i) := by
      simp only [hi64]
      rw [Nat.testBit_mod_two_pow, Nat.testBit_div_two_pow]
      simp [hi, Nat.add_comm]
    rw [this, ← Nat.shiftLeft_add, Nat.add_comm i 64]

theorem split64 {v : Nat} (h : v < 2 ^ 128) : v = lo64 v ^^^ hi64 v <<< 64 := by
  apply Nat.eq_of_testBit_eq; intro k
  simp only [lo64, hi64, Nat.testBit_xor, Nat.testBit_mod_two_pow, Nat.testBit_shiftLeft,
    Nat.testBit_div_two_pow]
  by_cases hk : k < 64
  · have : ¬ k ≥ 64 := by omega
    simp [hk, this]
  · have h1 : k ≥ 64 := by omega
    by_cases hk2 : k < 128
    · have h2 : k - 64 < 64 := by omega
      have h3 : k - 64 + 64 = k := by omega
      simp [hk, h1, h2, h3]
    · have h2 : ¬ k - 64 < 64 := by omega
      simp [hk, h1, h2, testBit_eq_false_of_lt h (by omega : 128 ≤ k)]

theorem clmulN_split_right (n a : Nat) {b : Nat} (h : b < 2 ^ 128) :
    clmulN n a b = clmulN n a (lo64 b) ^^^ clmulN n a (hi64 b) <<< 64 := by
  conv => lhs; rw [split64 h]
  rw [clmulN_xor_right, clmulN_shiftLeft_right]

theorem xor_cancel_left (a b : Nat) : a ^^^ (a ^^^ b) = b := by
  rw [← Nat.xor_assoc, Nat.xor_self, Nat.zero_xor]

/-- the merge of the middle Karatsuba term into the two halves -/
theorem mid_split (m : Nat) : m <<< 64 = (m / 2 ^ 64) <<< 128 ^^^ m % 2 ^ 64 * 2 ^ 64 := by
  apply Nat.eq_of_testBit_eq; intro k
  simp only [Nat.testBit_xor, Nat.testBit_shiftLeft, Nat.testBit_mul_two_pow, Nat.testBit_div_two_pow,
    Nat.testBit_mod_two_pow]
  by_cases hk : k < 64
  · have h1 : ¬ k ≥ 64 := by omega
    have h2 : ¬ k ≥ 128 := by omega
    have h3 : ¬ 64 ≤ k := by omega
    simp [h1, h2]
  · have h1 : k ≥ 64 := by omega
    by_cases hk2 : k < 128
    · have h2 : ¬ k ≥ 128 := by omega
      have h3 : k - 64 < 64 := by omega
      have h4 : 64 ≤ k := by omega
      simp [h1, h2, h3]
    · have h2 : k ≥ 128 := by omega
      have h3 : ¬ k - 64 < 64 := by omega
      have h4 : k - 128 + 64 = k - 64 := by omega
      simp [h1, h2, h3, h4]

/-- Karatsuba: the two halves returned by the model are the full 256-bit carry-less product -/
theorem karatsuba_eq {h x : Nat} (hh : h < 2 ^ 128) :
    (karatsuba h x).1 <<< 128 ^^^ (karatsuba h x).2 = clmulN 128 x h := by
  rw [clmulN_split_left, clmulN_split_right 64 (lo64 x) hh, clmulN_split_right 64 (hi64 x) hh]
  unfold karatsuba
  simp only [clmul64_eq, clmulN_xor_left, clmulN_xor_right]
  generalize clmulN 64 (lo64 x) (lo64 h) = p00
  generalize clmulN 64 (lo64 x) (hi64 h) = p01
  generalize clmulN 64 (hi64 x) (lo64 h) = p10
  generalize clmulN 64 (hi64 x) (hi64 h) = p11
  have hm : p00 ^^^ p10 ^^^ (p01 ^^^ p11) ^^^ (p11 ^^^ p00) = p01 ^^^ p10 := by
    calc p00 ^^^ p10 ^^^ (p01 ^^^ p11) ^^^ (p11 ^^^ p00)
        = (p00 ^^^ p00) ^^^ (p11 ^^^ p11) ^^^ (p01 ^^^ p10) := by ac_rfl
      _ = p01 ^^^ p10 := by simp
  rw [hm]
  simp only [Nat.shiftLeft_xor_distrib, ← Nat.shiftLeft_add, Nat.reduceAdd]
  have hs := mid_split (p01 ^^^ p10)
  rw [Nat.shiftLeft_xor_distrib] at hs
  generalize ((p01 ^^^ p10) / 2 ^ 64) <<< 128 = A at *
  generalize (p01 ^^^ p10) % 2 ^ 64 * 2 ^ 64 = B at *
  generalize p11 <<< 128 = C
  generalize p01 <<< 64 = D at *
  generalize p10 <<< 64 = E at *
  calc C ^^^ A ^^^ (p00 ^^^ B) = p00 ^^^ (A ^^^ B) ^^^ C := by ac_rfl
    _ = _ := by rw [← hs]; ac_rfl

theorem karatsuba_snd_lt (h x : Nat) : (karatsuba h x).2 < 2 ^ 128 := by
  unfold karatsuba
  apply Nat.xor_lt_two_pow
  · exact Nat.lt_trans (clmul64_lt _ (lo64_lt h)) (Nat.pow_lt_pow_right (by decide) (by decide))
  · have := Nat.mod_lt ((clmul64 (lo64 x ^^^ hi64 x) (lo64 h ^^^ hi64 h) ^^^
        (clmul64 (hi64 x) (hi64 h) ^^^ clmul64 (lo64 x) (lo64 h)))) (Nat.two_pow_pos 64)
    generalize (clmul64 (lo64 x ^^^ hi64 x) (lo64 h ^^^ hi64 h) ^^^
        (clmul64 (hi64 x) (hi64 h) ^^^ clmul64 (lo64 x) (lo64 h))) % 2 ^ 64 = r at *
    omega

/-! ### reduction -/

/-- the two folding steps applied to the high half alone -/
def redH (hi : Nat) : Nat := reduce hi 0

theorem reduce_eq (hi lo : Nat) : reduce hi lo = lo ^^^ redH hi := by
  unfold redH reduce
  simp only [Nat.zero_xor, Nat.xor_assoc]

theorem isLin_lo64 : IsLin lo64 := fun _ _ => by unfold lo64; exact Nat.xor_mod_two_pow
theorem isLin_hi64 : IsLin hi64 := (isLin_mod_two_pow 64).comp (isLin_div_two_pow 64)

theorem isLin_redH : IsLin redH := by
  have hT0 : IsLin (fun v => clmul64 (lo64 v) poly) := (isLin_clmulN_left 64 poly).comp isLin_lo64
  have hT1 : IsLin (fun v => clmul64 (hi64 v) poly) := (isLin_clmulN_left 64 poly).comp isLin_hi64
  have hA : IsLin (fun v => lo64 (clmul64 (hi64 v) poly) * 2 ^ 64) :=
    (isLin_mul_two_pow 64).comp (isLin_lo64.comp hT1)
  have hB : IsLin (fun v => clmul64 (hi64 (clmul64 (hi64 v) poly)) poly) := hT1.comp hT1
  have e : redH = fun v => (clmul64 (lo64 v) poly ^^^ lo64 (clmul64 (hi64 v) poly) * 2 ^ 64)
      ^^^ clmul64 (hi64 (clmul64 (hi64 v) poly)) poly := by
    funext v; unfold redH reduce; simp only [Nat.zero_xor]
  rw [e]; exact (hT0.xor hA).xor hB

/-- `reduce` on a 256-bit value given as one number -/
def red (p : Nat) : Nat := p % 2 ^ 128 ^^^ redH (p / 2 ^ 128)

theorem isLin_red : IsLin red :=
  (isLin_mod_two_pow 128).xor (isLin_redH.comp (isLin_div_two_pow 128))

theorem red_shiftLeft_128 (a : Nat) : red (a <<< 128) = redH a := by
  unfold red
  rw [Nat.shiftLeft_eq, Nat.mul_mod_left, Nat.mul_div_cancel _ (Nat.two_pow_pos 128), Nat.zero_xor]

theorem red_of_lt {b : Nat} (hb : b < 2 ^ 128) : red b = b := by
  unfold red
  rw [Nat.mod_eq_of_lt hb, Nat.div_eq_of_lt hb, isLin_redH.zero, Nat.xor_zero]

/-- kernel computation over the 256 monomials: `red` commutes with multiplication by x -/
theorem red_step_check : ∀ k, k < 255 → red (2 ^ (k + 1)) = Mr (red (2 ^ k)) := by decide +kernel

theorem red_two_pow {k : Nat} (hk : k < 256) : red (2 ^ k) = Mrpow k 1 := by
  induction k with
  | zero => exact red_of_lt (by decide)
  | succ k ih => rw [red_step_check k (by omega), ih (by omega)]; rfl

theorem Mrpow_one {j : Nat} (hj : j < 128) : Mrpow j 1 = 2 ^ j := by
  induction j with
  | zero => rfl
  | succ j ih =>
    rw [Mrpow, ih (by omega)]
    unfold Mr
    have h1 : (2 ^ j).testBit 127 = false := by rw [Nat.testBit_two_pow]; simp; omega
    have h2 : 2 ^ j * 2 = 2 ^ (j + 1) := (Nat.pow_succ 2 j).symm
    rw [h1, h2, Nat.mod_eq_of_lt (Nat.pow_lt_pow_right (by decide) hj)]
    simp

/-- reducing the shifted operand is the iterated one-step map -/
theorem red_shiftLeft {i b : Nat} (hi : i < 128) (hb : b < 2 ^ 128) : red (b <<< i) = Mrpow i b := by
  refine IsLin.ext_of_basis (A := fun b => red (b <<< i)) (B := Mrpow i)
    (isLin_red.comp (isLin_shiftLeft i)) (isLin_Mrpow i) (n := 128) ?_ hb
  intro j hj
  show red (2 ^ j <<< i) = Mrpow i (2 ^ j)
  rw [Nat.shiftLeft_eq, ← Nat.pow_add, red_two_pow (by omega : j + i < 256), Nat.add_comm, Mrpow_add,
    Mrpow_one hj]

theorem gmulR_eq_red {h : Nat} (hh : h < 2 ^ 128) (x : Nat) : gmulR h x = red (clmulN 128 x h) := by
  have e : gmulR h x = reduce (karatsuba h x).1 (karatsuba h x).2 := rfl
  rw [e, reduce_eq, ← karatsuba_eq hh, isLin_red, red_shiftLeft_128, red_of_lt (karatsuba_snd_lt h x),
    Nat.xor_comm]

theorem gmulR_eq_pmulR {h : Nat} (hh : h < 2 ^ 128) (x : Nat) : gmulR h x = pmulR x h := by
  rw [gmulR_eq_red hh]
  unfold clmulN pmulR
  rw [isLin_red.map_xsum]
  apply xsum_congr; intro i hi
  rw [isLin_red.ite, red_shiftLeft hi hh]

/-! ### the multiplier of the assembly is the multiplication of SP 800-38D on reflected operands -/

theorem gmulR_eq_mulGF {h x : Nat} (hh : h < 2 ^ 128) (hx : x < 2 ^ 128) :
    gmulR h x = rev128 (mulGF (rev128 x) (rev128 h)) := by
  rw [rev128_mulGF _ (revBits_lt 128 h)]
  show _ = pmulR (revBits 128 (revBits 128 x)) (revBits 128 (revBits 128 h))
  rw [revBits_revBits hx, revBits_revBits hh]
  exact gmulR_eq_pmulR hh x

theorem gmulR_lt {h x : Nat} (hh : h < 2 ^ 128) (hx : x < 2 ^ 128) : gmulR h x < 2 ^ 128 := by
  rw [gmulR_eq_mulGF hh hx]
  exact revBits_lt 128 _

end SMGo.Proofs.GCM

open SMGo.Proofs.GCM in
#print axioms gmulR_eq_mulGF
