/-
  C15, encodings and affine conversion for the concrete context `Model.SM2.pointCtx`:
  `Sm2CheckOnCurve`, `SetBytes` against `Spec.SM2.parsePoint`, `Bytes` / `Bytes_Unsafe` against
  `Spec.SM2.pointBytes`, `GetAffineX` / `GetAffineX_Unsafe`, and the two round trips.
-/
import SMGo.Proofs.PointRep
import SMGo.Proofs.SM2SignBytes
import SMGo.Spec.SM2Proto

namespace SMGo.Proofs.PointEnc
open SMGo SMGo.Model SMGo.Model.Field SMGo.Spec.SM2
open SMGo.Proofs.CurveGroup SMGo.Proofs.PointField SMGo.Proofs.PointSLPEval SMGo.Proofs.PointAdd
open SMGo.Proofs.PointRep
open SMGo.Model.Point (Pt)

/-! ### CheckOnCurve -/

/-- `Sm2CheckOnCurve` on Montgomery forms of x, y is the specification's curve test -/
theorem checkOnCurve_toMontgomery (x y : Nat) :
    Point.checkOnCurve SM2.pointCtx (SM2.Fp.toMontgomery x) (SM2.Fp.toMontgomery y) = onCurve x y := by
  rw [Bool.eq_iff_iff, onCurve_iff, equation_iff_E, a_cast]
  unfold Point.checkOnCurve
  simp only [decide_eq_true_eq]
  show Field.equal SM2.Fp (SM2.Fp.add (SM2.Fp.sub (SM2.Fp.mul (SM2.Fp.square (SM2.Fp.toMontgomery x))
      (SM2.Fp.toMontgomery x)) (SM2.Fp.add (SM2.Fp.add (SM2.Fp.toMontgomery x) (SM2.Fp.toMontgomery x))
      (SM2.Fp.toMontgomery x))) SM2.pointCtx.b) (SM2.Fp.square (SM2.Fp.toMontgomery y)) = 1 ↔ _
  rw [equal_eq_one, val_add, val_sub, val_mul, val_square, val_add, val_add, val_square, val_b,
    val_toMontgomery, val_toMontgomery]
  constructor <;> intro h <;> linear_combination -h

/-! ### SetBytes -/

theorem parsePoint_valid {b : Bytes} {Q : Spec.SM2.Point} (h : parsePoint b = some Q) : Valid Q := by
  unfold parsePoint at h
  dsimp only at h
  split at h
  · injection h with h; subst h; exact valid_none
  · split at h
    · split at h
      · rename_i hc
        injection h with h; subst h
        exact hc
      · cases h
    · cases h

theorem infinity_cond (b : Bytes) : (b.length = 1 ∧ b.head? = some 0) ↔ b = [0] := by
  constructor
  · rintro ⟨hl, hh⟩
    match b, hl, hh with
    | [a], _, hh => simp at hh; rw [hh]
  · rintro rfl; exact ⟨rfl, rfl⟩

/-- **decoding**: `SetBytes` accepts exactly what `parsePoint` accepts (the one-byte infinity
    encoding, or 65 bytes `04 ‖ x ‖ y` with canonical on-curve coordinates), never panics, and
    returns the canonical representative (x̃ : ỹ : 1̃) resp. (0 : 1̃ : 0) -/
theorem setBytes_eq (b : Bytes) :
    Point.setBytes SM2.pointCtx b =
      match parsePoint b with
      | some Q => .ok (ofSpec Q)
      | none => .err := by
  unfold Point.setBytes parsePoint
  by_cases h0 : b = [0]
  · rw [if_pos ((infinity_cond b).mpr h0), if_pos h0]
    rfl
  · rw [if_neg (fun h => h0 ((infinity_cond b).mp h)), if_neg h0]
    by_cases h65 : b.length = 65 ∧ b.head? = some 4
    · rw [if_pos h65, if_pos h65]
      have l1 : ((b.drop 1).take 32).length = 32 := by
        rw [List.length_take, List.length_drop]; omega
      have l2 : (b.drop 33).length = 32 := by rw [List.length_drop]; omega
      have ex : Field.setBytes SM2.Fp ((b.drop 1).take 32) =
          if Bytes.toNatBE ((b.drop 1).take 32) < p then
            .ok (SM2.Fp.toMontgomery (Bytes.toNatBE ((b.drop 1).take 32))) else .err := by
        rw [PointField.setBytes_eq]; simp only [l1, true_and]
      have ey : Field.setBytes SM2.Fp (b.drop 33) =
          if Bytes.toNatBE (b.drop 33) < p then
            .ok (SM2.Fp.toMontgomery (Bytes.toNatBE (b.drop 33))) else .err := by
        rw [PointField.setBytes_eq]; simp only [l2, true_and]
      show (Field.setBytes SM2.Fp ((b.drop 1).take 32) >>= fun x =>
            Field.setBytes SM2.Fp (b.drop 33) >>= fun y =>
              if Point.checkOnCurve SM2.pointCtx x y = true then
                Outcome.ok ({ x := x, y := y, z := SM2.Fp.setOne } : Pt Nat) else Outcome.err) =
          match (if Bytes.toNatBE ((b.drop 1).take 32) < p ∧ Bytes.toNatBE (b.drop 33) < p ∧
                onCurve (Bytes.toNatBE ((b.drop 1).take 32)) (Bytes.toNatBE (b.drop 33)) = true
              then some (some (Bytes.toNatBE ((b.drop 1).take 32), Bytes.toNatBE (b.drop 33))) else none) with
          | some Q => Outcome.ok (ofSpec Q)
          | none => Outcome.err
      rw [ex, ey]
      by_cases hx : Bytes.toNatBE ((b.drop 1).take 32) < p
      · rw [if_pos hx, Outcome.bind_ok]
        by_cases hy : Bytes.toNatBE (b.drop 33) < p
        · rw [if_pos hy, Outcome.bind_ok, checkOnCurve_toMontgomery]
          by_cases hc : onCurve (Bytes.toNatBE ((b.drop 1).take 32)) (Bytes.toNatBE (b.drop 33)) = true
          · rw [if_pos hc, if_pos ⟨hx, hy, hc⟩]
            rfl
          · rw [if_neg hc, if_neg (fun h => hc h.2.2)]
        · rw [if_neg hy, Outcome.bind_err, if_neg (fun h => hy h.2.1)]
      · rw [if_neg hx, Outcome.bind_err, if_neg (fun h => hx h.1)]
    · rw [if_neg h65, if_neg h65]

/-- the same with the representation made explicit -/
theorem setBytes_spec (b : Bytes) :
    match parsePoint b with
    | some Q => ∃ P, Point.setBytes SM2.pointCtx b = .ok P ∧ P = ofSpec Q ∧ Rep P Q
    | none => Point.setBytes SM2.pointCtx b = .err := by
  rw [setBytes_eq]
  cases h : parsePoint b with
  | none => rfl
  | some Q => exact ⟨ofSpec Q, rfl, rfl, ofSpec_rep (parsePoint_valid h)⟩

/-! ### Bytes, GetAffineX -/

theorem pointCtx_F : SM2.pointCtx.F = SM2.Fp := rfl

/-- the plain value of a field element with value `(x : F_p)`, x reduced -/
theorem fromMont_of_val {e x : Nat} (hx : x < p) (h : val e = (x : ZMod p)) : e * rinv % p = x := by
  rw [fromMontgomery_eq_val, h, ZMod.val_cast_of_lt hx]

/-- safe affine coordinate: X · Invert(Z) -/
theorem safe_coord {X Z x : Nat} (hx : x < p) (h : val X * (val Z)⁻¹ = (x : ZMod p)) :
    SM2.Fp.mul X (Field.invert SM2.Fp Z) * rinv % p = x := by
  apply fromMont_of_val hx
  rw [val_mul, val_invert, h]

/-- unsafe affine coordinate: X · ModInverse(Z, p) mod p on big integers -/
theorem unsafe_coord {X Z x : Nat} (hx : x < p) (h : val X * (val Z)⁻¹ = (x : ZMod p)) :
    Field.toNat SM2.Fp X * invMod (Field.toNat SM2.Fp Z) p % p = x := by
  apply (cast_inj (Nat.mod_lt _ p_pos) hx).mp
  rw [ZMod.natCast_mod, Nat.cast_mul, invMod_cast_p, cast_toNat, cast_toNat, h]

/-- **encoding**: both `Bytes` (Fermat inverse, constant time) and `Bytes_Unsafe`
    (`big.Int.ModInverse`) return the SEC1 encoding of the represented point -/
theorem bytes_rep {P : Pt Nat} {Q : Spec.SM2.Point} (h : Rep P Q) :
    Point.bytes SM2.pointCtx P true = pointBytes Q ∧ Point.bytes SM2.pointCtx P false = pointBytes Q := by
  unfold Point.bytes
  simp only [pointCtx_F, Fp_modulus]
  rcases Q with _ | ⟨x, y⟩
  · have hz := (isZero_eq_one P.z).mpr h.inf_z
    simp only [hz, if_true]
    exact ⟨rfl, rfl⟩
  · obtain ⟨hz, hx, hy, eX, eY⟩ := h.affine
    have hz' : ¬ Field.isZero SM2.Fp P.z = 1 := fun hc => hz ((isZero_eq_one P.z).mp hc)
    simp only [hz', if_false, if_true, Bool.false_eq_true]
    constructor
    · rw [bytes_eq, bytes_eq, safe_coord hx eX, safe_coord hy eY]
      rfl
    · rw [unsafe_coord hx eX, unsafe_coord hy eY,
        SM2SignBytes.pad32_ofNatMin x (lt_256_32 hx), SM2SignBytes.pad32_ofNatMin y (lt_256_32 hy)]
      rfl

/-- the constant-time and the fast conversion agree -/
theorem bytes_safe_eq_unsafe {P : Pt Nat} {Q : Spec.SM2.Point} (h : Rep P Q) :
    Point.bytes SM2.pointCtx P true = Point.bytes SM2.pointCtx P false := by
  rw [(bytes_rep h).1, (bytes_rep h).2]

/-- affine x-coordinate of a specification point (0 at infinity) -/
def affX : Spec.SM2.Point → Nat
  | none => 0
  | some (x, _) => x

/-- `GetAffineX` and `GetAffineX_Unsafe` both return x (0 at infinity) -/
theorem getAffineX_rep {P : Pt Nat} {Q : Spec.SM2.Point} (h : Rep P Q) :
    Point.getAffineX SM2.pointCtx P = affX Q ∧ Point.getAffineXUnsafe SM2.pointCtx P = affX Q := by
  unfold Point.getAffineX Point.getAffineXUnsafe
  simp only [pointCtx_F, Fp_modulus]
  rcases Q with _ | ⟨x, y⟩
  · have hz := (isZero_eq_one P.z).mpr h.inf_z
    simp only [hz, if_true]
    exact ⟨rfl, rfl⟩
  · obtain ⟨hz, hx, hy, eX, eY⟩ := h.affine
    have hz' : ¬ Field.isZero SM2.Fp P.z = 1 := fun hc => hz ((isZero_eq_one P.z).mp hc)
    simp only [hz', if_false]
    exact ⟨by rw [toNat_eq, safe_coord hx eX]; rfl, by rw [unsafe_coord hx eX]; rfl⟩

/-! ### round trips -/

/-- decoding the encoding of a valid point gives that point back -/
theorem parsePoint_pointBytes {Q : Spec.SM2.Point} (hQ : Valid Q) : parsePoint (pointBytes Q) = some Q := by
  rcases Q with _ | ⟨x, y⟩
  · rfl
  · obtain ⟨hx, hy, hc⟩ := hQ
    unfold parsePoint pointBytes
    have hlen : ([4] ++ Bytes.ofNatBE 32 x ++ Bytes.ofNatBE 32 y).length = 65 := by
      simp [SM2SignBytes.ofNatBE_length]
    have hne : ([4] ++ Bytes.ofNatBE 32 x ++ Bytes.ofNatBE 32 y) ≠ [0] := by
      intro h; rw [h] at hlen; simp at hlen
    have lx : (Bytes.ofNatBE 32 x).length = 32 := SM2SignBytes.ofNatBE_length _ _
    have d1 : (([4] ++ Bytes.ofNatBE 32 x ++ Bytes.ofNatBE 32 y).drop 1).take 32 = Bytes.ofNatBE 32 x := by
      simp [lx]
    have d2 : ([4] ++ Bytes.ofNatBE 32 x ++ Bytes.ofNatBE 32 y).drop 33 = Bytes.ofNatBE 32 y := by
      have : ([4] ++ Bytes.ofNatBE 32 x ++ Bytes.ofNatBE 32 y) = ([4] ++ Bytes.ofNatBE 32 x) ++ Bytes.ofNatBE 32 y := rfl
      rw [this, List.drop_append_of_le_length (by simp [lx])]
      have l33 : ([4] ++ Bytes.ofNatBE 32 x).length = 33 := by simp [lx]
      rw [List.drop_of_length_le (by omega)]
      rfl
    rw [if_neg hne, if_pos ⟨hlen, rfl⟩, d1, d2,
      SM2SignBytes.toNatBE_ofNatBE 32 x (lt_256_32 hx), SM2SignBytes.toNatBE_ofNatBE 32 y (lt_256_32 hy),
      if_pos ⟨hx, hy, hc⟩]

/-- an accepted encoding is the encoding of the parsed point (encodings are unique) -/
theorem pointBytes_parsePoint {b : Bytes} {Q : Spec.SM2.Point} (h : parsePoint b = some Q) :
    pointBytes Q = b := by
  unfold parsePoint at h
  dsimp only at h
  split at h
  · rename_i h0
    injection h with h; subst h; rw [h0]; rfl
  · split at h
    · rename_i h65
      split at h
      · injection h with h; subst h
        unfold pointBytes
        have l1 : ((b.drop 1).take 32).length = 32 := by
          rw [List.length_take, List.length_drop]; omega
        have l2 : (b.drop 33).length = 32 := by rw [List.length_drop]; omega
        have e1 := SM2SignBytes.ofNatBE_toNatBE ((b.drop 1).take 32)
        have e2 := SM2SignBytes.ofNatBE_toNatBE (b.drop 33)
        rw [l1] at e1; rw [l2] at e2
        show [4] ++ Bytes.ofNatBE 32 _ ++ Bytes.ofNatBE 32 _ = b
        rw [e1, e2]
        obtain ⟨hl, hh⟩ := h65
        match b, hl, hh with
        | a :: t, hl, hh =>
          simp only [List.head?_cons, Option.some.injEq] at hh
          subst hh
          simp only [List.drop_succ_cons, List.drop_zero, List.cons_append, List.nil_append, List.cons.injEq,
            true_and]
          rw [List.take_append_drop]
      · cases h
    · cases h

/-- **encode then decode**: `SetBytes(Bytes(P))` is the canonical representative of the same point -/
theorem setBytes_bytes {P : Pt Nat} {Q : Spec.SM2.Point} (h : Rep P Q) (safe : Bool) :
    Point.setBytes SM2.pointCtx (Point.bytes SM2.pointCtx P safe) = .ok (ofSpec Q) ∧ Rep (ofSpec Q) Q := by
  have hb : Point.bytes SM2.pointCtx P safe = pointBytes Q := by
    cases safe
    · exact (bytes_rep h).2
    · exact (bytes_rep h).1
  rw [hb, setBytes_eq, parsePoint_pointBytes h.valid]
  exact ⟨rfl, ofSpec_rep h.valid⟩

/-- **decode then encode**: an accepted encoding is reproduced byte for byte (both variants) -/
theorem bytes_setBytes {b : Bytes} {P : Pt Nat} (h : Point.setBytes SM2.pointCtx b = .ok P) (safe : Bool) :
    Point.bytes SM2.pointCtx P safe = b := by
  rw [setBytes_eq] at h
  cases hp : parsePoint b with
  | none => rw [hp] at h; cases h
  | some Q =>
    rw [hp] at h
    injection h with h
    subst h
    have hr := ofSpec_rep (parsePoint_valid hp)
    have hb : Point.bytes SM2.pointCtx (ofSpec Q) safe = pointBytes Q := by
      cases safe
      · exact (bytes_rep hr).2
      · exact (bytes_rep hr).1
    rw [hb, pointBytes_parsePoint hp]

/-- what is rejected: everything that `parsePoint` rejects (wrong length or prefix, compressed
    forms, non-canonical coordinates, points off the curve), with an error, not a panic -/
theorem setBytes_rejects {b : Bytes} (h : parsePoint b = none) : Point.setBytes SM2.pointCtx b = .err := by
  rw [setBytes_eq, h]

end SMGo.Proofs.PointEnc
