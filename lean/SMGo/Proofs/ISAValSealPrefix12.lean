import SMGo.Proofs.ISAValFusedPrefix12
import SMGo.Proofs.ISAValSealPrefix
set_option linter.unusedSimpArgs false
namespace SMGo.Proofs.ISAVal
open SMGo.Model.ISAVal SMGo.Model.GCM SMGo.Proofs.GCM SMGo.Proofs.ISATouch
open SMGo.Model.ISA (Reg Opd Instr)

theorem memEnv_fmem (nm : String) (w : Bool) (rk dst nonce inp aad tmp : List Nat) (hrk : rk.length = 32)
    (hnl : nonce.length < 2 ^ 32) (hal : aad.length < 2 ^ 32) :
    MemEnv (fmem nm w rk dst nonce inp aad tmp) rk 81604378624 90194313216 nonce aad :=
  ⟨fmem_sym_and .., fmem_sym_lower .., fmem_sym_shuffle .., fmem_sym_pre .., fmem_sym_post .., fmem_sym_add1 .., fmem_sym_add2 ..,
    fmem_sym_add3 .., fmem_sym_poly .., fmem_sym_idx .., fmem_sym_h01 .., fmem_sym_h23 .., fmem_sym_shuffle1 .., fmem_sym_shuffle2 ..,
    fun i hi => fmem_read_rk nm w rk dst nonce inp aad tmp hrk i hi,
    fun off n hn => fmem_read_nonce nm w rk dst nonce inp aad tmp off n hn (by omega),
    fun off n hn => fmem_read_aad nm w rk dst nonce inp aad tmp off n hn (by omega)⟩

/-- the memories of the fused routines that differ in the scratch buffer form a family -/
theorem memFam_fmem (nm : String) (w : Bool) (rk dst nonce inp aad : List Nat) (hrk : rk.length = 32)
    (hnl : nonce.length < 2 ^ 32) (hal : aad.length < 2 ^ 32) :
    MemFam (fun t => fmem nm w rk dst nonce inp aad t) 94489280512 rk 81604378624 90194313216 nonce aad :=
  ⟨⟨fun b off n hb hn => fmem_read_tmp nm w rk dst nonce inp aad b off n (by omega) (by omega),
    fun b off bs hb hn => fmem_write_tmp nm w rk dst nonce inp aad b off bs (by omega) (by omega)⟩,
   fun t _ => memEnv_fmem nm w rk dst nonce inp aad t hrk hnl hal⟩

theorem seal_copyLabels : SPreCopyLabels sealR :=
  ⟨label_findPc seal_labels (name := "SPre.copy8") (by decide), label_findPc seal_labels (name := "SPre.copy4") (by decide),
   label_findPc seal_labels (name := "SPre.copy2") (by decide), label_findPc seal_labels (name := "SPre.copy1") (by decide),
   label_findPc seal_labels (name := "SPre.copyEnd") (by decide)⟩

/-- **`sealAsm`, instructions 0 … 1498, on its entry state**, for a 12-byte nonce and any additional data -/
theorem seal_prefix12 (g v k rk : List Nat) (t : Nat) (dst nonce pt aad tmp : List Nat)
    (hG : g.length = 16) (hV : v.length = 32) (hK : k.length = 8) (hrk : rk.length = 32) (hrkb : ∀ x ∈ rk, x < 2 ^ 32)
    (hn : nonce.length = 12) (hnb : ∀ x ∈ nonce, x < 2 ^ 8) (hab : ∀ x ∈ aad, x < 2 ^ 8) (hall : aad.length < 2 ^ 32)
    (htmp : tmp.length = 32) :
    ∃ s5 N, N ≤ 34 * (aad.length / 16) + 1400 ∧ Reach sealR 0 (sealState g v k rk t dst nonce pt aad tmp) 1499 s5 N ∧
      AfterPre (fun b => fmem "plaintext" false rk dst nonce pt aad b) rk nonce aad (nonce ++ [0, 0, 0, 1])
        81604378624 94489280512 90194313216 s5 ∧ s5.frame = (sealState g v k rk t dst nonce pt aad tmp).frame := by
  have e := fenv_of (sealState g v k rk t dst nonce pt aad tmp) "plaintext" false rk dst nonce pt aad tmp (seal_mem ..) (seal_syms ..)
    (by simp [sealState, mkState, lookup]; rfl) (by simp [sealState, mkState, lookup]; rfl) (by simp [sealState, mkState, lookup])
    (by simp [sealState, mkState, lookup]; rfl) (by simp [sealState, mkState, lookup]; rfl) (by simp [sealState, mkState, lookup])
    hrk (by omega) hall
  exact prefix_nonce12 sealR seal_prefix_slices ⟨seal_lJ, seal_sPreLabels, seal_copyLabels⟩ _ hG hV hK rk nonce aad _ _ _ e _
    (memFam_fmem "plaintext" false rk dst nonce pt aad hrk (by omega) hall) tmp htmp (seal_mem ..) hrk hrkb hn hnb (by decide) hab
    (by omega) (by decide)

end SMGo.Proofs.ISAVal
