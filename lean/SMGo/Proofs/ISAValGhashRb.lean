import SMGo.Proofs.ISAValGhashMul
namespace SMGo.Proofs.ISAVal
open SMGo.Model.ISAVal SMGo.Model.ISA SMGo.Model.GCM SMGo.Proofs.GCM

/-- AND_MASK broadcast by VBROADCASTI32X2 to a Z register -/
def AND64 : Nat := unlanes 64 (List.replicate (64 / 8) (unlanes 8 (Gen.AsmData.amd64_AND_MASK.take 8)))
/-- LOWER_MASK broadcast by VBROADCASTI32X4 to a Z register -/
def LOW4 : Nat := unlanes 128 (List.replicate (64 / 16) (unlanes 8 Gen.AsmData.amd64_LOWER_MASK))
/-- HIGHER_MASK = VPSLLQ $4 of it -/
def HIGH4 : Nat := map1 64 (64 / 8) (fun x => (x <<< (imm64 4 % 256)) % 2 ^ 64) LOW4

theorem and64_bytes : ∀ J, J < 64 → lane 8 J AND64 = 15 := by decide +kernel
theorem low4_lanes : ∀ l, l < 4 → lanes 8 16 (lane 128 l LOW4) = Gen.AsmData.amd64_LOWER_MASK := by decide +kernel
theorem high4_lanes : ∀ l, l < 4 → lanes 8 16 (lane 128 l HIGH4) = Gen.AsmData.amd64_LOWER_MASK.map (· * 16) := by
  decide +kernel

/-- `reverseBits` on one 128-bit lane: every byte bit-reversed -/
def rb128 (x : Nat) : Nat := unlanes 8 ((lanes 8 16 x).map rev8N)

theorem lane128_revBitsV (vl x l : Nat) (hvl : validVl vl = true) (hl : l < vl / 16) :
    lane 128 l (revBitsV vl x AND64 LOW4 HIGH4) = rb128 (lane 128 l x) := by
  have hvl' : vl = 16 ∨ vl = 32 ∨ vl = 64 := by
    simpa only [validVl, Bool.or_eq_true, beq_iff_eq, or_assoc] using hvl
  have hvl16 : vl % 16 = 0 := by omega
  have hl4 : l < 4 := by omega
  have e : lane 128 l (revBitsV vl x AND64 LOW4 HIGH4)
      = unlanes 8 (lanes 8 16 (lane 128 l (revBitsV vl x AND64 LOW4 HIGH4))) := by
    rw [unlanes_lanes, Nat.mod_eq_of_lt (lane_lt 128 l _)]
  rw [e, rb128]
  congr 1
  apply List.ext_getElem
  · simp [lanes_length]
  · intro j h1 _
    have hj : j < 16 := by simpa [lanes_length] using h1
    rw [List.getElem_map, getElem_lanes, getElem_lanes, lane_lane' 128 8 16 j l _ (by decide) hj,
      lane_lane' 128 8 16 j l _ (by decide) hj]
    have hJ : 16 * l + j < vl := by omega
    have hJl : (16 * l + j) / 16 = l := by omega
    exact byte_revBitsV vl x AND64 LOW4 HIGH4 (16 * l + j) hvl16 hJ (and64_bytes _ (by omega))
      (by rw [hJl]; exact low4_lanes l hl4) (by rw [hJl]; exact high4_lanes l hl4)

/-- macro `reverseBits(V, And=V22, Higher=V24, Lower=V23, T0, T1)` -/
def rbCode (vl V t0 t1 : Nat) : List DInstr :=
  [ins .VPSRLW [.imm 4, R V, R t0] vl,
   ins .VPANDD [R V, R 22, R t1] vl,
   ins .VPANDD [R t0, R 22, R t0] vl,
   ins .VPSHUFB [R t1, R 24, R t1] vl,
   ins .VPSHUFB [R t0, R 23, R t0] vl,
   ins .VPXORD [R t0, R t1, R V] vl]

theorem imm_4 : imm64 4 % 256 = 4 := by decide +kernel

set_option maxRecDepth 100000 in
set_option maxHeartbeats 1000000 in
theorem rb_spec (vl V t0 t1 : Nat) (hvl : validVl vl = true)
    (hinst : (V ∈ [19, 21, 14] ∧ t0 = 1 ∧ t1 = 2) ∨ (V ∈ [20, 6, 7, 8, 9] ∧ t0 = 0 ∧ t1 = 1))
    (s : State) (hV : s.vec.length = 32)
    (h22 : vreg s 22 = AND64) (h23 : vreg s 23 = LOW4) (h24 : vreg s 24 = HIGH4) :
    ∃ s', execList (rbCode vl V t0 t1) s = .ok s' ∧ VecOnly V s s' ∧ vreg s' V < 2 ^ (8 * vl) ∧
      ∀ l, l < vl / 16 → lane 128 l (vreg s' V) = rb128 (lane 128 l (vreg s V)) := by
  obtain ⟨gpr, vec, k, fl, mem, syms, frame⟩ := s
  simp only at hV
  obtain ⟨b0, b1, b2, b3, b4, b5, b6, b7, b8, b9, b10, b11, b12, b13, b14, b15, b16, b17, b18, b19, b20, b21, b22, b23, b24, b25, b26, b27, b28, b29, b30, b31, rfl⟩ := list32 vec hV
  simp only [vreg, List.getD_cons_succ, List.getD_cons_zero] at h22 h23 h24
  subst h22 h23 h24
  simp only [List.mem_cons, List.not_mem_nil, or_false] at hinst
  rcases hinst with ⟨rfl | rfl | rfl, rfl, rfl⟩ | ⟨rfl | rfl | rfl | rfl | rfl, rfl, rfl⟩
  all_goals
    apply Exists.intro
    apply And.intro
    · unfold rbCode
      gstep; gstep; gstep; gstep; gstep; gstep
      exact execList_nil _
    · simp only [List.set_cons_succ, List.set_cons_zero]
      refine ⟨⟨rfl, rfl, rfl, rfl, rfl, rfl, rfl, by keep_tac⟩, ?_, ?_⟩
      · simp only [vreg, List.getD_cons_succ, List.getD_cons_zero]
        exact vpxord_lt vl _ _ (by
          have : vl = 16 ∨ vl = 32 ∨ vl = 64 := by
            simpa only [validVl, Bool.or_eq_true, beq_iff_eq, or_assoc] using hvl
          omega)
      · intro l hl
        simp only [vreg, List.getD_cons_succ, List.getD_cons_zero]
        simp only [imm_4]
        exact lane128_revBitsV vl _ l hvl hl

end SMGo.Proofs.ISAVal
