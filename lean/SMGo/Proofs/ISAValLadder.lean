import SMGo.Proofs.ISAValLadN
set_option linter.unusedSimpArgs false
set_option linter.unusedVariables false
set_option linter.unusedSectionVars false
namespace SMGo.Proofs.ISAVal
open SMGo.Model.ISAVal SMGo.Model.GCM SMGo.Proofs.GCM SMGo.Proofs.ISATouch
open SMGo.Model.ISA (Reg Opd Instr)

/-- from a class label to the end of the ladder: the result is `ladN` on the remaining input -/
def LadDone (r : Routine) (kL : Nat) (M2 : List Nat → List Nat → List Region) (dlen : Nat) (rk jb src : List Nat) (h hf : Nat)
    (k : Nat) (B : Nat) (fb : Nat) (c y : Nat) (dc : List Nat) (s : State) : Prop :=
  ∃ s' N, N ≤ B ∧ Reach r k s (kL + 3770) s' N ∧
    ∀ fuel, fb ≤ fuel → LadEnd M2 dlen h (ladN rk jb h hf fuel c y (src.drop (16 * c))).2
      (spliceAt dc (16 * c) (ladN rk jb h hf fuel c y (src.drop (16 * c))).1) s s'

theorem LadDone.mono {r : Routine} {kL : Nat} {M2 : List Nat → List Nat → List Region} {dlen : Nat} {rk jb src : List Nat} {h hf k B fb c y : Nat}
    {dc : List Nat} {s : State} (d : LadDone r kL M2 dlen rk jb src h hf k B fb c y dc s) (B' fb' : Nat) (hB : B ≤ B') (hf' : fb ≤ fb') :
    LadDone r kL M2 dlen rk jb src h hf k B' fb' c y dc s := by
  obtain ⟨s', N, hN, r1, e⟩ := d
  exact ⟨s', N, by omega, r1, fun fuel hfu => e fuel (by omega)⟩

/-- a class step followed by the rest of the ladder -/
theorem lad_combine (r : Routine) (kL : Nat) (M2 : List Nat → List Nat → List Region) (dlen : Nat) (rk jb src : List Nat) (h hf : Nat)
    (n k k1 : Nat) (hn0 : n ≠ 0) (c y y1 : Nat) (dc : List Nat) (s s1 : State) (N1 B fb : Nat)
    (hcls : classOf (src.length - 16 * c) = n) (h16 : 16 * c + 16 * n ≤ src.length) (hdc : dc.length = dlen) (hsl : src.length ≤ dlen)
    (r1 : Reach r k s k1 s1 N1) (kp : KeepsM ladKeepG ladKeepV (List.range 8) s s1)
    (hy : y1 = if hf = 0 then y else hashClassN h n y (xorN ((src.drop (16 * c)).take (16 * n)) (ksN rk jb c n)))
    (d1 : LadDone r kL M2 dlen rk jb src h hf k1 B fb (c + n) y1
      (spliceAt dc (16 * c) (xorN ((src.drop (16 * c)).take (16 * n)) (ksN rk jb c n))) s1) :
    LadDone r kL M2 dlen rk jb src h hf k (N1 + B) (fb + 1) c y dc s := by
  obtain ⟨s', N, hN, r2, e⟩ := d1
  refine ⟨s', N1 + N, by omega, r1.trans r2, ?_⟩
  intro fuel hfu
  obtain ⟨f, rfl⟩ : ∃ f, fuel = f + 1 := ⟨fuel - 1, by omega⟩
  have e1 := e f (by omega)
  rw [ladN_class rk jb h hf f c y (src.drop (16 * c)) n (by rw [List.length_drop]; exact hcls) hn0]
  have hd : (src.drop (16 * c)).drop (16 * n) = src.drop (16 * (c + n)) := by rw [List.drop_drop]; congr 1; omega
  rw [hd, ← hy]
  have hol : (xorN ((src.drop (16 * c)).take (16 * n)) (ksN rk jb c n)).length = 16 * n := by
    rw [xorN_length, ksN_length, List.length_take, List.length_drop]; omega
  have hsp : spliceAt (spliceAt dc (16 * c) (xorN ((src.drop (16 * c)).take (16 * n)) (ksN rk jb c n))) (16 * (c + n))
      (ladN rk jb h hf f (c + n) y1 (src.drop (16 * (c + n)))).1
      = spliceAt dc (16 * c) (xorN ((src.drop (16 * c)).take (16 * n)) (ksN rk jb c n) ++ (ladN rk jb h hf f (c + n) y1 (src.drop (16 * (c + n)))).1) := by
    have := spliceAt_spliceAt' dc (16 * c) (xorN ((src.drop (16 * c)).take (16 * n)) (ksN rk jb c n))
      (ladN rk jb h hf f (c + n) y1 (src.drop (16 * (c + n)))).1 (by rw [hol, hdc]; omega)
    rw [hol, show 16 * c + 16 * n = 16 * (c + n) from by omega] at this
    exact this
  rw [hsp] at e1
  exact LadEnd.of_keeps kp e1

theorem ctrW_zero (W : Nat × Nat × Nat × Nat) (hW : QLt W) : ctrW W 0 = W := by
  unfold ctrW
  rw [Nat.add_zero, Nat.mod_eq_of_lt hW.2.2.2]

theorem head_writes : writesNone headCode [0, 1, 2, 3, 4, 5, 6, 7, 8, 9, 10, 11, 13, 14, 15]
    [4, 5, 9, 10, 11, 12, 13, 15, 16, 17, 18, 19, 20, 21, 22, 23, 24, 25, 26, 27, 28, 29, 30, 31] (List.range 8) = true := by decide +kernel

theorem Wblk_of_lanes (jb : List Nat) (hjb : jb.length = 16) (hjbb : ∀ x ∈ jb, x < 2 ^ 8) :
    (bswap32 (lane 32 0 (unlanes 8 jb)), bswap32 (lane 32 1 (unlanes 8 jb)), bswap32 (lane 32 2 (unlanes 8 jb)),
      bswap32 (lane 32 3 (unlanes 8 jb))) = Wblk jb 0 := by
  have hl : ∀ t, t < 4 → bswap32 (lane 32 t (unlanes 8 jb)) = wordAt jb (4 * t) := by
    intro t ht
    rw [laneJ_unlanes 32 8 4 t (by rfl) jb hjbb (by omega)]; rfl
  rw [hl 0 (by decide), hl 1 (by decide), hl 2 (by decide), hl 3 (by decide)]
  rfl


section
variable (r : Routine) (kL b : Nat) (sl : LadSlices r kL b) (lb : LadLabels r kL b)
  (M2 : List Nat → List Nat → List Region) (dbase dlen tp sp : Nat) (rk jb src : List Nat) (lm : LadMem M2 dbase dlen tp rk src sp)
  (hrk : rk.length = 32) (hrkb : ∀ x ∈ rk, x < 2 ^ 32) (hjb : jb.length = 16) (hjbb : ∀ x ∈ jb, x < 2 ^ 8) (hsb : ∀ x ∈ src, x < 2 ^ 8)
  (hsp : sp + src.length < 2 ^ 63) (hdb : dbase + dlen < 2 ^ 63) (hsl : src.length ≤ dlen) (htp : tp + 32 < 2 ^ 63)
  (toff h hf : Nat) (hhf : hf < 2 ^ 63) (hto : toff = 0 ∨ toff = 16)

/-- a guard that is not passed: on to the next label -/
theorem lad_skip (k kn pc : Nat) (sz : Nat) (ci : Int) (hci : imm64 ci = sz) (hsz : sz < 2 ^ 63) (rest : List DInstr)
    (hs : Slice r k ([ins .CMPQ [G 9, .imm ci] 0, ins .JLT [.target pc] 0] ++ rest)) (hl : findPc r pc = some (r.drop kn))
    (nl c y : Nat) (dc tc : List Nat) (s : State)
    (st : LadSt M2 dbase dlen tp sp toff (Wblk jb 0) h hf src nl c y dc tc s) (hlen : src.length - 16 * c < sz) :
    ∃ s', Reach r k s kn s' 2 ∧ LadSt M2 dbase dlen tp sp toff (Wblk jb 0) h hf src nl c y dc tc s' ∧
      KeepsM ladKeepG ladKeepV (List.range 8) s s' := by
  have r0 := guard_reach (idx := kn) hs.left rfl hl s (by rw [st.pc.lenG]; decide) (src.length - 16 * c) sz st.g9 hci true
    (by rw [cond_jlt _ _ (by omega) hsz]; simp; omega)
  simp only [if_true] at r0
  have k0 : KeepsM (List.range 16) (List.range 32) (List.range 8) s (setFlags s (subF 8 (src.length - 16 * c) sz).2) :=
    keepsM_setFlags _ _ _ s _
  exact ⟨_, r0, ⟨st.pc.of_keepsM k0 (by decide), st.gh.of_keepsM k0 (by decide), st.rkp, st.g0, st.g9, st.g10, st.g13, st.g6, st.ctr,
    st.acc, st.acclt, st.mem, st.hdc, st.htc, st.srcOK⟩, k0.mono (by decide) (by decide) (fun _ h => h)⟩

theorem LadDone.after {k k1 B fb c y N1 : Nat} {dc : List Nat} {s s1 : State} (r1 : Reach r k s k1 s1 N1)
    (kp : KeepsM ladKeepG ladKeepV (List.range 8) s s1) (d : LadDone r kL M2 dlen rk jb src h hf k1 B fb c y dc s1) :
    LadDone r kL M2 dlen rk jb src h hf k (N1 + B) fb c y dc s := by
  obtain ⟨s', N, hN, r2, e⟩ := d
  exact ⟨s', N1 + N, by omega, r1.trans r2, fun fuel hfu => LadEnd.of_keeps kp (e fuel hfu)⟩

include sl lb lm hrk hrkb hjb hjbb hsb hsp hdb hsl htp hhf hto

theorem lad_t0 (c y : Nat) (dc tc : List Nat) (s : State)
    (st : LadSt M2 dbase dlen tp sp toff (Wblk jb 0) h hf src 1 c y dc tc s) (hc : 16 * c ≤ src.length)
    (hlen : src.length - 16 * c < 16) :
    LadDone r kL M2 dlen rk jb src h hf (kL + 3120) 900 1 c y dc s := by
  obtain ⟨s', N, hN, r1, e⟩ := x0_reach r (kL + 3120) b sl.x0 lb.x0 M2 dbase dlen tp sp rk jb src lm hrk hrkb hjb hjbb hsb hsp hdb hsl htp
    toff h hf c y dc tc s hhf hto st hc hlen
  refine ⟨s', N, hN, r1.cast (by omega) rfl, ?_⟩
  intro fuel hf1
  obtain ⟨f, rfl⟩ : ∃ f, fuel = f + 1 := ⟨fuel - 1, by omega⟩
  rw [ladN_small rk jb h hf f c y (src.drop (16 * c)) (by rw [List.length_drop]; exact hlen)]
  simp only [List.length_drop]
  exact e

theorem lad_t1lo (c y : Nat) (dc tc : List Nat) (s : State)
    (st : LadSt M2 dbase dlen tp sp toff (Wblk jb 0) h hf src 1 c y dc tc s) (hc : 16 * c ≤ src.length)
    (hlen : src.length - 16 * c < 16) :
    LadDone r kL M2 dlen rk jb src h hf (kL + 2550) 902 1 c y dc s := by
  have hs := sl.x1; rw [x1_eq] at hs
  obtain ⟨s1, r1, st1, k1⟩ := lad_skip r M2 dbase dlen tp sp jb src toff h hf (kL + 2550) (kL + 3120) _ 16 16 imm64_16 (by decide) _ hs lb.lX0
    1 c y dc tc s st hlen
  exact (LadDone.after r kL M2 dlen rk jb src h hf r1 k1
    (lad_t0 r kL b sl lb M2 dbase dlen tp sp rk jb src lm hrk hrkb hjb hjbb hsb hsp hdb hsl htp toff h hf hhf hto c y dc tc s1 st1 hc hlen)).mono
    _ _ (by omega) (by omega)

theorem lad_t1 (c y : Nat) (dc tc : List Nat) (s : State)
    (st : LadSt M2 dbase dlen tp sp toff (Wblk jb 0) h hf src 1 c y dc tc s) (hc : 16 * c ≤ src.length)
    (hlen : src.length - 16 * c < 32) :
    LadDone r kL M2 dlen rk jb src h hf (kL + 2550) 1700 2 c y dc s := by
  by_cases h16 : src.length - 16 * c < 16
  · exact (lad_t1lo r kL b sl lb M2 dbase dlen tp sp rk jb src lm hrk hrkb hjb hjbb hsb hsp hdb hsl htp toff h hf hhf hto c y dc tc s st hc h16).mono
      _ _ (by omega) (by omega)
  · obtain ⟨s1, N1, hN1, r1, st1, k1⟩ := x1_step r (kL + 2550) b sl.x1 lb.lX1 lb.d1 (by rw [show kL + 2550 + 570 = kL + 3120 from by omega]; exact lb.lX0)
      M2 dbase dlen tp sp rk jb src lm hrk hrkb hjb hjbb hsb hsp hdb hsl toff h hf c y dc tc s hhf st (by omega)
    have d1 := lad_t1lo r kL b sl lb M2 dbase dlen tp sp rk jb src lm hrk hrkb hjb hjbb hsb hsp hdb hsl htp toff h hf hhf hto (c + 1) _ _ tc s1 st1
      (by omega) (by omega)
    exact (lad_combine r kL M2 dlen rk jb src h hf 1 _ _ (by decide) c y _ dc s s1 N1 902 1 (classOf_1 _ (by omega) hlen) (by omega) st.hdc hsl r1 k1
      (by simp [hashClassN]) d1).mono _ _ (by omega) (by omega)

theorem lad_t2lo (c y : Nat) (dc tc : List Nat) (s : State)
    (st : LadSt M2 dbase dlen tp sp toff (Wblk jb 0) h hf src 1 c y dc tc s) (hc : 16 * c ≤ src.length)
    (hlen : src.length - 16 * c < 32) :
    LadDone r kL M2 dlen rk jb src h hf (kL + 1948) 1702 2 c y dc s := by
  have hs := sl.x2; rw [x2_eq] at hs
  obtain ⟨s1, r1, st1, k1⟩ := lad_skip r M2 dbase dlen tp sp jb src toff h hf (kL + 1948) (kL + 2550) _ 32 32 imm64_32 (by decide) _ hs lb.lX1
    1 c y dc tc s st hlen
  exact (LadDone.after r kL M2 dlen rk jb src h hf r1 k1
    (lad_t1 r kL b sl lb M2 dbase dlen tp sp rk jb src lm hrk hrkb hjb hjbb hsb hsp hdb hsl htp toff h hf hhf hto c y dc tc s1 st1 hc hlen)).mono
    _ _ (by omega) (by omega)

theorem lad_t2 (c y : Nat) (dc tc : List Nat) (s : State)
    (st : LadSt M2 dbase dlen tp sp toff (Wblk jb 0) h hf src 1 c y dc tc s) (hc : 16 * c ≤ src.length)
    (hlen : src.length - 16 * c < 64) :
    LadDone r kL M2 dlen rk jb src h hf (kL + 1948) 2500 3 c y dc s := by
  by_cases h16 : src.length - 16 * c < 32
  · exact (lad_t2lo r kL b sl lb M2 dbase dlen tp sp rk jb src lm hrk hrkb hjb hjbb hsb hsp hdb hsl htp toff h hf hhf hto c y dc tc s st hc h16).mono _ _ (by omega) (by omega)
  · obtain ⟨s1, N1, hN1, r1, st1, k1⟩ := x2_step r (kL + 1948) b sl.x2 lb.lX2 lb.d2 (by rw [show kL + 1948 + 602 = kL + 2550 from by omega]; exact lb.lX1)
      M2 dbase dlen tp sp rk jb src lm hrk hrkb hjb hjbb hsb hsp hdb hsl toff h hf c y dc tc s hhf st (by omega)
    have d1 := lad_t2lo r kL b sl lb M2 dbase dlen tp sp rk jb src lm hrk hrkb hjb hjbb hsb hsp hdb hsl htp toff h hf hhf hto (c + 2) _ _ tc s1 st1 (by omega) (by omega)
    exact (lad_combine r kL M2 dlen rk jb src h hf 2 _ _ (by decide) c y _ dc s s1 N1 1702 2 (classOf_2 _ (by omega) hlen) (by omega) st.hdc hsl r1 k1
      (by simp [hashClassN]) d1).mono _ _ (by omega) (by omega)

theorem lad_t4lo (c y : Nat) (dc tc : List Nat) (s : State)
    (st : LadSt M2 dbase dlen tp sp toff (Wblk jb 0) h hf src 1 c y dc tc s) (hc : 16 * c ≤ src.length)
    (hlen : src.length - 16 * c < 64) :
    LadDone r kL M2 dlen rk jb src h hf (kL + 1343) 2502 3 c y dc s := by
  have hs := sl.x4; rw [x4_eq] at hs
  obtain ⟨s1, r1, st1, k1⟩ := lad_skip r M2 dbase dlen tp sp jb src toff h hf (kL + 1343) (kL + 1948) _ 64 64 imm64_64 (by decide) _ hs lb.lX2
    1 c y dc tc s st hlen
  exact (LadDone.after r kL M2 dlen rk jb src h hf r1 k1
    (lad_t2 r kL b sl lb M2 dbase dlen tp sp rk jb src lm hrk hrkb hjb hjbb hsb hsp hdb hsl htp toff h hf hhf hto c y dc tc s1 st1 hc hlen)).mono
    _ _ (by omega) (by omega)

theorem lad_t4 (c y : Nat) (dc tc : List Nat) (s : State)
    (st : LadSt M2 dbase dlen tp sp toff (Wblk jb 0) h hf src 1 c y dc tc s) (hc : 16 * c ≤ src.length)
    (hlen : src.length - 16 * c < 128) :
    LadDone r kL M2 dlen rk jb src h hf (kL + 1343) 3300 4 c y dc s := by
  by_cases h16 : src.length - 16 * c < 64
  · exact (lad_t4lo r kL b sl lb M2 dbase dlen tp sp rk jb src lm hrk hrkb hjb hjbb hsb hsp hdb hsl htp toff h hf hhf hto c y dc tc s st hc h16).mono _ _ (by omega) (by omega)
  · obtain ⟨s1, N1, hN1, r1, st1, k1⟩ := x4_step r (kL + 1343) b sl.x4 lb.lX4 lb.d4 (by rw [show kL + 1343 + 605 = kL + 1948 from by omega]; exact lb.lX2)
      M2 dbase dlen tp sp rk jb src lm hrk hrkb hjb hjbb hsb hsp hdb hsl toff h hf c y dc tc s hhf st (by omega)
    have d1 := lad_t4lo r kL b sl lb M2 dbase dlen tp sp rk jb src lm hrk hrkb hjb hjbb hsb hsp hdb hsl htp toff h hf hhf hto (c + 4) _ _ tc s1 st1 (by omega) (by omega)
    exact (lad_combine r kL M2 dlen rk jb src h hf 4 _ _ (by decide) c y _ dc s s1 N1 2502 3 (classOf_4 _ (by omega) hlen) (by omega) st.hdc hsl r1 k1
      (by simp [hashClassN]) d1).mono _ _ (by omega) (by omega)

theorem lad_t8lo (c y : Nat) (dc tc : List Nat) (s : State)
    (st : LadSt M2 dbase dlen tp sp toff (Wblk jb 0) h hf src 2 c y dc tc s) (hc : 16 * c ≤ src.length)
    (hlen : src.length - 16 * c < 128) :
    LadDone r kL M2 dlen rk jb src h hf (kL + 707) 3302 4 c y dc s := by
  have hs := sl.x8; rw [x8_eq] at hs
  obtain ⟨s1, r1, st1, k1⟩ := lad_skip r M2 dbase dlen tp sp jb src toff h hf (kL + 707) (kL + 1343) _ 128 128 imm64_128 (by decide) _ hs lb.lX4
    2 c y dc tc s st hlen
  exact (LadDone.after r kL M2 dlen rk jb src h hf r1 k1
    (lad_t4 r kL b sl lb M2 dbase dlen tp sp rk jb src lm hrk hrkb hjb hjbb hsb hsp hdb hsl htp toff h hf hhf hto c y dc tc s1 (st1.weaken 1 (by decide)) hc hlen)).mono
    _ _ (by omega) (by omega)

theorem lad_t8 (c y : Nat) (dc tc : List Nat) (s : State)
    (st : LadSt M2 dbase dlen tp sp toff (Wblk jb 0) h hf src 2 c y dc tc s) (hc : 16 * c ≤ src.length)
    (hlen : src.length - 16 * c < 256) :
    LadDone r kL M2 dlen rk jb src h hf (kL + 707) 4100 5 c y dc s := by
  by_cases h16 : src.length - 16 * c < 128
  · exact (lad_t8lo r kL b sl lb M2 dbase dlen tp sp rk jb src lm hrk hrkb hjb hjbb hsb hsp hdb hsl htp toff h hf hhf hto c y dc tc s st hc h16).mono _ _ (by omega) (by omega)
  · obtain ⟨s1, N1, hN1, r1, st1, k1⟩ := x8_step r (kL + 707) b sl.x8 lb.lX8 lb.d8 (by rw [show kL + 707 + 636 = kL + 1343 from by omega]; exact lb.lX4)
      M2 dbase dlen tp sp rk jb src lm hrk hrkb hjb hjbb hsb hsp hdb hsl toff h hf c y dc tc s hhf st (by omega)
    have d1 := lad_t8lo r kL b sl lb M2 dbase dlen tp sp rk jb src lm hrk hrkb hjb hjbb hsb hsp hdb hsl htp toff h hf hhf hto (c + 8) _ _ tc s1 st1 (by omega) (by omega)
    exact (lad_combine r kL M2 dlen rk jb src h hf 8 _ _ (by decide) c y _ dc s s1 N1 3302 4 (classOf_8 _ (by omega) hlen) (by omega) st.hdc hsl r1 k1
      (by simp [hashClassN]) d1).mono _ _ (by omega) (by omega)

theorem lad_t16lo (c y : Nat) (dc tc : List Nat) (s : State)
    (st : LadSt M2 dbase dlen tp sp toff (Wblk jb 0) h hf src 4 c y dc tc s) (hc : 16 * c ≤ src.length)
    (hlen : src.length - 16 * c < 256) :
    LadDone r kL M2 dlen rk jb src h hf (kL + 17) 4102 5 c y dc s := by
  have hs := sl.x16; rw [x16_eq'] at hs
  obtain ⟨s1, r1, st1, k1⟩ := lad_skip r M2 dbase dlen tp sp jb src toff h hf (kL + 17) (kL + 707) _ 256 256 imm64_256 (by decide) _ hs lb.lX8
    4 c y dc tc s st hlen
  exact (LadDone.after r kL M2 dlen rk jb src h hf r1 k1
    (lad_t8 r kL b sl lb M2 dbase dlen tp sp rk jb src lm hrk hrkb hjb hjbb hsb hsp hdb hsl htp toff h hf hhf hto c y dc tc s1 (st1.weaken 2 (by decide)) hc hlen)).mono
    _ _ (by omega) (by omega)

set_option maxRecDepth 100000 in
/-- `loopX16` and everything after it -/
theorem lad_t16 : ∀ (q c y : Nat) (dc tc : List Nat) (s : State), (src.length - 16 * c) / 256 = q →
    LadSt M2 dbase dlen tp sp toff (Wblk jb 0) h hf src 4 c y dc tc s → 16 * c ≤ src.length →
    LadDone r kL M2 dlen rk jb src h hf (kL + 17) (700 * q + 4102) (q + 5) c y dc s := by
  intro q
  induction q with
  | zero =>
    intro c y dc tc s hq st hc
    exact (lad_t16lo r kL b sl lb M2 dbase dlen tp sp rk jb src lm hrk hrkb hjb hjbb hsb hsp hdb hsl htp toff h hf hhf hto c y dc tc s st hc (by omega)).mono _ _ (by omega) (by omega)
  | succ q ih =>
    intro c y dc tc s hq st hc
    have hlen : 256 ≤ src.length - 16 * c := by
      rcases Nat.lt_or_ge (src.length - 16 * c) 256 with h' | h'
      · rw [Nat.div_eq_of_lt h'] at hq; omega
      · exact h'
    obtain ⟨s1, N1, hN1, r1, st1, k1⟩ := x16_step r (kL + 17) b sl.x16 lb.lX16 lb.d16 (by rw [show kL + 17 + 690 = kL + 707 from by omega]; exact lb.lX8)
      M2 dbase dlen tp sp rk jb src lm hrk hrkb hjb hjbb hsb hsp hdb hsl toff h hf c y dc tc s hhf st (by omega)
    have d1 := ih (c + 16) _ _ tc s1 (by omega) st1 (by omega)
    exact (lad_combine r kL M2 dlen rk jb src h hf 16 _ _ (by decide) c y _ dc s s1 N1 (700 * q + 4102) (q + 5) (classOf_16 _ hlen) (by omega) st.hdc hsl r1 k1
      (by simp [hashClassN]) d1).mono (700 * (q + 1) + 4102) (q + 1 + 5) (by omega) (by omega)

set_option maxRecDepth 100000 in
/-- **`cryptoBlocksAsm`**: from its first instruction to its last label, the output bytes and the GHASH value are `ladN` -/
theorem ladder_reach (y : Nat) (dc tc : List Nat) (s : State) (pc : PCtx s) (gh : GhCtx h s) (rkp : greg s 15 = 73014444032)
    (g0 : greg s 0 = hf) (g9 : greg s 9 = src.length) (g10 : greg s 10 = sp) (g13 : greg s 13 = dbase) (g6 : greg s 6 = tp + toff)
    (v14 : vreg s 14 = unlanes 8 jb) (acc : vreg s 21 = y) (acclt : y < 2 ^ 128) (hm : s.mem = M2 dc tc) (hdc : dc.length = dlen)
    (htc : tc.length = 32) (hs0 : ∀ t, t.length = 32 → SrcFrom (M2 dc t) sp src 0) :
    ∃ s' N, N ≤ 700 * (src.length / 256) + 4200 ∧ Reach r kL s (kL + 3770) s' N ∧
      ∀ fuel, src.length / 256 + 5 ≤ fuel → LadEnd M2 dlen h (ladN rk jb h hf fuel 0 y src).2
        (spliceAt dc 0 (ladN rk jb h hf fuel 0 y src).1) s s' := by
  have hs := sl.head; rw [ladHead_split] at hs
  have sA : Slice r kL headCode := hs.left
  have sG : Slice r (kL + 15) ([ins .CMPQ [G 9, .imm 64] 0, ins .JLT [.target (b + 11872)] 0] ++ []) := by
    have := hs.right; rw [List.append_nil]; exact this
  have hJ : unlanes 8 jb < 2 ^ 128 := by have := unlanes_lt 8 jb hjbb; rw [hjb] at this; exact this
  obtain ⟨s1, hr1, q1⟩ := head_spec s pc.lenG pc.lenV _ v14 hJ pc.v12
  rw [Wblk_of_lanes jb hjb hjbb] at q1
  have k1 := keeps_of_exec _ head_writes hr1
  have r1 : Reach r kL s (kL + 15) s1 15 := reach_seg sA (by decide) hr1
  have k1M : KeepsM ladKeepG ladKeepV (List.range 8) s s1 := k1.toM.mono (by decide) (by decide) (fun _ h => h)
  have st1 : LadSt M2 dbase dlen tp sp toff (Wblk jb 0) h hf src 4 0 y dc tc s1 :=
    ⟨pc.of_keepsM k1M pRegs_lad, gh.of_keepsM k1M ghRegs_lad, (k1.g 15 (by decide)).trans rkp, (k1.g 0 (by decide)).trans g0,
      (k1.g 9 (by decide)).trans g9, (k1.g 10 (by decide)).trans g10, (k1.g 13 (by decide)).trans g13, (k1.g 6 (by decide)).trans g6,
      fun l hl => (q1 l hl).trans (ctrW_zero _ (Wblk_qlt jb 0)).symm, (k1.v 21 (by decide)).trans acc, acclt, k1.mem.trans hm, hdc, htc,
      fun t ht => by rw [Nat.mul_zero]; exact hs0 t ht⟩
  have hdrop : src.drop (16 * 0) = src := by rw [Nat.mul_zero, List.drop_zero]
  by_cases h64 : src.length < 64
  · obtain ⟨s2, r2, st2, k2⟩ := lad_skip r M2 dbase dlen tp sp jb src toff h hf (kL + 15) (kL + 1948) _ 64 64 imm64_64 (by decide) _ sG lb.lX2
      4 0 y dc tc s1 st1 (by omega)
    obtain ⟨s', N, hN, r3, e⟩ := lad_t2 r kL b sl lb M2 dbase dlen tp sp rk jb src lm hrk hrkb hjb hjbb hsb hsp hdb hsl htp toff h hf hhf hto 0 y dc tc s2 (st2.weaken 1 (by decide)) (by omega) (by omega)
    refine ⟨s', 15 + 2 + N, by omega, (r1.trans r2).trans r3, ?_⟩
    intro fuel hfu
    have := e fuel (by omega)
    rw [hdrop] at this
    exact LadEnd.of_keeps k1M (LadEnd.of_keeps k2 this)
  · have r2 := guard_reach (idx := kL + 1948) sG.left rfl lb.lX2 s1 (by rw [st1.pc.lenG]; decide) src.length 64
      ((k1.g 9 (by decide)).trans g9) imm64_64 false (by rw [cond_jlt _ _ (by omega) (by decide)]; simp; omega)
    simp only [Bool.false_eq_true, if_false] at r2
    have k2 : KeepsM (List.range 16) (List.range 32) (List.range 8) s1 (setFlags s1 (subF 8 src.length 64).2) := keepsM_setFlags _ _ _ s1 _
    have st2 : LadSt M2 dbase dlen tp sp toff (Wblk jb 0) h hf src 4 0 y dc tc (setFlags s1 (subF 8 src.length 64).2) :=
      ⟨st1.pc.of_keepsM k2 (by decide), st1.gh.of_keepsM k2 (by decide), st1.rkp, st1.g0, st1.g9, st1.g10, st1.g13, st1.g6, st1.ctr,
        st1.acc, st1.acclt, st1.mem, st1.hdc, st1.htc, st1.srcOK⟩
    obtain ⟨s', N, hN, r3, e⟩ := lad_t16 r kL b sl lb M2 dbase dlen tp sp rk jb src lm hrk hrkb hjb hjbb hsb hsp hdb hsl htp toff h hf hhf hto (src.length / 256) 0 y dc tc _ (by rw [Nat.mul_zero, Nat.sub_zero]) st2 (by omega)
    refine ⟨s', 15 + 2 + N, by omega, (r1.trans (r2.cast (by omega) rfl)).trans r3, ?_⟩
    intro fuel hfu
    have := e fuel (by omega)
    rw [hdrop] at this
    exact LadEnd.of_keeps k1M (LadEnd.of_keeps (k2.mono (by decide) (by decide) (fun _ h => h)) this)

end
end SMGo.Proofs.ISAVal
