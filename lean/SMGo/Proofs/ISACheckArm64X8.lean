/-
  C09: kernel-evaluated taint certificates (`certify`, see SMGo/Model/ISA.lean) for the arm64 routines below.
  Each `cert_*` is decided by `decide +kernel`: the kernel computes the invariant (`computeInv`) of the
  macro-expanded listing and checks it instruction by instruction (`checkInv`); nothing is trusted but the kernel.
-/
import SMGo.Proofs.ISASound
import SMGo.Gen.ListArm64Asm
import SMGo.Gen.ListArm64Gcm

namespace SMGo.Proofs.ISACheck
open SMGo.Model.ISA SMGo.Proofs.ISASound SMGo.Gen
set_option maxRecDepth 100000

theorem cert_cryptoBlockAsmX8_arm64 : certify ListArm64Asm.cryptoBlockAsmX8 [] = true := by decide +kernel

theorem ct_cryptoBlockAsmX8_arm64 : checkInv ListArm64Asm.cryptoBlockAsmX8 (invOf ListArm64Asm.cryptoBlockAsmX8) [] = true := (certify_spec cert_cryptoBlockAsmX8_arm64).1

theorem cert_gHashBlocks_arm64 : certify ListArm64Gcm.gHashBlocks [] = true := by decide +kernel

theorem ct_gHashBlocks_arm64 : checkInv ListArm64Gcm.gHashBlocks (invOf ListArm64Gcm.gHashBlocks) [] = true := (certify_spec cert_gHashBlocks_arm64).1

theorem cert_xor256_arm64 : certify ListArm64Gcm.xor256 [] = true := by decide +kernel

theorem ct_xor256_arm64 : checkInv ListArm64Gcm.xor256 (invOf ListArm64Gcm.xor256) [] = true := (certify_spec cert_xor256_arm64).1

theorem cert_xor128_arm64 : certify ListArm64Gcm.xor128 [] = true := by decide +kernel

theorem ct_xor128_arm64 : checkInv ListArm64Gcm.xor128 (invOf ListArm64Gcm.xor128) [] = true := (certify_spec cert_xor128_arm64).1

theorem cert_xor64_arm64 : certify ListArm64Gcm.xor64 [] = true := by decide +kernel

theorem ct_xor64_arm64 : checkInv ListArm64Gcm.xor64 (invOf ListArm64Gcm.xor64) [] = true := (certify_spec cert_xor64_arm64).1

theorem cert_xor32_arm64 : certify ListArm64Gcm.xor32 [] = true := by decide +kernel

theorem ct_xor32_arm64 : checkInv ListArm64Gcm.xor32 (invOf ListArm64Gcm.xor32) [] = true := (certify_spec cert_xor32_arm64).1

theorem cert_xor16_arm64 : certify ListArm64Gcm.xor16 [] = true := by decide +kernel

theorem ct_xor16_arm64 : checkInv ListArm64Gcm.xor16 (invOf ListArm64Gcm.xor16) [] = true := (certify_spec cert_xor16_arm64).1

end SMGo.Proofs.ISACheck
