/-
  Lemmas about the slice heap of `SMGo.Model.Slice`: what a store changes (`splice`, `poke`),
  what a slice shows afterwards (`read`), well-formedness is kept, `append`/`copy`/`reslice` facts.
  Core Lean only (no Mathlib needed).
-/
import SMGo.Model.Slice
namespace SMGo.Proofs.Slice
open SMGo SMGo.Model SMGo.Model.Mem

/-! ### splice -/

theorem length_splice (l : Bytes) (off : Nat) (bs : Bytes) (h : off + bs.length ≤ l.length) :
    (splice l off bs).length = l.length := by
  simp [splice]; omega

theorem getElem?_splice (l : Bytes) (off : Nat) (bs : Bytes) (h : off ≤ l.length) (i : Nat) :
    (splice l off bs)[i]? =
      if i < off then l[i]? else if i < off + bs.length then bs[i - off]? else l[i]? := by
  unfold splice
  by_cases h1 : i < off
  · simp [h1, List.getElem?_append, List.length_take, Nat.min_eq_left h]
  · by_cases h2 : i < off + bs.length
    · have : i - off < bs.length := by omega
      simp [h1, h2, List.getElem?_append, List.length_take, Nat.min_eq_left h, this]
    · have e : off + bs.length + (i - (off + bs.length)) = i := by omega
      simp [h1, h2, List.getElem?_append, List.length_take, Nat.min_eq_left h, List.getElem?_drop]
      have h3 : ¬ i < off + bs.length := h2
      have h4 : ¬ i - off < bs.length := by omega
      simp [h4]
      congr 1; omega

theorem splice_nil (l : Bytes) (off : Nat) : splice l off [] = l := by
  simp [splice]

/-- a store at the start of a zeroed array -/
theorem splice_replicate_zero (bs : Bytes) (n : Nat) (z : UInt8) :
    splice (List.replicate (bs.length + n) z) 0 bs = bs ++ List.replicate n z := by
  simp [splice, List.drop_replicate]

/-! ### arrays of a heap after a store / an allocation -/

theorem length_poke (h : Heap) (a off : Nat) (bs : Bytes) : (poke h a off bs).length = h.length := by
  simp [poke]

theorem arrayOf_poke_same (h : Heap) (a off : Nat) (bs : Bytes) (ha : a < h.length) :
    arrayOf (poke h a off bs) a = splice (arrayOf h a) off bs := by
  simp [arrayOf, poke, ha]

theorem arrayOf_poke_ne (h : Heap) (a b off : Nat) (bs : Bytes) (hne : b ≠ a) :
    arrayOf (poke h a off bs) b = arrayOf h b := by
  simp [arrayOf, poke, List.getElem?_set_ne (Ne.symm hne)]

theorem arrayOf_append_left (h : Heap) (x : Bytes) (a : Nat) (ha : a < h.length) :
    arrayOf (h ++ [x]) a = arrayOf h a := by
  simp [arrayOf, List.getElem?_append_left ha]

theorem arrayOf_append_new (h : Heap) (x : Bytes) : arrayOf (h ++ [x]) h.length = x := by
  simp [arrayOf]

theorem length_arrayOf_poke (h : Heap) (a b off : Nat) (bs : Bytes)
    (hb : off + bs.length ≤ (arrayOf h a).length) :
    (arrayOf (poke h a off bs) b).length = (arrayOf h b).length := by
  by_cases hne : b = a
  · subst hne
    by_cases ha : b < h.length
    · rw [arrayOf_poke_same h b off bs ha, length_splice _ _ _ hb]
    · simp [arrayOf, poke, ha]
  · rw [arrayOf_poke_ne h a b off bs hne]

theorem byteAt_poke (h : Heap) (a b off i : Nat) (bs : Bytes) (ha : a < h.length)
    (hb : off ≤ (arrayOf h a).length) :
    byteAt (poke h a off bs) b i =
      if b = a ∧ off ≤ i ∧ i < off + bs.length then bs[i - off]? else byteAt h b i := by
  unfold byteAt
  by_cases hne : b = a
  · subst hne
    rw [arrayOf_poke_same h b off bs ha, getElem?_splice _ _ _ hb]
    by_cases h1 : i < off
    · have : ¬ (off ≤ i) := by omega
      simp [h1, this]
    · have h1' : off ≤ i := by omega
      simp [h1, h1']
  · rw [arrayOf_poke_ne h a b off bs hne]; simp [hne]

theorem byteAt_poke_outside (h : Heap) (a b off i : Nat) (bs : Bytes) (ha : a < h.length)
    (hb : off ≤ (arrayOf h a).length) (hout : ¬ (b = a ∧ off ≤ i ∧ i < off + bs.length)) :
    byteAt (poke h a off bs) b i = byteAt h b i := by
  rw [byteAt_poke h a b off i bs ha hb, if_neg hout]

theorem byteAt_append_left (h : Heap) (x : Bytes) (a i : Nat) (ha : a < h.length) :
    byteAt (h ++ [x]) a i = byteAt h a i := by
  simp [byteAt, arrayOf_append_left h x a ha]

/-! ### well-formedness is kept -/

theorem WF_append_heap (h : Heap) (x : Bytes) (s : Slice) (hwf : WF h s) : WF (h ++ [x]) s := by
  obtain ⟨arr, off, len, cap⟩ := s
  cases arr with
  | none => exact hwf
  | some a =>
    obtain ⟨h1, h2, h3⟩ := hwf
    refine ⟨h1, ?_, ?_⟩
    · simp; omega
    · rw [arrayOf_append_left h x a h2]; exact h3

theorem WF_poke (h : Heap) (a off : Nat) (bs : Bytes) (s : Slice)
    (hb : off + bs.length ≤ (arrayOf h a).length) (hwf : WF h s) : WF (poke h a off bs) s := by
  obtain ⟨arr, o, len, cap⟩ := s
  cases arr with
  | none => exact hwf
  | some b =>
    obtain ⟨h1, h2, h3⟩ := hwf
    refine ⟨h1, ?_, ?_⟩
    · rw [length_poke]; exact h2
    · rw [length_arrayOf_poke h a b off bs hb]; exact h3

theorem WF_nil (h : Heap) : WF h Slice.nil := by
  simp [WF, Slice.nil]

/-- a well-formed slice with a non-zero capacity has an array -/
theorem arr_of_cap_pos (h : Heap) (s : Slice) (hwf : WF h s) (hc : 0 < s.cap) :
    ∃ a, s.arr = some a ∧ a < h.length ∧ s.off + s.cap ≤ (arrayOf h a).length := by
  obtain ⟨arr, off, len, cap⟩ := s
  cases arr with
  | none => obtain ⟨_, _, h3⟩ := hwf; simp at h3 hc; omega
  | some a => obtain ⟨_, h2, h3⟩ := hwf; exact ⟨a, rfl, h2, h3⟩

theorem length_read (h : Heap) (s : Slice) (hwf : WF h s) : (read h s).length = s.len := by
  obtain ⟨arr, off, len, cap⟩ := s
  cases arr with
  | none => obtain ⟨h1, _, h3⟩ := hwf; simp at h1 h3; simp [Mem.read]; omega
  | some a =>
    obtain ⟨h1, _, h3⟩ := hwf
    simp at h1 h3
    simp [Mem.read, List.length_take, List.length_drop]; omega

/-! ### what a slice shows after a store / an allocation -/

theorem read_append_heap (h : Heap) (x : Bytes) (s : Slice) (hwf : WF h s) :
    read (h ++ [x]) s = read h s := by
  obtain ⟨arr, off, len, cap⟩ := s
  cases arr with
  | none => rfl
  | some a =>
    obtain ⟨_, h2, _⟩ := hwf
    simp only [Mem.read]
    rw [arrayOf_append_left h x a h2]

/-- the stored range `[off, off+|bs|)` of array `a` does not meet what `s` shows -/
def Apart (s : Slice) (a off n : Nat) : Prop :=
  s.arr ≠ some a ∨ s.off + s.len ≤ off ∨ off + n ≤ s.off

theorem read_poke_apart (h : Heap) (a off : Nat) (bs : Bytes) (s : Slice) (ha : a < h.length)
    (hb : off + bs.length ≤ (arrayOf h a).length) (hd : Apart s a off bs.length) :
    read (poke h a off bs) s = read h s := by
  obtain ⟨arr, o, len, cap⟩ := s
  cases arr with
  | none => rfl
  | some b =>
    simp only [Mem.read]
    by_cases hne : b = a
    · subst hne
      rw [arrayOf_poke_same h b off bs ha]
      apply List.ext_getElem?
      intro i
      simp only [List.getElem?_take, List.getElem?_drop]
      by_cases hi : i < len
      · simp only [hi, if_true]
        rw [getElem?_splice _ _ _ (by omega)]
        rcases hd with hd | hd | hd
        · exact absurd rfl hd
        · simp at hd
          have : o + i < off := by omega
          simp [this]
        · simp at hd
          have h1 : ¬ o + i < off := by omega
          have h2 : ¬ o + i < off + bs.length := by omega
          simp [h1, h2]
      · simp [hi]
    · rw [arrayOf_poke_ne h a b off bs hne]

/-- storing `bs` right behind what `s` shows, and lengthening `s` by as much: `s ‖ bs` -/
theorem read_poke_extend (h : Heap) (a : Nat) (bs : Bytes) (s : Slice) (hs : s.arr = some a)
    (ha : a < h.length) (hb : s.off + s.len + bs.length ≤ (arrayOf h a).length) :
    read (poke h a (s.off + s.len) bs) { s with len := s.len + bs.length } = read h s ++ bs := by
  obtain ⟨arr, o, len, cap⟩ := s
  simp at hs; subst hs
  simp only [Mem.read]
  rw [arrayOf_poke_same h a _ bs ha]
  apply List.ext_getElem?
  intro i
  simp only [List.getElem?_take, List.getElem?_drop, List.getElem?_append, List.length_take,
    List.length_drop]
  simp at hb
  rw [getElem?_splice _ _ _ (by omega)]
  have hmin : min len ((arrayOf h a).length - o) = len := by omega
  rw [hmin]
  by_cases h1 : i < len
  · have : o + i < o + len := by omega
    have h2 : i < len + bs.length := by omega
    simp [h1, h2, this]
  · by_cases h2 : i < len + bs.length
    · have h3 : ¬ o + i < o + len := by omega
      have h4 : o + i < o + len + bs.length := by omega
      have h5 : o + i - (o + len) = i - len := by omega
      simp [h1, h2, h3, h4, h5]
    · have : bs.length ≤ i - len := by omega
      simp [h1, h2, this]

/-! ### reslice, addrOf -/

theorem reslice_prefix (s : Slice) (n : Nat) (hn : n ≤ s.cap) :
    reslice s 0 n = .ok { s with len := n } := by
  simp [reslice, hn]

theorem addrOf_ok (s : Slice) (a i : Nat) (hs : s.arr = some a) (hi : i < s.len) :
    addrOf s i = .ok (some (a, s.off + i)) := by
  simp [addrOf, hi, hs]

theorem readPtr_slice (h : Heap) (s : Slice) (a : Nat) (hs : s.arr = some a) (hwf : WF h s) :
    readPtr h (some (a, s.off)) s.len = .ok (read h s) := by
  obtain ⟨arr, o, len, cap⟩ := s
  simp at hs; subst hs
  obtain ⟨h1, h2, h3⟩ := hwf
  simp at h1 h2 h3
  by_cases hl : len = 0
  · subst hl; simp [readPtr, Mem.read]
  · have : o + len ≤ (arrayOf h a).length := by omega
    simp [readPtr, Mem.read, hl, h2, this]

/-! ### append, copy -/

/-- the append rule: the result shows `s ‖ bs`; it has `s`'s pointer iff there was room (and a
    pointer); bytes of the old heap outside the appended range are unchanged -/
theorem append_spec (h : Heap) (s : Slice) (bs : Bytes) (hwf : WF h s) :
    let r := append h s bs
    read r.1 r.2 = read h s ++ bs ∧
    WF r.1 r.2 ∧
    r.2.len = s.len + bs.length ∧
    (Shares r.2 s ↔ s.arr ≠ none ∧ bs.length ≤ s.cap - s.len) ∧
    (∀ a i, a < h.length →
        ¬ (r.2.arr = some a ∧ r.2.off + s.len ≤ i ∧ i < r.2.off + s.len + bs.length) →
        byteAt r.1 a i = byteAt h a i) ∧
    (∀ a, a < h.length → (arrayOf r.1 a).length = (arrayOf h a).length) ∧
    h.length ≤ r.1.length := by
  intro r
  have hlen := hwf.1
  by_cases hroom : s.len + bs.length ≤ s.cap
  · cases hs : s.arr with
    | none =>
      -- nil (cap 0): bs = []
      have hcap : s.cap = 0 := by
        obtain ⟨arr, o, len, cap⟩ := s
        simp at hs; subst hs
        exact hwf.2.2
      have hb : bs = [] := by
        apply List.eq_nil_of_length_eq_zero; omega
      have hr : r = (h, s) := by
        show append h s bs = _
        simp [append, hroom, hs]
      rw [hr]; subst hb
      refine ⟨by simp, hwf, by simp, ?_, ?_, ?_, Nat.le_refl _⟩
      · simp [Shares, hs]
      · intro a i _ _; rfl
      · intro a _; rfl
    | some a =>
      obtain ⟨a', hs', ha, hcapa⟩ : ∃ a', s.arr = some a' ∧ a' < h.length ∧
          s.off + s.cap ≤ (arrayOf h a').length := by
        obtain ⟨arr, o, len, cap⟩ := s
        simp at hs; subst hs
        exact ⟨a, rfl, hwf.2.1, hwf.2.2⟩
      have : a' = a := by rw [hs] at hs'; exact (Option.some.inj hs').symm
      subst this
      have hr : r = (poke h a' (s.off + s.len) bs, { s with len := s.len + bs.length }) := by
        show append h s bs = _
        simp [append, hroom, hs]
      rw [hr]
      have hb : s.off + s.len + bs.length ≤ (arrayOf h a').length := by omega
      refine ⟨read_poke_extend h a' bs s hs ha hb, ?_, rfl, ?_, ?_, ?_, ?_⟩
      · have := WF_poke h a' (s.off + s.len) bs { s with len := s.len + bs.length } hb
        apply this
        obtain ⟨arr, o, len, cap⟩ := s
        simp at hs; subst hs
        exact ⟨hroom, hwf.2.1, hwf.2.2⟩
      · simp [Shares, hs]; omega
      · intro b i _ hout
        apply byteAt_poke_outside h a' b (s.off + s.len) i bs ha (by omega)
        intro hc
        apply hout
        simp [hs]
        omega
      · intro b _; exact length_arrayOf_poke h a' b _ bs hb
      · rw [length_poke]; exact Nat.le_refl _
  · have hr : r = (h ++ [read h s ++ bs],
        { arr := some h.length, off := 0, len := s.len + bs.length, cap := s.len + bs.length }) := by
      show append h s bs = _
      simp [append, hroom]
    rw [hr]
    have hrl := length_read h s hwf
    refine ⟨?_, ?_, rfl, ?_, ?_, ?_, ?_⟩
    · show ((arrayOf (h ++ [Mem.read h s ++ bs]) h.length).drop 0).take (s.len + bs.length) = _
      rw [arrayOf_append_new]
      simp only [List.drop_zero]
      apply List.take_of_length_le
      simp [hrl]
    · refine ⟨Nat.le_refl _, ?_, ?_⟩
      · simp
      · simp [arrayOf_append_new, hrl]
    · constructor
      · intro hsh
        exfalso
        obtain ⟨h1, _, _⟩ := hsh
        simp at h1
        -- s's array would be the new one
        obtain ⟨arr, o, len, cap⟩ := s
        simp at h1; subst h1
        have := hwf.2.1
        exact Nat.lt_irrefl _ this
      · intro ⟨_, h2⟩; omega
    · intro a i ha _; exact byteAt_append_left h _ a i ha
    · intro a ha; rw [arrayOf_append_left h _ a ha]
    · simp

/-- well-formedness only depends on which arrays exist and how long they are -/
theorem WF_of_lengths (h h' : Heap) (hl : h.length ≤ h'.length)
    (ha : ∀ a, a < h.length → (arrayOf h' a).length = (arrayOf h a).length)
    (s : Slice) (hwf : WF h s) : WF h' s := by
  obtain ⟨arr, o, len, cap⟩ := s
  cases arr with
  | none => exact hwf
  | some a =>
    obtain ⟨h1, h2, h3⟩ := hwf
    exact ⟨h1, Nat.lt_of_lt_of_le h2 hl, by rw [ha a h2]; exact h3⟩

/-- `append(s, bs...)` does not change what `s` itself shows -/
theorem read_append_self (h : Heap) (s : Slice) (bs : Bytes) (hwf : WF h s) :
    Mem.read (append h s bs).1 s = Mem.read h s := by
  unfold append
  by_cases hroom : s.len + bs.length ≤ s.cap
  · simp only [hroom, if_true]
    cases hs : s.arr with
    | none => rfl
    | some a =>
      simp only []
      obtain ⟨a', hs', ha, hcapa⟩ : ∃ a', s.arr = some a' ∧ a' < h.length ∧
          s.off + s.cap ≤ (arrayOf h a').length := by
        obtain ⟨arr, o, len, cap⟩ := s
        simp at hs; subst hs
        exact ⟨a, rfl, hwf.2.1, hwf.2.2⟩
      have : a' = a := by rw [hs] at hs'; exact (Option.some.inj hs').symm
      subst this
      exact read_poke_apart h a' _ bs s ha (by omega) (Or.inr (Or.inl (Nat.le_refl _)))
  · simp only [hroom, if_false]
    exact read_append_heap h _ s hwf

/-- appending the same bytes to the same slice twice shows the same result -/
theorem append_twice (h : Heap) (s : Slice) (bs : Bytes) (hwf : WF h s) :
    Mem.read (append (append h s bs).1 s bs).1 (append (append h s bs).1 s bs).2
      = Mem.read (append h s bs).1 (append h s bs).2 := by
  obtain ⟨h1, _, _, _, _, h6, h7⟩ := append_spec h s bs hwf
  have hwf1 : WF (append h s bs).1 s := WF_of_lengths h _ h7 h6 s hwf
  obtain ⟨h1', _⟩ := append_spec (append h s bs).1 s bs hwf1
  rw [h1', h1, read_append_self h s bs hwf]

end SMGo.Proofs.Slice
