import SMGo.Proofs.ISAValWideCode
import SMGo.Proofs.ISAValGhashCode
namespace SMGo.Proofs.ISAVal
open SMGo.Model.ISAVal SMGo.Model.ISA

/-! # The fused GCM routines `sealAsm` / `openAsm` of sm4/gcm_amd64.s as schemes

  Builders for the macros of gcm_amd64.s (each a list of decoded instructions with the byte offsets erased; branch
  targets are byte offsets of the routine and are parameters), and the decomposition of the two regenerated
  listings into them (`seal_scheme`, `open_scheme`, by evaluation in the kernel). -/

/-- `subRound` with the round key broadcast from the general register `kr` (`VPBROADCASTD reg, VRoundKey`) -/
def srCode (vl kr A B C D : Nat) : List DInstr :=
  [ins .VPBROADCASTD [G kr, R 13] vl,
   ins .VPXORD [R B, R C, R 0] vl,
   ins .VPXORD [R D, R 0, R 1] vl,
   ins .VPXORD [R 13, R 1, R 4] vl,
   ins .VGF2P8AFFINEQB [.imm 62, R 10, R 4, R 0] vl,
   ins .VGF2P8AFFINEINVQB [.imm 211, R 11, R 0, R 5] vl,
   ins .VPROLD [.imm 2, R 5, R 0] vl,
   ins .VPROLD [.imm 10, R 5, R 1] vl,
   ins .VPROLD [.imm 18, R 5, R 2] vl,
   ins .VPROLD [.imm 24, R 5, R 3] vl,
   ins .VPXORD [R 0, R 1, R 0] vl,
   ins .VPXORD [R 2, R 3, R 2] vl,
   ins .VPXORD [R 0, R 2, R 0] vl,
   ins .VPXORD [R 0, R 5, R 5] vl,
   ins .VPXORD [R 5, R A, R A] vl]

/-- `roundXNew / roundYNew / roundZNew`: four round keys loaded into general registers, four `subRound`s on the rotating
    state registers, `ADDQ $16, rk` -/
def rnCode (vl rk r1 r2 r3 r4 A B C D : Nat) : List DInstr :=
  [ins .MOVL [M rk 0, G r1] 0, ins .MOVL [M rk 4, G r2] 0, ins .MOVL [M rk 8, G r3] 0, ins .MOVL [M rk 12, G r4] 0]
  ++ srCode vl r1 A B C D ++ srCode vl r2 B C D A ++ srCode vl r3 C D A B ++ srCode vl r4 D A B C
  ++ [ins .ADDQ [.imm 16, G rk] 0]

/-- the 32 rounds of a fused kernel: 8 × `roundNew`, then the round-key pointer is wound back -/
def rounds32Code (vl rk r1 r2 r3 r4 A B C D : Nat) : List DInstr :=
  rnCode vl rk r1 r2 r3 r4 A B C D ++ rnCode vl rk r1 r2 r3 r4 A B C D ++ rnCode vl rk r1 r2 r3 r4 A B C D
  ++ rnCode vl rk r1 r2 r3 r4 A B C D ++ rnCode vl rk r1 r2 r3 r4 A B C D ++ rnCode vl rk r1 r2 r3 r4 A B C D
  ++ rnCode vl rk r1 r2 r3 r4 A B C D ++ rnCode vl rk r1 r2 r3 r4 A B C D ++ [ins .SUBQ [.imm 128, G rk] 0]

/-- `cryptoBlockAsmMacro(rk, VxIn, VxOut, …)`: one block held in `In` (memory byte order) is encrypted into `Out` -/
def sm4OneCode (In Out : Nat) : List DInstr :=
  [ins .VPSHUFB [R 12, R In, R In] 16,
   ins .VPUNPCKLDQ [R In, R In, R 0] 16, ins .VPUNPCKHDQ [R In, R In, R 8] 16,
   ins .VPUNPCKHDQ [R 0, R 0, R 7] 16, ins .VPUNPCKHDQ [R 8, R 8, R Out] 16]
  ++ rounds32Code 16 15 1 2 13 11 In 7 8 Out ++
  [ins .VPUNPCKLDQ [R 8, R Out, R 0] 16, ins .VPUNPCKLDQ [R In, R 7, R 1] 16, ins .VPUNPCKLQDQ [R 1, R 0, R Out] 16,
   ins .VPSHUFB [R 12, R Out, R Out] 16]

/-- `gHashBlocksLoopBy1(New)` without the `SUBQ`: Acc := (Acc ⊕ D) · H -/
def gh1Code (D Acc : Nat) : List DInstr :=
  [ins .VPXORD [R Acc, R D, R D] 16] ++ mulRedCode 16 19 25 D Acc

/-- `gHashBlocksLoopBy4(New)` without the `SUBQ`: the four lanes of D against H⁴:H³:H²:H, folded into lane 0 of Acc -/
def gh4Code (D Acc : Nat) : List DInstr :=
  [ins .VPXORD [R Acc, R D, R D] 64] ++ mulRedCode 64 29 30 D Acc ++
  [ins .VPERMQ [.imm 78, R Acc, R 0] 64, ins .VPXORD [R Acc, R 0, R 0] 64, ins .VPERMQ [R 0, R 31, R 1] 64,
   ins .VPXORD [R 0, R 1, R Acc] 16]

/-- `load4X(p)` / `load1X(p)`: load, advance the pointer, reflect the bits -/
def load4Code (p : Nat) : List DInstr :=
  [ins .VMOVDQU32 [M p 0, R 20] 64, ins .ADDQ [.imm 64, G p] 0] ++ rbCode 64 20 0 1
def load1Code (p : Nat) : List DInstr :=
  [ins .VMOVDQU32 [M p 0, R 20] 16, ins .ADDQ [.imm 16, G p] 0] ++ rbCode 16 20 0 1

/-- `copyAsm(dst, src, len, tmp)`: by 8, 4, 2, 1 bytes; `p8 p4 p2 p1 pe` = byte offsets of the four loop heads and of the end -/
def copyCode (dst src len tmp p8 p4 p2 p1 pe : Nat) : List DInstr :=
  [ins .CMPQ [G len, .imm 8] 0, jcc .JLT p4, ins .MOVQ [M src 0, G tmp] 0, ins .MOVQ [G tmp, M dst 0] 0,
   ins .ADDQ [.imm 8, G src] 0, ins .ADDQ [.imm 8, G dst] 0, ins .SUBQ [.imm 8, G len] 0, jcc .JMP p8,
   ins .CMPQ [G len, .imm 4] 0, jcc .JLT p2, ins .MOVL [M src 0, G tmp] 0, ins .MOVL [G tmp, M dst 0] 0,
   ins .ADDQ [.imm 4, G src] 0, ins .ADDQ [.imm 4, G dst] 0, ins .SUBQ [.imm 4, G len] 0, jcc .JMP p4,
   ins .CMPQ [G len, .imm 2] 0, jcc .JLT p1, ins .MOVW [M src 0, G tmp] 0, ins .MOVW [G tmp, M dst 0] 0,
   ins .ADDQ [.imm 2, G src] 0, ins .ADDQ [.imm 2, G dst] 0, ins .SUBQ [.imm 2, G len] 0, jcc .JMP p2,
   ins .CMPQ [G len, .imm 1] 0, jcc .JLT pe, ins .MOVB [M src 0, G tmp] 0, ins .MOVB [G tmp, M dst 0] 0,
   ins .ADDQ [.imm 1, G src] 0, ins .ADDQ [.imm 1, G dst] 0, ins .SUBQ [.imm 1, G len] 0, jcc .JMP p1,
   ins .NOP [] 0]

/-- the block loops of `CalculateSPre / CalculateSMid / calculateJ0Branch2` on `cnt` whole blocks at `p`, accumulator
    `Acc`: `CMPQ cnt, $8; JLT by1`, four at a time while more than 3 remain, then one at a time -/
def ghLoopsCode (p cnt Acc p4 p1 pe : Nat) : List DInstr :=
  [ins .CMPQ [G cnt, .imm 8] 0, jcc .JLT p1]
  ++ load4Code p ++ gh4Code 20 Acc ++
  [ins .SUBQ [.imm 4, G cnt] 0, ins .CMPQ [G cnt, .imm 3] 0, jcc .JGT p4, ins .CMPQ [G cnt, .imm 0] 0, jcc .JEQ pe]
  ++ load1Code p ++ gh1Code 20 Acc ++
  [ins .SUBQ [.imm 1, G cnt] 0, ins .CMPQ [G cnt, .imm 0] 0, jcc .JGT p1]

/-- the 1..15 remaining bytes at `p` go through the zeroed scratch block at `G6`: `rem` is their number, saved in `G2` -/
def tailCopyCode (p rem p8 p4 p2 p1 pe : Nat) : List DInstr :=
  [ins .MOVQ [G rem, G 2] 0, ins .MOVQ [.imm 0, M 6 0] 0, ins .MOVQ [.imm 0, M 6 8] 0]
  ++ copyCode 6 p rem 1 p8 p4 p2 p1 pe ++ [ins .SUBQ [G 2, G 6] 0]

/-! ## the part common to both routines: instructions 0 … 1498 -/

/-- `cryptoPrepare`: masks of `reverseBits`, `Shuffle`, the two affine matrices, the counter increments; VxState1 := 0 -/
def prepCode : List DInstr :=
  [ins .LEAQ [.sym "AND_MASK" 0, G 1] 0,
   ins .LEAQ [.sym "LOWER_MASK" 0, G 2] 0,
   ins .VBROADCASTI32X2 [M 1 0, R 22] 64,
   ins .VBROADCASTI32X4 [M 2 0, R 23] 64,
   ins .VPSLLQ [.imm 4, R 23, R 24] 64,
   ins .LEAQ [.sym "Shuffle" 0, G 1] 0,
   ins .VBROADCASTI32X4 [M 1 0, R 12] 64,
   ins .LEAQ [.sym "PreAffineMatrix" 0, G 1] 0,
   ins .LEAQ [.sym "PostAffineMatrix" 0, G 2] 0,
   ins .VBROADCASTI32X2 [M 1 0, R 10] 64,
   ins .VBROADCASTI32X2 [M 2 0, R 11] 64,
   ins .LEAQ [.sym "Counter_Add1" 0, G 1] 0,
   ins .LEAQ [.sym "Counter_Add2" 0, G 2] 0,
   ins .LEAQ [.sym "Counter_Add3" 0, G 8] 0,
   ins .VMOVDQU32 [M 1 0, R 16] 64,
   ins .VMOVDQU32 [M 2 0, R 17] 64,
   ins .VMOVDQU32 [M 8 0, R 18] 64,
   ins .VPXORD [R 6, R 6, R 6] 16]

/-- `gHashPre`: H reflected, GCM_POLY, H.lo ⊕ H.hi, then `gHashBlocksLoopBy4Pre` (lane indices, opmasks, H², H³, H⁴,
    the vector H⁴:H³:H²:H and its lo ⊕ hi) -/
def ghPreCode : List DInstr :=
  rbCode 16 19 1 2 ++
  [ins .LEAQ [.sym "GCM_POLY" 0, G 8] 0,
   ins .VBROADCASTI32X2 [M 8 0, R 26] 64,
   ins .VPSRLDQ [.imm 8, R 19, R 25] 16,
   ins .VPXORD [R 19, R 25, R 25] 16,
   ins .LEAQ [.sym "SHUFFLE_X_LANES" 0, G 1] 0,
   ins .VMOVDQU32 [M 1 0, R 31] 64,
   ins .MOVQ [.imm 12, G 1] 0,
   ins .MOVQ [.imm 240, G 2] 0,
   ins .KMOVW [G 1, K 1] 0,
   ins .KMOVW [G 2, K 2] 0]
  ++ mulRedCode 16 19 25 19 4 ++ mulRedCode 16 19 25 4 5 ++ mulRedCode 16 19 25 5 29 ++
  [ins .LEAQ [.sym "MERGE_H01" 0, G 1] 0,
   ins .LEAQ [.sym "MERGE_H23" 0, G 2] 0,
   ins .VMOVDQU32 [M 1 0, R 0] 32,
   ins .VMOVDQU32 [M 2 0, R 1] 64,
   ins .VPERMQ [R 5, R 0, K 1, R 29] 32,
   ins .VPERMQ [R 19, R 0, K 1, R 4] 32,
   ins .VPERMQ [R 4, R 1, K 2, R 29] 64,
   ins .VPSRLDQ [.imm 8, R 29, R 30] 64,
   ins .VPXORD [R 29, R 30, R 30] 64]

/-- `calculateJ0`: 12-byte nonces take `branch1` (nonce ‖ 0x00000001); any other length is hashed: whole blocks
    (`ghLoopsCode`), the zero-padded remainder through the scratch block, the length block; the result reflected back -/
def j0Code : List DInstr :=
  [ins .VPXORD [R 14, R 14, R 14] 64,
   ins .CMPQ [G 11, .imm 12] 0,
   ins .JEQ [.target 4841] 0,
   ins .MOVQ [G 11, G 10] 0,
   ins .MOVQ [G 11, G 9] 0,
   ins .ANDQ [.imm 15, G 9] 0,
   ins .SHRQ [.imm 4, G 10] 0,
   ins .CMPQ [G 11, .imm 16] 0,
   ins .JLT [.target 4295] 0]
  ++ ghLoopsCode 12 10 14 3892 4113 4295 ++
  [ins .CMPQ [G 9, .imm 0] 0,
   ins .JEQ [.target 4607] 0]
  ++ tailCopyCode 12 9 4323 4350 4376 4404 4430 ++
  [ins .VMOVDQU32 [M 6 0, R 20] 16] ++ rbCode 16 20 0 1 ++ [ins .MOVQ [.imm 1, G 10] 0] ++ gh1Code 20 14 ++
  [ins .SUBQ [.imm 1, G 10] 0,
   ins .SHLQ [.imm 3, G 11] 0,
   ins .LEAQ [.sym "Shuffle2" 0, G 1] 0,
   ins .MOVQ [G 11, R 1] 16,
   ins .VMOVDQU32 [M 1 0, R 0] 16,
   ins .VPSHUFB [R 0, R 1, R 20] 16]
  ++ rbCode 16 20 0 1 ++ [ins .MOVQ [.imm 1, G 10] 0] ++ gh1Code 20 14 ++ [ins .SUBQ [.imm 1, G 10] 0]
  ++ rbCode 16 14 1 2 ++
  [ins .JMP [.target 4882] 0,
   ins .MOVQ [.imm 7, G 9] 0,
   ins .KMOVW [G 9, K 1] 0,
   ins .VPXORD [R 14, R 14, R 14] 16,
   ins .VMOVDQU32 [M 12 0, K 1, R 14] 16,
   ins .VMOVAPD [R 16, R 0] 16,
   ins .PSLLO [.imm 3, R 0] 16,
   ins .VPADDD [R 14, R 0, R 14] 16,
   ins .VMOVAPD [R 14, R 6] 16,
   ins .NOP [] 0]

/-- `CalculateSPre`: GHASH of the additional data into VxTag -/
def sPreCode : List DInstr :=
  [ins .VPXORD [R 21, R 21, R 21] 16,
   ins .MOVQ [G 7, G 12] 0,
   ins .MOVQ [G 7, G 11] 0,
   ins .ANDQ [.imm 15, G 11] 0,
   ins .SHRQ [.imm 4, G 12] 0,
   ins .CMPQ [G 7, .imm 16] 0,
   ins .JLT [.target 8544] 0]
  ++ ghLoopsCode 8 12 21 8143 8363 8544 ++
  [ins .CMPQ [G 11, .imm 0] 0,
   ins .JEQ [.target 8856] 0]
  ++ tailCopyCode 8 11 8572 8598 8623 8650 8675 ++
  load1Code 6 ++ [ins .MOVQ [.imm 1, G 12] 0] ++ gh1Code 20 21 ++ [ins .SUBQ [.imm 1, G 12] 0, ins .NOP [] 0]

/-- instructions 0 … 1498 of both routines: constants, H = E(0¹²⁸), the GHASH context, J0, the tag mask E(J0), the GHASH
    of the additional data -/
def gcmPrefixCode : List DInstr :=
  prepCode ++ [ins .MOVQ [.frame "rk" 8, G 15] 0] ++ sm4OneCode 6 19 ++ ghPreCode ++
  [ins .MOVQ [.frame "nonce" 32, G 12] 0,
   ins .MOVQ [.frame "nonceLen" 40, G 11] 0,
   ins .MOVQ [.frame "tmp" 104, G 6] 0]
  ++ j0Code ++ sm4OneCode 6 15 ++
  [ins .MOVQ [.frame "aData" 80, G 8] 0,
   ins .MOVQ [.frame "aLen" 88, G 7] 0]
  ++ sPreCode

end SMGo.Proofs.ISAVal
