/-
  Property C18, SM2 part — soundness of the incremental table checkers of `TablesCheck.lean`:
  if `checkSub` succeeds for every sub-table then every entry is the stated multiple of `G`
  (`combMultiplier`), if `checkRem` succeeds then entry `idx` of the remainder table is `[idx]G`.
  Uses the group laws of `Spec.SM2.add` / `smul` on valid points (`CurveGroup.lean`).
-/
import SMGo.Proofs.CurveGroup
import SMGo.Proofs.CurveBits
import SMGo.Proofs.TablesCheck
namespace SMGo.Proofs.Tables
open SMGo SMGo.Spec.SM2 SMGo.Model.Field SMGo.Proofs.CurveGroup SMGo.Proofs.CurveBits

/-! ### small facts -/

theorem ptEq_iff (P Q : Spec.SM2.Point) : ptEq P Q = true ↔ P = Q := by
  rcases P with _ | ⟨x1, y1⟩ <;> rcases Q with _ | ⟨x2, y2⟩ <;> simp [ptEq]

theorem smul_one {P : Spec.SM2.Point} (hP : Valid P) : smul 1 P = P :=
  toPoint_injective (smul_valid 1 hP) hP (by rw [toPoint_smul 1 hP, one_nsmul])

theorem dblN_smul {P : Spec.SM2.Point} (hP : Valid P) (k m : Nat) :
    dblN k (smul m P) = smul (2 ^ k * m) P := by
  induction k generalizing m with
  | zero => simp [dblN]
  | succ k ih =>
    rw [dblN, ← smul_add hP, ih, Nat.pow_succ]
    congr 1
    rw [Nat.mul_assoc, Nat.two_mul]

theorem dblN_G (k : Nat) : dblN k G = smul (2 ^ k) G := by
  have := dblN_smul G_valid k 1
  rwa [smul_one G_valid, Nat.mul_one] at this

/-! ### binary digits of `2^w + x` -/

theorem bit_add_low {w t : Nat} (x : Nat) (h : t < w) : (2 ^ w + x) / 2 ^ t % 2 = x / 2 ^ t % 2 := by
  obtain ⟨c, rfl⟩ := Nat.exists_eq_add_of_lt h
  have e : 2 ^ (t + c + 1) = 2 ^ c * 2 * 2 ^ t := by
    rw [Nat.add_assoc, Nat.pow_add, Nat.pow_succ, Nat.mul_comm]
  rw [e, Nat.add_comm, Nat.add_mul_div_right _ _ (Nat.pow_pos (by decide)), Nat.add_mul_mod_self_right]

theorem bit_top {w x : Nat} (h : x < 2 ^ w) : (2 ^ w + x) / 2 ^ w % 2 = 1 := by
  rw [Nat.add_comm, Nat.add_div_right _ (Nat.pow_pos (by decide)), Nat.div_eq_of_lt h]

/-- the multiplier of pattern `idx` in a comb with lowest exponent `e0` and bit distance `d` -/
def mult (e0 d w idx : Nat) : Nat := sumN w (fun t => idx / 2 ^ t % 2 * 2 ^ (e0 + t * d))

theorem combMultiplier_eq_mult (w s it r j idx : Nat) :
    combMultiplier w s it r j idx = mult (r + j * it) (s * it) w idx := by
  unfold combMultiplier mult
  exact sumN_congr (fun t _ => by rw [Nat.mul_assoc])

theorem mult_zero (e0 d w : Nat) : mult e0 d w 0 = 0 := by
  unfold mult
  refine (sumN_congr (g := fun _ => 0) (fun t _ => ?_)).trans (sumN_const_zero w)
  rw [Nat.zero_div, Nat.zero_mod, Nat.zero_mul]

theorem mult_succ_lt (e0 d : Nat) {w idx : Nat} (h : idx < 2 ^ w) :
    mult e0 d (w + 1) idx = mult e0 d w idx := by
  unfold mult
  rw [sumN_succ, Nat.div_eq_of_lt h, Nat.zero_mod, Nat.zero_mul, Nat.add_zero]

theorem mult_succ_top (e0 d : Nat) {w x : Nat} (h : x < 2 ^ w) :
    mult e0 d (w + 1) (2 ^ w + x) = mult e0 d w x + 2 ^ (e0 + w * d) := by
  unfold mult
  rw [sumN_succ, bit_top h, Nat.one_mul]
  congr 1
  exact sumN_congr (fun t ht => by rw [bit_add_low x ht])

theorem mult_pow (e0 d : Nat) {w t : Nat} (h : t < w) : mult e0 d w (2 ^ t) = 2 ^ (e0 + t * d) := by
  induction w with
  | zero => omega
  | succ w ih =>
    by_cases htw : t < w
    · rw [mult_succ_lt e0 d (Nat.pow_lt_pow_right (by decide) htw), ih htw]
    · have : t = w := by omega
      subst this
      have := mult_succ_top e0 d (w := t) (x := 0) (Nat.pow_pos (by decide))
      rw [Nat.add_zero, mult_zero, Nat.zero_add] at this
      exact this

/-! ### soundness of the comb check -/

theorem checkComb_sound (T : List Spec.SM2.Point) (B : Spec.SM2.Point) (e0 d : Nat)
    (hB : B = smul (2 ^ e0) G) :
    ∀ w, checkComb T B d w = true →
      ∀ idx, 1 ≤ idx → idx < 2 ^ w → ent T idx = smul (mult e0 d w idx) G := by
  intro w
  induction w with
  | zero => intro _ idx h1 h2; simp at h2; omega
  | succ w ih =>
    intro hc
    simp only [checkComb, Bool.and_eq_true, ptEq_iff, List.all_eq_true, List.mem_range] at hc
    obtain ⟨⟨h1, h2⟩, h3⟩ := hc
    have ih := ih h1
    -- the single-bit entry of this level
    have hQ : ent T (2 ^ w) = smul (2 ^ (e0 + w * d)) G := by
      rw [h2]
      rcases w with _ | w'
      · rw [if_pos rfl, hB, Nat.zero_mul, Nat.add_zero]
      · rw [if_neg (Nat.succ_ne_zero w'), Nat.add_sub_cancel,
          ih (2 ^ w') (Nat.pow_pos (by decide)) (Nat.pow_lt_pow_right (by decide) (Nat.lt_succ_self w')),
          mult_pow e0 d (Nat.lt_succ_self w'), dblN_smul G_valid, ← Nat.pow_add]
        congr 2
        rw [Nat.succ_mul]; omega
    intro idx hi1 hi2
    by_cases hlt : idx < 2 ^ w
    · rw [mult_succ_lt e0 d hlt]; exact ih idx hi1 hlt
    · obtain ⟨x, rfl⟩ := Nat.exists_eq_add_of_le (Nat.le_of_not_lt hlt)
      have hx : x < 2 ^ w := by rw [Nat.pow_succ] at hi2; omega
      rw [mult_succ_top e0 d hx]
      rcases x with _ | i
      · rw [Nat.add_zero, mult_zero, Nat.zero_add]; exact hQ
      · rw [h3 i (by omega), hQ, ih (i + 1) (by omega) hx, ← smul_add G_valid]

/-- every sub-table check succeeds ⇒ every base point and every entry is the stated multiple -/
theorem checkSub_sound (first : List (List (List (List Nat)))) (w s it r : Nat) (hw : 1 ≤ w)
    (hc : ∀ j, j < s → checkSub first w s it r j = true) :
    ∀ j, j < s → ∀ idx, 1 ≤ idx → idx < 2 ^ w →
      ent (pts (first.getD j [])) idx = smul (combMultiplier w s it r j idx) G := by
  have base : ∀ j, j < s → basePt first it r j = smul (2 ^ (r + j * it)) G := by
    intro j
    induction j with
    | zero => intro _; rw [basePt, if_pos rfl, dblN_G, Nat.zero_mul, Nat.add_zero]
    | succ j ih =>
      intro hj
      have hjs : j < s := by omega
      have h1 := checkComb_sound _ _ (r + j * it) (s * it) (ih hjs) w (hc j hjs) 1 (Nat.le_refl 1)
        (Nat.one_lt_two_pow (by omega))
      have e1 : mult (r + j * it) (s * it) w 1 = 2 ^ (r + j * it) := by
        have := mult_pow (r + j * it) (s * it) (w := w) (t := 0) (by omega)
        rwa [Nat.pow_zero, Nat.zero_mul, Nat.add_zero] at this
      rw [basePt, if_neg (Nat.succ_ne_zero j), Nat.add_sub_cancel, h1, e1, dblN_smul G_valid,
        ← Nat.pow_add]
      congr 2
      rw [Nat.succ_mul]; omega
  intro j hj idx h1 h2
  rw [combMultiplier_eq_mult]
  exact checkComb_sound _ _ (r + j * it) (s * it) (base j hj) w (hc j hj) idx h1 h2

theorem checkRem_sound (second : List (List (List Nat))) (r : Nat) (hc : checkRem second r = true) :
    ∀ idx, 1 ≤ idx → idx < 2 ^ r → ent (pts second) idx = smul idx G := by
  simp only [checkRem, Bool.and_eq_true, ptEq_iff, List.all_eq_true, List.mem_range] at hc
  obtain ⟨h1, h2⟩ := hc
  intro idx
  induction idx with
  | zero => intro h; omega
  | succ i ih =>
    intro _ hlt
    rcases i with _ | i
    · rw [h1, smul_one G_valid]
    · rw [h2 i (by omega), ih (by omega) (by omega), smul_add G_valid (i + 1) 1, smul_one G_valid]

/-! ### shape -/

theorem limbsOK_iff (l : List Nat) :
    limbsOK l = true ↔ l.length = 4 ∧ (∀ v ∈ l, v < 2 ^ 64) ∧ limbsToNat l < p := by
  simp only [limbsOK, Bool.and_eq_true, beq_iff_eq, List.all_eq_true, decide_eq_true_eq, and_assoc]

theorem getD_mem {α : Type} (l : List α) (d : α) {i : Nat} (h : i < l.length) : l.getD i d ∈ l := by
  rw [List.getD_eq_getElem?_getD, List.getElem?_eq_getElem h]
  exact List.getElem_mem h

theorem coordsOK_sound {xs : List (List Nat)} {n : Nat} (h : coordsOK xs n = true) :
    xs.length = n ∧ ∀ i, i < n → limbsOK (xs.getD i []) = true := by
  simp only [coordsOK, Bool.and_eq_true, beq_iff_eq, List.all_eq_true] at h
  obtain ⟨h1, h2⟩ := h
  exact ⟨h1, fun i hi => h2 _ (getD_mem _ _ (by omega))⟩

theorem getD_zipWith {α β γ : Type} (f : α → β → γ) (dx : α) (dy : β) (d : γ) :
    ∀ (xs : List α) (ys : List β) (i : Nat), i < xs.length → i < ys.length →
      (List.zipWith f xs ys).getD i d = f (xs.getD i dx) (ys.getD i dy) := by
  intro xs
  induction xs with
  | nil => intro ys i h; simp at h
  | cons x xs ih =>
    intro ys i h1 h2
    rcases ys with _ | ⟨y, ys⟩
    · simp at h2
    · rcases i with _ | i
      · simp
      · simp only [List.length_cons, Nat.add_lt_add_iff_right] at h1 h2
        simpa using ih ys i h1 h2

/-- what is proved about one stored entry `(x, y)`: four limbs below 2^64 each, stored values
    reduced mod p, the affine point (out of Montgomery form) on the curve and equal to `[m]G` -/
structure EntryOK (x y : List Nat) (m : Nat) : Prop where
  lenX : x.length = 4
  lenY : y.length = 4
  limbsX : ∀ v ∈ x, v < 2 ^ 64
  limbsY : ∀ v ∈ y, v < 2 ^ 64
  canonX : limbsToNat x < p
  canonY : limbsToNat y < p
  onCurve : Spec.SM2.onCurve (limbsToNat x * rinv % p) (limbsToNat y * rinv % p) = true
  val : entryAffine x y = smul m G

/-- entries of a well-shaped x/y table -/
theorem xy_entry {t : List (List (List Nat))} {n : Nat} (hs : xyOK t n = true)
    {idx m : Nat} (h1 : 1 ≤ idx) (h2 : idx ≤ n) (hv : ent (pts t) idx = smul m G) :
    EntryOK ((t.getD 0 []).getD (idx - 1) []) ((t.getD 1 []).getD (idx - 1) []) m := by
  simp only [xyOK, Bool.and_eq_true, beq_iff_eq] at hs
  obtain ⟨⟨_, hx⟩, hy⟩ := hs
  obtain ⟨hxl, hxe⟩ := coordsOK_sound hx
  obtain ⟨hyl, hye⟩ := coordsOK_sound hy
  obtain ⟨a1, a2, a3⟩ := (limbsOK_iff _).mp (hxe (idx - 1) (by omega))
  obtain ⟨b1, b2, b3⟩ := (limbsOK_iff _).mp (hye (idx - 1) (by omega))
  have hv' : entryAffine ((t.getD 0 []).getD (idx - 1) []) ((t.getD 1 []).getD (idx - 1) [])
      = smul m G := by
    rw [← hv, ent, pts, getD_zipWith entryAffine [] [] none _ _ _ (by omega) (by omega)]
  have hval : Valid (entryAffine ((t.getD 0 []).getD (idx - 1) []) ((t.getD 1 []).getD (idx - 1) [])) := by
    rw [hv']; exact smul_valid m G_valid
  exact ⟨a1, b1, a2, b2, a3, b3, hval.2.2, hv'⟩

theorem xy_lengths {t : List (List (List Nat))} {n : Nat} (hs : xyOK t n = true) :
    t.length = 2 ∧ (t.getD 0 []).length = n ∧ (t.getD 1 []).length = n := by
  simp only [xyOK, Bool.and_eq_true, beq_iff_eq] at hs
  exact ⟨hs.1.1, (coordsOK_sound hs.1.2).1, (coordsOK_sound hs.2).1⟩

theorem firstOK_sound {first : List (List (List (List Nat)))} {w s : Nat}
    (h : firstOK first w s = true) :
    first.length = s ∧ ∀ j, j < s → xyOK (first.getD j []) (2 ^ w - 1) = true := by
  simp only [firstOK, Bool.and_eq_true, beq_iff_eq, List.all_eq_true] at h
  obtain ⟨h1, h2⟩ := h
  exact ⟨h1, fun j hj => h2 _ (getD_mem _ _ (by omega))⟩

/-- validity of a first table of a `w`-`s`-`it`-`r` comb: `s` sub-tables, each an x list and a y list
    of `2^w - 1` entries, entry `idx - 1` of sub-table `j` being `[combMultiplier w s it r j idx]G` -/
def FirstValid (first : List (List (List (List Nat)))) (w s it r : Nat) : Prop :=
  first.length = s ∧
  ∀ j, j < s →
    (first.getD j []).length = 2 ∧
    ((first.getD j []).getD 0 []).length = 2 ^ w - 1 ∧
    ((first.getD j []).getD 1 []).length = 2 ^ w - 1 ∧
    ∀ idx, 1 ≤ idx → idx < 2 ^ w →
      EntryOK (((first.getD j []).getD 0 []).getD (idx - 1) [])
        (((first.getD j []).getD 1 []).getD (idx - 1) []) (combMultiplier w s it r j idx)

/-- validity of a remainder table: an x list and a y list of `2^r - 1` entries, entry `idx - 1`
    being `[idx]G` -/
def SecondValid (second : List (List (List Nat))) (r : Nat) : Prop :=
  second.length = 2 ∧
  (second.getD 0 []).length = 2 ^ r - 1 ∧
  (second.getD 1 []).length = 2 ^ r - 1 ∧
  ∀ idx, 1 ≤ idx → idx < 2 ^ r →
    EntryOK ((second.getD 0 []).getD (idx - 1) []) ((second.getD 1 []).getD (idx - 1) []) idx

/-- **first table**: shape and checks ⇒ valid -/
theorem first_valid (first : List (List (List (List Nat)))) (w s it r : Nat) (hw : 1 ≤ w)
    (hs : firstOK first w s = true) (hc : ∀ j, j < s → checkSub first w s it r j = true) :
    FirstValid first w s it r := by
  obtain ⟨hl, hxy⟩ := firstOK_sound hs
  refine ⟨hl, fun j hj => ?_⟩
  obtain ⟨l1, l2, l3⟩ := xy_lengths (hxy j hj)
  exact ⟨l1, l2, l3, fun idx h1 h2 =>
    xy_entry (hxy j hj) h1 (by omega) (checkSub_sound first w s it r hw hc j hj idx h1 h2)⟩

/-- **remainder table**: shape and check ⇒ valid -/
theorem second_valid (second : List (List (List Nat))) (r : Nat)
    (hs : xyOK second (2 ^ r - 1) = true) (hc : checkRem second r = true) :
    SecondValid second r := by
  obtain ⟨l1, l2, l3⟩ := xy_lengths hs
  exact ⟨l1, l2, l3, fun idx h1 h2 =>
    xy_entry hs h1 (by omega) (checkRem_sound second r hc idx h1 h2)⟩

end SMGo.Proofs.Tables
