/-
  Lemmas for property C20, first half: the borrow-chain comparison of utils.go equals the
  lexicographic comparison, and the lexicographic order of equal-length byte strings is the
  order of their big-endian values.
-/
import SMGo.Spec.Utils
import SMGo.Model.Utils
namespace SMGo.Proofs.UtilsCmp
open SMGo SMGo.Model.Utils SMGo.Spec.Utils

/-! ### lexCmp -/

theorem lexCmp_self (x : Bytes) : lexCmp x x = 0 := by
  induction x with
  | nil => rfl
  | cons a xs ih => simp [lexCmp, ih]

theorem lexCmp_range (x y : Bytes) : lexCmp x y = -1 ∨ lexCmp x y = 0 ∨ lexCmp x y = 1 := by
  induction x generalizing y with
  | nil => cases y <;> simp [lexCmp]
  | cons a xs ih =>
    cases y with
    | nil => simp [lexCmp]
    | cons b ys =>
      simp only [lexCmp]
      split
      · simp
      · split
        · simp
        · exact ih ys

theorem lexCmp_eq_zero (x y : Bytes) : lexCmp x y = 0 ↔ x = y := by
  induction x generalizing y with
  | nil => cases y <;> simp [lexCmp]
  | cons a xs ih =>
    cases y with
    | nil => simp [lexCmp]
    | cons b ys =>
      simp only [lexCmp]
      split
      · rename_i h
        have : a ≠ b := fun e => by subst e; exact absurd h (UInt8.lt_irrefl _)
        simp [this]
      · split
        · rename_i h
          have : a ≠ b := fun e => by subst e; exact absurd h (UInt8.lt_irrefl _)
          simp [this]
        · rename_i h1 h2
          have hab : a = b := by
            apply UInt8.toNat_inj.mp
            rw [UInt8.lt_iff_toNat_lt] at h1 h2
            omega
          simp [hab, ih ys]

theorem lexCmp_swap (x y : Bytes) : lexCmp x y = 1 ↔ lexCmp y x = -1 := by
  induction x generalizing y with
  | nil => cases y <;> simp [lexCmp]
  | cons a xs ih =>
    cases y with
    | nil => simp [lexCmp]
    | cons b ys =>
      simp only [lexCmp, UInt8.lt_iff_toNat_lt]
      by_cases h1 : a.toNat < b.toNat
      · have : ¬ b.toNat < a.toNat := by omega
        simp [h1, this]
      · by_cases h2 : b.toNat < a.toNat
        · simp [h1, h2]
        · simp only [h1, h2, if_false]; exact ih ys

/-! ### big-endian value -/

theorem toNatBE_append_singleton (xs : Bytes) (b : UInt8) :
    Bytes.toNatBE (xs ++ [b]) = Bytes.toNatBE xs * 256 + b.toNat := by
  simp [Bytes.toNatBE, List.foldl_append]

theorem foldl_init (xs : Bytes) (acc : Nat) :
    xs.foldl (fun acc b => acc * 256 + b.toNat) acc
      = acc * 256 ^ xs.length + xs.foldl (fun acc b => acc * 256 + b.toNat) 0 := by
  induction xs generalizing acc with
  | nil => simp
  | cons a xs ih =>
    simp only [List.foldl_cons, List.length_cons]
    rw [ih (acc * 256 + a.toNat), ih (0 * 256 + a.toNat)]
    rw [Nat.pow_succ, Nat.add_mul, Nat.zero_mul, Nat.zero_add, Nat.mul_assoc,
      Nat.mul_comm (256 ^ xs.length) 256, Nat.add_assoc]

theorem toNatBE_cons (a : UInt8) (xs : Bytes) :
    Bytes.toNatBE (a :: xs) = a.toNat * 256 ^ xs.length + Bytes.toNatBE xs := by
  simp only [Bytes.toNatBE, List.foldl_cons]
  rw [foldl_init]; simp

theorem toNatBE_lt (xs : Bytes) : Bytes.toNatBE xs < 256 ^ xs.length := by
  induction xs with
  | nil => simp [Bytes.toNatBE]
  | cons a xs ih =>
    rw [toNatBE_cons, List.length_cons, Nat.pow_succ]
    have := UInt8.toNat_lt a
    have h : a.toNat * 256 ^ xs.length + 256 ^ xs.length ≤ 256 * 256 ^ xs.length := by
      rw [← Nat.succ_mul]; exact Nat.mul_le_mul_right _ (by omega)
    rw [Nat.mul_comm (256 ^ xs.length) 256]
    omega

theorem lexCmp_lt_iff_toNat (x y : Bytes) (h : x.length = y.length) :
    lexCmp x y = -1 ↔ Bytes.toNatBE x < Bytes.toNatBE y := by
  induction x generalizing y with
  | nil =>
    cases y with
    | nil => simp [lexCmp, Bytes.toNatBE]
    | cons b ys => simp at h
  | cons a xs ih =>
    cases y with
    | nil => simp at h
    | cons b ys =>
      simp only [List.length_cons, Nat.add_right_cancel_iff] at h
      have ih' := ih ys h
      rw [toNatBE_cons, toNatBE_cons, ← h]
      have hx := toNatBE_lt xs
      have hy := toNatBE_lt ys
      rw [← h] at hy
      generalize 256 ^ xs.length = P at *
      generalize Bytes.toNatBE xs = X at *
      generalize Bytes.toNatBE ys = Y at *
      simp only [lexCmp]
      by_cases h1 : a < b
      · simp only [h1, if_true, true_iff]
        have h1' := UInt8.lt_iff_toNat_lt.mp h1
        have : (a.toNat + 1) * P ≤ b.toNat * P := Nat.mul_le_mul_right _ h1'
        rw [Nat.succ_mul] at this
        omega
      · by_cases h2 : b < a
        · simp only [h1, h2, if_true, if_false]
          have h2' := UInt8.lt_iff_toNat_lt.mp h2
          have : (b.toNat + 1) * P ≤ a.toNat * P := Nat.mul_le_mul_right _ h2'
          rw [Nat.succ_mul] at this
          constructor
          · intro h; omega
          · intro h; omega
        · have hab : a.toNat = b.toNat := by
            rw [UInt8.lt_iff_toNat_lt] at h1 h2
            omega
          simp only [h1, h2, if_false, hab]
          rw [ih']; omega

/-! ### the borrow chain -/

/-- loop invariant: `borrow` says whether the processed suffix of `a` is below that of `b`,
    `diff = 0` says whether the suffixes are equal -/
def Inv (sa sb : Bytes) (borrow diff : W32) : Prop :=
  ((borrow = 1 ∧ lexCmp sa sb = -1) ∨ (borrow = 0 ∧ lexCmp sa sb ≠ -1)) ∧ (diff = 0 ↔ sa = sb)

theorem or_eq_zero (x y : W32) : x ||| y = 0 ↔ x = 0 ∧ y = 0 := BitVec.or_eq_zero_iff

theorem sub_eq_zero_iff (A B : Nat) (bo : W32) (hA : A < 256) (hB : B < 256) (hbo : bo.toNat ≤ 1) :
    BitVec.ofNat 32 A - BitVec.ofNat 32 B - bo = 0 ↔ A = B + bo.toNat := by
  rw [← BitVec.toNat_inj]
  have h0 : (0 : W32).toNat = 0 := rfl
  simp only [BitVec.toNat_sub, BitVec.toNat_ofNat, h0]
  omega

theorem lexCmp_cons_lt (A B : UInt8) (sa sb : Bytes) :
    lexCmp (A :: sa) (B :: sb) = -1 ↔
      (A.toNat < B.toNat ∨ (A.toNat = B.toNat ∧ lexCmp sa sb = -1)) := by
  simp only [lexCmp, UInt8.lt_iff_toNat_lt]
  split
  · rename_i h; simp [h]
  · split
    · rename_i h1 h2
      constructor
      · intro h; omega
      · intro h; omega
    · rename_i h1 h2
      have : A.toNat = B.toNat := by omega
      simp [this]

/-- one iteration of the loop keeps the invariant -/
theorem inv_step (A B : UInt8) (sa sb : Bytes) (borrow diff : W32) (h : Inv sa sb borrow diff) :
    Inv (A :: sa) (B :: sb)
      (sub32 (BitVec.ofNat 32 A.toNat) (BitVec.ofNat 32 B.toNat) borrow).2
      (diff ||| (sub32 (BitVec.ofNat 32 A.toNat) (BitVec.ofNat 32 B.toNat) borrow).1) := by
  have hA : A.toNat < 256 := UInt8.toNat_lt A
  have hB : B.toNat < 256 := UInt8.toNat_lt B
  obtain ⟨hb, hd⟩ := h
  have hinj : A = B ↔ A.toNat = B.toNat := UInt8.toNat_inj.symm
  have hself := lexCmp_self sa
  have hbo : borrow.toNat ≤ 1 := by rcases hb with ⟨rfl, _⟩ | ⟨rfl, _⟩ <;> decide
  have hA32 : A.toNat % 2 ^ 32 = A.toNat := Nat.mod_eq_of_lt (by omega)
  have hB32 : B.toNat % 2 ^ 32 = B.toNat := Nat.mod_eq_of_lt (by omega)
  unfold Inv sub32
  simp only [ne_eq, or_eq_zero, List.cons.injEq, BitVec.toNat_ofNat, hA32, hB32,
    sub_eq_zero_iff _ _ _ hA hB hbo, lexCmp_cons_lt, hinj]
  have h1 : (1 : W32) ≠ 0 := by decide
  rcases hb with ⟨rfl, hl⟩ | ⟨rfl, hl⟩
  · -- borrow = 1, suffix of a below suffix of b
    have hne : sa ≠ sb := fun e => by subst e; rw [hself] at hl; omega
    have hdiff : diff ≠ 0 := fun e => hne (hd.mp e)
    have t1 : (1 : W32).toNat = 1 := rfl
    simp only [t1, hdiff, hne, false_and, and_false, iff_self, and_true, hl]
    by_cases c : A.toNat < B.toNat + 1
    · left; simp only [c, if_true, true_and]; omega
    · right; simp only [c, if_false, true_and]; omega
  · -- borrow = 0
    have t0 : (0 : W32).toNat = 0 := rfl
    simp only [t0, Nat.add_zero, hd]
    refine ⟨?_, And.comm⟩
    by_cases c : A.toNat < B.toNat
    · left; simp only [c, if_true, true_and, true_or]
    · right; simp only [c, if_false, true_and, false_or]
      intro h; exact hl h.2

theorem inv_nil : Inv [] [] 0 0 := by simp [Inv, lexCmp]

/-- `nz = (diff | -diff) >> 31` is 0 for diff = 0 -/
theorem nz_zero : (((0 : W32) ||| (0 - 0)) >>> 31) = 0 := by decide

/-- `nz = (diff | -diff) >> 31` is 1 for diff ≠ 0: diff or its negation has the top bit set -/
theorem nz_ne (d : W32) (h : d ≠ 0) : ((d ||| (0 - d)) >>> 31) = 1 := by
  rw [← BitVec.toNat_inj]
  have hd : d.toNat ≠ 0 := fun e => h (BitVec.toNat_inj.mp (by simpa using e))
  have hlt := d.isLt
  have t0 : (0 : W32).toNat = 0 := rfl
  have t1 : (1 : W32).toNat = 1 := rfl
  simp only [BitVec.toNat_ushiftRight, BitVec.toNat_or, BitVec.toNat_sub, t0, t1,
    Nat.shiftRight_eq_div_pow, Nat.add_zero]
  have h1 : d.toNat ≤ d.toNat ||| ((2 ^ 32 - d.toNat) % 2 ^ 32) := Nat.left_le_or
  have h2 : ((2 ^ 32 - d.toNat) % 2 ^ 32) ≤ d.toNat ||| ((2 ^ 32 - d.toNat) % 2 ^ 32) :=
    Nat.right_le_or
  have h3 : d.toNat ||| ((2 ^ 32 - d.toNat) % 2 ^ 32) < 2 ^ 32 :=
    Nat.or_lt_two_pow hlt (Nat.mod_lt _ (by decide))
  generalize d.toNat ||| ((2 ^ 32 - d.toNat) % 2 ^ 32) = o at *
  omega

/-- the branch-free result expression of the code, as a function of the final loop state -/
def result (borrow diff : W32) : Int :=
  (((((diff ||| (0 - diff)) >>> 31) &&& (1 - borrow)).toNat : Int)) - (borrow.toNat : Int)

/-- reading off the result from the final invariant -/
theorem inv_result (x y : Bytes) (borrow diff : W32) (h : Inv x y borrow diff) :
    result borrow diff = lexCmp x y := by
  obtain ⟨hb, hd⟩ := h
  unfold result
  rcases hb with ⟨rfl, hl⟩ | ⟨rfl, hl⟩
  · -- borrow = 1: nz &&& 0 = 0, result -1
    rw [hl]
    have : (1 : W32) - 1 = 0 := by decide
    rw [this]
    have hz : ((diff ||| (0 - diff)) >>> 31 &&& (0 : W32)) = 0 := BitVec.and_zero
    rw [hz]; rfl
  · have e10 : (1 : W32) - 0 = 1 := by decide
    rw [e10]
    by_cases e : diff = 0
    · have := hd.mp e; subst this; subst e
      rw [nz_zero, lexCmp_self]; rfl
    · have hne : x ≠ y := fun h => e (hd.mpr h)
      have h0 : lexCmp x y ≠ 0 := fun h => hne ((lexCmp_eq_zero x y).mp h)
      rw [nz_ne diff e]
      have : ((((1 : W32) &&& 1).toNat : Int)) - (((0 : W32).toNat : Nat) : Int) = 1 := by decide
      rw [this]
      rcases lexCmp_range x y with h | h | h <;> omega

theorem cmpLoop_inv (a b : Bytes) (l : Nat) (ha : l ≤ a.length) (hb : l ≤ b.length) :
    ∀ (i : Nat) (borrow diff : W32), i ≤ l →
      Inv ((a.take l).drop i) ((b.take l).drop i) borrow diff →
      ∃ bo df, cmpLoop a b i borrow diff = .ok (bo, df) ∧ Inv (a.take l) (b.take l) bo df := by
  intro i
  induction i with
  | zero => intro borrow diff _ h; exact ⟨borrow, diff, rfl, by simpa using h⟩
  | succ i ih =>
    intro borrow diff hi h
    have hia : i < a.length := by omega
    have hib : i < b.length := by omega
    have e1 : (a.take l).drop i = a[i] :: (a.take l).drop (i + 1) := by
      rw [List.drop_eq_getElem_cons (by simp; omega)]; simp
    have e2 : (b.take l).drop i = b[i] :: (b.take l).drop (i + 1) := by
      rw [List.drop_eq_getElem_cons (by simp; omega)]; simp
    have step := inv_step a[i] b[i] _ _ borrow diff h
    rw [← e1, ← e2] at step
    obtain ⟨bo, df, hrun, hinv⟩ := ih _ _ (by omega) step
    refine ⟨bo, df, ?_, hinv⟩
    simp only [cmpLoop, Outcome.idx, List.getElem?_eq_getElem hia, List.getElem?_eq_getElem hib,
      Outcome.bind_ok]
    exact hrun

theorem cmpLoop_panics (a b : Bytes) (i : Nat) (borrow diff : W32)
    (h : i + 1 > a.length ∨ i + 1 > b.length) : cmpLoop a b (i + 1) borrow diff = .panic := by
  by_cases ha : i < a.length
  · have hb : b[i]? = none := by simp; omega
    simp [cmpLoop, Outcome.idx, List.getElem?_eq_getElem ha, hb]
  · have ha' : a[i]? = none := by simp; omega
    simp [cmpLoop, Outcome.idx, ha']

theorem cmp_ok (a b : Bytes) (l : Nat) (ha : l ≤ a.length) (hb : l ≤ b.length) :
    constantTimeCmp (some a) (some b) l = .ok (lexCmp (a.take l) (b.take l)) := by
  have h0 : Inv ((a.take l).drop l) ((b.take l).drop l) 0 0 := by
    rw [List.drop_eq_nil_of_le (by simp; omega), List.drop_eq_nil_of_le (by simp; omega)]
    exact inv_nil
  obtain ⟨bo, df, hrun, hinv⟩ := cmpLoop_inv a b l ha hb l 0 0 (Nat.le_refl _) h0
  have hres := inv_result _ _ bo df hinv
  simp only [constantTimeCmp, Int.toNat_natCast, hrun, Outcome.bind_ok]
  rw [← hres]
  rfl

theorem cmp_total (a b : Option Bytes) (l : Int) : constantTimeCmp a b l = Spec.Utils.cmp a b l := by
  cases a with
  | none => simp [constantTimeCmp, Spec.Utils.cmp]
  | some a =>
    cases b with
    | none => simp [constantTimeCmp, Spec.Utils.cmp]
    | some b =>
      by_cases h : l.toNat > a.length ∨ l.toNat > b.length
      · simp only [Spec.Utils.cmp, h, if_true]
        obtain ⟨i, hi⟩ : ∃ i, l.toNat = i + 1 := ⟨l.toNat - 1, by omega⟩
        simp only [constantTimeCmp, hi]
        rw [cmpLoop_panics a b i 0 0 (by omega)]
        rfl
      · simp only [Spec.Utils.cmp, h, if_false]
        have := cmp_ok a b l.toNat (by omega) (by omega)
        simp only [constantTimeCmp, Int.toNat_natCast] at this
        simp only [constantTimeCmp]
        exact this

end SMGo.Proofs.UtilsCmp
