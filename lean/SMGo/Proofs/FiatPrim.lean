/-
  Shared vocabulary and primitive lemmas for the proofs about the generated Fiat-Crypto models
  (property C16): limb lists, canonical elements, the `math/bits` primitives and the conditional move.
  Core Lean only.
-/
import SMGo.Model.FiatPrim
import SMGo.Model.Field
namespace SMGo.Proofs.Fiat
open SMGo SMGo.Model.FiatPrim

/-- value of a (four-)limb list, little endian, 64-bit limbs -/
abbrev eval (l : List Nat) : Nat := Model.Field.limbsToNat l

/-- canonical element for the modulus `m`: four limbs below 2^64, value below `m` -/
def Canon (m : Nat) (l : List Nat) : Prop :=
  l.length = 4 ∧ (∀ x ∈ l, x < 2 ^ 64) ∧ eval l < m

/-- four limbs below 2^64 (no bound on the value) -/
def Limbs4 (l : List Nat) : Prop := l.length = 4 ∧ ∀ x ∈ l, x < 2 ^ 64

theorem eval_four (a0 a1 a2 a3 : Nat) :
    eval [a0, a1, a2, a3] = a0 + a1 * 18446744073709551616
      + a2 * 340282366920938463463374607431768211456
      + a3 * 6277101735386680763835789423207666416102355444464034512896 := by
  simp only [eval, Model.Field.limbsToNat, List.getD_cons_zero, List.getD_cons_succ]

theorem limbs4_cases {l : List Nat} (h : Limbs4 l) :
    ∃ a0 a1 a2 a3, l = [a0, a1, a2, a3] ∧ a0 < 18446744073709551616 ∧ a1 < 18446744073709551616 ∧
      a2 < 18446744073709551616 ∧ a3 < 18446744073709551616 := by
  obtain ⟨hl, hb⟩ := h
  match l, hl with
  | [a0, a1, a2, a3], _ =>
    exact ⟨a0, a1, a2, a3, rfl, hb a0 (by simp), hb a1 (by simp), hb a2 (by simp), hb a3 (by simp)⟩

theorem limbs4_mk {a0 a1 a2 a3 : Nat} (h0 : a0 < 18446744073709551616) (h1 : a1 < 18446744073709551616)
    (h2 : a2 < 18446744073709551616) (h3 : a3 < 18446744073709551616) : Limbs4 [a0, a1, a2, a3] := by
  refine ⟨rfl, ?_⟩
  intro x hx
  simp only [List.mem_cons, List.not_mem_nil, or_false] at hx
  rcases hx with rfl | rfl | rfl | rfl <;> assumption

theorem canon_cases {m : Nat} {l : List Nat} (h : Canon m l) :
    ∃ a0 a1 a2 a3, l = [a0, a1, a2, a3] ∧ a0 < 18446744073709551616 ∧ a1 < 18446744073709551616 ∧
      a2 < 18446744073709551616 ∧ a3 < 18446744073709551616 ∧
      a0 + a1 * 18446744073709551616 + a2 * 340282366920938463463374607431768211456
        + a3 * 6277101735386680763835789423207666416102355444464034512896 < m := by
  obtain ⟨hl, hb, hv⟩ := h
  obtain ⟨a0, a1, a2, a3, rfl, h0, h1, h2, h3⟩ := limbs4_cases ⟨hl, hb⟩
  rw [eval_four] at hv
  exact ⟨a0, a1, a2, a3, rfl, h0, h1, h2, h3, hv⟩

theorem canon_mk {m a0 a1 a2 a3 : Nat} (h0 : a0 < 18446744073709551616) (h1 : a1 < 18446744073709551616)
    (h2 : a2 < 18446744073709551616) (h3 : a3 < 18446744073709551616)
    (hv : a0 + a1 * 18446744073709551616 + a2 * 340282366920938463463374607431768211456
        + a3 * 6277101735386680763835789423207666416102355444464034512896 < m) :
    Canon m [a0, a1, a2, a3] := by
  obtain ⟨hl, hb⟩ := limbs4_mk h0 h1 h2 h3
  exact ⟨hl, hb, by rw [eval_four]; exact hv⟩

theorem Canon.limbs4 {m : Nat} {l : List Nat} (h : Canon m l) : Limbs4 l := ⟨h.1, h.2.1⟩

/-! ### the `math/bits` primitives -/

theorem mul64_spec (a b : Nat) :
    mul64lo a b + mul64hi a b * 18446744073709551616 = a * b ∧ mul64lo a b < 18446744073709551616 := by
  unfold mul64lo mul64hi
  generalize a * b = P
  omega

theorem mul64hi_lt {a b : Nat} (ha : a < 18446744073709551616) (hb : b < 18446744073709551616) :
    mul64hi a b < 18446744073709551615 := by
  unfold mul64hi
  have h : a * b ≤ 18446744073709551615 * 18446744073709551615 :=
    Nat.mul_le_mul (by omega) (by omega)
  generalize a * b = P at h
  omega

theorem mul64lo_comm (a b : Nat) : mul64lo a b = mul64lo b a := by
  unfold mul64lo; rw [Nat.mul_comm]
theorem mul64hi_comm (a b : Nat) : mul64hi a b = mul64hi b a := by
  unfold mul64hi; rw [Nat.mul_comm]

theorem add64_spec (a b c : Nat) :
    add64s a b c + add64c a b c * 18446744073709551616 = a + b + c ∧ add64s a b c < 18446744073709551616 := by
  unfold add64s add64c; omega

theorem add64c_le_one {a b c : Nat} (ha : a < 18446744073709551616) (hb : b < 18446744073709551616)
    (hc : c ≤ 1) : add64c a b c ≤ 1 := by
  unfold add64c; omega

theorem sub64_spec {a b c : Nat} (ha : a < 18446744073709551616) (hb : b < 18446744073709551616)
    (hc : c ≤ 1) :
    sub64d a b c + b + c = a + sub64b a b c * 18446744073709551616 ∧ sub64d a b c < 18446744073709551616 ∧
      sub64b a b c ≤ 1 := by
  unfold sub64d sub64b
  split <;> omega

/-! ### conditional move (`sm2CmovznzU64`, identical text for both moduli) -/

/-- the body of `sm2CmovznzU64` / `sm2ScalarCmovznzU64` -/
def cmov (c x y : Nat) : Nat :=
  (((c * 0xffffffffffffffff) % 18446744073709551616) &&& y) |||
    ((18446744073709551615 - ((c * 0xffffffffffffffff) % 18446744073709551616)) &&& x)

theorem cmov_zero {x : Nat} (y : Nat) (hx : x < 18446744073709551616) : cmov 0 x y = x := by
  unfold cmov
  have h : (18446744073709551615 : Nat) = 2 ^ 64 - 1 := by decide
  simp only [Nat.zero_mul, Nat.zero_mod, Nat.zero_and, Nat.zero_or, Nat.sub_zero]
  rw [Nat.and_comm, h, Nat.and_two_pow_sub_one_eq_mod]
  exact Nat.mod_eq_of_lt hx

theorem cmov_one (x : Nat) {y : Nat} (hy : y < 18446744073709551616) : cmov 1 x y = y := by
  unfold cmov
  have h : (18446744073709551615 : Nat) = 2 ^ 64 - 1 := by decide
  have e : (1 * 0xffffffffffffffff) % 18446744073709551616 = 18446744073709551615 := by decide
  rw [e]
  simp only [Nat.sub_self, Nat.zero_and, Nat.or_zero]
  rw [Nat.and_comm, h, Nat.and_two_pow_sub_one_eq_mod]
  exact Nat.mod_eq_of_lt hy

/-- a mask is 0 or 2^64-1: `mask &&& k` -/
theorem mask_and_zero (k : Nat) : 0 &&& k = 0 := Nat.zero_and k
theorem mask_and_ones {k : Nat} (hk : k < 18446744073709551616) : 18446744073709551615 &&& k = k := by
  have h : (18446744073709551615 : Nat) = 2 ^ 64 - 1 := by decide
  rw [Nat.and_comm, h, Nat.and_two_pow_sub_one_eq_mod]
  exact Nat.mod_eq_of_lt hk

end SMGo.Proofs.Fiat
