/-
  Refinement: the generated IR of `sm2.ZA` (/repo/sm2/sm2.go:140; `fn_106`, `f_sm2_ZA` of the extended program
  SMGo/Gen/CTIRProgProto.lean) computes the hand-written model `Model.SM2.za` (SMGo/Model/SM2Proto.lean), and
  the specification `Spec.SM2.za`.

  The IR models the streaming `hash.Hash` object as the byte string written so far; `hash.Sum(nil)` is the
  external call 12 (`x_sm3_Sum`), assumed to answer `[m] ↦ [Spec.SM3.hash m]` (hypothesis `hSum`; satisfied
  by `Model.CTIRProto.protoOracle`, lemma `protoOracle_sum`).  The model goes through the streaming SM3
  model (`SM3.write`, `SM3.sum`); the two meet through `Proofs.SM2ZA.sum_five`, which needs the fact
  `hsm3` (C04: the streaming SM3 model with the constants `X.tt` answers every history like the standard),
  taken as a hypothesis in the form of `CurveFacts.sm3`.

  Domain: `id.length < 2^60` (Go computes `len(id) << 3` on int64; no slice of 2^60 bytes exists).
  Inside this domain the IR and the model agree on every input (no disagreement found).
-/
import SMGo.Proofs.CTIRRefine
import SMGo.Proofs.CTIRRefineUtils
import SMGo.Gen.CTIRProgProto
import SMGo.Model.CTIRProto
import SMGo.Proofs.SM2ZA
open SMGo SMGo.Model.CTIR SMGo.Gen.CTIRProgProto
open SMGo.Proofs.CTIRRefineUtils (bytesV)

namespace SMGo.Proofs.CTIRRefineZA

/-! ## The external world and the global -/

theorem byte_roundtrip (x : UInt8) : UInt8.ofNat (Int.ofNat x.toNat).toNat = x := by
  simp

theorem bytesOfArg_bytesV (m : Bytes) : Model.CTIRProto.bytesOfArg [bytesV m] 0 = m := by
  simp only [Model.CTIRProto.bytesOfArg, argBytes, bytesV, List.getElem?_cons_zero, List.map_map]
  induction m with
  | nil => rfl
  | cons x t ih =>
    simp only [List.map_cons, Function.comp, Model.CTIRProto.byteOf, byte_roundtrip]
    congr 1

theorem bytesVal_eq (m : Bytes) : Model.CTIRProto.bytesVal m = bytesV m := rfl

/-- the executable oracle of the extended program answers `sm3.Sum` as `hSum` of the theorems below asks -/
theorem protoOracle_sum (tape : Nat → Nat → Nat) (m : Bytes) :
    Model.CTIRProto.protoOracle tape 12 [bytesV m] = [bytesV (Spec.SM3.hash m)] := by
  have h : (12 : Nat) = x_sm3_Sum := rfl
  simp only [Model.CTIRProto.protoOracle, h, if_true, bytesOfArg_bytesV, bytesVal_eq]

/-- the big-endian byte string of the generated file is the encoding of `Bytes.ofNatBE` -/
theorem natBytes_eq (n v : Nat) : natBytes n v = bytesV (Bytes.ofNatBE n v) := by
  simp only [natBytes, bytesV, Bytes.ofNatBE, List.map_map]
  congr 1
  apply List.map_congr_left
  intro i _
  simp only [Function.comp, UInt8.toNat_ofNat']
  congr 2
  omega

/-- the global 19 of the generated program is `zBytes` of the regenerated parameters -/
theorem globals_19 : globals 19 = bytesV (Bytes.ofNatBE Gen.SM2Params.zBytesLen Gen.SM2Params.zBytesVal) :=
  (rfl : globals 19 = natBytes Gen.SM2Params.zBytesLen Gen.SM2Params.zBytesVal).trans (natBytes_eq _ _)

/-! ## Toolkit -/

section Tools
variable {P : Prog} {G : Nat → Val} {O : Oracle}

theorem evIn_ext1 {env : Env} {x name : Nat} {leaky : Bool} {args : List Expr} {vs : List Val} {v : Val}
    (ha : evalVs G env args = some vs) (hx : O name vs = [v]) :
    EvIn P G O 1 env (.ext [x] name leaky args) (env.set x v) .norm := by
  intro f hf; obtain ⟨f, rfl⟩ := Nat.exists_eq_add_of_le' hf
  rw [execV_ext, ha]
  simp [hx, Env.setMany]

end Tools

/-! ## Arithmetic of ENTL -/

/-- `len(id) << 3` on int64 -/
theorem shl3_eq {L : Nat} (h : L < 2 ^ 60) : evalOp1 (.shlc .i64 3) (L : Int) = ((L * 8 : Nat) : Int) := by
  have e : ((2 ^ 3 : Nat) : Int) = 8 := rfl
  simp only [evalOp1, norm, e]
  omega

/-- `byte(uint16(entl))` -/
theorem lo_eq (n : Nat) :
    evalOp1 (.conv .u8) (evalOp1 (.conv .u16) (n : Int)) = ((n % 256 : Nat) : Int) := by
  simp only [evalOp1, norm]
  omega

/-- `byte(uint16(entl) >> 8)` -/
theorem hi_eq {n : Nat} (h : n < 65536) :
    evalOp1 (.conv .u8) (evalOp1 (.shrc 8) (evalOp1 (.conv .u16) (n : Int))) = ((n / 256 % 256 : Nat) : Int) := by
  have e1 : evalOp1 (.conv .u16) (n : Int) = (n : Int) := by
    simp only [evalOp1, norm]; omega
  have e2 : evalOp1 (.shrc 8) (n : Int) = ((n >>> 8 : Nat) : Int) := rfl
  rw [e1, e2, Nat.shiftRight_eq_div_pow]
  simp only [evalOp1, norm]
  omega

theorem ofNatBE_two (v : Nat) : Bytes.ofNatBE 2 v = [UInt8.ofNat (v / 256 % 256), UInt8.ofNat (v % 256)] := by
  simp [Bytes.ofNatBE, List.range_succ]

/-- the two stores of `binary.BigEndian.PutUint16` give the two ENTL bytes of the model -/
theorem entl_bytesV (n : Nat) :
    Val.arr [.int ((n / 256 % 256 : Nat) : Int), .int ((n % 256 : Nat) : Int)] = bytesV (Bytes.ofNatBE 2 n) := by
  rw [ofNatBE_two]
  simp only [bytesV, List.map_cons, List.map_nil, UInt8.toNat_ofNat', Int.ofNat_eq_natCast]
  congr 4 <;> omega

/-! ## The body of `sm2.ZA` -/

section Body
variable {P : Prog} {G : Nat → Val} {O : Oracle}

/-- the message hashed: ENTL ‖ id ‖ zBytes ‖ xA ‖ yA -/
def zaMsg (zb id pubx puby : Bytes) : Bytes :=
  Bytes.ofNatBE 2 (id.length * 8) ++ id ++ zb ++ pubx ++ puby

/-- the refusal branch: `entl >= 1<<16` -/
theorem za_body_err (id pubx puby : Bytes) (hlen : id.length < 2 ^ 60) (h : id.length * 8 ≥ 65536) :
    ∃ env', EvIn P G O 12 (Env.ofList [bytesV id, bytesV pubx, bytesV puby]) fn_106.body env'
      (.ret [.arr [], .int 1]) := by
  let e0 : Env := Env.ofList [bytesV id, bytesV pubx, bytesV puby]
  let e1 := e0.set 3 (.arr [])
  let e2 := e1.set 4 (.int 0)
  let e3 := e2.set 6 (.int ((id.length * 8 : Nat) : Int))
  let e4 := e3.set 4 (.int 1)
  have s1 : evalV G e0 (.mk (.lit 0) (.lit 0)) = some (.arr []) := by
    simp [evalV_mk]
  have s2 : evalV G e1 (.lit 0) = some (.int 0) := rfl
  have g0 : e2 0 = bytesV id := by simp [e2, e1, e0, Env.set, Env.ofList]
  have s3 : evalV G e2 (.op1 (.shlc .i64 3) (.len (.var 0))) = some (.int ((id.length * 8 : Nat) : Int)) := by
    simp only [evalV_op1, evalV_len, evalV_var, g0, bytesV, List.length_map, shl3_eq hlen]
  have g6 : e3 6 = .int ((id.length * 8 : Nat) : Int) := by simp [e3]
  have sc : evalV G e3 (.op2 .ge (.var 6) (.lit 65536)) = some (.int 1) := by
    have : decide ((65536 : Int) ≤ ((id.length * 8 : Nat) : Int)) = true := decide_eq_true (by omega)
    simp only [evalV_op2, evalV_var, evalV_lit, g6, evalOp2, Option.map_some, ofBool, this, ↓reduceIte]
  have s4 : evalV G e3 (.lit 1) = some (.int 1) := rfl
  have sr : evalVs G e4 [(.var 3), (.var 4)] = some [.arr [], .int 1] := by
    simp [evalVs_cons, evalV_var, e4, e3, e2, e1, Env.set]
  refine ⟨e4, ?_⟩
  exact (EvIn.seq (EvIn.assign s1) (EvIn.seq (EvIn.assign s2) (EvIn.seq (EvIn.assign s3)
    (EvIn.seq_stop (EvIn.ite sc rfl (EvIn.seq (EvIn.assign s4) (EvIn.ret sr))) (by simp))))).mono (by decide)

/-- the hashing branch -/
theorem za_body_ok (zb id pubx puby : Bytes) (hlen : id.length < 2 ^ 60) (h : ¬ id.length * 8 ≥ 65536)
    (hG : G 19 = bytesV zb) (hSum : ∀ m : Bytes, O 12 [bytesV m] = [bytesV (Spec.SM3.hash m)]) :
    ∃ env', EvIn P G O 40 (Env.ofList [bytesV id, bytesV pubx, bytesV puby]) fn_106.body env'
      (.ret [bytesV (Spec.SM3.hash (zaMsg zb id pubx puby)), .int 0]) := by
  have hn : id.length * 8 < 65536 := by omega
  let n := id.length * 8
  let lo : Val := .int ((n % 256 : Nat) : Int)
  let hi : Val := .int ((n / 256 % 256 : Nat) : Int)
  let entlB := Bytes.ofNatBE 2 n
  let e0 : Env := Env.ofList [bytesV id, bytesV pubx, bytesV puby]
  let e1 := e0.set 3 (.arr [])
  let e2 := e1.set 4 (.int 0)
  let e3 := e2.set 6 (.int ((n : Nat) : Int))
  let e4 := e3.set 7 (.arr [.int 0, .int 0])
  let e5 := e4.set 7 (.arr [.int 0, lo])
  let e6 := e5.set 7 (bytesV entlB)
  let e7 := e6.set 8 (bytesV [])
  let e8 := e7.set 8 (bytesV entlB)
  let e9 := e8.set 8 (bytesV (entlB ++ id))
  let e10 := e9.set 8 (bytesV (entlB ++ id ++ zb))
  let e11 := e10.set 8 (bytesV (entlB ++ id ++ zb ++ pubx))
  let e12 := e11.set 8 (bytesV (zaMsg zb id pubx puby))
  let e13 := e12.set 9 (bytesV (Spec.SM3.hash (zaMsg zb id pubx puby)))
  have s1 : evalV G e0 (.mk (.lit 0) (.lit 0)) = some (.arr []) := by
    simp [evalV_mk]
  have s2 : evalV G e1 (.lit 0) = some (.int 0) := rfl
  have g0 : e2 0 = bytesV id := by simp [e2, e1, e0, Env.set, Env.ofList]
  have s3 : evalV G e2 (.op1 (.shlc .i64 3) (.len (.var 0))) = some (.int ((n : Nat) : Int)) := by
    simp only [evalV_op1, evalV_len, evalV_var, g0, bytesV, List.length_map, shl3_eq hlen, n]
  have g6 : e3 6 = .int ((n : Nat) : Int) := by simp [e3]
  have sc : evalV G e3 (.op2 .ge (.var 6) (.lit 65536)) = some (.int 0) := by
    have : decide ((65536 : Int) ≤ ((n : Nat) : Int)) = false := decide_eq_false (by omega)
    simp only [evalV_op2, evalV_var, evalV_lit, g6, evalOp2, Option.map_some, ofBool, this, Bool.false_eq_true,
      ↓reduceIte]
  have s4 : evalV G e3 (.mk (.lit 2) (.lit 0)) = some (.arr [.int 0, .int 0]) := by
    simp [evalV_mk, List.replicate]
  -- entlBytes[1] = byte(uint16(entl))
  have g6' : e4 6 = .int ((n : Nat) : Int) := by simp [e4, Env.set, g6]
  have s5 : evalV G e4 (.op1 (.conv .u8) (.op1 (.conv .u16) (.var 6))) = some lo := by
    simp only [evalV_op1, evalV_var, g6', lo_eq n, lo]
  have p5 : pathV G e4 [.c 1] = some [1] := by simp [pathV_c]
  have u5 : updPath (e4 7) [1] lo = some (.arr [.int 0, lo]) := by
    simp [e4, updPath]
  -- entlBytes[0] = byte(uint16(entl) >> 8)
  have g6'' : e5 6 = .int ((n : Nat) : Int) := by simp [e5, Env.set, g6']
  have s6 : evalV G e5 (.op1 (.conv .u8) (.op1 (.shrc 8) (.op1 (.conv .u16) (.var 6)))) = some hi := by
    simp only [evalV_op1, evalV_var, g6'', hi_eq (n := n) hn, hi]
  have p6 : pathV G e5 [.c 0] = some [0] := by simp [pathV_c]
  have u6 : updPath (e5 7) [0] hi = some (bytesV entlB) := by
    have : bytesV entlB = Val.arr [hi, lo] := (entl_bytesV n).symm
    rw [this]
    simp [e5, updPath]
  -- hash := sm3.New()
  have s7 : evalV G e6 (.mk (.lit 0) (.lit 0)) = some (bytesV []) := by
    simp [evalV_mk, bytesV]
  -- the five Writes
  have s8 : evalV G e7 (.cat (.var 8) (.var 7)) = some (bytesV entlB) := by
    have g8 : e7 8 = bytesV [] := by simp [e7]
    have g7 : e7 7 = bytesV entlB := by simp [e7, e6, Env.set]
    simp only [evalV_cat, evalV_var, g8, g7, bytesV, List.map_nil, List.nil_append]
  have s9 : evalV G e8 (.cat (.var 8) (.var 0)) = some (bytesV (entlB ++ id)) := by
    have g8 : e8 8 = bytesV entlB := by simp [e8]
    have g0' : e8 0 = bytesV id := by simp [e8, e7, e6, e5, e4, e3, Env.set, g0]
    simp only [evalV_cat, evalV_var, g8, g0', bytesV, List.map_append]
  have s10 : evalV G e9 (.cat (.var 8) (.glob 19)) = some (bytesV (entlB ++ id ++ zb)) := by
    have g8 : e9 8 = bytesV (entlB ++ id) := by simp [e9]
    simp only [evalV_cat, evalV_var, evalV_glob, g8, hG]
    simp only [bytesV, List.map_append]
  have s11 : evalV G e10 (.cat (.var 8) (.var 1)) = some (bytesV (entlB ++ id ++ zb ++ pubx)) := by
    have g8 : e10 8 = bytesV (entlB ++ id ++ zb) := by simp [e10]
    have g1 : e10 1 = bytesV pubx := by
      simp [e10, e9, e8, e7, e6, e5, e4, e3, e2, e1, e0, Env.set, Env.ofList]
    simp only [evalV_cat, evalV_var, g8, g1]
    simp only [bytesV, List.map_append]
  have s12 : evalV G e11 (.cat (.var 8) (.var 2)) = some (bytesV (zaMsg zb id pubx puby)) := by
    have g8 : e11 8 = bytesV (entlB ++ id ++ zb ++ pubx) := by simp [e11]
    have g2 : e11 2 = bytesV puby := by
      simp [e11, e10, e9, e8, e7, e6, e5, e4, e3, e2, e1, e0, Env.set, Env.ofList]
    simp only [evalV_cat, evalV_var, g8, g2]
    simp only [bytesV, List.map_append, zaMsg, entlB, n]
  -- hash.Sum(nil)
  have s13 : evalVs G e12 [(.var 8)] = some [bytesV (zaMsg zb id pubx puby)] := by
    simp [evalVs_cons, evalV_var, e12, Env.set]
  have sr : evalVs G e13 [(.var 9), (.lit 0)] = some [bytesV (Spec.SM3.hash (zaMsg zb id pubx puby)), .int 0] := by
    simp [evalVs_cons, evalV_var, evalV_lit, e13, Env.set]
  refine ⟨e13, ?_⟩
  exact (EvIn.seq (EvIn.assign s1) (EvIn.seq (EvIn.assign s2) (EvIn.seq (EvIn.assign s3)
    (EvIn.seq (EvIn.ite sc rfl (EvIn.skip _))
    (EvIn.seq (EvIn.assign s4) (EvIn.seq (EvIn.assignPath s5 p5 u5) (EvIn.seq (EvIn.assignPath s6 p6 u6)
    (EvIn.seq (EvIn.assign s7) (EvIn.seq (EvIn.assign s8) (EvIn.seq (EvIn.assign s9) (EvIn.seq (EvIn.assign s10)
    (EvIn.seq (EvIn.assign s11) (EvIn.seq (EvIn.assign s12) (EvIn.seq (evIn_ext1 s13 (hSum _))
    (EvIn.seq_stop (EvIn.ret sr) (by simp)))))))))))))))).mono (by decide)

end Body

/-! ## The run -/

section Whole
variable {G : Nat → Val} {O : Oracle}

theorem fn106_lookup : prog[f_sm2_ZA]? = some fn_106 := rfl

/-- fuel that suffices for `sm2.ZA` on every input -/
def fuelZA : Nat := 40

/-- `sm2.ZA`, IR level, for any value `zb` of the global `zBytes` -/
theorem ir_ZA_run (zb id pubx puby : Bytes) (hlen : id.length < 2 ^ 60)
    (hG : G 19 = bytesV zb) (hSum : ∀ m : Bytes, O 12 [bytesV m] = [bytesV (Spec.SM3.hash m)]) :
    ∀ f, fuelZA ≤ f → runV prog G O f f_sm2_ZA [bytesV id, bytesV pubx, bytesV puby] =
      if id.length * 8 ≥ 65536 then .ret [.arr [], .int 1]
      else .ret [bytesV (Spec.SM3.hash (zaMsg zb id pubx puby)), .int 0] := by
  intro f hf
  by_cases h : id.length * 8 ≥ 65536
  · rw [if_pos h]
    obtain ⟨env', hb⟩ := za_body_err (P := prog) (G := G) (O := O) id pubx puby hlen h
    exact runV_of_EvIn fn106_lookup rfl rfl hb f (by simp only [fuelZA] at hf; omega)
  · rw [if_neg h]
    obtain ⟨env', hb⟩ := za_body_ok (P := prog) (G := G) (O := O) zb id pubx puby hlen h hG hSum
    exact runV_of_EvIn fn106_lookup rfl rfl hb f hf

variable {α β : Type}

/-- the model of ZA as a one-shot hash of `zaMsg` -/
theorem za_model_eq (X : Model.SM2.Ctx α β)
    (hsm3 : ∀ ops, Model.SM3.run X.tt ops = Spec.SM3.runHistory ops) (id pubx puby : Bytes) :
    Model.SM2.za X id pubx puby =
      if id.length * 8 ≥ 65536 then .err else .ok (Spec.SM3.hash (zaMsg X.zBytes id pubx puby)) := by
  by_cases h : id.length * 8 ≥ 65536
  · simp [Model.SM2.za, h]
  · simp only [Model.SM2.za, h, if_false]
    rw [Proofs.SM2ZA.sum_five X.tt hsm3]
    rfl

/-- **sm2.ZA: the IR run is the model.**  `hsm3` is `CurveFacts.sm3` (C04), `hG` says that the global
    `sm2.zBytes` of the program holds the `zBytes` of the model context, `hSum` that the external
    `sm3.Sum` hashes the bytes written so far. -/
theorem ir_ZA_eq_model (X : Model.SM2.Ctx α β)
    (hsm3 : ∀ ops, Model.SM3.run X.tt ops = Spec.SM3.runHistory ops)
    (hG : G 19 = bytesV X.zBytes) (hSum : ∀ m : Bytes, O 12 [bytesV m] = [bytesV (Spec.SM3.hash m)])
    (id pubx puby : Bytes) (hlen : id.length < 2 ^ 60) :
    match Model.SM2.za X id pubx puby with
    | .ok z => ∀ f, fuelZA ≤ f →
        runV prog G O f f_sm2_ZA [bytesV id, bytesV pubx, bytesV puby] = .ret [bytesV z, .int 0]
    | .err => ∀ f, fuelZA ≤ f →
        runV prog G O f f_sm2_ZA [bytesV id, bytesV pubx, bytesV puby] = .ret [.arr [], .int 1]
    | .panic => False := by
  have hr := ir_ZA_run (G := G) (O := O) X.zBytes id pubx puby hlen hG hSum
  rw [za_model_eq X hsm3]
  by_cases h : id.length * 8 ≥ 65536
  · simp only [if_pos h] at hr ⊢
    exact hr
  · simp only [if_neg h] at hr ⊢
    exact hr

/-- the `zBytes` regenerated from the source are a ‖ b ‖ Gx ‖ Gy of the standard (as `Props.C13.ctx_zBytes`) -/
theorem zBytes_std : Bytes.ofNatBE Gen.SM2Params.zBytesLen Gen.SM2Params.zBytesVal =
    Bytes.ofNatBE 32 Spec.SM2.a ++ Bytes.ofNatBE 32 Spec.SM2.b
      ++ Bytes.ofNatBE 32 Spec.SM2.Gx ++ Bytes.ofNatBE 32 Spec.SM2.Gy := by
  decide +kernel

/-- **sm2.ZA: the IR run is the specification**, for a global `zBytes` = a ‖ b ‖ Gx ‖ Gy -/
theorem ir_ZA_eq_spec
    (hG : G 19 = bytesV (Bytes.ofNatBE 32 Spec.SM2.a ++ Bytes.ofNatBE 32 Spec.SM2.b
      ++ Bytes.ofNatBE 32 Spec.SM2.Gx ++ Bytes.ofNatBE 32 Spec.SM2.Gy))
    (hSum : ∀ m : Bytes, O 12 [bytesV m] = [bytesV (Spec.SM3.hash m)])
    (id pubx puby : Bytes) (hlen : id.length < 2 ^ 60) :
    match Spec.SM2.za id pubx puby with
    | some z => ∀ f, fuelZA ≤ f →
        runV prog G O f f_sm2_ZA [bytesV id, bytesV pubx, bytesV puby] = .ret [bytesV z, .int 0]
    | none => ∀ f, fuelZA ≤ f →
        runV prog G O f f_sm2_ZA [bytesV id, bytesV pubx, bytesV puby] = .ret [.arr [], .int 1] := by
  have hr := ir_ZA_run (G := G) (O := O) _ id pubx puby hlen hG hSum
  by_cases h : id.length * 8 ≥ 65536
  · simp only [Spec.SM2.za, if_pos h] at hr ⊢
    exact hr
  · simp only [Spec.SM2.za, if_neg h] at hr ⊢
    simpa only [zaMsg, List.append_assoc] using hr

/-- closed form: the generated program with its own globals and the executable oracle computes the
    specification's ZA (no hypothesis but the length bound) -/
theorem ir_ZA_closed (tape : Nat → Nat → Nat) (id pubx puby : Bytes) (hlen : id.length < 2 ^ 60) :
    match Spec.SM2.za id pubx puby with
    | some z => ∀ f, fuelZA ≤ f →
        runV prog globals (Model.CTIRProto.protoOracle tape) f f_sm2_ZA [bytesV id, bytesV pubx, bytesV puby]
          = .ret [bytesV z, .int 0]
    | none => ∀ f, fuelZA ≤ f →
        runV prog globals (Model.CTIRProto.protoOracle tape) f f_sm2_ZA [bytesV id, bytesV pubx, bytesV puby]
          = .ret [.arr [], .int 1] :=
  ir_ZA_eq_spec (G := globals) (O := Model.CTIRProto.protoOracle tape)
    (by rw [globals_19, zBytes_std]) (protoOracle_sum tape) id pubx puby hlen

end Whole

end SMGo.Proofs.CTIRRefineZA

#print axioms SMGo.Proofs.CTIRRefineZA.protoOracle_sum
#print axioms SMGo.Proofs.CTIRRefineZA.globals_19
#print axioms SMGo.Proofs.CTIRRefineZA.ir_ZA_run
#print axioms SMGo.Proofs.CTIRRefineZA.ir_ZA_eq_model
#print axioms SMGo.Proofs.CTIRRefineZA.ir_ZA_eq_spec
#print axioms SMGo.Proofs.CTIRRefineZA.ir_ZA_closed
