/-
  TESTS (labelled as such, no general statement): the regenerated arm64 listings of sm4/gcm_arm64.s
  (`gHashBlocks`, `xor256/128/64/32/16`), run by the value interpreter of SMGo/Model/ISAValArm64.lean inside the Lean
  kernel (`decide +kernel`), against the GHASH fold of the specification (`Spec.GCM.mulGF`, SP 800-38D Algorithm 1)
  and the bytewise XOR.  The interpreter is an UNVALIDATED transcription of the Arm ARM (no arm64 CPU or emulator in
  the sandbox): these tests compare listing + transcription with the specification, not with a CPU.
  Block counts 1, 2 (one block at a time), 8 (two rounds of four), 9 (4 + 4 + 1), 10 (… + 2 at once), 11 (… + 3 at
  once), 17.
-/
import SMGo.Model.ISAValArm64Gcm
import SMGo.Proofs.ISAValGhashSpec
import SMGo.Proofs.ISAValTests
open SMGo.Model.ISAValArm64 SMGo

namespace SMGo.Proofs.ISAValArm64GcmTests
open SMGo.Proofs.ISAVal (toB)
open SMGo.Proofs.GCM (ghFold)

/-- a hash key, a running value, `n` blocks of data -/
def hK : List Nat := (List.range 16).map (fun i => (i * 37 + 11) % 256)
def tg : List Nat := (List.range 16).map (fun i => (i * 91 + 5) % 256)
def dat (n : Nat) : List Nat := (List.range (16 * n)).map (fun i => (i * 7 + 3) % 256)

/-- the specification: Y := (Y ⊕ X_i) • H over `count` blocks, from the value at `tag` -/
def specG (h tag data : List Nat) (count : Nat) : List Nat :=
  (Spec.GCM.natToBlock (ghFold (Spec.GCM.blockToNat (toB h)) (Spec.GCM.blockToNat (toB tag))
    ((toB data).take (16 * count)))).map (·.toNat)

def ghTest (n : Nat) : Bool :=
  decide (runGhash (ghFuel n) (ghashState junkG junkV hK tg (dat n) n) = .ok (specG hK tg (dat n) n))

/-- TEST: `gHashBlocks` on 1, 2, 8, 9, 10, 11, 17 blocks gives the GHASH update of the specification -/
theorem test_gHashBlocks : [1, 2, 8, 9, 10, 11, 17].all ghTest = true := by decide +kernel

def bufA (n : Nat) : List Nat := (List.range n).map (fun i => (i * 13 + 1) % 256)
def bufB (n : Nat) : List Nat := (List.range n).map (fun i => (i * 29 + 200) % 256)

def runXor (n : Nat) (s : State) : Except String (List Nat) :=
  match xorListing n with
  | some (l, a) => runDst l a s
  | none => .error "no such routine"

def xorTest (n : Nat) : Bool :=
  decide (runXor n (xorState junkG junkV (List.replicate n 0xEE) (bufA n) (bufB n))
      = .ok (List.zipWith (· ^^^ ·) (bufA n) (bufB n)))
  && decide (runXor n (xorStateDst1 junkG junkV (bufA n) (bufB n)) = .ok (List.zipWith (· ^^^ ·) (bufA n) (bufB n)))
  && decide (runXor n (xorStateDst2 junkG junkV (bufA n) (bufB n)) = .ok (List.zipWith (· ^^^ ·) (bufA n) (bufB n)))

/-- TEST: `xorN` for N = 16, 32, 64, 128, 256, buffers disjoint / dst = src1 / dst = src2 -/
theorem test_xorN : [16, 32, 64, 128, 256].all xorTest = true := by decide +kernel

end SMGo.Proofs.ISAValArm64GcmTests
