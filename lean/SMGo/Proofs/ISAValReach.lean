/-
  A small calculus for running long routines of the value interpreter segment by segment:
  `Reach r k s k' s' n` — from the instruction with index `k` in state `s`, the routine `r` arrives after exactly `n`
  steps at the instruction with index `k'` in state `s'` (whatever the remaining fuel).
-/
import SMGo.Proofs.ISAValGhashRun
namespace SMGo.Proofs.ISAVal
open SMGo.Model.ISAVal SMGo.Model.ISA

def Reach (r : Routine) (k : Nat) (s : State) (k' : Nat) (s' : State) (n : Nat) : Prop :=
  ∀ fuel, runFrom r (fuel + n) (r.drop k) s = runFrom r fuel (r.drop k') s'

theorem Reach.refl (r : Routine) (k : Nat) (s : State) : Reach r k s k s 0 := fun _ => rfl

theorem Reach.trans {r : Routine} {a b c n m : Nat} {s s' s'' : State} (h1 : Reach r a s b s' n) (h2 : Reach r b s' c s'' m) :
    Reach r a s c s'' (n + m) := by
  intro fuel
  rw [show fuel + (n + m) = (fuel + m) + n from by omega, h1 (fuel + m), h2 fuel]

theorem Reach.cast {r : Routine} {a b b' n m : Nat} {s s' : State} (h : Reach r a s b s' n) (hb : b' = b) (hm : m = n) :
    Reach r a s b' s' m := hb ▸ hm ▸ h

/-- the slice of the routine that starts at index `k`, byte offsets erased, is `code` -/
def Slice (r : Routine) (k : Nat) (code : List DInstr) : Prop :=
  ((r.drop k).take code.length).map erasePc = code ∧ k + code.length ≤ r.length

theorem Slice.left {r : Routine} {k : Nat} {a b : List DInstr} (h : Slice r k (a ++ b)) : Slice r k a := by
  obtain ⟨h1, h2⟩ := h
  rw [List.length_append] at h1 h2
  refine ⟨?_, by omega⟩
  have := congrArg (List.take a.length) h1
  rw [List.take_left', ← List.map_take, List.take_take, Nat.min_eq_left (by omega)] at this
  · exact this
  · rfl

theorem Slice.right {r : Routine} {k : Nat} {a b : List DInstr} (h : Slice r k (a ++ b)) : Slice r (k + a.length) b := by
  obtain ⟨h1, h2⟩ := h
  rw [List.length_append] at h1 h2
  refine ⟨?_, by omega⟩
  have := congrArg (List.drop a.length) h1
  rw [List.drop_left', ← List.map_drop, List.drop_take, List.drop_drop, Nat.add_sub_cancel_left] at this
  · exact this
  · rfl

/-- a sub-slice: `c` = the `c.length` instructions of `code` from position `a` on -/
theorem Slice.sub {r : Routine} {k : Nat} {code : List DInstr} (h : Slice r k code) (a : Nat) (c : List DInstr)
    (hc : (code.drop a).take c.length = c) (hl : a + c.length ≤ code.length) : Slice r (k + a) c := by
  refine ⟨?_, by have := h.2; omega⟩
  have h1 := h.1
  have : ((r.drop (k + a)).take c.length) = (((r.drop k).take code.length).drop a).take c.length := by
    rw [List.drop_take, List.take_take, List.drop_drop, Nat.min_eq_left (by omega)]
  rw [this, List.map_take, List.map_drop, h1, hc]

theorem Slice.cast {r : Routine} {k k' : Nat} {c c' : List DInstr} (h : Slice r k c) (hk : k' = k) (hc : c' = c) : Slice r k' c' :=
  hk ▸ hc ▸ h

/-- the whole routine as a slice -/
theorem Slice.whole {r : Routine} {code : List DInstr} (h : r.map erasePc = code) : Slice r 0 code := by
  have hl : code.length = r.length := by rw [← h, List.length_map]
  refine ⟨?_, by omega⟩
  rw [List.drop_zero, hl, List.take_length]; exact h

theorem reach_seg {r : Routine} {k : Nat} {code : List DInstr} (hs : Slice r k code)
    (hnc : code.all (fun i => !i.mn.isControl) = true) {s s' : State} (hex : execList code s = .ok s') :
    Reach r k s (k + code.length) s' code.length := by
  intro fuel
  obtain ⟨h1, h2⟩ := hs
  have hlen : ((r.drop k).take code.length).length = code.length := by
    rw [List.length_take, List.length_drop]; omega
  have hc : ∀ i ∈ (r.drop k).take code.length, i.mn.isControl = false := by
    intro i hi
    rw [← h1, List.all_eq_true] at hnc
    have := hnc (erasePc i) (List.mem_map_of_mem hi)
    simpa [erasePc] using this
  have hex' : execList ((r.drop k).take code.length) s = .ok s' := by rw [← execList_erase, h1]; exact hex
  have := runFrom_seg r ((r.drop k).take code.length) (r.drop (k + code.length)) hc s s' hex' fuel
  rw [hlen] at this
  rw [← this]
  congr 1
  rw [← List.drop_drop, List.take_append_drop]

/-- the instruction at index `k` -/
theorem Slice.head {r : Routine} {k : Nat} {d : DInstr} {rest : List DInstr} (h : Slice r k (d :: rest)) :
    ∃ i, r.drop k = i :: r.drop (k + 1) ∧ erasePc i = d := by
  obtain ⟨h1, h2⟩ := h
  simp only [List.length_cons] at h1 h2
  cases hd : r.drop k with
  | nil =>
    have := congrArg List.length hd
    rw [List.length_drop] at this
    simp at this; omega
  | cons i t =>
    rw [hd] at h1
    simp only [List.take_succ_cons, List.map_cons, List.cons.injEq] at h1
    refine ⟨i, ?_, h1.1⟩
    congr 1
    have : r.drop (k + 1) = (r.drop k).drop 1 := by rw [List.drop_drop]
    rw [this, hd]; rfl

def isJcc (mn : Mn) : Bool :=
  match mn with
  | .JEQ | .JNE | .JLT | .JGE | .JGT | .JLE => true
  | _ => false

/-- a conditional branch whose condition is known -/
theorem reach_jcc {r : Routine} {k idx pc : Nat} {mn : Mn} {rest : List DInstr} (hs : Slice r k (ins mn [.target pc] 0 :: rest))
    (hmn : isJcc mn = true) (hl : findPc r pc = some (r.drop idx)) {s : State} {c : Bool}
    (hc : Model.ISAVal.cond mn s.flags = .ok c) : Reach r k s (if c then idx else k + 1) s 1 := by
  intro fuel
  obtain ⟨i, hd, he⟩ := hs.head
  rw [hd]
  obtain ⟨pc0, mn0, ops0, vw0⟩ := i
  simp only [erasePc, ins, DInstr.mk.injEq] at he
  obtain ⟨_, rfl, rfl, _⟩ := he
  have hstep : stepD s ⟨pc0, mn0, [.target pc], vw0⟩ = .ok (s, if c then .jump pc else .fall) := by
    cases mn0 <;> simp only [isJcc] at hmn <;> first | (cases hmn; done) | simp [stepD, Mn.isControl, hc]
  simp only [runFrom, hstep]
  cases c
  · rfl
  · simp only [if_true, hl]

theorem reach_jmp {r : Routine} {k idx pc : Nat} {rest : List DInstr} (hs : Slice r k (ins .JMP [.target pc] 0 :: rest))
    (hl : findPc r pc = some (r.drop idx)) (s : State) : Reach r k s idx s 1 := by
  intro fuel
  obtain ⟨i, hd, he⟩ := hs.head
  rw [hd]
  obtain ⟨pc0, mn0, ops0, vw0⟩ := i
  simp only [erasePc, ins, DInstr.mk.injEq] at he
  obtain ⟨_, rfl, rfl, _⟩ := he
  simp only [runFrom, stepD, Mn.isControl, if_true, hl]

/-- arriving at a `RET` ends the run -/
theorem run_of_reach {r : Routine} {k n : Nat} {s s' : State} {rest : List DInstr} (h : Reach r 0 s k s' n)
    (hs : Slice r k (ins .RET [] 0 :: rest)) (fuel : Nat) (hf : n < fuel) : runRoutine r fuel s = .ok s' := by
  obtain ⟨i, hd, he⟩ := hs.head
  obtain ⟨pc0, mn0, ops0, vw0⟩ := i
  simp only [erasePc, ins, DInstr.mk.injEq] at he
  obtain ⟨_, rfl, rfl, _⟩ := he
  have h1 := h 1
  rw [List.drop_zero, hd] at h1
  have h2 : runFrom r (1 + n) r s = .ok s' := by rw [h1]; rfl
  unfold runRoutine
  have := runFrom_mono r (1 + n) (fuel - (1 + n)) r s s' h2
  rwa [show 1 + n + (fuel - (1 + n)) = fuel from by omega] at this

end SMGo.Proofs.ISAVal
