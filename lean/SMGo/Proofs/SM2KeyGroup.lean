/-
  Lemmas for property C12 that use the group structure of the curve (Mathlib, through
  `SMGo.Proofs.CurveGroup`): for a valid private key d (1 ≤ d ≤ n-2) the point [d]G of the
  specification is a finite point with canonical coordinates on the curve, so that the
  specification of key generation returns a key exactly when the stream contains a valid candidate.
-/
import SMGo.Proofs.CurveGroup
import SMGo.Proofs.SM2Key
namespace SMGo.Proofs.SM2KeyGroup
open SMGo SMGo.Proofs.SM2Key
open SMGo.Spec.SM2 (candidates firstValid validKey)

/-- [d]G for a scalar that is not a multiple of n: a finite point, canonical coordinates, on the curve -/
theorem smul_G_finite (d : Nat) (h : ¬ Spec.SM2.n ∣ d) :
    ∃ x y, Spec.SM2.smul d Spec.SM2.G = some (x, y) ∧ x < Spec.SM2.p ∧ y < Spec.SM2.p ∧
      Spec.SM2.onCurve x y = true := by
  have hv := CurveGroup.smul_valid d CurveGroup.G_valid
  cases hQ : Spec.SM2.smul d Spec.SM2.G with
  | none => exact absurd ((CurveGroup.smul_G_eq_none_iff d).mp hQ) h
  | some q =>
    obtain ⟨x, y⟩ := q
    rw [hQ] at hv
    exact ⟨x, y, rfl, CurveGroup.valid_some.mp hv⟩

theorem not_dvd_of_validKey (d : Nat) (h : validKey d = true) : ¬ Spec.SM2.n ∣ d := by
  obtain ⟨h1, h2⟩ := (validKey_iff d).mp h
  intro hd
  have := Nat.le_of_dvd (by omega) hd
  omega

theorem smul_G_of_validKey (d : Nat) (h : validKey d = true) :
    ∃ x y, Spec.SM2.smul d Spec.SM2.G = some (x, y) ∧ x < Spec.SM2.p ∧ y < Spec.SM2.p ∧
      Spec.SM2.onCurve x y = true :=
  smul_G_finite d (not_dvd_of_validKey d h)

theorem p_lt : Spec.SM2.p < 256 ^ 32 := by decide

/-- the 32-byte encodings of canonical on-curve coordinates pass the on-curve test of the specification -/
theorem onCurveBytes_ofNatBE (x y : Nat) (hx : x < Spec.SM2.p) (hy : y < Spec.SM2.p)
    (h : Spec.SM2.onCurve x y = true) :
    Spec.SM2.onCurveBytes (Bytes.ofNatBE 32 x) (Bytes.ofNatBE 32 y) = true := by
  have ex := toNatBE_ofNatBE 32 x (by have := p_lt; omega)
  have ey := toNatBE_ofNatBE 32 y (by have := p_lt; omega)
  simp only [Spec.SM2.onCurveBytes, ofNatBE_length, ex, ey, decide_eq_true_eq]
  exact ⟨trivial, trivial, hx, hy, h⟩

/-- the specification of key generation returns a key exactly when the stream has a valid candidate -/
theorem genKey_isSome_iff (sc : Spec.SM2.Script) :
    (Spec.SM2.genKey (some sc)).isSome = true ↔ ∃ K ∈ candidates sc [], validKey (Bytes.toNatBE K) = true := by
  simp only [Spec.SM2.genKey]
  cases h0 : firstValid (candidates sc []) 0 with
  | none =>
    have := (firstValid_eq_none_iff _ _).mp h0
    simp only [Option.isSome_none, Bool.false_eq_true, false_iff, not_exists, not_and]
    intro K hK; simp [this K hK]
  | some q =>
    obtain ⟨d, j⟩ := q
    obtain ⟨_, _, hv, _⟩ := firstValid_some _ 0 d j h0
    obtain ⟨x, y, hxy, _⟩ := smul_G_of_validKey _ hv
    simp only [hxy, Option.isSome_some, true_iff]
    exact ⟨d, firstValid_mem _ _ _ _ h0, hv⟩

/-- what the specification returns: a valid key that is a candidate of the stream, the canonical
    encodings of the coordinates of [d]G, which satisfy the curve equation -/
theorem genKey_some (sc : Spec.SM2.Script) (d x y : Bytes) (c : Nat)
    (h : Spec.SM2.genKey (some sc) = some (d, x, y, c)) :
    validKey (Bytes.toNatBE d) = true ∧ d ∈ candidates sc [] ∧
    (∃ qx qy, Spec.SM2.smul (Bytes.toNatBE d) Spec.SM2.G = some (qx, qy) ∧
      x = Bytes.ofNatBE 32 qx ∧ y = Bytes.ofNatBE 32 qy ∧ qx < Spec.SM2.p ∧ qy < Spec.SM2.p ∧
      Spec.SM2.onCurve qx qy = true) ∧
    Spec.SM2.onCurveBytes x y = true := by
  simp only [Spec.SM2.genKey] at h
  cases h0 : firstValid (candidates sc []) 0 with
  | none => simp [h0] at h
  | some q =>
    obtain ⟨d', j⟩ := q
    obtain ⟨_, _, hv, _⟩ := firstValid_some _ 0 d' j h0
    obtain ⟨qx, qy, hxy, hx, hy, hon⟩ := smul_G_of_validKey _ hv
    simp only [h0, hxy, Option.some.injEq, Prod.mk.injEq] at h
    obtain ⟨rfl, rfl, rfl, _⟩ := h
    exact ⟨hv, firstValid_mem _ _ _ _ h0, ⟨qx, qy, hxy, rfl, rfl, hx, hy, hon⟩,
      onCurveBytes_ofNatBE qx qy hx hy hon⟩

/-- public-key derivation in the specification fails exactly for a wrong length or a multiple of n -/
theorem derive_isSome_iff (priv : Bytes) :
    (Spec.SM2.derive priv).isSome = true ↔ priv.length = 32 ∧ ¬ Spec.SM2.n ∣ Bytes.toNatBE priv := by
  simp only [Spec.SM2.derive]
  by_cases hl : priv.length = 32
  · simp only [hl, ne_eq, not_true_eq_false, if_false, true_and]
    by_cases hd : Spec.SM2.n ∣ Bytes.toNatBE priv
    · simp [(CurveGroup.smul_G_eq_none_iff _).mpr hd, hd]
    · obtain ⟨x, y, hxy, _⟩ := smul_G_finite _ hd
      simp [hxy, hd]
  · simp [hl]

end SMGo.Proofs.SM2KeyGroup
