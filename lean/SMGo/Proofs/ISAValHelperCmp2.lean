import SMGo.Proofs.ISAValHelperCmp1
set_option linter.unusedSimpArgs false
namespace SMGo.Proofs.ISAVal
open SMGo.Model.ISAVal SMGo.Model.GCM SMGo.Proofs.GCM SMGo.Proofs.ISATouch
open SMGo.Model.ISA (Reg Opd Instr)

def hcStageCode (w A : Nat) (ci : Int) (pNext pSelf : Nat) : List DInstr :=
  [ins .CMPQ [G 0, .imm ci] 0, ins .JLT [.target pNext] 0] ++ (hcIterCode w A ci ++ [ins .JMP [.target pSelf] 0])

set_option maxHeartbeats 2000000 in
theorem hc_stage (r : Routine) (k w A : Nat) (ci : Int) (pNext pSelf : Nat) (hi : HcInst w A ci)
    (hs : Slice r k (hcStageCode w A ci pNext pSelf)) (lS : findPc r pSelf = some (r.drop k)) (lN : findPc r pNext = some (r.drop (k + 9)))
    (Mf : List Nat → List Region) (ebase bl : Nat) (bf : Buf Mf ebase bl) (x : List Nat) (xp : Nat)
    (hx : ∀ e, e.length = bl → DataAt (Mf e) xp x) (hxb : ∀ b ∈ x, b < 2 ^ 8) (hxp : xp + x.length < 2 ^ 63) (heb : ebase + bl < 2 ^ 63) :
    ∀ (q n : Nat) (s : State) (e : List Nat) (so a : Nat), n / w = q → s.gpr.length = 16 → e.length = bl → s.mem = Mf e →
      greg s 0 = n → n < 2 ^ 63 → greg s 7 = xp + so → greg s 6 = ebase + so → greg s A = a → a < 2 ^ (8 * w) →
      so + n ≤ x.length → so + n ≤ bl → (∀ b ∈ (e.drop so).take n, b < 2 ^ 8) →
      ∃ s' e', Reach r k s (k + 9) s' (9 * q + 2) ∧ s'.mem = Mf e' ∧ e'.length = bl ∧ e'.drop (so + w * q) = e.drop (so + w * q) ∧
        greg s' 0 = n % w ∧ greg s' 7 = xp + (so + w * q) ∧ greg s' 6 = ebase + (so + w * q) ∧ greg s' A < 2 ^ (8 * w) ∧
        accOr w (greg s' A) = accOr w a ||| orBytes (xorN ((e.drop so).take (w * q)) ((x.drop so).take (w * q))) ∧
        RegsKeep hcKeepG s s' ∧ (∀ m, m ∈ [3, 1] → m ≠ A → greg s' m = greg s m) := by
  have hw : w = 8 ∨ w = 1 := by rcases hi with ⟨rfl, _, _⟩ | ⟨rfl, _, _⟩ <;> simp
  have hci : imm64 ci = w := by rcases hi with ⟨rfl, _, rfl⟩ | ⟨rfl, _, rfl⟩ <;> decide +kernel
  have hw0 : 0 < w := by rcases hw with rfl | rfl <;> omega
  have hw8 : w ≤ 8 := by rcases hw with rfl | rfl <;> omega
  have sG : Slice r k [ins .CMPQ [G 0, .imm ci] 0, ins .JLT [.target pNext] 0] := hs.left
  have sI : Slice r (k + 2) (hcIterCode w A ci) := hs.right.left
  have sJ : Slice r (k + 2 + 6) [ins .JMP [.target pSelf] 0] := hs.right.right
  have hnc : (hcIterCode w A ci).all (fun i => !i.mn.isControl) = true := by
    rcases hw with rfl | rfl <;> rfl
  intro q
  induction q with
  | zero =>
    intro n s e so a hq hG he hm h14 hn63 h10 h0 hA ha hso hso16 hEb
    have hnw : n < w := by
      rcases Nat.lt_or_ge n w with h | h
      · exact h
      · have := Nat.div_pos h hw0; omega
    have r0 := guard_reach (idx := k + 9) sG rfl lN s (by omega) n w h14 hci true (by rw [cond_jlt _ _ hn63 (by omega)]; simp; exact hnw)
    simp only [if_true] at r0
    refine ⟨_, e, r0.cast rfl rfl, hm, he, rfl, ?_, ?_, ?_, ?_, ?_, ⟨rfl, fun _ _ => rfl, rfl, rfl, rfl, rfl⟩, fun _ _ _ => rfl⟩
    · show greg s 0 = _; rw [h14, Nat.mod_eq_of_lt hnw]
    · show greg s 7 = _; rw [h10]; omega
    · show greg s 6 = _; rw [h0]; omega
    · show greg s A < _; rw [hA]; exact ha
    · show accOr w (greg s A) = _
      rw [hA, Nat.mul_zero, List.take_zero]
      simp [xorN, orBytes]
  | succ q ih =>
    intro n s e so a hq hG he hm h14 hn63 h10 h0 hA ha hso hso16 hEb
    have hnw : w ≤ n := by
      rcases Nat.lt_or_ge n w with h | h
      · rw [Nat.div_eq_of_lt h] at hq; omega
      · exact h
    have r0 := guard_reach (idx := k + 9) sG rfl lN s (by omega) n w h14 hci false (by rw [cond_jlt _ _ hn63 (by omega)]; simp; exact hnw)
    simp only [Bool.false_eq_true, if_false] at r0
    let s0 := setFlags s (subF 8 n w).2
    have hEbw : ∀ b ∈ (e.drop so).take w, b < 2 ^ 8 := by
      intro b hb
      apply hEb b
      rw [show n = w + (n - w) from by omega, take_split]
      exact List.mem_append_left _ hb
    obtain ⟨s1, hx1, m1, g10, g0, g14, gA, k1, ko⟩ := hc_iter w A ci hi s0 hG Mf ebase bl bf x xp hx hxb hxp heb e he hm so n a h10 h0 h14 hnw hn63
      hA ha (by omega) (by omega) hEbw
    have r1 : Reach r (k + 2) s0 (k + 2 + 6) s1 6 := by
      have := reach_seg sI hnc hx1
      rw [show (hcIterCode w A ci).length = 6 from rfl] at this; exact this
    have r2 : Reach r (k + 2 + 6) s1 k s1 1 := reach_jmp sJ lS s1
    let O := xorN ((e.drop so).take w) ((x.drop so).take w)
    have hOl : O.length = w := by
      show (xorN _ _).length = w
      rw [xorN_length, List.length_take, List.length_drop, List.length_take, List.length_drop]; omega
    have hOb : ∀ b ∈ O, b < 2 ^ 8 := xorN_bytes _ _ hEbw (fun b hb => hxb b (List.mem_of_mem_drop (List.mem_of_mem_take hb)))
    let e1 := spliceAt e so O
    have he1 : e1.length = bl := by
      show (spliceAt e so O).length = bl
      rw [spliceAt_length _ _ _ (by rw [hOl, he]; omega)]; exact he
    have hdrop1 : ∀ j, so + w ≤ j → e1.drop j = e.drop j := fun j hj => spliceAt_drop_after e so O j (by rw [hOl]; exact hj) (by rw [hOl, he]; omega)
    have hOlt : unlanes 8 O < 2 ^ (8 * w) := by have := unlanes_lt 8 O hOb; rw [hOl] at this; exact this
    have hdiv : (n - w) / w = q := by
      have : n = (n - w) + w := by omega
      rw [this, Nat.add_div_right _ hw0] at hq; omega
    obtain ⟨s', e', r3, m3, he', hdr, g14', g10', g0', gAlt, gAv, k3, ko3⟩ := ih (n - w) s1 e1 (so + w) (a ||| unlanes 8 O) hdiv
      (k1.lenG.trans hG) he1 m1 g14 (by omega) g10 g0 gA (Nat.or_lt_two_pow ha hOlt) (by omega) (by omega)
      (by
        intro b hb
        rw [hdrop1 (so + w) (Nat.le_refl _)] at hb
        apply hEb b
        rw [show n = w + (n - w) from by omega, take_split]
        exact List.mem_append_right _ hb)
    have e1d : (e1.drop (so + w)).take (w * q) = (e.drop (so + w)).take (w * q) := by rw [hdrop1 (so + w) (Nat.le_refl _)]
    refine ⟨s', e', (((r0.trans r1).trans r2).trans r3).cast rfl (by omega), m3, he', ?_, ?_, ?_, ?_, gAlt, ?_,
      RegsKeep.trans (RegsKeep.trans (⟨rfl, fun _ _ => rfl, rfl, rfl, rfl, rfl⟩ : RegsKeep hcKeepG s s0) k1) k3, ?_⟩
    · rw [show so + w * (q + 1) = so + w + w * q from by rw [Nat.mul_add]; omega, hdr, hdrop1 _ (by omega)]
    · rw [g14']
      have : n = (n - w) + w := by omega
      conv => rhs; rw [this, Nat.add_mod_right]
    · rw [g10']; rw [Nat.mul_add]; omega
    · rw [g0']; rw [Nat.mul_add]; omega
    · rw [gAv, accOr_step w a O hw hOl hOb, e1d, show w * (q + 1) = w + w * q from by rw [Nat.mul_add]; omega, take_split, take_split,
        xorN_append _ _ _ _ (by rw [List.length_take, List.length_drop, List.length_take, List.length_drop]; omega), orBytes_append,
        Nat.or_assoc]
    · intro m hm' hmA
      rw [ko3 m hm' hmA, ko m hm' hmA]
      rfl

end SMGo.Proofs.ISAVal
