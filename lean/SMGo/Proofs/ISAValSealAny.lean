import SMGo.Proofs.ISAValSealFinal
import SMGo.Proofs.ISAValFusedPrefixAny
set_option linter.unusedSimpArgs false
namespace SMGo.Proofs.ISAVal
open SMGo SMGo.Model.ISAVal SMGo.Model.GCM SMGo.Proofs.GCM SMGo.Spec.GCM SMGo.Proofs.ISATouch
open SMGo.Model.ISA (Reg Opd Instr)

theorem toB_zeros8 : toB (List.replicate 8 0) = List.replicate 8 0 := by decide

/-- **the pre-counter block of the listing is `calculateJ0` of the model**, for every nonce -/
theorem j0N_model (rk nonce : List Nat) (hnb : ∀ x ∈ nonce, x < 2 ^ 8) :
    calculateJ0 (hPowers (encE rk (List.replicate 16 0))) (toB nonce) = blockToNat (toB (j0N rk nonce)) := by
  by_cases hn : nonce.length = 12
  · unfold j0N; rw [if_pos hn]; exact j0_model12 rk nonce hn
  · have hE := encE_length rk
    have hH := H_lt hE
    have hh := hPowers_h hE
    have hP := powOK_hPowers (hE (List.replicate 16 0))
    have hBl := hE (List.replicate 16 0)
    unfold j0N calculateJ0 j0BytesN
    rw [if_neg hn, if_neg (by rw [toB_length]; exact hn), hKey_eq]
    generalize encE rk (List.replicate 16 0) = hB at *
    simp only [toB_length]
    have hlb : (List.replicate 8 0 ++ be64N (8 * nonce.length)).length = 16 := by simp [be64N]
    have hbb : ∀ x ∈ List.replicate 8 0 ++ be64N (8 * nonce.length), x < 2 ^ 8 := by
      intro x hx; rw [List.mem_append] at hx
      rcases hx with h | h
      · rw [List.eq_of_mem_replicate h]; decide
      · exact be64N_bytes _ x h
    have r1 := ghUpdate_rep gmulOK hH hh hP Rep_zero (toB nonce)
    rw [ghUpdN_eq hB 0 nonce hnb, rb128_loadR _ hlb hbb, toB_append, toB_zeros8, toB_be64N]
    have hY : gmulR (loadR hB) (ghUpdate (hPowers hB) 0 (toB nonce) ^^^ loadR (List.replicate 8 0 ++ be64 (8 * nonce.length))) < 2 ^ 128 :=
      gmulR_lt (loadR_lt hBl) (Nat.xor_lt_two_pow r1.1 (loadR_lt (by rw [List.length_append, be64_length]; rfl)))
    rw [store_eq _ hY, toB_toNat]
    rfl

theorem seal_j0Labels : J0Labels sealR :=
  ⟨label_findPc seal_labels (name := "J0.loopBy4") (by decide), label_findPc seal_labels (name := "J0.loopBy1") (by decide),
   label_findPc seal_labels (name := "J0.last") (by decide), label_findPc seal_labels (name := "J0.copy8") (by decide),
   label_findPc seal_labels (name := "J0.copy4") (by decide), label_findPc seal_labels (name := "J0.copy2") (by decide),
   label_findPc seal_labels (name := "J0.copy1") (by decide), label_findPc seal_labels (name := "J0.copyEnd") (by decide),
   label_findPc seal_labels (name := "J0.doneJ0") (by decide), label_findPc seal_labels (name := "J0.endJ0") (by decide)⟩

/-- **`sealAsm`, instructions 0 … 1498, on its entry state**, for ANY nonce and any additional data -/
theorem seal_prefix_any (g v k rk : List Nat) (t : Nat) (dst nonce pt aad tmp : List Nat)
    (hG : g.length = 16) (hV : v.length = 32) (hK : k.length = 8) (hrk : rk.length = 32) (hrkb : ∀ x ∈ rk, x < 2 ^ 32)
    (hnl : nonce.length < 2 ^ 32) (hnb : ∀ x ∈ nonce, x < 2 ^ 8) (hab : ∀ x ∈ aad, x < 2 ^ 8) (hall : aad.length < 2 ^ 32)
    (htmp : tmp.length = 32) :
    ∃ s5 N, N ≤ 34 * (nonce.length / 16) + 34 * (aad.length / 16) + 1700 ∧ Reach sealR 0 (sealState g v k rk t dst nonce pt aad tmp) 1499 s5 N ∧
      AfterPre (fun b => fmem "plaintext" false rk dst nonce pt aad b) rk nonce aad (j0N rk nonce)
        81604378624 94489280512 90194313216 s5 ∧ s5.frame = (sealState g v k rk t dst nonce pt aad tmp).frame := by
  have e := fenv_of (sealState g v k rk t dst nonce pt aad tmp) "plaintext" false rk dst nonce pt aad tmp (seal_mem ..) (seal_syms ..)
    (by simp [sealState, mkState, lookup]; rfl) (by simp [sealState, mkState, lookup]; rfl) (by simp [sealState, mkState, lookup])
    (by simp [sealState, mkState, lookup]; rfl) (by simp [sealState, mkState, lookup]; rfl) (by simp [sealState, mkState, lookup])
    hrk hnl hall
  exact prefix_any sealR seal_prefix_slices ⟨seal_lJ, seal_sPreLabels, seal_copyLabels⟩ seal_j0Labels _ hG hV hK rk nonce aad _ _ _ e _
    (memFam_fmem "plaintext" false rk dst nonce pt aad hrk hnl hall) tmp htmp (seal_mem ..) hrk hrkb hnb (by omega) (by omega) hab
    (by omega) (by decide)

/-- **`sealAsm` = SP 800-38D Algorithm 4 over SM4, for EVERY nonce length** -/
theorem sealAsm_run (g v k rk : List Nat) (t : Nat) (dst nonce pt aad tmp : List Nat)
    (hG : g.length = 16) (hV : v.length = 32) (hK : k.length = 8) (hrk : rk.length = 32) (hrkb : ∀ x ∈ rk, x < 2 ^ 32)
    (hnl : nonce.length < 2 ^ 32) (hnb : ∀ x ∈ nonce, x < 2 ^ 8) (hab : ∀ x ∈ aad, x < 2 ^ 8) (hall : aad.length < 2 ^ 32)
    (hpb : ∀ x ∈ pt, x < 2 ^ 8) (hpl : pt.length < 2 ^ 32) (ht : t ≤ 16) (hdl : dst.length = pt.length + t) (hdl32 : dst.length < 2 ^ 32)
    (htmp : tmp.length = 32) (fuel : Nat)
    (hfuel : 34 * (nonce.length / 16) + 34 * (aad.length / 16) + 700 * (pt.length / 256) + 6500 < fuel) :
    runSeal fuel (sealState g v k rk t dst nonce pt aad tmp)
      = .ok ((sealGCM (encE rk) t (toB nonce) (toB pt) (toB aad)).map (·.toNat)) := by
  obtain ⟨s5, N5, hN5, r5, ap, hf5⟩ := seal_prefix_any g v k rk t dst nonce pt aad tmp hG hV hK hrk hrkb hnl hnb hab hall htmp
  obtain ⟨s', N, hN, r6, hd⟩ := seal_after_prefix g v k rk t dst nonce pt aad tmp hrk hrkb hall hpb hpl ht (by omega) hdl32 _
    (j0N_length rk nonce) (j0N_bytes rk nonce hnb) s5 ap hf5 (pt.length / 16 + 1) (fuelNeed_le16 _)
  have hrun := run_of_reach (r5.trans r6) seal_slices'.ret fuel (by omega)
  unfold runSeal run
  rw [sealR_ok]
  simp only [bind, Except.bind]
  rw [hrun]
  simp only [hd]
  have hl : (sealOutJ rk (j0N rk nonce) pt aad t (pt.length / 16 + 1)).length = pt.length + t := by
    unfold sealOutJ
    simp only []
    rw [List.length_append, ladN_length _ _ _ _ _ _ _ _ (fuelNeed_le16 _), List.length_take, lanes_length]
    omega
  have hb : ∀ x ∈ sealOutJ rk (j0N rk nonce) pt aad t (pt.length / 16 + 1), x < 2 ^ 8 := by
    intro x hx
    unfold sealOutJ at hx
    simp only [List.mem_append] at hx
    rcases hx with h' | h'
    · exact ladN_bytes _ _ _ _ _ _ _ _ hpb x h'
    · exact mem_lanes_lt 8 16 _ x (List.mem_of_mem_take h')
  have hsp : spliceAt dst 0 (sealOutJ rk (j0N rk nonce) pt aad t (pt.length / 16 + 1)) = sealOutJ rk (j0N rk nonce) pt aad t (pt.length / 16 + 1) := by
    unfold spliceAt
    rw [List.take_zero, List.nil_append, Nat.zero_add, List.drop_eq_nil_of_le (by rw [hl, hdl]; exact Nat.le_refl _), List.append_nil]
  rw [hsp, ← toNat_toB _ hb, sealOutJ_eq rk _ nonce pt aad t _ (j0N_length rk nonce) (j0N_bytes rk nonce hnb) (j0N_model rk nonce hnb) hpb hab
    (fuelNeed_le16 _), seal_eq_spec (encE_length rk)]
  rfl

end SMGo.Proofs.ISAVal
#print axioms SMGo.Proofs.ISAVal.sealAsm_run
