/-
  Refinement, entry points of /repo/sm2/sm2.go in the EXTENDED generated program `SMGo.Gen.CTIRProgProto.prog`
  (= `CTIRProg.prog ++ extra`), CLOSED: `sm2.VerifyHashed` (107) and `sm2.ZA` (106), by COMPOSITION of
    SMGo/Proofs/CTIRRefineVerify.lean      (`ir_verifyHashed`, `psbCallees_of`, `verifyCallees_of`, modulo callees),
    SMGo/Proofs/CTIRRefineRenameProto.lean (functions < 100 of `CTIRProg.prog` inside the extended program;
                                            `mixedMult_proto_computes_allG` for ScalarMixedMult_Unsafe, 100),
    SMGo/Proofs/CTIRRefineUnsafe.lean      (Bytes_Unsafe 94, GetAffineX_Unsafe 90),
    SMGo/Proofs/CTIRRefineSign.lean        (ensure32Bytes 99), CTIRRefineField / CTIRRefinePointA (element and point wrappers),
    SMGo/Proofs/CTIRRefineZA.lean          (`ir_ZA_eq_model`),
    SMGo/Proofs/CTIRRefineClosed.lean, CTIRRefineEntry.lean (`fiatP4`, `pointCtx4`, `ctx4`, the bundles as theorems).
  No reasoning about IR statements here.  The namespaces of the two generated programs are never opened together:
  `prog`, `globals` are those of `CTIRProg`; `PX`, `GP` abbreviate `CTIRProgProto.prog`, `CTIRProgProto.globals`.

    §1  the external world: `OracleOk O` (= `ExtOk`, `BigOk`, the ModInverse clause); `protoOracle_oracleOk`;
    §2  the globals of the extended program (`GP k = globals k` for k < 19);
    §3  the callees of VerifyHashed for `ctx4`, closed: `verifyCallees4`;
    §4  `ir_verifyHashed_fiat`, `ir_verifyHashed_fiat_proto`;
    §5  `verifyHashed_ctx4 : verifyHashed ctx4 = verifyHashed ctxFiat`, `ir_verifyHashed_ctxFiat(_proto)`;
    §6  ZA: `ir_ZA_fiat`, `ir_ZA_ctxFiat(_proto)`.
-/
import SMGo.Proofs.CTIRRefineEntry
import SMGo.Proofs.CTIRRefineVerify
import SMGo.Proofs.CTIRRefineRenameProto
import SMGo.Proofs.CTIRRefineUnsafe
import SMGo.Proofs.CTIRRefineZA
import SMGo.Proofs.SM3Pad
open SMGo SMGo.Model.CTIR SMGo.Gen.CTIRProg SMGo.Proofs.CTIRRefineUtils SMGo.Proofs.CTIRRefineField
open SMGo.Proofs.CTIRRefineClosed SMGo.Proofs.CTIRRefineEntry
open SMGo.Proofs.CTIRRefineFiat (fuelFiat)
open SMGo.Proofs.CTIRRefineComb (CalleeFails nilPointV)
open SMGo.Proofs.CTIRRefinePointA (ptRawV fuelW fuelPtAdd fuelPtDouble)
open SMGo.Proofs.CTIRRefineVerify (ExtOk ElemOps PsbCallees VerifyCallees fuelCoc fuelPsb fuelVerify)
open SMGo.Proofs.CTIRRefineSign (BigOk)
open SMGo.Proofs.CTIRRefineUnsafe (InvOk BytesOk)
open SMGo.Proofs.CTIRRefineRename (computes_proto_of_prog)
set_option linter.unusedSimpArgs false
set_option linter.unusedVariables false

namespace SMGo.Proofs.CTIRRefineEntryProto

/-- the extended program and its globals -/
abbrev PX : Prog := SMGo.Gen.CTIRProgProto.prog
abbrev GP : Nat → Val := SMGo.Gen.CTIRProgProto.globals

/-! ## 1. The external world -/

/-- HYPOTHESES on the oracle: the `math/big` externals, `fmt.Errorf`, `big.Int.Cmp` (`ExtOk` of CTIRRefineVerify,
    `BigOk` of CTIRRefineSign) and `ModInverse` modulo p as `Spec.SM2.invMod`.  Satisfied by the executable oracle of
    the extended program: `protoOracle_oracleOk`. -/
structure OracleOk (O : Oracle) : Prop where
  ext : ExtOk O
  big : BigOk O
  modInverse : ∀ a : Nat, O 5 [.int (a : Int), .int (Gen.SM2Params.param_P : Int)]
    = [.int ((Spec.SM2.invMod a Gen.SM2Params.param_P : Nat) : Int)]

theorem OracleOk.inv {O : Oracle} (h : OracleOk O) : InvOk O Gen.SM2Params.param_P :=
  InvOk.of_bigOk h.big h.modInverse

theorem OracleOk.bytes {O : Oracle} (h : OracleOk O) : BytesOk O := BytesOk.of_bigOk h.big

/-- on the externals of the base program (0 … 11) the oracle of the extended program is the standard oracle -/
theorem protoOracle_std (tape : Nat → Nat → Nat) (args : List Val) : ∀ name, name < 12 →
    Model.CTIRProto.protoOracle tape name args = stdOracle extKinds tape name args
  | 0, _ => rfl | 1, _ => rfl | 2, _ => rfl | 3, _ => rfl | 4, _ => rfl | 5, _ => rfl
  | 6, _ => rfl | 7, _ => rfl | 8, _ => rfl | 9, _ => rfl | 10, _ => rfl | 11, _ => rfl
  | n + 12, h => absurd h (by omega)

theorem protoOracle_bigOk (tape : Nat → Nat → Nat) : BigOk (Model.CTIRProto.protoOracle tape) := by
  have h := CTIRRefineSign.stdOracle_bigOk tape
  refine ⟨fun b => ?_, fun a b => ?_, fun a b => ?_, fun a b => ?_, fun a m => ?_, fun a => ?_, fun v buf => ?_,
    fun v => ?_, fun args => ?_⟩
  · rw [protoOracle_std tape _ 7 (by decide)]; exact h.setBytes b
  · rw [protoOracle_std tape _ 0 (by decide)]; exact h.add a b
  · rw [protoOracle_std tape _ 9 (by decide)]; exact h.sub a b
  · rw [protoOracle_std tape _ 6 (by decide)]; exact h.mul a b
  · rw [protoOracle_std tape _ 4 (by decide)]; exact h.mod a m
  · rw [protoOracle_std tape _ 8 (by decide)]; exact h.sign a
  · rw [protoOracle_std tape _ 3 (by decide)]; exact h.fillBytes v buf
  · rw [protoOracle_std tape _ 1 (by decide)]; exact h.byteLen v
  · rw [protoOracle_std tape _ 10 (by decide)]; exact h.errorf args

/-- **the executable oracle of the extended program satisfies `OracleOk`** -/
theorem protoOracle_oracleOk (tape : Nat → Nat → Nat) : OracleOk (Model.CTIRProto.protoOracle tape) where
  ext := CTIRRefineVerify.protoOracle_ok tape
  big := protoOracle_bigOk tape
  modInverse := fun a => by
    rw [protoOracle_std tape _ 5 (by decide)]
    exact CTIRRefineUnsafe.stdOracle_modInverse tape a _

/-! ## 2. The globals of the extended program -/

theorem gp (k : Nat) (hk : k < 19) : GP k = globals k := CTIRRefineRename.globals_proto_of_prog k hk

theorem GP_1 : GP 1 = bytesV (Model.Field.minusOneEncoding fiatP4) := (gp 1 (by decide)).trans globals_1
theorem GP_2 : GP 2 = bytesV (Model.Field.bytes fiatP4 fiatP4.zero) := (gp 2 (by decide)).trans globals_2
theorem GP_6 : GP 6 = elemV (encL pointCtx4.b) := (gp 6 (by decide)).trans globals_6
theorem GP_7 : GP 7 = .arr (ctx4.first.map CTIRRefineComb.encT) := CTIRRefineRename.globals_proto_first
theorem GP_8 : GP 8 = CTIRRefineComb.encT ctx4.second := CTIRRefineRename.globals_proto_second
theorem GP_14 : GP 14 = .int ((fiatP4.modulus : Nat) : Int) := (gp 14 (by decide)).trans CTIRRefineUnsafe.globals_curveP
theorem GP_16 : GP 16 = .int ((ctx4.n : Nat) : Int) := (gp 16 (by decide)).trans globals4.g16
theorem GP_18 : GP 18 = .int 1 := (gp 18 (by decide)).trans globals4.g18
theorem GP_19 : GP 19 = bytesV ctx4.zBytes := CTIRRefineZA.globals_19

/-! ## 3. The callees of VerifyHashed in the extended program, for `ctx4` -/

section Callees
variable {O : Oracle}

/-- fuels of the callees: element Mul / Square / Add / Sub (`fuelW 900`), Equal, SetBytes, NewSM2Point, … -/
def fuelEq : Nat := fuelEqual fuelFiat fuelFiat - 1
def fuelEsb : Nat := fuelSetBytes fuelFiat fuelFiat
def fuelMm : Nat := CTIRRefineRename.fuelMixedPt fuelFiat fuelFiat fuelFiat fuelFiat fuelFiat fuelFiat
def fuelBu : Nat := CTIRRefineUnsafe.fuelPointBytesUnsafe fuelFiat fuelFiat
def fuelGu : Nat := CTIRRefineUnsafe.fuelGetAffineXUnsafe fuelFiat fuelFiat

/-- the element methods called by Sm2CheckOnCurve (22, 24, 16, 18, 37), in the extended program, any globals -/
theorem elemOps4 {G : Nat → Val} :
    ElemOps PX G O fiatP4 encL (fuelW fuelFiat) (fuelW fuelFiat) (fuelW fuelFiat) (fuelW fuelFiat) fuelEq where
  enc_out4 := fun e => e.2
  mul := fun o a b ho => computes_proto_of_prog
    (CTIRRefinePointA.Mul_computes CTIRRefinePointA.prog_hasPointFns fiatPrims4 o ho a b) (by decide)
  square := fun o a ho => computes_proto_of_prog
    (CTIRRefinePointA.Square_computes CTIRRefinePointA.prog_hasPointFns fiatPrims4 o ho a) (by decide)
  add := fun o a b ho => computes_proto_of_prog
    (CTIRRefinePointA.Add_computes CTIRRefinePointA.prog_hasPointFns fiatPrims4 o ho a b) (by decide)
  sub := fun o a b ho => computes_proto_of_prog
    (CTIRRefinePointA.Sub_computes CTIRRefinePointA.prog_hasPointFns fiatPrims4 o ho a b) (by decide)
  equal := fun a b => computes_proto_of_prog (Equal_field prog_hasWrappers (bytesPrims4 a) (bytesPrims4 b)) (by decide)

/-- (*SM2Element).SetBytes (33) on a fresh element, by the outcome of the model -/
theorem esb4 (v : Bytes) :
    (∀ e, Model.Field.setBytes fiatP4 v = .ok e →
      Computes PX GP O 33 fuelEsb [elemV [0, 0, 0, 0], bytesV v] [elemV (encL e), elemV (encL e), .int 0]) ∧
    (Model.Field.setBytes fiatP4 v = .err →
      Computes PX GP O 33 fuelEsb [elemV [0, 0, 0, 0], bytesV v] [elemV [0, 0, 0, 0], elemV [0, 0, 0, 0], .int 1]) ∧
    Model.Field.setBytes fiatP4 v ≠ .panic := by
  refine ⟨fun e h => ?_, fun h => ?_, setBytes_ne_panic fiatP4 v (by rw [minusOne_length]; exact Nat.le_refl _)⟩
  · have hv : v.length = 32 := by
      apply Classical.byContradiction
      intro hne
      simp [Model.Field.setBytes, hne] at h
    exact computes_proto_of_prog (SetBytes_ok prog_hasWrappers GP_1 [0, 0, 0, 0] v e h
      (setBytesPrims4 [0, 0, 0, 0] CTIRRefinePointA.out4_zero v hv)) (by decide)
  · exact computes_proto_of_prog ((SetBytes_err (X := O) prog_hasWrappers GP_1 [0, 0, 0, 0] v h).mono (F' := fuelEsb) (by decide))
      (by decide)

/-- the callees of (*SM2Point).SetBytes (104) -/
theorem psbCallees4 : PsbCallees PX GP O pointCtx4 encL (fuelNew fuelFiat) 26 fuelEsb
    (fuelCoc (fuelW fuelFiat) (fuelW fuelFiat) (fuelW fuelFiat) (fuelW fuelFiat) fuelEq) 4 (fuelW fuelFiat) :=
  CTIRRefineVerify.psbCallees_of CTIRRefineVerify.PX_105 elemOps4 GP_6
    (computes_proto_of_prog (CTIRRefinePointA.NewSM2Point_computes CTIRRefinePointA.prog_hasPointFns fiatPrims4 rfl) (by decide))
    (fun qa qb qc a b c => computes_proto_of_prog
      (CTIRRefinePointA.PointSet_computes CTIRRefinePointA.prog_hasPointFns qa qb qc a b c) (by decide))
    (fun v => by
      obtain ⟨a, b, c⟩ := esb4 (O := O) v
      cases h : Model.Field.setBytes pointCtx4.F v with
      | ok e => exact a e h
      | err => exact b h
      | panic => exact absurd h c)
    (fun o t => computes_proto_of_prog (CTIRRefinePointA.Set_computes CTIRRefinePointA.prog_hasPointFns.h15 o t) (by decide))
    (fun o ho => computes_proto_of_prog
      (CTIRRefinePointA.One_computes CTIRRefinePointA.prog_hasPointFns fiatPrims4 o ho) (by decide))

end Callees

/-- the entries of the generated 6-3-14 tables that ScalarMixedMult_Unsafe passes to NewFromXY are `Out4` -/
theorem mem_getD {t : List (List (List Nat))} {i : Nat} {x : List Nat} (h : x ∈ t.getD i []) : ∃ c ∈ t, x ∈ c := by
  rw [List.getD_eq_getElem?_getD] at h
  cases hc : t[i]? with
  | none => rw [hc] at h; cases h
  | some c => rw [hc] at h; exact ⟨c, List.mem_of_getElem? hc, h⟩

theorem xyUsed_out4 (x y : List Nat) (h : CTIRRefineMixed.XYUsed ctx4.first ctx4.second x y) : Out4 x ∧ Out4 y := by
  rcases h with ⟨tb, htb, hx, hy⟩ | ⟨hx, hy⟩
  · obtain ⟨c, hc, hxc⟩ := mem_getD hx
    obtain ⟨d, hd, hyd⟩ := mem_getD hy
    exact ⟨tables_6_3_14_out4.1 tb htb c hc x hxc, tables_6_3_14_out4.1 tb htb d hd y hyd⟩
  · obtain ⟨c, hc, hxc⟩ := mem_getD hx
    obtain ⟨d, hd, hyd⟩ := mem_getD hy
    exact ⟨tables_6_3_14_out4.2 c hc x hxc, tables_6_3_14_out4.2 d hd y hyd⟩

section Callees2
variable {O : Oracle}

/-- ScalarMixedMult_Unsafe (100) of the extended program = `Model.Curve.scalarMixedMult (pointOps pointCtx4)` on the
    generated tables, any scalars, any point; matcher-free form -/
theorem mm4 (s : Bytes) (pub : Model.Point.Pt Limbs) (t : Bytes) :
    (∀ r, Model.Curve.scalarMixedMult (Model.Curve.pointOps ctx4.C) s pub t ctx4.first ctx4.second = .ok r →
      Computes PX GP O 100 fuelMm [bytesV s, CTIRRefinePointA.ptV encL pub, bytesV t] [CTIRRefinePointA.ptV encL r, .int 0]) ∧
    (Model.Curve.scalarMixedMult (Model.Curve.pointOps ctx4.C) s pub t ctx4.first ctx4.second = .panic →
      CalleeFails PX GP O 100 [bytesV s, CTIRRefinePointA.ptV encL pub, bytesV t]) ∧
    Model.Curve.scalarMixedMult (Model.Curve.pointOps ctx4.C) s pub t ctx4.first ctx4.second ≠ .err := by
  have key := CTIRRefineRename.mixedMult_proto_computes_allG (G := GP) (X := O) (C := pointCtx4) (enc := encL)
    (fun G => fiatPrims4) encOk4 rfl GP_6 rfl rfl rfl rfl s pub t ctx4.first ctx4.second GP_7 GP_8 xyUsed_out4
  refine ⟨fun r h => ?_, fun h => ?_, fun h => ?_⟩
  · rw [show Model.Curve.scalarMixedMult (Model.Curve.pointOps pointCtx4) s pub t ctx4.first ctx4.second = .ok r from h] at key
    exact key
  · rw [show Model.Curve.scalarMixedMult (Model.Curve.pointOps pointCtx4) s pub t ctx4.first ctx4.second = .panic from h] at key
    exact key
  · rw [show Model.Curve.scalarMixedMult (Model.Curve.pointOps pointCtx4) s pub t ctx4.first ctx4.second = .err from h] at key
    exact key

/-- **the callees of VerifyHashed in the extended program compute the operations of `ctx4`** (the bundle
    `VerifyCallees` of CTIRRefineVerify, discharged), for every oracle with `OracleOk` -/
theorem verifyCallees4 (hO : OracleOk O) :
    VerifyCallees PX GP O ctx4 encL (fuelNew fuelFiat)
      (fuelPsb (fuelNew fuelFiat) 26 fuelEsb (fuelCoc (fuelW fuelFiat) (fuelW fuelFiat) (fuelW fuelFiat) (fuelW fuelFiat) fuelEq)
        4 (fuelW fuelFiat))
      CTIRRefineSign.fuelEns fuelMm fuelBu fuelGu :=
  CTIRRefineVerify.verifyCallees_of (X := ctx4) CTIRRefineVerify.PX_104 psbCallees4 CTIRRefinePointA.out4_zero
    (fun v hv => computes_proto_of_prog
      (CTIRRefineSign.ens_computes CTIRRefineSign.prog_hasSign.h99 hO.big v
        (Nat.lt_of_lt_of_le hv (by decide))) (by decide))
    (fun s pub t => by
      obtain ⟨a, b, c⟩ := mm4 (O := O) s pub t
      cases h : Model.Curve.scalarMixedMult (Model.Curve.pointOps ctx4.C) s pub t ctx4.first ctx4.second with
      | ok r => exact a r h
      | err => exact absurd h c
      | panic => exact b h)
    (fun p => computes_proto_of_prog
      (CTIRRefineUnsafe.pointBytesUnsafe_computes (C := pointCtx4) (enc := encL) prog_hasWrappers CTIRRefinePointB.prog_hasAffine
        CTIRRefineUnsafe.prog_hasUnsafe bytesPrims4 GP_2 GP_14 hO.inv hO.bytes CTIRRefineUnsafe.param_P_pos
        CTIRRefineUnsafe.param_P_le p) (by decide))
    (fun p => computes_proto_of_prog
      (CTIRRefineUnsafe.getAffineXUnsafe_computes (C := pointCtx4) (enc := encL) prog_hasWrappers CTIRRefinePointB.prog_hasAffine
        CTIRRefineUnsafe.prog_hasUnsafe bytesPrims4 GP_2 GP_14 hO.inv p) (by decide))

end Callees2

/-! ## 4. VerifyHashed, closed -/

/-- fuel of VerifyHashed -/
def fuelVerify4 : Nat :=
  fuelVerify (fuelNew fuelFiat)
    (fuelPsb (fuelNew fuelFiat) 26 fuelEsb (fuelCoc (fuelW fuelFiat) (fuelW fuelFiat) (fuelW fuelFiat) (fuelW fuelFiat) fuelEq)
      4 (fuelW fuelFiat))
    CTIRRefineSign.fuelEns fuelMm fuelBu fuelGu

/-- **`sm2.VerifyHashed` of the extended program = `Model.SM2.verifyHashed ctx4`**, generated globals, any oracle with
    `OracleOk` (satisfied by `protoOracle tape`), ANY five byte strings.  `.ok b`: the run returns the verdict `b` and an
    error code `e' ∈ {0, 1}` (0 = nil), 0 when the verdict is true; the model never returns `.err`; `.panic` only through
    a panic of ScalarMixedMult_Unsafe. -/
theorem ir_verifyHashed_fiat {O : Oracle} (hO : OracleOk O) (pubx puby e r s : Bytes) :
    match Model.SM2.verifyHashed ctx4 pubx puby e r s with
    | .ok b => ∃ e' : Int, (e' = 0 ∨ e' = 1) ∧ (b = true → e' = 0) ∧
        ∀ f, fuelVerify4 ≤ f →
          runV PX GP O f 107 [bytesV pubx, bytesV puby, bytesV e, bytesV r, bytesV s] = .ret [.int (if b then 1 else 0), .int e']
    | .err => False
    | .panic => (∃ F, ∀ f, F ≤ f → runV PX GP O f 107 [bytesV pubx, bytesV puby, bytesV e, bytesV r, bytesV s] = .panic) ∨
        (∀ f, runV PX GP O f 107 [bytesV pubx, bytesV puby, bytesV e, bytesV r, bytesV s] = .stuck) := by
  have key := CTIRRefineVerify.ir_verifyHashed hO.ext (verifyCallees4 hO) GP_18 GP_16 pubx puby e r s
  cases h : Model.SM2.verifyHashed ctx4 pubx puby e r s with
  | ok b => rw [h] at key; exact key
  | err => rw [h] at key; exact key
  | panic => rw [h] at key; exact key

/-- **the same with the executable oracle of the extended program: NO hypothesis** -/
theorem ir_verifyHashed_fiat_proto (tape : Nat → Nat → Nat) (pubx puby e r s : Bytes) :
    match Model.SM2.verifyHashed ctx4 pubx puby e r s with
    | .ok b => ∃ e' : Int, (e' = 0 ∨ e' = 1) ∧ (b = true → e' = 0) ∧
        ∀ f, fuelVerify4 ≤ f →
          runV PX GP (Model.CTIRProto.protoOracle tape) f 107 [bytesV pubx, bytesV puby, bytesV e, bytesV r, bytesV s]
            = .ret [.int (if b then 1 else 0), .int e']
    | .err => False
    | .panic => (∃ F, ∀ f, F ≤ f →
          runV PX GP (Model.CTIRProto.protoOracle tape) f 107 [bytesV pubx, bytesV puby, bytesV e, bytesV r, bytesV s] = .panic) ∨
        (∀ f, runV PX GP (Model.CTIRProto.protoOracle tape) f 107 [bytesV pubx, bytesV puby, bytesV e, bytesV r, bytesV s] = .stuck) :=
  ir_verifyHashed_fiat (protoOracle_oracleOk tape) pubx puby e r s


/-! ## 5. Transfer to `Model.SM2.ctxFiat` -/

section Transfer
open SMGo.Proofs.FiatCompose (ORel scalarMixedMult_rel)
open SMGo.Model.SM2 (ctxFiat fiatP pointCtxFiat)
open SMGo.Proofs.CTIRRefineVerify (mFin mMM mSet)

/-- an outcome mapped by `φ` is related to the original by the graph of `φ` -/
theorem orel_of_mapO {β β' : Type} (φ : β → β') {x : Outcome β} {y : Outcome β'}
    (h : CTIRRefineScalar.mapO φ x = y) : ORel (fun a b => b = φ a) x y := by
  subst h
  cases x <;> first | rfl | exact trivial

/-- `Model.Field.setBytes` of `fiatP4` is that of `fiatP` on the underlying limbs -/
theorem fiatP4_setBytes (v : Bytes) :
    ORel (fun a b => b = a.val) (Model.Field.setBytes fiatP4 v) (Model.Field.setBytes fiatP v) :=
  orel_of_mapO Subtype.val (CTIRRefineScalar.scalarSetBytes_map fiatP4 fiatP Subtype.val rfl
    (fun b hb => by rw [fiatP4_toMontgomery_val, fiatP4_fromBytesLE_val b hb]) v)

theorem checkOnCurve_val (x y : Limbs) :
    Model.Point.checkOnCurve pointCtx4 x y = Model.Point.checkOnCurve pointCtxFiat x.val y.val := rfl

/-- `(*SM2Point).SetBytes` commutes with `valPt` -/
theorem pointSetBytes_val (b : Bytes) :
    ORel (fun p r => r = valPt p) (Model.Point.setBytes pointCtx4 b) (Model.Point.setBytes pointCtxFiat b) := by
  unfold Model.Point.setBytes
  by_cases h1 : b.length = 1 ∧ b.head? = some 0
  · rw [if_pos h1, if_pos h1]; exact infinity_val
  · rw [if_neg h1, if_neg h1]
    by_cases h2 : b.length = 65 ∧ b.head? = some 4
    · rw [if_pos h2, if_pos h2]
      refine SMGo.Proofs.FiatCompose.ORel.bind (fiatP4_setBytes _) (fun x x' hx => ?_)
      refine SMGo.Proofs.FiatCompose.ORel.bind (fiatP4_setBytes _) (fun y y' hy => ?_)
      subst hx hy
      rw [checkOnCurve_val]
      by_cases hc : Model.Point.checkOnCurve pointCtxFiat x.val y.val = true
      · rw [if_pos hc, if_pos hc]; rfl
      · rw [if_neg hc, if_neg hc]; exact trivial
    · rw [if_neg h2, if_neg h2]; exact trivial

theorem pointBytesUnsafe_val (p : Model.Point.Pt Limbs) :
    Model.Point.bytes pointCtxFiat (valPt p) false = Model.Point.bytes pointCtx4 p false := by
  unfold Model.Point.bytes
  simp only [pointCtx4_F, pointCtxFiat_F, valPt, isZero_val, toNat_val, fiatP4_modulus, Bool.false_eq_true, if_false]

theorem getAffineXUnsafe_val (p : Model.Point.Pt Limbs) :
    Model.Point.getAffineXUnsafe pointCtxFiat (valPt p) = Model.Point.getAffineXUnsafe pointCtx4 p := by
  unfold Model.Point.getAffineXUnsafe
  simp only [pointCtx4_F, pointCtxFiat_F, valPt, isZero_val, toNat_val, fiatP4_modulus]
  rfl

theorem mixedMult_val (g : Bytes) (P : Model.Point.Pt Limbs) (scalar : Bytes) :
    ORel (fun p r => r = valPt p)
      (Model.Curve.scalarMixedMult (Model.Curve.pointOps pointCtx4) g P scalar ctx4.first ctx4.second)
      (Model.Curve.scalarMixedMult (Model.Curve.pointOps pointCtxFiat) g (valPt P) scalar ctxFiat.first ctxFiat.second) :=
  scalarMixedMult_rel grel4 g rfl scalar _ _
    (fun t ht c hc e he => canon_of_out4 (tables_6_3_14_out4.1 t ht c hc e he))
    (fun c hc e he => canon_of_out4 (tables_6_3_14_out4.2 c hc e he))

theorem mFin_ctx4 (e r : Bytes) (res : Model.Point.Pt Limbs) : mFin ctx4 e r res = mFin ctxFiat e r (valPt res) := by
  unfold mFin
  have e1 : Model.Point.bytes ctxFiat.C (valPt res) false = Model.Point.bytes ctx4.C res false := pointBytesUnsafe_val res
  have e2 : Model.Point.getAffineXUnsafe ctxFiat.C (valPt res) = Model.Point.getAffineXUnsafe ctx4.C res :=
    getAffineXUnsafe_val res
  rw [e1, e2]
  rfl

theorem mMM_ctx4 (e r s : Bytes) (t : Nat) (pub : Model.Point.Pt Limbs) :
    mMM ctx4 e r s t pub = mMM ctxFiat e r s t (valPt pub) := by
  unfold mMM
  have h := mixedMult_val s pub (Model.SM2.ensure32 t)
  cases h4 : Model.Curve.scalarMixedMult (Model.Curve.pointOps ctx4.C) s pub (Model.SM2.ensure32 t) ctx4.first ctx4.second with
  | ok a =>
    cases hL : Model.Curve.scalarMixedMult (Model.Curve.pointOps ctxFiat.C) s (valPt pub) (Model.SM2.ensure32 t)
        ctxFiat.first ctxFiat.second with
    | ok b =>
      have h' : ORel (fun p r => r = valPt p) (Outcome.ok a) (Outcome.ok b) := by rw [← h4, ← hL]; exact h
      have hb : b = valPt a := h'
      subst hb
      exact mFin_ctx4 e r a
    | err => have h' : ORel (fun p r => r = valPt p) (Outcome.ok a) (Outcome.err) := by rw [← h4, ← hL]; exact h
             exact h'.elim
    | panic => have h' : ORel (fun p r => r = valPt p) (Outcome.ok a) (Outcome.panic) := by rw [← h4, ← hL]; exact h
               exact h'.elim
  | err =>
    cases hL : Model.Curve.scalarMixedMult (Model.Curve.pointOps ctxFiat.C) s (valPt pub) (Model.SM2.ensure32 t)
        ctxFiat.first ctxFiat.second with
    | ok b => have h' : ORel (fun p r => r = valPt p) (Outcome.err) (Outcome.ok b) := by rw [← h4, ← hL]; exact h
              exact h'.elim
    | err => rfl
    | panic => have h' : ORel (fun p r => r = valPt p) (Outcome.err) (Outcome.panic) := by rw [← h4, ← hL]; exact h
               exact h'.elim
  | panic =>
    cases hL : Model.Curve.scalarMixedMult (Model.Curve.pointOps ctxFiat.C) s (valPt pub) (Model.SM2.ensure32 t)
        ctxFiat.first ctxFiat.second with
    | ok b => have h' : ORel (fun p r => r = valPt p) (Outcome.panic) (Outcome.ok b) := by rw [← h4, ← hL]; exact h
              exact h'.elim
    | err => have h' : ORel (fun p r => r = valPt p) (Outcome.panic) (Outcome.err) := by rw [← h4, ← hL]; exact h
             exact h'.elim
    | panic => rfl

theorem mSet_ctx4 (pubx puby e r s : Bytes) (t : Nat) : mSet ctx4 pubx puby e r s t = mSet ctxFiat pubx puby e r s t := by
  unfold mSet
  have h : ORel (fun p r => r = valPt p) (Model.Point.setBytes ctx4.C ([4] ++ pubx ++ puby))
      (Model.Point.setBytes ctxFiat.C ([4] ++ pubx ++ puby)) := pointSetBytes_val _
  cases h4 : Model.Point.setBytes ctx4.C ([4] ++ pubx ++ puby) with
  | ok a =>
    cases hL : Model.Point.setBytes ctxFiat.C ([4] ++ pubx ++ puby) with
    | ok b =>
      rw [h4, hL] at h
      have hb : b = valPt a := h
      subst hb
      exact mMM_ctx4 e r s t a
    | err => rw [h4, hL] at h; exact h.elim
    | panic => rw [h4, hL] at h; exact h.elim
  | err =>
    cases hL : Model.Point.setBytes ctxFiat.C ([4] ++ pubx ++ puby) with
    | ok b => rw [h4, hL] at h; exact h.elim
    | err => rfl
    | panic => rw [h4, hL] at h; exact h.elim
  | panic =>
    cases hL : Model.Point.setBytes ctxFiat.C ([4] ++ pubx ++ puby) with
    | ok b => rw [h4, hL] at h; exact h.elim
    | err => rw [h4, hL] at h; exact h.elim
    | panic => rfl

/-- **`verifyHashed` over `ctx4` is `verifyHashed` over `ctxFiat`** -/
theorem verifyHashed_ctx4 (pubx puby e r s : Bytes) :
    Model.SM2.verifyHashed ctx4 pubx puby e r s = Model.SM2.verifyHashed ctxFiat pubx puby e r s := by
  rw [CTIRRefineVerify.verifyHashed_layers, CTIRRefineVerify.verifyHashed_layers, mSet_ctx4]
  rfl

/-- **`sm2.VerifyHashed` of the extended program = `Model.SM2.verifyHashed Model.SM2.ctxFiat`** -/
theorem ir_verifyHashed_ctxFiat {O : Oracle} (hO : OracleOk O) (pubx puby e r s : Bytes) :
    match Model.SM2.verifyHashed ctxFiat pubx puby e r s with
    | .ok b => ∃ e' : Int, (e' = 0 ∨ e' = 1) ∧ (b = true → e' = 0) ∧
        ∀ f, fuelVerify4 ≤ f →
          runV PX GP O f 107 [bytesV pubx, bytesV puby, bytesV e, bytesV r, bytesV s] = .ret [.int (if b then 1 else 0), .int e']
    | .err => False
    | .panic => (∃ F, ∀ f, F ≤ f → runV PX GP O f 107 [bytesV pubx, bytesV puby, bytesV e, bytesV r, bytesV s] = .panic) ∨
        (∀ f, runV PX GP O f 107 [bytesV pubx, bytesV puby, bytesV e, bytesV r, bytesV s] = .stuck) := by
  have key := ir_verifyHashed_fiat hO pubx puby e r s
  rw [verifyHashed_ctx4] at key
  cases h : Model.SM2.verifyHashed ctxFiat pubx puby e r s with
  | ok b => rw [h] at key; exact key
  | err => rw [h] at key; exact key
  | panic => rw [h] at key; exact key

/-- **the same with the executable oracle of the extended program: NO hypothesis** -/
theorem ir_verifyHashed_ctxFiat_proto (tape : Nat → Nat → Nat) (pubx puby e r s : Bytes) :
    match Model.SM2.verifyHashed ctxFiat pubx puby e r s with
    | .ok b => ∃ e' : Int, (e' = 0 ∨ e' = 1) ∧ (b = true → e' = 0) ∧
        ∀ f, fuelVerify4 ≤ f →
          runV PX GP (Model.CTIRProto.protoOracle tape) f 107 [bytesV pubx, bytesV puby, bytesV e, bytesV r, bytesV s]
            = .ret [.int (if b then 1 else 0), .int e']
    | .err => False
    | .panic => (∃ F, ∀ f, F ≤ f →
          runV PX GP (Model.CTIRProto.protoOracle tape) f 107 [bytesV pubx, bytesV puby, bytesV e, bytesV r, bytesV s] = .panic) ∨
        (∀ f, runV PX GP (Model.CTIRProto.protoOracle tape) f 107 [bytesV pubx, bytesV puby, bytesV e, bytesV r, bytesV s] = .stuck) :=
  ir_verifyHashed_ctxFiat (protoOracle_oracleOk tape) pubx puby e r s

end Transfer

/-! ## 6. ZA -/

section ZA
open SMGo.Model.SM2 (ctxFiat)

/-- the streaming SM3 model with the generated round constants answers every history like the standard (C04) -/
theorem ctx4_sm3 : ∀ ops, Model.SM3.run ctx4.tt ops = Spec.SM3.runHistory ops := SMGo.Proofs.SM3.run_eq_runHistory

theorem za_ctx4 (id pubx puby : Bytes) : Model.SM2.za ctx4 id pubx puby = Model.SM2.za ctxFiat id pubx puby := rfl

/-- **`sm2.ZA` of the extended program = `Model.SM2.za ctx4`**, generated globals, any oracle whose external 12
    (`sm3.Sum`) hashes the bytes written so far (`protoOracle_sum`); `id` shorter than 2^60 bytes (a Go slice) -/
theorem ir_ZA_fiat {O : Oracle} (hSum : ∀ m : Bytes, O 12 [bytesV m] = [bytesV (Spec.SM3.hash m)])
    (id pubx puby : Bytes) (hlen : id.length < 2 ^ 60) :
    match Model.SM2.za ctx4 id pubx puby with
    | .ok z => ∀ f, CTIRRefineZA.fuelZA ≤ f →
        runV PX GP O f 106 [bytesV id, bytesV pubx, bytesV puby] = .ret [bytesV z, .int 0]
    | .err => ∀ f, CTIRRefineZA.fuelZA ≤ f →
        runV PX GP O f 106 [bytesV id, bytesV pubx, bytesV puby] = .ret [.arr [], .int 1]
    | .panic => False := by
  have key := CTIRRefineZA.ir_ZA_eq_model (G := GP) (O := O) ctx4 ctx4_sm3 GP_19 hSum id pubx puby hlen
  cases h : Model.SM2.za ctx4 id pubx puby with
  | ok z => rw [h] at key; exact key
  | err => rw [h] at key; exact key
  | panic => rw [h] at key; exact key

/-- **`sm2.ZA` of the extended program = `Model.SM2.za Model.SM2.ctxFiat`** -/
theorem ir_ZA_ctxFiat {O : Oracle} (hSum : ∀ m : Bytes, O 12 [bytesV m] = [bytesV (Spec.SM3.hash m)])
    (id pubx puby : Bytes) (hlen : id.length < 2 ^ 60) :
    match Model.SM2.za ctxFiat id pubx puby with
    | .ok z => ∀ f, CTIRRefineZA.fuelZA ≤ f →
        runV PX GP O f 106 [bytesV id, bytesV pubx, bytesV puby] = .ret [bytesV z, .int 0]
    | .err => ∀ f, CTIRRefineZA.fuelZA ≤ f →
        runV PX GP O f 106 [bytesV id, bytesV pubx, bytesV puby] = .ret [.arr [], .int 1]
    | .panic => False := by
  have key := ir_ZA_fiat hSum id pubx puby hlen
  rw [za_ctx4] at key
  cases h : Model.SM2.za ctxFiat id pubx puby with
  | ok z => rw [h] at key; exact key
  | err => rw [h] at key; exact key
  | panic => rw [h] at key; exact key

/-- the same with the executable oracle: NO hypothesis but the length bound (see also `CTIRRefineZA.ir_ZA_closed`,
    the statement against `Spec.SM2.za`, which needs no model context at all) -/
theorem ir_ZA_ctxFiat_proto (tape : Nat → Nat → Nat) (id pubx puby : Bytes) (hlen : id.length < 2 ^ 60) :
    match Model.SM2.za ctxFiat id pubx puby with
    | .ok z => ∀ f, CTIRRefineZA.fuelZA ≤ f →
        runV PX GP (Model.CTIRProto.protoOracle tape) f 106 [bytesV id, bytesV pubx, bytesV puby] = .ret [bytesV z, .int 0]
    | .err => ∀ f, CTIRRefineZA.fuelZA ≤ f →
        runV PX GP (Model.CTIRProto.protoOracle tape) f 106 [bytesV id, bytesV pubx, bytesV puby] = .ret [.arr [], .int 1]
    | .panic => False :=
  ir_ZA_ctxFiat (CTIRRefineZA.protoOracle_sum tape) id pubx puby hlen

end ZA

/-- the fuel of VerifyHashed, as a number -/
theorem fuelVerify4_eq : fuelVerify4 = 49926307 := by decide

#print axioms protoOracle_oracleOk
#print axioms verifyCallees4
#print axioms ir_verifyHashed_fiat
#print axioms ir_verifyHashed_fiat_proto
#print axioms verifyHashed_ctx4
#print axioms ir_verifyHashed_ctxFiat
#print axioms ir_verifyHashed_ctxFiat_proto
#print axioms ir_ZA_fiat
#print axioms ir_ZA_ctxFiat
#print axioms ir_ZA_ctxFiat_proto

end SMGo.Proofs.CTIRRefineEntryProto
