import SMGo.Proofs.ISAValLadX0Eq
set_option linter.unusedSimpArgs false
namespace SMGo.Proofs.ISAVal
open SMGo.Model.ISAVal SMGo.Model.GCM SMGo.Proofs.GCM SMGo.Proofs.ISATouch
open SMGo.Model.ISA (Reg Opd Instr)

/-- the state when `cryptoBlocksAsm` is done -/
structure LadEnd (M2 : List Nat → List Nat → List Region) (dlen h y' : Nat) (dc' : List Nat) (s s' : State) : Prop where
  pc : PCtx s'
  gh : GhCtx h s'
  acc : vreg s' 21 = y'
  acclt : y' < 2 ^ 128
  mem : ∃ tc', tc'.length = 32 ∧ s'.mem = M2 dc' tc'
  hdc : dc'.length = dlen
  keep : KeepsM [15] ladKeepV (List.range 8) s s'

/-- the output bytes of `loopX0` -/
def x0Out (rk jb src : List Nat) (c : Nat) : List Nat :=
  (xorN (padTo16 (src.drop (16 * c))) (encB rk (ctrBlk jb (c + 1)))).take (src.length - 16 * c)

theorem xsT_writesM : writesNoneM xsTCode (List.range 16) (14 :: aKeepV) (List.range 8) = true := by decide +kernel

theorem regsKeep_toM {G : List Nat} {s s' : State} (h : RegsKeep G s s') : KeepsM G (List.range 32) (List.range 8) s s' :=
  h.toM _ _

set_option maxRecDepth 100000 in
set_option maxHeartbeats 4000000 in
/-- **`loopX0`: the 0..15 remaining bytes** -/
theorem x0_reach (r : Routine) (k b : Nat) (hs : Slice r k (ladX0Code b)) (lb : X0Labels r k b)
    (M2 : List Nat → List Nat → List Region) (dbase dlen tp sp : Nat) (rk jb src : List Nat) (lm : LadMem M2 dbase dlen tp rk src sp)
    (hrk : rk.length = 32) (hrkb : ∀ x ∈ rk, x < 2 ^ 32) (hjb : jb.length = 16) (hjbb : ∀ x ∈ jb, x < 2 ^ 8) (hsb : ∀ x ∈ src, x < 2 ^ 8)
    (hsp : sp + src.length < 2 ^ 63) (hdb : dbase + dlen < 2 ^ 63) (hsl : src.length ≤ dlen) (htp : tp + 32 < 2 ^ 63)
    (toff h hf c y : Nat) (dc tc : List Nat) (s : State) (hhf : hf < 2 ^ 63) (hto : toff = 0 ∨ toff = 16)
    (st : LadSt M2 dbase dlen tp sp toff (Wblk jb 0) h hf src 1 c y dc tc s) (hc : 16 * c ≤ src.length)
    (hlen : src.length - 16 * c < 16) :
    ∃ s' N, N ≤ 900 ∧ Reach r k s (k + 650) s' N ∧
      LadEnd M2 dlen h (if src.length - 16 * c = 0 ∨ hf = 0 then y else gmulR h (y ^^^ rb128 (unlanes 8 (padTo16 (x0Out rk jb src c)))))
        (spliceAt dc (16 * c) (x0Out rk jb src c)) s s' := by
  rw [x0_eq] at hs
  have sG : Slice r k [ins .CMPQ [G 9, .imm 0] 0, ins .JLE [.target (b + 22642)] 0] := hs.left
  have sF : Slice r (k + 2) fill1Code := hs.right.left
  have sI : Slice r (k + 2 + 2) (x0InCode (b + 18977) (b + 19003) (b + 19029) (b + 19057) (b + 19083)) := hs.right.right.left
  have h3 := hs.right.right.right
  rw [x0In_len] at h3
  have sK : Slice r (k + 2 + 2 + 38) kern1Code := h3.left
  have h4 := h3.right
  rw [kern1_len] at h4
  have sX : Slice r (k + 2 + 2 + 38 + 529) xsTCode := h4.left
  have sCS : Slice r (k + 2 + 2 + 38 + 529 + 3) clrSetCode := h4.right.left
  have sCL : Slice r (k + 2 + 2 + 38 + 529 + 3 + 4) (clrLoopCode (b + 22325) (b + 22344)) := h4.right.right.left
  have sO : Slice r (k + 2 + 2 + 38 + 529 + 3 + 4 + 6) (x0OutCode (b + 22347) (b + 22374) (b + 22401) (b + 22430) (b + 22457)) :=
    h4.right.right.right.left
  have h5 := h4.right.right.right.right
  rw [x0Out_len] at h5
  have sG2 : Slice r (k + 2 + 2 + 38 + 529 + 3 + 4 + 6 + 36) [ins .CMPQ [G 0, .imm 0] 0, ins .JEQ [.target (b + 22642)] 0] := h5.left
  have sH : Slice r (k + 2 + 2 + 38 + 529 + 3 + 4 + 6 + 36 + 2) x0HashCode := h5.right.left
  have h6 := h5.right.right
  rw [x0Hash_len] at h6
  have sN : Slice r (k + 2 + 2 + 38 + 529 + 3 + 4 + 6 + 36 + 2 + 28) [ins .NOP [] 0] := h6
  obtain ⟨n, hn⟩ : ∃ n, n = src.length - 16 * c := ⟨_, rfl⟩
  rw [← hn] at hlen ⊢
  have hg9 : greg s 9 = n := by rw [hn]; exact st.g9
  by_cases hn0 : n = 0
  · -- nothing left
    have r0 := guard_reach (idx := k + 650) sG rfl lb.done s (by rw [st.pc.lenG]; decide) n 0 hg9 imm64_0' true
      (by rw [cond_jle _ _ (by omega) (by decide)]; simp; omega)
    simp only [if_true] at r0
    have k0 : KeepsM (List.range 16) (List.range 32) (List.range 8) s (setFlags s (subF 8 n 0).2) := keepsM_setFlags _ _ _ s _
    have hout : x0Out rk jb src c = [] := by unfold x0Out; rw [← hn, hn0, List.take_zero]
    refine ⟨_, 2, by omega, r0, st.pc.of_keepsM k0 (by decide), st.gh.of_keepsM k0 (by decide), ?_, ?_, ⟨tc, st.htc, ?_⟩, ?_,
      k0.mono (by decide) (by decide) (fun _ h => h)⟩
    · rw [if_pos (Or.inl hn0)]; exact st.acc
    · rw [if_pos (Or.inl hn0)]; exact st.acclt
    · rw [hout, spliceAt_nil]; exact st.mem
    · rw [hout, spliceAt_nil]; exact st.hdc
  · -- 1 … 15 bytes
    have hn1 : 1 ≤ n := by omega
    have r0 := guard_reach (idx := k + 650) sG rfl lb.done s (by rw [st.pc.lenG]; decide) n 0 hg9 imm64_0' false
      (by rw [cond_jle _ _ (by omega) (by decide)]; simp; omega)
    simp only [Bool.false_eq_true, if_false] at r0
    let s0 := setFlags s (subF 8 n 0).2
    have k0 : KeepsM (List.range 16) (List.range 32) (List.range 8) s s0 := keepsM_setFlags _ _ _ s _
    have pc0 : PCtx s0 := st.pc.of_keepsM k0 (by decide)
    -- the counter
    obtain ⟨s1, hr1, q6, q14⟩ := fill1_spec s0 pc0.lenV pc0.v16 (Wblk jb 0) (Wblk_qlt jb 0) c (st.ctr 0 (by decide))
    have k1 := keeps_of_exec _ fill1_writes hr1
    have r1 : Reach r (k + 2) s0 (k + 2 + 2) s1 2 := reach_seg sF (by rfl) hr1
    have pc1 : PCtx s1 := pc0.of_keeps k1 (by decide)
    -- the tail of the input goes to the scratch block
    have tail_len : (src.drop (16 * c)).length = n := by rw [List.length_drop, hn]
    obtain ⟨s2, N2, hN2, r2, m2, g26, g210, g29, k2⟩ := x0in_reach r (k + 2 + 2) _ _ _ _ _ sI
      (by rw [show k + 2 + 2 + 3 = k + 7 from by omega]; exact lb.i8) (by rw [show k + 2 + 2 + 11 = k + 15 from by omega]; exact lb.i4)
      (by rw [show k + 2 + 2 + 19 = k + 23 from by omega]; exact lb.i2) (by rw [show k + 2 + 2 + 27 = k + 31 from by omega]; exact lb.i1)
      (by rw [show k + 2 + 2 + 35 = k + 39 from by omega]; exact lb.ie) (fun t => M2 dc t) tp (lm.m2.bufT dc st.hdc) (src.drop (16 * c)) (sp + 16 * c)
      (fun t ht => (st.srcOK t ht).toData hc) (fun x hx => hsb x (List.mem_of_mem_drop hx)) htp (by rw [List.length_drop]; omega)
      n s1 tc 0 toff hto pc1.lenG st.htc
      (by rw [k1.mem]; exact st.mem) (by rw [k1.g 9 (by decide)]; exact hg9) hn1 (by omega)
      (by rw [k1.g 10 (by decide), Nat.add_zero]; exact st.g10) (by rw [k1.g 6 (by decide)]; exact st.g6) (by rw [tail_len]; omega)
    simp only [List.drop_zero, Nat.add_zero] at m2 g210
    have htk : (src.drop (16 * c)).take n = src.drop (16 * c) := List.take_of_length_le (by omega)
    rw [htk] at m2
    have hpl : (padTo16 (src.drop (16 * c))).length = 16 := padTo16_length _ (by omega)
    let tc1 := spliceAt tc toff (padTo16 (src.drop (16 * c)))
    have htc1 : tc1.length = 32 := by
      show (spliceAt tc toff _).length = 32
      rw [spliceAt_length _ _ _ (by rw [hpl, st.htc]; rcases hto with rfl | rfl <;> omega)]; exact st.htc
    have k2M := regsKeep_toM k2
    have pc2 : PCtx s2 := pc1.of_keepsM k2M (by decide)
    -- the kernel
    obtain ⟨s3, hr3, lt9, o9, g315, k3⟩ := kern1_spec s2 pc2.lenG pc2.lenV pc2.v10 pc2.v11 pc2.v12 (ctrW (Wblk jb 0) (c + 1))
      (by rw [vreg_of_vec k2.vec 6]; exact q6) rk hrk hrkb 73014444032
      (by rw [k2.g 15 (by decide), k1.g 15 (by decide)]; exact st.rkp) (by decide)
      (fun i hi => by rw [m2]; exact lm.rk dc tc1 i st.hdc htc1 hi)
    rw [encQ_ctr rk jb hrkb hjb hjbb] at o9
    have r3 : Reach r (k + 2 + 2 + 38) s2 (k + 2 + 2 + 38 + 529) s3 529 := by
      have := reach_seg sK kern1_nc hr3; rw [kern1_len] at this; exact this
    -- xor in the scratch block
    have hrd1 : (tc1.drop toff).take 16 = padTo16 (src.drop (16 * c)) := by
      have := spliceAt_read tc toff (padTo16 (src.drop (16 * c))) (by rw [hpl, st.htc]; rcases hto with rfl | rfl <;> omega)
      rw [hpl] at this; exact this
    have pad_b : ∀ x ∈ padTo16 (src.drop (16 * c)), x < 2 ^ 8 := by
      intro x hx
      unfold padTo16 at hx
      rw [List.mem_append] at hx
      rcases hx with h' | h'
      · exact hsb x (List.mem_of_mem_drop h')
      · rw [List.eq_of_mem_replicate h']; decide
    obtain ⟨s4, hr4, m4⟩ := xsT_spec s3 (k3.lenG.trans pc2.lenG) (k3.lenV.trans pc2.lenV) (fun t => M2 dc t) tp (lm.m2.bufT dc st.hdc)
      tc1 htc1 toff (by rw [hrd1]; exact pad_b) (by rw [k3.mem]; exact m2) (by rcases hto with rfl | rfl <;> omega)
      (by rw [k3.g 6 (by decide)]; exact g26) htp _ ⟨lt9, o9, encB_length _ _, encB_bytes _ _⟩
    rw [hrd1] at m4
    have k4 := keepsM_of_exec _ xsT_writesM hr4
    have r4 : Reach r (k + 2 + 2 + 38 + 529) s3 (k + 2 + 2 + 38 + 529 + 3) s4 3 := reach_seg sX (by rfl) hr4
    let X2 := xorN (padTo16 (src.drop (16 * c))) (encB rk (ctrBlk jb (c + 1)))
    have hX2l : X2.length = 16 := by show (xorN _ _).length = 16; rw [xorN_length, hpl, encB_length]; rfl
    have hX2b : ∀ x ∈ X2, x < 2 ^ 8 := xorN_bytes _ _ pad_b (encB_bytes _ _)
    have tc1_over : spliceAt tc1 toff X2 = spliceAt tc toff X2 := by
      show spliceAt (spliceAt tc toff _) toff X2 = _
      rw [spliceAt_over tc toff _ X2 (by rw [hX2l, hpl]; exact Nat.le_refl _) (by rw [hpl, st.htc]; rcases hto with rfl | rfl <;> omega)]
      have hxl : X2.length = (padTo16 (src.drop (16 * c))).length := by rw [hX2l, hpl]
      rw [hxl, List.drop_length, List.append_nil]
    rw [show spliceAt tc1 toff (xorN (padTo16 (src.drop (16 * c))) (encB rk (ctrBlk jb (c + 1)))) = spliceAt tc toff X2 from tc1_over] at m4
    let tc2 := spliceAt tc toff X2
    have htc2 : tc2.length = 32 := by
      show (spliceAt tc toff X2).length = 32
      rw [spliceAt_length _ _ _ (by rw [hX2l, st.htc]; rcases hto with rfl | rfl <;> omega)]; exact st.htc
    -- clearRight
    have hG4 : s4.gpr.length = 16 := k4.lenG.trans (k3.lenG.trans pc2.lenG)
    obtain ⟨s5, hr5, g52, g511, k5⟩ := clrSet_spec s4 hG4 (tp + toff) n (by rw [k4.g 6 (by decide), k3.g 6 (by decide)]; exact g26)
      (by rw [k4.g 9 (by decide), k3.g 9 (by decide)]; exact g29) (by rcases hto with rfl | rfl <;> omega) (by omega)
    have r5 : Reach r (k + 2 + 2 + 38 + 529 + 3) s4 (k + 2 + 2 + 38 + 529 + 3 + 4) s5 4 := reach_seg sCS (by rfl) hr5
    obtain ⟨s6, r6, m6, k6⟩ := clr_reach r (k + 2 + 2 + 38 + 529 + 3 + 4) _ _ sCL
      (by rw [show k + 2 + 2 + 38 + 529 + 3 + 4 = k + 578 from by omega]; exact lb.cl)
      (by rw [show k + 2 + 2 + 38 + 529 + 3 + 4 + 6 = k + 584 from by omega]; exact lb.ce) (fun t => M2 dc t) tp (lm.m2.bufT dc st.hdc) htp
      (16 - n) s5 tc2 (toff + n) (k5.lenG.trans hG4) htc2 (by rw [k5.mem]; exact m4) g511 (by rw [g52]; omega)
      (by rcases hto with rfl | rfl <;> omega)
    have hclr : spliceAt tc2 (toff + n) (List.replicate (16 - n) 0) = spliceAt tc toff (padTo16 (X2.take n)) := by
      show spliceAt (spliceAt tc toff X2) (toff + n) _ = _
      rw [spliceAt_clear tc toff n X2 _ (by omega) (by rw [List.length_replicate, hX2l]; omega)
        (by rw [hX2l, st.htc]; rcases hto with rfl | rfl <;> omega)]
      unfold padTo16
      rw [List.length_take, hX2l, Nat.min_eq_left (by omega)]
    rw [hclr] at m6
    have hout : X2.take n = x0Out rk jb src c := by unfold x0Out; rw [← hn]
    rw [hout] at m6
    have hol : (x0Out rk jb src c).length = n := by rw [← hout, List.length_take, hX2l]; omega
    have hob : ∀ x ∈ x0Out rk jb src c, x < 2 ^ 8 := by rw [← hout]; exact fun x hx => hX2b x (List.mem_of_mem_take hx)
    have hpo : (padTo16 (x0Out rk jb src c)).length = 16 := padTo16_length _ (by omega)
    have hpob : ∀ x ∈ padTo16 (x0Out rk jb src c), x < 2 ^ 8 := by
      intro x hx
      unfold padTo16 at hx
      rw [List.mem_append] at hx
      rcases hx with h' | h'
      · exact hob x h'
      · rw [List.eq_of_mem_replicate h']; decide
    let tc3 := spliceAt tc toff (padTo16 (x0Out rk jb src c))
    have htc3 : tc3.length = 32 := by
      show (spliceAt tc toff _).length = 32
      rw [spliceAt_length _ _ _ (by rw [hpo, st.htc]; rcases hto with rfl | rfl <;> omega)]; exact st.htc
    have hrd3 : (tc3.drop toff).take 16 = padTo16 (x0Out rk jb src c) := by
      have := spliceAt_read tc toff (padTo16 (x0Out rk jb src c)) (by rw [hpo, st.htc]; rcases hto with rfl | rfl <;> omega)
      rw [hpo] at this; exact this
    -- copy to the destination
    have k6M := regsKeep_toM k6
    have hG6 : s6.gpr.length = 16 := k6.lenG.trans (k5.lenG.trans hG4)
    have e69 : greg s6 9 = n := by
      rw [k6.g 9 (by decide), k5.g 9 (by decide), k4.g 9 (by decide), k3.g 9 (by decide)]; exact g29
    have e66 : greg s6 6 = tp + toff := by
      rw [k6.g 6 (by decide), k5.g 6 (by decide), k4.g 6 (by decide), k3.g 6 (by decide)]; exact g26
    have e613 : greg s6 13 = dbase + 16 * c := by
      rw [k6.g 13 (by decide), k5.g 13 (by decide), k4.g 13 (by decide), k3.g 13 (by decide), k2.g 13 (by decide), k1.g 13 (by decide)]
      exact st.g13
    obtain ⟨s7, N7, hN7, r7, m7, g76, k7⟩ := x0out_reach r (k + 2 + 2 + 38 + 529 + 3 + 4 + 6) _ _ _ _ _ sO
      (by rw [show k + 2 + 2 + 38 + 529 + 3 + 4 + 6 + 2 = k + 586 from by omega]; exact lb.o8)
      (by rw [show k + 2 + 2 + 38 + 529 + 3 + 4 + 6 + 10 = k + 594 from by omega]; exact lb.o4)
      (by rw [show k + 2 + 2 + 38 + 529 + 3 + 4 + 6 + 18 = k + 602 from by omega]; exact lb.o2)
      (by rw [show k + 2 + 2 + 38 + 529 + 3 + 4 + 6 + 26 = k + 610 from by omega]; exact lb.o1)
      (by rw [show k + 2 + 2 + 38 + 529 + 3 + 4 + 6 + 34 = k + 618 from by omega]; exact lb.oe)
      (fun d => M2 d tc3) dbase dlen (lm.m2.bufD tc3 htc3) (padTo16 (x0Out rk jb src c)) (tp + toff)
      (fun d hd => by
        have := ((lm.m2.rdT d tc3 hd htc3).drop toff (by rw [htc3]; rcases hto with rfl | rfl <;> omega)).take 16
        rw [hrd3] at this; exact this)
      hpob hdb (by rw [hpo]; rcases hto with rfl | rfl <;> omega) n s6 dc 0 (16 * c) hG6 st.hdc m6 e69 (by omega)
      (by rw [e66]; rfl) e613 (by rw [hpo]; omega) (by rw [← st.hdc] at hsl ⊢; omega)
    have hcp : ((padTo16 (x0Out rk jb src c)).drop 0).take n = x0Out rk jb src c := by
      rw [List.drop_zero]; unfold padTo16; rw [List.take_left' hol]
    rw [hcp] at m7
    have k7M := regsKeep_toM k7
    -- hashFlag
    have hG7 : s7.gpr.length = 16 := k7.lenG.trans hG6
    have kAll7 : KeepsM [0, 15] ladKeepV (List.range 8) s s7 :=
      (k0.mono (by decide) (by decide) (fun _ h => h)).trans ((k1.toM.mono (by decide) (by decide) (fun _ h => h)).trans
        ((k2M.mono (by decide) (by decide) (fun _ h => h)).trans
        ((⟨k3.lenG, k3.lenV, k3.lenK, fun m hm => by
            simp only [List.mem_cons, List.not_mem_nil, or_false] at hm
            rcases hm with rfl | rfl
            · exact k3.g 0 (by decide)
            · rw [g315, k2.g 15 (by decide), k1.g 15 (by decide)]; exact st.rkp.symm,
          fun m hm => k3.v m (by revert m; decide), fun m hm => k3.k m hm, k3.syms, k3.frame⟩ : KeepsM [0, 15] ladKeepV (List.range 8) s2 s3).trans
        ((k4.mono (by decide) (by decide) (fun _ h => h)).trans ((k5.toM.mono (by decide) (by decide) (fun _ h => h)).trans
        ((k6M.mono (by decide) (by decide) (fun _ h => h)).trans (k7M.mono (by decide) (by decide) (fun _ h => h))))))))
    have c7 : GhCtx h s7 := st.gh.of_keepsM kAll7 ghRegs_lad
    have pc7 : PCtx s7 := st.pc.of_keepsM kAll7 pRegs_lad
    have hg0 : greg s7 0 = hf := (kAll7.g 0 (by decide)).trans st.g0
    have y7 : vreg s7 21 = y := by
      rw [vreg_of_vec k7.vec 21, vreg_of_vec k6.vec 21, k5.v 21 (by decide), k4.v 21 (by decide), k3.v 21 (by decide), vreg_of_vec k2.vec 21,
        k1.v 21 (by decide)]
      exact st.acc
    have r8 := guard_reach (idx := k + 650) sG2 rfl lb.done s7 (by rw [hG7]; decide) hf 0 hg0 imm64_0' (decide (hf = 0))
      (cond_jeq _ _ hhf (by decide))
    let s8 := setFlags s7 (subF 8 hf 0).2
    have k8 : KeepsM (List.range 16) (List.range 32) (List.range 8) s7 s8 := keepsM_setFlags _ _ _ s7 _
    have rPre : Reach r k s (k + 2 + 2 + 38 + 529 + 3 + 4 + 6 + 36) s7 (2 + 2 + N2 + 529 + 3 + 4 + (6 * (16 - n) + 2) + N7) :=
      (((((((r0.trans r1).trans r2).trans (r3.cast rfl rfl)).trans r4).trans r5).trans r6).trans (r7.cast (by omega) rfl))
    by_cases h0 : hf = 0
    · have hd : decide (hf = 0) = true := by simp [h0]
      rw [hd] at r8
      simp only [if_true] at r8
      have rAll := rPre.trans r8
      have rAll' : Reach r k s (k + 650) s8 (2 + 2 + N2 + 529 + 3 + 4 + (6 * (16 - n) + 2) + N7 + 2) := rAll
      refine ⟨s8, 2 + 2 + N2 + 529 + 3 + 4 + (6 * (16 - n) + 2) + N7 + 2, ?_, rAll', pc7.of_keepsM k8 (by decide), c7.of_keepsM k8 (by decide), ?_, ?_,
        ⟨tc3, htc3, m7⟩, ?_, (kAll7.trans (k8.mono (by decide) (by decide) (fun _ h => h))).mono (by decide) (fun _ h => h) (fun _ h => h)⟩
      · omega
      · rw [if_pos (Or.inr h0)]; exact y7
      · rw [if_pos (Or.inr h0)]; exact st.acclt
      · rw [spliceAt_length _ _ _ (by rw [hol, st.hdc]; omega)]; exact st.hdc
    · have hd : decide (hf = 0) = false := by simp [h0]
      rw [hd] at r8
      simp only [Bool.false_eq_true, if_false] at r8
      obtain ⟨s9, hr9, v9, lt9', c9, k9⟩ := x0hash_spec s8 h (c7.of_keepsM k8 (by decide)) y y7 st.acclt (tp + toff) g76
        (by rcases hto with rfl | rfl <;> omega) (padTo16 (x0Out rk jb src c)) hpo hpob
        (by show readMem s7.mem _ _ = _
            rw [m7]
            have := (lm.m2.rdT (spliceAt dc (16 * c) (x0Out rk jb src c)) tc3
              (by rw [spliceAt_length _ _ _ (by rw [hol, st.hdc]; omega)]; exact st.hdc) htc3) toff 16
              (by rw [htc3]; rcases hto with rfl | rfl <;> omega)
            rw [hrd3] at this; exact this)
      have r9 : Reach r (k + 2 + 2 + 38 + 529 + 3 + 4 + 6 + 36 + 2) s8 (k + 2 + 2 + 38 + 529 + 3 + 4 + 6 + 36 + 2 + 28) s9 28 := by
        have := reach_seg sH x0Hash_nc hr9; rw [x0Hash_len] at this; exact this
      refine ⟨s9, 2 + 2 + N2 + 529 + 3 + 4 + (6 * (16 - n) + 2) + N7 + 2 + 28, ?_, ((rPre.trans r8).trans r9).cast (by omega) rfl, (pc7.of_keepsM k8 (by decide)).of_keeps k9 (by decide), c9, ?_, ?_,
        ⟨tc3, htc3, by rw [k9.mem]; exact m7⟩, ?_,
        ((kAll7.trans (k8.mono (by decide) (by decide) (fun _ h => h))).trans (k9.toM.mono (by decide) (by decide) (fun _ h => h))).mono
          (by decide) (fun _ h => h) (fun _ h => h)⟩
      · omega
      · rw [if_neg (by omega)]; exact v9
      · rw [if_neg (by omega), ← v9]; exact lt9'
      · rw [spliceAt_length _ _ _ (by rw [hol, st.hdc]; omega)]; exact st.hdc

end SMGo.Proofs.ISAVal
