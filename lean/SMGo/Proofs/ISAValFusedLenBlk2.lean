import SMGo.Proofs.ISAValFusedLenBlk
set_option linter.unusedSimpArgs false
namespace SMGo.Proofs.ISAVal
open SMGo.Model.ISAVal SMGo.Model.GCM SMGo.Proofs.GCM SMGo.Proofs.ISATouch
open SMGo.Model.ISA (Reg Opd Instr)

section steps
variable (g v k : List Nat) (fl : Flags) (mem : List Region) (syms frame : List (String × Nat))

theorem execD_alu_imm_e (mn : Mn) (imm : Int) (d old r : Nat) (f : Flags)
    (hmn : mn = .ADDQ ∨ mn = .SUBQ ∨ mn = .ANDQ ∨ mn = .SHLQ ∨ mn = .SHRQ) (hold : g[d]? = some old) (hd : d < g.length)
    (halu : alu mn 8 (imm64 imm) old fl = .ok (r, f)) :
    execD ⟨g, v, k, fl, mem, syms, frame⟩ (ins mn [.imm imm, G d] 0) = .ok ⟨g.set d r, v, k, f, mem, syms, frame⟩ := by
  have hold' : g[d] = old := by rw [List.getElem?_eq_getElem hd] at hold; exact Option.some.inj hold
  rcases hmn with rfl | rfl | rfl | rfl | rfl <;>
    simp [execD, ins, G, exAlu, getG, hold, hold', halu, withFlags, setG, hd, Except.map]

theorem execD_movq_gpr_xmm (a d av old : Nat) (ha : g[a]? = some av) (hold : v[d]? = some old) (hd : d < v.length) :
    execD ⟨g, v, k, fl, mem, syms, frame⟩ (ins .MOVQ [G a, R d] 16)
      = .ok ⟨g, v.set d (old - old % 2 ^ 128 + av % 2 ^ 64), k, fl, mem, syms, frame⟩ := by
  have hold' : v[d] = old := by rw [List.getElem?_eq_getElem hd] at hold; exact Option.some.inj hold
  simp [execD, ins, G, R, exMov, getG, getV, setV, ha, hold', hd]

theorem execD_vpshufb_mask (vl a b kk d av bv kv old : Nat) (hvl : validVl vl = true)
    (ha : v[a]? = some av) (hb : v[b]? = some bv) (hk : k[kk]? = some kv) (hold : v[d]? = some old) (hd : d < v.length) :
    execD ⟨g, v, k, fl, mem, syms, frame⟩ (ins .VPSHUFB [R a, R b, K kk, R d] vl)
      = .ok ⟨g, v.set d (mergeMask 8 (8 * vl / 8) kv (vpshufb vl av bv) old), k, fl, mem, syms, frame⟩ := by
  have hold' : v[d] = old := by rw [List.getElem?_eq_getElem hd] at hold; exact Option.some.inj hold
  simp [execD, ins, R, K, exVec3, hvl, getV, getK, setV, ha, hb, hk, hold', hd, vec3]
end steps

/-- the head of `CalculateSPost`: bit lengths, the two shuffles, the length block in VxDat -/
def lenBlkCode : List DInstr :=
  [ins .SHLQ [.imm 3, G 7] 0, ins .SHLQ [.imm 3, G 9] 0, ins .LEAQ [.sym "Shuffle1" 0, G 12] 0, ins .LEAQ [.sym "Shuffle2" 0, G 1] 0,
   ins .VMOVDQU32 [M 12 0, R 0] 16, ins .VMOVDQU32 [M 1 0, R 1] 16, ins .MOVQ [G 7, R 2] 16, ins .MOVQ [G 9, R 3] 16,
   ins .MOVQ [.imm 255, G 12] 0, ins .KMOVW [G 12, K 1] 0, ins .VPSHUFB [R 1, R 3, R 20] 16, ins .VPSHUFB [R 0, R 2, K 1, R 20] 16]

theorem lane128_movq (old a : Nat) (ha : a < 2 ^ 64) : lane 128 0 (old - old % 2 ^ 128 + a % 2 ^ 64) = a := by
  unfold lane
  rw [Nat.mul_zero, Nat.shiftRight_zero, Nat.mod_eq_of_lt ha]
  have h1 : old - old % 2 ^ 128 = 2 ^ 128 * (old / 2 ^ 128) := by have := Nat.div_add_mod old (2 ^ 128); omega
  rw [h1, Nat.mul_add_mod]
  exact Nat.mod_eq_of_lt (by omega)

set_option maxRecDepth 100000 in
set_option maxHeartbeats 1000000 in
/-- **the length block**: VxDat := 8·aLen ‖ 8·cLen (two big-endian 64-bit numbers) -/
theorem lenBlk_spec (s : State) (hG : s.gpr.length = 16) (hV : s.vec.length = 32) (hK : s.kreg.length = 8) (hsy : s.syms = symTab)
    (rSh1 : readMem s.mem 64424509440 16 = .ok Gen.AsmData.amd64_Shuffle1)
    (rSh2 : readMem s.mem 68719476736 16 = .ok Gen.AsmData.amd64_Shuffle2)
    (a c : Nat) (h7 : greg s 7 = a) (h9 : greg s 9 = c) (ha : a < 2 ^ 61) (hc : c < 2 ^ 61) :
    ∃ s', execList lenBlkCode s = .ok s' ∧ vreg s' 20 = unlanes 8 (be64N (8 * a) ++ be64N (8 * c)) := by
  obtain ⟨gpr, vec, k, fl, mem, syms, frame⟩ := s
  simp only at hG hV hK hsy rSh1 rSh2
  subst hsy
  obtain ⟨a0, a1, a2, a3, a4, a5, a6, a7, a8, a9, a10, a11, a12, a13, a14, a15, rfl⟩ := list16 gpr hG
  obtain ⟨b0, b1, b2, b3, b4, b5, b6, b7, b8, b9, b10, b11, b12, b13, b14, b15, b16, b17, b18, b19, b20, b21, b22, b23, b24, b25, b26, b27, b28, b29, b30, b31, rfl⟩ := list32 vec hV
  obtain ⟨k0, k1, k2, k3, k4, k5, k6, k7, rfl⟩ := list8 k hK
  simp only [greg, List.getD_cons_succ, List.getD_cons_zero] at h7 h9
  subst h7 h9
  obtain ⟨f1, hf1⟩ := alu_shl3 a7 fl ha
  obtain ⟨f2, hf2⟩ := alu_shl3 a9 f1 hc
  have q1 : readMem mem ((64424509440 + 0 + 0 + imm64 0) % 2 ^ 64) 16 = .ok Gen.AsmData.amd64_Shuffle1 := by rw [ea0 _ (by decide)]; exact rSh1
  have q2 : readMem mem ((68719476736 + 0 + 0 + imm64 0) % 2 ^ 64) 16 = .ok Gen.AsmData.amd64_Shuffle2 := by rw [ea0 _ (by decide)]; exact rSh2
  apply Exists.intro
  apply And.intro
  · unfold lenBlkCode
    apply exec_step
    · exact execD_alu_imm_e (hmn := by simp) (hold := by rfl) (hd := by simp) (halu := hf1) ..
    apply exec_step
    · exact execD_alu_imm_e (hmn := by simp) (hold := by rfl) (hd := by simp) (halu := hf2) ..
    apply exec_step
    · exact execD_leaq (hs := symTab_shuffle1) (hd := by simp) ..
    apply exec_step
    · exact execD_leaq (hs := symTab_shuffle2) (hd := by simp) ..
    apply exec_step
    · exact execD_vmov_load (hvl := by rfl) (hb := by rfl) (hd := by simp) (hload := q1) ..
    apply exec_step
    · exact execD_vmov_load (hvl := by rfl) (hb := by rfl) (hd := by simp) (hload := q2) ..
    apply exec_step
    · exact execD_movq_gpr_xmm (ha := by rfl) (hold := by rfl) (hd := by simp) ..
    apply exec_step
    · exact execD_movq_gpr_xmm (ha := by rfl) (hold := by rfl) (hd := by simp) ..
    apply exec_step
    · exact execD_movq_imm (hd := by simp) ..
    apply exec_step
    · exact execD_kmovw (ha := by rfl) (hd := by simp) ..
    apply exec_step
    · exact execD_vec3 (hmn := by rfl) (hvl := by rfl) (ha := by rfl) (hb := by rfl) (hd := by simp) (hr := by rfl) ..
    apply exec_step
    · exact execD_vpshufb_mask (hvl := by rfl) (ha := by rfl) (hb := by rfl) (hk := by rfl) (hold := by rfl) (hd := by simp) ..
    exact execList_nil _
  · simp only [List.set_cons_succ, List.set_cons_zero, vreg, List.getD_cons_succ, List.getD_cons_zero]
    rw [show imm64 255 % 2 ^ 16 = 255 from by decide +kernel]
    exact lenBlk_value _ _ (8 * a7) (8 * a9) (by omega) (by omega) (lane128_movq _ _ (by omega)) (lane128_movq _ _ (by omega))

end SMGo.Proofs.ISAVal
