/-
  Symbolic execution of arm64 listings WITH BRANCHES (sm4/gcm_arm64.s) under the value interpreter
  SMGo/Model/ISAValArm64.lean (UNVALIDATED transcription of the Arm ARM): the runner `runC` on straight-line
  segments, CMP, conditional and unconditional branches, RET; the flags of CMP on non-negative 63-bit values; step
  lemmas for the instructions of gcm_arm64.s (PMULL, PMULL2, RBIT, EXT, DUP from a general register, the 1/2/3-register
  forms of LD1/ST1, MOVD immediate, two-operand SUB).
-/
import SMGo.Proofs.ISAValArm64Run
namespace SMGo.Proofs.ISAValArm64
open SMGo.Model.ISAValArm64 SMGo.Model.ISA
open SMGo.Model.ISAVal (lane lanes unlanes Region readMem writeMem lookup)

/-- the mnemonics `stepC` handles itself -/
def isCtl (mn : Mn) : Bool :=
  match mn with
  | .CMP | .BLT | .BGT | .BEQ | .JMP | .RET => true
  | _ => false

theorem stepC_exec (s : State) (fl : Option Flags) (i : DInstr) (h : isCtl i.mn = false) :
    stepC s fl i = (execD s i).map (fun s' => (s', fl, Next.fall)) := by
  obtain ⟨pc, mn, ops, arr⟩ := i
  cases mn <;> simp [isCtl] at h <;> simp [stepC]

/-- a straight-line segment inside a routine with branches -/
theorem runC_straight (r : Routine) (code rest : List DInstr) (hc : ∀ i ∈ code, isCtl i.mn = false)
    (s s' : State) (fl : Option Flags) (fuel : Nat) (h : execList code s = .ok s') :
    runC r (fuel + code.length) (code ++ rest) s fl = runC r fuel rest s' fl := by
  induction code generalizing s with
  | nil =>
    simp only [execList] at h
    have hs : s = s' := by injection h
    subst hs
    rfl
  | cons i tl ih =>
    have hi := hc i (by simp)
    simp only [execList] at h
    cases hE : execD s i with
    | error e => simp [hE] at h
    | ok s1 =>
      rw [hE] at h
      have hstep : stepC s fl i = .ok (s1, fl, .fall) := by rw [stepC_exec s fl i hi, hE]; rfl
      rw [List.length_cons, ← Nat.add_assoc, List.cons_append]
      simp only [runC, hstep]
      exact ih (fun j hj => hc j (by simp [hj])) s1 h

theorem runC_cmp (r : Routine) (pc : Nat) (v : Int) (n x : Nat) (rest : List DInstr) (s : State) (fl : Option Flags)
    (fuel : Nat) (hv : 0 ≤ v ∧ v < 4096) (hx : s.gpr[n]? = some x) :
    runC r (fuel + 1) (⟨pc, .CMP, [.imm v, .reg (.gpr n)], [.none, .none]⟩ :: rest) s fl
      = runC r fuel rest s (some (cmpFlags x v.toNat)) := by
  simp [runC, stepC, hv, getG, hx]

theorem runC_jmp (r : Routine) (pc t : Nat) (rest cur : List DInstr) (s : State) (fl : Option Flags) (fuel : Nat)
    (ht : findPc r t = some cur) :
    runC r (fuel + 1) (⟨pc, .JMP, [.target t], [.none]⟩ :: rest) s fl = runC r fuel cur s fl := by
  simp [runC, stepC, ht]

theorem runC_ret (r : Routine) (pc : Nat) (rest : List DInstr) (s : State) (fl : Option Flags) (fuel : Nat) :
    runC r (fuel + 1) (⟨pc, .RET, [.mem (.gpr 30) none 0 0], [.none]⟩ :: rest) s fl = .ok s := by
  simp [runC, stepC, isRet]

/-- a conditional branch: taken -/
theorem runC_bcc_taken (r : Routine) (mn : Mn) (hmn : mn = .BLT ∨ mn = .BGT ∨ mn = .BEQ) (pc t : Nat)
    (rest cur : List DInstr) (s : State) (f : Flags) (fuel : Nat)
    (hc : condHolds mn f = .ok true) (ht : findPc r t = some cur) :
    runC r (fuel + 1) (⟨pc, mn, [.target t], [.none]⟩ :: rest) s (some f) = runC r fuel cur s (some f) := by
  rcases hmn with rfl | rfl | rfl <;> simp [runC, stepC, hc, ht]

/-- a conditional branch: not taken -/
theorem runC_bcc_fall (r : Routine) (mn : Mn) (hmn : mn = .BLT ∨ mn = .BGT ∨ mn = .BEQ) (pc t : Nat)
    (rest : List DInstr) (s : State) (f : Flags) (fuel : Nat) (hc : condHolds mn f = .ok false) :
    runC r (fuel + 1) (⟨pc, mn, [.target t], [.none]⟩ :: rest) s (some f) = runC r fuel rest s (some f) := by
  rcases hmn with rfl | rfl | rfl <;> simp [runC, stepC, hc]

/-! ### CMP on a non-negative count -/

theorem cond_blt (a b : Nat) (ha : a < 2 ^ 63) (hb : b < 2 ^ 63) :
    condHolds .BLT (cmpFlags a b) = .ok (decide (a < b)) := by
  unfold condHolds cmpFlags
  simp only []
  have h1 : decide (a ≥ 2 ^ 63) = false := by simp; omega
  have h2 : decide (b ≥ 2 ^ 63) = false := by simp; omega
  by_cases h : a < b
  · have h3 : decide ((a + 2 ^ 64 - b) % 2 ^ 64 ≥ 2 ^ 63) = true := by simp; omega
    simp [h1, h2, h3, h]
  · have h3 : decide ((a + 2 ^ 64 - b) % 2 ^ 64 ≥ 2 ^ 63) = false := by simp; omega
    simp [h1, h2, h3, h]

theorem cond_bgt (a b : Nat) (ha : a < 2 ^ 63) (hb : b < 2 ^ 63) :
    condHolds .BGT (cmpFlags a b) = .ok (decide (b < a)) := by
  unfold condHolds cmpFlags
  simp only []
  have h1 : decide (a ≥ 2 ^ 63) = false := by simp; omega
  have h2 : decide (b ≥ 2 ^ 63) = false := by simp; omega
  by_cases h : b < a
  · have h3 : decide ((a + 2 ^ 64 - b) % 2 ^ 64 ≥ 2 ^ 63) = false := by simp; omega
    have h4 : ((a + 2 ^ 64 - b) % 2 ^ 64 == 0) = false := by simp; omega
    simp [h1, h2, h3, h4, h]
  · by_cases he : a = b
    · have h4 : ((a + 2 ^ 64 - b) % 2 ^ 64 == 0) = true := by simp; omega
      simp [h4, h]
    · have h3 : decide ((a + 2 ^ 64 - b) % 2 ^ 64 ≥ 2 ^ 63) = true := by simp; omega
      simp [h1, h2, h3, h]

theorem cond_beq (a b : Nat) (ha : a < 2 ^ 63) (hb : b < 2 ^ 63) :
    condHolds .BEQ (cmpFlags a b) = .ok (decide (a = b)) := by
  unfold condHolds cmpFlags
  simp only []
  by_cases h : a = b
  · have h4 : ((a + 2 ^ 64 - b) % 2 ^ 64 == 0) = true := by simp; omega
    simp [h4, h]
  · have h4 : ((a + 2 ^ 64 - b) % 2 ^ 64 == 0) = false := by simp; omega
    simp [h4, h]

/-! ### step lemmas for the instructions of gcm_arm64.s -/

def P3 : List Arr := [.B16, .B16, .B16]

section
variable (g v : List Nat) (mem : List Region) (syms frame : List (String × Nat))

theorem execD_vpmull (m n d mv nv : Nat) (hm : v[m]? = some mv) (hn : v[n]? = some nv) (hd0 : v[d]? = some d0) :
    execD ⟨g, v, mem, syms, frame⟩ (ins .VPMULL [R m, R n, R d] [.D1, .D1, .Q1])
      = .ok ⟨g, v.set d (vpmull mv nv), mem, syms, frame⟩ := by
  have hd := lt_of_get hd0
  simp [execD, ins, R, exGcm, getV, setV, hm, hn, hd]

theorem execD_vpmull2 (m n d mv nv : Nat) (hm : v[m]? = some mv) (hn : v[n]? = some nv) (hd0 : v[d]? = some d0) :
    execD ⟨g, v, mem, syms, frame⟩ (ins .VPMULL2 [R m, R n, R d] [.D2, .D2, .Q1])
      = .ok ⟨g, v.set d (vpmull2 mv nv), mem, syms, frame⟩ := by
  have hd := lt_of_get hd0
  simp [execD, ins, R, exGcm, getV, setV, hm, hn, hd]

theorem execD_vrbit (n d nv : Nat) (hn : v[n]? = some nv) (hd0 : v[d]? = some d0) :
    execD ⟨g, v, mem, syms, frame⟩ (ins .VRBIT [R n, R d] [.B16, .B16])
      = .ok ⟨g, v.set d (vrbit nv), mem, syms, frame⟩ := by
  have hd := lt_of_get hd0
  simp [execD, ins, R, exGcm, getV, setV, hn, hd]

theorem execD_vext (i : Int) (m n d mv nv : Nat) (hi : 0 ≤ i ∧ i ≤ 15) (hm : v[m]? = some mv) (hn : v[n]? = some nv)
    (hd0 : v[d]? = some d0) :
    execD ⟨g, v, mem, syms, frame⟩ (ins .VEXT [.imm i, R m, R n, R d] [.none, .B16, .B16, .B16])
      = .ok ⟨g, v.set d (vext i.toNat mv nv), mem, syms, frame⟩ := by
  have hd := lt_of_get hd0
  simp [execD, ins, R, exGcm, getV, setV, hm, hn, hd, hi]

theorem execD_vdup_gpr (a d x : Nat) (ha : g[a]? = some x) (hd0 : v[d]? = some d0) :
    execD ⟨g, v, mem, syms, frame⟩ (ins .VDUP [G a, R d] [.none, .D2])
      = .ok ⟨g, v.set d (vdupD x), mem, syms, frame⟩ := by
  have hd := lt_of_get hd0
  simp [execD, ins, R, G, exGcm, getG, setV, ha, hd]

theorem execD_movd_imm (imm : Int) (d : Nat) (hi : 0 ≤ imm ∧ imm < 65536) (hd0 : g[d]? = some d0) :
    execD ⟨g, v, mem, syms, frame⟩ (ins .MOVD [.imm imm, G d] [.none, .none])
      = .ok ⟨g.set d imm.toNat, v, mem, syms, frame⟩ := by
  have hd := lt_of_get hd0
  simp [execD, ins, G, exGeneral, setG, hd, hi]

theorem execD_sub2 (imm : Int) (d x : Nat) (hi : 0 ≤ imm ∧ imm < 4096) (hd0 : g[d]? = some x) :
    execD ⟨g, v, mem, syms, frame⟩ (ins .SUB [.imm imm, G d] [.none, .none])
      = .ok ⟨g.set d ((x + 2 ^ 64 - imm.toNat) % 2 ^ 64), v, mem, syms, frame⟩ := by
  have hd := lt_of_get hd0
  have hx : g[d] = x := by rw [List.getElem?_eq_getElem hd] at hd0; exact Option.some.inj hd0
  simp [execD, ins, G, exGeneral, getG, setG, hx, hd, hi]

/-- `VLD1 (Rb), [Vd.B16]` -/
theorem execD_ld1_oneB (b d gb : Nat) (bs : List Nat)
    (hb : g[b]? = some gb) (hd0 : v[d]? = some d0) (hload : readMem mem gb 16 = .ok bs) :
    execD ⟨g, v, mem, syms, frame⟩ (ins .VLD1 [M b 0, .regs [.vec d]] [.none, .B16])
      = .ok ⟨g, v.set d (unlanes 8 (bs.take 16)), mem, syms, frame⟩ := by
  have hd := lt_of_get hd0
  simp [execD, ins, M, exLd1, baseAddr, listRegs, getG, setV, loadBytes, writeBack, hb, hd, hload,
    List.range, List.range.loop, List.foldlM]

/-- `VLD1.P 16(Rb), [Vd.B16]` -/
theorem execD_ld1p_one (b d gb : Nat) (bs : List Nat)
    (hb : g[b]? = some gb) (hd0 : v[d]? = some d0) (hload : readMem mem gb 16 = .ok bs) :
    execD ⟨g, v, mem, syms, frame⟩ (ins .VLD1P [M b 16, .regs [.vec d]] [.none, .B16])
      = .ok ⟨g.set b ((gb + 16) % 2 ^ 64), v.set d (unlanes 8 (bs.take 16)), mem, syms, frame⟩ := by
  have hd := lt_of_get hd0
  have hbl := lt_of_get hb
  have hb' : g[b] = gb := by rw [List.getElem?_eq_getElem hbl] at hb; exact Option.some.inj hb
  simp [execD, ins, M, exLd1, baseAddr, listRegs, getG, setV, setG, loadBytes, writeBack, hb', hbl, hd, hload,
    List.range, List.range.loop, List.foldlM]

/-- `VLD1.P 32(Rb), [Va.B16, Va+1.B16]` -/
theorem execD_ld1p_two (b n0 n1 gb : Nat) (bs : List Nat) (hc : n1 = (n0 + 1) % 32)
    (hb : g[b]? = some gb) (e0 : v[n0]? = some x0) (e1 : v[n1]? = some x1)
    (hload : readMem mem gb 32 = .ok bs) :
    execD ⟨g, v, mem, syms, frame⟩ (ins .VLD1P [M b 32, .regs [.vec n0, .vec n1]] [.none, .B16])
      = .ok ⟨g.set b ((gb + 32) % 2 ^ 64),
          (v.set n0 (unlanes 8 (bs.take 16))).set n1 (unlanes 8 ((bs.drop 16).take 16)), mem, syms, frame⟩ := by
  have h0 := lt_of_get e0
  have h1 := lt_of_get e1
  have hbl := lt_of_get hb
  have hb' : g[b] = gb := by rw [List.getElem?_eq_getElem hbl] at hb; exact Option.some.inj hb
  simp [execD, ins, M, exLd1, baseAddr, listRegs, hc.symm, getG, setV, setG, loadBytes, writeBack, hb', hbl, h0, h1,
    hload, List.range, List.range.loop, List.foldlM]

/-- `VLD1.P 48(Rb), [Va.B16, Va+1.B16, Va+2.B16]` -/
theorem execD_ld1p_three (b n0 n1 n2 gb : Nat) (bs : List Nat) (hc : n1 = (n0 + 1) % 32 ∧ n2 = (n0 + 2) % 32)
    (hb : g[b]? = some gb) (e0 : v[n0]? = some x0) (e1 : v[n1]? = some x1) (e2 : v[n2]? = some x2)
    (hload : readMem mem gb 48 = .ok bs) :
    execD ⟨g, v, mem, syms, frame⟩ (ins .VLD1P [M b 48, .regs [.vec n0, .vec n1, .vec n2]] [.none, .B16])
      = .ok ⟨g.set b ((gb + 48) % 2 ^ 64),
          ((v.set n0 (unlanes 8 (bs.take 16))).set n1 (unlanes 8 ((bs.drop 16).take 16))).set n2
            (unlanes 8 ((bs.drop 32).take 16)), mem, syms, frame⟩ := by
  have h0 := lt_of_get e0
  have h1 := lt_of_get e1
  have h2 := lt_of_get e2
  have hbl := lt_of_get hb
  have hb' : g[b] = gb := by rw [List.getElem?_eq_getElem hbl] at hb; exact Option.some.inj hb
  simp [execD, ins, M, exLd1, baseAddr, listRegs, hc.1.symm, hc.2.symm, getG, setV, setG, loadBytes, writeBack, hb', hbl,
    h0, h1, h2, hload, List.range, List.range.loop, List.foldlM]

/-- `VST1 [Vn.B16], (Rb)` -/
theorem execD_st1_one (b n gb nv : Nat) (mem' : List Region)
    (hb : g[b]? = some gb) (hn : v[n]? = some nv) (hstore : writeMem mem gb (lanes 8 16 nv) = .ok mem') :
    execD ⟨g, v, mem, syms, frame⟩ (ins .VST1 [.regs [.vec n], M b 0] [.B16, .none])
      = .ok ⟨g, v, mem', syms, frame⟩ := by
  simp [execD, ins, M, exSt1, baseAddr, listRegs, getG, getV, storeBytes, writeBack, hb, hn, hstore]

end

end SMGo.Proofs.ISAValArm64
