/-
  Lemmas for property C20, second half (specification side): the textbook right-to-left signed
  window recoding `Spec.Utils.naf` produces digits that are zero or odd and below 2^w in absolute
  value, leaves at least w zeros after every non-zero digit, and sums to its input.
-/
import SMGo.Spec.Utils
namespace SMGo.Proofs.UtilsNafSpec
open SMGo SMGo.Spec.Utils

/-- carry produced when the signed residue is negative -/
def mc (w k : Nat) : Nat := if 2 ^ w ≤ k % 2 ^ (w + 1) then 1 else 0

theorem mc_le_one (w k : Nat) : mc w k ≤ 1 := by unfold mc; split <;> omega

theorem mods_val (w k : Nat) :
    mods w k = ((k % 2 ^ (w + 1) : Nat) : Int) - ((mc w k * 2 ^ (w + 1) : Nat) : Int) := by
  unfold mods mc
  by_cases h : 2 ^ w ≤ k % 2 ^ (w + 1)
  · simp [h]
  · simp [h]

/-- arithmetic core: with P = 2^w, k = 2P·q + m -/
theorem next_core (P Pq m c : Nat) :
    ((((2 * Pq + m : Nat) : Int) - ((m : Int) - ((c * (2 * P) : Nat) : Int))) / 2).toNat
      = Pq + c * P := by
  have : (((2 * Pq + m : Nat) : Int) - ((m : Int) - ((c * (2 * P) : Nat) : Int)))
      = 2 * ((Pq + c * P : Nat) : Int) := by
    simp only [Int.natCast_add, Int.natCast_mul]; rw [Int.mul_add]
    have : ((c : Int) * (((2 : Nat) : Int) * (P : Int))) = 2 * ((c : Int) * (P : Int)) := by
      rw [Int.mul_left_comm]; rfl
    rw [this]; omega
  rw [this, Int.mul_ediv_cancel_left _ (by decide)]
  exact Int.toNat_natCast _

/-- the value that remains after emitting the digit `mods w k` and the w zeros that follow -/
theorem mods_next (w k : Nat) :
    (((k : Int) - mods w k) / 2).toNat = 2 ^ w * (k / 2 ^ (w + 1) + mc w k) := by
  rw [mods_val]
  have hk : k = 2 * (2 ^ w * (k / 2 ^ (w + 1))) + k % 2 ^ (w + 1) := by
    have := Nat.div_add_mod k (2 ^ (w + 1))
    rw [Nat.pow_succ, Nat.mul_comm (2 ^ w) 2, Nat.mul_assoc] at this
    rw [Nat.pow_succ, Nat.mul_comm (2 ^ w) 2]
    omega
  have h2 : 2 ^ (w + 1) = 2 * 2 ^ w := by rw [Nat.pow_succ, Nat.mul_comm]
  rw [h2] at hk ⊢
  generalize k % (2 * 2 ^ w) = m at hk ⊢
  generalize hq : k / (2 * 2 ^ w) = q at hk ⊢
  rw [Nat.mul_add, Nat.mul_comm (2 ^ w) (mc w k)]
  generalize 2 ^ w * q = Pq at hk ⊢
  rw [hk]
  exact next_core _ _ _ _

theorem two_pow_even (w : Nat) (hw : 1 ≤ w) : 2 ^ w % 2 = 0 := by
  obtain ⟨v, rfl⟩ : ∃ v, w = v + 1 := ⟨w - 1, by omega⟩
  rw [Nat.pow_succ]; omega

theorem mod_two_pow_odd (w k : Nat) (hk : k % 2 = 1) : k % 2 ^ (w + 1) % 2 = 1 := by
  rw [Nat.mod_mod_of_dvd _ ⟨2 ^ w, by rw [Nat.pow_succ, Nat.mul_comm]⟩]; exact hk

theorem mods_odd (w k : Nat) (hk : k % 2 = 1) : mods w k % 2 = 1 := by
  rw [mods_val]
  have h1 := mod_two_pow_odd w k hk
  have h2 : 2 ^ (w + 1) = 2 * 2 ^ w := by rw [Nat.pow_succ, Nat.mul_comm]
  rw [h2] at h1 ⊢
  generalize k % (2 * 2 ^ w) = m at h1 ⊢
  have : mc w k * (2 * 2 ^ w) = 2 * (mc w k * 2 ^ w) := by rw [Nat.mul_left_comm]
  rw [this]
  generalize mc w k * 2 ^ w = t
  omega

theorem mods_abs (w k : Nat) (hw : 1 ≤ w) (hk : k % 2 = 1) : (mods w k).natAbs < 2 ^ w := by
  have h1 := mod_two_pow_odd w k hk
  have h3 : k % 2 ^ (w + 1) < 2 ^ (w + 1) := Nat.mod_lt _ (Nat.two_pow_pos _)
  have hP := two_pow_even w hw
  rw [mods_val]; unfold mc
  have h2 : 2 ^ (w + 1) = 2 * 2 ^ w := by rw [Nat.pow_succ, Nat.mul_comm]
  rw [h2] at h1 h3 ⊢
  generalize k % (2 * 2 ^ w) = m at h1 h3 ⊢
  generalize 2 ^ w = P at *
  split
  · simp only [Nat.one_mul]; omega
  · simp only [Nat.zero_mul]; omega

/-! ### unfolding `naf` -/

theorem naf_succ_odd (w len k : Nat) (hk : k % 2 = 1) :
    naf w (len + 1) k = mods w k :: naf w len (2 ^ w * (k / 2 ^ (w + 1) + mc w k)) := by
  rw [← mods_next]; simp [naf, hk]

theorem naf_succ_even (w len k : Nat) (hk : k % 2 = 0) :
    naf w (len + 1) k = 0 :: naf w len (k / 2) := by
  simp [naf, hk]

/-- a multiple of 2^m starts with m zero digits -/
theorem naf_pow2_mul (w : Nat) : ∀ (m len K : Nat),
    naf w len (2 ^ m * K) = List.replicate (min m len) 0 ++ naf w (len - m) K := by
  intro m
  induction m with
  | zero => intro len K; simp
  | succ m ih =>
    intro len K
    cases len with
    | zero => simp [naf]
    | succ len =>
      have he : 2 ^ (m + 1) * K % 2 = 0 := by
        rw [Nat.pow_succ, Nat.mul_assoc, Nat.mul_left_comm]; omega
      have hd : 2 ^ (m + 1) * K / 2 = 2 ^ m * K := by
        rw [Nat.pow_succ, Nat.mul_assoc, Nat.mul_left_comm]; omega
      rw [naf_succ_even _ _ _ he, hd, ih len K]
      simp [Nat.succ_min_succ, List.replicate_succ]

theorem naf_length (w : Nat) : ∀ (len k : Nat), (naf w len k).length = len := by
  intro len
  induction len with
  | zero => intro k; rfl
  | succ len ih =>
    intro k
    by_cases hk : k % 2 = 1
    · rw [naf_succ_odd _ _ _ hk]; simp [ih]
    · rw [naf_succ_even _ _ _ (by omega)]; simp [ih]

/-! ### the three conditions -/

theorem naf_digitsOk (w : Nat) (hw : 1 ≤ w) : ∀ (len k : Nat), digitsOk w (naf w len k) = true := by
  intro len
  induction len with
  | zero => intro k; rfl
  | succ len ih =>
    intro k
    by_cases hk : k % 2 = 1
    · rw [naf_succ_odd _ _ _ hk]
      have h1 := mods_odd w k hk
      have h2 := mods_abs w k hw hk
      have ih' := ih (2 ^ w * (k / 2 ^ (w + 1) + mc w k))
      unfold digitsOk at ih' ⊢
      rw [List.all_cons, ih']
      simp [h1, h2]
    · rw [naf_succ_even _ _ _ (by omega)]
      have ih' := ih (k / 2)
      unfold digitsOk at ih' ⊢
      rw [List.all_cons, ih']
      simp

theorem take_naf_pow2 (w m len K : Nat) :
    ((naf w len (2 ^ m * K)).take m).all (· == 0) = true := by
  rw [naf_pow2_mul]
  by_cases h : m ≤ len
  · rw [Nat.min_eq_left h, List.take_append_of_le_length (by simp)]
    simp
  · have : len - m = 0 := by omega
    rw [this]; simp [naf]

theorem naf_spaced (w : Nat) : ∀ (len k : Nat), spaced w (naf w len k) = true := by
  intro len
  induction len with
  | zero => intro k; rfl
  | succ len ih =>
    intro k
    by_cases hk : k % 2 = 1
    · rw [naf_succ_odd _ _ _ hk]
      unfold spaced
      rw [ih, take_naf_pow2]; simp
    · rw [naf_succ_even _ _ _ (by omega)]
      unfold spaced
      rw [ih]; simp

theorem mods_one (w : Nat) (hw : 1 ≤ w) : mods w 1 = 1 := by
  have h1 : 1 < 2 ^ w := Nat.one_lt_two_pow (by omega)
  have h2 : 1 < 2 ^ (w + 1) := Nat.one_lt_two_pow (by omega)
  unfold mods
  simp only [Nat.mod_eq_of_lt h2]
  have : ¬ (1 ≥ 2 ^ w) := by omega
  simp [this]

/-- the next value stays within the shrinking bound -/
theorem next_le (w m k : Nat) (hw : 1 ≤ w) (hk : k % 2 = 1) (hb : k ≤ 2 ^ (m + 1)) :
    2 ^ w * (k / 2 ^ (w + 1) + mc w k) ≤ 2 ^ m := by
  have heven := two_pow_even (m + 1) (by omega)
  have hlt : k < 2 ^ (m + 1) := by omega
  by_cases hmw : w ≤ m
  · -- 2^(m+1) = 2^(w+1) * 2^(m-w)
    have e1 : 2 ^ (m + 1) = 2 ^ (w + 1) * 2 ^ (m - w) := by
      rw [← Nat.pow_add]; congr 1; omega
    have e2 : 2 ^ m = 2 ^ w * 2 ^ (m - w) := by
      rw [← Nat.pow_add]; congr 1; omega
    have hq : k / 2 ^ (w + 1) < 2 ^ (m - w) := by
      apply Nat.div_lt_of_lt_mul; rw [← e1]; exact hlt
    rw [e2]
    apply Nat.mul_le_mul_left
    have := mc_le_one w k
    omega
  · -- k < 2^w, nothing remains
    have hle : 2 ^ (m + 1) ≤ 2 ^ w := Nat.pow_le_pow_right (by decide) (by omega)
    have hP := two_pow_even w hw
    have hkP : k < 2 ^ w := by omega
    have hk2 : k < 2 ^ (w + 1) := by rw [Nat.pow_succ]; omega
    have hq : k / 2 ^ (w + 1) = 0 := Nat.div_eq_of_lt hk2
    have hc : mc w k = 0 := by
      unfold mc; rw [Nat.mod_eq_of_lt hk2]
      have : ¬ 2 ^ w ≤ k := by omega
      simp [this]
    rw [hq, hc]; simp

theorem mods_add_next (w k : Nat) :
    mods w k + 2 * ((2 ^ w * (k / 2 ^ (w + 1) + mc w k) : Nat) : Int) = (k : Int) := by
  rw [mods_val]
  have hk := Nat.div_add_mod k (2 ^ (w + 1))
  have h2 : 2 ^ (w + 1) = 2 * 2 ^ w := by rw [Nat.pow_succ, Nat.mul_comm]
  rw [h2] at hk ⊢
  generalize k % (2 * 2 ^ w) = m at hk ⊢
  generalize k / (2 * 2 ^ w) = q at hk ⊢
  rw [Nat.mul_add]
  rw [Nat.mul_assoc] at hk
  have e : mc w k * (2 * 2 ^ w) = 2 * (2 ^ w * mc w k) := by
    rw [Nat.mul_comm, Nat.mul_assoc]
  rw [e]
  generalize 2 ^ w * q = Pq at hk ⊢
  generalize 2 ^ w * mc w k = Pc
  omega

/-- the digits of a value that fits sum to it -/
theorem naf_value (w : Nat) (hw : 1 ≤ w) : ∀ (m k : Nat), k ≤ 2 ^ m →
    nafValue (naf w (m + 1) k) = (k : Int) := by
  intro m
  induction m with
  | zero =>
    intro k hk
    have : k = 0 ∨ k = 1 := by omega
    rcases this with rfl | rfl
    · simp [naf, nafValue]
    · simp [naf, nafValue, mods_one w hw]
  | succ m ih =>
    intro k hk
    by_cases ho : k % 2 = 1
    · rw [naf_succ_odd _ _ _ ho]
      unfold nafValue
      rw [ih _ (next_le w m k hw ho hk)]
      exact mods_add_next w k
    · rw [naf_succ_even _ _ _ (by omega)]
      unfold nafValue
      have : k / 2 ≤ 2 ^ m := by rw [Nat.pow_succ] at hk; omega
      rw [ih _ this]; omega

end SMGo.Proofs.UtilsNafSpec
