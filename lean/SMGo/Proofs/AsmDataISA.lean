/-
  Property C18, assembly constants — the instruction semantics the statements are written in.

  TRUSTED BASE (ISA semantics).  The constants of /repo/sm4/*.s mean something only through the
  instructions that consume them.  This file transcribes, per output byte / qword, the semantics of
  those instructions from the Intel SDM (vol. 2, instruction reference).  Nothing here is proved about
  a CPU; the definitions are the reading of the manual under which the theorems of
  `SMGo/Props/C18.lean` hold, and they are small enough to be compared with the manual by eye.

  Conventions fixed here
  ----------------------
  * Memory / registers.  A `DATA sym+off(SB)/k, $v` item stores `v` little-endian in `k` bytes; the
    generator (`go/cmd/translate/asmdata.go`) emits every symbol as the list of its bytes in memory
    order.  Byte `j` of a vector register loaded from memory is byte `j` of memory; "dword `i`" /
    "qword `i`" of a register is the little-endian number formed by bytes `4i..4i+3` / `8i..8i+7`
    (`wordsLE 4`, `wordsLE 8`).  128-bit lane `l` is bytes `16l..16l+15`.
  * Go assembler operand order is the reverse of Intel's: Go `OP imm, src2, src1, [k,] dst` is Intel
    `OP dst {k}, src1, src2, imm`.
  * GF2P8AFFINEQB  (Go: `VGF2P8AFFINEQB $imm8, matrix, src, dst`; Intel: `dst, src1=src, src2=matrix, imm8`).
    Per byte `x` of `src`, with `matrix` the qword of the same 64-bit position of src2 (here: one
    qword broadcast to every position by VBROADCASTI32X2):
        result.bit[i] = parity(matrix.byte[7 − i] AND x) XOR imm8.bit[i]        (i = 0..7)
    where `matrix.byte[k]` is byte `k` of the qword counted from the least significant byte (= byte `k`
    of the 8-byte DATA item in memory order), bit 0 is the least significant bit, and `parity` is the
    XOR of the 8 bits.  So the row of the bit-matrix that produces the MOST significant result bit is the
    LEAST significant byte of the qword.  This is SDM "affine_byte(tsrc2qw, src1byte, imm)".
  * GF2P8AFFINEINVQB: the same with `x` replaced by `inverse(x)`, the inverse in
    GF(2)[x]/(x^8 + x^4 + x^3 + x + 1) (the AES polynomial, 0x11B), and `inverse(0) = 0`
    (SDM "affine_inverse_byte", table 3-x "inverse of bytes").  Here `aesInv x = x^254`; that this is
    the field inverse is proved (`aesInv_spec` in AsmDataFacts.lean), not assumed.
  * VPSHUFB (Go: `VPSHUFB idx, tbl, [k,] dst`; Intel: `dst {k}, src1=tbl, src2=idx`): within each 128-bit
    lane, `dst.byte[j] = if idx.byte[j].bit[7] = 1 then 0 else tbl.byte[idx.byte[j] AND 15]`, `tbl` and
    `idx` bytes taken from the SAME lane.  With merge-masking `{k}`, byte `j` (numbered over the whole
    register) is written only if bit `j` of `k` is set; the other bytes keep the old `dst` value.
  * VPERMQ, register-index form (Go: `VPERMQ tbl, idx, [k,] dst`; Intel: `dst {k}, src1=idx, src2=tbl`):
    over the whole register of `n` qwords (`n` = 4 for Y, 8 for Z),
    `dst.qword[i] = tbl.qword[idx.qword[i] mod n]`; with merge-masking only the qwords whose mask bit is
    set are written.
  * VPSRLW $4 shifts each 16-bit word right by 4 (bits move from the high byte into the low byte of
    the same word); VPSLLQ $4 shifts each 64-bit qword left by 4; VPSLLDQ/PSLLDQ $k shifts each 128-bit
    lane left by `k` BYTES (byte `j` moves to byte `j + k`, zeros enter at byte 0); VPADDD adds dwords
    modulo 2^32; VPCLMULQDQ $imm, b, a, dst multiplies (carry-less) qword `imm.bit[0]` of `a` by qword
    `imm.bit[4]` of `b` in each 128-bit lane.
  * VBROADCASTI32X2 m64 copies the 8 bytes at the address to every qword; VBROADCASTI32X4 m128 copies the
    16 bytes to every 128-bit lane.  AArch64 `VLD1` of `.B16` registers loads bytes in memory order and
    `VLD1 … .S[0]` loads a little-endian 32-bit word.

  Core Lean only (no Mathlib).
-/
namespace SMGo.Proofs.AsmData

/-! ### reading data items -/

/-- the little-endian number of a byte string -/
def le (bs : List Nat) : Nat := bs.foldr (fun b acc => b + 256 * acc) 0

/-- the big-endian number of a byte string -/
def be (bs : List Nat) : Nat := le bs.reverse

/-- the `k`-byte little-endian words of a byte string (`k` = 4: dwords, `k` = 8: qwords) -/
def wordsLE (k : Nat) (bs : List Nat) : List Nat :=
  (List.range (bs.length / k)).map (fun i => le ((bs.drop (k * i)).take k))

/-- bit `i` of `x` (bit 0 least significant) -/
def bit (x i : Nat) : Nat := (x >>> i) % 2

/-- XOR of the 8 low bits -/
def parity8 (x : Nat) : Nat :=
  (bit x 0 + bit x 1 + bit x 2 + bit x 3 + bit x 4 + bit x 5 + bit x 6 + bit x 7) % 2

/-- the `n` low bits of `x` in reverse order -/
def reflect (n x : Nat) : Nat :=
  (List.range n).foldl (fun r i => r + bit x i * 2 ^ (n - 1 - i)) 0

/-- the 8 bits of a byte in reverse order -/
def reverse8 (b : Nat) : Nat := reflect 8 b

/-! ### GF2P8AFFINEQB / GF2P8AFFINEINVQB -/

/-- SDM `affine_byte(tsrc2qw, src1byte, imm8)`; `matrix` = the 8 bytes of the qword, least significant
    first (memory order of the DATA item) -/
def gf2p8affineByte (matrix : List Nat) (imm8 x : Nat) : Nat :=
  (List.range 8).foldl
    (fun r i => r + (parity8 (matrix.getD (7 - i) 0 &&& x) ^^^ bit imm8 i) * 2 ^ i) 0

/-- multiplication in GF(2)[x]/(x^8+x^4+x^3+x+1) (the AES field, reduction constant 0x11B), bit-serial -/
def aesMul (a b : Nat) : Nat :=
  ((List.range 8).foldl (fun (s : Nat × Nat × Nat) _ =>
      let (a, b, r) := s
      let r := if b % 2 = 1 then r ^^^ a else r
      let a := a * 2
      let a := if a ≥ 256 then a ^^^ 0x11B else a
      (a, b / 2, r)) (a % 256, b % 256, 0)).2.2

/-- `x^254` in the AES field: the inverse of `x ≠ 0`, and `0` for `x = 0` (see `aesInv_spec`) -/
def aesInv (a : Nat) : Nat :=
  let a2 := aesMul a a
  let a3 := aesMul a2 a
  let a6 := aesMul a3 a3
  let a7 := aesMul a6 a
  let a14 := aesMul a7 a7
  let a15 := aesMul a14 a
  let a30 := aesMul a15 a15
  let a31 := aesMul a30 a
  let a62 := aesMul a31 a31
  let a63 := aesMul a62 a
  let a126 := aesMul a63 a63
  let a127 := aesMul a126 a
  aesMul a127 a127

/-- SDM `affine_inverse_byte(tsrc2qw, src1byte, imm8)` -/
def gf2p8affineInvByte (matrix : List Nat) (imm8 x : Nat) : Nat :=
  gf2p8affineByte matrix imm8 (aesInv x)

/-! ### VPSHUFB, VPERMQ -/

/-- one byte of VPSHUFB: look `idx` up in the 16-byte table of the lane -/
def pshufbByte (tbl : List Nat) (idx : Nat) : Nat :=
  if idx ≥ 128 then 0 else tbl.getD (idx % 16) 0

/-- VPSHUFB on one 128-bit lane (16 index bytes, 16 table bytes) -/
def pshufb (idx tbl : List Nat) : List Nat := idx.map (pshufbByte tbl)

/-- VPSHUFB on one 128-bit lane with merge-masking: byte `j` written iff bit `j` of `k` is set -/
def pshufbMask (k : Nat) (idx tbl old : List Nat) : List Nat :=
  (List.range idx.length).map
    (fun j => if bit k j = 1 then pshufbByte tbl (idx.getD j 0) else old.getD j 0)

/-- VPERMQ (index register form) on a whole register of `tbl.length` qwords -/
def vpermq (idx tbl : List Nat) : List Nat :=
  idx.map (fun i => tbl.getD (i % tbl.length) 0)

/-- VPERMQ with merge-masking: qword `j` written iff bit `j` of `k` is set -/
def vpermqMask (k : Nat) (idx tbl old : List Nat) : List Nat :=
  (List.range idx.length).map
    (fun j => if bit k j = 1 then tbl.getD (idx.getD j 0 % tbl.length) 0 else old.getD j 0)

/-- (V)PSLLDQ $k on one 128-bit lane: bytes move up by `k` positions -/
def pslldq (k : Nat) (v : List Nat) : List Nat := List.replicate k 0 ++ v.take (16 - k)

/-! ### the `reverseBits` macro of gcm_amd64.s on one 16-bit word

    reverseBits(V, And, Higher, Lower, T0, T1):
      VPSRLW  $4, V, T0          T0 = V >> 4 in every 16-bit word
      VPANDD  V, And, T1         T1 = V & And          (low nibbles)
      VPANDD  T0, And, T0        T0 = T0 & And         (high nibbles; drops the bits that crossed bytes)
      VPSHUFB T1, Higher, T1     T1 = Higher[T1]
      VPSHUFB T0, Lower, T0      T0 = Lower[T0]
      VPXORD  T0, T1, V          V = T0 ^ T1
    with `Higher = VPSLLQ $4, Lower` (loadMasks).  `m` is the byte of `And` at both positions of the word. -/

/-- VPSLLQ $4 on a 128-bit lane given by its bytes -/
def psllq4 (v : List Nat) : List Nat :=
  let q0 := (le (v.take 8) <<< 4) % 2 ^ 64
  let q1 := (le ((v.drop 8).take 8) <<< 4) % 2 ^ 64
  (List.range 8).map (fun i => (q0 >>> (8 * i)) % 256) ++ (List.range 8).map (fun i => (q1 >>> (8 * i)) % 256)

/-- the macro on the word with low byte `lo` and high byte `hi`; result (low byte, high byte) -/
def reverseBitsWord (m : Nat) (lower : List Nat) (lo hi : Nat) : Nat × Nat :=
  let higher := psllq4 lower
  let t0 := (lo + 256 * hi) >>> 4
  let t0lo := t0 % 256
  let t0hi := t0 / 256
  let t1lo := lo &&& m
  let t1hi := hi &&& m
  let t0lo := t0lo &&& m
  let t0hi := t0hi &&& m
  (pshufbByte lower t0lo ^^^ pshufbByte higher t1lo, pshufbByte lower t0hi ^^^ pshufbByte higher t1hi)

end SMGo.Proofs.AsmData
