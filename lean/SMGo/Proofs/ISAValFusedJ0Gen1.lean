import SMGo.Proofs.ISAValFusedLenBlk2
import SMGo.Proofs.ISAValFusedPrefix12
set_option linter.unusedSimpArgs false
namespace SMGo.Proofs.ISAVal
open SMGo.Model.ISAVal SMGo.Model.GCM SMGo.Proofs.GCM SMGo.Proofs.ISATouch
open SMGo.Model.ISA (Reg Opd Instr)

/-- **the length block of `calculateJ0`**: 0⁶⁴ ‖ 8·nonceLen (big-endian), built by one VPSHUFB with `Shuffle2` -/
theorem lenBlkJ_value (x c : Nat) (hc : c < 2 ^ 64) (h : lane 128 0 x = c) :
    vpshufb 16 SH2v x = unlanes 8 (List.replicate 8 0 ++ be64N c) := by
  have hB : ∀ b ∈ List.replicate 8 0 ++ be64N c, b < 2 ^ 8 := by
    intro b hb
    rw [List.mem_append] at hb
    rcases hb with h' | h'
    · rw [List.eq_of_mem_replicate h']; decide
    · simp only [be64N, List.mem_cons, List.not_mem_nil, or_false] at h'
      rcases h' with rfl | rfl | rfl | rfl | rfl | rfl | rfl | rfl <;> exact lane_lt _ _ _
  apply eq_of_lanes 8 16
  · exact vpshufb_lt 16 _ _ (by decide)
  · have := unlanes_lt 8 _ hB
    simpa [be64N] using this
  · intro J hJ
    rw [byte_vpshufb 16 _ _ J (by decide) hJ, lane_unlanes 8 _ hB J (by simp [be64N]; exact hJ)]
    have hJ0 : J / 16 = 0 := by omega
    rw [hJ0, h, sh2_bytes J hJ]
    unfold pshufbByte
    rw [if_neg (by omega), Nat.mod_eq_of_lt (by omega)]
    have : (lanes 8 16 c).getD (15 - J) 0 = lane 8 (15 - J) c := by
      rw [List.getD_eq_getElem?_getD, List.getElem?_eq_getElem (by simp [lanes_length]; omega), getElem_lanes]; rfl
    rw [this]
    by_cases h8 : J < 8
    · rw [lane8_hi_zero c (15 - J) hc (by omega)]
      have hc8 : J = 0 ∨ J = 1 ∨ J = 2 ∨ J = 3 ∨ J = 4 ∨ J = 5 ∨ J = 6 ∨ J = 7 := by omega
      rcases hc8 with rfl | rfl | rfl | rfl | rfl | rfl | rfl | rfl <;> rfl
    · have hc8 : J = 8 ∨ J = 9 ∨ J = 10 ∨ J = 11 ∨ J = 12 ∨ J = 13 ∨ J = 14 ∨ J = 15 := by omega
      rcases hc8 with rfl | rfl | rfl | rfl | rfl | rfl | rfl | rfl <;> rfl

end SMGo.Proofs.ISAVal
namespace SMGo.Proofs.ISAVal
open SMGo.Model.ISAVal SMGo.Model.GCM SMGo.Proofs.GCM SMGo.Proofs.ISATouch
open SMGo.Model.ISA (Reg Opd Instr)

/-- the remainder of the nonce in `calculateJ0`: through the zeroed scratch block, one GHASH step -/
def remJCode (pEnd p8 p4 p2 p1 pe : Nat) : List DInstr :=
  [ins .CMPQ [G 9, .imm 0] 0, jcc .JEQ pEnd] ++ (tailCopyCode 12 9 p8 p4 p2 p1 pe ++ ([ins .VMOVDQU32 [M 6 0, R 20] 16] ++
    (rbCode 16 20 0 1 ++ ([ins .MOVQ [.imm 1, G 10] 0] ++ (gh1Code 20 14 ++ [ins .SUBQ [.imm 1, G 10] 0])))))

theorem spliceAt_read' (b : List Nat) (off : Nat) (x : List Nat) (h : off + x.length ≤ b.length) :
    ((spliceAt b off x).drop off).take x.length = x := by
  unfold spliceAt
  rw [List.append_assoc, List.drop_left' (by simp; omega), List.take_left' rfl]

theorem remJ_len (pEnd p8 p4 p2 p1 pe : Nat) : (remJCode pEnd p8 p4 p2 p1 pe).length = 67 := rfl

def remJKeepG : List Nat := [0, 3, 4, 5, 7, 8, 11, 13, 14, 15]

theorem kMov10 : writesNone [ins .MOVQ [.imm 1, G 10] 0] [0, 1, 2, 3, 4, 5, 6, 7, 8, 9, 11, 12, 13, 14, 15] (List.range 32) (List.range 8) = true := by
  decide +kernel
theorem kSub10 : writesNone [ins .SUBQ [.imm 1, G 10] 0] [0, 1, 2, 3, 4, 5, 6, 7, 8, 9, 11, 12, 13, 14, 15] (List.range 32) (List.range 8) = true := by
  decide +kernel
theorem kRbJ : writesNone (rbCode 16 20 0 1) (List.range 16) ((List.range 32).filter (fun n => !([0, 1, 20].contains n))) (List.range 8) = true := by
  decide +kernel

set_option maxHeartbeats 2000000 in
theorem remJ_reach (r : Routine) (k pEnd p8 p4 p2 p1 pe : Nat)
    (hs : Slice r k (remJCode pEnd p8 p4 p2 p1 pe)) (lEnd : findPc r pEnd = some (r.drop (k + 67)))
    (l8 : findPc r p8 = some (r.drop (k + 5))) (l4 : findPc r p4 = some (r.drop (k + 13)))
    (l2 : findPc r p2 = some (r.drop (k + 21))) (l1 : findPc r p1 = some (r.drop (k + 29)))
    (le : findPc r pe = some (r.drop (k + 37))) (Mf : List Nat → List Region) (tbase : Nat) (bf : Buf Mf tbase 32)
    (d : List Nat) (sp : Nat) (hsrc : ∀ b, b.length = 32 → DataAt (Mf b) sp d) (hdb : ∀ x ∈ d, x < 2 ^ 8)
    (hbase : tbase + 32 < 2 ^ 63) (hsp : sp + d.length < 2 ^ 63) (h : Nat)
    (s : State) (b : List Nat) (so n y : Nat) (c : GhCtx h s) (hb : b.length = 32) (hm : s.mem = Mf b)
    (h9 : greg s 9 = n) (hn15 : n ≤ 15) (hgp : greg s 12 = sp + so) (h6 : greg s 6 = tbase + 0) (hso : so + n ≤ d.length)
    (hy : vreg s 14 = y) (hylt : y < 2 ^ 128) :
    ∃ s' N b', N ≤ 120 ∧ Reach r k s (k + 67) s' N ∧ s'.mem = Mf b' ∧ b'.length = 32 ∧ GhCtx h s' ∧
      vreg s' 14 = (if n = 0 then y else gmulR h (y ^^^ rb128 (unlanes 8 (padTo16 ((d.drop so).take n))))) ∧ vreg s' 14 < 2 ^ 128 ∧
      greg s' 6 = tbase ∧ KeepsM remJKeepG (bodyKeepV 14) (List.range 8) s s' := by
  have hti : tailInst 12 9 := Or.inl ⟨rfl, rfl⟩
  unfold remJCode at hs
  have sC : Slice r k [ins .CMPQ [G 9, .imm 0] 0, jcc .JEQ pEnd] := hs.left
  have sT : Slice r (k + 2) (tailCopyCode 12 9 p8 p4 p2 p1 pe) := hs.right.left
  have sL : Slice r (k + 39) [ins .VMOVDQU32 [M 6 0, R 20] 16] := by
    have := hs.right.right.left; rw [tail_len] at this; exact this
  have sR : Slice r (k + 40) (rbCode 16 20 0 1) := by
    have := hs.right.right.right.left; rw [tail_len] at this; exact this
  have sM : Slice r (k + 46) [ins .MOVQ [.imm 1, G 10] 0] := by
    have := hs.right.right.right.right.left; rw [tail_len] at this; exact this
  have sG : Slice r (k + 47) (gh1Code 20 14) := by
    have := hs.right.right.right.right.right.left; rw [tail_len] at this; exact this
  have sS : Slice r (k + 66) [ins .SUBQ [.imm 1, G 10] 0] := by
    have := hs.right.right.right.right.right.right; rw [tail_len, gh1_len] at this; exact this
  let s0 := setFlags s (subF 8 n 0).2
  have hx0 : execList [ins .CMPQ [G 9, .imm 0] 0] s = .ok s0 := by
    apply exec_step (s1 := s0)
    · have := a_cmpq_imm s 0 9 (by rw [c.lenG]; decide)
      rw [h9, imm64_0] at this; exact this
    rfl
  have r0 : Reach r k s (k + 1) s0 1 := reach_seg (sC.sub 0 [ins .CMPQ [G 9, .imm 0] 0] rfl (by simp)) (by rfl) hx0
  have hcnd : Model.ISAVal.cond .JEQ s0.flags = .ok (decide (n = 0)) := cond_jeq n 0 (by omega) (by decide)
  have rJ := reach_jcc (r := r) (k := k + 1) (idx := k + 67) (sC.sub 1 [jcc .JEQ pEnd] rfl (by simp)) rfl lEnd hcnd
  have k0 : KeepsM remJKeepG (bodyKeepV 14) (List.range 8) s s0 :=
    ⟨rfl, rfl, rfl, fun _ _ => rfl, fun _ _ => rfl, fun _ _ => rfl, rfl, rfl⟩
  by_cases hn0 : n = 0
  · simp only [hn0, decide_true, if_true] at rJ
    refine ⟨s0, 2, b, by omega, (r0.trans rJ).cast rfl rfl, hm, hb, c.of_keepsM k0 (by decide), ?_, ?_, ?_, k0⟩
    · rw [if_pos hn0]; exact hy
    · show vreg s 14 < _; rw [hy]; exact hylt
    · show greg s 6 = _; rw [h6]; rfl
  · simp only [hn0, decide_false, Bool.false_eq_true, if_false] at rJ
    obtain ⟨s1, N1, hN1, r1, m1, g16, g1p, k1⟩ := tail_reach r (k + 2) 12 9 p8 p4 p2 p1 pe hti sT (by rw [Nat.add_assoc]; exact l8)
      (by rw [Nat.add_assoc]; exact l4) (by rw [Nat.add_assoc]; exact l2) (by rw [Nat.add_assoc]; exact l1) (by rw [Nat.add_assoc]; exact le)
      Mf tbase bf d sp hsrc hdb hbase hsp n s0 b so 0 (Or.inl rfl) c.lenG hb hm h9 (by omega) hn15 hgp h6 hso
    have c1 : GhCtx h s1 := (c.of_keepsM k0 (by decide)).of_regsKeep k1
    have hpl : ((d.drop so).take n).length = n := by rw [List.length_take, List.length_drop]; omega
    have hpad : (padTo16 ((d.drop so).take n)).length = 16 := padTo16_length _ (by omega)
    have hb1 : (spliceAt b 0 (padTo16 ((d.drop so).take n))).length = 32 := by
      rw [spliceAt_length _ _ _ (by rw [hpad, hb]; omega)]; exact hb
    have hrd : readMem s1.mem (tbase + 0) 16 = .ok (padTo16 ((d.drop so).take n)) := by
      rw [m1, bf.rd _ 0 16 hb1 (by omega)]
      congr 1
      have := spliceAt_read' b 0 (padTo16 ((d.drop so).take n)) (by rw [hpad, hb]; omega)
      rw [hpad] at this; exact this
    have hpb : ∀ x ∈ padTo16 ((d.drop so).take n), x < 2 ^ 8 := by
      intro x hx
      unfold padTo16 at hx
      rw [List.mem_append] at hx
      rcases hx with h1 | h1
      · exact hdb x (List.mem_of_mem_drop (List.mem_of_mem_take h1))
      · rw [List.eq_of_mem_replicate h1]; decide
    -- load, reflect
    let s2 := setVreg s1 20 (unlanes 8 (padTo16 ((d.drop so).take n)))
    have x2 : execD s1 (ins .VMOVDQU32 [M 6 0, R 20] 16) = .ok s2 :=
      a_vmov_load s1 16 6 0 20 _ (by decide) (by rw [c1.lenG]; decide) (by rw [c1.lenV]; decide)
        (by rw [g16, ea00 _ (by omega)]; exact hrd)
    have r2 : Reach r (k + 39) s1 (k + 40) s2 1 := reach_seg sL (by rfl) (exec_step x2 (execList_nil _))
    have k2 : Keeps (List.range 16) ((List.range 32).filter (fun n => !([20].contains n))) (List.range 8) s1 s2 :=
      ⟨rfl, by simp [s2], rfl, fun _ _ => rfl, fun m hm' => vreg_setVreg_ne s1 20 _ m (by intro e; subst e; revert hm'; decide),
        fun _ _ => rfl, rfl, rfl, rfl⟩
    have c2 := c1.of_keeps k2 (by decide)
    obtain ⟨s3, hx3, _, lt3, ln3⟩ := rb_spec 16 20 0 1 (by decide) (Or.inr ⟨by decide, rfl, rfl⟩) s2 c2.lenV c2.v22 c2.v23 c2.v24
    have k3 := keeps_of_exec _ kRbJ hx3
    have r3 : Reach r (k + 40) s2 (k + 46) s3 6 := reach_seg sR (by rfl) hx3
    have c3 := c2.of_keeps k3 (by decide)
    let s4 := setGreg s3 10 (imm64 1)
    have hx4 : execList [ins .MOVQ [.imm 1, G 10] 0] s3 = .ok s4 := by
      apply exec_step (a_movq_imm s3 1 10 (by rw [c3.lenG]; decide)); exact execList_nil _
    have k4 := keeps_of_exec _ kMov10 hx4
    have r4 : Reach r (k + 46) s3 (k + 47) s4 1 := reach_seg sM (by rfl) hx4
    have c4 := c3.of_keeps k4 (by decide)
    have y4 : vreg s4 14 = y := by
      rw [k4.v 14 (by decide), k3.v 14 (by decide), k2.v 14 (by decide), vreg_of_vec k1.vec 14]; exact hy
    obtain ⟨s5, hx5, lt5, v5⟩ := gh1_spec 20 14 ⟨by decide, Or.inl rfl⟩ s4 c4.lenV h c4.hc y y4 hylt
    have k5 := keeps_of_exec _ (gh1_writes 20 14) hx5
    have r5 : Reach r (k + 47) s4 (k + 66) s5 19 := reach_seg sG (by rfl) hx5
    have c5 := c4.of_keeps k5 (by decide)
    let s6 := setFlags (setGreg s5 10 (subF 8 (greg s5 10) (imm64 1)).1) (subF 8 (greg s5 10) (imm64 1)).2
    have hx6 : execList [ins .SUBQ [.imm 1, G 10] 0] s5 = .ok s6 := by
      apply exec_step (a_subq_imm s5 1 10 (by rw [c5.lenG]; decide)); exact execList_nil _
    have k6 := keeps_of_exec _ kSub10 hx6
    have r6 : Reach r (k + 66) s5 (k + 67) s6 1 := reach_seg sS (by rfl) hx6
    have hUlt : unlanes 8 (padTo16 ((d.drop so).take n)) < 2 ^ 128 := by
      have := unlanes_lt 8 _ hpb; rw [hpad] at this; exact this
    refine ⟨s6, 1 + 1 + N1 + 1 + 6 + 1 + 19 + 1, spliceAt b 0 (padTo16 ((d.drop so).take n)), by omega,
      (((((((r0.trans rJ).trans (r1.cast (by omega) rfl)).trans r2).trans r3).trans r4).trans r5).trans r6).cast rfl rfl, ?_, hb1,
      c5.of_keeps k6 (by decide), ?_, ?_, ?_, ?_⟩
    · rw [k6.mem, k5.mem, k4.mem, k3.mem]; exact m1
    · rw [if_neg hn0, k6.v 14 (by decide), v5, k4.v 20 (by decide), ln3 0 (by decide),
        show vreg s2 20 = unlanes 8 (padTo16 ((d.drop so).take n)) from vreg_setVreg_eq s1 20 _ (by rw [c1.lenV]; decide),
        lane128_0_of_lt _ hUlt]
    · rw [k6.v 14 (by decide)]; exact lt5
    · rw [k6.g 6 (by decide), k5.g 6 (by decide), k4.g 6 (by decide), k3.g 6 (by decide)]
      show greg s1 6 = tbase; rw [g16]; rfl
    · exact (((((k0.trans ((k1.toM (bodyKeepV 14) (List.range 8)).mono (by
          intro m hm'; simp only [remJKeepG, List.mem_cons, List.not_mem_nil, or_false] at hm'
          simp [tailKeepG]; omega) (fun _ h => h) (fun _ h => h))).trans
        (k2.toM.mono (by decide) (by decide) (fun _ h => h))).trans (k3.toM.mono (by decide) (by decide) (fun _ h => h))).trans
        (k4.toM.mono (by decide) (by decide) (fun _ h => h))).trans (k5.toM.mono (by decide) (by decide) (fun _ h => h))).trans
        (k6.toM.mono (by decide) (by decide) (fun _ h => h))

end SMGo.Proofs.ISAVal
