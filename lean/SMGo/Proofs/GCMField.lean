/-
  Algebraic laws of Algorithm 1 of SP 800-38D (`Spec.GCM.mulGF`, bit-serial multiplication in
  GF(2^128) on naturals): bound, bilinearity for xor, the unit 2^127 (the element "1" in the
  standard's bit order), commutation with every linear map that commutes with the one-step map M,
  commutativity and associativity.  Built on `mulGF_eq_xsum` (X • Y = ⊕_i X_i · M^i(Y)).
-/
import SMGo.Proofs.GCMBits
namespace SMGo.Proofs.GCM
open SMGo
open SMGo.Model.GCM (xsum)
open SMGo.Spec.GCM (mulGF R)

/-! ### two more facts on xor-sums -/

/-- peel the first term -/
theorem xsum_succ' (n : Nat) (f : Nat → Nat) :
    xsum (n + 1) f = f 0 ^^^ xsum n (fun i => f (i + 1)) := by
  induction n with
  | zero => simp [xsum_succ]
  | succ n ih => rw [xsum_succ, ih, xsum_succ]; ac_rfl

/-- the sum in reverse order -/
theorem xsum_reverse (n : Nat) (f : Nat → Nat) : xsum n (fun i => f (n - 1 - i)) = xsum n f := by
  induction n with
  | zero => rfl
  | succ n ih =>
    rw [xsum_succ']
    have h1 : xsum n (fun i => f (n + 1 - 1 - (i + 1))) = xsum n (fun i => f (n - 1 - i)) := by
      apply xsum_congr; intro i hi
      have : n + 1 - 1 - (i + 1) = n - 1 - i := by omega
      rw [this]
    rw [h1, ih, xsum_succ]
    have : n + 1 - 1 - 0 = n := by omega
    rw [this]
    exact Nat.xor_comm _ _

/-! ### bound and bilinearity -/

theorem mulGF_lt {x y : Nat} (hy : y < 2 ^ 128) : mulGF x y < 2 ^ 128 := by
  rw [mulGF_eq_xsum]
  apply xsum_lt_two_pow
  intro i _
  split
  · exact Mpow_lt hy i
  · exact Nat.two_pow_pos _

theorem mulGF_xor_left (x x' y : Nat) : mulGF (x ^^^ x') y = mulGF x y ^^^ mulGF x' y := by
  rw [mulGF_eq_xsum, mulGF_eq_xsum, mulGF_eq_xsum, ← xsum_xor]
  apply xsum_congr; intro i _
  exact ite_testBit_xor _ _ _ _

theorem mulGF_xor_right (x y y' : Nat) : mulGF x (y ^^^ y') = mulGF x y ^^^ mulGF x y' := by
  rw [mulGF_eq_xsum, mulGF_eq_xsum, mulGF_eq_xsum, ← xsum_xor]
  apply xsum_congr; intro i _
  rw [isLin_Mpow i y y']
  cases x.testBit (127 - i) <;> simp

/-- multiplication by a fixed left factor is a linear map -/
theorem isLin_mulGF (x : Nat) : IsLin (mulGF x) := mulGF_xor_right x

theorem mulGF_zero_left (y : Nat) : mulGF 0 y = 0 := by
  rw [mulGF_eq_xsum]
  simp [xsum_const_zero]

theorem mulGF_zero_right (x : Nat) : mulGF x 0 = 0 := (isLin_mulGF x).zero

/-! ### the one-step map -/

theorem mulGF_M (x y : Nat) : mulGF x (M y) = M (mulGF x y) := by
  rw [mulGF_eq_xsum, mulGF_eq_xsum, isLin_M.map_xsum]
  apply xsum_congr; intro i _
  rw [Mpow_M, isLin_M.ite]

theorem M_two_pow_succ (k : Nat) : M (2 ^ (k + 1)) = 2 ^ k := by
  have h1 : 2 ^ (k + 1) % 2 = 0 := by rw [Nat.pow_succ]; exact Nat.mul_mod_left _ _
  have h2 : 2 ^ (k + 1) >>> 1 = 2 ^ k := by
    rw [Nat.shiftRight_eq_div_pow, Nat.pow_succ, Nat.pow_one]
    exact Nat.mul_div_cancel _ (by decide)
  unfold M
  rw [if_pos h1, h2]

/-- the element "1" of the field is 2^127 in the standard's bit order; M^i(1) = x^i -/
theorem Mpow_one_elt {i : Nat} (h : i ≤ 127) : Mpow i (2 ^ 127) = 2 ^ (127 - i) := by
  induction i with
  | zero => rfl
  | succ i ih =>
    have h1 : 127 - i = (127 - (i + 1)) + 1 := by omega
    rw [Mpow, ih (by omega), h1, M_two_pow_succ]

/-! ### the unit -/

theorem mulGF_one_right {x : Nat} (hx : x < 2 ^ 128) : mulGF x (2 ^ 127) = x := by
  rw [mulGF_eq_xsum]
  have h1 : xsum 128 (fun i => if x.testBit (127 - i) then Mpow i (2 ^ 127) else 0)
      = xsum 128 (fun i => (fun j => if x.testBit j then 2 ^ j else 0) (128 - 1 - i)) := by
    apply xsum_congr; intro i hi
    show _ = if x.testBit (128 - 1 - i) then 2 ^ (128 - 1 - i) else 0
    rw [Mpow_one_elt (by omega)]
  rw [h1, xsum_reverse 128 (fun j => if x.testBit j then 2 ^ j else 0)]
  exact xsum_bits hx

theorem mulGF_one_left (y : Nat) : mulGF (2 ^ 127) y = y := by
  rw [mulGF_eq_xsum, xsum_succ']
  have h1 : xsum 127 (fun i => if (2 ^ 127).testBit (127 - (i + 1)) then Mpow (i + 1) y else 0)
      = xsum 127 (fun _ => 0) := by
    apply xsum_congr; intro i _
    have : decide (127 = 127 - (i + 1)) = false := decide_eq_false (by omega)
    rw [Nat.testBit_two_pow, this]
    rfl
  rw [h1, xsum_const_zero, Nat.xor_zero, Nat.testBit_two_pow]
  simp [Mpow]

/-! ### commutation with linear maps, commutativity, associativity -/

theorem Mpow_lin_comm {A : Nat → Nat} (hM : ∀ v, A (M v) = M (A v)) (i v : Nat) :
    A (Mpow i v) = Mpow i (A v) := by
  induction i with
  | zero => rfl
  | succ i ih => rw [Mpow, hM, ih, Mpow]

/-- a linear map that commutes with the one-step map commutes with every multiplication -/
theorem mulGF_lin_comm {A : Nat → Nat} (hA : IsLin A) (hM : ∀ v, A (M v) = M (A v)) (y v : Nat) :
    A (mulGF y v) = mulGF y (A v) := by
  rw [mulGF_eq_xsum, mulGF_eq_xsum, hA.map_xsum]
  apply xsum_congr; intro i _
  rw [hA.ite, Mpow_lin_comm hM]

theorem mulGF_comm {x y : Nat} (hx : x < 2 ^ 128) (hy : y < 2 ^ 128) : mulGF x y = mulGF y x := by
  calc mulGF x y = mulGF x (mulGF y (2 ^ 127)) := by rw [mulGF_one_right hy]
    _ = mulGF y (mulGF x (2 ^ 127)) := mulGF_lin_comm (isLin_mulGF x) (mulGF_M x) y (2 ^ 127)
    _ = mulGF y x := by rw [mulGF_one_right hx]

set_option linter.unusedVariables false in
/-- (`hx` is not needed; it is kept so that the three factors are treated alike) -/
theorem mulGF_assoc {x y z : Nat} (hx : x < 2 ^ 128) (hy : y < 2 ^ 128) (hz : z < 2 ^ 128) :
    mulGF (mulGF x y) z = mulGF x (mulGF y z) := by
  calc mulGF (mulGF x y) z = mulGF z (mulGF x y) := mulGF_comm (mulGF_lt hy) hz
    _ = mulGF x (mulGF z y) := mulGF_lin_comm (isLin_mulGF z) (mulGF_M z) x y
    _ = mulGF x (mulGF y z) := by rw [mulGF_comm hz hy]

#print axioms mulGF_comm
#print axioms mulGF_assoc

end SMGo.Proofs.GCM
