import SMGo.Proofs.ISAValGhashMerge
namespace SMGo.Proofs.ISAVal
open SMGo.Model.ISAVal SMGo.Model.ISA SMGo.Model.GCM SMGo.Proofs.GCM

/-- H⁴, H³, H², H (reflected), by lane of the register V29 -/
def hpow (h : Nat) (l : Nat) : Nat :=
  match l with
  | 0 => gmulR h (gmulR h (gmulR h h))
  | 1 => gmulR h (gmulR h h)
  | 2 => gmulR h h
  | _ => h

/-- what `gHashBlocksLoopBy4Pre` adds to the context -/
structure Ctx4 (h : Nat) (s : State) : Prop where
  v29 : ∀ l, l < 4 → lane 128 l (vreg s 29) = hpow h l
  v30 : ∀ l, l < 4 → lo64 (lane 128 l (vreg s 30)) = lo64 (hpow h l) ^^^ hi64 (hpow h l)
  v31 : vreg s 31 = IDXv

/-- the registers of the one-block context only -/
def keepers0 : List Nat := [19, 22, 23, 24, 25, 26]

structure Same0 (s s' : State) : Prop where
  lenG : s'.gpr.length = s.gpr.length
  lenV : s'.vec.length = s.vec.length
  lenK : s'.kreg.length = s.kreg.length
  mem : s'.mem = s.mem
  syms : s'.syms = s.syms
  g1 : greg s' 1 = greg s 1
  g2 : greg s' 2 = greg s 2
  g3 : greg s' 3 = greg s 3
  v21 : vreg s' 21 = vreg s 21
  v : ∀ n, n ∈ keepers0 → vreg s' n = vreg s n

theorem Same0.trans {a b c : State} (h1 : Same0 a b) (h2 : Same0 b c) : Same0 a c :=
  ⟨h2.lenG.trans h1.lenG, h2.lenV.trans h1.lenV, h2.lenK.trans h1.lenK, h2.mem.trans h1.mem, h2.syms.trans h1.syms,
    h2.g1.trans h1.g1, h2.g2.trans h1.g2, h2.g3.trans h1.g3, h2.v21.trans h1.v21, fun n hn => (h2.v n hn).trans (h1.v n hn)⟩

theorem Same0.setVreg (s : State) (d r : Nat) (hd : d ∉ keepers0) (hd21 : d ≠ 21) : Same0 s (setVreg s d r) :=
  ⟨rfl, by simp, rfl, rfl, rfl, rfl, rfl, rfl, vreg_setVreg_ne s d r 21 (Ne.symm hd21),
    fun n hn => vreg_setVreg_ne s d r n (fun e => hd (e ▸ hn))⟩

theorem Same0.setGreg (s : State) (d r : Nat) (h1 : d ≠ 1) (h2 : d ≠ 2) (h3 : d ≠ 3) : Same0 s (setGreg s d r) :=
  ⟨by simp, rfl, rfl, rfl, rfl, greg_setGreg_ne s d r 1 (Ne.symm h1), greg_setGreg_ne s d r 2 (Ne.symm h2),
    greg_setGreg_ne s d r 3 (Ne.symm h3), rfl, fun _ _ => rfl⟩

theorem Same0.setKreg (s : State) (d r : Nat) : Same0 s (setKreg s d r) :=
  ⟨rfl, rfl, by simp, rfl, rfl, rfl, rfl, rfl, rfl, fun _ _ => rfl⟩

theorem keepers0_sub : ∀ n, n ∈ keepers0 → n ∈ persistent := by decide

theorem Same0.ofVecOnly {o : Nat} {s s' : State} (h : VecOnly o s s') (hV : s.vec.length = 32) (ho : o ∉ keepers0)
    (ho21 : o ≠ 21) : Same0 s s' :=
  ⟨by rw [h.gpr], by rw [h.lenV, hV], by rw [h.kreg], h.mem, h.syms,
    by show s'.gpr.getD 1 0 = _; rw [h.gpr]; rfl, by show s'.gpr.getD 2 0 = _; rw [h.gpr]; rfl,
    by show s'.gpr.getD 3 0 = _; rw [h.gpr]; rfl, h.keep 21 mem21 (Ne.symm ho21),
    fun n hn => h.keep n (keepers0_sub n hn) (fun e => ho (e ▸ hn))⟩

theorem Ctx.same0 {mem : List Region} {tp h : Nat} {s s' : State} (c : Ctx mem tp h s) (hs : Same0 s s') : Ctx mem tp h s' where
  lenG := hs.lenG.trans c.lenG
  lenV := hs.lenV.trans c.lenV
  lenK := hs.lenK.trans c.lenK
  hmem := hs.mem.trans c.hmem
  hsyms := hs.syms.trans c.hsyms
  g3 := hs.g3.trans c.g3
  v19 := (hs.v 19 (by decide)).trans c.v19
  hlt := c.hlt
  v22 := (hs.v 22 (by decide)).trans c.v22
  v23 := (hs.v 23 (by decide)).trans c.v23
  v24 := (hs.v 24 (by decide)).trans c.v24
  v25 := by rw [hs.v 25 (by decide)]; exact c.v25
  v26 := (hs.v 26 (by decide)).trans c.v26


theorem imm64_12 : imm64 12 % 2 ^ 16 = 12 := by decide +kernel
theorem imm64_240 : imm64 240 % 2 ^ 16 = 240 := by decide +kernel

theorem qCode_split : qCode =
    [ins .LEAQ [.sym "SHUFFLE_X_LANES" 0, G 8] 0, ins .VMOVDQU32 [M 8 0, R 31] 64, ins .MOVQ [.imm 12, G 8] 0,
     ins .MOVQ [.imm 240, G 9] 0, ins .KMOVW [G 8, K 1] 0, ins .KMOVW [G 9, K 2] 0] ++
    (mulRedCode 16 19 25 19 4 ++ (mulRedCode 16 19 25 4 5 ++ (mulRedCode 16 19 25 5 29 ++
    ([ins .LEAQ [.sym "MERGE_H01" 0, G 8] 0, ins .LEAQ [.sym "MERGE_H23" 0, G 9] 0, ins .VMOVDQU32 [M 8 0, R 0] 32,
      ins .VMOVDQU32 [M 9 0, R 1] 64, ins .VPERMQ [R 5, R 0, K 1, R 29] 32, ins .VPERMQ [R 19, R 0, K 1, R 4] 32,
      ins .VPERMQ [R 4, R 1, K 2, R 29] 64] ++ hsCode 64 29 30)))) := by decide +kernel

set_option maxHeartbeats 1000000 in
/-- `gHashBlocksLoopBy4Pre`: H², H³, H⁴ by the same multiplier, gathered into V29 = H⁴:H³:H²:H -/
theorem ghQ_spec (mem : List Region) (tp h : Nat) (s : State) (ctx : Ctx mem tp h s)
    (hIdx : readMem mem 60129542144 64 = .ok Gen.AsmData.amd64_SHUFFLE_X_LANES)
    (hM01 : readMem mem 51539607552 32 = .ok Gen.AsmData.amd64_MERGE_H01)
    (hM23 : readMem mem 55834574848 64 = .ok Gen.AsmData.amd64_MERGE_H23) :
    ∃ s', execList qCode s = .ok s' ∧ Ctx mem tp h s' ∧ Ctx4 h s' ∧
      greg s' 1 = greg s 1 ∧ greg s' 2 = greg s 2 ∧ vreg s' 21 = vreg s 21 := by
  have hG := ctx.lenG
  have hV := ctx.lenV
  have hK := ctx.lenK
  -- first six instructions
  let sa1 := setGreg s 8 (60129542144 + 0)
  let sa2 := setVreg sa1 31 (unlanes 8 Gen.AsmData.amd64_SHUFFLE_X_LANES)
  let sa3 := setGreg sa2 8 (imm64 12)
  let sa4 := setGreg sa3 9 (imm64 240)
  let sa5 := setKreg sa4 1 (greg sa4 8 % 2 ^ 16)
  let sa6 := setKreg sa5 2 (greg sa5 9 % 2 ^ 16)
  have hrunA : execList [ins .LEAQ [.sym "SHUFFLE_X_LANES" 0, G 8] 0, ins .VMOVDQU32 [M 8 0, R 31] 64, ins .MOVQ [.imm 12, G 8] 0,
      ins .MOVQ [.imm 240, G 9] 0, ins .KMOVW [G 8, K 1] 0, ins .KMOVW [G 9, K 2] 0] s = .ok sa6 := by
    apply exec_step (s1 := sa1)
    · exact a_leaq s _ 0 8 _ (by rw [ctx.hsyms]; exact symTab_idx) (by rw [hG]; decide)
    apply exec_step (s1 := sa2)
    · exact a_vmov_load sa1 64 8 0 31 _ rfl (by simp [sa1, hG]) (by simp [sa1, hV])
        (by simp only [sa1, mem_setGreg, greg_setGreg_eq s 8 _ (by rw [hG]; decide), imm64_0]
            rw [ctx.hmem]; exact hIdx)
    apply exec_step (s1 := sa3)
    · exact a_movq_imm sa2 12 8 (by simp [sa2, sa1, hG])
    apply exec_step (s1 := sa4)
    · exact a_movq_imm sa3 240 9 (by simp [sa3, sa2, sa1, hG])
    apply exec_step (s1 := sa5)
    · exact a_kmovw sa4 8 1 (by simp [sa4, sa3, sa2, sa1, hG]) (by simp [sa4, sa3, sa2, sa1, hK])
    apply exec_step (s1 := sa6)
    · exact a_kmovw sa5 9 2 (by simp [sa5, sa4, sa3, sa2, sa1, hG]) (by simp [sa5, sa4, sa3, sa2, sa1, hK])
    rfl
  have sameA : Same0 s sa6 :=
    (((((Same0.setGreg s 8 _ (by decide) (by decide) (by decide)).trans (Same0.setVreg sa1 31 _ (by decide) (by decide))).trans
      (Same0.setGreg sa2 8 _ (by decide) (by decide) (by decide))).trans (Same0.setGreg sa3 9 _ (by decide) (by decide) (by decide))).trans
      (Same0.setKreg sa4 1 _)).trans (Same0.setKreg sa5 2 _)
  have ctxA := ctx.same0 sameA
  have hk1 : kregD sa6 1 = 12 := by
    show kregD (setKreg sa5 2 _) 1 = _
    rw [kregD_setKreg_ne _ _ _ _ (by decide)]
    show kregD (setKreg sa4 1 _) 1 = _
    rw [kregD_setKreg_eq _ _ _ (by simp [sa4, sa3, sa2, sa1, hK])]
    show greg (setGreg sa3 9 _) 8 % 2 ^ 16 = _
    rw [greg_setGreg_ne _ _ _ _ (by decide)]
    show greg (setGreg sa2 8 _) 8 % 2 ^ 16 = _
    rw [greg_setGreg_eq _ _ _ (by simp [sa2, sa1, hG]), imm64_12]
  have hk2 : kregD sa6 2 = 240 := by
    show kregD (setKreg sa5 2 _) 2 = _
    rw [kregD_setKreg_eq _ _ _ (by simp [sa5, sa4, sa3, sa2, sa1, hK])]
    show greg (setKreg sa4 1 _) 9 % 2 ^ 16 = _
    rw [greg_setKreg]
    show greg (setGreg sa3 9 _) 9 % 2 ^ 16 = _
    rw [greg_setGreg_eq _ _ _ (by simp [sa3, sa2, sa1, hG]), imm64_240]
  have h31 : vreg sa6 31 = IDXv := by
    show vreg (setKreg (setKreg (setGreg (setGreg sa2 8 _) 9 _) 1 _) 2 _) 31 = _
    rw [vreg_setKreg, vreg_setKreg, vreg_setGreg, vreg_setGreg]
    exact vreg_setVreg_eq sa1 31 _ (by simp [sa1, hV])
  -- H², H³, H⁴
  have hFSof : ∀ {t : State}, Ctx mem tp h t → ∀ l, l < 16 / 16 →
      lo64 (lane 128 l (vreg t 25)) = lo64 (lane 128 l (vreg t 19)) ^^^ hi64 (lane 128 l (vreg t 19)) := by
    intro t ct l hl
    have : l = 0 := by omega
    subst this; rw [ct.v19, lane128_0_of_lt _ ct.hlt]; exact ct.v25
  have hRedof : ∀ {t : State}, Ctx mem tp h t → ∀ l, l < 16 / 16 → lo64 (lane 128 l (vreg t 26)) = poly := by
    intro t ct l hl; rw [ct.v26]; exact poly64_lanes l (by omega)
  obtain ⟨s1, hrun1, vo1, lt1, val1⟩ := mulRed_spec 16 19 25 19 4 rfl (Or.inl ⟨rfl, rfl⟩) (by decide) (by decide) sa6 ctxA.lenV
    (hFSof ctxA) (hRedof ctxA)
  have same1 : Same0 sa6 s1 := Same0.ofVecOnly vo1 ctxA.lenV (by decide) (by decide)
  have ctx1 := ctxA.same0 same1
  have h1_4 : vreg s1 4 = gmulR h h := by
    rw [← lane128_0_of_lt _ lt1, val1 0 (by decide), ctxA.v19, lane128_0_of_lt _ ctxA.hlt]
  obtain ⟨s2, hrun2, vo2, lt2, val2⟩ := mulRed_spec 16 19 25 4 5 rfl (Or.inl ⟨rfl, rfl⟩) (by decide) (by decide) s1 ctx1.lenV
    (hFSof ctx1) (hRedof ctx1)
  have same2 : Same0 s1 s2 := Same0.ofVecOnly vo2 ctx1.lenV (by decide) (by decide)
  have ctx2 := ctx1.same0 same2
  have hh2lt : gmulR h h < 2 ^ 128 := gmulR_lt ctx.hlt ctx.hlt
  have h2_5 : vreg s2 5 = gmulR h (gmulR h h) := by
    rw [← lane128_0_of_lt _ lt2, val2 0 (by decide), ctx1.v19, lane128_0_of_lt _ ctx1.hlt, h1_4, lane128_0_of_lt _ hh2lt]
  have h2_4 : vreg s2 4 = gmulR h h := by rw [vo2.keep 4 mem4 (by decide)]; exact h1_4
  obtain ⟨s3, hrun3, vo3, lt3, val3⟩ := mulRed_spec 16 19 25 5 29 rfl (Or.inl ⟨rfl, rfl⟩) (by decide) (by decide) s2 ctx2.lenV
    (hFSof ctx2) (hRedof ctx2)
  have same3 : Same0 s2 s3 := Same0.ofVecOnly vo3 ctx2.lenV (by decide) (by decide)
  have ctx3 := ctx2.same0 same3
  have hh3lt : gmulR h (gmulR h h) < 2 ^ 128 := gmulR_lt ctx.hlt hh2lt
  have h3_29 : vreg s3 29 = gmulR h (gmulR h (gmulR h h)) := by
    rw [← lane128_0_of_lt _ lt3, val3 0 (by decide), ctx2.v19, lane128_0_of_lt _ ctx2.hlt, h2_5, lane128_0_of_lt _ hh3lt]
  have h3_5 : vreg s3 5 = gmulR h (gmulR h h) := by rw [vo3.keep 5 mem5 (by decide)]; exact h2_5
  have h3_4 : vreg s3 4 = gmulR h h := by rw [vo3.keep 4 mem4 (by decide)]; exact h2_4
  have h3_31 : vreg s3 31 = IDXv := by
    rw [vo3.keep 31 mem31 (by decide), vo2.keep 31 mem31 (by decide), vo1.keep 31 mem31 (by decide)]; exact h31
  have h3k1 : kregD s3 1 = 12 := by
    show s3.kreg.getD 1 0 = _; rw [vo3.kreg, vo2.kreg, vo1.kreg]; exact hk1
  have h3k2 : kregD s3 2 = 240 := by
    show s3.kreg.getD 2 0 = _; rw [vo3.kreg, vo2.kreg, vo1.kreg]; exact hk2
  -- the merges
  have hG3 := ctx3.lenG
  have hV3 := ctx3.lenV
  have hK3 := ctx3.lenK
  let sb1 := setGreg s3 8 (51539607552 + 0)
  let sb2 := setGreg sb1 9 (55834574848 + 0)
  let sb3 := setVreg sb2 0 H01v
  let sb4 := setVreg sb3 1 H23v
  let y29 := mergeMask 64 (8 * 32 / 64) (kregD sb4 1) (map1 64 (32 / 8) (fun i => lane 64 (i % (32 / 8)) (vreg sb4 5)) (vreg sb4 0)) (vreg sb4 29)
  let sb5 := setVreg sb4 29 y29
  let y4 := mergeMask 64 (8 * 32 / 64) (kregD sb5 1) (map1 64 (32 / 8) (fun i => lane 64 (i % (32 / 8)) (vreg sb5 19)) (vreg sb5 0)) (vreg sb5 4)
  let sb6 := setVreg sb5 4 y4
  let z29 := mergeMask 64 (8 * 64 / 64) (kregD sb6 2) (map1 64 (64 / 8) (fun i => lane 64 (i % (64 / 8)) (vreg sb6 4)) (vreg sb6 1)) (vreg sb6 29)
  let sb7 := setVreg sb6 29 z29
  have hrunB : execList [ins .LEAQ [.sym "MERGE_H01" 0, G 8] 0, ins .LEAQ [.sym "MERGE_H23" 0, G 9] 0, ins .VMOVDQU32 [M 8 0, R 0] 32,
      ins .VMOVDQU32 [M 9 0, R 1] 64, ins .VPERMQ [R 5, R 0, K 1, R 29] 32, ins .VPERMQ [R 19, R 0, K 1, R 4] 32,
      ins .VPERMQ [R 4, R 1, K 2, R 29] 64] s3 = .ok sb7 := by
    apply exec_step (s1 := sb1)
    · exact a_leaq s3 _ 0 8 _ (by rw [ctx3.hsyms]; exact symTab_h01) (by rw [hG3]; decide)
    apply exec_step (s1 := sb2)
    · exact a_leaq sb1 _ 0 9 _ (by simp only [sb1, syms_setGreg]; rw [ctx3.hsyms]; exact symTab_h23) (by simp [sb1, hG3])
    apply exec_step (s1 := sb3)
    · exact a_vmov_load sb2 32 8 0 0 _ rfl (by simp [sb2, sb1, hG3]) (by simp [sb2, sb1, hV3])
        (by simp only [sb2, sb1, mem_setGreg, greg_setGreg_ne _ 9 _ 8 (by decide), greg_setGreg_eq s3 8 _ (by rw [hG3]; decide), imm64_0]
            rw [ctx3.hmem]; exact hM01)
    apply exec_step (s1 := sb4)
    · exact a_vmov_load sb3 64 9 0 1 _ rfl (by simp [sb3, sb2, sb1, hG3]) (by simp [sb3, sb2, sb1, hV3])
        (by simp only [sb3, sb2, mem_setVreg, mem_setGreg, greg_setVreg, greg_setGreg_eq sb1 9 _ (by simp [sb1, hG3]), imm64_0]
            simp only [sb1, mem_setGreg]
            rw [ctx3.hmem]; exact hM23)
    apply exec_step (s1 := sb5)
    · exact a_vpermq_mask sb4 32 5 0 1 29 _ 64 rfl (by simp [sb4, sb3, sb2, sb1, hV3]) (by simp [sb4, sb3, sb2, sb1, hV3])
        (by simp [sb4, sb3, sb2, sb1, hK3]) (by simp [sb4, sb3, sb2, sb1, hV3]) rfl
    apply exec_step (s1 := sb6)
    · exact a_vpermq_mask sb5 32 19 0 1 4 _ 64 rfl (by simp [sb5, sb4, sb3, sb2, sb1, hV3]) (by simp [sb5, sb4, sb3, sb2, sb1, hV3])
        (by simp [sb5, sb4, sb3, sb2, sb1, hK3]) (by simp [sb5, sb4, sb3, sb2, sb1, hV3]) rfl
    apply exec_step (s1 := sb7)
    · exact a_vpermq_mask sb6 64 4 1 2 29 _ 64 rfl (by simp [sb6, sb5, sb4, sb3, sb2, sb1, hV3]) (by simp [sb6, sb5, sb4, sb3, sb2, sb1, hV3])
        (by simp [sb6, sb5, sb4, sb3, sb2, sb1, hK3]) (by simp [sb6, sb5, sb4, sb3, sb2, sb1, hV3]) rfl
    rfl
  obtain ⟨r30, hrunC, hr30⟩ := hs_spec 64 29 30 rfl (by decide) (by decide) (by decide) sb7
    (by simp [sb7, sb6, sb5, sb4, sb3, sb2, sb1, hV3])
  have sameB : Same0 s3 (setVreg sb7 30 r30) :=
    (((((((Same0.setGreg s3 8 _ (by decide) (by decide) (by decide)).trans
      (Same0.setGreg sb1 9 _ (by decide) (by decide) (by decide))).trans
      (Same0.setVreg sb2 0 _ (by decide) (by decide))).trans (Same0.setVreg sb3 1 _ (by decide) (by decide))).trans
      (Same0.setVreg sb4 29 _ (by decide) (by decide))).trans (Same0.setVreg sb5 4 _ (by decide) (by decide))).trans
      (Same0.setVreg sb6 29 _ (by decide) (by decide))).trans (Same0.setVreg sb7 30 _ (by decide) (by decide))
  have sameAll : Same0 s (setVreg sb7 30 r30) := (((sameA.trans same1).trans same2).trans same3).trans sameB
  -- the values that enter the merges
  have hlen : ∀ n, n < 32 → n < sb2.vec.length := by intro n hn; simp [sb2, sb1, hV3]; exact hn
  have e4_k1 : kregD sb4 1 = 12 := h3k1
  have e4_5 : vreg sb4 5 = gmulR h (gmulR h h) := by
    show vreg (setVreg (setVreg sb2 0 _) 1 _) 5 = _
    rw [vreg_setVreg_ne _ _ _ _ (by decide), vreg_setVreg_ne _ _ _ _ (by decide)]; exact h3_5
  have e4_0 : vreg sb4 0 = H01v := by
    show vreg (setVreg (setVreg sb2 0 _) 1 _) 0 = _
    rw [vreg_setVreg_ne _ _ _ _ (by decide)]; exact vreg_setVreg_eq sb2 0 _ (hlen 0 (by decide))
  have e4_29 : vreg sb4 29 = gmulR h (gmulR h (gmulR h h)) := by
    show vreg (setVreg (setVreg sb2 0 _) 1 _) 29 = _
    rw [vreg_setVreg_ne _ _ _ _ (by decide), vreg_setVreg_ne _ _ _ _ (by decide)]; exact h3_29
  have e5_k1 : kregD sb5 1 = 12 := h3k1
  have e5_19 : vreg sb5 19 = h := by
    show vreg (setVreg (setVreg (setVreg sb2 0 _) 1 _) 29 _) 19 = _
    rw [vreg_setVreg_ne _ _ _ _ (by decide), vreg_setVreg_ne _ _ _ _ (by decide), vreg_setVreg_ne _ _ _ _ (by decide)]
    exact ctx3.v19
  have e5_0 : vreg sb5 0 = H01v := by
    show vreg (setVreg sb4 29 _) 0 = _
    rw [vreg_setVreg_ne _ _ _ _ (by decide)]; exact e4_0
  have e5_4 : vreg sb5 4 = gmulR h h := by
    show vreg (setVreg (setVreg (setVreg sb2 0 _) 1 _) 29 _) 4 = _
    rw [vreg_setVreg_ne _ _ _ _ (by decide), vreg_setVreg_ne _ _ _ _ (by decide), vreg_setVreg_ne _ _ _ _ (by decide)]
    exact h3_4
  have e6_k2 : kregD sb6 2 = 240 := h3k2
  have e6_4 : vreg sb6 4 = y4 := vreg_setVreg_eq sb5 4 _ (by simp [sb5, sb4, sb3, sb2, sb1, hV3])
  have e6_1 : vreg sb6 1 = H23v := by
    show vreg (setVreg (setVreg (setVreg sb3 1 _) 29 _) 4 _) 1 = _
    rw [vreg_setVreg_ne _ _ _ _ (by decide), vreg_setVreg_ne _ _ _ _ (by decide)]
    exact vreg_setVreg_eq sb3 1 _ (by simp [sb3, sb2, sb1, hV3])
  have e6_29 : vreg sb6 29 = y29 := by
    show vreg (setVreg sb5 4 _) 29 = _
    rw [vreg_setVreg_ne _ _ _ _ (by decide)]
    exact vreg_setVreg_eq sb4 29 _ (by simp [sb4, sb3, sb2, sb1, hV3])
  have e7_29 : vreg sb7 29 = z29 := vreg_setVreg_eq sb6 29 _ (by simp [sb6, sb5, sb4, sb3, sb2, sb1, hV3])
  have hmp := merge_powers (gmulR h (gmulR h (gmulR h h))) (gmulR h (gmulR h h)) (gmulR h h) h
  have hz : z29 = mergeMask 64 (8 * 64 / 64) 240
      (map1 64 (64 / 8) (fun i => lane 64 (i % (64 / 8))
        (mergeMask 64 (8 * 32 / 64) 12 (map1 64 (32 / 8) (fun i => lane 64 (i % (32 / 8)) h) H01v) (gmulR h h))) H23v)
      (mergeMask 64 (8 * 32 / 64) 12 (map1 64 (32 / 8) (fun i => lane 64 (i % (32 / 8)) (gmulR h (gmulR h h))) H01v)
        (gmulR h (gmulR h (gmulR h h)))) := by
    show mergeMask 64 (8 * 64 / 64) (kregD sb6 2) (map1 64 (64 / 8) (fun i => lane 64 (i % (64 / 8)) (vreg sb6 4)) (vreg sb6 1)) (vreg sb6 29) = _
    rw [e6_k2, e6_4, e6_1, e6_29]
    show mergeMask 64 (8 * 64 / 64) 240 (map1 64 (64 / 8) (fun i => lane 64 (i % (64 / 8))
      (mergeMask 64 (8 * 32 / 64) (kregD sb5 1) (map1 64 (32 / 8) (fun i => lane 64 (i % (32 / 8)) (vreg sb5 19)) (vreg sb5 0)) (vreg sb5 4))) H23v)
      (mergeMask 64 (8 * 32 / 64) (kregD sb4 1) (map1 64 (32 / 8) (fun i => lane 64 (i % (32 / 8)) (vreg sb4 5)) (vreg sb4 0)) (vreg sb4 29)) = _
    rw [e5_k1, e5_19, e5_0, e5_4, e4_k1, e4_5, e4_0, e4_29]
  have hh4lt : gmulR h (gmulR h (gmulR h h)) < 2 ^ 128 := gmulR_lt ctx.hlt hh3lt
  have hz29 : ∀ l, l < 4 → lane 128 l z29 = hpow h l := by
    intro l hl
    rw [hz]
    have h4c : l = 0 ∨ l = 1 ∨ l = 2 ∨ l = 3 := by omega
    rcases h4c with rfl | rfl | rfl | rfl
    · rw [hmp.1, lane128_0_of_lt _ hh4lt]; rfl
    · rw [hmp.2.1, lane128_0_of_lt _ hh3lt]; rfl
    · rw [hmp.2.2.1, lane128_0_of_lt _ hh2lt]; rfl
    · rw [hmp.2.2.2, lane128_0_of_lt _ ctx.hlt]; rfl
  refine ⟨setVreg sb7 30 r30, ?_, ctx.same0 sameAll, ⟨?_, ?_, ?_⟩, sameAll.g1, sameAll.g2, sameAll.v21⟩
  · rw [qCode_split]
    exact execList_append_ok hrunA (execList_append_ok hrun1 (execList_append_ok hrun2 (execList_append_ok hrun3
      (execList_append_ok hrunB hrunC))))
  · intro l hl
    rw [vreg_setVreg_ne _ _ _ _ (by decide), e7_29]; exact hz29 l hl
  · intro l hl
    rw [vreg_setVreg_eq _ _ _ (by simp [sb7, sb6, sb5, sb4, sb3, sb2, sb1, hV3]), hr30 l (by omega), e7_29, hz29 l hl]
  · rw [vreg_setVreg_ne _ _ _ _ (by decide)]
    show vreg (setVreg (setVreg (setVreg (setVreg (setVreg sb2 0 _) 1 _) 29 _) 4 _) 29 _) 31 = _
    rw [vreg_setVreg_ne _ _ _ _ (by decide), vreg_setVreg_ne _ _ _ _ (by decide), vreg_setVreg_ne _ _ _ _ (by decide),
      vreg_setVreg_ne _ _ _ _ (by decide), vreg_setVreg_ne _ _ _ _ (by decide)]
    exact h3_31

end SMGo.Proofs.ISAVal
