import SMGo.Proofs.ISAValGhashVal
import SMGo.Proofs.ISAValGhashStep
namespace SMGo.Proofs.ISAVal
open SMGo.Model.ISAVal SMGo.Model.ISA SMGo.Model.GCM SMGo.Proofs.GCM

/-- macro `mul(Factor, FactorS, Input, Lo=V27, Mid=V13, Hi=V28, T0=V0)` -/
def mulCode (vl F FS In : Nat) : List DInstr :=
  [ins .VPCLMULQDQ [.imm 0, R In, R F, R 27] vl,
   ins .VPSRLDQ [.imm 8, R In, R 0] vl,
   ins .VPXORD [R In, R 0, R 0] vl,
   ins .VPCLMULQDQ [.imm 0, R 0, R FS, R 13] vl,
   ins .VPCLMULQDQ [.imm 17, R In, R F, R 28] vl]

/-- macro `reduce(Output, Reduce=V26, Lo=V27, Mid=V13, Hi=V28, T0..T3=V0..V3)` -/
def redCode (vl Out : Nat) : List DInstr :=
  [ins .VPXORD [R 28, R 27, R 1] vl,
   ins .VPXORD [R 13, R 1, R 13] vl,
   ins .VPSRLDQ [.imm 8, R 13, R 2] vl,
   ins .VPSLLDQ [.imm 8, R 13, R 3] vl,
   ins .VPXORD [R 28, R 2, R 28] vl,
   ins .VPXORD [R 27, R 3, R 27] vl,
   ins .VPCLMULQDQ [.imm 0, R 26, R 28, R 0] vl,
   ins .VPCLMULQDQ [.imm 1, R 26, R 28, R 1] vl,
   ins .VPSLLDQ [.imm 8, R 1, R 2] vl,
   ins .VPXORD [R 2, R 0, R 0] vl,
   ins .VPXORD [R 0, R 27, R 27] vl,
   ins .VPCLMULQDQ [.imm 1, R 26, R 1, R 3] vl,
   ins .VPXORD [R 3, R 27, R Out] vl]

def mulRedCode (vl F FS In Out : Nat) : List DInstr := mulCode vl F FS In ++ redCode vl Out

theorem imm_0 : imm64 0 % 256 = 0 := by decide +kernel
theorem imm_1 : imm64 1 % 256 = 1 := by decide +kernel
theorem imm_8 : imm64 8 % 256 = 8 := by decide +kernel
theorem imm_17 : imm64 17 % 256 = 17 := by decide +kernel

theorem clmul_lt128 (a b : Nat) : clmul (lane 64 a x) (lane 64 b y) < 2 ^ 128 := by
  rw [clmul_eq]
  exact Nat.lt_trans (clmul64_lt _ (lane_lt 64 _ _)) (by decide)

theorem lane128_clmul (imm n l a b : Nat) (hl : l < n) :
    lane 128 l (map2 128 n (fun x y => clmul (lane 64 (bit imm 0) y) (lane 64 (bit imm 4) x)) a b)
      = clmulL imm (lane 128 l a) (lane 128 l b) := by
  rw [lane_map2 128 n l a b _ hl (fun x y _ _ => clmul_lt128 _ _)]
  rfl

theorem lane128_srldq8 (n l a : Nat) (hl : l < n) :
    lane 128 l (map1 128 n (fun x => x >>> (8 * 8)) a) = lane 128 l a >>> 64 :=
  lane_map1 128 n l a _ hl (fun x hx => Nat.lt_of_le_of_lt (Nat.shiftRight_le _ _) hx)

theorem lane128_slldq8 (n l a : Nat) (hl : l < n) :
    lane 128 l (map1 128 n (fun x => (x <<< (8 * 8)) % 2 ^ 128) a) = (lane 128 l a <<< 64) % 2 ^ 128 :=
  lane_map1 128 n l a _ hl (fun x _ => Nat.mod_lt _ (Nat.two_pow_pos 128))

theorem lane128_vpxord (vl l a b : Nat) (hvl : vl % 16 = 0) (hl : l < vl / 16) :
    lane 128 l (map2 32 (vl / 4) (fun x y => y ^^^ x) a b) = lane 128 l b ^^^ lane 128 l a :=
  laneW_vpxord 128 l (vl / 4) a b (by omega)

theorem vpxord_lt (vl a b : Nat) (hvl : vl % 4 = 0) : map2 32 (vl / 4) (fun x y => y ^^^ x) a b < 2 ^ (8 * vl) := by
  have := map2_lt 32 (vl / 4) (fun x y => y ^^^ x) a b (fun x y hx hy => Nat.xor_lt_two_pow hy hx)
  rwa [show 32 * (vl / 4) = 8 * vl from by omega] at this

theorem lt_len32 (d : Nat) (l : List Nat) (h : l.length = 32) (hd : d < 32) : d < l.length := h ▸ hd
theorem lt_len16 (d : Nat) (l : List Nat) (h : l.length = 16) (hd : d < 16) : d < l.length := h ▸ hd

/-- one instruction of a straight-line block; vector length from a hypothesis in the context -/
macro "gstep" : tactic => `(tactic|
  (apply exec_step
   · first
     | exact execD_vec3 (hmn := by rfl) (hvl := by assumption) (ha := by rfl) (hb := by rfl) (hd := lt_len32 _ _ rfl (by decide)) (hr := by rfl) ..
     | exact execD_vecImm (hmn := by rfl) (hvl := by assumption) (ha := by rfl) (hd := lt_len32 _ _ rfl (by decide)) (hr := by rfl) ..
     | exact execD_vecImm2 (hmn := by rfl) (hvl := by assumption) (ha := by rfl) (hb := by rfl) (hd := lt_len32 _ _ rfl (by decide)) (hr := by rfl) ..))

/-- registers that live across the GHASH macros -/
def persistent : List Nat := [4, 5, 6, 7, 8, 9, 14, 19, 20, 21, 22, 23, 24, 25, 26, 29, 30, 31]

/-- nothing but vector registers changes, and the persistent vector registers other than `Out` do not -/
structure VecOnly (Out : Nat) (s s' : State) : Prop where
  gpr : s'.gpr = s.gpr
  lenV : s'.vec.length = 32
  kreg : s'.kreg = s.kreg
  flags : s'.flags = s.flags
  mem : s'.mem = s.mem
  syms : s'.syms = s.syms
  frame : s'.frame = s.frame
  keep : ∀ n, n ∈ persistent → n ≠ Out → vreg s' n = vreg s n

theorem VecOnly.trans {o1 o2 o : Nat} {s s1 s2 : State} (h1 : VecOnly o1 s s1) (h2 : VecOnly o2 s1 s2)
    (ho1 : o1 = o ∨ o1 ∉ persistent) (ho2 : o2 = o ∨ o2 ∉ persistent) : VecOnly o s s2 where
  gpr := h2.gpr.trans h1.gpr
  lenV := h2.lenV
  kreg := h2.kreg.trans h1.kreg
  flags := h2.flags.trans h1.flags
  mem := h2.mem.trans h1.mem
  syms := h2.syms.trans h1.syms
  frame := h2.frame.trans h1.frame
  keep := by
    intro n hn hne
    have e2 : n ≠ o2 := by
      rcases ho2 with rfl | h
      · exact hne
      · intro e; exact h (e ▸ hn)
    have e1 : n ≠ o1 := by
      rcases ho1 with rfl | h
      · exact hne
      · intro e; exact h (e ▸ hn)
    rw [h2.keep n hn e2, h1.keep n hn e1]

set_option hygiene false in
/-- the `keep` clause of `VecOnly` on an explicit register list -/
macro "keep_tac" : tactic => `(tactic|
  (intro n hn hne
   simp only [persistent, List.mem_cons, List.not_mem_nil, or_false] at hn
   rcases hn with rfl | rfl | rfl | rfl | rfl | rfl | rfl | rfl | rfl | rfl | rfl | rfl | rfl | rfl | rfl | rfl | rfl | rfl <;>
     first
     | (exfalso; exact hne rfl)
     | simp only [vreg, List.getD_cons_succ, List.getD_cons_zero]))

set_option maxRecDepth 100000 in
set_option maxHeartbeats 1000000 in
theorem mul_spec (vl F FS In : Nat) (hvl : validVl vl = true)
    (hF : (F = 19 ∧ FS = 25) ∨ (F = 29 ∧ FS = 30)) (hIn : In ∈ [19, 4, 5, 20, 6, 7, 8, 9])
    (s : State) (hV : s.vec.length = 32) :
    ∃ s', execList (mulCode vl F FS In) s = .ok s' ∧ VecOnly 0 s s' ∧
      ∀ l, l < vl / 16 →
        lane 128 l (vreg s' 27) = clmulL 0 (lane 128 l (vreg s In)) (lane 128 l (vreg s F)) ∧
        lane 128 l (vreg s' 13) = clmulL 0 ((lane 128 l (vreg s In) >>> 64) ^^^ lane 128 l (vreg s In)) (lane 128 l (vreg s FS)) ∧
        lane 128 l (vreg s' 28) = clmulL 17 (lane 128 l (vreg s In)) (lane 128 l (vreg s F)) := by
  have hvl16 : vl % 16 = 0 := by
    simp only [validVl, Bool.or_eq_true, beq_iff_eq] at hvl
    omega
  obtain ⟨gpr, vec, k, fl, mem, syms, frame⟩ := s
  simp only at hV
  obtain ⟨b0, b1, b2, b3, b4, b5, b6, b7, b8, b9, b10, b11, b12, b13, b14, b15, b16, b17, b18, b19, b20, b21, b22, b23, b24, b25, b26, b27, b28, b29, b30, b31, rfl⟩ := list32 vec hV
  simp only [List.mem_cons, List.not_mem_nil, or_false] at hIn
  rcases hF with ⟨rfl, rfl⟩ | ⟨rfl, rfl⟩ <;> rcases hIn with rfl | rfl | rfl | rfl | rfl | rfl | rfl | rfl
  all_goals
    apply Exists.intro
    apply And.intro
    · unfold mulCode
      gstep; gstep; gstep; gstep; gstep
      exact execList_nil _
    · simp only [List.set_cons_succ, List.set_cons_zero]
      refine ⟨⟨rfl, rfl, rfl, rfl, rfl, rfl, rfl, by keep_tac⟩, ?_⟩
      intro l hl
      simp only [vreg, List.getD_cons_succ, List.getD_cons_zero]
      simp only [imm_0, imm_8, imm_17, lane128_vpxord vl l _ _ hvl16 hl, lane128_clmul _ _ l _ _ hl,
        lane128_srldq8 _ l _ hl, and_self]

set_option maxRecDepth 100000 in
theorem red1_spec (vl : Nat) (hvl : validVl vl = true) (s : State) (hV : s.vec.length = 32) :
    ∃ s', execList ((redCode vl 0).take 6) s = .ok s' ∧ VecOnly 0 s s' ∧
      ∀ l, l < vl / 16 →
        lane 128 l (vreg s' 28) = ((((lane 128 l (vreg s 27) ^^^ lane 128 l (vreg s 28)) ^^^ lane 128 l (vreg s 13)) >>> 64)
            ^^^ lane 128 l (vreg s 28)) ∧
        lane 128 l (vreg s' 27) = (((((lane 128 l (vreg s 27) ^^^ lane 128 l (vreg s 28)) ^^^ lane 128 l (vreg s 13)) <<< 64) % 2 ^ 128)
            ^^^ lane 128 l (vreg s 27)) := by
  have hvl16 : vl % 16 = 0 := by
    simp only [validVl, Bool.or_eq_true, beq_iff_eq] at hvl
    omega
  obtain ⟨gpr, vec, k, fl, mem, syms, frame⟩ := s
  simp only at hV
  obtain ⟨b0, b1, b2, b3, b4, b5, b6, b7, b8, b9, b10, b11, b12, b13, b14, b15, b16, b17, b18, b19, b20, b21, b22, b23, b24, b25, b26, b27, b28, b29, b30, b31, rfl⟩ := list32 vec hV
  apply Exists.intro
  apply And.intro
  · simp only [redCode, List.take_succ_cons, List.take_zero]
    gstep; gstep; gstep; gstep; gstep; gstep
    exact execList_nil _
  · simp only [List.set_cons_succ, List.set_cons_zero]
    refine ⟨⟨rfl, rfl, rfl, rfl, rfl, rfl, rfl, by keep_tac⟩, ?_⟩
    intro l hl
    simp only [vreg, List.getD_cons_succ, List.getD_cons_zero]
    simp only [imm_8, lane128_vpxord vl l _ _ hvl16 hl, lane128_srldq8 _ l _ hl, lane128_slldq8 _ l _ hl, and_self]

set_option maxRecDepth 100000 in
set_option maxHeartbeats 1000000 in
theorem red2_spec (vl Out : Nat) (hvl : validVl vl = true) (hout : Out = 4 ∨ Out = 5 ∨ Out = 29 ∨ Out = 14 ∨ Out = 21)
    (s : State) (hV : s.vec.length = 32) :
    ∃ s', execList ((redCode vl Out).drop 6) s = .ok s' ∧ VecOnly Out s s' ∧ vreg s' Out < 2 ^ (8 * vl) ∧
      ∀ l, l < vl / 16 →
        lane 128 l (vreg s' Out) =
          (lane 128 l (vreg s 27) ^^^
            (clmulL 0 (lane 128 l (vreg s 26)) (lane 128 l (vreg s 28)) ^^^
              ((clmulL 1 (lane 128 l (vreg s 26)) (lane 128 l (vreg s 28)) <<< 64) % 2 ^ 128))) ^^^
            clmulL 1 (lane 128 l (vreg s 26)) (clmulL 1 (lane 128 l (vreg s 26)) (lane 128 l (vreg s 28))) := by
  have hvl16 : vl % 16 = 0 := by
    simp only [validVl, Bool.or_eq_true, beq_iff_eq] at hvl
    omega
  obtain ⟨gpr, vec, k, fl, mem, syms, frame⟩ := s
  simp only at hV
  obtain ⟨b0, b1, b2, b3, b4, b5, b6, b7, b8, b9, b10, b11, b12, b13, b14, b15, b16, b17, b18, b19, b20, b21, b22, b23, b24, b25, b26, b27, b28, b29, b30, b31, rfl⟩ := list32 vec hV
  rcases hout with rfl | rfl | rfl | rfl | rfl
  all_goals
    apply Exists.intro
    apply And.intro
    · simp only [redCode, List.drop_succ_cons, List.drop_zero]
      gstep; gstep; gstep; gstep; gstep; gstep; gstep
      exact execList_nil _
    · simp only [List.set_cons_succ, List.set_cons_zero]
      refine ⟨⟨rfl, rfl, rfl, rfl, rfl, rfl, rfl, by keep_tac⟩, ?_, ?_⟩
      · simp only [vreg, List.getD_cons_succ, List.getD_cons_zero]
        exact vpxord_lt vl _ _ (by omega)
      · intro l hl
        simp only [vreg, List.getD_cons_succ, List.getD_cons_zero]
        simp only [imm_0, imm_1, imm_8, lane128_vpxord vl l _ _ hvl16 hl, lane128_clmul _ _ l _ _ hl,
          lane128_slldq8 _ l _ hl]


theorem mem_persistent_26 : 26 ∈ persistent := by decide

/-- **`mul` + `reduce` compute the model's field multiplication `gmulR` on every 128-bit lane** (A1, arithmetic
    part), for every register assignment that occurs in `gHashBlocks`, `sealAsm` and `openAsm`: factor H (V19, with
    H.lo ⊕ H.hi in V25) or the vector of powers (V29, V30); input any of V19 V4 V5 V20 V6 V7 V8 V9; output any of
    V4 V5 V29 V14 V21; the temporaries V0–V3, V13, V27, V28 and the constant V26 are the same everywhere -/
theorem mulRed_spec (vl F FS In Out : Nat) (hvl : validVl vl = true)
    (hF : (F = 19 ∧ FS = 25) ∨ (F = 29 ∧ FS = 30)) (hIn : In ∈ [19, 4, 5, 20, 6, 7, 8, 9])
    (hout : Out = 4 ∨ Out = 5 ∨ Out = 29 ∨ Out = 14 ∨ Out = 21)
    (s : State) (hV : s.vec.length = 32)
    (hFS : ∀ l, l < vl / 16 → lo64 (lane 128 l (vreg s FS)) = lo64 (lane 128 l (vreg s F)) ^^^ hi64 (lane 128 l (vreg s F)))
    (hRed : ∀ l, l < vl / 16 → lo64 (lane 128 l (vreg s 26)) = poly) :
    ∃ s', execList (mulRedCode vl F FS In Out) s = .ok s' ∧ VecOnly Out s s' ∧ vreg s' Out < 2 ^ (8 * vl) ∧
      ∀ l, l < vl / 16 → lane 128 l (vreg s' Out) = gmulR (lane 128 l (vreg s F)) (lane 128 l (vreg s In)) := by
  obtain ⟨s1, hrun1, hv1, hl1⟩ := mul_spec vl F FS In hvl hF hIn s hV
  obtain ⟨s2, hrun2, hv2, hl2⟩ := red1_spec vl hvl s1 hv1.lenV
  obtain ⟨s3, hrun3, hv3, hlt3, hl3⟩ := red2_spec vl Out hvl hout s2 hv2.lenV
  have hcode : mulRedCode vl F FS In Out = mulCode vl F FS In ++ ((redCode vl 0).take 6 ++ (redCode vl Out).drop 6) := rfl
  have h0np : (0 : Nat) ∉ persistent := by decide
  refine ⟨s3, ?_, ?_, hlt3, ?_⟩
  · rw [hcode]; exact execList_append_ok hrun1 (execList_append_ok hrun2 hrun3)
  · exact (hv1.trans hv2 (Or.inr h0np) (Or.inr h0np)).trans hv3 (Or.inr h0np) (Or.inl rfl)
  · intro l hl
    have e26 : vreg s2 26 = vreg s 26 := by
      rw [hv2.keep 26 mem_persistent_26 (by decide), hv1.keep 26 mem_persistent_26 (by decide)]
    obtain ⟨a27, a13, a28⟩ := hl1 l hl
    obtain ⟨b28, b27⟩ := hl2 l hl
    rw [hl3 l hl, e26, b27, b28, a27, a13, a28, ← mulRedLane_eq _ _ _ _ (hFS l hl) (hRed l hl)]
    rfl

end SMGo.Proofs.ISAVal
