/-
  RENAMING / TRANSFER, part 3: the third generated program `SMGo.Gen.CTIRProgProto.prog = CTIRProg.prog ++ extra`
  (functions 0–99 and globals 0–18 of `CTIRProg`, the new functions 100–107, the new global 19).

  (a) EXTENSION.  `renE id e = e`, `renS id id s = s`, `renF id id fn = fn`; `closedP P`: every function of `P` calls
  only functions of `P`; `renames_append : closedP P = true → Renames P (P ++ Q) id id (List.range P.length)`; hence
  (`computes_append`, `runV_append`, `calleeFails_append`) whatever a function of `P` does in `P` it does in `P ++ Q`
  (same globals, same fuel).  For the concrete programs: `prog_closed`, `renames_proto`, `computes_proto_of_prog`,
  `computes_comb_proto_of_prog`, `calleeFails_proto_of_prog`, `runV_proto_of_prog`, `globals_proto_of_prog`
  (`CTIRProgProto.globals k = CTIRProg.globals k` for k < 19), `globals_proto_19`.

  (b) internal.ScalarMixedMult_Unsafe IN THE NUMBERING OF `CTIRProgProto`.  `σfp`, `γfp`, `Dfp`: the call closure of
  function 3 of `CTIRProgFn.prog` (28 functions = 0 … 27), matched by Go name with `CTIRProgProto.prog`;
  `renames_fp : Renames CTIRProgFn.prog CTIRProgProto.prog σfp γfp Dfp` (one `rfl` per function: NO function differs
  other than by the renaming; in particular `CTIRProgProto.fn_100` is the renaming of `CTIRProgFn.fn_3`).
  `mixedMult_proto_computes`: the theorem of CTIRRefineMixed (point functions discharged by CTIRRefinePointA through
  `renames_pt`) as `Computes` / `CalleeFails` facts about function 100 of `CTIRProgProto.prog`;
  `ir_scalarMixedMult_eq_model_proto` (run level), `…_proto_encOk`, `…_proto_globals`, `…_proto_allG`.
  The globals hypotheses are in the numbering of `CTIRProgProto`: `G 6` = sm2B, `G 7`, `G 8` = the 6-3-14 tables.
  `FiatPrims` is a hypothesis about `CTIRProg.prog` with the globals `fun i => G (γfp (γpt i))` (the two renamings
  composed; the Fiat primitives read no global, and the theorems of CTIRRefineFiat hold for every `G`, see `…_allG`).
-/
import SMGo.Proofs.CTIRRefineRename
import SMGo.Gen.CTIRProgProto
open SMGo SMGo.Model.CTIR
open SMGo.Proofs.CTIRRefineField (Computes)

namespace SMGo.Proofs.CTIRRefineRename

/-! ## (a) Extension of a program -/

theorem renE_id (e : Expr) : renE id e = e := by
  induction e with
  | lit n => rfl
  | glob g => rfl
  | var x => rfl
  | idx a i iha ihi => simp only [renE, iha, ihi]
  | idxc a k iha => simp only [renE, iha]
  | len a iha => simp only [renE, iha]
  | slice a lo hi iha ihl ihh => simp only [renE, iha, ihl, ihh]
  | mk n i ihn ihi => simp only [renE, ihn, ihi]
  | cat a b iha ihb => simp only [renE, iha, ihb]
  | cteq a b iha ihb => simp only [renE, iha, ihb]
  | op1 o a iha => simp only [renE, iha]
  | op2 o a b iha ihb => simp only [renE, iha, ihb]
  | op3 o a b c iha ihb ihc => simp only [renE, iha, ihb, ihc]

theorem map_renE_id (es : List Expr) : es.map (renE id) = es := by
  induction es with
  | nil => rfl
  | cons e es ih => simp only [List.map_cons, renE_id, ih]

theorem renP_id (p : PathE) : renP id p = p := by
  cases p with
  | c k => rfl
  | e i => simp only [renP, renE_id]

theorem map_renP_id (p : List PathE) : p.map (renP id) = p := by
  induction p with
  | nil => rfl
  | cons a p ih => simp only [List.map_cons, renP_id, ih]

theorem renS_id (s : Stmt) : renS id id s = s := by
  induction s with
  | skip => rfl
  | brk => rfl
  | cont => rfl
  | panic => rfl
  | assign x p e => simp only [renS, map_renP_id, renE_id]
  | seq a b iha ihb => simp only [renS, iha, ihb]
  | ite c a b iha ihb => simp only [renS, renE_id, iha, ihb]
  | loop c a b iha ihb => simp only [renS, renE_id, iha, ihb]
  | ret es => simp only [renS, map_renE_id]
  | call lhs g args => simp only [renS, map_renE_id, id]
  | ext lhs n l args => simp only [renS, map_renE_id]
  | declass x site e => simp only [renS, renE_id]

theorem renF_id (fn : Fn) : renF id id fn = fn := by
  cases fn
  simp only [renF, renS_id]

/-- every function of `P` calls only functions of `P` -/
def closedP (P : Prog) : Bool := P.all (fun fn => closedS (List.range P.length) fn.body)

/-- **Extension.**  A closed program inside a longer one: the identity renaming. -/
theorem renames_append (P Q : Prog) (h : closedP P = true) :
    Renames P (P ++ Q) id id (List.range P.length) := by
  intro g hg
  have hlt : g < P.length := List.mem_range.1 hg
  refine ⟨P[g], List.getElem?_eq_getElem hlt, ?_, ?_⟩
  · rw [renF_id]
    simp only [id]
    rw [List.getElem?_append_left hlt]
    exact List.getElem?_eq_getElem hlt
  · exact (List.all_eq_true.1 h) P[g] (List.getElem_mem hlt)

section Append
variable {P Q : Prog} {G : Nat → Val} {X : Oracle}

theorem computes_append (h : closedP P = true) {g F : Nat} {args res : List Val}
    (hc : Computes P G X g F args res) (hg : g < P.length) : Computes (P ++ Q) G X g F args res :=
  Computes.ren (G' := G) (renames_append P Q h) hc (List.mem_range.2 hg)

theorem runV_append (h : closedP P = true) {g : Nat} (hg : g < P.length) (f : Nat) (args : List Val) :
    runV (P ++ Q) G X f g args = runV P G X f g args :=
  runV_ren (G' := G) (renames_append P Q h) (List.mem_range.2 hg) f args

end Append

/-- `CalleeFails` (CTIRRefineComb: explicit panic or stuck) transfers along a renaming -/
theorem CalleeFails.ren {P P' : Prog} {G' : Nat → Val} {X : Oracle} {σ γ : Nat → Nat} {D : List Nat}
    (H : Renames P P' σ γ D) {g : Nat} {args : List Val}
    (h : CTIRRefineComb.CalleeFails P (fun i => G' (γ i)) X g args) (hg : g ∈ D) :
    CTIRRefineComb.CalleeFails P' G' X (σ g) args := by
  obtain ⟨fn', h1, h2, h3⟩ := H g hg
  rcases h with ⟨fn, F, env', h0, hs, hn, hb⟩ | ⟨fn, h0, hb⟩
  · rw [h0] at h1
    cases h1
    exact Or.inl ⟨renF σ γ fn', F, env', h2, hs, hn, EvIn.ren H hb h3⟩
  · rw [h0] at h1
    cases h1
    exact Or.inr ⟨renF σ γ fn', h2, Stuck.ren H hb h3⟩

theorem calleeFails_append {P Q : Prog} {G : Nat → Val} {X : Oracle} (h : closedP P = true) {g : Nat}
    {args : List Val} (hc : CTIRRefineComb.CalleeFails P G X g args) (hg : g < P.length) :
    CTIRRefineComb.CalleeFails (P ++ Q) G X g args :=
  CalleeFails.ren (G' := G) (renames_append P Q h) hc (List.mem_range.2 hg)

/-- a failing callee as a statement about runs -/
theorem runV_of_CalleeFails {P : Prog} {G : Nat → Val} {X : Oracle} {g : Nat} {args : List Val}
    (h : CTIRRefineComb.CalleeFails P G X g args) :
    (∃ F, ∀ f, F ≤ f → runV P G X f g args = .panic) ∨ (∀ f, runV P G X f g args = .stuck) := by
  rcases h with ⟨fn, F, env', h0, hs, hn, hb⟩ | ⟨fn, h0, hb⟩
  · exact Or.inl ⟨F, runV_of_EvIn h0 hs hn hb⟩
  · exact Or.inr (runV_of_Stuck h0 hb)

/-! ### The concrete programs: `CTIRProgProto.prog = CTIRProg.prog ++ extra` -/

set_option maxRecDepth 100000 in
/-- the 100 functions of `CTIRProg.prog` call only functions 0 … 99 (evaluated) -/
theorem prog_closed : closedP Gen.CTIRProg.prog = true := rfl

theorem renames_proto : Renames Gen.CTIRProg.prog Gen.CTIRProgProto.prog id id (List.range 100) :=
  renames_append Gen.CTIRProg.prog Gen.CTIRProgProto.extra prog_closed

section Proto
variable {G : Nat → Val} {X : Oracle}

/-- whatever function `g < 100` computes in `CTIRProg.prog`, it computes in `CTIRProgProto.prog` -/
theorem computes_proto_of_prog {g F : Nat} {args res : List Val}
    (h : Computes Gen.CTIRProg.prog G X g F args res) (hg : g < 100) :
    Computes Gen.CTIRProgProto.prog G X g F args res :=
  computes_append (Q := Gen.CTIRProgProto.extra) prog_closed h hg

/-- the same for the copy of `Computes` in CTIRRefineComb -/
theorem computes_comb_proto_of_prog {g F : Nat} {args res : List Val}
    (h : CTIRRefineComb.Computes Gen.CTIRProg.prog G X g F args res) (hg : g < 100) :
    CTIRRefineComb.Computes Gen.CTIRProgProto.prog G X g F args res :=
  computes_append (Q := Gen.CTIRProgProto.extra) prog_closed h hg

theorem calleeFails_proto_of_prog {g : Nat} {args : List Val}
    (h : CTIRRefineComb.CalleeFails Gen.CTIRProg.prog G X g args) (hg : g < 100) :
    CTIRRefineComb.CalleeFails Gen.CTIRProgProto.prog G X g args :=
  calleeFails_append (Q := Gen.CTIRProgProto.extra) prog_closed h hg

/-- the runs of the functions `g < 100` are the same in both programs, at every fuel -/
theorem runV_proto_of_prog {g : Nat} (hg : g < 100) (f : Nat) (args : List Val) :
    runV Gen.CTIRProgProto.prog G X f g args = runV Gen.CTIRProg.prog G X f g args :=
  runV_append (Q := Gen.CTIRProgProto.extra) prog_closed hg f args

end Proto

/-- globals 0 … 18 are those of `CTIRProg` -/
theorem globals_proto_of_prog : ∀ k, k < 19 → Gen.CTIRProgProto.globals k = Gen.CTIRProg.globals k := by
  intro k hk
  iterate 19 (cases k with | zero => rfl | succ k => ?_)
  omega

theorem globals_proto_19 : Gen.CTIRProgProto.globals 19 = Gen.CTIRProgProto.g_19 := rfl

/-! ## (b) `CTIRProgFn.prog` inside `CTIRProgProto.prog`

  The call closure of internal.ScalarMixedMult_Unsafe (function 3 of `CTIRProgFn.prog`): functions 0 … 27.
  Numbers `CTIRProgFn ↦ CTIRProgProto`, matched by Go name:
    0 ↦ 101  utils.DecomposeNAF
    1 ↦ 102  utils.getBit
    2 ↦ 103  utils.getBits
    3 ↦ 100  internal.ScalarMixedMult_Unsafe
    4 ↦ 79  internal.SM2Point.Double
    5 ↦ 24  fiat.SM2Element.Square
    6 ↦ 25  fiat.sm2Square
    7 ↦ 11  fiat.sm2CmovznzU64
    8 ↦ 22  fiat.SM2Element.Mul
    9 ↦ 23  fiat.sm2Mul
    10 ↦ 16  fiat.SM2Element.Add
    11 ↦ 17  fiat.sm2Add
    12 ↦ 18  fiat.SM2Element.Sub
    13 ↦ 19  fiat.sm2Sub
    14 ↦ 15  fiat.SM2Element.Set
    15 ↦ 73  internal.NewSM2Point
    16 ↦ 13  fiat.SM2Element.One
    17 ↦ 14  fiat.sm2SetOne
    18 ↦ 78  internal.SM2Point.Add
    19 ↦ 3  internal.extractHigherBits
    20 ↦ 2  internal.extractBit
    21 ↦ 74  internal.NewFromXY
    22 ↦ 40  fiat.SM2Element.SetRaw
    23 ↦ 75  internal.SM2Point.Set
    24 ↦ 76  internal.SM2Point.Negate
    25 ↦ 20  fiat.SM2Element.Opp
    26 ↦ 21  fiat.sm2Opp
    27 ↦ 4  internal.extractLowerBits
  Globals: fiat.sm2MinusOneEncoding 0 ↦ 1, internal.sm2B 1 ↦ 6, internal.sm2Precomputed_6_3_14 2 ↦ 7,
  internal.sm2Precomputed_6_3_14_Remainder 3 ↦ 8.  Other numbers go outside the target (function 108, global 20). -/

def σfp : Nat → Nat
  | 0 => 101 | 1 => 102 | 2 => 103 | 3 => 100 | 4 => 79 | 5 => 24 | 6 => 25 | 7 => 11 | 8 => 22 | 9 => 23
  | 10 => 16 | 11 => 17 | 12 => 18 | 13 => 19 | 14 => 15 | 15 => 73 | 16 => 13 | 17 => 14 | 18 => 78 | 19 => 3
  | 20 => 2 | 21 => 74 | 22 => 40 | 23 => 75 | 24 => 76 | 25 => 20 | 26 => 21 | 27 => 4 | _ => 108

def γfp : Nat → Nat
  | 0 => 1 | 1 => 6 | 2 => 7 | 3 => 8 | _ => 20

def Dfp : List Nat :=
  [0, 1, 2, 3, 4, 5, 6, 7, 8, 9, 10, 11, 12, 13, 14, 15, 16, 17, 18, 19, 20, 21, 22, 23, 24, 25, 26, 27]

set_option maxRecDepth 100000 in
/-- `Dfp` is the call closure of function 3 (evaluated) -/
theorem Dfp_closure : ∀ h ∈ reach Gen.CTIRProgFn.prog 3, h ∈ Dfp := by decide

/-- on the point layer `σfp` undoes `σpt`, and `γfp` undoes `γpt` on the globals of `CTIRProgFn` -/
theorem σfp_σpt : ∀ g ∈ Dpt, σfp (σpt g) = g := by decide
theorem γfp_γpt : ∀ k ∈ [1, 6, 7, 8], γfp (γpt k) = k := by decide

set_option maxRecDepth 100000 in
/-- utils.DecomposeNAF: function 101 of `CTIRProgProto.prog` is the renaming of function 0 of `CTIRProgFn.prog` -/
theorem renfp_0 : Gen.CTIRProgProto.prog[σfp 0]? = some (renF σfp γfp Gen.CTIRProgFn.fn_0) := rfl
set_option maxRecDepth 100000 in
theorem closedfp_0 : closedS Dfp Gen.CTIRProgFn.fn_0.body = true := rfl
set_option maxRecDepth 100000 in
/-- utils.getBit: function 102 of `CTIRProgProto.prog` is the renaming of function 1 of `CTIRProgFn.prog` -/
theorem renfp_1 : Gen.CTIRProgProto.prog[σfp 1]? = some (renF σfp γfp Gen.CTIRProgFn.fn_1) := rfl
set_option maxRecDepth 100000 in
theorem closedfp_1 : closedS Dfp Gen.CTIRProgFn.fn_1.body = true := rfl
set_option maxRecDepth 100000 in
/-- utils.getBits: function 103 of `CTIRProgProto.prog` is the renaming of function 2 of `CTIRProgFn.prog` -/
theorem renfp_2 : Gen.CTIRProgProto.prog[σfp 2]? = some (renF σfp γfp Gen.CTIRProgFn.fn_2) := rfl
set_option maxRecDepth 100000 in
theorem closedfp_2 : closedS Dfp Gen.CTIRProgFn.fn_2.body = true := rfl
set_option maxRecDepth 100000 in
/-- internal.ScalarMixedMult_Unsafe: function 100 of `CTIRProgProto.prog` is the renaming of function 3 of `CTIRProgFn.prog` -/
theorem renfp_3 : Gen.CTIRProgProto.prog[σfp 3]? = some (renF σfp γfp Gen.CTIRProgFn.fn_3) := rfl
set_option maxRecDepth 100000 in
theorem closedfp_3 : closedS Dfp Gen.CTIRProgFn.fn_3.body = true := rfl
set_option maxRecDepth 100000 in
/-- internal.SM2Point.Double: function 79 of `CTIRProgProto.prog` is the renaming of function 4 of `CTIRProgFn.prog` -/
theorem renfp_4 : Gen.CTIRProgProto.prog[σfp 4]? = some (renF σfp γfp Gen.CTIRProgFn.fn_4) := rfl
set_option maxRecDepth 100000 in
theorem closedfp_4 : closedS Dfp Gen.CTIRProgFn.fn_4.body = true := rfl
set_option maxRecDepth 100000 in
/-- fiat.SM2Element.Square: function 24 of `CTIRProgProto.prog` is the renaming of function 5 of `CTIRProgFn.prog` -/
theorem renfp_5 : Gen.CTIRProgProto.prog[σfp 5]? = some (renF σfp γfp Gen.CTIRProgFn.fn_5) := rfl
set_option maxRecDepth 100000 in
theorem closedfp_5 : closedS Dfp Gen.CTIRProgFn.fn_5.body = true := rfl
set_option maxRecDepth 100000 in
/-- fiat.sm2Square: function 25 of `CTIRProgProto.prog` is the renaming of function 6 of `CTIRProgFn.prog` -/
theorem renfp_6 : Gen.CTIRProgProto.prog[σfp 6]? = some (renF σfp γfp Gen.CTIRProgFn.fn_6) := rfl
set_option maxRecDepth 100000 in
theorem closedfp_6 : closedS Dfp Gen.CTIRProgFn.fn_6.body = true := rfl
set_option maxRecDepth 100000 in
/-- fiat.sm2CmovznzU64: function 11 of `CTIRProgProto.prog` is the renaming of function 7 of `CTIRProgFn.prog` -/
theorem renfp_7 : Gen.CTIRProgProto.prog[σfp 7]? = some (renF σfp γfp Gen.CTIRProgFn.fn_7) := rfl
set_option maxRecDepth 100000 in
theorem closedfp_7 : closedS Dfp Gen.CTIRProgFn.fn_7.body = true := rfl
set_option maxRecDepth 100000 in
/-- fiat.SM2Element.Mul: function 22 of `CTIRProgProto.prog` is the renaming of function 8 of `CTIRProgFn.prog` -/
theorem renfp_8 : Gen.CTIRProgProto.prog[σfp 8]? = some (renF σfp γfp Gen.CTIRProgFn.fn_8) := rfl
set_option maxRecDepth 100000 in
theorem closedfp_8 : closedS Dfp Gen.CTIRProgFn.fn_8.body = true := rfl
set_option maxRecDepth 100000 in
/-- fiat.sm2Mul: function 23 of `CTIRProgProto.prog` is the renaming of function 9 of `CTIRProgFn.prog` -/
theorem renfp_9 : Gen.CTIRProgProto.prog[σfp 9]? = some (renF σfp γfp Gen.CTIRProgFn.fn_9) := rfl
set_option maxRecDepth 100000 in
theorem closedfp_9 : closedS Dfp Gen.CTIRProgFn.fn_9.body = true := rfl
set_option maxRecDepth 100000 in
/-- fiat.SM2Element.Add: function 16 of `CTIRProgProto.prog` is the renaming of function 10 of `CTIRProgFn.prog` -/
theorem renfp_10 : Gen.CTIRProgProto.prog[σfp 10]? = some (renF σfp γfp Gen.CTIRProgFn.fn_10) := rfl
set_option maxRecDepth 100000 in
theorem closedfp_10 : closedS Dfp Gen.CTIRProgFn.fn_10.body = true := rfl
set_option maxRecDepth 100000 in
/-- fiat.sm2Add: function 17 of `CTIRProgProto.prog` is the renaming of function 11 of `CTIRProgFn.prog` -/
theorem renfp_11 : Gen.CTIRProgProto.prog[σfp 11]? = some (renF σfp γfp Gen.CTIRProgFn.fn_11) := rfl
set_option maxRecDepth 100000 in
theorem closedfp_11 : closedS Dfp Gen.CTIRProgFn.fn_11.body = true := rfl
set_option maxRecDepth 100000 in
/-- fiat.SM2Element.Sub: function 18 of `CTIRProgProto.prog` is the renaming of function 12 of `CTIRProgFn.prog` -/
theorem renfp_12 : Gen.CTIRProgProto.prog[σfp 12]? = some (renF σfp γfp Gen.CTIRProgFn.fn_12) := rfl
set_option maxRecDepth 100000 in
theorem closedfp_12 : closedS Dfp Gen.CTIRProgFn.fn_12.body = true := rfl
set_option maxRecDepth 100000 in
/-- fiat.sm2Sub: function 19 of `CTIRProgProto.prog` is the renaming of function 13 of `CTIRProgFn.prog` -/
theorem renfp_13 : Gen.CTIRProgProto.prog[σfp 13]? = some (renF σfp γfp Gen.CTIRProgFn.fn_13) := rfl
set_option maxRecDepth 100000 in
theorem closedfp_13 : closedS Dfp Gen.CTIRProgFn.fn_13.body = true := rfl
set_option maxRecDepth 100000 in
/-- fiat.SM2Element.Set: function 15 of `CTIRProgProto.prog` is the renaming of function 14 of `CTIRProgFn.prog` -/
theorem renfp_14 : Gen.CTIRProgProto.prog[σfp 14]? = some (renF σfp γfp Gen.CTIRProgFn.fn_14) := rfl
set_option maxRecDepth 100000 in
theorem closedfp_14 : closedS Dfp Gen.CTIRProgFn.fn_14.body = true := rfl
set_option maxRecDepth 100000 in
/-- internal.NewSM2Point: function 73 of `CTIRProgProto.prog` is the renaming of function 15 of `CTIRProgFn.prog` -/
theorem renfp_15 : Gen.CTIRProgProto.prog[σfp 15]? = some (renF σfp γfp Gen.CTIRProgFn.fn_15) := rfl
set_option maxRecDepth 100000 in
theorem closedfp_15 : closedS Dfp Gen.CTIRProgFn.fn_15.body = true := rfl
set_option maxRecDepth 100000 in
/-- fiat.SM2Element.One: function 13 of `CTIRProgProto.prog` is the renaming of function 16 of `CTIRProgFn.prog` -/
theorem renfp_16 : Gen.CTIRProgProto.prog[σfp 16]? = some (renF σfp γfp Gen.CTIRProgFn.fn_16) := rfl
set_option maxRecDepth 100000 in
theorem closedfp_16 : closedS Dfp Gen.CTIRProgFn.fn_16.body = true := rfl
set_option maxRecDepth 100000 in
/-- fiat.sm2SetOne: function 14 of `CTIRProgProto.prog` is the renaming of function 17 of `CTIRProgFn.prog` -/
theorem renfp_17 : Gen.CTIRProgProto.prog[σfp 17]? = some (renF σfp γfp Gen.CTIRProgFn.fn_17) := rfl
set_option maxRecDepth 100000 in
theorem closedfp_17 : closedS Dfp Gen.CTIRProgFn.fn_17.body = true := rfl
set_option maxRecDepth 100000 in
/-- internal.SM2Point.Add: function 78 of `CTIRProgProto.prog` is the renaming of function 18 of `CTIRProgFn.prog` -/
theorem renfp_18 : Gen.CTIRProgProto.prog[σfp 18]? = some (renF σfp γfp Gen.CTIRProgFn.fn_18) := rfl
set_option maxRecDepth 100000 in
theorem closedfp_18 : closedS Dfp Gen.CTIRProgFn.fn_18.body = true := rfl
set_option maxRecDepth 100000 in
/-- internal.extractHigherBits: function 3 of `CTIRProgProto.prog` is the renaming of function 19 of `CTIRProgFn.prog` -/
theorem renfp_19 : Gen.CTIRProgProto.prog[σfp 19]? = some (renF σfp γfp Gen.CTIRProgFn.fn_19) := rfl
set_option maxRecDepth 100000 in
theorem closedfp_19 : closedS Dfp Gen.CTIRProgFn.fn_19.body = true := rfl
set_option maxRecDepth 100000 in
/-- internal.extractBit: function 2 of `CTIRProgProto.prog` is the renaming of function 20 of `CTIRProgFn.prog` -/
theorem renfp_20 : Gen.CTIRProgProto.prog[σfp 20]? = some (renF σfp γfp Gen.CTIRProgFn.fn_20) := rfl
set_option maxRecDepth 100000 in
theorem closedfp_20 : closedS Dfp Gen.CTIRProgFn.fn_20.body = true := rfl
set_option maxRecDepth 100000 in
/-- internal.NewFromXY: function 74 of `CTIRProgProto.prog` is the renaming of function 21 of `CTIRProgFn.prog` -/
theorem renfp_21 : Gen.CTIRProgProto.prog[σfp 21]? = some (renF σfp γfp Gen.CTIRProgFn.fn_21) := rfl
set_option maxRecDepth 100000 in
theorem closedfp_21 : closedS Dfp Gen.CTIRProgFn.fn_21.body = true := rfl
set_option maxRecDepth 100000 in
/-- fiat.SM2Element.SetRaw: function 40 of `CTIRProgProto.prog` is the renaming of function 22 of `CTIRProgFn.prog` -/
theorem renfp_22 : Gen.CTIRProgProto.prog[σfp 22]? = some (renF σfp γfp Gen.CTIRProgFn.fn_22) := rfl
set_option maxRecDepth 100000 in
theorem closedfp_22 : closedS Dfp Gen.CTIRProgFn.fn_22.body = true := rfl
set_option maxRecDepth 100000 in
/-- internal.SM2Point.Set: function 75 of `CTIRProgProto.prog` is the renaming of function 23 of `CTIRProgFn.prog` -/
theorem renfp_23 : Gen.CTIRProgProto.prog[σfp 23]? = some (renF σfp γfp Gen.CTIRProgFn.fn_23) := rfl
set_option maxRecDepth 100000 in
theorem closedfp_23 : closedS Dfp Gen.CTIRProgFn.fn_23.body = true := rfl
set_option maxRecDepth 100000 in
/-- internal.SM2Point.Negate: function 76 of `CTIRProgProto.prog` is the renaming of function 24 of `CTIRProgFn.prog` -/
theorem renfp_24 : Gen.CTIRProgProto.prog[σfp 24]? = some (renF σfp γfp Gen.CTIRProgFn.fn_24) := rfl
set_option maxRecDepth 100000 in
theorem closedfp_24 : closedS Dfp Gen.CTIRProgFn.fn_24.body = true := rfl
set_option maxRecDepth 100000 in
/-- fiat.SM2Element.Opp: function 20 of `CTIRProgProto.prog` is the renaming of function 25 of `CTIRProgFn.prog` -/
theorem renfp_25 : Gen.CTIRProgProto.prog[σfp 25]? = some (renF σfp γfp Gen.CTIRProgFn.fn_25) := rfl
set_option maxRecDepth 100000 in
theorem closedfp_25 : closedS Dfp Gen.CTIRProgFn.fn_25.body = true := rfl
set_option maxRecDepth 100000 in
/-- fiat.sm2Opp: function 21 of `CTIRProgProto.prog` is the renaming of function 26 of `CTIRProgFn.prog` -/
theorem renfp_26 : Gen.CTIRProgProto.prog[σfp 26]? = some (renF σfp γfp Gen.CTIRProgFn.fn_26) := rfl
set_option maxRecDepth 100000 in
theorem closedfp_26 : closedS Dfp Gen.CTIRProgFn.fn_26.body = true := rfl
set_option maxRecDepth 100000 in
/-- internal.extractLowerBits: function 4 of `CTIRProgProto.prog` is the renaming of function 27 of `CTIRProgFn.prog` -/
theorem renfp_27 : Gen.CTIRProgProto.prog[σfp 27]? = some (renF σfp γfp Gen.CTIRProgFn.fn_27) := rfl
set_option maxRecDepth 100000 in
theorem closedfp_27 : closedS Dfp Gen.CTIRProgFn.fn_27.body = true := rfl

/-- **The renaming hypothesis holds for the closure of ScalarMixedMult_Unsafe.** -/
theorem renames_fp : Renames Gen.CTIRProgFn.prog Gen.CTIRProgProto.prog σfp γfp Dfp := by
  intro g hg
  simp only [Dfp, List.mem_cons, List.not_mem_nil, or_false] at hg
  rcases hg with rfl | rfl | rfl | rfl | rfl | rfl | rfl | rfl | rfl | rfl | rfl | rfl | rfl | rfl | rfl | rfl | rfl | rfl | rfl | rfl | rfl | rfl | rfl | rfl | rfl | rfl | rfl | rfl
  · exact ⟨Gen.CTIRProgFn.fn_0, rfl, renfp_0, closedfp_0⟩
  · exact ⟨Gen.CTIRProgFn.fn_1, rfl, renfp_1, closedfp_1⟩
  · exact ⟨Gen.CTIRProgFn.fn_2, rfl, renfp_2, closedfp_2⟩
  · exact ⟨Gen.CTIRProgFn.fn_3, rfl, renfp_3, closedfp_3⟩
  · exact ⟨Gen.CTIRProgFn.fn_4, rfl, renfp_4, closedfp_4⟩
  · exact ⟨Gen.CTIRProgFn.fn_5, rfl, renfp_5, closedfp_5⟩
  · exact ⟨Gen.CTIRProgFn.fn_6, rfl, renfp_6, closedfp_6⟩
  · exact ⟨Gen.CTIRProgFn.fn_7, rfl, renfp_7, closedfp_7⟩
  · exact ⟨Gen.CTIRProgFn.fn_8, rfl, renfp_8, closedfp_8⟩
  · exact ⟨Gen.CTIRProgFn.fn_9, rfl, renfp_9, closedfp_9⟩
  · exact ⟨Gen.CTIRProgFn.fn_10, rfl, renfp_10, closedfp_10⟩
  · exact ⟨Gen.CTIRProgFn.fn_11, rfl, renfp_11, closedfp_11⟩
  · exact ⟨Gen.CTIRProgFn.fn_12, rfl, renfp_12, closedfp_12⟩
  · exact ⟨Gen.CTIRProgFn.fn_13, rfl, renfp_13, closedfp_13⟩
  · exact ⟨Gen.CTIRProgFn.fn_14, rfl, renfp_14, closedfp_14⟩
  · exact ⟨Gen.CTIRProgFn.fn_15, rfl, renfp_15, closedfp_15⟩
  · exact ⟨Gen.CTIRProgFn.fn_16, rfl, renfp_16, closedfp_16⟩
  · exact ⟨Gen.CTIRProgFn.fn_17, rfl, renfp_17, closedfp_17⟩
  · exact ⟨Gen.CTIRProgFn.fn_18, rfl, renfp_18, closedfp_18⟩
  · exact ⟨Gen.CTIRProgFn.fn_19, rfl, renfp_19, closedfp_19⟩
  · exact ⟨Gen.CTIRProgFn.fn_20, rfl, renfp_20, closedfp_20⟩
  · exact ⟨Gen.CTIRProgFn.fn_21, rfl, renfp_21, closedfp_21⟩
  · exact ⟨Gen.CTIRProgFn.fn_22, rfl, renfp_22, closedfp_22⟩
  · exact ⟨Gen.CTIRProgFn.fn_23, rfl, renfp_23, closedfp_23⟩
  · exact ⟨Gen.CTIRProgFn.fn_24, rfl, renfp_24, closedfp_24⟩
  · exact ⟨Gen.CTIRProgFn.fn_25, rfl, renfp_25, closedfp_25⟩
  · exact ⟨Gen.CTIRProgFn.fn_26, rfl, renfp_26, closedfp_26⟩
  · exact ⟨Gen.CTIRProgFn.fn_27, rfl, renfp_27, closedfp_27⟩

/-! ### internal.ScalarMixedMult_Unsafe = function 100 of `CTIRProgProto.prog` -/

section Mixed
open SMGo.Proofs.CTIRRefineUtils (bytesV)
open SMGo.Proofs.CTIRRefineField (limbsV elemV Out4)
open SMGo.Proofs.CTIRRefinePointA (ptV ptRawV FiatPrims prog_hasPointFns fuelW fuelPtAdd fuelPtDouble)
open SMGo.Proofs.CTIRRefineMixed (XYUsed Callees fuelMixed)
open SMGo.Proofs.CTIRRefineComb (Table encT CalleeFails)

variable {G : Nat → Val} {X : Oracle}

/-- the fuel of the theorems below -/
def fuelMixedPt (Fmul Fsq Fadd Fsub Fopp Fone : Nat) : Nat :=
  fuelMixed (fuelW Fone + 4) (fuelPtDouble Fmul Fadd Fsub Fsq) (fuelPtAdd Fmul Fadd Fsub Fsq) 26
    (fuelW Fopp + 22) (fuelW Fone + 20)

/-- the callee bundle of CTIRRefineMixed for the point layer, in `CTIRProgFn.prog` with globals `G'`, from the
    theorems of CTIRRefinePointA about `CTIRProg.prog` (transfer `renames_pt`) -/
theorem callees_pointOps {G' : Nat → Val} {α : Type} {C : Model.Point.Ctx α} {enc : α → List Nat}
    {Fmul Fsq Fadd Fsub Fopp Fone : Nat}
    (hp : FiatPrims Gen.CTIRProg.prog (fun i => G' (γpt i)) X C.F enc Fmul Fsq Fadd Fsub Fopp Fone)
    (hz : enc C.F.zero = [0, 0, 0, 0])
    (hB : G' 1 = elemV (enc C.b))
    (hap : C.addProg = Gen.PointSLP.add) (hao : C.addOut = Gen.PointSLP.add_out)
    (hdp : C.dblProg = Gen.PointSLP.double) (hdo : C.dblOut = Gen.PointSLP.double_out)
    (first : List Table) (second : Table)
    (hT : ∀ x y, XYUsed first second x y →
      x.length = 4 ∧ y.length = 4 ∧ enc (C.F.ofRaw x) = x ∧ enc (C.F.ofRaw y) = y) :
    Callees Gen.CTIRProgFn.prog G' X (Model.Curve.pointOps C) (ptV enc) first second (fuelW Fone + 4)
      (fuelPtDouble Fmul Fadd Fsub Fsq) (fuelPtAdd Fmul Fadd Fsub Fsq) 26 (fuelW Fopp + 22) (fuelW Fone + 20) := by
  have hw := prog_hasPointFns
  exact mixed_callees_of_prog (G' := G') (X := X) (Ops := Model.Curve.pointOps C) (encP := ptV enc)
    (CTIRRefinePointA.NewSM2Point_computes hw hp hz)
    (fun q a => CTIRRefinePointA.PointDouble_computes hw hp hB hdp hdo (enc q.x) (enc q.y) (enc q.z) a)
    (fun q a b => CTIRRefinePointA.PointAdd_computes hw hp hB hap hao (enc q.x) (enc q.y) (enc q.z) a b)
    (fun q a => CTIRRefinePointA.PointSet_computes hw (enc q.x) (enc q.y) (enc q.z) (enc a.x) (enc a.y) (enc a.z))
    (fun q a => CTIRRefinePointA.Negate_computes hw hp (enc q.x) (enc q.y) (enc q.z) (hp.enc_out4 q.y) a)
    (fun x y h => CTIRRefinePointA.NewFromXY_computes hw hp x y (hT x y h).1 (hT x y h).2.1 (hT x y h).2.2.1
      (hT x y h).2.2.2)

/-- **internal.ScalarMixedMult_Unsafe in `CTIRProgProto.prog` (function 100), `Computes` form.**
    For an arbitrary `Model.Point.Ctx α` with limb encoding `enc`, any globals `G` (numbering of `CTIRProgProto`),
    all byte strings `gScalar`, `scalar`, every point `Pt`, tables `first`, `second` of any shape:
    the model returns `r` ⇒ function 100 computes `[ptV enc r, 0]` with fuel `fuelMixedPt …`; the model panics ⇒
    function 100 fails (`CalleeFails`: explicit panic or stuck with every fuel); the model never returns an error.

    Hypotheses: `hp` the six Fiat primitives of `CTIRProg.prog` (globals `G ∘ γfp ∘ γpt`; they read no global);
    `hz` the Go zero value encodes `F.zero`; `hB` global 6 (`internal.sm2B`) encodes the curve coefficient;
    `hap hao hdp hdo` the model's straight-line programs are the regenerated ones; `hG7 hG8` globals 7 / 8 are the
    encoded 6-3-14 tables; `hT` the table entries passed to NewFromXY are four limbs reproduced by the encoding. -/
theorem mixedMult_proto_computes {α : Type} {C : Model.Point.Ctx α} {enc : α → List Nat}
    {Fmul Fsq Fadd Fsub Fopp Fone : Nat}
    (hp : FiatPrims Gen.CTIRProg.prog (fun i => G (γfp (γpt i))) X C.F enc Fmul Fsq Fadd Fsub Fopp Fone)
    (hz : enc C.F.zero = [0, 0, 0, 0])
    (hB : G 6 = elemV (enc C.b))
    (hap : C.addProg = Gen.PointSLP.add) (hao : C.addOut = Gen.PointSLP.add_out)
    (hdp : C.dblProg = Gen.PointSLP.double) (hdo : C.dblOut = Gen.PointSLP.double_out)
    (gScalar : Bytes) (Pt : Model.Point.Pt α) (scalar : Bytes) (first : List Table) (second : Table)
    (hG7 : G 7 = .arr (first.map encT)) (hG8 : G 8 = encT second)
    (hT : ∀ x y, XYUsed first second x y →
      x.length = 4 ∧ y.length = 4 ∧ enc (C.F.ofRaw x) = x ∧ enc (C.F.ofRaw y) = y) :
    match Model.Curve.scalarMixedMult (Model.Curve.pointOps C) gScalar Pt scalar first second with
    | .ok r => Computes Gen.CTIRProgProto.prog G X 100 (fuelMixedPt Fmul Fsq Fadd Fsub Fopp Fone)
        [bytesV gScalar, ptV enc Pt, bytesV scalar] [ptV enc r, .int 0]
    | .panic => CalleeFails Gen.CTIRProgProto.prog G X 100 [bytesV gScalar, ptV enc Pt, bytesV scalar]
    | .err => False := by
  have Cs := callees_pointOps (G' := fun i => G (γfp i)) (X := X) hp hz hB hap hao hdp hdo first second hT
  have hb := CTIRRefineMixed.mixed_body Cs hG7 hG8 gScalar Pt scalar
  cases h : Model.Curve.scalarMixedMult (Model.Curve.pointOps C) gScalar Pt scalar first second with
  | err => exact absurd h (CTIRRefineMixed.scalarMixedMult_ne_err _ _ _ _ _ _)
  | ok r =>
    rw [h] at hb
    obtain ⟨env', hb⟩ := hb
    have c : Computes Gen.CTIRProgFn.prog (fun i => G (γfp i)) X 3 (fuelMixedPt Fmul Fsq Fadd Fsub Fopp Fone)
        [bytesV gScalar, ptV enc Pt, bytesV scalar] [ptV enc r, .int 0] :=
      ⟨Gen.CTIRProgFn.fn_3, env', CTIRRefineMixed.fn3_lookup, rfl, rfl, hb⟩
    exact Computes.ren renames_fp c (by decide)
  | panic =>
    rw [h] at hb
    have c : CalleeFails Gen.CTIRProgFn.prog (fun i => G (γfp i)) X 3 [bytesV gScalar, ptV enc Pt, bytesV scalar] := by
      rcases hb with ⟨F, env', hb⟩ | hb
      · exact Or.inl ⟨Gen.CTIRProgFn.fn_3, F, env', CTIRRefineMixed.fn3_lookup, rfl, rfl, hb⟩
      · exact Or.inr ⟨Gen.CTIRProgFn.fn_3, CTIRRefineMixed.fn3_lookup, hb⟩
    exact CalleeFails.ren renames_fp c (by decide)

/-- **the same at run level** (the conclusion of `ir_scalarMixedMult_eq_model_closed`, about function 100 of
    `CTIRProgProto.prog`) -/
theorem ir_scalarMixedMult_eq_model_proto {α : Type} {C : Model.Point.Ctx α} {enc : α → List Nat}
    {Fmul Fsq Fadd Fsub Fopp Fone : Nat}
    (hp : FiatPrims Gen.CTIRProg.prog (fun i => G (γfp (γpt i))) X C.F enc Fmul Fsq Fadd Fsub Fopp Fone)
    (hz : enc C.F.zero = [0, 0, 0, 0])
    (hB : G 6 = elemV (enc C.b))
    (hap : C.addProg = Gen.PointSLP.add) (hao : C.addOut = Gen.PointSLP.add_out)
    (hdp : C.dblProg = Gen.PointSLP.double) (hdo : C.dblOut = Gen.PointSLP.double_out)
    (gScalar : Bytes) (Pt : Model.Point.Pt α) (scalar : Bytes) (first : List Table) (second : Table)
    (hG7 : G 7 = .arr (first.map encT)) (hG8 : G 8 = encT second)
    (hT : ∀ x y, XYUsed first second x y →
      x.length = 4 ∧ y.length = 4 ∧ enc (C.F.ofRaw x) = x ∧ enc (C.F.ofRaw y) = y) :
    match Model.Curve.scalarMixedMult (Model.Curve.pointOps C) gScalar Pt scalar first second with
    | .ok r => ∀ f, fuelMixedPt Fmul Fsq Fadd Fsub Fopp Fone ≤ f →
        runV Gen.CTIRProgProto.prog G X f 100 [bytesV gScalar, ptV enc Pt, bytesV scalar] = .ret [ptV enc r, .int 0]
    | .panic =>
        (∃ F, ∀ f, F ≤ f →
          runV Gen.CTIRProgProto.prog G X f 100 [bytesV gScalar, ptV enc Pt, bytesV scalar] = .panic) ∨
        (∀ f, runV Gen.CTIRProgProto.prog G X f 100 [bytesV gScalar, ptV enc Pt, bytesV scalar] = .stuck)
    | .err => False := by
  have key := mixedMult_proto_computes hp hz hB hap hao hdp hdo gScalar Pt scalar first second hG7 hG8 hT
  cases h : Model.Curve.scalarMixedMult (Model.Curve.pointOps C) gScalar Pt scalar first second with
  | ok r => rw [h] at key; exact key.runV
  | err => rw [h] at key; exact key
  | panic => rw [h] at key; exact runV_of_CalleeFails key

/-- the `Computes` form with the Fiat primitives given for every `G` (as CTIRRefineFiat proves them) and the side
    condition on the table entries in the `EncOk` form of CTIRRefinePointB (four limbs below 2^64) -/
theorem mixedMult_proto_computes_allG {α : Type} {C : Model.Point.Ctx α} {enc : α → List Nat}
    {Fmul Fsq Fadd Fsub Fopp Fone : Nat}
    (hp : ∀ G, FiatPrims Gen.CTIRProg.prog G X C.F enc Fmul Fsq Fadd Fsub Fopp Fone)
    (he : CTIRRefinePointB.EncOk C.F enc)
    (hz : enc C.F.zero = [0, 0, 0, 0])
    (hB : G 6 = elemV (enc C.b))
    (hap : C.addProg = Gen.PointSLP.add) (hao : C.addOut = Gen.PointSLP.add_out)
    (hdp : C.dblProg = Gen.PointSLP.double) (hdo : C.dblOut = Gen.PointSLP.double_out)
    (gScalar : Bytes) (Pt : Model.Point.Pt α) (scalar : Bytes) (first : List Table) (second : Table)
    (hG7 : G 7 = .arr (first.map encT)) (hG8 : G 8 = encT second)
    (hT : ∀ x y, XYUsed first second x y → Out4 x ∧ Out4 y) :
    match Model.Curve.scalarMixedMult (Model.Curve.pointOps C) gScalar Pt scalar first second with
    | .ok r => Computes Gen.CTIRProgProto.prog G X 100 (fuelMixedPt Fmul Fsq Fadd Fsub Fopp Fone)
        [bytesV gScalar, ptV enc Pt, bytesV scalar] [ptV enc r, .int 0]
    | .panic => CalleeFails Gen.CTIRProgProto.prog G X 100 [bytesV gScalar, ptV enc Pt, bytesV scalar]
    | .err => False :=
  mixedMult_proto_computes (hp _) hz hB hap hao hdp hdo gScalar Pt scalar first second hG7 hG8
    (fun x y h => ⟨(hT x y h).1.length, (hT x y h).2.length, he.ofRaw x (hT x y h).1, he.ofRaw y (hT x y h).2⟩)

/-- run level, `EncOk` form of the side condition -/
theorem ir_scalarMixedMult_eq_model_proto_encOk {α : Type} {C : Model.Point.Ctx α} {enc : α → List Nat}
    {Fmul Fsq Fadd Fsub Fopp Fone : Nat}
    (hp : FiatPrims Gen.CTIRProg.prog (fun i => G (γfp (γpt i))) X C.F enc Fmul Fsq Fadd Fsub Fopp Fone)
    (he : CTIRRefinePointB.EncOk C.F enc)
    (hz : enc C.F.zero = [0, 0, 0, 0])
    (hB : G 6 = elemV (enc C.b))
    (hap : C.addProg = Gen.PointSLP.add) (hao : C.addOut = Gen.PointSLP.add_out)
    (hdp : C.dblProg = Gen.PointSLP.double) (hdo : C.dblOut = Gen.PointSLP.double_out)
    (gScalar : Bytes) (Pt : Model.Point.Pt α) (scalar : Bytes) (first : List Table) (second : Table)
    (hG7 : G 7 = .arr (first.map encT)) (hG8 : G 8 = encT second)
    (hT : ∀ x y, XYUsed first second x y → Out4 x ∧ Out4 y) :
    match Model.Curve.scalarMixedMult (Model.Curve.pointOps C) gScalar Pt scalar first second with
    | .ok r => ∀ f, fuelMixedPt Fmul Fsq Fadd Fsub Fopp Fone ≤ f →
        runV Gen.CTIRProgProto.prog G X f 100 [bytesV gScalar, ptV enc Pt, bytesV scalar] = .ret [ptV enc r, .int 0]
    | .panic =>
        (∃ F, ∀ f, F ≤ f →
          runV Gen.CTIRProgProto.prog G X f 100 [bytesV gScalar, ptV enc Pt, bytesV scalar] = .panic) ∨
        (∀ f, runV Gen.CTIRProgProto.prog G X f 100 [bytesV gScalar, ptV enc Pt, bytesV scalar] = .stuck)
    | .err => False :=
  ir_scalarMixedMult_eq_model_proto hp hz hB hap hao hdp hdo gScalar Pt scalar first second hG7 hG8
    (fun x y h => ⟨(hT x y h).1.length, (hT x y h).2.length, he.ofRaw x (hT x y h).1, he.ofRaw y (hT x y h).2⟩)

end Mixed

/-! ### At the generated globals of `CTIRProgProto` -/

section Globals
open SMGo.Proofs.CTIRRefineUtils (bytesV)
open SMGo.Proofs.CTIRRefineField (limbsV elemV Out4)
open SMGo.Proofs.CTIRRefinePointA (ptV FiatPrims)
open SMGo.Proofs.CTIRRefineMixed (XYUsed)
open SMGo.Proofs.CTIRRefineComb (Table encT CalleeFails)

theorem globals_proto_first :
    Gen.CTIRProgProto.globals 7 = .arr (Gen.SM2Tables.sm2Precomputed_6_3_14.map encT) := rfl
theorem globals_proto_second :
    Gen.CTIRProgProto.globals 8 = encT Gen.SM2Tables.sm2Precomputed_6_3_14_Remainder := rfl

/-- `mixedMult_proto_computes` at `CTIRProgProto.globals`: the tables are the generated constants (no hypothesis on
    globals 7 / 8 is left; `hB` is a statement about the generated constant `globals 6`) -/
theorem mixedMult_proto_computes_globals {X : Oracle} {α : Type} {C : Model.Point.Ctx α} {enc : α → List Nat}
    {Fmul Fsq Fadd Fsub Fopp Fone : Nat}
    (hp : FiatPrims Gen.CTIRProg.prog (fun i => Gen.CTIRProgProto.globals (γfp (γpt i))) X C.F enc
      Fmul Fsq Fadd Fsub Fopp Fone)
    (hz : enc C.F.zero = [0, 0, 0, 0])
    (hB : Gen.CTIRProgProto.globals 6 = elemV (enc C.b))
    (hap : C.addProg = Gen.PointSLP.add) (hao : C.addOut = Gen.PointSLP.add_out)
    (hdp : C.dblProg = Gen.PointSLP.double) (hdo : C.dblOut = Gen.PointSLP.double_out)
    (gScalar : Bytes) (Pt : Model.Point.Pt α) (scalar : Bytes)
    (hT : ∀ x y, XYUsed Gen.SM2Tables.sm2Precomputed_6_3_14 Gen.SM2Tables.sm2Precomputed_6_3_14_Remainder x y →
      x.length = 4 ∧ y.length = 4 ∧ enc (C.F.ofRaw x) = x ∧ enc (C.F.ofRaw y) = y) :
    match Model.Curve.scalarMixedMult (Model.Curve.pointOps C) gScalar Pt scalar
        Gen.SM2Tables.sm2Precomputed_6_3_14 Gen.SM2Tables.sm2Precomputed_6_3_14_Remainder with
    | .ok r => Computes Gen.CTIRProgProto.prog Gen.CTIRProgProto.globals X 100 (fuelMixedPt Fmul Fsq Fadd Fsub Fopp Fone)
        [bytesV gScalar, ptV enc Pt, bytesV scalar] [ptV enc r, .int 0]
    | .panic => CalleeFails Gen.CTIRProgProto.prog Gen.CTIRProgProto.globals X 100
        [bytesV gScalar, ptV enc Pt, bytesV scalar]
    | .err => False :=
  mixedMult_proto_computes hp hz hB hap hao hdp hdo gScalar Pt scalar _ _ globals_proto_first globals_proto_second hT

/-- `ir_scalarMixedMult_eq_model_proto` at `CTIRProgProto.globals` -/
theorem ir_scalarMixedMult_eq_model_proto_globals {X : Oracle} {α : Type} {C : Model.Point.Ctx α}
    {enc : α → List Nat} {Fmul Fsq Fadd Fsub Fopp Fone : Nat}
    (hp : FiatPrims Gen.CTIRProg.prog (fun i => Gen.CTIRProgProto.globals (γfp (γpt i))) X C.F enc
      Fmul Fsq Fadd Fsub Fopp Fone)
    (hz : enc C.F.zero = [0, 0, 0, 0])
    (hB : Gen.CTIRProgProto.globals 6 = elemV (enc C.b))
    (hap : C.addProg = Gen.PointSLP.add) (hao : C.addOut = Gen.PointSLP.add_out)
    (hdp : C.dblProg = Gen.PointSLP.double) (hdo : C.dblOut = Gen.PointSLP.double_out)
    (gScalar : Bytes) (Pt : Model.Point.Pt α) (scalar : Bytes)
    (hT : ∀ x y, XYUsed Gen.SM2Tables.sm2Precomputed_6_3_14 Gen.SM2Tables.sm2Precomputed_6_3_14_Remainder x y →
      x.length = 4 ∧ y.length = 4 ∧ enc (C.F.ofRaw x) = x ∧ enc (C.F.ofRaw y) = y) :
    match Model.Curve.scalarMixedMult (Model.Curve.pointOps C) gScalar Pt scalar
        Gen.SM2Tables.sm2Precomputed_6_3_14 Gen.SM2Tables.sm2Precomputed_6_3_14_Remainder with
    | .ok r => ∀ f, fuelMixedPt Fmul Fsq Fadd Fsub Fopp Fone ≤ f →
        runV Gen.CTIRProgProto.prog Gen.CTIRProgProto.globals X f 100 [bytesV gScalar, ptV enc Pt, bytesV scalar]
          = .ret [ptV enc r, .int 0]
    | .panic =>
        (∃ F, ∀ f, F ≤ f →
          runV Gen.CTIRProgProto.prog Gen.CTIRProgProto.globals X f 100 [bytesV gScalar, ptV enc Pt, bytesV scalar]
            = .panic) ∨
        (∀ f, runV Gen.CTIRProgProto.prog Gen.CTIRProgProto.globals X f 100
          [bytesV gScalar, ptV enc Pt, bytesV scalar] = .stuck)
    | .err => False :=
  ir_scalarMixedMult_eq_model_proto hp hz hB hap hao hdp hdo gScalar Pt scalar _ _
    globals_proto_first globals_proto_second hT

end Globals

end SMGo.Proofs.CTIRRefineRename

#print axioms SMGo.Proofs.CTIRRefineRename.renS_id
#print axioms SMGo.Proofs.CTIRRefineRename.renames_append
#print axioms SMGo.Proofs.CTIRRefineRename.prog_closed
#print axioms SMGo.Proofs.CTIRRefineRename.computes_proto_of_prog
#print axioms SMGo.Proofs.CTIRRefineRename.calleeFails_proto_of_prog
#print axioms SMGo.Proofs.CTIRRefineRename.runV_proto_of_prog
#print axioms SMGo.Proofs.CTIRRefineRename.globals_proto_of_prog
#print axioms SMGo.Proofs.CTIRRefineRename.renames_fp
#print axioms SMGo.Proofs.CTIRRefineRename.mixedMult_proto_computes
#print axioms SMGo.Proofs.CTIRRefineRename.ir_scalarMixedMult_eq_model_proto
#print axioms SMGo.Proofs.CTIRRefineRename.mixedMult_proto_computes_allG
#print axioms SMGo.Proofs.CTIRRefineRename.ir_scalarMixedMult_eq_model_proto_encOk
#print axioms SMGo.Proofs.CTIRRefineRename.mixedMult_proto_computes_globals
#print axioms SMGo.Proofs.CTIRRefineRename.ir_scalarMixedMult_eq_model_proto_globals
