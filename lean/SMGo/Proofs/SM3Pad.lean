/-
  Lemmas for property C04, part 3: `checkSum` pads as GB/T 32905 5.2 prescribes, for every residue
  of the message length (one final block when nx+1 ≤ 56, two otherwise); histories of
  Write/Sum/Reset; the one-shot function.
-/
import SMGo.Proofs.SM3Write
namespace SMGo.Proofs.SM3
open SMGo.Spec.SM3 (blocks CF IV)
open SMGo.Model.SM3 (St)

theorem ofNatBE_length (n v : Nat) : (Bytes.ofNatBE n v).length = n := by
  simp [Bytes.ofNatBE]

theorem take_set_succ (x : Bytes) (n : Nat) (v : UInt8) (hn : n < x.length) :
    (x.set n v).take (n + 1) = x.take n ++ [v] := by
  rw [List.take_add_one, List.take_set_of_le (Nat.le_refl _)]
  simp [hn]

/-- the zero bytes `checkSum` writes are as many as the standard's `k`: branch `nx > maxTail` -/
theorem checkSum_zeros_two (nx : Nat) (l : Nat) (hnx : nx = l % 64 + 1) (hc : nx > 56) :
    (List.replicate 64 (0 : UInt8)).take (64 + 56 - nx) = List.replicate ((64 - (l + 9) % 64) % 64) 0 := by
  rw [List.take_replicate]; congr 1; omega

/-- … and branch `nx ≤ maxTail` -/
theorem checkSum_zeros_one (nx : Nat) (l : Nat) (hnx : nx = l % 64 + 1) (hc : ¬ nx > 56) :
    ((List.replicate 64 (0 : UInt8)).drop nx).take (56 - nx)
      = List.replicate ((64 - (l + 9) % 64) % 64) 0 := by
  rw [List.drop_replicate, List.take_replicate]; congr 1; omega

/-- (iv) `checkSum` on a state holding `data` returns the standard digest of `data` -/
theorem checkSum_eq {st : St} {data : Bytes} (h : Inv st data) :
    (Model.SM3.checkSum ttGen st).1 = Spec.SM3.hash data := by
  have hb := h.buf
  obtain ⟨_, hx, _, hn, hl⟩ := h
  generalize hpre : data.take (data.length / 64 * 64) = pre at hb
  generalize htail : data.drop (data.length / 64 * 64) = tail at hb
  have hdata : data = pre ++ tail := by rw [← hpre, ← htail, List.take_append_drop]
  have htl : tail.length = data.length % 64 := by rw [← hb.nx, hn]
  -- after `sm3.x[sm3.nx] = 1 << 7; sm3.nx++`
  have hb1 : Buf { st with x := st.x.set st.nx 0x80, nx := st.nx + 1 } pre (tail ++ [0x80]) := by
    refine ⟨hb.h, hb.pre64, by simp [hx], by simp [hb.nx], by simp; omega, ?_⟩
    simp only
    rw [take_set_succ _ _ _ (by omega), hb.x]
  -- after the `Write` of zeros
  obtain ⟨pre2, tail2, hb2, ht2, e2, _, _⟩ :=
    write_buf hb1 (List.replicate ((64 - (data.length + 9) % 64) % 64) 0)
  have hlen2 : (pre2 ++ tail2).length % 64 = 56 := by
    rw [← e2]; simp [htl]; have := hb.pre64; omega
  have ht56 : tail2.length = 56 := by
    simp at hlen2; have := hb2.pre64; omega
  have hblk : (tail2 ++ Bytes.ofNatBE 8 (st.len * 8 % 2 ^ 64)).length = 64 := by
    simp [ofNatBE_length, ht56]
  have hpad : Spec.SM3.pad data = pre2 ++ (tail2 ++ Bytes.ofNatBE 8 (st.len * 8 % 2 ^ 64)) := by
    have hl8 : st.len * 8 % 2 ^ 64 = 8 * data.length % 2 ^ 64 := by rw [hl]; omega
    rw [hl8, ← List.append_assoc, ← e2, hdata]
    simp [Spec.SM3.pad]
  have hx2 : (Model.SM3.write ttGen { st with x := st.x.set st.nx 0x80, nx := st.nx + 1 }
      (List.replicate ((64 - (data.length + 9) % 64) % 64) 0)).1.x.take 56 = tail2 := by
    have := hb2.x; rw [hb2.nx, ht56] at this; exact this
  have hfin : List.flatMap w32Bytes (Model.SM3.cf ttGen
        (Model.SM3.write ttGen { st with x := st.x.set st.nx 0x80, nx := st.nx + 1 }
          (List.replicate ((64 - (data.length + 9) % 64) % 64) 0)).1.h
        ((Model.SM3.write ttGen { st with x := st.x.set st.nx 0x80, nx := st.nx + 1 }
          (List.replicate ((64 - (data.length + 9) % 64) % 64) 0)).1.x.take 56
          ++ Bytes.ofNatBE 8 (st.len * 8 % 2 ^ 64)))
      = List.flatMap w32Bytes (List.foldl CF IV (blocks (Spec.SM3.pad data))) := by
    rw [hx2, cf_eq_CF _ _ hblk, hb2.h, ← chain_append_block _ _ hb2.pre64 hblk, ← hpad, chain]
  unfold Model.SM3.checkSum Spec.SM3.hash Spec.SM3.hashWords
  simp only [Model.SM3.maxTail]
  have hwz : ∀ z, z = List.replicate ((64 - (data.length + 9) % 64) % 64) (0 : UInt8) →
      Model.SM3.write ttGen { st with x := st.x.set st.nx 0x80, nx := st.nx + 1 } z
        = Model.SM3.write ttGen { st with x := st.x.set st.nx 0x80, nx := st.nx + 1 }
            (List.replicate ((64 - (data.length + 9) % 64) % 64) 0) := fun z hz => by rw [hz]
  by_cases hc : st.nx + 1 > 56
  all_goals simp only [hc, if_true, if_false]
  · rw [hwz _ (checkSum_zeros_two (st.nx + 1) data.length (by omega) hc)]
    exact hfin
  · rw [hwz _ (checkSum_zeros_one (st.nx + 1) data.length (by omega) hc)]
    exact hfin

/-- `Sum` appends the digest to its argument (and works on a copy: the state is not an output) -/
theorem sum_eq {st : St} {data : Bytes} (h : Inv st data) (inp : Bytes) :
    Model.SM3.sum ttGen st inp = inp ++ Spec.SM3.hash data := by
  rw [Model.SM3.sum, checkSum_eq h]

/-- histories, from any state that satisfies the invariant -/
theorem run_from (ops : List Spec.SM3.Op) (st : St) (data : Bytes) (acc : List Spec.SM3.Out)
    (h : Inv st data) :
    (ops.foldl (fun (acc : St × List Spec.SM3.Out) op =>
        let (s', o) := Model.SM3.step ttGen acc.1 op; (s', o :: acc.2)) (st, acc)).2
    = (ops.foldl (fun (acc : Bytes × List Spec.SM3.Out) op =>
        match op with
        | .write d => (acc.1 ++ d, .wrote d.length :: acc.2)
        | .sum inp => (acc.1, .digest (inp ++ Spec.SM3.hash acc.1) :: acc.2)
        | .reset => ([], .none :: acc.2)) (data, acc)).2 := by
  induction ops generalizing st data acc with
  | nil => rfl
  | cons op ops ih =>
    rw [List.foldl_cons, List.foldl_cons]
    cases op with
    | write d =>
      have hw := write_inv h d
      simp only [Model.SM3.step]
      rw [hw.2]
      exact ih _ _ _ hw.1
    | sum inp =>
      simp only [Model.SM3.step]
      rw [sum_eq h]
      exact ih _ _ _ h
    | reset =>
      simp only [Model.SM3.step]
      exact ih _ _ _ (reset_inv st h.2.1)

/-- (v) every history from `New()` answers what the specification says -/
theorem run_eq_runHistory (ops : List Spec.SM3.Op) :
    Model.SM3.run ttGen ops = Spec.SM3.runHistory ops := by
  unfold Model.SM3.run Spec.SM3.runHistory
  rw [run_from ops _ [] [] new_inv]
  rfl

/-- (vi) the one-shot function -/
theorem sumSM3_eq (m : Bytes) : Model.SM3.sumSM3 ttGen m = Spec.SM3.hash m := by
  have hw := (write_inv new_inv m).1
  rw [List.nil_append] at hw
  exact checkSum_eq hw

end SMGo.Proofs.SM3
