import SMGo.Proofs.ISAValWideLanes
import SMGo.Proofs.ISAValGhashMul
namespace SMGo.Proofs.ISAVal
open SMGo.Model.ISAVal SMGo.Model.ISA

/-- the macro `transpose4x4(A, B, C, D, T0 = V0, T1 = V1)` of com_amd64.s at vector length `vl` -/
def transposeCode (vl A B C D : Nat) : List DInstr :=
  [ins .VPUNPCKHDQ [R B, R A, R 0] vl,
   ins .VPUNPCKLDQ [R B, R A, R A] vl,
   ins .VPUNPCKHDQ [R D, R C, R 1] vl,
   ins .VPUNPCKLDQ [R D, R C, R C] vl,
   ins .VPUNPCKHQDQ [R C, R A, R B] vl,
   ins .VPUNPCKHQDQ [R 1, R 0, R D] vl,
   ins .VPUNPCKLQDQ [R C, R A, R A] vl,
   ins .VPUNPCKLQDQ [R 1, R 0, R C] vl]

/-- only vector registers change, V10–V12 keep their values -/
structure WFrame (s s' : State) : Prop where
  gpr : s'.gpr = s.gpr
  lenV : s'.vec.length = 32
  kreg : s'.kreg = s.kreg
  mem : s'.mem = s.mem
  syms : s'.syms = s.syms
  frame : s'.frame = s.frame
  v10 : vreg s' 10 = vreg s 10
  v11 : vreg s' 11 = vreg s 11
  v12 : vreg s' 12 = vreg s 12

/-- the 4×4 dword transposition on every 128-bit lane: dword m of lane l of the new register k is dword k of lane l
    of the old register m -/
structure Transposed (vl A B C D : Nat) (s s' : State) : Prop where
  tA : ∀ l, l < vl / 16 → lane 32 (4 * l + 0) (vreg s' A) = lane 32 (4 * l + 0) (vreg s A) ∧
    lane 32 (4 * l + 1) (vreg s' A) = lane 32 (4 * l + 0) (vreg s B) ∧
    lane 32 (4 * l + 2) (vreg s' A) = lane 32 (4 * l + 0) (vreg s C) ∧
    lane 32 (4 * l + 3) (vreg s' A) = lane 32 (4 * l + 0) (vreg s D)
  tB : ∀ l, l < vl / 16 → lane 32 (4 * l + 0) (vreg s' B) = lane 32 (4 * l + 1) (vreg s A) ∧
    lane 32 (4 * l + 1) (vreg s' B) = lane 32 (4 * l + 1) (vreg s B) ∧
    lane 32 (4 * l + 2) (vreg s' B) = lane 32 (4 * l + 1) (vreg s C) ∧
    lane 32 (4 * l + 3) (vreg s' B) = lane 32 (4 * l + 1) (vreg s D)
  tC : ∀ l, l < vl / 16 → lane 32 (4 * l + 0) (vreg s' C) = lane 32 (4 * l + 2) (vreg s A) ∧
    lane 32 (4 * l + 1) (vreg s' C) = lane 32 (4 * l + 2) (vreg s B) ∧
    lane 32 (4 * l + 2) (vreg s' C) = lane 32 (4 * l + 2) (vreg s C) ∧
    lane 32 (4 * l + 3) (vreg s' C) = lane 32 (4 * l + 2) (vreg s D)
  tD : ∀ l, l < vl / 16 → lane 32 (4 * l + 0) (vreg s' D) = lane 32 (4 * l + 3) (vreg s A) ∧
    lane 32 (4 * l + 1) (vreg s' D) = lane 32 (4 * l + 3) (vreg s B) ∧
    lane 32 (4 * l + 2) (vreg s' D) = lane 32 (4 * l + 3) (vreg s C) ∧
    lane 32 (4 * l + 3) (vreg s' D) = lane 32 (4 * l + 3) (vreg s D)

set_option maxRecDepth 100000 in
set_option maxHeartbeats 1000000 in
theorem transpose_spec (vl A B C D : Nat) (hvl : validVl vl = true)
    (hinst : (A = 6 ∧ B = 7 ∧ C = 8 ∧ D = 9) ∨ (A = 9 ∧ B = 8 ∧ C = 7 ∧ D = 6))
    (s : State) (hV : s.vec.length = 32) :
    ∃ s', execList (transposeCode vl A B C D) s = .ok s' ∧ WFrame s s' ∧ Transposed vl A B C D s s' := by
  obtain ⟨gpr, vec, k, fl, mem, syms, frame⟩ := s
  simp only at hV
  obtain ⟨b0, b1, b2, b3, b4, b5, b6, b7, b8, b9, b10, b11, b12, b13, b14, b15, b16, b17, b18, b19, b20, b21, b22, b23, b24, b25, b26, b27, b28, b29, b30, b31, rfl⟩ := list32 vec hV
  rcases hinst with ⟨rfl, rfl, rfl, rfl⟩ | ⟨rfl, rfl, rfl, rfl⟩
  all_goals
    apply Exists.intro
    apply And.intro
    · unfold transposeCode
      gstep; gstep; gstep; gstep; gstep; gstep; gstep; gstep
      exact execList_nil _
    · simp only [List.set_cons_succ, List.set_cons_zero]
      refine ⟨⟨rfl, rfl, rfl, rfl, rfl, rfl, rfl, rfl, rfl⟩, ⟨?_, ?_, ?_, ?_⟩⟩
      all_goals
        intro l hl
        simp only [vreg, List.getD_cons_succ, List.getD_cons_zero]
        simp only [(d_unpcklqdq _ l _ _ hl).1, (d_unpcklqdq _ l _ _ hl).2.1, (d_unpcklqdq _ l _ _ hl).2.2.1, (d_unpcklqdq _ l _ _ hl).2.2.2,
          (d_unpckhqdq _ l _ _ hl).1, (d_unpckhqdq _ l _ _ hl).2.1, (d_unpckhqdq _ l _ _ hl).2.2.1, (d_unpckhqdq _ l _ _ hl).2.2.2,
          (d_unpckldq _ l _ _ hl).1, (d_unpckldq _ l _ _ hl).2.1, (d_unpckldq _ l _ _ hl).2.2.1, (d_unpckldq _ l _ _ hl).2.2.2,
          (d_unpckhdq _ l _ _ hl).1, (d_unpckhdq _ l _ _ hl).2.1, (d_unpckhdq _ l _ _ hl).2.2.1, (d_unpckhdq _ l _ _ hl).2.2.2,
          and_self]

end SMGo.Proofs.ISAVal
