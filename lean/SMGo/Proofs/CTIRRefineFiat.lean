/-
  Refinement, item 4: the generated IR of the Fiat primitives of /repo/sm2/internal/fiat (fiat_sm2_64.go,
  fiat_sm2_64_scalar.go; SMGo/Gen/CTIRProg.lean `fn_10`, `fn_11`, `fn_14`, `fn_17`, … `fn_72`) computes the
  regenerated let-chains of SMGo/Gen/FiatP.lean and SMGo/Gen/FiatN.lean.

  Method (SMGo/Proofs/CTIRRefineSL.lean): both artefacts are straight-line; the mirror evaluator `mRet` walks the
  IR body and builds the natural-number term of every variable; `m_<fn>` says that on symbolic limbs this term IS
  the term of the generated let-chain — one kernel conversion (`kernel_rfl` closes `a = b` with `Eq.refl a`, the
  check is done by the kernel, exactly like `decide +kernel`); `run_of_mRet` (a proved simulation theorem for the
  real interpreter) turns it into a `Computes` statement: the IR function, run by `exec` on the encoded
  arguments with fuel ≥ `fuelFiat`, returns the encoded result of the generated function.  The result is
  moreover within its word size (`Out4` / bytes), which the callers' theorems need.

  These are exactly the `Computes` hypotheses of CTIRRefineField (`BytesPrims`, `SetBytesPrims`),
  CTIRRefinePointA (`FiatPrims`) and CTIRRefinePointB (`hsq`, `hmul`, `hB`).
  No model/IR disagreement: all 24 functions agree on all inputs of their Go types.
-/
import Lean
import SMGo.Proofs.CTIRRefineSL
import SMGo.Proofs.CTIRRefineField
import SMGo.Gen.FiatP
import SMGo.Gen.FiatN
open SMGo SMGo.Model.CTIR SMGo.Gen.CTIRProg SMGo.Proofs.CTIRRefineSL SMGo.Proofs.CTIRRefineUtils
open SMGo.Proofs.CTIRRefineField (limbsV Out4 Computes)

namespace SMGo.Proofs.CTIRRefineFiat

open Lean Elab Tactic Meta in
/-- close `a = b` with `Eq.refl a`, leaving the conversion check to the kernel (as `decide +kernel` does) -/
elab "kernel_rfl" : tactic => do
  let g ← getMainGoal
  let t ← instantiateMVars (← g.getType)
  let some (α, lhs, _) := t.eq? | throwError "kernel_rfl: not an equation"
  let u ← getLevel α
  g.assign (mkApp2 (mkConst ``Eq.refl [u]) α lhs)

/-- the conditional moves of the two fields: function number in `prog` and generated function -/
def cmP : Cm := some (f_fiat_sm2CmovznzU64, Gen.FiatP.sm2CmovznzU64)
def cmN : Cm := some (f_fiat_sm2ScalarCmovznzU64, Gen.FiatN.sm2ScalarCmovznzU64)

/-- fuel for every Fiat primitive (the largest, `sm2ScalarSquare`, needs 871) -/
def fuelFiat : Nat := 900

/-! ## Mirror equations (kernel conversions) -/

theorem m_sm2CmovznzU64 (o c x y : Nat) :
    mRet none [.sc o 64, .sc c 64, .sc x 64, .sc y 64] fn_11.body = some [.sc (Gen.FiatP.sm2CmovznzU64 c x y) 64] := by
  kernel_rfl

theorem m_sm2ScalarCmovznzU64 (o c x y : Nat) :
    mRet none [.sc o 64, .sc c 64, .sc x 64, .sc y 64] fn_48.body = some [.sc (Gen.FiatN.sm2ScalarCmovznzU64 c x y) 64] := by
  kernel_rfl


theorem m_sm2Selectznz (o0 o1 o2 o3 c a0 a1 a2 a3 b0 b1 b2 b3 : Nat) :
    mRet cmP [.ar [o0, o1, o2, o3] 64, .sc c 64, .ar [a0, a1, a2, a3] 64, .ar [b0, b1, b2, b3] 64] fn_10.body = some [.ar (Gen.FiatP.sm2Selectznz c [a0, a1, a2, a3] [b0, b1, b2, b3]) 64] := by
  kernel_rfl

theorem m_sm2SetOne (o0 o1 o2 o3 : Nat) :
    mRet cmP [.ar [o0, o1, o2, o3] 64] fn_14.body = some [.ar (Gen.FiatP.sm2SetOne) 64] := by
  kernel_rfl

theorem m_sm2Add (o0 o1 o2 o3 a0 a1 a2 a3 b0 b1 b2 b3 : Nat) :
    mRet cmP [.ar [o0, o1, o2, o3] 64, .ar [a0, a1, a2, a3] 64, .ar [b0, b1, b2, b3] 64] fn_17.body = some [.ar (Gen.FiatP.sm2Add [a0, a1, a2, a3] [b0, b1, b2, b3]) 64] := by
  kernel_rfl

theorem m_sm2Sub (o0 o1 o2 o3 a0 a1 a2 a3 b0 b1 b2 b3 : Nat) :
    mRet cmP [.ar [o0, o1, o2, o3] 64, .ar [a0, a1, a2, a3] 64, .ar [b0, b1, b2, b3] 64] fn_19.body = some [.ar (Gen.FiatP.sm2Sub [a0, a1, a2, a3] [b0, b1, b2, b3]) 64] := by
  kernel_rfl

theorem m_sm2Opp (o0 o1 o2 o3 a0 a1 a2 a3 : Nat) :
    mRet cmP [.ar [o0, o1, o2, o3] 64, .ar [a0, a1, a2, a3] 64] fn_21.body = some [.ar (Gen.FiatP.sm2Opp [a0, a1, a2, a3]) 64] := by
  kernel_rfl

theorem m_sm2Mul (o0 o1 o2 o3 a0 a1 a2 a3 b0 b1 b2 b3 : Nat) :
    mRet cmP [.ar [o0, o1, o2, o3] 64, .ar [a0, a1, a2, a3] 64, .ar [b0, b1, b2, b3] 64] fn_23.body = some [.ar (Gen.FiatP.sm2Mul [a0, a1, a2, a3] [b0, b1, b2, b3]) 64] := by
  kernel_rfl

theorem m_sm2Square (o0 o1 o2 o3 a0 a1 a2 a3 : Nat) :
    mRet cmP [.ar [o0, o1, o2, o3] 64, .ar [a0, a1, a2, a3] 64] fn_25.body = some [.ar (Gen.FiatP.sm2Square [a0, a1, a2, a3]) 64] := by
  kernel_rfl

theorem m_sm2FromMontgomery (o0 o1 o2 o3 a0 a1 a2 a3 : Nat) :
    mRet cmP [.ar [o0, o1, o2, o3] 64, .ar [a0, a1, a2, a3] 64] fn_30.body = some [.ar (Gen.FiatP.sm2FromMontgomery [a0, a1, a2, a3]) 64] := by
  kernel_rfl

theorem m_sm2ToBytes (o0 o1 o2 o3 o4 o5 o6 o7 o8 o9 o10 o11 o12 o13 o14 o15 o16 o17 o18 o19 o20 o21 o22 o23 o24 o25 o26 o27 o28 o29 o30 o31 a0 a1 a2 a3 : Nat) :
    mRet cmP [.ar [o0, o1, o2, o3, o4, o5, o6, o7, o8, o9, o10, o11, o12, o13, o14, o15, o16, o17, o18, o19, o20, o21, o22, o23, o24, o25, o26, o27, o28, o29, o30, o31] 8, .ar [a0, a1, a2, a3] 64] fn_31.body = some [.ar (Gen.FiatP.sm2ToBytes [a0, a1, a2, a3]) 8] := by
  kernel_rfl

theorem m_sm2FromBytes (o0 o1 o2 o3 a0 a1 a2 a3 a4 a5 a6 a7 a8 a9 a10 a11 a12 a13 a14 a15 a16 a17 a18 a19 a20 a21 a22 a23 a24 a25 a26 a27 a28 a29 a30 a31 : Nat) :
    mRet cmP [.ar [o0, o1, o2, o3] 64, .ar [a0, a1, a2, a3, a4, a5, a6, a7, a8, a9, a10, a11, a12, a13, a14, a15, a16, a17, a18, a19, a20, a21, a22, a23, a24, a25, a26, a27, a28, a29, a30, a31] 8] fn_35.body = some [.ar (Gen.FiatP.sm2FromBytes [a0, a1, a2, a3, a4, a5, a6, a7, a8, a9, a10, a11, a12, a13, a14, a15, a16, a17, a18, a19, a20, a21, a22, a23, a24, a25, a26, a27, a28, a29, a30, a31]) 64] := by
  kernel_rfl

theorem m_sm2ToMontgomery (o0 o1 o2 o3 a0 a1 a2 a3 : Nat) :
    mRet cmP [.ar [o0, o1, o2, o3] 64, .ar [a0, a1, a2, a3] 64] fn_36.body = some [.ar (Gen.FiatP.sm2ToMontgomery [a0, a1, a2, a3]) 64] := by
  kernel_rfl

theorem m_sm2ScalarSelectznz (o0 o1 o2 o3 c a0 a1 a2 a3 b0 b1 b2 b3 : Nat) :
    mRet cmN [.ar [o0, o1, o2, o3] 64, .sc c 64, .ar [a0, a1, a2, a3] 64, .ar [b0, b1, b2, b3] 64] fn_56.body = some [.ar (Gen.FiatN.sm2ScalarSelectznz c [a0, a1, a2, a3] [b0, b1, b2, b3]) 64] := by
  kernel_rfl

theorem m_sm2ScalarSetOne (o0 o1 o2 o3 : Nat) :
    mRet cmN [.ar [o0, o1, o2, o3] 64] fn_45.body = some [.ar (Gen.FiatN.sm2ScalarSetOne) 64] := by
  kernel_rfl

theorem m_sm2ScalarAdd (o0 o1 o2 o3 a0 a1 a2 a3 b0 b1 b2 b3 : Nat) :
    mRet cmN [.ar [o0, o1, o2, o3] 64, .ar [a0, a1, a2, a3] 64, .ar [b0, b1, b2, b3] 64] fn_47.body = some [.ar (Gen.FiatN.sm2ScalarAdd [a0, a1, a2, a3] [b0, b1, b2, b3]) 64] := by
  kernel_rfl

theorem m_sm2ScalarSub (o0 o1 o2 o3 a0 a1 a2 a3 b0 b1 b2 b3 : Nat) :
    mRet cmN [.ar [o0, o1, o2, o3] 64, .ar [a0, a1, a2, a3] 64, .ar [b0, b1, b2, b3] 64] fn_50.body = some [.ar (Gen.FiatN.sm2ScalarSub [a0, a1, a2, a3] [b0, b1, b2, b3]) 64] := by
  kernel_rfl

theorem m_sm2ScalarOpp (o0 o1 o2 o3 a0 a1 a2 a3 : Nat) :
    mRet cmN [.ar [o0, o1, o2, o3] 64, .ar [a0, a1, a2, a3] 64] fn_72.body = some [.ar (Gen.FiatN.sm2ScalarOpp [a0, a1, a2, a3]) 64] := by
  kernel_rfl

theorem m_sm2ScalarMul (o0 o1 o2 o3 a0 a1 a2 a3 b0 b1 b2 b3 : Nat) :
    mRet cmN [.ar [o0, o1, o2, o3] 64, .ar [a0, a1, a2, a3] 64, .ar [b0, b1, b2, b3] 64] fn_52.body = some [.ar (Gen.FiatN.sm2ScalarMul [a0, a1, a2, a3] [b0, b1, b2, b3]) 64] := by
  kernel_rfl

theorem m_sm2ScalarSquare (o0 o1 o2 o3 a0 a1 a2 a3 : Nat) :
    mRet cmN [.ar [o0, o1, o2, o3] 64, .ar [a0, a1, a2, a3] 64] fn_54.body = some [.ar (Gen.FiatN.sm2ScalarSquare [a0, a1, a2, a3]) 64] := by
  kernel_rfl

theorem m_sm2ScalarFromMontgomery (o0 o1 o2 o3 a0 a1 a2 a3 : Nat) :
    mRet cmN [.ar [o0, o1, o2, o3] 64, .ar [a0, a1, a2, a3] 64] fn_61.body = some [.ar (Gen.FiatN.sm2ScalarFromMontgomery [a0, a1, a2, a3]) 64] := by
  kernel_rfl

theorem m_sm2ScalarToBytes (o0 o1 o2 o3 o4 o5 o6 o7 o8 o9 o10 o11 o12 o13 o14 o15 o16 o17 o18 o19 o20 o21 o22 o23 o24 o25 o26 o27 o28 o29 o30 o31 a0 a1 a2 a3 : Nat) :
    mRet cmN [.ar [o0, o1, o2, o3, o4, o5, o6, o7, o8, o9, o10, o11, o12, o13, o14, o15, o16, o17, o18, o19, o20, o21, o22, o23, o24, o25, o26, o27, o28, o29, o30, o31] 8, .ar [a0, a1, a2, a3] 64] fn_62.body = some [.ar (Gen.FiatN.sm2ScalarToBytes [a0, a1, a2, a3]) 8] := by
  kernel_rfl

theorem m_sm2ScalarFromBytes (o0 o1 o2 o3 a0 a1 a2 a3 a4 a5 a6 a7 a8 a9 a10 a11 a12 a13 a14 a15 a16 a17 a18 a19 a20 a21 a22 a23 a24 a25 a26 a27 a28 a29 a30 a31 : Nat) :
    mRet cmN [.ar [o0, o1, o2, o3] 64, .ar [a0, a1, a2, a3, a4, a5, a6, a7, a8, a9, a10, a11, a12, a13, a14, a15, a16, a17, a18, a19, a20, a21, a22, a23, a24, a25, a26, a27, a28, a29, a30, a31] 8] fn_66.body = some [.ar (Gen.FiatN.sm2ScalarFromBytes [a0, a1, a2, a3, a4, a5, a6, a7, a8, a9, a10, a11, a12, a13, a14, a15, a16, a17, a18, a19, a20, a21, a22, a23, a24, a25, a26, a27, a28, a29, a30, a31]) 64] := by
  kernel_rfl

theorem m_sm2ScalarToMontgomery (o0 o1 o2 o3 a0 a1 a2 a3 : Nat) :
    mRet cmN [.ar [o0, o1, o2, o3] 64, .ar [a0, a1, a2, a3] 64] fn_67.body = some [.ar (Gen.FiatN.sm2ScalarToMontgomery [a0, a1, a2, a3]) 64] := by
  kernel_rfl

/-! ## Helpers -/

theorem wf_sc {c : Nat} (h : c < 18446744073709551616) : (MVal.sc c 64).wf := ⟨h, Nat.le_refl _⟩

theorem wf_ar4 {a b c d : Nat} (ha : a < 18446744073709551616) (hb : b < 18446744073709551616)
    (hc : c < 18446744073709551616) (hd : d < 18446744073709551616) : (MVal.ar [a, b, c, d] 64).wf := by
  refine ⟨?_, Nat.le_refl _⟩
  intro x hx
  simp only [List.mem_cons, List.not_mem_nil, or_false] at hx
  rcases hx with rfl | rfl | rfl | rfl <;> assumption

theorem wf_bytes (l : Bytes) : (MVal.ar (l.map UInt8.toNat) 8).wf := by
  refine ⟨?_, by decide⟩
  intro x hx
  obtain ⟨u, _, rfl⟩ := List.mem_map.mp hx
  exact u.toNat_lt

theorem wfs1 {a : MVal} (ha : a.wf) : ∀ m ∈ [a], m.wf := by
  intro m hm; simp only [List.mem_cons, List.not_mem_nil, or_false] at hm; subst hm; exact ha
theorem wfs2 {a b : MVal} (ha : a.wf) (hb : b.wf) : ∀ m ∈ [a, b], m.wf := by
  intro m hm; simp only [List.mem_cons, List.not_mem_nil, or_false] at hm
  rcases hm with rfl | rfl <;> assumption
theorem wfs3 {a b c : MVal} (ha : a.wf) (hb : b.wf) (hc : c.wf) : ∀ m ∈ [a, b, c], m.wf := by
  intro m hm; simp only [List.mem_cons, List.not_mem_nil, or_false] at hm
  rcases hm with rfl | rfl | rfl <;> assumption
theorem wfs4 {a b c d : MVal} (ha : a.wf) (hb : b.wf) (hc : c.wf) (hd : d.wf) : ∀ m ∈ [a, b, c, d], m.wf := by
  intro m hm; simp only [List.mem_cons, List.not_mem_nil, or_false] at hm
  rcases hm with rfl | rfl | rfl | rfl <;> assumption

theorem out4_of {l : List Nat} (hl : l.length = 4) (h : (MVal.ar l 64).wf) : Out4 l := by
  match l, hl with
  | [a, b, c, d], _ =>
    exact ⟨a, b, c, d, rfl, h.1 a (by simp), h.1 b (by simp), h.1 c (by simp), h.1 d (by simp)⟩

theorem cons_of_len {α : Type} {l : List α} {n : Nat} (h : l.length = n + 1) : ∃ x t, l = x :: t ∧ t.length = n := by
  cases l with
  | nil => simp at h
  | cons x t => exact ⟨x, t, rfl, by simpa using h⟩

/-- a byte string as the natural numbers of its bytes -/
theorem bytesV_nats (l : Bytes) : bytesV l = natsV (l.map UInt8.toNat) := by
  simp only [bytesV, natsV, List.map_map]
  rfl

/-- natural numbers below 256 as the byte string they are -/
theorem natsV_bytes {l : List Nat} (h : (MVal.ar l 8).wf) : natsV l = bytesV (l.map UInt8.ofNat) := by
  rw [bytesV_nats, List.map_map]
  have e : l.map (UInt8.toNat ∘ UInt8.ofNat) = l := by
    conv => rhs; rw [← List.map_id l]
    refine List.map_congr_left (fun x hx => ?_)
    have := h.1 x hx
    simp only [Function.comp, UInt8.toNat_ofNat', id]
    exact Nat.mod_eq_of_lt this
  rw [e]

theorem wf_sc_lt {v : Nat} (h : (MVal.sc v 64).wf) : v < 18446744073709551616 := h.1

section
variable {G : Nat → Val} {X : Oracle}

/-- from a mirror equation to a `Computes` statement -/
theorem computes_of_mRet {Fc : Nat} {cm : Cm} (hcm : CmOk prog G X Fc cm) {g : Nat} {fn : Fn}
    (hg : prog[g]? = some fn) (hs : fn.stub = false) {args res : List MVal} (hn : args.length = fn.nparams)
    (hwf : ∀ m ∈ args, m.wf) (h : mRet cm args fn.body = some res) {F : Nat} (hF : szS Fc fn.body ≤ F) :
    Computes prog G X g F (args.map MVal.toVal) (res.map MVal.toVal) ∧ ∀ m ∈ res, m.wf := by
  obtain ⟨⟨env', h1⟩, h2⟩ := run_of_mRet (P := prog) (G := G) (X := X) hcm hwf h
  exact ⟨⟨fn, env', hg, hs, by simpa using hn, h1.mono hF⟩, h2⟩

/-! ## The conditional moves -/

theorem ir_sm2CmovznzU64_eq_gen (o c x y : Nat) (ho : o < 18446744073709551616) (hc : c < 18446744073709551616)
    (hx : x < 18446744073709551616) (hy : y < 18446744073709551616) :
    Computes prog G X f_fiat_sm2CmovznzU64 7 [.int (o : Int), .int (c : Int), .int (x : Int), .int (y : Int)]
      [.int ((Gen.FiatP.sm2CmovznzU64 c x y : Nat) : Int)] ∧ Gen.FiatP.sm2CmovznzU64 c x y < 18446744073709551616 := by
  have h := computes_of_mRet (G := G) (X := X) (Fc := 0) CmOk.none (g := 11) (fn := fn_11) rfl rfl
    (args := [.sc o 64, .sc c 64, .sc x 64, .sc y 64]) rfl (wfs4 (wf_sc ho) (wf_sc hc) (wf_sc hx) (wf_sc hy))
    (m_sm2CmovznzU64 o c x y) (F := 7) (by decide)
  exact ⟨h.1, wf_sc_lt (h.2 _ (by simp))⟩

theorem ir_sm2ScalarCmovznzU64_eq_gen (o c x y : Nat) (ho : o < 18446744073709551616) (hc : c < 18446744073709551616)
    (hx : x < 18446744073709551616) (hy : y < 18446744073709551616) :
    Computes prog G X f_fiat_sm2ScalarCmovznzU64 7 [.int (o : Int), .int (c : Int), .int (x : Int), .int (y : Int)]
      [.int ((Gen.FiatN.sm2ScalarCmovznzU64 c x y : Nat) : Int)] ∧
      Gen.FiatN.sm2ScalarCmovznzU64 c x y < 18446744073709551616 := by
  have h := computes_of_mRet (G := G) (X := X) (Fc := 0) CmOk.none (g := 48) (fn := fn_48) rfl rfl
    (args := [.sc o 64, .sc c 64, .sc x 64, .sc y 64]) rfl (wfs4 (wf_sc ho) (wf_sc hc) (wf_sc hx) (wf_sc hy))
    (m_sm2ScalarCmovznzU64 o c x y) (F := 7) (by decide)
  exact ⟨h.1, wf_sc_lt (h.2 _ (by simp))⟩

theorem cmP_ok : CmOk prog G X 7 cmP := by
  intro g f h
  simp only [cmP, Option.some.injEq, Prod.mk.injEq] at h
  obtain ⟨rfl, rfl⟩ := h
  refine ⟨fn_11, rfl, rfl, rfl, fun o c x y ho hc hx hy => ?_⟩
  obtain ⟨⟨fn, env', hg, _, _, hb⟩, hlt⟩ := ir_sm2CmovznzU64_eq_gen (G := G) (X := X) o c x y ho hc hx hy
  have : fn = fn_11 := by
    have : prog[f_fiat_sm2CmovznzU64]? = some fn_11 := rfl
    rw [this] at hg; exact (Option.some.inj hg).symm
  subst this
  exact ⟨hlt, env', hb⟩

theorem cmN_ok : CmOk prog G X 7 cmN := by
  intro g f h
  simp only [cmN, Option.some.injEq, Prod.mk.injEq] at h
  obtain ⟨rfl, rfl⟩ := h
  refine ⟨fn_48, rfl, rfl, rfl, fun o c x y ho hc hx hy => ?_⟩
  obtain ⟨⟨fn, env', hg, _, _, hb⟩, hlt⟩ := ir_sm2ScalarCmovznzU64_eq_gen (G := G) (X := X) o c x y ho hc hx hy
  have : fn = fn_48 := by
    have : prog[f_fiat_sm2ScalarCmovznzU64]? = some fn_48 := rfl
    rw [this] at hg; exact (Option.some.inj hg).symm
  subst this
  exact ⟨hlt, env', hb⟩

/-! ## The primitives -/

theorem ir_sm2Selectznz_eq_gen (o a b : List Nat) (c : Nat) (ho : Out4 o) (hc : c < 18446744073709551616) (ha : Out4 a)
    (hb : Out4 b) :
    Computes prog G X f_fiat_sm2Selectznz fuelFiat [limbsV o, .int (c : Int), limbsV a, limbsV b] [limbsV (Gen.FiatP.sm2Selectznz c a b)] ∧
      Out4 (Gen.FiatP.sm2Selectznz c a b) := by
  obtain ⟨o0, o1, o2, o3, rfl, ho0, ho1, ho2, ho3⟩ := ho
  obtain ⟨a0, a1, a2, a3, rfl, ha0, ha1, ha2, ha3⟩ := ha
  obtain ⟨b0, b1, b2, b3, rfl, hb0, hb1, hb2, hb3⟩ := hb
  have h := computes_of_mRet (G := G) (X := X) cmP_ok (g := 10) (fn := fn_10) rfl rfl
    (args := [.ar [o0, o1, o2, o3] 64, .sc c 64, .ar [a0, a1, a2, a3] 64, .ar [b0, b1, b2, b3] 64]) rfl
    (wfs4 (wf_ar4 ho0 ho1 ho2 ho3) (wf_sc hc) (wf_ar4 ha0 ha1 ha2 ha3) (wf_ar4 hb0 hb1 hb2 hb3))
    (m_sm2Selectznz o0 o1 o2 o3 c a0 a1 a2 a3 b0 b1 b2 b3) (F := fuelFiat) (by decide +kernel)
  exact ⟨h.1, out4_of (by kernel_rfl) (h.2 _ (by simp))⟩

theorem ir_sm2SetOne_eq_gen (o : List Nat) (ho : Out4 o) :
    Computes prog G X f_fiat_sm2SetOne fuelFiat [limbsV o] [limbsV (Gen.FiatP.sm2SetOne)] ∧ Out4 (Gen.FiatP.sm2SetOne) := by
  obtain ⟨o0, o1, o2, o3, rfl, ho0, ho1, ho2, ho3⟩ := ho
  have h := computes_of_mRet (G := G) (X := X) cmP_ok (g := 14) (fn := fn_14) rfl rfl
    (args := [.ar [o0, o1, o2, o3] 64]) rfl (wfs1 (wf_ar4 ho0 ho1 ho2 ho3))
    (m_sm2SetOne o0 o1 o2 o3) (F := fuelFiat) (by decide +kernel)
  exact ⟨h.1, out4_of (by kernel_rfl) (h.2 _ (by simp))⟩

theorem ir_sm2Add_eq_gen (o a b : List Nat) (ho : Out4 o) (ha : Out4 a) (hb : Out4 b) :
    Computes prog G X f_fiat_sm2Add fuelFiat [limbsV o, limbsV a, limbsV b] [limbsV (Gen.FiatP.sm2Add a b)] ∧ Out4 (Gen.FiatP.sm2Add a b) := by
  obtain ⟨o0, o1, o2, o3, rfl, ho0, ho1, ho2, ho3⟩ := ho
  obtain ⟨a0, a1, a2, a3, rfl, ha0, ha1, ha2, ha3⟩ := ha
  obtain ⟨b0, b1, b2, b3, rfl, hb0, hb1, hb2, hb3⟩ := hb
  have h := computes_of_mRet (G := G) (X := X) cmP_ok (g := 17) (fn := fn_17) rfl rfl
    (args := [.ar [o0, o1, o2, o3] 64, .ar [a0, a1, a2, a3] 64, .ar [b0, b1, b2, b3] 64]) rfl (wfs3 (wf_ar4 ho0 ho1 ho2 ho3) (wf_ar4 ha0 ha1 ha2 ha3) (wf_ar4 hb0 hb1 hb2 hb3))
    (m_sm2Add o0 o1 o2 o3 a0 a1 a2 a3 b0 b1 b2 b3) (F := fuelFiat) (by decide +kernel)
  exact ⟨h.1, out4_of (by kernel_rfl) (h.2 _ (by simp))⟩

theorem ir_sm2Sub_eq_gen (o a b : List Nat) (ho : Out4 o) (ha : Out4 a) (hb : Out4 b) :
    Computes prog G X f_fiat_sm2Sub fuelFiat [limbsV o, limbsV a, limbsV b] [limbsV (Gen.FiatP.sm2Sub a b)] ∧ Out4 (Gen.FiatP.sm2Sub a b) := by
  obtain ⟨o0, o1, o2, o3, rfl, ho0, ho1, ho2, ho3⟩ := ho
  obtain ⟨a0, a1, a2, a3, rfl, ha0, ha1, ha2, ha3⟩ := ha
  obtain ⟨b0, b1, b2, b3, rfl, hb0, hb1, hb2, hb3⟩ := hb
  have h := computes_of_mRet (G := G) (X := X) cmP_ok (g := 19) (fn := fn_19) rfl rfl
    (args := [.ar [o0, o1, o2, o3] 64, .ar [a0, a1, a2, a3] 64, .ar [b0, b1, b2, b3] 64]) rfl (wfs3 (wf_ar4 ho0 ho1 ho2 ho3) (wf_ar4 ha0 ha1 ha2 ha3) (wf_ar4 hb0 hb1 hb2 hb3))
    (m_sm2Sub o0 o1 o2 o3 a0 a1 a2 a3 b0 b1 b2 b3) (F := fuelFiat) (by decide +kernel)
  exact ⟨h.1, out4_of (by kernel_rfl) (h.2 _ (by simp))⟩

theorem ir_sm2Opp_eq_gen (o a : List Nat) (ho : Out4 o) (ha : Out4 a) :
    Computes prog G X f_fiat_sm2Opp fuelFiat [limbsV o, limbsV a] [limbsV (Gen.FiatP.sm2Opp a)] ∧ Out4 (Gen.FiatP.sm2Opp a) := by
  obtain ⟨o0, o1, o2, o3, rfl, ho0, ho1, ho2, ho3⟩ := ho
  obtain ⟨a0, a1, a2, a3, rfl, ha0, ha1, ha2, ha3⟩ := ha
  have h := computes_of_mRet (G := G) (X := X) cmP_ok (g := 21) (fn := fn_21) rfl rfl
    (args := [.ar [o0, o1, o2, o3] 64, .ar [a0, a1, a2, a3] 64]) rfl (wfs2 (wf_ar4 ho0 ho1 ho2 ho3) (wf_ar4 ha0 ha1 ha2 ha3))
    (m_sm2Opp o0 o1 o2 o3 a0 a1 a2 a3) (F := fuelFiat) (by decide +kernel)
  exact ⟨h.1, out4_of (by kernel_rfl) (h.2 _ (by simp))⟩

theorem ir_sm2Mul_eq_gen (o a b : List Nat) (ho : Out4 o) (ha : Out4 a) (hb : Out4 b) :
    Computes prog G X f_fiat_sm2Mul fuelFiat [limbsV o, limbsV a, limbsV b] [limbsV (Gen.FiatP.sm2Mul a b)] ∧ Out4 (Gen.FiatP.sm2Mul a b) := by
  obtain ⟨o0, o1, o2, o3, rfl, ho0, ho1, ho2, ho3⟩ := ho
  obtain ⟨a0, a1, a2, a3, rfl, ha0, ha1, ha2, ha3⟩ := ha
  obtain ⟨b0, b1, b2, b3, rfl, hb0, hb1, hb2, hb3⟩ := hb
  have h := computes_of_mRet (G := G) (X := X) cmP_ok (g := 23) (fn := fn_23) rfl rfl
    (args := [.ar [o0, o1, o2, o3] 64, .ar [a0, a1, a2, a3] 64, .ar [b0, b1, b2, b3] 64]) rfl (wfs3 (wf_ar4 ho0 ho1 ho2 ho3) (wf_ar4 ha0 ha1 ha2 ha3) (wf_ar4 hb0 hb1 hb2 hb3))
    (m_sm2Mul o0 o1 o2 o3 a0 a1 a2 a3 b0 b1 b2 b3) (F := fuelFiat) (by decide +kernel)
  exact ⟨h.1, out4_of (by kernel_rfl) (h.2 _ (by simp))⟩

theorem ir_sm2Square_eq_gen (o a : List Nat) (ho : Out4 o) (ha : Out4 a) :
    Computes prog G X f_fiat_sm2Square fuelFiat [limbsV o, limbsV a] [limbsV (Gen.FiatP.sm2Square a)] ∧ Out4 (Gen.FiatP.sm2Square a) := by
  obtain ⟨o0, o1, o2, o3, rfl, ho0, ho1, ho2, ho3⟩ := ho
  obtain ⟨a0, a1, a2, a3, rfl, ha0, ha1, ha2, ha3⟩ := ha
  have h := computes_of_mRet (G := G) (X := X) cmP_ok (g := 25) (fn := fn_25) rfl rfl
    (args := [.ar [o0, o1, o2, o3] 64, .ar [a0, a1, a2, a3] 64]) rfl (wfs2 (wf_ar4 ho0 ho1 ho2 ho3) (wf_ar4 ha0 ha1 ha2 ha3))
    (m_sm2Square o0 o1 o2 o3 a0 a1 a2 a3) (F := fuelFiat) (by decide +kernel)
  exact ⟨h.1, out4_of (by kernel_rfl) (h.2 _ (by simp))⟩

theorem ir_sm2FromMontgomery_eq_gen (o a : List Nat) (ho : Out4 o) (ha : Out4 a) :
    Computes prog G X f_fiat_sm2FromMontgomery fuelFiat [limbsV o, limbsV a] [limbsV (Gen.FiatP.sm2FromMontgomery a)] ∧ Out4 (Gen.FiatP.sm2FromMontgomery a) := by
  obtain ⟨o0, o1, o2, o3, rfl, ho0, ho1, ho2, ho3⟩ := ho
  obtain ⟨a0, a1, a2, a3, rfl, ha0, ha1, ha2, ha3⟩ := ha
  have h := computes_of_mRet (G := G) (X := X) cmP_ok (g := 30) (fn := fn_30) rfl rfl
    (args := [.ar [o0, o1, o2, o3] 64, .ar [a0, a1, a2, a3] 64]) rfl (wfs2 (wf_ar4 ho0 ho1 ho2 ho3) (wf_ar4 ha0 ha1 ha2 ha3))
    (m_sm2FromMontgomery o0 o1 o2 o3 a0 a1 a2 a3) (F := fuelFiat) (by decide +kernel)
  exact ⟨h.1, out4_of (by kernel_rfl) (h.2 _ (by simp))⟩

theorem ir_sm2ToBytes_eq_gen (o : Bytes) (a : List Nat) (ho : o.length = 32) (ha : Out4 a) :
    Computes prog G X f_fiat_sm2ToBytes fuelFiat [bytesV o, limbsV a] [bytesV ((Gen.FiatP.sm2ToBytes a).map UInt8.ofNat)] ∧
      ((Gen.FiatP.sm2ToBytes a).map UInt8.ofNat).length = 32 := by
  obtain ⟨o0, t0, rfl, q0⟩ := cons_of_len ho
  obtain ⟨o1, t1, rfl, q1⟩ := cons_of_len q0
  obtain ⟨o2, t2, rfl, q2⟩ := cons_of_len q1
  obtain ⟨o3, t3, rfl, q3⟩ := cons_of_len q2
  obtain ⟨o4, t4, rfl, q4⟩ := cons_of_len q3
  obtain ⟨o5, t5, rfl, q5⟩ := cons_of_len q4
  obtain ⟨o6, t6, rfl, q6⟩ := cons_of_len q5
  obtain ⟨o7, t7, rfl, q7⟩ := cons_of_len q6
  obtain ⟨o8, t8, rfl, q8⟩ := cons_of_len q7
  obtain ⟨o9, t9, rfl, q9⟩ := cons_of_len q8
  obtain ⟨o10, t10, rfl, q10⟩ := cons_of_len q9
  obtain ⟨o11, t11, rfl, q11⟩ := cons_of_len q10
  obtain ⟨o12, t12, rfl, q12⟩ := cons_of_len q11
  obtain ⟨o13, t13, rfl, q13⟩ := cons_of_len q12
  obtain ⟨o14, t14, rfl, q14⟩ := cons_of_len q13
  obtain ⟨o15, t15, rfl, q15⟩ := cons_of_len q14
  obtain ⟨o16, t16, rfl, q16⟩ := cons_of_len q15
  obtain ⟨o17, t17, rfl, q17⟩ := cons_of_len q16
  obtain ⟨o18, t18, rfl, q18⟩ := cons_of_len q17
  obtain ⟨o19, t19, rfl, q19⟩ := cons_of_len q18
  obtain ⟨o20, t20, rfl, q20⟩ := cons_of_len q19
  obtain ⟨o21, t21, rfl, q21⟩ := cons_of_len q20
  obtain ⟨o22, t22, rfl, q22⟩ := cons_of_len q21
  obtain ⟨o23, t23, rfl, q23⟩ := cons_of_len q22
  obtain ⟨o24, t24, rfl, q24⟩ := cons_of_len q23
  obtain ⟨o25, t25, rfl, q25⟩ := cons_of_len q24
  obtain ⟨o26, t26, rfl, q26⟩ := cons_of_len q25
  obtain ⟨o27, t27, rfl, q27⟩ := cons_of_len q26
  obtain ⟨o28, t28, rfl, q28⟩ := cons_of_len q27
  obtain ⟨o29, t29, rfl, q29⟩ := cons_of_len q28
  obtain ⟨o30, t30, rfl, q30⟩ := cons_of_len q29
  obtain ⟨o31, t31, rfl, q31⟩ := cons_of_len q30
  have := List.eq_nil_of_length_eq_zero q31; subst this
  obtain ⟨a0, a1, a2, a3, rfl, ha0, ha1, ha2, ha3⟩ := ha
  have h := computes_of_mRet (G := G) (X := X) cmP_ok (g := 31) (fn := fn_31) rfl rfl
    (args := [.ar [o0.toNat, o1.toNat, o2.toNat, o3.toNat, o4.toNat, o5.toNat, o6.toNat, o7.toNat, o8.toNat, o9.toNat, o10.toNat, o11.toNat, o12.toNat, o13.toNat, o14.toNat, o15.toNat, o16.toNat, o17.toNat, o18.toNat, o19.toNat, o20.toNat, o21.toNat, o22.toNat, o23.toNat, o24.toNat, o25.toNat, o26.toNat, o27.toNat, o28.toNat, o29.toNat, o30.toNat, o31.toNat] 8, .ar [a0, a1, a2, a3] 64]) rfl
    (wfs2 (wf_bytes [o0, o1, o2, o3, o4, o5, o6, o7, o8, o9, o10, o11, o12, o13, o14, o15, o16, o17, o18, o19, o20, o21, o22, o23, o24, o25, o26, o27, o28, o29, o30, o31]) (wf_ar4 ha0 ha1 ha2 ha3))
    (m_sm2ToBytes o0.toNat o1.toNat o2.toNat o3.toNat o4.toNat o5.toNat o6.toNat o7.toNat o8.toNat o9.toNat o10.toNat o11.toNat o12.toNat o13.toNat o14.toNat o15.toNat o16.toNat o17.toNat o18.toNat o19.toNat o20.toNat o21.toNat o22.toNat o23.toNat o24.toNat o25.toNat o26.toNat o27.toNat o28.toNat o29.toNat o30.toNat o31.toNat a0 a1 a2 a3) (F := fuelFiat) (by decide +kernel)
  refine ⟨?_, by rw [List.length_map]; kernel_rfl⟩
  have e : natsV (Gen.FiatP.sm2ToBytes [a0, a1, a2, a3]) = bytesV ((Gen.FiatP.sm2ToBytes [a0, a1, a2, a3]).map UInt8.ofNat) :=
    natsV_bytes (h.2 _ (by simp))
  rw [← e]
  exact h.1

theorem ir_sm2FromBytes_eq_gen (o : List Nat) (a : Bytes) (ho : Out4 o) (ha : a.length = 32) :
    Computes prog G X f_fiat_sm2FromBytes fuelFiat [limbsV o, bytesV a] [limbsV (Gen.FiatP.sm2FromBytes (a.map UInt8.toNat))] ∧
      Out4 (Gen.FiatP.sm2FromBytes (a.map UInt8.toNat)) := by
  obtain ⟨o0, o1, o2, o3, rfl, ho0, ho1, ho2, ho3⟩ := ho
  obtain ⟨a0, t0, rfl, q0⟩ := cons_of_len ha
  obtain ⟨a1, t1, rfl, q1⟩ := cons_of_len q0
  obtain ⟨a2, t2, rfl, q2⟩ := cons_of_len q1
  obtain ⟨a3, t3, rfl, q3⟩ := cons_of_len q2
  obtain ⟨a4, t4, rfl, q4⟩ := cons_of_len q3
  obtain ⟨a5, t5, rfl, q5⟩ := cons_of_len q4
  obtain ⟨a6, t6, rfl, q6⟩ := cons_of_len q5
  obtain ⟨a7, t7, rfl, q7⟩ := cons_of_len q6
  obtain ⟨a8, t8, rfl, q8⟩ := cons_of_len q7
  obtain ⟨a9, t9, rfl, q9⟩ := cons_of_len q8
  obtain ⟨a10, t10, rfl, q10⟩ := cons_of_len q9
  obtain ⟨a11, t11, rfl, q11⟩ := cons_of_len q10
  obtain ⟨a12, t12, rfl, q12⟩ := cons_of_len q11
  obtain ⟨a13, t13, rfl, q13⟩ := cons_of_len q12
  obtain ⟨a14, t14, rfl, q14⟩ := cons_of_len q13
  obtain ⟨a15, t15, rfl, q15⟩ := cons_of_len q14
  obtain ⟨a16, t16, rfl, q16⟩ := cons_of_len q15
  obtain ⟨a17, t17, rfl, q17⟩ := cons_of_len q16
  obtain ⟨a18, t18, rfl, q18⟩ := cons_of_len q17
  obtain ⟨a19, t19, rfl, q19⟩ := cons_of_len q18
  obtain ⟨a20, t20, rfl, q20⟩ := cons_of_len q19
  obtain ⟨a21, t21, rfl, q21⟩ := cons_of_len q20
  obtain ⟨a22, t22, rfl, q22⟩ := cons_of_len q21
  obtain ⟨a23, t23, rfl, q23⟩ := cons_of_len q22
  obtain ⟨a24, t24, rfl, q24⟩ := cons_of_len q23
  obtain ⟨a25, t25, rfl, q25⟩ := cons_of_len q24
  obtain ⟨a26, t26, rfl, q26⟩ := cons_of_len q25
  obtain ⟨a27, t27, rfl, q27⟩ := cons_of_len q26
  obtain ⟨a28, t28, rfl, q28⟩ := cons_of_len q27
  obtain ⟨a29, t29, rfl, q29⟩ := cons_of_len q28
  obtain ⟨a30, t30, rfl, q30⟩ := cons_of_len q29
  obtain ⟨a31, t31, rfl, q31⟩ := cons_of_len q30
  have := List.eq_nil_of_length_eq_zero q31; subst this
  have h := computes_of_mRet (G := G) (X := X) cmP_ok (g := 35) (fn := fn_35) rfl rfl
    (args := [.ar [o0, o1, o2, o3] 64, .ar [a0.toNat, a1.toNat, a2.toNat, a3.toNat, a4.toNat, a5.toNat, a6.toNat, a7.toNat, a8.toNat, a9.toNat, a10.toNat, a11.toNat, a12.toNat, a13.toNat, a14.toNat, a15.toNat, a16.toNat, a17.toNat, a18.toNat, a19.toNat, a20.toNat, a21.toNat, a22.toNat, a23.toNat, a24.toNat, a25.toNat, a26.toNat, a27.toNat, a28.toNat, a29.toNat, a30.toNat, a31.toNat] 8]) rfl
    (wfs2 (wf_ar4 ho0 ho1 ho2 ho3) (wf_bytes [a0, a1, a2, a3, a4, a5, a6, a7, a8, a9, a10, a11, a12, a13, a14, a15, a16, a17, a18, a19, a20, a21, a22, a23, a24, a25, a26, a27, a28, a29, a30, a31]))
    (m_sm2FromBytes o0 o1 o2 o3 a0.toNat a1.toNat a2.toNat a3.toNat a4.toNat a5.toNat a6.toNat a7.toNat a8.toNat a9.toNat a10.toNat a11.toNat a12.toNat a13.toNat a14.toNat a15.toNat a16.toNat a17.toNat a18.toNat a19.toNat a20.toNat a21.toNat a22.toNat a23.toNat a24.toNat a25.toNat a26.toNat a27.toNat a28.toNat a29.toNat a30.toNat a31.toNat) (F := fuelFiat) (by decide +kernel)
  exact ⟨h.1, out4_of (by kernel_rfl) (h.2 _ (by simp))⟩

theorem ir_sm2ToMontgomery_eq_gen (o a : List Nat) (ho : Out4 o) (ha : Out4 a) :
    Computes prog G X f_fiat_sm2ToMontgomery fuelFiat [limbsV o, limbsV a] [limbsV (Gen.FiatP.sm2ToMontgomery a)] ∧ Out4 (Gen.FiatP.sm2ToMontgomery a) := by
  obtain ⟨o0, o1, o2, o3, rfl, ho0, ho1, ho2, ho3⟩ := ho
  obtain ⟨a0, a1, a2, a3, rfl, ha0, ha1, ha2, ha3⟩ := ha
  have h := computes_of_mRet (G := G) (X := X) cmP_ok (g := 36) (fn := fn_36) rfl rfl
    (args := [.ar [o0, o1, o2, o3] 64, .ar [a0, a1, a2, a3] 64]) rfl (wfs2 (wf_ar4 ho0 ho1 ho2 ho3) (wf_ar4 ha0 ha1 ha2 ha3))
    (m_sm2ToMontgomery o0 o1 o2 o3 a0 a1 a2 a3) (F := fuelFiat) (by decide +kernel)
  exact ⟨h.1, out4_of (by kernel_rfl) (h.2 _ (by simp))⟩

theorem ir_sm2ScalarSelectznz_eq_gen (o a b : List Nat) (c : Nat) (ho : Out4 o) (hc : c < 18446744073709551616) (ha : Out4 a)
    (hb : Out4 b) :
    Computes prog G X f_fiat_sm2ScalarSelectznz fuelFiat [limbsV o, .int (c : Int), limbsV a, limbsV b] [limbsV (Gen.FiatN.sm2ScalarSelectznz c a b)] ∧
      Out4 (Gen.FiatN.sm2ScalarSelectznz c a b) := by
  obtain ⟨o0, o1, o2, o3, rfl, ho0, ho1, ho2, ho3⟩ := ho
  obtain ⟨a0, a1, a2, a3, rfl, ha0, ha1, ha2, ha3⟩ := ha
  obtain ⟨b0, b1, b2, b3, rfl, hb0, hb1, hb2, hb3⟩ := hb
  have h := computes_of_mRet (G := G) (X := X) cmN_ok (g := 56) (fn := fn_56) rfl rfl
    (args := [.ar [o0, o1, o2, o3] 64, .sc c 64, .ar [a0, a1, a2, a3] 64, .ar [b0, b1, b2, b3] 64]) rfl
    (wfs4 (wf_ar4 ho0 ho1 ho2 ho3) (wf_sc hc) (wf_ar4 ha0 ha1 ha2 ha3) (wf_ar4 hb0 hb1 hb2 hb3))
    (m_sm2ScalarSelectznz o0 o1 o2 o3 c a0 a1 a2 a3 b0 b1 b2 b3) (F := fuelFiat) (by decide +kernel)
  exact ⟨h.1, out4_of (by kernel_rfl) (h.2 _ (by simp))⟩

theorem ir_sm2ScalarSetOne_eq_gen (o : List Nat) (ho : Out4 o) :
    Computes prog G X f_fiat_sm2ScalarSetOne fuelFiat [limbsV o] [limbsV (Gen.FiatN.sm2ScalarSetOne)] ∧ Out4 (Gen.FiatN.sm2ScalarSetOne) := by
  obtain ⟨o0, o1, o2, o3, rfl, ho0, ho1, ho2, ho3⟩ := ho
  have h := computes_of_mRet (G := G) (X := X) cmN_ok (g := 45) (fn := fn_45) rfl rfl
    (args := [.ar [o0, o1, o2, o3] 64]) rfl (wfs1 (wf_ar4 ho0 ho1 ho2 ho3))
    (m_sm2ScalarSetOne o0 o1 o2 o3) (F := fuelFiat) (by decide +kernel)
  exact ⟨h.1, out4_of (by kernel_rfl) (h.2 _ (by simp))⟩

theorem ir_sm2ScalarAdd_eq_gen (o a b : List Nat) (ho : Out4 o) (ha : Out4 a) (hb : Out4 b) :
    Computes prog G X f_fiat_sm2ScalarAdd fuelFiat [limbsV o, limbsV a, limbsV b] [limbsV (Gen.FiatN.sm2ScalarAdd a b)] ∧ Out4 (Gen.FiatN.sm2ScalarAdd a b) := by
  obtain ⟨o0, o1, o2, o3, rfl, ho0, ho1, ho2, ho3⟩ := ho
  obtain ⟨a0, a1, a2, a3, rfl, ha0, ha1, ha2, ha3⟩ := ha
  obtain ⟨b0, b1, b2, b3, rfl, hb0, hb1, hb2, hb3⟩ := hb
  have h := computes_of_mRet (G := G) (X := X) cmN_ok (g := 47) (fn := fn_47) rfl rfl
    (args := [.ar [o0, o1, o2, o3] 64, .ar [a0, a1, a2, a3] 64, .ar [b0, b1, b2, b3] 64]) rfl (wfs3 (wf_ar4 ho0 ho1 ho2 ho3) (wf_ar4 ha0 ha1 ha2 ha3) (wf_ar4 hb0 hb1 hb2 hb3))
    (m_sm2ScalarAdd o0 o1 o2 o3 a0 a1 a2 a3 b0 b1 b2 b3) (F := fuelFiat) (by decide +kernel)
  exact ⟨h.1, out4_of (by kernel_rfl) (h.2 _ (by simp))⟩

theorem ir_sm2ScalarSub_eq_gen (o a b : List Nat) (ho : Out4 o) (ha : Out4 a) (hb : Out4 b) :
    Computes prog G X f_fiat_sm2ScalarSub fuelFiat [limbsV o, limbsV a, limbsV b] [limbsV (Gen.FiatN.sm2ScalarSub a b)] ∧ Out4 (Gen.FiatN.sm2ScalarSub a b) := by
  obtain ⟨o0, o1, o2, o3, rfl, ho0, ho1, ho2, ho3⟩ := ho
  obtain ⟨a0, a1, a2, a3, rfl, ha0, ha1, ha2, ha3⟩ := ha
  obtain ⟨b0, b1, b2, b3, rfl, hb0, hb1, hb2, hb3⟩ := hb
  have h := computes_of_mRet (G := G) (X := X) cmN_ok (g := 50) (fn := fn_50) rfl rfl
    (args := [.ar [o0, o1, o2, o3] 64, .ar [a0, a1, a2, a3] 64, .ar [b0, b1, b2, b3] 64]) rfl (wfs3 (wf_ar4 ho0 ho1 ho2 ho3) (wf_ar4 ha0 ha1 ha2 ha3) (wf_ar4 hb0 hb1 hb2 hb3))
    (m_sm2ScalarSub o0 o1 o2 o3 a0 a1 a2 a3 b0 b1 b2 b3) (F := fuelFiat) (by decide +kernel)
  exact ⟨h.1, out4_of (by kernel_rfl) (h.2 _ (by simp))⟩

theorem ir_sm2ScalarOpp_eq_gen (o a : List Nat) (ho : Out4 o) (ha : Out4 a) :
    Computes prog G X f_fiat_sm2ScalarOpp fuelFiat [limbsV o, limbsV a] [limbsV (Gen.FiatN.sm2ScalarOpp a)] ∧ Out4 (Gen.FiatN.sm2ScalarOpp a) := by
  obtain ⟨o0, o1, o2, o3, rfl, ho0, ho1, ho2, ho3⟩ := ho
  obtain ⟨a0, a1, a2, a3, rfl, ha0, ha1, ha2, ha3⟩ := ha
  have h := computes_of_mRet (G := G) (X := X) cmN_ok (g := 72) (fn := fn_72) rfl rfl
    (args := [.ar [o0, o1, o2, o3] 64, .ar [a0, a1, a2, a3] 64]) rfl (wfs2 (wf_ar4 ho0 ho1 ho2 ho3) (wf_ar4 ha0 ha1 ha2 ha3))
    (m_sm2ScalarOpp o0 o1 o2 o3 a0 a1 a2 a3) (F := fuelFiat) (by decide +kernel)
  exact ⟨h.1, out4_of (by kernel_rfl) (h.2 _ (by simp))⟩

theorem ir_sm2ScalarMul_eq_gen (o a b : List Nat) (ho : Out4 o) (ha : Out4 a) (hb : Out4 b) :
    Computes prog G X f_fiat_sm2ScalarMul fuelFiat [limbsV o, limbsV a, limbsV b] [limbsV (Gen.FiatN.sm2ScalarMul a b)] ∧ Out4 (Gen.FiatN.sm2ScalarMul a b) := by
  obtain ⟨o0, o1, o2, o3, rfl, ho0, ho1, ho2, ho3⟩ := ho
  obtain ⟨a0, a1, a2, a3, rfl, ha0, ha1, ha2, ha3⟩ := ha
  obtain ⟨b0, b1, b2, b3, rfl, hb0, hb1, hb2, hb3⟩ := hb
  have h := computes_of_mRet (G := G) (X := X) cmN_ok (g := 52) (fn := fn_52) rfl rfl
    (args := [.ar [o0, o1, o2, o3] 64, .ar [a0, a1, a2, a3] 64, .ar [b0, b1, b2, b3] 64]) rfl (wfs3 (wf_ar4 ho0 ho1 ho2 ho3) (wf_ar4 ha0 ha1 ha2 ha3) (wf_ar4 hb0 hb1 hb2 hb3))
    (m_sm2ScalarMul o0 o1 o2 o3 a0 a1 a2 a3 b0 b1 b2 b3) (F := fuelFiat) (by decide +kernel)
  exact ⟨h.1, out4_of (by kernel_rfl) (h.2 _ (by simp))⟩

theorem ir_sm2ScalarSquare_eq_gen (o a : List Nat) (ho : Out4 o) (ha : Out4 a) :
    Computes prog G X f_fiat_sm2ScalarSquare fuelFiat [limbsV o, limbsV a] [limbsV (Gen.FiatN.sm2ScalarSquare a)] ∧ Out4 (Gen.FiatN.sm2ScalarSquare a) := by
  obtain ⟨o0, o1, o2, o3, rfl, ho0, ho1, ho2, ho3⟩ := ho
  obtain ⟨a0, a1, a2, a3, rfl, ha0, ha1, ha2, ha3⟩ := ha
  have h := computes_of_mRet (G := G) (X := X) cmN_ok (g := 54) (fn := fn_54) rfl rfl
    (args := [.ar [o0, o1, o2, o3] 64, .ar [a0, a1, a2, a3] 64]) rfl (wfs2 (wf_ar4 ho0 ho1 ho2 ho3) (wf_ar4 ha0 ha1 ha2 ha3))
    (m_sm2ScalarSquare o0 o1 o2 o3 a0 a1 a2 a3) (F := fuelFiat) (by decide +kernel)
  exact ⟨h.1, out4_of (by kernel_rfl) (h.2 _ (by simp))⟩

theorem ir_sm2ScalarFromMontgomery_eq_gen (o a : List Nat) (ho : Out4 o) (ha : Out4 a) :
    Computes prog G X f_fiat_sm2ScalarFromMontgomery fuelFiat [limbsV o, limbsV a] [limbsV (Gen.FiatN.sm2ScalarFromMontgomery a)] ∧ Out4 (Gen.FiatN.sm2ScalarFromMontgomery a) := by
  obtain ⟨o0, o1, o2, o3, rfl, ho0, ho1, ho2, ho3⟩ := ho
  obtain ⟨a0, a1, a2, a3, rfl, ha0, ha1, ha2, ha3⟩ := ha
  have h := computes_of_mRet (G := G) (X := X) cmN_ok (g := 61) (fn := fn_61) rfl rfl
    (args := [.ar [o0, o1, o2, o3] 64, .ar [a0, a1, a2, a3] 64]) rfl (wfs2 (wf_ar4 ho0 ho1 ho2 ho3) (wf_ar4 ha0 ha1 ha2 ha3))
    (m_sm2ScalarFromMontgomery o0 o1 o2 o3 a0 a1 a2 a3) (F := fuelFiat) (by decide +kernel)
  exact ⟨h.1, out4_of (by kernel_rfl) (h.2 _ (by simp))⟩

theorem ir_sm2ScalarToBytes_eq_gen (o : Bytes) (a : List Nat) (ho : o.length = 32) (ha : Out4 a) :
    Computes prog G X f_fiat_sm2ScalarToBytes fuelFiat [bytesV o, limbsV a] [bytesV ((Gen.FiatN.sm2ScalarToBytes a).map UInt8.ofNat)] ∧
      ((Gen.FiatN.sm2ScalarToBytes a).map UInt8.ofNat).length = 32 := by
  obtain ⟨o0, t0, rfl, q0⟩ := cons_of_len ho
  obtain ⟨o1, t1, rfl, q1⟩ := cons_of_len q0
  obtain ⟨o2, t2, rfl, q2⟩ := cons_of_len q1
  obtain ⟨o3, t3, rfl, q3⟩ := cons_of_len q2
  obtain ⟨o4, t4, rfl, q4⟩ := cons_of_len q3
  obtain ⟨o5, t5, rfl, q5⟩ := cons_of_len q4
  obtain ⟨o6, t6, rfl, q6⟩ := cons_of_len q5
  obtain ⟨o7, t7, rfl, q7⟩ := cons_of_len q6
  obtain ⟨o8, t8, rfl, q8⟩ := cons_of_len q7
  obtain ⟨o9, t9, rfl, q9⟩ := cons_of_len q8
  obtain ⟨o10, t10, rfl, q10⟩ := cons_of_len q9
  obtain ⟨o11, t11, rfl, q11⟩ := cons_of_len q10
  obtain ⟨o12, t12, rfl, q12⟩ := cons_of_len q11
  obtain ⟨o13, t13, rfl, q13⟩ := cons_of_len q12
  obtain ⟨o14, t14, rfl, q14⟩ := cons_of_len q13
  obtain ⟨o15, t15, rfl, q15⟩ := cons_of_len q14
  obtain ⟨o16, t16, rfl, q16⟩ := cons_of_len q15
  obtain ⟨o17, t17, rfl, q17⟩ := cons_of_len q16
  obtain ⟨o18, t18, rfl, q18⟩ := cons_of_len q17
  obtain ⟨o19, t19, rfl, q19⟩ := cons_of_len q18
  obtain ⟨o20, t20, rfl, q20⟩ := cons_of_len q19
  obtain ⟨o21, t21, rfl, q21⟩ := cons_of_len q20
  obtain ⟨o22, t22, rfl, q22⟩ := cons_of_len q21
  obtain ⟨o23, t23, rfl, q23⟩ := cons_of_len q22
  obtain ⟨o24, t24, rfl, q24⟩ := cons_of_len q23
  obtain ⟨o25, t25, rfl, q25⟩ := cons_of_len q24
  obtain ⟨o26, t26, rfl, q26⟩ := cons_of_len q25
  obtain ⟨o27, t27, rfl, q27⟩ := cons_of_len q26
  obtain ⟨o28, t28, rfl, q28⟩ := cons_of_len q27
  obtain ⟨o29, t29, rfl, q29⟩ := cons_of_len q28
  obtain ⟨o30, t30, rfl, q30⟩ := cons_of_len q29
  obtain ⟨o31, t31, rfl, q31⟩ := cons_of_len q30
  have := List.eq_nil_of_length_eq_zero q31; subst this
  obtain ⟨a0, a1, a2, a3, rfl, ha0, ha1, ha2, ha3⟩ := ha
  have h := computes_of_mRet (G := G) (X := X) cmN_ok (g := 62) (fn := fn_62) rfl rfl
    (args := [.ar [o0.toNat, o1.toNat, o2.toNat, o3.toNat, o4.toNat, o5.toNat, o6.toNat, o7.toNat, o8.toNat, o9.toNat, o10.toNat, o11.toNat, o12.toNat, o13.toNat, o14.toNat, o15.toNat, o16.toNat, o17.toNat, o18.toNat, o19.toNat, o20.toNat, o21.toNat, o22.toNat, o23.toNat, o24.toNat, o25.toNat, o26.toNat, o27.toNat, o28.toNat, o29.toNat, o30.toNat, o31.toNat] 8, .ar [a0, a1, a2, a3] 64]) rfl
    (wfs2 (wf_bytes [o0, o1, o2, o3, o4, o5, o6, o7, o8, o9, o10, o11, o12, o13, o14, o15, o16, o17, o18, o19, o20, o21, o22, o23, o24, o25, o26, o27, o28, o29, o30, o31]) (wf_ar4 ha0 ha1 ha2 ha3))
    (m_sm2ScalarToBytes o0.toNat o1.toNat o2.toNat o3.toNat o4.toNat o5.toNat o6.toNat o7.toNat o8.toNat o9.toNat o10.toNat o11.toNat o12.toNat o13.toNat o14.toNat o15.toNat o16.toNat o17.toNat o18.toNat o19.toNat o20.toNat o21.toNat o22.toNat o23.toNat o24.toNat o25.toNat o26.toNat o27.toNat o28.toNat o29.toNat o30.toNat o31.toNat a0 a1 a2 a3) (F := fuelFiat) (by decide +kernel)
  refine ⟨?_, by rw [List.length_map]; kernel_rfl⟩
  have e : natsV (Gen.FiatN.sm2ScalarToBytes [a0, a1, a2, a3]) = bytesV ((Gen.FiatN.sm2ScalarToBytes [a0, a1, a2, a3]).map UInt8.ofNat) :=
    natsV_bytes (h.2 _ (by simp))
  rw [← e]
  exact h.1

theorem ir_sm2ScalarFromBytes_eq_gen (o : List Nat) (a : Bytes) (ho : Out4 o) (ha : a.length = 32) :
    Computes prog G X f_fiat_sm2ScalarFromBytes fuelFiat [limbsV o, bytesV a] [limbsV (Gen.FiatN.sm2ScalarFromBytes (a.map UInt8.toNat))] ∧
      Out4 (Gen.FiatN.sm2ScalarFromBytes (a.map UInt8.toNat)) := by
  obtain ⟨o0, o1, o2, o3, rfl, ho0, ho1, ho2, ho3⟩ := ho
  obtain ⟨a0, t0, rfl, q0⟩ := cons_of_len ha
  obtain ⟨a1, t1, rfl, q1⟩ := cons_of_len q0
  obtain ⟨a2, t2, rfl, q2⟩ := cons_of_len q1
  obtain ⟨a3, t3, rfl, q3⟩ := cons_of_len q2
  obtain ⟨a4, t4, rfl, q4⟩ := cons_of_len q3
  obtain ⟨a5, t5, rfl, q5⟩ := cons_of_len q4
  obtain ⟨a6, t6, rfl, q6⟩ := cons_of_len q5
  obtain ⟨a7, t7, rfl, q7⟩ := cons_of_len q6
  obtain ⟨a8, t8, rfl, q8⟩ := cons_of_len q7
  obtain ⟨a9, t9, rfl, q9⟩ := cons_of_len q8
  obtain ⟨a10, t10, rfl, q10⟩ := cons_of_len q9
  obtain ⟨a11, t11, rfl, q11⟩ := cons_of_len q10
  obtain ⟨a12, t12, rfl, q12⟩ := cons_of_len q11
  obtain ⟨a13, t13, rfl, q13⟩ := cons_of_len q12
  obtain ⟨a14, t14, rfl, q14⟩ := cons_of_len q13
  obtain ⟨a15, t15, rfl, q15⟩ := cons_of_len q14
  obtain ⟨a16, t16, rfl, q16⟩ := cons_of_len q15
  obtain ⟨a17, t17, rfl, q17⟩ := cons_of_len q16
  obtain ⟨a18, t18, rfl, q18⟩ := cons_of_len q17
  obtain ⟨a19, t19, rfl, q19⟩ := cons_of_len q18
  obtain ⟨a20, t20, rfl, q20⟩ := cons_of_len q19
  obtain ⟨a21, t21, rfl, q21⟩ := cons_of_len q20
  obtain ⟨a22, t22, rfl, q22⟩ := cons_of_len q21
  obtain ⟨a23, t23, rfl, q23⟩ := cons_of_len q22
  obtain ⟨a24, t24, rfl, q24⟩ := cons_of_len q23
  obtain ⟨a25, t25, rfl, q25⟩ := cons_of_len q24
  obtain ⟨a26, t26, rfl, q26⟩ := cons_of_len q25
  obtain ⟨a27, t27, rfl, q27⟩ := cons_of_len q26
  obtain ⟨a28, t28, rfl, q28⟩ := cons_of_len q27
  obtain ⟨a29, t29, rfl, q29⟩ := cons_of_len q28
  obtain ⟨a30, t30, rfl, q30⟩ := cons_of_len q29
  obtain ⟨a31, t31, rfl, q31⟩ := cons_of_len q30
  have := List.eq_nil_of_length_eq_zero q31; subst this
  have h := computes_of_mRet (G := G) (X := X) cmN_ok (g := 66) (fn := fn_66) rfl rfl
    (args := [.ar [o0, o1, o2, o3] 64, .ar [a0.toNat, a1.toNat, a2.toNat, a3.toNat, a4.toNat, a5.toNat, a6.toNat, a7.toNat, a8.toNat, a9.toNat, a10.toNat, a11.toNat, a12.toNat, a13.toNat, a14.toNat, a15.toNat, a16.toNat, a17.toNat, a18.toNat, a19.toNat, a20.toNat, a21.toNat, a22.toNat, a23.toNat, a24.toNat, a25.toNat, a26.toNat, a27.toNat, a28.toNat, a29.toNat, a30.toNat, a31.toNat] 8]) rfl
    (wfs2 (wf_ar4 ho0 ho1 ho2 ho3) (wf_bytes [a0, a1, a2, a3, a4, a5, a6, a7, a8, a9, a10, a11, a12, a13, a14, a15, a16, a17, a18, a19, a20, a21, a22, a23, a24, a25, a26, a27, a28, a29, a30, a31]))
    (m_sm2ScalarFromBytes o0 o1 o2 o3 a0.toNat a1.toNat a2.toNat a3.toNat a4.toNat a5.toNat a6.toNat a7.toNat a8.toNat a9.toNat a10.toNat a11.toNat a12.toNat a13.toNat a14.toNat a15.toNat a16.toNat a17.toNat a18.toNat a19.toNat a20.toNat a21.toNat a22.toNat a23.toNat a24.toNat a25.toNat a26.toNat a27.toNat a28.toNat a29.toNat a30.toNat a31.toNat) (F := fuelFiat) (by decide +kernel)
  exact ⟨h.1, out4_of (by kernel_rfl) (h.2 _ (by simp))⟩

theorem ir_sm2ScalarToMontgomery_eq_gen (o a : List Nat) (ho : Out4 o) (ha : Out4 a) :
    Computes prog G X f_fiat_sm2ScalarToMontgomery fuelFiat [limbsV o, limbsV a] [limbsV (Gen.FiatN.sm2ScalarToMontgomery a)] ∧ Out4 (Gen.FiatN.sm2ScalarToMontgomery a) := by
  obtain ⟨o0, o1, o2, o3, rfl, ho0, ho1, ho2, ho3⟩ := ho
  obtain ⟨a0, a1, a2, a3, rfl, ha0, ha1, ha2, ha3⟩ := ha
  have h := computes_of_mRet (G := G) (X := X) cmN_ok (g := 67) (fn := fn_67) rfl rfl
    (args := [.ar [o0, o1, o2, o3] 64, .ar [a0, a1, a2, a3] 64]) rfl (wfs2 (wf_ar4 ho0 ho1 ho2 ho3) (wf_ar4 ha0 ha1 ha2 ha3))
    (m_sm2ScalarToMontgomery o0 o1 o2 o3 a0 a1 a2 a3) (F := fuelFiat) (by decide +kernel)
  exact ⟨h.1, out4_of (by kernel_rfl) (h.2 _ (by simp))⟩

end

#print axioms ir_sm2CmovznzU64_eq_gen
#print axioms ir_sm2ScalarCmovznzU64_eq_gen
#print axioms ir_sm2Selectznz_eq_gen
#print axioms ir_sm2SetOne_eq_gen
#print axioms ir_sm2Add_eq_gen
#print axioms ir_sm2Sub_eq_gen
#print axioms ir_sm2Opp_eq_gen
#print axioms ir_sm2Mul_eq_gen
#print axioms ir_sm2Square_eq_gen
#print axioms ir_sm2FromMontgomery_eq_gen
#print axioms ir_sm2ToBytes_eq_gen
#print axioms ir_sm2FromBytes_eq_gen
#print axioms ir_sm2ToMontgomery_eq_gen
#print axioms ir_sm2ScalarSelectznz_eq_gen
#print axioms ir_sm2ScalarSetOne_eq_gen
#print axioms ir_sm2ScalarAdd_eq_gen
#print axioms ir_sm2ScalarSub_eq_gen
#print axioms ir_sm2ScalarOpp_eq_gen
#print axioms ir_sm2ScalarMul_eq_gen
#print axioms ir_sm2ScalarSquare_eq_gen
#print axioms ir_sm2ScalarFromMontgomery_eq_gen
#print axioms ir_sm2ScalarToBytes_eq_gen
#print axioms ir_sm2ScalarFromBytes_eq_gen
#print axioms ir_sm2ScalarToMontgomery_eq_gen

end SMGo.Proofs.CTIRRefineFiat
